/-
  SfProofs.RdwrReopen — after an RDWR session is closed, a fresh read-only open sees exactly the final frames.
-/
import SfProofs.RdwrClose
import SfProofs.RdwrWav
namespace Sf

/-- the handle was created by `sf_open (…, fmt, ch, sr)` on a new file (or a RAW one) -/
structure CfgOf (fmt : Nat) (ch sr : Int) (h : H) : Prop where
  cont : containerOf fmt = some h.container
  enc : encOf h.container (codecOf fmt) h.big = some h.enc
  big : h.big = dataBig h.container fmt
  fmtWord : h.fmtWord = fmt
  chr : 1 ≤ ch ∧ ch ≤ 1024
  srr : 1 ≤ sr
  hch : h.ch = ch.toNat
  hsr : h.sr = sr

theorem CfgOf.congr {fmt : Nat} {ch sr : Int} {h h' : H} (c : CfgOf fmt ch sr h) (sc : SameCfg h h') : CfgOf fmt ch sr h' :=
  ⟨by rw [sc.container]; exact c.cont, by rw [sc.container, sc.big, sc.enc]; exact c.enc,
   by rw [sc.container, sc.big]; exact c.big, by rw [sc.fmtWord]; exact c.fmtWord, c.chr, c.srr, by rw [sc.ch]; exact c.hch,
   by rw [sc.sr]; exact c.hsr⟩

theorem open_rw_cfg (ix : Nat) (s0 : Store) (fmt : Nat) (ch sr : Int) (h : H) (s : Store)
    (ho : openHandle ix s0 .rw fmt ch sr = .ok h s) (hf : s0.bytes = [] ∨ containerOf fmt = some .raw) :
    CfgOf fmt ch sr h := by
  unfold openHandle at ho
  simp only at ho
  split at ho
  · split at ho
    · contradiction
    rename_i c hc
    split at ho
    · contradiction
    rename_i hargs
    split at ho
    · contradiction
    rename_i enc henc
    split at ho
    · contradiction
    rename_i hsr
    split at ho
    · injection ho with e1 e2
      subst e1
      exact ⟨hc, henc, rfl, rfl, by omega, by omega, rfl, rfl⟩
    · rw [writeHeader_au _ _ rfl] at ho
      injection ho with e1 e2
      subst e1
      exact ⟨hc, henc, rfl, rfl, by omega, by omega, rfl, rfl⟩
    · rw [writeHeader_wav _ _ rfl] at ho
      injection ho with e1 e2
      subst e1
      exact ⟨hc, henc, rfl, rfl, by omega, by omega, rfl, rfl⟩
  · rename_i hnf
    exfalso
    apply hnf
    rcases hf with hf | hf
    · left; right; simp [Store.seekSet, hf]
    · right; simp [hf]

/-! ## what the fresh open returns -/

/-- "the re-opened handle `h'` on store `s'` shows the frames `D` of a file whose configuration is `h`'s" -/
structure Reopened (h : H) (F : Nat) (D : List Byte) (h' : H) (s' : Store) : Prop where
  mode : h'.mode = .r
  frames : h'.frames = (F : Int)
  ch : h'.ch = h.ch
  enc : h'.enc = h.enc
  rpos : h'.rpos = 0
  wpos : h'.wpos = 0
  doff : h'.dataoffset = (hdrLenOf h : Nat)
  data : ∃ tail, s'.bytes.drop (hdrLenOf h) = D ++ tail

theorem Reopened.abs {h h' : H} {F : Nat} {D : List Byte} {s' : Store} (r : Reopened h F D h' s')
    (hD : D.length = F * h.bw) : absOf h' s' = { frames := groups h.bw D, rpos := 0, wpos := 0 } := by
  obtain ⟨tail, ht⟩ := r.data
  have eb : h'.bw = h.bw := by unfold H.bw; rw [r.enc, r.ch]
  unfold absOf dataRegion
  rw [r.doff, r.frames, r.rpos, r.wpos, Int.toNat_natCast, Int.toNat_natCast, ht, eb, ← hD, List.take_left' rfl]
  rfl

theorem openHandle_raw_r_full (ix : Nat) (bs : List Byte) (pos fmt : Nat) (ch sr : Int) (enc : Enc)
    (hc : containerOf fmt = some .raw) (hch : 1 ≤ ch ∧ ch ≤ 1024) (hsr : 1 ≤ sr)
    (he : encOf .raw (codecOf fmt) (dataBig .raw fmt) = some enc) :
    ∃ h s', openHandle ix ⟨bs, pos⟩ .r fmt ch sr = .ok h s' ∧
      h.frames = ((bs.length / (enc.nbytes * ch.toNat) : Nat) : Int) ∧ h.ch = ch.toNat ∧ h.enc = enc ∧
      h.mode = .r ∧ h.rpos = 0 ∧ h.wpos = 0 ∧ h.dataoffset = 0 ∧ s'.bytes = bs := by
  have h1 : ¬ (ch < 1 ∨ ch > 1024 ∨ sr < 0) := by omega
  have h2 : ¬ sr < 1 := by omega
  have hbw : 0 < enc.nbytes * ch.toNat := Nat.mul_pos (encOf_nbytes_pos_ct he) (by omega)
  have hfr := initFrames_plain 0 bs.length _ hbw
  simp only [Nat.zero_add, Int.natCast_zero] at hfr
  unfold openHandle
  simp only [hc, he, h1, h2, Store.seekSet]
  simp
  exact ⟨_, _, ⟨rfl, rfl⟩, by simpa using hfr, rfl, rfl, rfl, rfl, rfl, rfl, rfl⟩

theorem RwView.reopen_raw {h : H} {s : Store} {R W F : Nat} {hdr D : List Byte} (v : RwView h s R W F hdr D)
    {fmt : Nat} {ch sr : Int} (cfg : CfgOf fmt ch sr h) (hc : h.container = .raw) (ix pos : Nat) :
    ∃ h' s', openHandle ix ⟨(closeHandle h s).bytes, pos⟩ .r fmt ch sr = .ok h' s' ∧ Reopened h F D h' s' := by
  rw [v.close_raw hc]
  have hcont : containerOf fmt = some .raw := by rw [cfg.cont, hc]
  have henc : encOf .raw (codecOf fmt) (dataBig .raw fmt) = some h.enc := by
    have := cfg.enc
    have hb := cfg.big
    rw [hc] at this hb
    rw [← hb]; exact this
  obtain ⟨h', s', ho, f1, f2, f3, f4, f5, f6, f7, f8⟩ :=
    openHandle_raw_r_full ix D pos fmt ch sr h.enc hcont cfg.chr cfg.srr henc
  refine ⟨h', s', ho, f4, ?_, by rw [f2, cfg.hch], f3, f5, f6, by rw [f7]; simp [hdrLenOf, hc], ⟨[], ?_⟩⟩
  · rw [f1, ← cfg.hch, v.dlen]
    have : h.enc.nbytes * h.ch = h.bw := rfl
    rw [this, Nat.mul_div_cancel _ v.bw_pos]
  · rw [f8]; simp [hdrLenOf, hc]

/-- a read-only open leaves the write position at 0 -/
theorem open_r_wpos (ix : Nat) (s0 : Store) (fmt : Nat) (ch sr : Int) (h : H) (s : Store)
    (ho : openHandle ix s0 .r fmt ch sr = .ok h s) : h.wpos = 0 := by
  unfold openHandle at ho
  simp only at ho
  split at ho
  · split at ho
    · contradiction
    split at ho
    · contradiction
    split at ho
    · contradiction
    split at ho
    · contradiction
    split at ho
    · injection ho with e1 e2
      subst e1; rfl
    · rw [writeHeader_au _ _ rfl] at ho
      injection ho with e1 e2
      subst e1; rfl
    · rw [writeHeader_wav _ _ rfl] at ho
      injection ho with e1 e2
      subst e1; rfl
  · split at ho
    · contradiction
    · contradiction
    split at ho
    · contradiction
    split at ho
    · contradiction
    split at ho
    · contradiction
    injection ho with e1 e2
    subst e1; rfl

theorem RwView.reopen_au {h : H} {s : Store} {R W F : Nat} {hdr D : List Byte} (v : RwView h s R W F hdr D)
    {fmt : Nat} {ch sr : Int} (cfg : CfgOf fmt ch sr h) (hc : h.container = .au) (hsr : sr ≤ 0x7FFFFFFF)
    (ix pos fmt0 : Nat) (ch0 sr0 : Int) (hraw : containerOf fmt0 ≠ some .raw) :
    ∃ h' s', openHandle ix ⟨(closeHandle h s).bytes, pos⟩ .r fmt0 ch0 sr0 = .ok h' s' ∧ Reopened h F D h' s' := by
  rw [v.close_au hc]
  have henc : encOf .au (codecOf h.fmtWord) h.big = some h.enc := by
    have := cfg.enc; rw [hc] at this; rw [cfg.fmtWord]; exact this
  have hcodec := encOf_au_codecs henc
  have hch : 1 ≤ h.ch ∧ h.ch ≤ 1024 := by rw [cfg.hch]; have := cfg.chr; omega
  have hsr' : 1 ≤ h.sr ∧ h.sr ≤ 0x7FFFFFFF := by rw [cfg.hsr]; exact ⟨cfg.srr, hsr⟩
  have hparse := auParse_image h.big (codecOf h.fmtWord) h.sr h.ch D hcodec hch ⟨by omega, hsr'.2⟩
  obtain ⟨hf1, hf2⟩ := au_fmtWord_facts h.big _ hcodec
  obtain ⟨h', s', ho, hfr, h1, _, _, h4, _, h6, h7, h8, h9, _⟩ :=
    openHandle_r_parsed ix _ pos fmt0 ch0 sr0 _ .au h.enc hraw (by rw [parseAny_au]; exact hparse) hf1
      (by rw [hf2]; exact henc) hsr'.1
  have hlen : (auHdr_ct h.big (codecOf h.fmtWord) h.sr h.ch D.length).length = 24 := by
    cases hb : h.big <;> simp [auHdr_ct]
  have hO : hdrLenOf h = 24 := by simp [hdrLenOf, hc]
  refine ⟨h', s', ho, h6, ?_, h1, h4, h8, open_r_wpos _ _ _ _ _ _ _ ho, by rw [h7, hO], ⟨[], ?_⟩⟩
  · rw [hfr]
    have := initFrames_plain 24 D.length (h.enc.nbytes * h.ch) v.bw_pos
    simp only at this ⊢
    rw [this, v.dlen]
    have e : h.enc.nbytes * h.ch = h.bw := rfl
    rw [e, Nat.mul_div_cancel _ v.bw_pos]
  · rw [h9, hO, ← hlen]; simp

theorem hdrLenOf_wav (h : H) (hc : h.container = .wav) (hpk : PeakOk h) :
    hdrLenOf h = wavHdrLen_ct (codecOf h.fmtWord) h.ch h.peak.isSome := by
  cases hp : h.peak with
  | none =>
    simp only [hdrLenOf, hc, wavHdrLen, hp, wavHdrLen_ct, wavFmtLen]
    simp
  | some ps =>
    obtain ⟨a, b⟩ := hpk ps hp
    simp only [hdrLenOf, hc, wavHdrLen, hp, wavHdrLen_ct, wavFmtLen, Option.map_some, a, b]
    simp

theorem wavPeakStart_length (b : Bool) (ch : Nat) (peak : Option (List Peak)) (hp : ∀ ps, peak = some ps → ps.length = ch) :
    (wavPeakStart b ch peak true).length = if peak.isSome then 16 + 8 * ch else 0 := by
  cases peak with
  | none => rfl
  | some ps => simp [wavPeakStart, peakChk_length, hp ps rfl]

theorem RwView.reopen_wav {h : H} {s : Store} {R W F : Nat} {hdr D : List Byte} (v : RwView h s R W F hdr D)
    {fmt : Nat} {ch sr : Int} (cfg : CfgOf fmt ch sr h) (hc : h.container = .wav) (hsr : sr ≤ 0x7FFFFFFF)
    (hguard : D.length < 0xFFFFFFFF)
    (ix pos fmt0 : Nat) (ch0 sr0 : Int) (hraw : containerOf fmt0 ≠ some .raw) :
    ∃ h' s', openHandle ix ⟨(closeHandle h s).bytes, pos⟩ .r fmt0 ch0 sr0 = .ok h' s' ∧ Reopened h F D h' s' := by
  obtain ⟨t2, ht2, _, hcl⟩ := v.close_wav hc
  rw [hcl]
  have henc : encOf .wav (codecOf h.fmtWord) h.big = some h.enc := by
    have := cfg.enc; rw [hc] at this; rw [cfg.fmtWord]; exact this
  obtain ⟨hcodec, hnb⟩ := encOf_wav_facts henc
  have hch : 1 ≤ h.ch ∧ h.ch ≤ 1024 := by rw [cfg.hch]; have := cfg.chr; omega
  have hsr' : 1 ≤ h.sr ∧ h.sr ≤ 0x7FFFFFFF := by rw [cfg.hsr]; exact ⟨cfg.srr, hsr⟩
  generalize hfl : ((hdrLenOf h + D.length + t2 : Nat) : Int) = fl
  generalize hpd : zeros t2 = pad
  have hpl : pad.length ≤ 1 := by rw [← hpd, zeros_length]; exact ht2
  have hpl' : ∀ ps, h.peak = some ps → ps.length = h.ch := fun ps hp => (v.peak ps hp).1
  have himg : wavHdr_ct h.big (codecOf h.fmtWord) h.enc.nbytes h.ch h.sr F h.peak true fl D.length ++ D ++ pad =
      wavChain h.big (codecOf h.fmtWord) (wavNb (codecOf h.fmtWord)) h.ch h.sr (wavFact h.big (codecOf h.fmtWord) F)
        (wavPeakStart h.big h.ch h.peak true) fl D.length (D ++ pad) := by
    rw [List.append_assoc, wavHdr_chain, hnb]
  have hO : hdrLenOf h = 16 + wavFmtLen (codecOf h.fmtWord) + (wavFact h.big (codecOf h.fmtWord) F).length +
      (wavPeakStart h.big h.ch h.peak true).length + 8 := by
    rw [hdrLenOf_wav h hc v.peak, wavPeakStart_length _ _ _ hpl', wavFact_length]; unfold wavHdrLen_ct; omega
  obtain ⟨pk, hparse⟩ := wavParse_chain h.big (codecOf h.fmtWord) h.ch h.sr (wavFact h.big (codecOf h.fmtWord) F)
    (wavPeakStart h.big h.ch h.peak true)
    fl D.length (D ++ pad) hcodec hch (wavFact_shape _ _ _) (wavPeakStart_shape _ _ _ hpl') hguard (by simp) (by simp; omega)
  rw [← hO] at hparse
  obtain ⟨hf1, hf2⟩ := wav_fmtWord_facts h.big _ hcodec
  have hsrw : ((wrapU 32 h.sr : Nat) : Int) = h.sr := wrapU_of_range 32 h.sr (by omega) (by omega)
  rw [himg]
  obtain ⟨h', s', ho, hfr, h1, _, _, h4, _, h6, h7, h8, h9, _⟩ :=
    openHandle_r_parsed ix _ pos fmt0 ch0 sr0 _ .wav h.enc hraw (by rw [parseAny_wav]; exact hparse) hf1
      (by rw [hf2]; exact henc) (by simp only; rw [hsrw]; exact hsr'.1)
  have hhl : (wavHdr_ct h.big (codecOf h.fmtWord) h.enc.nbytes h.ch h.sr F h.peak true fl D.length).length = hdrLenOf h := by
    rw [wavHdr_length _ _ _ _ _ _ _ _ _ hpl', hdrLenOf_wav h hc v.peak]
  have hO0 : 0 < hdrLenOf h := by rw [hO]; omega
  refine ⟨h', s', ho, h6, ?_, h1, h4, h8, open_r_wpos _ _ _ _ _ _ _ ho, by rw [h7], ⟨pad, ?_⟩⟩
  · rw [hfr]
    have hN : D.length / (h.enc.nbytes * h.ch) = F := by
      rw [v.dlen]; exact Nat.mul_div_cancel _ v.bw_pos
    simp only [List.length_append]
    rcases Nat.eq_zero_or_pos pad.length with ht | ht
    · have e1 : ¬ (D.length < D.length + pad.length) := by omega
      have e2 : hdrLenOf h + (D.length + pad.length) = hdrLenOf h + D.length := by omega
      simp only [e1, if_false, e2]
      exact (initFrames_plain (hdrLenOf h) D.length (h.enc.nbytes * h.ch) v.bw_pos).trans (by rw [hN])
    · have e1 : D.length < D.length + pad.length := by omega
      have e2 : hdrLenOf h + (D.length + pad.length) = hdrLenOf h + D.length + pad.length := by omega
      simp only [e1, if_true, e2]
      exact (initFrames_dataend (hdrLenOf h) D.length pad.length (h.enc.nbytes * h.ch) v.bw_pos ht hO0).trans (by rw [hN])
  · rw [h9, ← himg, List.append_assoc, ← hhl]; simp

end Sf

namespace Sf

/-! ## close, then open SFM_RDWR again (the "pre-populated file" of the statement) -/

theorem openHandle_rw_parsed (ix : Nat) (bs : List Byte) (pos : Nat) (fmt0 : Nat) (ch0 sr0 : Int) (p : Parsed)
    (c : Container) (enc : Enc) (hne : bs ≠ [])
    (hraw : containerOf fmt0 ≠ some .raw) (hp : parseAny bs = .ok p) (hc : containerOf p.fmtWord = some c)
    (he : encOf c (codecOf p.fmtWord) p.big = some enc) (hsr : 1 ≤ p.sr) :
    ∃ h' s', openHandle ix ⟨bs, pos⟩ .rw fmt0 ch0 sr0 = .ok h' s' ∧
      h'.frames = (initFrames p.dataoffset p.dataend p.filelength (enc.nbytes * p.ch)).2 ∧
      h'.ch = p.ch ∧ h'.enc = enc ∧ h'.container = c ∧ h'.fmtWord = p.fmtWord ∧ h'.peak = p.peak ∧
      h'.peakAtStart = p.peakAtStart ∧ h'.dataend = p.dataend ∧
      h'.dataoffset = p.dataoffset ∧ s'.bytes = bs := by
  have hraw' : (containerOf fmt0 == some Container.raw) = false := by simpa using hraw
  have hsr' : ¬ p.sr < 1 := by omega
  have hlen : ¬ bs.length = 0 := by intro h0; exact hne (List.eq_nil_of_length_eq_zero h0)
  simp [parseAny] at hp
  unfold openHandle
  simp [Store.seekSet, hraw', hp, hc, he, hsr', hlen]
  exact ⟨_, _, ⟨rfl, rfl⟩, rfl, rfl, rfl, rfl, rfl, rfl, rfl, rfl, rfl, rfl⟩

end Sf

namespace Sf

/-- what an RDWR open of a file holding the `F` frames `D` (encoding `enc`, `chn` channels) starts from -/
structure ReopenedRw (enc : Enc) (chn F : Nat) (D : List Byte) (h' : H) (s' : Store) : Prop where
  inv : RwInv h' s'
  abs : absOf h' s' = { frames := groups (enc.nbytes * chn) D, rpos := 0, wpos := F }
  ch : h'.ch = chn
  enc : h'.enc = enc

theorem ReopenedRw.of_open {enc : Enc} {chn F : Nat} {D : List Byte} {ix : Nat} {s0 : Store} {fmt : Nat} {ch sr : Int}
    {h' : H} {s' : Store} (ho : openHandle ix s0 .rw fmt ch sr = .ok h' s') (hch : h'.ch = chn) (henc : h'.enc = enc)
    (hfr : h'.frames = (F : Int)) (hdo : h'.dataoffset = (hdrLenOf h' : Nat)) (hpk : PeakOk h')
    (t2 : Nat) (htl : TailOk h' t2)
    (hde : h'.container ≠ .wav → h'.dataend = 0) (hD : D.length = F * (enc.nbytes * chn))
    (hdata : s'.bytes.drop (hdrLenOf h') = D ++ zeros t2)
    (hlen : hdrLenOf h' ≤ s'.bytes.length) : ReopenedRw enc chn F D h' s' := by
  have eb : h'.bw = enc.nbytes * chn := by unfold H.bw; rw [henc, hch]
  have hl : s'.bytes.length = hdrLenOf h' + D.length + t2 := by
    have := congrArg List.length hdata
    rw [List.length_drop, List.length_append, zeros_length] at this; omega
  have ht : OpenPadded h' s' := by
    refine ⟨hdo, hpk, hde, t2, htl, by rw [hl, hdo, hfr, hD, eb]; push_cast; rfl, ?_⟩
    have e : s'.bytes.length - t2 = hdrLenOf h' + D.length := by omega
    rw [e, ← List.drop_drop, hdata, List.drop_left' rfl]
  obtain ⟨_, _, hr, _, hw, _, _, _⟩ := open_rw_facts ix s0 fmt ch sr h' s' ho
  refine ⟨RwInv_open_padded ix s0 fmt ch sr h' s' ho ht, ?_, hch, henc⟩
  unfold absOf dataRegion
  rw [hdo, hfr, hr, hw, hfr, Int.toNat_natCast, Int.toNat_natCast, hdata, eb, ← hD, List.take_left' rfl]
  rfl

/-! ### the three images -/

theorem raw_image_open_rw (fmt : Nat) (ch sr : Int) (enc : Enc) (hcont : containerOf fmt = some .raw)
    (hchr : 1 ≤ ch ∧ ch ≤ 1024) (hsrr : 1 ≤ sr) (henc : encOf .raw (codecOf fmt) (dataBig .raw fmt) = some enc)
    (D : List Byte) (F : Nat) (hD : D.length = F * (enc.nbytes * ch.toNat)) (ix pos : Nat) :
    ∃ h' s', openHandle ix ⟨D, pos⟩ .rw fmt ch sr = .ok h' s' ∧ ReopenedRw enc ch.toNat F D h' s' := by
  have h1 : ¬ (ch < 1 ∨ ch > 1024 ∨ sr < 0) := by omega
  have h2 : ¬ sr < 1 := by omega
  have hbw : 0 < enc.nbytes * ch.toNat := Nat.mul_pos (encOf_nbytes_pos_ct henc) (by omega)
  have hex : ∃ h' s', openHandle ix ⟨D, pos⟩ .rw fmt ch sr = .ok h' s' ∧ h'.ch = ch.toNat ∧ h'.enc = enc ∧
      h'.container = .raw := by
    unfold openHandle
    simp only [hcont, henc, h1, h2, Store.seekSet]
    simp
  obtain ⟨h', s', ho, e1, e2, e3⟩ := hex
  obtain ⟨_, _, _, _, _, _, _, hraw⟩ := open_rw_facts ix ⟨D, pos⟩ fmt ch sr h' s' ho
  obtain ⟨a, b, c, d, e⟩ := hraw e3
  have eb : h'.bw = enc.nbytes * ch.toNat := by unfold H.bw; rw [e2, e1]
  have hO : hdrLenOf h' = 0 := by simp [hdrLenOf, e3]
  refine ⟨h', s', ho, ReopenedRw.of_open ho e1 e2 ?_ (by rw [a, hO]; rfl) (fun ps hp => by rw [b] at hp; cases hp) 0
    (Or.inl rfl) (fun _ => c) hD
    (by rw [hO, d]; simp [zeros]) (by rw [hO]; omega)⟩
  rw [e]; simp only; rw [eb, hD, Nat.mul_div_cancel _ hbw]

theorem au_image_open_rw (big : Bool) (codec : Nat) (sr : Int) (chn : Nat) (enc : Enc)
    (henc : encOf .au codec big = some enc) (hch : 1 ≤ chn ∧ chn ≤ 1024) (hsr : 1 ≤ sr ∧ sr ≤ 0x7FFFFFFF)
    (D : List Byte) (F : Nat) (hD : D.length = F * (enc.nbytes * chn))
    (ix pos fmt0 : Nat) (ch0 sr0 : Int) (hraw : containerOf fmt0 ≠ some .raw) :
    ∃ h' s', openHandle ix ⟨auHdr_ct big codec sr chn D.length ++ D, pos⟩ .rw fmt0 ch0 sr0 = .ok h' s' ∧
      ReopenedRw enc chn F D h' s' := by
  have hcodec := encOf_au_codecs henc
  have hbw : 0 < enc.nbytes * chn := Nat.mul_pos (encOf_nbytes_pos_ct henc) (by omega)
  have hparse := auParse_image big codec sr chn D hcodec hch ⟨by omega, hsr.2⟩
  obtain ⟨hf1, hf2⟩ := au_fmtWord_facts big _ hcodec
  have hlen : (auHdr_ct big codec sr chn D.length).length = 24 := by
    cases big <;> simp [auHdr_ct]
  have hne : auHdr_ct big codec sr chn D.length ++ D ≠ [] := by
    intro hc0
    have := congrArg List.length hc0
    rw [List.length_append, hlen] at this; simp at this
  obtain ⟨h', s', ho, hfr, h1, h2, h3, _, h5, _, h7, h8, h9⟩ :=
    openHandle_rw_parsed ix _ pos fmt0 ch0 sr0 _ .au enc hne hraw (by rw [parseAny_au]; exact hparse) hf1
      (by rw [hf2]; exact henc) hsr.1
  have hO : hdrLenOf h' = 24 := by simp [hdrLenOf, h3]
  refine ⟨h', s', ho, ReopenedRw.of_open ho h1 h2 ?_ (by rw [h8, hO]) (fun ps hp => by rw [h5] at hp; cases hp) 0
    (Or.inl rfl) (fun _ => h7) hD ?_ ?_⟩
  · rw [hfr]
    have := initFrames_plain 24 D.length (enc.nbytes * chn) hbw
    simp only at this ⊢
    rw [this, hD, Nat.mul_div_cancel _ hbw]
  · rw [h9, hO, ← hlen]; simp [zeros]
  · rw [h9, hO, List.length_append, hlen]; omega

/-- WAV, with or without a PEAK chunk in front of the data, at most the zero pad byte behind the data -/
theorem wav_image_open_rw (big : Bool) (codec : Nat) (sr : Int) (chn : Nat) (enc : Enc)
    (henc : encOf .wav codec big = some enc) (hch : 1 ≤ chn ∧ chn ≤ 1024) (hsr : 1 ≤ sr ∧ sr ≤ 0x7FFFFFFF)
    (D : List Byte) (F : Nat) (hD : D.length = F * (enc.nbytes * chn)) (hguard : D.length < 0xFFFFFFFF) (fl : Int)
    (peak : Option (List Peak)) (hpl : ∀ ps, peak = some ps → ps.length = chn)
    (t2 : Nat) (ht2 : t2 ≤ 1)
    (ix pos fmt0 : Nat) (ch0 sr0 : Int) (hraw : containerOf fmt0 ≠ some .raw) :
    ∃ h' s', openHandle ix ⟨wavHdr_ct big codec enc.nbytes chn sr F peak true fl D.length ++ D ++ zeros t2, pos⟩ .rw
        fmt0 ch0 sr0 = .ok h' s' ∧ ReopenedRw enc chn F D h' s' := by
  obtain ⟨hcodec, hnb⟩ := encOf_wav_facts henc
  have hbw : 0 < enc.nbytes * chn := Nat.mul_pos (encOf_nbytes_pos_ct henc) (by omega)
  generalize hP : wavPeakStart big chn peak true = P
  have hPl : P.length = if peak.isSome then 16 + 8 * chn else 0 := by rw [← hP]; exact wavPeakStart_length _ _ _ hpl
  have himg : wavHdr_ct big codec enc.nbytes chn sr F peak true fl D.length ++ D ++ zeros t2 =
      wavChain big codec (wavNb codec) chn sr (wavFact big codec F) P fl D.length (D ++ zeros t2) := by
    rw [List.append_assoc, wavHdr_chain, hnb, hP]
  have hO : wavHdrLen_ct codec chn peak.isSome = 16 + wavFmtLen codec + (wavFact big codec F).length + P.length + 8 := by
    rw [hPl, wavFact_length]; unfold wavHdrLen_ct; omega
  -- the parser, with the PEAK table pinned down to what the invariant needs
  obtain ⟨pk, hpk1, hpk2, hparse⟩ : ∃ pk : Option (List Peak), (∀ ps, pk = some ps → ps.length = chn) ∧
      pk.isSome = peak.isSome ∧
      wavParse (wavChain big codec (wavNb codec) chn sr (wavFact big codec F) P fl D.length (D ++ zeros t2)) =
        .ok { fmtWord := (if big then 0x20000000 else 0) + 0x010000 + codec, ch := chn, sr := wrapU 32 sr, big := big,
              dataoffset := 16 + wavFmtLen codec + (wavFact big codec F).length + P.length + 8,
              datalength := ((D.length + D.length % 2 : Nat) : Int),
              dataend := if D.length < (D ++ zeros t2).length then
                ((16 + wavFmtLen codec + (wavFact big codec F).length + P.length + 8 + D.length : Nat) : Int) else 0,
              filelength := ((16 + wavFmtLen codec + (wavFact big codec F).length + P.length + 8 + (D ++ zeros t2).length : Nat) : Int),
              peak := pk, peakAtStart := true } := by
    cases hp : peak with
    | none =>
      have hPn : P = [] := by rw [← hP, hp]; rfl
      exact ⟨none, (fun ps hc => by cases hc), rfl,
        wavParse_chain_nopeak big codec chn sr (wavFact big codec F) P fl D.length (D ++ zeros t2) hcodec hch
          (wavFact_shape _ _ _) hPn hguard (by simp) (by rw [List.length_append, zeros_length]; omega)⟩
    | some ps0 =>
      have hsh := wavPeakStart_shape big chn peak hpl
      rw [hP] at hsh
      have hne : P ≠ [] := by
        intro hc; simp [hc, hp] at hPl; omega
      obtain ⟨ps, hps, hpr⟩ := wavParse_chain_peak big codec chn sr (wavFact big codec F) P fl D.length (D ++ zeros t2)
        hcodec hch (wavFact_shape _ _ _) (hsh.resolve_left hne) hguard (by simp)
        (by rw [List.length_append, zeros_length]; omega)
      exact ⟨some ps, (fun ps' hc => by cases hc; exact hps), rfl, hpr⟩
  rw [← hO] at hparse
  obtain ⟨hf1, hf2⟩ := wav_fmtWord_facts big _ hcodec
  have hsrw : ((wrapU 32 sr : Nat) : Int) = sr := wrapU_of_range 32 sr (by omega) (by omega)
  have hhl : (wavHdr_ct big codec enc.nbytes chn sr F peak true fl D.length).length = wavHdrLen_ct codec chn peak.isSome :=
    wavHdr_length _ _ _ _ _ _ _ _ _ hpl
  have hO0 : 0 < wavHdrLen_ct codec chn peak.isSome := by rw [hO]; omega
  have hne : wavHdr_ct big codec enc.nbytes chn sr F peak true fl D.length ++ D ++ zeros t2 ≠ [] := by
    intro hc0
    have := congrArg List.length hc0
    rw [List.length_append, List.length_append, hhl] at this; simp at this; omega
  rw [himg] at hne ⊢
  obtain ⟨h', s', ho, hfr, h1, h2, h3, h4, h5, h6, h7, h8, h9⟩ :=
    openHandle_rw_parsed ix _ pos fmt0 ch0 sr0 _ .wav enc hne hraw (by rw [parseAny_wav]; exact hparse) hf1
      (by rw [hf2]; exact henc) (by simp only; rw [hsrw]; exact hsr.1)
  have hpok : PeakOk h' := by
    intro ps hp
    rw [h5] at hp
    exact ⟨by rw [h1]; exact hpk1 ps hp, h6⟩
  have hOl : hdrLenOf h' = wavHdrLen_ct codec chn peak.isSome := by
    have e4 : codecOf h'.fmtWord = codec := by rw [h4]; exact hf2
    rw [hdrLenOf_wav h' h3 hpok, e4, h1, h5]
    show wavHdrLen_ct codec chn pk.isSome = _
    rw [hpk2]
  have htl : TailOk h' t2 := by
    rcases Nat.eq_zero_or_pos t2 with hz | hp
    · left; exact hz
    · right; exact ⟨by omega, h3⟩
  refine ⟨h', s', ho, ReopenedRw.of_open ho h1 h2 ?_ (by rw [h8, hOl]) hpok t2 htl (fun hnw => absurd h3 hnw) hD ?_ ?_⟩
  · rw [hfr]
    have hN : D.length / (enc.nbytes * chn) = F := by rw [hD]; exact Nat.mul_div_cancel _ hbw
    simp only [List.length_append, zeros_length]
    rcases Nat.eq_zero_or_pos t2 with ht | ht
    · have e1 : ¬ (D.length < D.length + t2) := by omega
      have e2 : wavHdrLen_ct codec chn peak.isSome + (D.length + t2) = wavHdrLen_ct codec chn peak.isSome + D.length := by omega
      simp only [e1, if_false, e2]
      exact (initFrames_plain (wavHdrLen_ct codec chn peak.isSome) D.length (enc.nbytes * chn) hbw).trans (by rw [hN])
    · have e1 : D.length < D.length + t2 := by omega
      have e2 : wavHdrLen_ct codec chn peak.isSome + (D.length + t2) = wavHdrLen_ct codec chn peak.isSome + D.length + t2 := by omega
      simp only [e1, if_true, e2]
      exact (initFrames_dataend (wavHdrLen_ct codec chn peak.isSome) D.length t2 (enc.nbytes * chn) hbw ht hO0).trans (by rw [hN])
  · rw [h9, hOl, ← himg, List.append_assoc, ← hhl]; simp
  · rw [h9, hOl, ← himg, List.length_append, List.length_append, hhl]; omega

/-! ### … applied to what `closeHandle` leaves -/

theorem RwView.reopen_rw_raw {h : H} {s : Store} {R W F : Nat} {hdr D : List Byte} (v : RwView h s R W F hdr D)
    {fmt : Nat} {ch sr : Int} (cfg : CfgOf fmt ch sr h) (hc : h.container = .raw) (ix pos : Nat) :
    ∃ h' s', openHandle ix ⟨(closeHandle h s).bytes, pos⟩ .rw fmt ch sr = .ok h' s' ∧ ReopenedRw h.enc h.ch F D h' s' := by
  rw [v.close_raw hc, cfg.hch]
  have hcont : containerOf fmt = some .raw := by rw [cfg.cont, hc]
  have henc : encOf .raw (codecOf fmt) (dataBig .raw fmt) = some h.enc := by
    have := cfg.enc
    have hb := cfg.big
    rw [hc] at this hb
    rw [← hb]; exact this
  exact raw_image_open_rw fmt ch sr h.enc hcont cfg.chr cfg.srr henc D F (by rw [← cfg.hch]; exact v.dlen) ix pos

theorem RwView.reopen_rw_au {h : H} {s : Store} {R W F : Nat} {hdr D : List Byte} (v : RwView h s R W F hdr D)
    {fmt : Nat} {ch sr : Int} (cfg : CfgOf fmt ch sr h) (hc : h.container = .au) (hsr : sr ≤ 0x7FFFFFFF)
    (ix pos fmt0 : Nat) (ch0 sr0 : Int) (hraw : containerOf fmt0 ≠ some .raw) :
    ∃ h' s', openHandle ix ⟨(closeHandle h s).bytes, pos⟩ .rw fmt0 ch0 sr0 = .ok h' s' ∧ ReopenedRw h.enc h.ch F D h' s' := by
  rw [v.close_au hc]
  have henc : encOf .au (codecOf h.fmtWord) h.big = some h.enc := by
    have := cfg.enc; rw [hc] at this; rw [cfg.fmtWord]; exact this
  have hch : 1 ≤ h.ch ∧ h.ch ≤ 1024 := by rw [cfg.hch]; have := cfg.chr; omega
  have hsr' : 1 ≤ h.sr ∧ h.sr ≤ 0x7FFFFFFF := by rw [cfg.hsr]; exact ⟨cfg.srr, hsr⟩
  exact au_image_open_rw h.big _ h.sr h.ch h.enc henc hch hsr' D F v.dlen ix pos fmt0 ch0 sr0 hraw

theorem hdrLenOf_wav_nopeak (h : H) (hc : h.container = .wav) (hp : h.peak = none) :
    hdrLenOf h = wavHdrLen_ct (codecOf h.fmtWord) h.ch false := by
  simp only [hdrLenOf, hc, wavHdrLen, hp, wavHdrLen_ct, wavFmtLen]
  simp

/-- WAV: with or without the pad byte -/
theorem RwView.reopen_rw_wav {h : H} {s : Store} {R W F : Nat} {hdr D : List Byte} (v : RwView h s R W F hdr D)
    {fmt : Nat} {ch sr : Int} (cfg : CfgOf fmt ch sr h) (hc : h.container = .wav) (hsr : sr ≤ 0x7FFFFFFF)
    (hguard : D.length < 0xFFFFFFFF)
    (ix pos fmt0 : Nat) (ch0 sr0 : Int) (hraw : containerOf fmt0 ≠ some .raw) :
    ∃ h' s', openHandle ix ⟨(closeHandle h s).bytes, pos⟩ .rw fmt0 ch0 sr0 = .ok h' s' ∧ ReopenedRw h.enc h.ch F D h' s' := by
  obtain ⟨t2, ht2, _, hcl⟩ := v.close_wav hc
  rw [hcl]
  have henc : encOf .wav (codecOf h.fmtWord) h.big = some h.enc := by
    have := cfg.enc; rw [hc] at this; rw [cfg.fmtWord]; exact this
  have hch : 1 ≤ h.ch ∧ h.ch ≤ 1024 := by rw [cfg.hch]; have := cfg.chr; omega
  have hsr' : 1 ≤ h.sr ∧ h.sr ≤ 0x7FFFFFFF := by rw [cfg.hsr]; exact ⟨cfg.srr, hsr⟩
  exact wav_image_open_rw h.big _ h.sr h.ch h.enc henc hch hsr' D F v.dlen hguard _ h.peak
    (fun ps hp => (v.peak ps hp).1) t2 ht2 ix pos fmt0 ch0 sr0 hraw

end Sf
