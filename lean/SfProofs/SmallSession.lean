/-
  Helper lemmas about the shared write session of the small containers (SfModel/SmallSession.lean): what the store
  holds after any list of write calls / header updates, after SFC_UPDATE_HEADER_NOW, and after close.
-/
import SfModel.SmallSession
import SfProofs.Bytes
namespace Sf.Small
open Sf

/-- the header writer emits the same number of bytes whatever the lengths are -/
def Spec.LenOk (sp : Spec) : Prop := ∀ f fl dl, (sp.hdr f fl dl).length = sp.hdrLen

structure Inv (sp : Spec) (s : St) : Prop where
  hlen : s.hdr.length = sp.hdrLen
  tail : s.tail = []
  form : ∃ f fl dl, s.hdr = sp.hdr f fl dl

theorem writeHeader_data (sp : Spec) (s : St) (cl : Bool) : (writeHeader sp s cl).data = s.data := by
  unfold writeHeader; split <;> rfl

theorem writeHeader_tail (sp : Spec) (s : St) (cl : Bool) : (writeHeader sp s cl).tail = s.tail := by
  unfold writeHeader; split <;> rfl

theorem writeHeader_form (sp : Spec) (s : St) (cl : Bool) : ∃ f fl dl, (writeHeader sp s cl).hdr = sp.hdr f fl dl := by
  unfold writeHeader; split <;> exact ⟨_, _, _, rfl⟩

theorem writeHeader_inv (sp : Spec) (hl : sp.LenOk) (s : St) (cl : Bool) (ht : s.tail = []) : Inv sp (writeHeader sp s cl) := by
  refine ⟨?_, by rw [writeHeader_tail]; exact ht, writeHeader_form sp s cl⟩
  obtain ⟨f, fl, dl, h⟩ := writeHeader_form sp s cl
  rw [h]; exact hl f fl dl

theorem inv_open (sp : Spec) (hl : sp.LenOk) (stale : Nat) : Inv sp (openW sp stale) := by
  have h := writeHeader_inv sp hl { frames := if sp.zeroFrames then 0 else stale } false rfl
  unfold openW; exact ⟨h.hlen, h.tail, h.form⟩

theorem open_data (sp : Spec) (stale : Nat) : (openW sp stale).data = [] := by
  unfold openW; simp only [writeHeader_data]

theorem write_data (sp : Spec) (s : St) (enc : List Byte) (auto : Bool) : (write sp s enc auto).data = s.data ++ enc := by
  unfold write
  cases auto <;> simp only [writeHeader_data, Bool.false_eq_true, if_false, if_true] <;> split <;> simp [writeHeader_data]

theorem write_inv (sp : Spec) (hl : sp.LenOk) (s : St) (i : Inv sp s) (enc : List Byte) (auto : Bool) : Inv sp (write sp s enc auto) := by
  unfold write
  have h1 : Inv sp (if s.data.isEmpty then writeHeader sp s false else s) := by
    split
    · exact writeHeader_inv sp hl s false i.tail
    · exact i
  cases auto
  · simp only [Bool.false_eq_true, if_false]
    exact ⟨h1.hlen, h1.tail, h1.form⟩
  · simp only [if_true]
    exact writeHeader_inv sp hl _ true h1.tail

theorem apply_inv (sp : Spec) (hl : sp.LenOk) (s : St) (i : Inv sp s) (op : WOp) : Inv sp (applyOp sp s op) := by
  cases op with
  | write enc auto => exact write_inv sp hl s i enc auto
  | update => exact writeHeader_inv sp hl s true i.tail

theorem apply_data (sp : Spec) (s : St) (op : WOp) : (applyOp sp s op).data = s.data ++ opsData [op] := by
  cases op with
  | write enc auto => simp [applyOp, write_data, opsData]
  | update => simp [applyOp, update, writeHeader_data, opsData]

theorem run_inv (sp : Spec) (hl : sp.LenOk) (ops : List WOp) (s : St) (i : Inv sp s) :
    Inv sp (run sp s ops) ∧ (run sp s ops).data = s.data ++ opsData ops := by
  induction ops generalizing s with
  | nil => exact ⟨i, by simp [run, opsData]⟩
  | cons op r ih =>
    have h := ih (applyOp sp s op) (apply_inv sp hl s i op)
    refine ⟨h.1, ?_⟩
    have : run sp s (op :: r) = run sp (applyOp sp s op) r := rfl
    rw [this, h.2, apply_data]
    cases op <;> simp [opsData]

theorem session_inv (sp : Spec) (hl : sp.LenOk) (stale : Nat) (ops : List WOp) :
    Inv sp (run sp (openW sp stale) ops) ∧ (run sp (openW sp stale) ops).data = opsData ops := by
  have h := run_inv sp hl ops _ (inv_open sp hl stale)
  refine ⟨h.1, ?_⟩
  rw [h.2, open_data]; rfl

theorem tdiv_cast (a b : Nat) : (Int.tdiv (a : Int) (b : Int)).toNat = a / b := by
  rw [Int.tdiv_eq_ediv_of_nonneg (by omega)]
  have : ((a : Int) / (b : Int)) = ((a / b : Nat) : Int) := by simp
  rw [this]; exact Int.toNat_natCast _

theorem tdiv_natCast (a b : Nat) : Int.tdiv (a : Int) (b : Int) = ((a / b : Nat) : Int) := by
  rw [Int.tdiv_eq_ediv_of_nonneg (by omega)]; simp

/-- the codec init on a file of `H` header bytes followed by `B` more bytes (no `dataend`) -/
theorem codecFrames_body (H B bw : Nat) : codecFrames (H + B) (H : Int) 0 (bw : Int) = ((B : Int), ((B / bw : Nat) : Int)) := by
  unfold codecFrames
  by_cases hz : B = 0
  · subst hz; simp
  · have h1 : ((H + B : Nat) : Int) > (H : Int) := by omega
    have e : ((H + B : Nat) : Int) - (H : Int) = (B : Int) := by omega
    simp only [h1, if_true, gt_iff_lt, Int.lt_irrefl, if_false, e]
    by_cases hb : 0 < bw
    · rw [if_pos (by omega), tdiv_natCast]
    · have : bw = 0 := by omega
      subst this; simp

/-- `write_header (psf, SF_TRUE)` on a state whose header has the fixed length -/
theorem writeHeader_calc_bytes (sp : Spec) (hc : sp.useCalc = true) (s : St) (hh : s.hdr.length = sp.hdrLen) :
    (writeHeader sp s true).bytes =
      sp.hdr ((s.data.length + s.tail.length) / sp.bw) ((sp.hdrLen + s.data.length + s.tail.length : Nat) : Int)
        ((s.data.length + s.tail.length : Nat) : Int) ++ s.data ++ s.tail := by
  unfold writeHeader St.bytes
  simp only [hc, and_self, if_true]
  have e1 : ((s.hdr ++ s.data ++ s.tail).length : Int) = ((sp.hdrLen + s.data.length + s.tail.length : Nat) : Int) := by
    simp only [List.length_append, hh]
  have e2 : ((s.hdr ++ s.data ++ s.tail).length : Int) - (sp.hdrLen : Int) = ((s.data.length + s.tail.length : Nat) : Int) := by
    rw [e1]; omega
  rw [e2, e1, tdiv_cast]

theorem snapshot_calc (sp : Spec) (hl : sp.LenOk) (hc : sp.useCalc = true) (stale : Nat) (ops : List WOp) :
    snapshotBytes sp stale ops =
      sp.hdr ((opsData ops).length / sp.bw) ((sp.hdrLen + (opsData ops).length : Nat) : Int) (((opsData ops).length : Nat) : Int) ++ opsData ops := by
  obtain ⟨i, d⟩ := session_inv sp hl stale ops
  unfold snapshotBytes update
  rw [writeHeader_calc_bytes sp hc _ i.hlen, d, i.tail]
  simp

theorem snapshot_any (sp : Spec) (hl : sp.LenOk) (stale : Nat) (ops : List WOp) :
    ∃ f fl dl, snapshotBytes sp stale ops = sp.hdr f fl dl ++ opsData ops := by
  obtain ⟨i, d⟩ := session_inv sp hl stale ops
  obtain ⟨f, fl, dl, h⟩ := writeHeader_form sp (run sp (openW sp stale) ops) true
  refine ⟨f, fl, dl, ?_⟩
  unfold snapshotBytes update St.bytes
  rw [h, writeHeader_data, writeHeader_tail, d, i.tail]; simp

theorem closed_calc (sp : Spec) (hl : sp.LenOk) (hc : sp.useCalc = true) (hch : sp.closeHdr = true) (stale : Nat) (ops : List WOp) :
    closedBytes sp stale ops =
      sp.hdr (((opsData ops).length + sp.term.length) / sp.bw) ((sp.hdrLen + (opsData ops).length + sp.term.length : Nat) : Int)
        (((opsData ops).length + sp.term.length : Nat) : Int) ++ opsData ops ++ sp.term := by
  obtain ⟨i, d⟩ := session_inv sp hl stale ops
  unfold closedBytes close
  simp only [hch, if_true]
  rw [writeHeader_calc_bytes sp hc _ (by exact i.hlen)]
  simp only [d]

theorem closed_noheader (sp : Spec) (hl : sp.LenOk) (hch : sp.closeHdr = false) (stale : Nat) (ops : List WOp) :
    ∃ f fl dl, closedBytes sp stale ops = sp.hdr f fl dl ++ opsData ops := by
  obtain ⟨i, d⟩ := session_inv sp hl stale ops
  obtain ⟨f, fl, dl, h⟩ := i.form
  refine ⟨f, fl, dl, ?_⟩
  unfold closedBytes close St.bytes
  simp only [hch, Bool.false_eq_true, if_false]
  rw [h, d, i.tail]; simp

/-- with `calc_length` honoured the closed bytes and every header-update image are independent of the frames value
    the caller left in SF_INFO -/
theorem stale_ignored_calc (sp : Spec) (hl : sp.LenOk) (hc : sp.useCalc = true) (hch : sp.closeHdr = true) (a b : Nat) (ops : List WOp) :
    closedBytes sp a ops = closedBytes sp b ops ∧ snapshotBytes sp a ops = snapshotBytes sp b ops := by
  rw [closed_calc sp hl hc hch a, closed_calc sp hl hc hch b, snapshot_calc sp hl hc a, snapshot_calc sp hl hc b]
  exact ⟨rfl, rfl⟩

/-! ### slices of `hdr ++ body` -/

theorem slice_left (h body : List Byte) (off n : Nat) (hb : off + n ≤ h.length) : slice (h ++ body) off n = (h.drop off).take n := by
  unfold slice
  have : off + n ≤ (h ++ body).length := by rw [List.length_append]; omega
  rw [if_pos this]
  rw [List.drop_append_of_le_length (by omega), List.take_append_of_le_length (by rw [List.length_drop]; omega)]

/-- a field read back at the place where it was put -/
theorem slice_field (pre fld rest : List Byte) (off n : Nat) (ho : off = pre.length) (hn : n = fld.length) :
    slice (pre ++ (fld ++ rest)) off n = fld := by
  subst ho; subst hn
  unfold slice
  have : pre.length + fld.length ≤ (pre ++ (fld ++ rest)).length := by simp [List.length_append]
  rw [if_pos this]; simp

theorem be32_length (v : Int) : (be32 v).length = 4 := beBytes_length 4 _
theorem be16_length (v : Int) : (be16 v).length = 2 := beBytes_length 2 _
theorem le32_length (v : Int) : (le32 v).length = 4 := leBytes_length 4 _
theorem le16_length (v : Int) : (le16 v).length = 2 := leBytes_length 2 _
theorem le24_length (v : Int) : (le24 v).length = 3 := leBytes_length 3 _
theorem ofBE_be32 (v : Int) : ofBE (be32 v) = wrapU 32 v := by
  unfold be32; rw [ofBE_beBytes]; unfold wrapU
  have : (256 : Nat) ^ 4 = 2 ^ 32 := by decide
  rw [this]; apply Nat.mod_eq_of_lt
  have h2 : (0 : Int) < 2 ^ 32 := by decide
  have := Int.emod_lt_of_pos v h2
  have := Int.emod_nonneg v (show (2 : Int) ^ 32 ≠ 0 by decide)
  omega
theorem ofBE_be16 (v : Int) : ofBE (be16 v) = wrapU 16 v := by
  unfold be16; rw [ofBE_beBytes]; unfold wrapU
  have : (256 : Nat) ^ 2 = 2 ^ 16 := by decide
  rw [this]; apply Nat.mod_eq_of_lt
  have h2 : (0 : Int) < 2 ^ 16 := by decide
  have := Int.emod_lt_of_pos v h2
  have := Int.emod_nonneg v (show (2 : Int) ^ 16 ≠ 0 by decide)
  omega
theorem ofLE_le32 (v : Int) : ofLE (le32 v) = wrapU 32 v := by
  unfold le32; rw [ofLE_leBytes]; unfold wrapU
  have : (256 : Nat) ^ 4 = 2 ^ 32 := by decide
  rw [this]; apply Nat.mod_eq_of_lt
  have h2 : (0 : Int) < 2 ^ 32 := by decide
  have := Int.emod_lt_of_pos v h2
  have := Int.emod_nonneg v (show (2 : Int) ^ 32 ≠ 0 by decide)
  omega
theorem ofLE_le16 (v : Int) : ofLE (le16 v) = wrapU 16 v := by
  unfold le16; rw [ofLE_leBytes]; unfold wrapU
  have : (256 : Nat) ^ 2 = 2 ^ 16 := by decide
  rw [this]; apply Nat.mod_eq_of_lt
  have h2 : (0 : Int) < 2 ^ 16 := by decide
  have := Int.emod_lt_of_pos v h2
  have := Int.emod_nonneg v (show (2 : Int) ^ 16 ≠ 0 by decide)
  omega
theorem ofLE_le24 (v : Int) : ofLE (le24 v) = wrapU 24 v := by
  unfold le24; rw [ofLE_leBytes]; unfold wrapU
  have : (256 : Nat) ^ 3 = 2 ^ 24 := by decide
  rw [this]; apply Nat.mod_eq_of_lt
  have h2 : (0 : Int) < 2 ^ 24 := by decide
  have := Int.emod_lt_of_pos v h2
  have := Int.emod_nonneg v (show (2 : Int) ^ 24 ≠ 0 by decide)
  omega

theorem wrapU_nat (bits : Nat) (v : Nat) (h : v < 2 ^ bits) : wrapU bits (v : Int) = v := by
  unfold wrapU
  have h2 : ((v : Int) % (2 ^ bits : Int)) = v := by
    apply Int.emod_eq_of_lt (by omega)
    have : ((2 ^ bits : Nat) : Int) = (2 : Int) ^ bits := by simp
    omega
  rw [h2]; simp

theorem wrapU_mod (bits : Nat) (v : Nat) : wrapU bits (v : Int) = v % 2 ^ bits := by
  unfold wrapU
  have : ((v : Int) % (2 ^ bits : Int)) = ((v % 2 ^ bits : Nat) : Int) := by simp
  rw [this]; exact Int.toNat_natCast _

end Sf.Small
