/- Helper lemmas for SfProps/C12.lean: fixed-width fields at the front of a byte list. -/
import SfModel.Meta
import SfProofs.Bytes
namespace Sf.Meta

@[simp] theorem le4_length (v : Nat) : (le4 v).length = 4 := leBytes_length 4 v
@[simp] theorem le2_length (v : Nat) : (le2 v).length = 2 := leBytes_length 2 v
@[simp] theorem zeros_length (n : Nat) : (zeros n).length = n := by simp [zeros]

theorem ofLE_le4 {v : Nat} (h : v < 2 ^ 32) : ofLE (le4 v) = v := by
  rw [le4, ofLE_leBytes]; exact Nat.mod_eq_of_lt (by simpa using h)

theorem ofLE_le2 {v : Nat} (h : v < 2 ^ 16) : ofLE (le2 v) = v := by
  rw [le2, ofLE_leBytes]; exact Nat.mod_eq_of_lt (by simpa using h)

/-- a block of known length at the front: `take` -/
theorem take_front {α} (a b : List α) (n : Nat) (h : a.length = n) : (a ++ b).take n = a := by
  subst h; simp

/-- a block of known length at the front: `drop` -/
theorem drop_front {α} (a b : List α) (n : Nat) (h : a.length = n) : (a ++ b).drop n = b := by
  subst h; simp

theorem drop_front_add {α} (a b : List α) (n k : Nat) (h : a.length = n) : (a ++ b).drop (n + k) = b.drop k := by
  subst h; rw [← List.drop_drop]; simp

theorem mk_length (s : String) : (mk s).length = s.toList.length := by simp [mk, ascii]

end Sf.Meta
