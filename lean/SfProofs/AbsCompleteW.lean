/-
  SfProofs.AbsCompleteW — completeness of the write / truncate checkers of SfModel/Abs.lean (the converse of
  AbsWriteLemmas): an answer that satisfies the mathematical write contract (C05.write_contract: the count asked for, no
  error) or the truncate contract (C08Refine.truncate_shortens / truncate_refused_without_ftruncate) IS accepted, and the
  abstract state follows; and the invariant `ref.size = frames · cpf` of the reference streams under every accepted line.
-/
import SfProofs.AbsComplete
import SfProofs.AbsWriteLemmas
namespace Sf.Abs

/-- the state after an accepted valid write of `m` frames -/
def afterWrite (g : Geom) (st : St) (ty : Ty) (m : Nat) (data : Array Item) : St :=
  { st with wpos := st.wpos + m, frames := max st.frames (st.wpos + m), err := false,
            ref := fun t => if t = ty then writeAt 0 (st.ref ty) (st.wpos * g.cpf ty) (data.extract 0 (m * g.ch * cells ty)) else st.ref t,
            valid := fun t => t = ty && (g.lossless ty && st.valid ty && (decide (st.wpos ≤ st.frames) || g.holeZero ty)),
            rawValid := false }

/-- a valid write of `m` frames answered in full with no error is accepted (C05.write_contract is exactly this answer) -/
theorem writeOk_complete (g : Geom) (st : St) (ty : Ty) (fc : Bool) (n : Int) (data : Array Item) (o : Out) (m : Nat)
    (hch : 0 < g.ch) (hm : st.mode ≠ .r)
    (hn : n = if fc then (m : Int) else ((m * g.ch : Nat) : Int)) (hm0 : 0 < m)
    (hsz : m * g.ch * cells ty ≤ data.size) (hret : o.ret = n) (herr : o.err = false) :
    writeOk g st ty fc n data o = .ok (afterWrite g st ty m data) := by
  have hvalid : validReq g fc n = true := by
    unfold validReq
    cases fc with
    | true => simp only [if_true] at hn; subst hn; simp; omega
    | false =>
      simp only [Bool.false_eq_true, if_false] at hn; subst hn
      have : 0 < m * g.ch := Nat.mul_pos hm0 hch
      simp; omega
  have hn0 : ¬ n = 0 := by have := validReq_pos hvalid; omega
  have hreq : reqItems g fc n = m * g.ch := by
    unfold reqItems; cases fc with
    | true => simp only [if_true] at hn ⊢; subst hn; simp
    | false => simp only [Bool.false_eq_true, if_false] at hn ⊢; subst hn; exact Int.toNat_natCast _
  have hitems : retItems g fc o.ret = m * g.ch := by
    rw [hret]
    cases fc with
    | true => simp only [if_true] at hn; rw [hn]; exact retItems_frames g m
    | false => simp only [Bool.false_eq_true, if_false] at hn; rw [hn]; exact retItems_items g m
  have hk : m * g.ch / g.ch = m := Nat.mul_div_cancel _ hch
  have hpos := validReq_pos hvalid
  have hr1 : ¬ (o.ret < 0 ∨ n < o.ret) := by rw [hret]; omega
  have hsz' : ¬ data.size < m * g.ch * cells ty := by omega
  have hm0' : ¬ m = 0 := by omega
  unfold writeOk afterWrite
  simp only [hn0, if_false, hvalid, hm, Bool.not_true, Bool.false_or, decide_false, Bool.false_eq_true, hr1, hitems, hreq,
    Nat.mul_mod_left, ne_eq, not_true_eq_false, hk, hsz', hm0', herr]
  simp [hret]

/-- an invalid write request answered with 0 and an error is accepted; only the error flag changes -/
theorem writeOk_complete_invalid (g : Geom) (st : St) (ty : Ty) (fc : Bool) (n : Int) (data : Array Item) (o : Out)
    (hn : n ≠ 0) (hinv : validReq g fc n = false ∨ st.mode = .r) (hret : o.ret = 0) (herr : o.err = true) :
    writeOk g st ty fc n data o = .ok { st with err := true } := by
  unfold writeOk
  have hc : (!validReq g fc n || decide (st.mode = .r)) = true := by
    rcases hinv with h | h <;> simp [h]
  simp [hn, hc, hret, herr]

/-- a zero-length write answered with 0 is accepted; nothing changes -/
theorem writeOk_complete_zero (g : Geom) (st : St) (ty : Ty) (fc : Bool) (data : Array Item) (o : Out) (hret : o.ret = 0) :
    writeOk g st ty fc 0 data o = .ok st := by
  simp [writeOk, hret]

/-- the state after an accepted truncation to `m` frames -/
def afterTrunc (g : Geom) (st : St) (m : Nat) : St :=
  { st with frames := m, rpos := m, wpos := m, err := false,
            ref := fun t => upTo 0 ((st.ref t).extract 0 (m * g.cpf t)) (m * g.cpf t),
            valid := fun t => st.valid t && (decide (m ≤ st.frames) || g.holeZero t),
            rawValid := st.rawValid && decide (m ≤ st.frames),
            raw := upTo 0 (st.raw.extract 0 (m * g.bw)) (m * g.bw) }

/-- SFC_FILE_TRUNCATE on a route with `ftruncate`, answered 0 with no error, is accepted (C08Refine.truncate_shortens) -/
theorem truncOk_complete (g : Geom) (st : St) (n : Int) (o : Out) (hm : st.mode ≠ .r) (hc : g.canTrunc = true) (hn : 0 ≤ n)
    (hret : o.ret = 0) (herr : o.err = false) : truncOk g st n o = .ok (afterTrunc g st n.toNat) := by
  have h1 : ¬ (st.mode = .r ∨ (!g.canTrunc) = true ∨ n < 0) := by
    intro hx; rcases hx with hx | hx | hx
    · exact hm hx
    · simp [hc] at hx
    · omega
  unfold truncOk afterTrunc
  simp [hret, herr]
  exact ⟨hm, hc, hn⟩

/-- … and where the command is an invalid request (read mode, no `ftruncate`, negative count) a non-zero answer is
    accepted and only the error flag follows the call (C08Refine.truncate_refused_without_ftruncate) -/
theorem truncOk_complete_refused (g : Geom) (st : St) (n : Int) (o : Out)
    (hc : st.mode = .r ∨ g.canTrunc = false ∨ n < 0) (hret : o.ret ≠ 0) :
    truncOk g st n o = .ok { st with err := o.err } := by
  have h1 : st.mode = .r ∨ (!g.canTrunc) = true ∨ n < 0 := by
    rcases hc with hx | hx | hx
    · exact Or.inl hx
    · exact Or.inr (Or.inl (by simp [hx]))
    · exact Or.inr (Or.inr hx)
  unfold truncOk
  simp [hret]
  intro a b
  rcases hc with hx | hx | hx
  · exact absurd hx a
  · rw [hx] at b; cases b
  · exact hx

/-! ## the size invariant of the reference streams -/

/-- every reference stream the state claims to know has exactly `frames · cpf` cells -/
def RefSized (g : Geom) (st : St) : Prop := ∀ t, st.valid t = true → (st.ref t).size = st.frames * g.cpf t

theorem size_upTo_extract (a : Array Item) (p : Nat) : (upTo 0 (a.extract 0 p) p).size = p := size_upTo 0 _ p

/-- `ref.size = frames · cpf` is kept by an accepted valid write … -/
theorem RefSized_afterWrite (g : Geom) (st : St) (ty : Ty) (m : Nat) (data : Array Item) (hs : RefSized g st)
    (hsz : m * g.ch * cells ty ≤ data.size) : RefSized g (afterWrite g st ty m data) := by
  intro t hv
  simp only [afterWrite] at hv ⊢
  simp only [Bool.and_eq_true, decide_eq_true_eq] at hv
  obtain ⟨ht, ⟨_, hvt⟩, _⟩ := hv
  subst ht
  simp only [if_true]
  rw [size_writeAt, hs t hvt, Array.size_extract, Nat.min_eq_left hsz, Nat.sub_zero]
  have : m * g.ch * cells t = m * g.cpf t := by unfold Geom.cpf; rw [Nat.mul_assoc]
  rw [this, ← Nat.add_mul]
  rcases Nat.le_total st.frames (st.wpos + m) with hle | hle
  · rw [Nat.max_eq_right hle, Nat.max_eq_right (Nat.mul_le_mul_right _ hle)]
  · rw [Nat.max_eq_left hle, Nat.max_eq_left (Nat.mul_le_mul_right _ hle)]

/-- … and by an accepted truncation -/
theorem RefSized_afterTrunc (g : Geom) (st : St) (m : Nat) : RefSized g (afterTrunc g st m) := by
  intro t _
  simp only [afterTrunc]
  exact size_upTo 0 _ _

end Sf.Abs
