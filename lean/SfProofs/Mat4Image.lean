/-
  SfProofs.Mat4Image — the binary64 sample rate of MAT4 / MAT5 (`natOfF64 (f64OfNat n) = n`) and `Sf.Mat4.parse` on
  the images the MAT4 writer leaves in the store.
-/
import SfModel.Mat4
import SfProofs.Small2Session
namespace Sf.Mat4
open Sf Sf.Small2

theorem rt_aux (e : Nat) (he : e ≤ 30) (n : Nat) (h1 : 2 ^ e ≤ n) (h2 : n < 2 ^ (e + 1)) :
    natOfF64 ((1023 + e) * 2 ^ 52 + (n - 2 ^ e) * 2 ^ (52 - e)) = some n := by
  have hpow : 2 ^ e * 2 ^ (52 - e) = 2 ^ 52 := by rw [← Nat.pow_add]; congr 1; omega
  have hf : n - 2 ^ e < 2 ^ e := by rw [Nat.pow_succ] at h2; omega
  have hr : (n - 2 ^ e) * 2 ^ (52 - e) < 2 ^ 52 := by
    rw [← hpow]; exact Nat.mul_lt_mul_of_lt_of_le hf (Nat.le_refl _) (Nat.pow_pos (by decide))
  have hp52 : 0 < 2 ^ 52 := Nat.pow_pos (by decide)
  have hdiv : ((1023 + e) * 2 ^ 52 + (n - 2 ^ e) * 2 ^ (52 - e)) / 2 ^ 52 = 1023 + e := by
    rw [Nat.add_comm, Nat.add_mul_div_right _ _ hp52, Nat.div_eq_of_lt hr, Nat.zero_add]
  have hmod : ((1023 + e) * 2 ^ 52 + (n - 2 ^ e) * 2 ^ (52 - e)) % 2 ^ 52 = (n - 2 ^ e) * 2 ^ (52 - e) := by
    rw [Nat.add_comm, Nat.add_mul_mod_self_right, Nat.mod_eq_of_lt hr]
  have hb : (1023 + e) * 2 ^ 52 + (n - 2 ^ e) * 2 ^ (52 - e) ≠ 0 := by
    have : 0 < (1023 + e) * 2 ^ 52 := Nat.mul_pos (by omega) hp52
    omega
  have hs : ((1023 + e) * 2 ^ 52 + (n - 2 ^ e) * 2 ^ (52 - e)) / 2 ^ 63 = 0 := by
    apply Nat.div_eq_of_lt
    have : (1023 + e) * 2 ^ 52 ≤ 1053 * 2 ^ 52 := Nat.mul_le_mul_right _ (by omega)
    have e63 : (2:Nat) ^ 63 = 2048 * 2 ^ 52 := by decide
    omega
  unfold natOfF64
  rw [if_neg hb]
  simp only [hdiv, hmod, hs]
  have hE : (1023 + e) % 2048 = 1023 + e := Nat.mod_eq_of_lt (by omega)
  have hsub : 1023 + e - 1023 = e := by omega
  rw [hE, hsub, Nat.mul_mod_left, Nat.mul_div_cancel _ (Nat.pow_pos (by decide))]
  have : 2 ^ e + (n - 2 ^ e) = n := by omega
  rw [this, if_pos ⟨trivial, by omega, by omega, rfl⟩]

theorem natOfF64_f64OfNat (n : Nat) (h1 : 1 ≤ n) (h2 : n < 2 ^ 31) : natOfF64 (f64OfNat n) = some n := by
  have hn : n ≠ 0 := by omega
  unfold f64OfNat
  rw [if_neg hn]
  have hlo := Nat.log2_self_le hn
  have hhi := Nat.lt_log2_self (n := n)
  have he : Nat.log2 n ≤ 30 := by
    rcases Nat.lt_or_ge (Nat.log2 n) 31 with h | h
    · omega
    · have : 2 ^ 31 ≤ 2 ^ Nat.log2 n := Nat.pow_le_pow_right (by decide) h
      omega
  exact rt_aux _ he n hlo hhi

theorem f64OfNat_lt (n : Nat) (h2 : n < 2 ^ 31) : f64OfNat n < 2 ^ 64 := by
  unfold f64OfNat
  split
  · decide
  · rename_i hn
    show (1023 + Nat.log2 n) * 2 ^ 52 + (n - 2 ^ Nat.log2 n) * 2 ^ (52 - Nat.log2 n) < 2 ^ 64
    have hlo := Nat.log2_self_le hn
    have hhi := Nat.lt_log2_self (n := n)
    have he : Nat.log2 n ≤ 30 := by
      rcases Nat.lt_or_ge (Nat.log2 n) 31 with h | h
      · omega
      · have : 2 ^ 31 ≤ 2 ^ Nat.log2 n := Nat.pow_le_pow_right (by decide) h
        omega
    have hpow : 2 ^ Nat.log2 n * 2 ^ (52 - Nat.log2 n) = 2 ^ 52 := by rw [← Nat.pow_add]; congr 1; omega
    have hf : n - 2 ^ Nat.log2 n < 2 ^ Nat.log2 n := by rw [Nat.pow_succ] at hhi; omega
    have hr : (n - 2 ^ Nat.log2 n) * 2 ^ (52 - Nat.log2 n) < 2 ^ 52 := by
      rw [← hpow]; exact Nat.mul_lt_mul_of_lt_of_le hf (Nat.le_refl _) (Nat.pow_pos (by decide))
    have : (1023 + Nat.log2 n) * 2 ^ 52 ≤ 1053 * 2 ^ 52 := Nat.mul_le_mul_right _ (by omega)
    have e64 : (2:Nat) ^ 64 = 4096 * 2 ^ 52 := by decide
    omega

/-! ### fields in the byte order of the file -/

theorem w32_length (l : Bool) (v : Int) : (w32 l v).length = 4 := by cases l <;> simp [w32]
theorem w64_length (l : Bool) (v : Nat) : (w64 l v).length = 8 := by cases l <;> simp [w64, leBytes_length, beBytes_length]
theorem typeWord_length (l : Bool) (k : Nat) : (typeWord l k).length = 4 := by cases l <;> simp [typeWord]

theorem r32_w32 (l : Bool) (v : Int) : r32 l (w32 l v) = wrapU 32 v := by
  cases l <;> simp [r32, w32, ofLE_le32, ofBE_be32]

theorem r32_w64 (l : Bool) (v : Nat) (h : v < 2 ^ 64) : r32 l (w64 l v) = v := by
  have e : (256 : Nat) ^ 8 = 2 ^ 64 := by decide
  cases l <;> simp only [r32, w64, ofLE_leBytes, ofBE_beBytes, e, if_true, if_false, Bool.false_eq_true] <;> exact Nat.mod_eq_of_lt h

theorem typeWord0 (l : Bool) : typeWord l 0 = if l then [0, 0, 0, 0] else [0, 0, 0x03, 0xE8] := by cases l <;> decide

theorem codecOf_typeWord (l : Bool) (codec : Nat) (hc : codec = 2 ∨ codec = 4 ∨ codec = 6 ∨ codec = 7) :
    codecOf (typeWord l (typeIdx codec)) = some (codec, bytewidth codec) := by
  rcases hc with h | h | h | h <;> subst h <;> cases l <;> decide

theorem lawful (c : Cfg) : Lawful (fmt c) where
  hlen := by intro f; simp [fmt, hdr, w32_length, w64_length, typeWord_length, srName, wdName]
  hindep := by intro n f g; rfl

theorem guess_image (c : Cfg) (f : Fields) (data : List Byte) : guess (hdr c f ++ data) = some (.fmt 0x0C0000) := by
  have a1 : le32 1 = [1, 0, 0, 0] := by decide
  have a2 : be32 1 = [0, 0, 0, 1] := by decide
  unfold hdr
  cases c.little
  · simp only [typeWord0, w32, Bool.false_eq_true, if_false, a2, List.append_assoc]; rfl
  · simp only [typeWord0, w32, if_true, a1, List.append_assoc]; rfl

/-- the header a `calc_length` rewrite puts in front of `D` audio bytes -/
theorem calcHdr_eq (c : Cfg) (D : Nat) :
    calcHdr (fmt c) (68 + D) = hdr c { frames := ((D / c.bw : Nat) : Int), filelength := ((68 + D : Nat) : Int), datalength := (D : Nat) } := by
  show hdr c _ = hdr c _
  have e : (((68 + D : Nat) : Int) - 68) = ((D : Nat) : Int) := by push_cast; omega
  have : (((68 + D : Nat) : Int) - 68) / ((c.bw : Nat) : Int) = ((D / c.bw : Nat) : Int) := by rw [e, ← Int.natCast_ediv]
  unfold hdr
  simp only [fmt, this]

/-- mat4_read_header on `header ++ data` when the header's frame count matches the audio that follows -/
theorem parse_image (c : Cfg) (hwf : c.wf) (F : Nat) (f : Fields) (hf : f.frames = (F : Nat)) (hF : F < 2 ^ 31) (data : List Byte)
    (hd : data.length = F * c.bw) :
    parse (hdr c f ++ data) = .ok { ch := c.ch, fmt := c.fmtWord, sr := c.sr, frames := F } := by
  obtain ⟨hc, _, hch1, hch2, hsr1, hsr2⟩ := hwf
  have hlen : (hdr c f ++ data).length = 68 + data.length := by
    simp [hdr, w32_length, w64_length, typeWord_length, srName, wdName]; omega
  have hbwpos : 0 < bytewidth c.codec := by unfold bytewidth; split <;> (try split) <;> omega
  have hbw : 0 < c.bw := Nat.mul_pos hbwpos hch1
  unfold parse
  rw [if_neg (by omega), guess_image]
  simp only []
  have e : hdr c f ++ data = typeWord c.little 0 ++ (w32 c.little 1 ++ (w32 c.little 1 ++ (w32 c.little 0 ++ (w32 c.little 11 ++ (srName ++
      (w64 c.little (f64OfNat c.sr) ++ (typeWord c.little (typeIdx c.codec) ++ (w32 c.little c.ch ++ (w32 c.little f.frames ++
      (w32 c.little 0 ++ (w32 c.little 9 ++ (wdName ++ data)))))))))))) := by simp [hdr]
  unfold readHeader
  rw [hlen, if_neg (by omega), e]
  simp only [cut_append _ _ 4 (typeWord_length _ _), cut_append _ _ 4 (w32_length _ _)]
  have hm1 : ¬ (typeWord c.little 0 ≠ [0, 0, 0x03, 0xE8] ∧ typeWord c.little 0 ≠ [0, 0, 0, 0]) := by
    rw [typeWord0]; cases c.little <;> simp
  have hlit : decide (typeWord c.little 0 = [0, 0, 0, 0]) = c.little := by rw [typeWord0]; cases c.little <;> simp
  rw [if_neg hm1, hlit]
  have w11 : wrapU 32 11 = 11 := by decide
  have w9 : wrapU 32 9 = 9 := by decide
  have w1 : wrapU 32 1 = 1 := by decide
  simp only [r32_w32, w11, w1]
  rw [if_neg (by decide), if_neg (by omega)]
  simp only [cut_append srName _ 11 rfl, cut_append _ _ 8 (w64_length _ _), cut_append _ _ 4 (typeWord_length _ _), cut_append _ _ 4 (w32_length _ _),
    r32_w32, w9]
  rw [if_neg (by decide), if_neg (by decide), if_neg (by omega)]
  rw [r32_w64 _ _ (f64OfNat_lt c.sr (by omega)), natOfF64_f64OfNat c.sr hsr1 (by omega), codecOf_typeWord _ _ hc]
  have hchw : wrapU 32 ((c.ch : Nat) : Int) = c.ch := wrapU_nat 32 _ (by omega)
  have hfrw : wrapU 32 f.frames = F := by rw [hf]; exact wrapU_nat 32 _ (by omega)
  rw [hchw, hfrw, sext_small' c.ch (by omega), sext_small' F hF]
  simp only []
  have g1 : ¬ (((c.ch : Nat) : Int) = 0 ∨ ((c.ch : Nat) : Int) > 1024) := by omega
  rw [if_neg g1]
  -- the file holds exactly rows * cols * bytewidth bytes of audio: dataend stays 0
  have hroom : ((68 + data.length : Nat) : Int) - ((20 + 11 + 8 + 20 + 9 : Nat) : Int) = ((data.length : Nat) : Int) := by push_cast; omega
  have hneed : ((c.ch : Nat) : Int) * ((F : Nat) : Int) * ((bytewidth c.codec : Nat) : Int) = ((data.length : Nat) : Int) := by
    rw [hd]; unfold Cfg.bw; push_cast; rw [Int.mul_comm ((c.ch : Nat) : Int), Int.mul_assoc, Int.mul_comm ((c.ch : Nat) : Int)]
  rw [hroom, hneed, if_neg (by omega)]
  have hde : ¬ (((data.length : Nat) : Int) > ((data.length : Nat) : Int)) := by omega
  rw [if_neg hde]
  have hfr := framesOf_nat 68 data.length c.bw hbw
  have hbwi : ((bytewidth c.codec : Nat) : Int) * ((c.ch : Nat) : Int) = ((c.bw : Nat) : Int) := by unfold Cfg.bw; push_cast; rfl
  rw [hbwi, show ((20 + 11 + 8 + 20 + 9 : Nat) : Int) = ((68 : Nat) : Int) from rfl, hfr, hd, Nat.mul_div_cancel _ hbw]
  simp [Cfg.fmtWord]

end Sf.Mat4
