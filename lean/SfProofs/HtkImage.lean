/-
  SfProofs.HtkImage — `Sf.Htk.parse` on the images the HTK writer leaves in the store.
-/
import SfModel.Htk
import SfProofs.Small2Session
namespace Sf.Htk
open Sf Sf.Small2

theorem lawful (sr : Nat) : Lawful (fmt sr) where
  hlen := by intro f; simp [fmt, hdr]
  hindep := by intro n f g; rfl

theorem sampleCount_nat (D : Nat) : sampleCount ((12 + D : Nat) : Int) = ((D / 2 : Nat) : Int) := by
  unfold sampleCount
  split
  · push_cast; omega
  · have : D = 0 := by omega
    subst this; rfl

/-- the header a `calc_length` rewrite puts in front of `D` audio bytes -/
theorem calcHdr_eq (sr D : Nat) : calcHdr (fmt sr) (12 + D) = be32 (D / 2 : Nat) ++ be32 (period sr) ++ be32 0x20000 := by
  show hdr sr _ = _
  unfold hdr
  show be32 (sampleCount ((12 + D : Nat) : Int)) ++ _ ++ _ = _
  rw [sampleCount_nat]

theorem be32_marker : be32 0x20000 = [0, 2, 0, 0] := by decide

theorem period_le (sr : Nat) : period sr ≤ 10000000 := Nat.div_le_self _ _

theorem sext_small (v : Nat) (h : v < 2 ^ 31) : sext 32 v = v := by
  unfold sext; simp; omega

/-- none of the tests in front of the HTK test answers "HTK" -/
theorem preHtk_ne_htk (a b c : List Byte) : preHtk a b c ≠ some (.fmt 0x100000) := by
  intro h
  unfold preHtk at h
  obtain ⟨r, hr, hres⟩ := Option.map_eq_some_iff.mp h
  have hm : r.res ∈ rules.map (·.res) := List.mem_map_of_mem (List.mem_of_find?_eq_some hr)
  rw [hres] at hm
  revert hm; decide

/-- the image `header ++ data` of an HTK writer, seen by the type detection -/
theorem guess_image (sr : Nat) (data : List Byte) (he : data.length % 2 = 0) (h31 : 12 + data.length < 2 ^ 31) :
    guess (be32 (data.length / 2 : Nat) ++ be32 (period sr) ++ be32 0x20000 ++ data) =
      match preHtk (be32 (data.length / 2 : Nat)) (be32 (period sr)) [0, 2, 0, 0] with
      | some g => some g
      | none => some (.fmt 0x100000) := by
  have e : be32 (data.length / 2 : Nat) ++ be32 (period sr) ++ be32 0x20000 ++ data =
      be32 (data.length / 2 : Nat) ++ (be32 (period sr) ++ (be32 0x20000 ++ data)) := by simp
  unfold guess
  rw [e]
  simp only [take_append_len _ _ 4 (be32_length _), drop_append_len _ _ 4 (be32_length _)]
  have d8 : (be32 (data.length / 2 : Nat) ++ (be32 (period sr) ++ (be32 0x20000 ++ data))).drop 8 = be32 0x20000 ++ data := by
    have : (8 : Nat) = 4 + 4 := rfl
    rw [this, ← List.drop_drop, drop_append_len _ _ 4 (be32_length _), drop_append_len _ _ 4 (be32_length _)]
  rw [d8, take_append_len _ _ 4 (be32_length _), be32_marker]
  cases preHtk (be32 (data.length / 2 : Nat)) (be32 (period sr)) [0, 2, 0, 0] with
  | some g => rfl
  | none =>
    have hN : data.length / 2 < 2 ^ 32 := by omega
    simp only [ofBE_be32, wrapU_nat 32 _ hN, List.length_append, be32_length, List.length_cons, List.length_nil]
    have : 2 * (data.length / 2) + 12 = 4 + (4 + (0 + 1 + 1 + 1 + 1 + data.length)) := by omega
    simp [this]

/-- htk_read_header on the image -/
theorem readHeader_image (sr : Nat) (data : List Byte) (he : data.length % 2 = 0) (h31 : 12 + data.length < 2 ^ 31) :
    readHeader (be32 (data.length / 2 : Nat) ++ be32 (period sr) ++ be32 0x20000 ++ data) =
      .ok { ch := 1, fmt := 0x100002, sr := quant sr, frames := data.length / 2 } := by
  have e : be32 (data.length / 2 : Nat) ++ be32 (period sr) ++ be32 0x20000 ++ data =
      be32 (data.length / 2 : Nat) ++ (be32 (period sr) ++ (be32 0x20000 ++ data)) := by simp
  have hlen : (be32 (data.length / 2 : Nat) ++ (be32 (period sr) ++ (be32 0x20000 ++ data))).length = 12 + data.length := by
    simp; omega
  have hN : data.length / 2 < 2 ^ 32 := by omega
  have hP : period sr < 2 ^ 32 := by have := period_le sr; omega
  unfold readHeader
  rw [e]
  simp only [cut_append _ _ 4 (be32_length _), hlen, ofBE_be32, wrapU_nat 32 _ hN, wrapU_nat 32 _ hP]
  rw [sext_small (data.length / 2) (by omega), sext_small (period sr) (by have := period_le sr; omega)]
  have h1 : ¬ (2 * ((data.length / 2 : Nat) : Int) + 12 ≠ ((12 + data.length : Nat) : Int)) := by push_cast; omega
  have h2 : ¬ (wrapU 32 0x20000 ≠ 0x20000) := by decide
  rw [if_neg h1, if_neg h2]
  have hfr : (framesOf ((12 + data.length : Nat) : Int) 12 0 2).toNat = data.length / 2 := by
    unfold framesOf
    by_cases hz : data.length = 0
    · rw [hz]; decide
    · have : ((12 + data.length : Nat) : Int) > 12 := by push_cast; omega
      have e2 : ((12 + data.length : Nat) : Int) - 12 = ((data.length : Nat) : Int) := by push_cast; omega
      have h0 : ¬ ((0 : Int) > 0) := by decide
      have h2 : (2 : Int) > 0 := by decide
      rw [if_pos this, if_neg h0, if_pos h2, e2]
      have : ((data.length : Nat) : Int).tdiv 2 = ((data.length / 2 : Nat) : Int) := by
        rw [Int.tdiv_eq_ediv_of_nonneg (Int.natCast_nonneg _)]; rfl
      rw [this]; exact Int.toNat_natCast _
  by_cases hp : period sr > 0
  · have hq : quant sr = 10000000 / period sr := by simp [quant, hp]
    have hpi : ((period sr : Nat) : Int) > 0 := by exact_mod_cast hp
    have hdiv : (10000000 : Int) / ((period sr : Nat) : Int) = ((10000000 / period sr : Nat) : Int) :=
      (Int.natCast_ediv 10000000 (period sr)).symm
    have hge : 1 ≤ 10000000 / period sr := by
      have := period_le sr
      exact (Nat.le_div_iff_mul_le hp).2 (by omega)
    have h3 : ¬ (((10000000 / period sr : Nat) : Int) < 1) := by omega
    rw [if_pos hpi, hdiv, if_neg h3, hfr, hq, Int.toNat_natCast]
  · have hq : quant sr = 16000 := by simp [quant, hp]
    have hpi : ¬ (((period sr : Nat) : Int) > 0) := by omega
    have h3 : ¬ ((16000 : Int) < 1) := by decide
    rw [if_neg hpi, if_neg h3, hfr, hq]; rfl

end Sf.Htk
