/-
  SfProofs.AlacEscape — the uncompressed ("escape") elements of the ALAC model: what `encMonoEsc` / `encPairEsc` write,
  `decMono` / `decPair` read back (sample, sample list, header, element).
-/
import SfProofs.AlacBits
namespace Sf.AlacCore

/-- a C `int32_t` -/
def I32 (x : Int) : Prop := -2147483648 ≤ x ∧ x < 2147483648

def Depth (d : Nat) : Prop := d = 16 ∨ d = 20 ∨ d = 24 ∨ d = 32

theorem read_split (V a b : Nat) (rest : Bits) (p : Nat) :
    (Rd.mk (bitsOf V (a + b) ++ rest) p).read a = (V / 2 ^ b % 2 ^ a, Rd.mk (bitsOf V b ++ rest) (p + a)) := by
  rw [bitsOf_split, List.append_assoc, read_bitsOf]

/-- one uncompressed sample: written by the encoder as `depth` bits of `x >> (32 - depth)`, read back as that value -/
theorem rdEscSample_enc {depth : Nat} (hd : Depth depth) {x : Int} (hx : I32 x) (rest : Bits) (p : Nat) :
    rdEscSample depth ⟨escSampleBits depth depth x ++ rest, p⟩ = (asr x (32 - depth), ⟨rest, p + depth⟩) := by
  obtain ⟨h1, h2⟩ := hx
  rcases hd with rfl | rfl | rfl | rfl
  · simp only [rdEscSample, escSampleBits, read_bitsOf, Nat.le_refl, if_true]
    simp only [sext, wrapU, asr, Prod.mk.injEq, and_true]
    norm_num
    omega
  · unfold rdEscSample escSampleBits
    rw [if_neg (by decide), show (20 : Nat) - 16 = 4 from rfl]
    rw [show bitsOf (wrapU 32 (asr x (32 - 20))) 20 = bitsOf (wrapU 32 (asr x (32 - 20))) (16 + 4) from rfl]
    rw [read_split]
    simp only [read_bitsOf]
    unfold shl32 wrapS wrapU asr
    simp only [Nat.reduceSub, Nat.reducePow, Int.reducePow, Prod.mk.injEq]
    refine ⟨?_, trivial⟩
    split <;> omega
  · unfold rdEscSample escSampleBits
    rw [if_neg (by decide), show (24 : Nat) - 16 = 8 from rfl]
    rw [show bitsOf (wrapU 32 (asr x (32 - 24))) 24 = bitsOf (wrapU 32 (asr x (32 - 24))) (16 + 8) from rfl]
    rw [read_split]
    simp only [read_bitsOf]
    unfold shl32 wrapS wrapU asr
    simp only [Nat.reduceSub, Nat.reducePow, Int.reducePow, Prod.mk.injEq]
    refine ⟨?_, trivial⟩
    split <;> omega
  · unfold rdEscSample escSampleBits
    rw [if_neg (by decide), show (32 : Nat) - 16 = 16 from rfl]
    rw [show bitsOf (wrapU 32 (asr x (32 - 32))) 32 = bitsOf (wrapU 32 (asr x (32 - 32))) (16 + 16) from rfl]
    rw [read_split]
    simp only [read_bitsOf]
    unfold shl32 wrapS wrapU asr
    simp only [Nat.reduceSub, Nat.reducePow, Int.reducePow, Prod.mk.injEq]
    refine ⟨?_, trivial⟩
    split <;> omega

theorem escBits_length (depth : Nat) (xs : List Int) : (xs.flatMap (escSampleBits depth depth)).length = depth * xs.length := by
  induction xs with
  | nil => rfl
  | cons x xs ih => simp [List.flatMap_cons, escSampleBits, bitsOf_length, ih, Nat.mul_succ]; omega

theorem rdMonoEsc_enc {depth : Nat} (hd : Depth depth) (xs : List Int) (hxs : ∀ x ∈ xs, I32 x) (rest : Bits) (p : Nat) :
    rdMonoEsc depth xs.length ⟨xs.flatMap (escSampleBits depth depth) ++ rest, p⟩ =
      (xs.map (asr · (32 - depth)), ⟨rest, p + depth * xs.length⟩) := by
  induction xs generalizing p with
  | nil => simp [rdMonoEsc]
  | cons x xs ih =>
    simp only [List.flatMap_cons, List.append_assoc, List.length_cons, rdMonoEsc]
    rw [rdEscSample_enc hd (hxs x (by simp))]
    simp only
    rw [ih (fun y hy => hxs y (by simp [hy]))]
    simp [Nat.mul_succ]; omega

def pairBits (depth : Nat) (lr : Int × Int) : Bits := escSampleBits depth depth lr.1 ++ escSampleBits depth depth lr.2

theorem pairBits_length (depth : Nat) (l : List (Int × Int)) : (l.flatMap (pairBits depth)).length = 2 * depth * l.length := by
  induction l with
  | nil => rfl
  | cons x xs ih => simp [List.flatMap_cons, pairBits, escSampleBits, bitsOf_length, ih, Nat.mul_succ]; omega

theorem rdPairEsc_enc {depth : Nat} (hd : Depth depth) (ls rs : List Int) (hlen : ls.length = rs.length)
    (hls : ∀ x ∈ ls, I32 x) (hrs : ∀ x ∈ rs, I32 x) (rest : Bits) (p : Nat) :
    rdPairEsc Rules.current depth ls.length ⟨(List.zip ls rs).flatMap (pairBits depth) ++ rest, p⟩ =
      (ls.map (asr · (32 - depth)), rs.map (asr · (32 - depth)), ⟨rest, p + 2 * depth * ls.length⟩) := by
  induction ls generalizing rs p with
  | nil =>
    cases rs with
    | nil => simp [rdPairEsc]
    | cons r rs => simp at hlen
  | cons l ls ih =>
    cases rs with
    | nil => simp at hlen
    | cons r rs =>
      simp only [List.zip_cons_cons, List.flatMap_cons, pairBits, List.append_assoc, List.length_cons, rdPairEsc]
      rw [rdEscSample_enc hd (hls l (by simp))]
      simp only [Rules.current, if_true]
      rw [rdEscSample_enc hd (hrs r (by simp))]
      simp only
      have := ih rs (by simpa using hlen) (fun y hy => hls y (by simp [hy])) (fun y hy => hrs y (by simp [hy])) (p + depth + depth)
      simp only [Rules.current] at this
      rw [this]
      simp [Nat.mul_succ]; omega

theorem encPairEsc_current (depth n : Nat) (ls rs : List Int) (stale : List Int × List Int) :
    encPairEsc Rules.current depth n ls rs stale = escHeaderBits n ++ (List.zip ls rs).flatMap (pairBits depth) := by
  unfold encPairEsc pairBits
  simp only [Rules.current, Bool.false_eq_true, and_false, if_false]
  congr 2
  funext ⟨l, r⟩
  by_cases h : depth = 20 <;> simp [h]

def escHeaderLen (n : Nat) : Nat := if n ≠ frameLen then 48 else 16

theorem escHeaderBits_length (n : Nat) : (escHeaderBits n).length = escHeaderLen n := by
  unfold escHeaderBits escHeaderLen
  by_cases h : n = frameLen <;> simp [h, bitsOf_length]

/-- the element header of an uncompressed element is read back: no bytes shifted, escape, the frame count -/
theorem rdHeader_esc (inst n reqN : Nat) (hn : n ≤ frameLen) (hreq : n = frameLen → reqN = frameLen) (rest : Bits) (p : Nat) :
    rdHeader reqN ⟨bitsOf inst 4 ++ (escHeaderBits n ++ rest), p⟩ = (.ok ⟨0, true, n⟩, ⟨rest, p + 4 + escHeaderLen n⟩) := by
  unfold escHeaderBits escHeaderLen rdHeader
  by_cases h : n = frameLen
  · subst h
    simp only [ne_eq, not_true_eq_false, if_false, List.append_assoc, List.nil_append, read_bitsOf, hreq rfl]
    simp [frameLen]
  · have hlt : n < 4096 := by unfold frameLen at hn h; omega
    simp only [ne_eq, h, not_false_eq_true, if_true, List.append_assoc, read_bitsOf]
    have e1 : n / 2 ^ 16 % 2 ^ 16 = 0 := by omega
    have e2 : n % 2 ^ 16 = n := by omega
    have r1 : ∀ q, (Rd.mk (bitsOf n 32 ++ rest) q).read 16 = (0, Rd.mk (bitsOf n 16 ++ rest) (q + 16)) := by
      intro q
      rw [show bitsOf n 32 = bitsOf n (16 + 16) from rfl, read_split, e1]
    simp only [r1, read_bitsOf, e2]
    simp [frameLen, hlt]

theorem trunc32 {x : Int} (hx : I32 x) : trunc 32 x = x := by
  obtain ⟨h1, h2⟩ := hx
  unfold trunc shl32 wrapS asr
  simp only [Nat.reduceSub, Int.reducePow, Nat.reducePow]
  split <;> omega

theorem outChan_current {depth : Nat} (hd : Depth depth) (xs : List Int) (hxs : ∀ x ∈ xs, I32 x) :
    outChan Rules.current depth 0 (xs.map (asr · (32 - depth))) [] = some (xs.map (trunc depth)) := by
  rcases hd with rfl | rfl | rfl | rfl
  · simp [outChan, trunc, List.map_map, Function.comp_def]
  · simp [outChan, trunc, List.map_map, Function.comp_def]
  · simp [outChan, trunc, List.map_map, Function.comp_def]
  · simp only [outChan, Rules.current]
    simp only [show ¬ ((32 : Nat) = 16) by decide, show ¬ ((32 : Nat) = 20) by decide, show ¬ ((32 : Nat) = 24) by decide, if_false,
      if_true, ne_eq, not_true_eq_false, Bool.false_eq_true]
    congr 1
    apply List.map_congr_left
    intro x hx
    rw [trunc32 (hxs x hx)]
    simp [asr]

theorem encMonoEsc_length (depth n : Nat) (xs : List Int) : (encMonoEsc depth n xs).length = escHeaderLen n + depth * xs.length := by
  rw [encMonoEsc, List.length_append, escHeaderBits_length, escBits_length]

theorem encPairEsc_length (depth n : Nat) (ls rs : List Int) (stale : List Int × List Int) (h : ls.length = rs.length) :
    (encPairEsc Rules.current depth n ls rs stale).length = escHeaderLen n + 2 * depth * ls.length := by
  rw [encPairEsc_current, List.length_append, escHeaderBits_length, pairBits_length, List.length_zip, h, Nat.min_self]

/-- an uncompressed mono element written by EncodeMono is decoded to the truncated samples -/
theorem decMono_esc (cd : CompDec) {cfg : Config} (hd : Depth cfg.bitDepth) (inst reqN : Nat) (xs : List Int)
    (hxs : ∀ x ∈ xs, I32 x) (hn : xs.length ≤ frameLen) (hreq : xs.length = frameLen → reqN = frameLen) (rest : Bits) (p : Nat) :
    decMono cd Rules.current cfg reqN ⟨bitsOf inst 4 ++ (encMonoEsc cfg.bitDepth xs.length xs ++ rest), p⟩ =
      .done xs.length [xs.map (trunc cfg.bitDepth)] ⟨rest, p + 4 + escHeaderLen xs.length + cfg.bitDepth * xs.length⟩ := by
  unfold decMono encMonoEsc
  rw [List.append_assoc, rdHeader_esc inst xs.length reqN hn hreq]
  simp only [if_true, Nat.mul_zero, Nat.sub_zero]
  rw [rdMonoEsc_enc hd xs hxs, outChan_current hd xs hxs]
  simp

/-- an uncompressed pair written by EncodeStereoEscape is decoded to the truncated samples of both channels -/
theorem decPair_esc (cd : CompDec) {cfg : Config} (hd : Depth cfg.bitDepth) (inst reqN : Nat) (ls rs : List Int) (hlen : ls.length = rs.length)
    (hls : ∀ x ∈ ls, I32 x) (hrs : ∀ x ∈ rs, I32 x) (hn : ls.length ≤ frameLen) (hreq : ls.length = frameLen → reqN = frameLen)
    (stale : List Int × List Int) (rest : Bits) (p : Nat) :
    decPair cd Rules.current cfg reqN ⟨bitsOf inst 4 ++ (encPairEsc Rules.current cfg.bitDepth ls.length ls rs stale ++ rest), p⟩ =
      .done ls.length [ls.map (trunc cfg.bitDepth), rs.map (trunc cfg.bitDepth)]
        ⟨rest, p + 4 + escHeaderLen ls.length + 2 * cfg.bitDepth * ls.length⟩ := by
  unfold decPair
  rw [encPairEsc_current, List.append_assoc, rdHeader_esc inst ls.length reqN hn hreq]
  simp only [if_true]
  rw [rdPairEsc_enc hd ls rs hlen hls hrs]
  simp only [outPair0, outChan_current hd ls hls, outChan_current hd rs hrs]

end Sf.AlacCore
