/-
  The operators of GSM 06.10 section 5.1 as SPEC definitions over unbounded `Int` with saturation (namespace `Sf.Gsm.Rec`).
  SfProps/C20Gsm.lean proves the macro-shaped model equal to them; SfProofs/GsmTwin.lean writes the wrap-free twin of
  the decoder with them.
-/
import SfModel.Basic
namespace Sf.Gsm.Rec

/-! the Recommendation's operators, over unbounded integers -/
def sat16 (x : Int) : Int := if x > 32767 then 32767 else if x < -32768 then -32768 else x
def sat32 (x : Int) : Int := if x > 2147483647 then 2147483647 else if x < -2147483648 then -2147483648 else x
/-- add (var1, var2): 16-bit saturated sum -/
def add (a b : Int) : Int := sat16 (a + b)
/-- sub (var1, var2) -/
def sub (a b : Int) : Int := sat16 (a - b)
/-- mult (var1, var2) = (var1 · var2) >> 15, and mult (−32768, −32768) = 32767 -/
def mult (a b : Int) : Int := if a = -32768 ∧ b = -32768 then 32767 else (a * b) / 32768
/-- mult_r (var1, var2) = (var1 · var2 + 16384) >> 15, and mult_r (−32768, −32768) = 32767 -/
def multR (a b : Int) : Int := if a = -32768 ∧ b = -32768 then 32767 else (a * b + 16384) / 32768
/-- abs (var1), abs (−32768) = 32767 -/
def abs (a : Int) : Int := if a = -32768 then 32767 else if a < 0 then -a else a
/-- L_mult (var1, var2) = (var1 · var2) << 1 (never used with both −32768) -/
def lMult (a b : Int) : Int := a * b * 2
def lAdd (a b : Int) : Int := sat32 (a + b)
/-- "norm (L_var1)": k normalises L when L · 2^k lies in [2^30, 2^31) (L > 0) resp. in [−2^31, −2^30) … the code's
    convention for negative values: −2^31 ≤ L · 2^k and L · 2^k ≤ −2^30 − 1 … with −1 answered by 31 -/
def normalises (l : Int) (k : Nat) : Prop :=
  if l > 0 then 2 ^ 30 ≤ l * 2 ^ k ∧ l * 2 ^ k < 2 ^ 31 else -(2 ^ 31) ≤ l * 2 ^ k ∧ l * 2 ^ k < -(2 ^ 30)
/-- div (var1, var2), 0 ≤ var1 ≤ var2, var2 > 0: the 15-bit fractional quotient -/
def div (num denum : Int) : Int := if num = denum then 32767 else num * 32768 / denum

end Sf.Gsm.Rec
