/-
  SfProofs.RdwrCor — consequences of the refinement, stated on the concrete handle.
-/
import SfProofs.RdwrReopen
import SfProofs.RdwrAbs
import SfProofs.HandleContract
import SfProofs.Codec
namespace Sf

theorem RwInv.nframes {h : H} {s : Store} (i : RwInv h s) : ((absOf h s).frames.length : Int) = h.frames := by
  obtain ⟨R, W, F, hdr, D, v⟩ := i
  rw [v.abs, v.frames]; simp only; rw [v.nframes]

theorem RwInv.abs_rpos {h : H} {s : Store} (i : RwInv h s) : ((absOf h s).rpos : Int) = h.rpos := by
  obtain ⟨R, W, F, hdr, D, v⟩ := i
  rw [v.abs, v.rpos]

theorem RwInv.abs_wpos {h : H} {s : Store} (i : RwInv h s) : ((absOf h s).wpos : Int) = h.wpos := by
  obtain ⟨R, W, F, hdr, D, v⟩ := i
  rw [v.abs, v.wpos]

theorem RwInv.frame_len {h : H} {s : Store} (i : RwInv h s) : ∀ g ∈ (absOf h s).frames, g.length = h.bw := by
  obtain ⟨R, W, F, hdr, D, v⟩ := i
  rw [v.abs]; exact v.frame_len

/-- the frames a non-empty whole-frame buffer encodes to -/
theorem writtenFrames_facts (h : H) (ty : Ty) (data : List Int) (hch : 0 < h.ch) (hnb : 0 < h.enc.nbytes)
    (hmod : data.length % h.ch = 0) :
    (writtenFrames h ty data).length = data.length / h.ch ∧
    (writtenFrames h ty data).flatten = h.enc.encodeAll h.conv ty data := by
  have hbw : 0 < h.bw := Nat.mul_pos hnb hch
  have hdl : data.length = data.length / h.ch * h.ch := by
    have := Nat.div_add_mod data.length h.ch
    rw [hmod, Nat.mul_comm] at this; omega
  have hel : (h.enc.encodeAll h.conv ty data).length = data.length / h.ch * h.bw := by
    rw [Enc.encodeAll_length]
    conv => lhs; rw [hdl]
    unfold H.bw; rw [Nat.mul_assoc, Nat.mul_comm h.ch]
  unfold writtenFrames
  exact ⟨by rw [groups_length' _ hbw, hel, Nat.mul_div_cancel _ hbw], groups_join _ hbw _ _ hel⟩

/-! ## write, then read at the same position -/

/-- Write a buffer at the write position `p`, move the read pointer to `p` (SEEK_SET | SFM_READ, or a plain
    SEEK_SET), read the same number of frames: the call delivers everything, and the buffer is the decoding of
    exactly the bytes the write call encoded. -/
theorem write_seek_read (h : H) (s : Store) (inv : RwInv h s) (ty : Ty) (fc fc' : Bool) (data : List Int) (ptr : Ptr)
    (hmod : data.length % h.ch = 0) (hpos : 0 < data.length) (hptr : ptr ≠ .wr) (p : Nat) (hp : h.wpos = (p : Int)) :
    let r1 := stepAny h s ((ROp.write ty fc data).toOp h)
    let r2 := stepAny r1.1 r1.2.1 ((ROp.seek .set ptr (p : Int)).toOp r1.1)
    let r3 := stepAny r2.1 r2.2.1 ((ROp.read ty fc' (data.length / h.ch)).toOp r2.1)
    r1.2.2.ret = callCount h fc (data.length / h.ch) ∧ r1.2.2.err = 0 ∧ r2.2.2.ret = (p : Int) ∧
    r3.2.2.ret = callCount h fc' (data.length / h.ch) ∧ r3.2.2.err = 0 ∧
    r3.2.2.data = h.enc.decodeAll r2.1.conv ty (h.enc.encodeAll h.conv ty data) := by
  intro r1 r2 r3
  have g := inv.gives
  have hch := g.2.1
  have hnb := g.2.2.1
  have hk : 0 < data.length / h.ch := Nat.div_pos (Nat.le_of_dvd hpos (Nat.dvd_of_mod_eq_zero hmod)) hch
  obtain ⟨wl, wf⟩ := writtenFrames_facts h ty data hch hnb hmod
  obtain ⟨o1, i1, a1⟩ := rdwr_step h s (.write ty fc data) inv hmod
  have c1 := SameCfg.stepAny h s ((ROp.write ty fc data).toOp h)
  obtain ⟨o2, i2, a2⟩ := rdwr_step r1.1 r1.2.1 (.seek .set ptr (p : Int)) i1 trivial
  have c2 := SameCfg.stepAny r1.1 r1.2.1 ((ROp.seek .set ptr (p : Int)).toOp r1.1)
  obtain ⟨o3, _, _⟩ := rdwr_step r2.1 r2.2.1 (.read ty fc' (data.length / h.ch)) i2 trivial
  simp only [ROp.outOk] at o1 o2 o3
  simp only [ROp.toAOp, AbsFile.stepOpt, AbsFile.step] at a1 a2
  -- abstract side
  have hne : writtenFrames h ty data ≠ [] := by
    intro hc; rw [hc] at wl; simp at wl; omega
  have hW : (absOf h s).wpos = p := by have := inv.abs_wpos; omega
  rw [AbsFile.seek_set_nat] at a2 o2
  have hr2 : (absOf r2.1 r2.2.1).rpos = (absOf h s).wpos ∧ (absOf r2.1 r2.2.1).frames = (absOf r1.1 r1.2.1).frames := by
    rw [a2]; cases ptr
    · exact ⟨hW.symm, rfl⟩
    · exact ⟨hW.symm, rfl⟩
    · exact absurd rfl hptr
  have hread : ((absOf r2.1 r2.2.1).read (data.length / h.ch)).1 = writtenFrames h ty data := by
    unfold AbsFile.read
    simp only
    rw [hr2.1, hr2.2, a1, ← wl]
    exact AbsFile.write_read_back _ _ _ hne
  have e1 : r1.1.ch = h.ch := c1.ch
  have e2 : r2.1.ch = h.ch := c2.ch.trans c1.ch
  have e3 : r2.1.enc = h.enc := c2.enc.trans c1.enc
  obtain ⟨o3a, o3b⟩ := o3
  obtain ⟨o3b, o3c⟩ := o3b hk
  rw [hread, wl, wf, Nat.sub_self, Nat.zero_mul, List.replicate_zero, List.append_nil, e3] at o3c
  refine ⟨o1.1, o1.2 hpos, o2.1, ?_, o3b, o3c⟩
  rw [o3a, hread, wl]; unfold callCount; rw [e2]

/-! ## seek -/

theorem AbsFile.seek_cases {α : Type} (f : AbsFile α) (w : Whence) (p : Ptr) (off : Int) :
    ((f.seek w p off).1 = -1 ∧ (f.seek w p off).2 = f) ∨
    (∃ t : Nat, (f.seek w p off).1 = (t : Int) ∧
      (f.seek w p off).2 = (match p with
        | .both => { f with rpos := t, wpos := t }
        | .rd => { f with rpos := t }
        | .wr => { f with wpos := t })) := by
  unfold AbsFile.seek
  simp only
  by_cases hneg : f.base w p + off < 0
  · left; rw [if_pos hneg]; exact ⟨rfl, rfl⟩
  · right; rw [if_neg hneg]
    obtain ⟨t, ht⟩ := Int.eq_ofNat_of_zero_le (show 0 ≤ f.base w p + off by omega)
    refine ⟨t, ht, ?_⟩
    simp only [ht, Int.toNat_natCast]
    cases p <;> rfl

/-- what a seek does to the handle: the frame count and the stored frames never change; a refused seek (−1) moves
    nothing; an accepted one returns the target and moves the read pointer (SFM_READ), the write pointer
    (SFM_WRITE), or both (plain whence) there — and only those -/
theorem seek_effect (h : H) (s : Store) (inv : RwInv h s) (w : Whence) (p : Ptr) (off : Int) :
    let r := stepAny h s ((ROp.seek w p off).toOp h)
    r.1.frames = h.frames ∧ (absOf r.1 r.2.1).frames = (absOf h s).frames ∧
    (r.2.2.ret = -1 ∨ 0 ≤ r.2.2.ret) ∧
    (r.2.2.ret = -1 → r.1.rpos = h.rpos ∧ r.1.wpos = h.wpos) ∧
    (0 ≤ r.2.2.ret → r.2.2.err = 0 ∧
      r.1.rpos = (if p = .wr then h.rpos else r.2.2.ret) ∧ r.1.wpos = (if p = .rd then h.wpos else r.2.2.ret)) := by
  intro r
  obtain ⟨o, i', a'⟩ := rdwr_step h s (.seek w p off) inv trivial
  simp only [ROp.outOk] at o
  simp only [ROp.toAOp, AbsFile.stepOpt, AbsFile.step] at a'
  have hf' := i'.nframes
  have hr' := i'.abs_rpos
  have hw' := i'.abs_wpos
  have hf := inv.nframes
  have hr := inv.abs_rpos
  have hw := inv.abs_wpos
  rw [a'] at hf' hr' hw'
  rw [AbsFile.seek_frames] at hf'
  refine ⟨by rw [← hf', hf], by rw [a', AbsFile.seek_frames], ?_, ?_, ?_⟩
  · rcases AbsFile.seek_cases (absOf h s) w p off with ⟨e, _⟩ | ⟨t, e, _⟩
    · left; rw [o.1, e]
    · right; rw [o.1, e]; omega
  · intro hm
    rcases AbsFile.seek_cases (absOf h s) w p off with ⟨_, e⟩ | ⟨t, e, _⟩
    · rw [e] at hr' hw'; exact ⟨by rw [← hr', hr], by rw [← hw', hw]⟩
    · rw [o.1, e] at hm; omega
  · intro hnn
    rcases AbsFile.seek_cases (absOf h s) w p off with ⟨e, _⟩ | ⟨t, e, e2⟩
    · rw [o.1, e] at hnn; omega
    · have hret : r.2.2.ret = (t : Int) := by rw [o.1, e]
      rw [e2] at hr' hw'
      refine ⟨o.2 (by rw [e]; omega), ?_, ?_⟩
      · cases p
        · simp only [show Ptr.both ≠ Ptr.wr by decide, if_false]; rw [← hr', hret]
        · simp only [show Ptr.rd ≠ Ptr.wr by decide, if_false]; rw [← hr', hret]
        · simp only [if_true]; rw [← hr', ← hr]
      · cases p
        · simp only [show Ptr.both ≠ Ptr.rd by decide, if_false]; rw [← hw', hret]
        · simp only [if_true]; rw [← hw', ← hw]
        · simp only [show Ptr.wr ≠ Ptr.rd by decide, if_false]; rw [← hw', hret]

/-! ## write: length and frames -/

theorem write_effect (h : H) (s : Store) (inv : RwInv h s) (ty : Ty) (fc : Bool) (data : List Int)
    (hmod : data.length % h.ch = 0) (hpos : 0 < data.length) :
    let r := stepAny h s ((ROp.write ty fc data).toOp h)
    writtenFrames h ty data ≠ [] ∧ (writtenFrames h ty data).length = data.length / h.ch ∧
    absOf r.1 r.2.1 = (absOf h s).write (zeroFrame h.bw) (writtenFrames h ty data) ∧
    r.1.frames = max h.frames (h.wpos + ((data.length / h.ch : Nat) : Int)) ∧
    r.1.wpos = h.wpos + ((data.length / h.ch : Nat) : Int) ∧ r.1.rpos = h.rpos ∧
    r.2.2.ret = callCount h fc (data.length / h.ch) ∧ r.2.2.err = 0 := by
  intro r
  have g := inv.gives
  obtain ⟨wl, _⟩ := writtenFrames_facts h ty data g.2.1 g.2.2.1 hmod
  have hk : 0 < data.length / h.ch :=
    Nat.div_pos (Nat.le_of_dvd hpos (Nat.dvd_of_mod_eq_zero hmod)) g.2.1
  have hne : writtenFrames h ty data ≠ [] := by
    intro hc; rw [hc] at wl; simp at wl; omega
  obtain ⟨o, i', a'⟩ := rdwr_step h s (.write ty fc data) inv hmod
  simp only [ROp.outOk] at o
  simp only [ROp.toAOp, AbsFile.stepOpt, AbsFile.step] at a'
  have hf' := i'.nframes
  have hr' := i'.abs_rpos
  have hw' := i'.abs_wpos
  rw [a'] at hf' hr' hw'
  rw [AbsFile.write_length _ _ _ hne, wl] at hf'
  rw [AbsFile.write_wpos, wl] at hw'
  rw [AbsFile.write_rpos] at hr'
  have hf := inv.nframes
  have hr := inv.abs_rpos
  have hw := inv.abs_wpos
  refine ⟨hne, wl, a', ?_, by rw [← hw', ← hw]; push_cast; rfl, by rw [← hr', hr], o.1, o.2 hpos⟩
  rw [← hf', ← hf, ← hw]; push_cast; omega

/-! ## truncate -/

theorem truncate_effect (h : H) (s : Store) (inv : RwInv h s) (n : Nat) (hc : h.canTruncate = true) :
    let r := stepAny h s ((ROp.truncate n).toOp h)
    r.2.2.ret = 0 ∧ r.2.2.err = 0 ∧ r.1.frames = (n : Int) ∧ r.1.rpos = (n : Int) ∧ r.1.wpos = (n : Int) ∧
    absOf r.1 r.2.1 = (absOf h s).truncate (zeroFrame h.bw) n := by
  intro r
  obtain ⟨o, i', a'⟩ := rdwr_step h s (.truncate n) inv trivial
  simp only [ROp.outOk, hc, if_true] at o
  simp only [ROp.toAOp, hc, if_true, AbsFile.stepOpt, AbsFile.step] at a'
  have hf' := i'.nframes
  have hr' := i'.abs_rpos
  have hw' := i'.abs_wpos
  rw [a'] at hf' hr' hw'
  rw [AbsFile.truncate_length] at hf'
  exact ⟨o.1, o.2, hf'.symm, hr'.symm, hw'.symm, a'⟩

/-- SFC_FILE_TRUNCATE on a route without `ftruncate` (SF_VIRTUAL_IO), since the TRUNC-VIO repair: refused — SF_TRUE (1),
    no error, the handle unchanged up to the cleared error field, the store and hence the abstract file untouched -/
theorem truncate_refused_effect (h : H) (s : Store) (n : Nat) (hm : h.mode = .rw) (hc : h.canTruncate = false) :
    let r := stepAny h s ((ROp.truncate n).toOp h)
    r.2.2.ret = 1 ∧ r.2.2.err = 0 ∧ r.1 = { h with error := 0 } ∧ r.2.1 = s ∧ absOf r.1 r.2.1 = absOf h s := by
  intro r
  have e : r = ({ h with error := 0 }, s, { ret := 1 }) :=
    stepTruncate_vio h s n (by rw [hm]; decide) hc
  rw [e]
  exact ⟨rfl, rfl, rfl, rfl, rfl⟩

/-- on routes where `ftruncate` works the TRUNC-VIO repair changed nothing -/
theorem stepTruncate_eq_old (h : H) (s : Store) (f : Int) (hc : h.canTruncate = true) :
    stepTruncate h s f = stepTruncateOld h s f := by
  unfold stepTruncate stepTruncateOld
  simp only []
  have hs := (SameCfg.stepSeek { h with error := 0 } s f 0).canTruncate
  generalize stepSeek { h with error := 0 } s f 0 = r at hs ⊢
  obtain ⟨h1, s1, o1⟩ := r
  have h1c : h1.canTruncate = true := hs.trans hc
  simp [hc, h1c]
/-! ## close, then a fresh read-only open -/

theorem reopen_effect (h : H) (s : Store) (inv : RwInv h s) {fmt : Nat} {ch sr : Int} (cfg : CfgOf fmt ch sr h)
    (hsr : sr ≤ 0x7FFFFFFF) (hguard : h.container = .wav → h.frames * (h.bw : Int) < 0xFFFFFFFF) (ix pos : Nat) :
    ∃ h' s', openHandle ix ⟨(closeHandle h s).bytes, pos⟩ .r fmt ch sr = .ok h' s' ∧
      h'.mode = .r ∧ h'.frames = h.frames ∧ h'.ch = h.ch ∧ h'.enc = h.enc ∧ h'.rpos = 0 ∧
      (absOf h' s').frames = (absOf h s).frames := by
  obtain ⟨R, W, F, hdr, D, v⟩ := inv
  have hfin : ∀ h' s', Reopened h F D h' s' →
      h'.mode = .r ∧ h'.frames = h.frames ∧ h'.ch = h.ch ∧ h'.enc = h.enc ∧ h'.rpos = 0 ∧
      (absOf h' s').frames = (absOf h s).frames := by
    intro h' s' r
    exact ⟨r.mode, by rw [r.frames, v.frames], r.ch, r.enc, r.rpos, by rw [r.abs v.dlen, v.abs]⟩
  cases hc : h.container with
  | raw =>
    obtain ⟨h', s', ho, r⟩ := v.reopen_raw cfg hc ix pos
    exact ⟨h', s', ho, hfin h' s' r⟩
  | au =>
    obtain ⟨h', s', ho, r⟩ := v.reopen_au cfg hc hsr ix pos fmt ch sr (by rw [cfg.cont, hc]; simp)
    exact ⟨h', s', ho, hfin h' s' r⟩
  | wav =>
    have hg : D.length < 0xFFFFFFFF := by
      have := hguard hc
      rw [v.frames] at this
      have e : ((D.length : Nat) : Int) = (F : Int) * (h.bw : Int) := by rw [v.dlen]; push_cast; rfl
      omega
    obtain ⟨h', s', ho, r⟩ := v.reopen_wav cfg hc hsr hg ix pos fmt ch sr (by rw [cfg.cont, hc]; simp)
    exact ⟨h', s', ho, hfin h' s' r⟩

/-- the re-opened handle delivers the final frames: a frames-call for the whole file returns all `F` frames, and
    the buffer is the decoding of exactly the stored frames -/
theorem Reopened.read_all {h h' : H} {F : Nat} {D : List Byte} {s' : Store} (r : Reopened h F D h' s')
    (hi : HInv h' s') (hD : D.length = F * h.bw) (hF : 0 < F) (ty : Ty) :
    (stepRead h' s' ty true (F : Int)).2.2.ret = (F : Int) ∧ (stepRead h' s' ty true (F : Int)).2.2.err = 0 ∧
    (stepRead h' s' ty true (F : Int)).2.2.data = h'.enc.decodeAll h'.conv ty D := by
  obtain ⟨m, d, hlen, hd, hret, _, herr, hdl, hdata⟩ :=
    read_rmode_full h' s' ty true (F : Int) hi r.mode (by omega) (Or.inl rfl)
  have hch : 0 < h'.ch := hi.ch_pos
  have hm : m = F := by
    unfold reqLen at hlen
    simp only [if_true] at hlen
    have : (F : Int) = (m : Int) := Int.eq_of_mul_eq_mul_right (by omega) hlen
    omega
  subst hm
  have hd' : d = m := by rw [r.frames, r.rpos] at hd; omega
  subst hd'
  obtain ⟨tail, ht⟩ := r.data
  have eb : h'.enc.nbytes * h'.ch = h.bw := by unfold H.bw; rw [r.enc, r.ch]
  have hstream : itemStream h' s'.bytes ty = h'.enc.decodeAll h'.conv ty D ++ h'.enc.decodeAll h'.conv ty tail := by
    unfold itemStream
    rw [r.doff, Int.toNat_natCast, ht]
    exact Enc.decodeAll_append _ _ _ hi.nb_pos (d * h'.ch) D tail (by
      rw [hD, ← eb, Nat.mul_assoc, Nat.mul_comm h'.ch])
  have hvl : (h'.enc.decodeAll h'.conv ty D).length = d * h'.ch := by
    rw [Enc.decodeAll_length _ _ _ hi.nb_pos, hD, ← eb, Nat.mul_comm h'.enc.nbytes, ← Nat.mul_assoc,
      Nat.mul_div_cancel _ hi.nb_pos]
  refine ⟨by rw [hret]; rfl, herr, ?_⟩
  rw [r.rpos, hstream] at hdata
  simp only [Int.toNat_zero, Nat.zero_mul, List.drop_zero] at hdata
  rw [← hvl, List.take_left' rfl] at hdata
  rw [← hdata, hvl, ← hdl, List.take_length]

theorem reopen_read_all (h : H) (s : Store) (inv : RwInv h s) {fmt : Nat} {ch sr : Int} (cfg : CfgOf fmt ch sr h)
    (hsr : sr ≤ 0x7FFFFFFF) (hguard : h.container = .wav → h.frames * (h.bw : Int) < 0xFFFFFFFF) (hF : 0 < h.frames)
    (ix pos : Nat) (ty : Ty) :
    ∃ h' s', openHandle ix ⟨(closeHandle h s).bytes, pos⟩ .r fmt ch sr = .ok h' s' ∧ h'.frames = h.frames ∧
      (stepRead h' s' ty true h.frames).2.2.ret = h.frames ∧ (stepRead h' s' ty true h.frames).2.2.err = 0 ∧
      (stepRead h' s' ty true h.frames).2.2.data = h'.enc.decodeAll h'.conv ty (absOf h s).frames.flatten := by
  obtain ⟨R, W, F, hdr, D, v⟩ := inv
  have hflat : (absOf h s).frames.flatten = D := by rw [v.abs]; exact groups_join _ v.bw_pos F D v.dlen
  rw [hflat, v.frames]
  rw [v.frames] at hF
  have hfin : ∀ h' s', openHandle ix ⟨(closeHandle h s).bytes, pos⟩ .r fmt ch sr = .ok h' s' → Reopened h F D h' s' →
      h'.frames = (F : Int) ∧
      (stepRead h' s' ty true (F : Int)).2.2.ret = (F : Int) ∧ (stepRead h' s' ty true (F : Int)).2.2.err = 0 ∧
      (stepRead h' s' ty true (F : Int)).2.2.data = h'.enc.decodeAll h'.conv ty D := by
    intro h' s' ho r
    exact ⟨r.frames, r.read_all (HInv_openHandle _ _ _ _ _ _ _ _ ho) v.dlen (by omega) ty⟩
  cases hc : h.container with
  | raw =>
    obtain ⟨h', s', ho, r⟩ := v.reopen_raw cfg hc ix pos
    exact ⟨h', s', ho, hfin h' s' ho r⟩
  | au =>
    obtain ⟨h', s', ho, r⟩ := v.reopen_au cfg hc hsr ix pos fmt ch sr (by rw [cfg.cont, hc]; simp)
    exact ⟨h', s', ho, hfin h' s' ho r⟩
  | wav =>
    have hg : D.length < 0xFFFFFFFF := by
      have := hguard hc
      rw [v.frames] at this
      have e : ((D.length : Nat) : Int) = (F : Int) * (h.bw : Int) := by rw [v.dlen]; push_cast; rfl
      omega
    obtain ⟨h', s', ho, r⟩ := v.reopen_wav cfg hc hsr hg ix pos fmt ch sr (by rw [cfg.cont, hc]; simp)
    exact ⟨h', s', ho, hfin h' s' ho r⟩

/-! ## close, then open SFM_RDWR again -/

theorem reopen_rw_effect (h : H) (s : Store) (inv : RwInv h s) {fmt : Nat} {ch sr : Int} (cfg : CfgOf fmt ch sr h)
    (hsr : sr ≤ 0x7FFFFFFF) (hguard : h.container = .wav → h.frames * (h.bw : Int) < 0xFFFFFFFF)
    (ix pos : Nat) :
    ∃ h' s', openHandle ix ⟨(closeHandle h s).bytes, pos⟩ .rw fmt ch sr = .ok h' s' ∧ RwInv h' s' ∧
      absOf h' s' = { frames := (absOf h s).frames, rpos := 0, wpos := (absOf h s).frames.length } ∧
      h'.frames = h.frames ∧ h'.ch = h.ch ∧ h'.enc = h.enc := by
  obtain ⟨R, W, F, hdr, D, v⟩ := inv
  have hfin : ∀ h' s', ReopenedRw h.enc h.ch F D h' s' → RwInv h' s' ∧
      absOf h' s' = { frames := (absOf h s).frames, rpos := 0, wpos := (absOf h s).frames.length } ∧
      h'.frames = h.frames ∧ h'.ch = h.ch ∧ h'.enc = h.enc := by
    intro h' s' r
    refine ⟨r.inv, by rw [r.abs, v.abs]; simp only; rw [v.nframes]; rfl, ?_, r.ch, r.enc⟩
    have := r.inv.nframes
    rw [r.abs] at this
    simp only at this
    have e : (groups (h.enc.nbytes * h.ch) D).length = F := v.nframes
    rw [e] at this
    rw [← this, v.frames]
  cases hc : h.container with
  | raw =>
    obtain ⟨h', s', ho, r⟩ := v.reopen_rw_raw cfg hc ix pos
    exact ⟨h', s', ho, hfin h' s' r⟩
  | au =>
    obtain ⟨h', s', ho, r⟩ := v.reopen_rw_au cfg hc hsr ix pos fmt ch sr (by rw [cfg.cont, hc]; simp)
    exact ⟨h', s', ho, hfin h' s' r⟩
  | wav =>
    have e : ((D.length : Nat) : Int) = (F : Int) * (h.bw : Int) := by rw [v.dlen]; push_cast; rfl
    have hg : D.length < 0xFFFFFFFF := by
      have := hguard hc
      rw [v.frames] at this
      omega
    obtain ⟨h', s', ho, r⟩ := v.reopen_rw_wav cfg hc hsr hg ix pos fmt ch sr (by rw [cfg.cont, hc]; simp)
    exact ⟨h', s', ho, hfin h' s' r⟩

/-! ## the `| SFM_RDWR` whence values -/

/-- the three remaining whence values (`… | SFM_RDWR`): SEEK_SET|SFM_RDWR is a plain SEEK_SET; SEEK_CUR|SFM_RDWR and
    SEEK_END|SFM_RDWR are refused (−1, error set, nothing else changes) -/
theorem seek_sfm_rdwr (h : H) (s : Store) (hm : h.mode = .rw) (off : Int) :
    stepSeek h s off 0x30 = stepSeek h s off 0 ∧
    stepSeek h s off 0x31 = ({ h with error := E_BAD_SEEK }, s, { ret := -1, err := E_BAD_SEEK }) ∧
    stepSeek h s off 0x32 = ({ h with error := E_BAD_SEEK }, s, { ret := -1, err := E_BAD_SEEK }) := by
  simp only [stepSeek_eq_spec]
  refine ⟨?_, ?_, ?_⟩ <;>
    simp [seekSpec, seekWm, seekBase, seekIsTell, seekMoveH, seekFail, hm, modeBits]

/-! ## files written by a write-only session -/

/-- A file written by a write-only session of the library (open SFM_WRITE on a new file, any valid write calls and
    header updates, close — the sessions of C04 / C07), opened SFM_RDWR: the open succeeds, the handle satisfies the
    read/write invariant, and it stands for exactly the frames written, read position 0, write position at the end.
    WAV float/double files (they carry a PEAK chunk) and WAVs whose odd-length data is followed by the pad byte are
    covered; the only side condition is the 4 GiB RIFF limit. -/
theorem written_file_opens_rdwr (ix fmt : Nat) (ch sr : Int) (h0 : H) (s0 : Store) (ops : List SOp)
    (ho : openHandle ix {} .w fmt ch sr = .ok h0 s0) (hsr : sr ≤ 0x7FFFFFFF) (hv : ∀ op ∈ ops, op.valid ch.toNat)
    (hex : ∀ c, openCfg fmt ch sr = some c → c.container = .wav → (sessData c ops).length < 0xFFFFFFFF)
    (ix' pos : Nat) :
    ∃ c h' s', openCfg fmt ch sr = some c ∧
      openHandle ix' ⟨(closeHandle (runS (h0, s0) ops).1 (runS (h0, s0) ops).2).bytes, pos⟩ .rw fmt ch sr = .ok h' s' ∧
      RwInv h' s' ∧
      absOf h' s' = { frames := groups c.bw (sessData c ops), rpos := 0, wpos := sessFrames ch.toNat ops } := by
  obtain ⟨c, hcfg, h1, h2, h3, i⟩ := session_inv ops ho hv
  obtain ⟨f1, f2, f3, f4, f5, f6⟩ := openCfg_facts hcfg
  have hwav := hex c hcfg
  have hdata : (c.init.run c ops).data = sessData c ops := by rw [run_data]; simp [Cfg.init]
  have hframes : (c.init.run c ops).frames = sessFrames ch.toNat ops := by rw [run_frames, f4]; simp [Cfg.init]
  have hdl := i.dlen
  rw [hdata, hframes] at hdl
  have hfin : ∀ h' s', ReopenedRw c.enc c.ch (sessFrames ch.toNat ops) (sessData c ops) h' s' →
      RwInv h' s' ∧ absOf h' s' = { frames := groups c.bw (sessData c ops), rpos := 0, wpos := sessFrames ch.toNat ops } :=
    fun h' s' r => ⟨r.inv, r.abs⟩
  rw [close_bytes i]
  cases hcc : c.container with
  | raw =>
    have himg : closedImage c (c.init.run c ops) = sessData c ops := by
      simp [closedImage, hcc, snapImage, hdrBytes, hdata]
    rw [himg]
    rw [hcc] at f1 f5 f6
    obtain ⟨h', s', ho', r⟩ := raw_image_open_rw fmt ch sr c.enc f1 ⟨h1, h2⟩ h3 (by rw [← f5]; exact f6)
      (sessData c ops) (sessFrames ch.toNat ops) (by have := hdl; rw [Cfg.bw, f4] at this; exact this) ix' pos
    have r2 : ReopenedRw c.enc c.ch (sessFrames ch.toNat ops) (sessData c ops) h' s' := by rw [f4]; exact r
    exact ⟨c, h', s', hcfg, ho', hfin h' s' r2⟩
  | au =>
    have himg : closedImage c (c.init.run c ops) =
        auHdr_ct c.big (codecOf c.fmtWord) c.sr c.ch (sessData c ops).length ++ sessData c ops := by
      simp [closedImage, hcc, snapImage, hdrBytes, hdata]
    rw [himg]
    rw [hcc] at f1 f6
    obtain ⟨h', s', ho', r⟩ := au_image_open_rw c.big (codecOf c.fmtWord) c.sr c.ch c.enc (by rw [f2]; exact f6)
      (by rw [f4]; omega) (by rw [f3]; omega) (sessData c ops) (sessFrames ch.toNat ops) hdl ix' pos fmt ch sr
      (by rw [f1]; simp)
    exact ⟨c, h', s', hcfg, ho', hfin h' s' r⟩
  | wav =>
    have hg := hwav hcc
    obtain ⟨t2, ht2, hpad⟩ : ∃ t2, t2 ≤ 1 ∧ wavPad_ct c (c.init.run c ops) = zeros t2 := by
      unfold wavPad_ct
      split
      · exact ⟨1, Nat.le_refl _, rfl⟩
      · exact ⟨0, by omega, rfl⟩
    have himg : closedImage c (c.init.run c ops) =
        wavHdr_ct c.big (codecOf c.fmtWord) c.enc.nbytes c.ch c.sr (sessFrames ch.toNat ops : Nat)
          (c.init.run c ops).peak true
          ((c.hdrLen + (sessData c ops).length + t2 : Nat) : Int) (sessData c ops).length ++ sessData c ops ++ zeros t2 := by
      simp [closedImage, hcc, hdrBytes, hdata, hpad, hframes, zeros_length]
    rw [himg]
    rw [hcc] at f1 f6
    obtain ⟨h', s', ho', r⟩ := wav_image_open_rw c.big (codecOf c.fmtWord) c.sr c.ch c.enc (by rw [f2]; exact f6)
      (by rw [f4]; omega) (by rw [f3]; omega) (sessData c ops) (sessFrames ch.toNat ops) hdl hg _
      (c.init.run c ops).peak i.pkLen t2 ht2 ix' pos fmt ch sr (by rw [f1]; simp)
    exact ⟨c, h', s', hcfg, ho', hfin h' s' r⟩

/-! ## the values view -/

/-- the abstract file as the caller of type `ty` sees it: every stored frame decoded to its `ch` items -/
def absValues (h : H) (s : Store) (ty : Ty) : List (List Int) :=
  (absOf h s).frames.map (h.enc.decodeAll h.conv ty)

theorem decodeAll_flatten (e : Enc) (c : Conv) (ty : Ty) (hn : 0 < e.nbytes) (chn : Nat) :
    ∀ fs : List (List Byte), (∀ g ∈ fs, g.length = chn * e.nbytes) →
      e.decodeAll c ty fs.flatten = (fs.map (e.decodeAll c ty)).flatten := by
  intro fs
  induction fs with
  | nil => intro _; simp [decodeAll_nil]
  | cons g fs ih =>
    intro hl
    rw [List.flatten_cons, Enc.decodeAll_append e c ty hn chn g _ (hl g (by simp)), List.map_cons, List.flatten_cons,
      ih (fun g' hg => hl g' (by simp [hg]))]

/-- the frames a whole-frame buffer encodes to are the encodings of its `ch`-item groups -/
theorem writtenFrames_eq (h : H) (ty : Ty) (data : List Int) (hch : 0 < h.ch) (hnb : 0 < h.enc.nbytes)
    (hmod : data.length % h.ch = 0) :
    writtenFrames h ty data = (groups h.ch data).map (h.enc.encodeAll h.conv ty) := by
  have hdl : data.length = data.length / h.ch * h.ch := by
    have := Nat.div_add_mod data.length h.ch
    rw [hmod, Nat.mul_comm] at this; omega
  have hj : (groups h.ch data).flatten = data := groups_join _ hch _ _ hdl
  have hgl : ∀ g ∈ groups h.ch data, g.length = h.ch := groups_mem_length _ hch _ data rfl
  unfold writtenFrames
  conv => lhs; rw [← hj]
  rw [Enc.encodeAll_flatten]
  apply groups_flatten _ (Nat.mul_pos hnb hch)
  intro x hx
  obtain ⟨g, hg, rfl⟩ := List.mem_map.mp hx
  rw [Enc.encodeAll_length, hgl g hg]; exact Nat.mul_comm _ _

/-- the values view after a write of lossless samples at write position `p`: frames `p … p+k` of the file ARE the
    caller's frames (the buffer cut into groups of `ch` items), for whatever conversion settings they are read with -/
theorem write_puts_values_core (h : H) (s : Store) (inv : RwInv h s) (ty : Ty) (fc : Bool) (data : List Int)
    (hmod : data.length % h.ch = 0) (hpos : 0 < data.length)
    (hrt : ∀ (c' : Conv) (g : List Int), g ∈ groups h.ch data → h.enc.decodeAll c' ty (h.enc.encodeAll h.conv ty g) = g) :
    let r := stepAny h s ((ROp.write ty fc data).toOp h)
    ((absValues r.1 r.2.1 ty).drop (absOf h s).wpos).take (data.length / h.ch) = groups h.ch data := by
  intro r
  have g := inv.gives
  obtain ⟨hne, wl, a, _⟩ := write_effect h s inv ty fc data hmod hpos
  have c := SameCfg.stepAny h s ((ROp.write ty fc data).toOp h)
  unfold absValues
  rw [← List.map_drop, ← List.map_take, a, ← wl, AbsFile.write_read_back _ _ _ hne,
    writtenFrames_eq h ty data g.2.1 g.2.2.1 hmod, List.map_map, c.enc]
  calc (groups h.ch data).map (h.enc.decodeAll r.1.conv ty ∘ h.enc.encodeAll h.conv ty)
      = (groups h.ch data).map id := List.map_congr_left (fun x hx => hrt _ x hx)
    _ = groups h.ch data := by simp

/-- a read, in the values view: the buffer starts with the frames `rpos … rpos+k` of the file as the caller sees them -/
theorem read_values_core (h : H) (s : Store) (inv : RwInv h s) (ty : Ty) (fc : Bool) (k : Nat) (hk : 0 < k) :
    let r := stepAny h s ((ROp.read ty fc k).toOp h)
    let got := ((absValues h s ty).drop (absOf h s).rpos).take k
    r.2.2.ret = callCount h fc got.length ∧ r.2.2.err = 0 ∧
    r.2.2.data = got.flatten ++ List.replicate ((k - got.length) * h.ch)
      (if (absOf h s).rpos < (absOf h s).frames.length then readFill h s ty k got.length else 0) := by
  intro r got
  have g := inv.gives
  obtain ⟨o, _, _⟩ := rdwr_step h s (.read ty fc k) inv trivial
  simp only [ROp.outOk] at o
  obtain ⟨o1, o2⟩ := o
  obtain ⟨o2, o3⟩ := o2 hk
  have hgot : got = (((absOf h s).read k).1).map (h.enc.decodeAll h.conv ty) := by
    show ((absValues h s ty).drop _).take k = _
    unfold absValues AbsFile.read
    rw [← List.map_drop, ← List.map_take]
  have hlen : got.length = ((absOf h s).read k).1.length := by rw [hgot, List.length_map]
  have hfl : h.enc.decodeAll h.conv ty ((absOf h s).read k).1.flatten = got.flatten := by
    rw [hgot]
    apply decodeAll_flatten _ _ _ g.2.2.1 h.ch
    intro x hx
    have : x ∈ (absOf h s).frames := List.mem_of_mem_drop (List.mem_of_mem_take hx)
    rw [inv.frame_len x this]; exact Nat.mul_comm _ _
  exact ⟨by rw [o1, hlen], o2, by rw [o3, hfl, hlen]⟩

theorem groups_mem_sub {α} (n : Nat) (hn : 0 < n) (l : List α) (hl : l.length % n = 0) :
    ∀ g ∈ groups n l, ∀ v ∈ g, v ∈ l := by
  intro g hg v hv
  have hdl : l.length = l.length / n * n := by
    have := Nat.div_add_mod l.length n
    rw [hl, Nat.mul_comm] at this; omega
  have hj : (groups n l).flatten = l := groups_join _ hn _ _ hdl
  rw [← hj]
  exact List.mem_flatten.mpr ⟨g, hg, hv⟩

end Sf
