/-
  SfProofs.NistParse — `Sf.Nist.parse (hdr c f ++ data)` for every accepted configuration, every frame count the
  64-bit `sample_count` line can hold and any audio bytes: the reader reports the requested channels, encoding (with
  the byte order where the file records it), rate, and `data.length / blockwidth` frames.
-/
import SfModel.Nist
import SfProofs.NistImage
namespace Sf.Nist
open Sf Sf.Small2
open Sf.Pvf (digits scanInt skipWs isWs isDigit scanDigits)

theorem mem_codecs (c : Cfg) (hwf : c.wf) : c.codec ∈ codecs := by
  rcases hwf.1 with h | h | h | h | h | h <;> simp [codecs, h]

theorem mem_bools (b : Bool) : b ∈ [true, false] := by cases b <;> simp

theorem lit_nonzero : (∀ b ∈ headA, b ≠ 0) ∧ (∀ b ∈ headB, b ≠ 0) ∧ (∀ b ∈ headD, b ≠ 0) ∧
    (∀ codec ∈ codecs, ∀ big ∈ [true, false], ∀ b ∈ mid codec big, b ≠ 0) := by decide +kernel

theorem lit_lengths : headA.length ≤ 40 ∧ headB.length ≤ 20 ∧ headD.length ≤ 10 ∧
    (∀ codec ∈ codecs, ∀ big ∈ [true, false], (mid codec big).length ≤ 140) := by decide +kernel

theorem digits_nonzero (n : Nat) : ∀ b ∈ digits n, b ≠ 0 := by
  intro b hb; have := Sf.Pvf.digits_all n b hb; simp only [Byte] at *; omega

theorem text_nonzero (c : Cfg) (hwf : c.wf) (F : Nat) : ∀ b ∈ flatten (env c F) (segs c.codec c.big), b ≠ 0 := by
  obtain ⟨hA, hB, hD, hM⟩ := lit_nonzero
  have hm := hM c.codec (mem_codecs c hwf) c.big (mem_bools _)
  intro b hb
  simp only [segs, flatten, env, List.mem_append, if_true, List.append_nil] at hb
  rcases hb with h | h | h | h | h | h | h
  · exact hA b h
  · exact digits_nonzero _ b h
  · exact hB b h
  · exact digits_nonzero _ b (by simpa using h)
  · exact hm b h
  · exact digits_nonzero _ b (by simpa using h)
  · exact hD b h

theorem text_length (c : Cfg) (hwf : c.wf) (F : Nat) (hF : F < 2 ^ 63) : (flatten (env c F) (segs c.codec c.big)).length ≤ 300 := by
  obtain ⟨hA, hB, hD, hM⟩ := lit_lengths
  have hm := hM c.codec (mem_codecs c hwf) c.big (mem_bools _)
  have h1 := Sf.Pvf.digits_length_le 4 c.ch (by decide) (by have := hwf.2.2.2.1; omega)
  have h2 := Sf.Pvf.digits_length_le 10 c.sr (by decide) (by have := hwf.2.2.2.2.2; omega)
  have h63 : (2:Nat) ^ 63 < 10 ^ 19 := by decide
  have h3 := Sf.Pvf.digits_length_le 19 F (by decide) (by omega)
  simp only [segs, flatten, env, List.length_append, if_true, List.append_nil]
  simp only [show (1 : Nat) = 0 ↔ False from by decide, show (2 : Nat) = 0 ↔ False from by decide,
    show (2 : Nat) = 1 ↔ False from by decide, if_false]
  omega

theorem takeWhile_fill (T : List Byte) (hT : ∀ b ∈ T, b ≠ 0) (k : Nat) :
    (T ++ List.replicate (k + 1) 0).takeWhile (· ≠ 0) = T := by
  induction T with
  | nil => simp [List.replicate]
  | cons a t ih =>
    have ha := hT a (List.mem_cons_self ..)
    simp only [List.cons_append, List.takeWhile_cons, ne_eq, ha, not_false_eq_true, decide_true, if_true]
    rw [ih (fun b hb => hT b (List.mem_cons_of_mem _ hb))]

/-- the 1024-byte header is the text followed by a non-empty zero fill -/
theorem hdr_eq (c : Cfg) (hwf : c.wf) (F : Nat) (hF : F < 2 ^ 63) (f : Fields) (hf : f.frames = (F : Int)) :
    ∃ k, hdr c f = flatten (env c F) (segs c.codec c.big) ++ List.replicate (k + 1) 0 ∧
      (flatten (env c F) (segs c.codec c.big)).length + (k + 1) = 1024 := by
  have hl := text_length c hwf F hF
  refine ⟨1023 - (flatten (env c F) (segs c.codec c.big)).length, ?_, by omega⟩
  unfold hdr
  rw [hf, text_eq c F hF, List.take_append, List.take_of_length_le (by omega), List.take_replicate]
  congr 2
  omega

theorem hdr_length (c : Cfg) (f : Fields) : (hdr c f).length = 1024 := by
  unfold hdr; rw [List.length_take, List.length_append, List.length_replicate]; omega

theorem lawful (c : Cfg) : Lawful (fmt c) where
  hlen := by intro f; exact hdr_length c f
  hindep := by intro n f g; rfl

theorem headA_split : headA = [0x4E, 0x49, 0x53, 0x54, 0x5F, 0x31, 0x41, 0x0A, 0x20, 0x20, 0x20, 0x31] ++ headA.drop 12 := by decide +kernel

theorem guess_image (X : List Byte) : guess (headA ++ X) = some (.fmt 0x070000) := by
  rw [headA_split, List.append_assoc]; rfl

theorem headB_cons : headB = 0x0A :: headB.drop 1 := by decide +kernel

theorem headA_facts : mis kBad headA = true ∧ isPrefix kMagic headA = true ∧ 7 ≤ headA.length ∧
    scanInt (headA.drop 7) = some (1024, asc "\nchannel_count -i ") := by decide +kernel

/-- **nist_read_header on a library image** -/
theorem parse_image (c : Cfg) (hwf : c.wf) (F : Nat) (hF : F < 2 ^ 63) (f : Fields) (hf : f.frames = (F : Int)) (data : List Byte) :
    parse (hdr c f ++ data) = .ok { ch := c.ch, fmt := c.fmtWord, sr := c.sr, frames := data.length / c.bw } := by
  obtain ⟨k, hh, hk⟩ := hdr_eq c hwf F hF f hf
  have hc := mem_codecs c hwf
  have hb := mem_bools c.big
  have he := goodEnv c F
  have hlen : (hdr c f ++ data).length = 1024 + data.length := by rw [List.length_append, hdr_length]
  -- the text
  generalize hT : flatten (env c F) (segs c.codec c.big) = T at hh hk
  have hTz : ∀ b ∈ T, b ≠ 0 := by rw [← hT]; exact text_nonzero c hwf F
  have hTA : T = headA ++ flatten (env c F) ((segs c.codec c.big).drop 1) := by rw [← hT]; rfl
  have hX : DigOrEnd (flatten (env c F) ((segs c.codec c.big).drop 1)) := digOrEnd_flatten _ he _ rfl
  unfold parse
  rw [if_neg (by omega)]
  have hg : guess (hdr c f ++ data) = some (.fmt 0x070000) := by
    rw [hh, hTA, List.append_assoc, List.append_assoc]; exact guess_image _
  rw [hg]
  simp only []
  unfold readHeader
  rw [if_neg (by omega)]
  have htext : headerText (hdr c f ++ data) = T := by
    unfold headerText
    have h1 : (hdr c f ++ data).take 1024 = hdr c f := by
      rw [List.take_append_of_le_length (by rw [hdr_length]; exact Nat.le_refl _), List.take_of_length_le (by rw [hdr_length]; exact Nat.le_refl _)]
    rw [h1, hh, takeWhile_fill T hTz k]
    have hs : strstr kEnd T = some (asc "end_head\n") := by
      rw [← hT, ssearch_sound kEnd kEnd_ne _ he _ _ (fact_end c.codec hc c.big hb)]
      simp [flatten]
    simp only [hs]
    apply List.take_of_length_le
    have : (asc "end_head\n").length = 9 := by decide
    omega
  simp only [htext]
  -- magic
  obtain ⟨hbad, hmagic, h7, hoff⟩ := headA_facts
  have e1 : isPrefix kBad T = false := by rw [hTA]; exact mis_sound kBad headA _ hX hbad
  have e2 : isPrefix kMagic T = true := by rw [hTA]; exact isPrefix_append kMagic headA _ hmagic
  have e3 : scanInt (T.drop 7) = some (1024, asc "\nchannel_count -i " ++ flatten (env c F) ((segs c.codec c.big).drop 1)) := by
    rw [hTA, List.drop_append_of_le_length h7]
    exact scanInt_lit _ _ _ _ hoff (by decide)
  -- the fields
  have e4 : intField kChan T 0 = some (c.ch : Int) := by
    unfold intField
    rw [← hT, after_of_litAfter kChan kChan_ne _ he _ _ _ (fact_chan c.codec hc c.big hb)]
    have : ([] : List Byte) ++ flatten (env c F) ((segs c.codec c.big).drop 1) =
        digits c.ch ++ 0x0A :: (headB.drop 1 ++ flatten (env c F) ((segs c.codec c.big).drop 3)) := by
      show _ = _
      simp only [segs, List.drop_succ_cons, List.drop_zero, flatten, env, if_true, List.nil_append]
      conv => lhs; rw [headB_cons]
      simp
    have hi : inInt (c.ch : Int) = true := by
      have := hwf.2.2.2.1
      simp only [inInt, decide_eq_true_eq]; omega
    simp only [this, scanInt_digits_then c.ch 0x0A _ (by decide), hi, if_true]
  have e5 : intField kRate T 0 = some (c.sr : Int) := by
    unfold intField
    rw [← hT, after_of_litAfter kRate kRate_ne _ he _ _ _ (fact_rate c.codec hc c.big hb)]
    have : ([] : List Byte) ++ flatten (env c F) ((segs c.codec c.big).drop 3) =
        digits c.sr ++ 0x0A :: ((codecBlock c.codec c.big ++ headC) ++ flatten (env c F) ((segs c.codec c.big).drop 5)) := by
      simp [segs, flatten, env, mid]
    have hi : inInt (c.sr : Int) = true := by
      have := hwf.2.2.2.2.2
      simp only [inInt, decide_eq_true_eq]; omega
    simp only [this, scanInt_digits_then c.sr 0x0A _ (by decide), hi, if_true]
  have e6 : intField kBytes T 0 = some (nbytesOf c.codec) := by
    rw [← hT]; exact intLit_sound kBytes kBytes_ne _ he _ _ _ (fact_bytes c.codec hc c.big hb)
  have e7 : encodingOf T = encOf c.codec := by rw [← hT]; exact encLit_sound _ he _ _ (fact_enc c.codec hc c.big hb)
  have e8 := orderLit_sound _ he _ _ _ (fact_order c.codec hc c.big hb)
  rw [hT] at e8
  have e9 : strstr kInter T = none := by
    rw [← hT, ssearch_sound kInter kInter_ne _ he _ _ (fact_inter c.codec hc c.big hb)]; rfl
  have i1024 : inInt 1024 = true := by decide
  simp only [e1, e2, e3, e4, e5, e6, e7, e8, e9, i1024, if_true, Bool.false_eq_true, if_false, Bool.not_true, Option.isSome_none]
  -- the six encodings
  obtain ⟨hch1, hch2, hsr1, hsr2⟩ := hwf.2.2
  have hchr : ¬ (((c.ch : Nat) : Int) < 1 ∨ ((c.ch : Nat) : Int) > 1024) := by omega
  have hsrr : ¬ (((c.sr : Nat) : Int) < 1 ∨ (1024 : Int) < 0) := by omega
  have hfr : ∀ bwn : Nat, 0 < bwn → (framesOf ((1024 + data.length : Nat) : Int) 1024 0 ((bwn : Nat) : Int)).toNat = data.length / bwn :=
    fun bwn h => framesOf_nat 1024 data.length bwn h
  rw [hlen]
  have hcodec := hwf.1
  obtain ⟨codec, endian, ch, sr⟩ := c
  simp only at hcodec hchr hsrr hch1 hfr ⊢
  rcases hcodec with h | h | h | h | h | h <;> subst h <;>
    simp only [encOf, nbytesOf, wide, bytewidth, Cfg.fmtWord, Cfg.bw, Nat.reduceEqDiff, or_self, or_true, true_or, if_true, if_false,
      decide_true, decide_false, Bool.false_eq_true, hchr, hsrr, Int.toNat_natCast] <;>
    (have c1 : ((1 : Nat) : Int) = 1 := rfl
     have c2 : ((2 : Nat) : Int) = 2 := rfl
     have c3 : ((3 : Nat) : Int) = 3 := rfl
     have c4 : ((4 : Nat) : Int) = 4 := rfl
     have h0 := hfr ch (by omega)
     have h1 := hfr (1 * ch) (by omega)
     have h2 := hfr (2 * ch) (by omega)
     have h3 := hfr (3 * ch) (by omega)
     have h4 := hfr (4 * ch) (by omega)
     simp only [Int.natCast_mul, c1, c2, c3, c4] at h0 h1 h2 h3 h4
     simp only [c1, c2, c3, c4, Int.reduceEq, Nat.reduceEqDiff, if_true, if_false, or_self, h0, h1, h2, h3, h4, Cfg.big, Nat.zero_add, Nat.one_mul]
     try (cases endian_eq : decide (endian = 2) <;> simp_all))

end Sf.Nist
