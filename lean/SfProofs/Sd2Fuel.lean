/-
  SD2: the loop bound of the resource-fork parser model is never reached (iteration k of the string loop needs
  item_offset + 12 k + 1 < len), i.e. the parser makes at most len / 12 + 1 iterations: helpers of SfProps/C04Sd2.lean.
  `Prog.All P p`: every answer the program can give, whatever the bytes are, satisfies `P`.
-/
import SfModel.Sd2
namespace Sf.Sd2
open Sf Sf.Small2

namespace Prog

inductive All (P : α → Prop) : Prog α → Prop where
  | pure (a : α) : P a → All P (.pure a)
  | read (i : Nat) (k : Byte → Prog α) : (∀ b, All P (k b)) → All P (.read i k)

theorem all_true : ∀ (p : Prog α), All (fun _ => True) p
  | .pure a => All.pure a trivial
  | .read i k => All.read i k (fun b => all_true (k b))

theorem all_bind {Q : α → Prop} {P : β → Prop} {p : Prog α} {f : α → Prog β} (hp : All Q p) (hf : ∀ a, Q a → All P (f a)) :
    All P (p >>= f) := by
  show All P (Prog.bind p f)
  induction hp with
  | pure a ha => exact hf a ha
  | read i k _ ih => exact All.read i _ ih

theorem all_bind_any {P : β → Prop} (p : Prog α) {f : α → Prog β} (hf : ∀ a, All P (f a)) : All P (p >>= f) :=
  all_bind (all_true p) (fun a _ => hf a)

theorem all_pure {P : α → Prop} (a : α) (h : P a) : All P (pure a : Prog α) := All.pure a h

theorem run_all {P : α → Prop} {p : Prog α} (hp : All P p) (g : Nat → Byte) : P (p.run g).1 := by
  induction hp with
  | pure a ha => exact ha
  | read i k _ ih => exact ih (g i)

end Prog
open Prog

variable {L : Nat}

theorem strLoopK_some (dOff itemOff : Int) (hi : 0 ≤ itemOff) :
    ∀ (fuel : Nat) (k : Int) (s : LoopSt), 0 ≤ k → (L : Int) / 12 + 2 ≤ fuel + k → 1 ≤ fuel →
      All (fun r => r ≠ none) (strLoopK L dOff itemOff fuel k s)
  | 0, _, _, _, _, h => by omega
  | fuel + 1, k, s, hk, hf, _ => by
    unfold strLoopK
    split
    · exact all_pure _ (by simp)
    · refine all_bind_any _ (fun slen => ?_)
      refine all_bind_any _ (fun _ => ?_)
      try dsimp only
      split
      · exact all_pure _ (by simp)
      · rename_i hid
        refine all_bind_any _ (fun id => ?_)
        refine all_bind_any _ (fun rel => ?_)
        try dsimp only
        split
        · exact all_pure _ (by simp)
        · refine all_bind_any _ (fun dl => ?_)
          split
          · exact all_pure _ (by simp)
          · refine all_bind_any _ (fun vlen => ?_)
            refine all_bind_any _ (fun value => ?_)
            try dsimp only
            split
            · exact all_pure _ (by simp)
            · exact strLoopK_some dOff itemOff hi fuel _ _ (by omega) (by push_cast at hf ⊢; omega) (by push_cast at hf; omega)

theorem parseStr_nofuel (dOff itemOff strOff : Int) (hi : 0 ≤ itemOff) : All (fun r => r ≠ PRes.fuel) (parseStr L dOff itemOff strOff) := by
  unfold parseStr
  refine all_bind (strLoopK_some dOff itemOff hi _ 0 _ (by omega) ?_ (by unfold loopFuel; omega)) (fun r hr => ?_)
  · unfold loopFuel
    have : ((L : Int).toNat / 12 + 2 : Nat) = (L / 12 + 2 : Nat) := by simp
    rw [this]; push_cast; omega
  · split
    · exact absurd rfl hr
    · rename_i s
      refine all_pure _ ?_
      unfold finish
      try dsimp only
      repeat (first | (intro h; cases h) | split)

theorem typeLoop_nofuel (dOff typeOff itemOff strOff : Int) (hi : 0 ≤ itemOff) :
    ∀ (n : Nat) (k : Int), All (fun r => r ≠ PRes.fuel) (typeLoop L dOff typeOff itemOff strOff n k)
  | 0, _ => all_pure _ (by simp)
  | n + 1, k => by
    unfold typeLoop
    refine all_bind_any _ (fun m => ?_)
    split
    · exact all_bind_any _ (fun _ => parseStr_nofuel _ _ _ hi)
    · exact typeLoop_nofuel dOff typeOff itemOff strOff hi n _

theorem parseFork_nofuel : All (fun r => r ≠ PRes.fuel) (parseFork L) := by
  unfold parseFork
  refine all_bind_any _ (fun d0 => ?_)
  refine all_bind_any _ (fun m0 => ?_)
  refine all_bind_any _ (fun dl0 => ?_)
  refine all_bind_any _ (fun ml0 => ?_)
  refine all_bind_any _ (fun q => ?_)
  obtain ⟨dOff, mOff, dLen, mLen⟩ := q
  try dsimp only
  repeat (first | exact all_pure _ (by simp) | split)
  refine all_bind_any _ (fun so => ?_)
  try dsimp only
  split
  · exact all_pure _ (by simp)
  · refine all_bind_any _ (fun tc => ?_)
    try dsimp only
    split
    · exact all_pure _ (by simp)
    · split
      · exact all_pure _ (by simp)
      · rename_i h
        exact typeLoop_nofuel _ _ _ _ (by omega) _ _

end Sf.Sd2
