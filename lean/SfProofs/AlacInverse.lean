/-
  SfProofs.AlacInverse — the decoder's predictor and matrixing invert the encoder's: `unpc_block ∘ pc_block = id`
  (coefficient adaptation included, int32 wrap-around included) for samples that fit the channel width, and
  `unmix ∘ mix = id` where the products do not leave int32.
-/
import SfModel.AlacEnc
namespace Sf.AlacCore

theorem wrapS_add_mul (cb : Nat) (a k : Int) : wrapS cb (a + 2 ^ cb * k) = wrapS cb a := by
  unfold wrapS
  simp only [Int.add_mul_emod_self_left]

theorem wrapS_eq_add (cb : Nat) (a : Int) : ∃ k : Int, wrapS cb a = a + 2 ^ cb * k := by
  unfold wrapS
  have hm := Int.mul_ediv_add_emod a (2 ^ cb)
  by_cases h : a % 2 ^ cb < 2 ^ cb / 2
  · exact ⟨-(a / 2 ^ cb), by simp only [h, if_true]; rw [Int.mul_neg]; omega⟩
  · exact ⟨-(a / 2 ^ cb) - 1, by simp only [h, if_false]; rw [Int.mul_sub, Int.mul_neg, Int.mul_one]; omega⟩

theorem w32_eq_add_cb (cb : Nat) (h : cb ≤ 32) (a : Int) : ∃ k : Int, w32 a = a + 2 ^ cb * k := by
  obtain ⟨k, hk⟩ := wrapS_eq_add 32 a
  refine ⟨2 ^ (32 - cb) * k, ?_⟩
  rw [w32, hk, ← Int.mul_assoc, ← Int.pow_add, show cb + (32 - cb) = 32 by omega]

/-- the core identity: what the decoder rebuilds from the encoder's residual is the sample, whatever the prediction `t`
    (all arithmetic modulo 2^32, then cut to `cb` bits) -/
theorem residual_inv (cb : Nat) (hcb : cb ≤ 32) (x t s : Int) (hx : sx cb x = x) :
    sx cb (w32 (sx cb (w32 (w32 (x - t) - s)) + w32 (t + s))) = x := by
  obtain ⟨k1, h1⟩ := w32_eq_add_cb cb hcb (x - t)
  obtain ⟨k2, h2⟩ := w32_eq_add_cb cb hcb (w32 (x - t) - s)
  obtain ⟨k3, h3⟩ := wrapS_eq_add cb (w32 (w32 (x - t) - s))
  obtain ⟨k4, h4⟩ := w32_eq_add_cb cb hcb (t + s)
  obtain ⟨k5, h5⟩ := w32_eq_add_cb cb hcb (sx cb (w32 (w32 (x - t) - s)) + w32 (t + s))
  have : w32 (sx cb (w32 (w32 (x - t) - s)) + w32 (t + s)) = x + 2 ^ cb * (k1 + k2 + k3 + k4 + k5) := by
    rw [h5]; unfold sx; rw [h3, h2, h1, h4]; simp only [Int.mul_add]; omega
  rw [this]; unfold sx at hx ⊢; rw [wrapS_add_mul, hx]

theorem diff_inv (cb : Nat) (hcb : cb ≤ 32) (x p : Int) (hx : sx cb x = x) : sx cb (w32 (sx cb (w32 (x - p)) + p)) = x := by
  obtain ⟨k1, h1⟩ := w32_eq_add_cb cb hcb (x - p)
  obtain ⟨k3, h3⟩ := wrapS_eq_add cb (w32 (x - p))
  obtain ⟨k5, h5⟩ := w32_eq_add_cb cb hcb (sx cb (w32 (x - p)) + p)
  have : w32 (sx cb (w32 (x - p)) + p) = x + 2 ^ cb * (k1 + k3 + k5) := by
    rw [h5]; unfold sx; rw [h3, h1]; simp only [Int.mul_add]; omega
  rw [this]; unfold sx at hx ⊢; rw [wrapS_add_mul, hx]

/-- one round of the main loops: the decoder's step on the encoder's residual gives back the sample and the SAME adapted
    coefficients -/
theorem unpcStep_pcStep (na cb ds : Nat) (hcb : cb ≤ 32) (coefs hist : List Int) (x : Int) (hx : sx cb x = x) :
    unpcStep na cb ds coefs hist (pcStep na cb ds coefs hist x).1 = (x, (pcStep na cb ds coefs hist x).2) := by
  unfold unpcStep pcStep
  simp only []
  have hr := residual_inv cb hcb x (hist.getD na 0)
    (asr (w32 ((List.zip coefs (hist.take na)).foldl (fun s (c, o) => w32 (s + w32 (c * w32 (o - hist.getD na 0)))) 0 + denHalf ds)) ds) hx
  split <;> rename_i h0 <;> simp only [h0, if_true, if_false] <;> simp only [hr]

/-- the loops: residuals of `pcLoop` fed to `unpcLoop` with the same start give the samples back (most recent first, on
    top of the common history) -/
theorem unpcLoop_pcLoop (na cb ds : Nat) (hcb : cb ≤ 32) (xs : List Int) : ∀ (j : Nat) (coefs hist : List Int),
    (∀ x ∈ xs, sx cb x = x) →
    unpcLoop na cb ds (pcLoop na cb ds xs j coefs hist).1 j coefs hist = xs.reverse ++ hist := by
  induction xs with
  | nil => intro j coefs hist _; simp [pcLoop, unpcLoop]
  | cons x xs ih =>
    intro j coefs hist hx
    have hx0 := hx x (by simp)
    have hxs : ∀ y ∈ xs, sx cb y = y := fun y hy => hx y (by simp [hy])
    rw [pcLoop]
    split
    · rename_i hj
      simp only []
      rw [unpcLoop]
      simp only [hj, if_true]
      rw [diff_inv cb hcb x (hist.headD 0) hx0, ih (j + 1) coefs (x :: hist) hxs]
      simp
    · rename_i hj
      have hs := unpcStep_pcStep na cb ds hcb coefs hist x hx0
      simp only []
      rw [unpcLoop]
      simp only [hj, if_false, hs]
      rw [ih (j + 1) _ (x :: hist) hxs]
      simp

/-- `unpc_block (pc_block (in))` = in: every predictor order except the first-order mode 31 (which the encoder never
    picks), every coefficient row, every shift, samples that fit in `cb` ≤ 32 bits -/
theorem unpcBlock_pcBlock (inp coefs : List Int) (na cb ds : Nat) (hcb : cb ≤ 32) (hna : na ≠ 31) (hfit : ∀ x ∈ inp, sx cb x = x) :
    unpcBlock (pcBlock inp coefs na cb ds).1 coefs na cb ds = inp := by
  cases inp with
  | nil => simp [pcBlock, unpcBlock]
  | cons x0 xs =>
    simp only [pcBlock]
    by_cases h0 : na = 0
    · simp [h0, unpcBlock]
    · simp only [h0, hna, if_false, unpcBlock]
      rw [unpcLoop_pcLoop na cb ds hcb xs 1 (coefs.take na) [x0] (fun x hx => hfit x (by simp [hx]))]
      simp

end Sf.AlacCore
