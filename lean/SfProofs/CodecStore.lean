/-
  SfProofs.CodecStore — the byte store under appending writes and header rewrites, header lengths.
-/
import SfModel.Handle
import SfProofs.Bytes
import SfProofs.Codec
namespace Sf

/-! ## `writeAt` / `Store.write` -/

theorem writeAt_end (bs d : List Byte) : writeAt bs bs.length d = bs ++ d := by
  simp [writeAt]

/-- overwriting a prefix by a piece of the same length -/
theorem writeAt_zero_prefix (hdr hdr' body : List Byte) (h : hdr'.length = hdr.length) :
    writeAt (hdr ++ body) 0 hdr' = hdr' ++ body := by
  simp [writeAt, h]

/-- the part of the store in front of a write at `pos` (zero-filled hole when `pos` is past the end) -/
def prefixAt (bs : List Byte) (pos : Nat) : List Byte :=
  if pos ≤ bs.length then bs.take pos else bs ++ zeros (pos - bs.length)

theorem prefixAt_length (bs : List Byte) (pos : Nat) : (prefixAt bs pos).length = pos := by
  unfold prefixAt zeros
  split <;> simp <;> omega

theorem writeAt_eq (bs : List Byte) (pos : Nat) (d : List Byte) :
    writeAt bs pos d = prefixAt bs pos ++ d ++ bs.drop (pos + d.length) := rfl

theorem writeAt_after (P a R b : List Byte) (n : Nat) (hn : n = P.length + a.length) :
    writeAt (P ++ a ++ R) n b = P ++ a ++ b ++ R.drop b.length := by
  subst hn
  have hl : (P ++ a).length = P.length + a.length := by simp
  rw [writeAt_eq, prefixAt, if_pos (by simp)]
  rw [List.take_left' hl]
  congr 1
  rw [← hl, ← List.drop_drop, List.drop_left' rfl]

/-- two consecutive writes are one write of the concatenation (any store, any position, holes included) -/
theorem writeAt_writeAt (bs : List Byte) (pos : Nat) (a b : List Byte) :
    writeAt (writeAt bs pos a) (pos + a.length) b = writeAt bs pos (a ++ b) := by
  rw [writeAt_eq bs pos a, writeAt_after _ _ _ _ _ (by rw [prefixAt_length]), writeAt_eq bs pos (a ++ b)]
  simp [List.drop_drop, Nat.add_assoc]

theorem Store.write_write (s : Store) (a b : List Byte) : (s.write a).write b = s.write (a ++ b) := by
  unfold Store.write
  cases a with
  | nil => simp
  | cons x a =>
    cases b with
    | nil => simp
    | cons y b =>
      have := writeAt_writeAt s.bytes s.pos (x :: a) (y :: b)
      simp only [List.isEmpty_cons, Bool.false_eq_true, if_false, List.cons_append, this, Store.mk.injEq, true_and]
      simp; omega

/-- appending at the end of the store -/
theorem Store.write_end (s : Store) (d : List Byte) (h : s.pos = s.bytes.length) :
    s.write d = { bytes := s.bytes ++ d, pos := s.pos + d.length } := by
  unfold Store.write
  cases d with
  | nil => simp
  | cons x d => simp [h, writeAt_end]

/-! ## header lengths -/

@[simp] theorem u32_length (big : Bool) (v : Int) : (u32 big v).length = 4 := by
  unfold u32; split <;> simp [beBytes_length, leBytes_length]
@[simp] theorem u16_length (big : Bool) (v : Int) : (u16 big v).length = 2 := by
  unfold u16; split <;> simp [beBytes_length, leBytes_length]
theorem marker_len_RIFF : (marker "RIFF").length = 4 := by decide
theorem marker_len_RIFX : (marker "RIFX").length = 4 := by decide
theorem marker_len_WAVE : (marker "WAVE").length = 4 := by decide
theorem marker_len_fmt : (marker "fmt ").length = 4 := by decide
theorem marker_len_fact : (marker "fact").length = 4 := by decide
theorem marker_len_data : (marker "data").length = 4 := by decide
theorem marker_len_PEAK : (marker "PEAK").length = 4 := by decide
theorem marker_len_snd : (marker ".snd").length = 4 := by decide
theorem marker_len_dns : (marker "dns.").length = 4 := by decide

theorem auHeader_length (h : H) : (auHeader h).length = 24 := by
  unfold auHeader
  simp only [List.length_append, u32_length, apply_ite List.length, marker_len_snd, marker_len_dns, ite_self]

theorem peakChunk_length (h : H) (ps : List Peak) : (peakChunk h ps).length = 16 + 8 * ps.length := by
  unfold peakChunk
  have : ∀ (l : List Peak), (l.flatMap fun p => u32 h.big (wrF32 (Float.f64to32 p.value)) ++ u32 h.big p.position).length = 8 * l.length := by
    intro l
    induction l with
    | nil => rfl
    | cons a l ih => simp [List.flatMap_cons, ih]; omega
  simp [marker_len_PEAK, this]
  omega

/-- length of the WAV header: a function of the codec, and of the number of PEAK entries when there is a PEAK chunk
    in front of the data -/
def wavHdrLen (h : H) : Nat :=
  let codec := codecOf h.fmtWord
  12 + 4 + (if codec == 0x10 || codec == 0x11 then 22 else 20) + (if hasFact codec then 12 else 0) +
    (match h.peak.map List.length with
      | some n => if h.peakAtStart then 16 + 8 * n else 0
      | none => 0) + 8

theorem wavHeader_length (h : H) : (wavHeader h).length = wavHdrLen h := by
  unfold wavHeader wavHdrLen
  simp only [List.length_append, u32_length, u16_length, marker_len_RIFF, marker_len_RIFX, marker_len_WAVE, marker_len_fmt, marker_len_fact, marker_len_data,
    apply_ite List.length, List.length_nil, ite_self]
  cases h.peak with
  | none => simp only [List.length_nil, Option.map_none]
  | some ps =>
    cases h.peakAtStart <;> simp only [Option.map_some, peakChunk_length, if_true, Bool.false_eq_true, if_false, List.length_nil] <;>
      split <;> split <;> omega

end Sf
