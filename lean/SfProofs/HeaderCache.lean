/-
  Helper lemmas for C03: the header-cache primitives preserve the invariant and stay in bounds.
-/
import SfModel.HeaderCache
namespace Sf.HeaderCache

/-- close an arithmetic side goal, reducing structure projections first when needed -/
macro "bnd" : tactic => `(tactic| first | omega | (dsimp only; omega) | (dsimp only at *; omega))

/-- all buffer accesses of an event list lie inside a buffer of `len` bytes -/
def AllIn (len : Int) (evs : List Ev) : Prop := ∀ e ∈ evs, e.inBounds len

theorem AllIn.nil (len : Int) : AllIn len [] := by intro e h; cases h

theorem AllIn.append {len : Int} {a b : List Ev} (ha : AllIn len a) (hb : AllIn len b) : AllIn len (a ++ b) := by
  intro e h
  rcases List.mem_append.mp h with h | h
  · exact ha e h
  · exact hb e h

theorem AllIn.mono {l1 l2 : Int} {a : List Ev} (h : l1 ≤ l2) (ha : AllIn l1 a) : AllIn l2 a := by
  intro e he
  have := ha e he
  cases e <;> simp [Ev.inBounds] at * <;> omega

theorem AllIn.cons {len : Int} {e : Ev} {a : List Ev} (he : e.inBounds len) (ha : AllIn len a) : AllIn len (e :: a) := by
  intro x hx
  rcases List.mem_cons.mp hx with h | h
  · exact h ▸ he
  · exact ha x h

theorem allIn_two {len a b c d: Int} (h1 : 0 ≤ a ∧ 0 ≤ b ∧ a + b ≤ len) : AllIn len [Ev.wr a b, Ev.ioRead c d] := by
  intro e he; simp at he
  rcases he with rfl | rfl <;> simp [Ev.inBounds]; exact h1

theorem allIn_rd {len a b : Int} (h1 : 0 ≤ a ∧ 0 ≤ b ∧ a + b ≤ len) : AllIn len [Ev.rd a b] := by
  intro e he; simp at he; subst he; simp [Ev.inBounds]; exact h1

theorem allIn_one {len : Int} {e : Ev} (h1 : e.inBounds len) : AllIn len [e] := by
  intro x hx; simp at hx; subst hx; exact h1

/-! ### bump / guard -/

theorem bump_spec {s : St} {n : Int} {a : Bool} {s' : St} {failed : Bool} {ev : List Ev}
    (h : Inv s) (hr : bump s n a = (s', failed, ev)) :
    Inv s' ∧ s'.indx = s.indx ∧ s'.end_ = s.end_ ∧ s.len ≤ s'.len ∧
    (failed = false → s.indx + n ≤ s'.len) ∧ AllIn s'.len ev := by
  simp only [bump] at hr
  generalize hnl : (if n > s.len then 2 * (if n > INITIAL then n else INITIAL) else 2 * s.len) = newlen at hr
  unfold Inv at *
  have hb : s.indx + n ≤ newlen ∧ s.len ≤ newlen := by
    subst hnl; unfold INITIAL at *; split <;> (try split) <;> omega
  by_cases h1 : newlen > CAP ∧ s.indx + n > CAP
  · rw [if_pos h1] at hr
    simp only [Prod.mk.injEq] at hr
    obtain ⟨rfl, rfl, rfl⟩ := hr
    exact ⟨h, rfl, rfl, Int.le_refl _, by simp, allIn_one (by simp [Ev.inBounds])⟩
  · rw [if_neg h1] at hr
    cases a with
    | false =>
      simp only [Bool.not_false, if_true, Prod.mk.injEq] at hr
      obtain ⟨rfl, rfl, rfl⟩ := hr
      exact ⟨h, rfl, rfl, Int.le_refl _, by simp, AllIn.nil _⟩
    | true =>
      simp only [Bool.not_true, Bool.false_eq_true, if_false, Prod.mk.injEq] at hr
      obtain ⟨rfl, rfl, rfl⟩ := hr
      refine ⟨?_, rfl, rfl, ?_, ?_, AllIn.nil _⟩ <;> dsimp only <;> unfold INITIAL CAP at * <;> split <;> omega

theorem guard_spec {s : St} {n : Int} {a : Bool} {s' : St} {failed : Bool} {ev : List Ev}
    (h : Inv s) (hr : guard s n a = (s', failed, ev)) :
    Inv s' ∧ s'.indx = s.indx ∧ s'.end_ = s.end_ ∧ s.len ≤ s'.len ∧
    (failed = false → s.indx + n ≤ s'.len) ∧ AllIn s'.len ev := by
  simp only [guard] at hr
  split at hr
  · exact bump_spec h hr
  · simp only [Prod.mk.injEq] at hr
    obtain ⟨rfl, rfl, rfl⟩ := hr
    refine ⟨h, rfl, rfl, Int.le_refl _, ?_, AllIn.nil _⟩
    intro _; omega

theorem clampIO_bounds (ans : Nat) (req : Int) : 0 ≤ clampIO ans req ∧ (0 ≤ req → clampIO ans req ≤ req) ∧ (req ≤ 0 → clampIO ans req = 0) := by
  unfold clampIO
  split
  · omega
  · split <;> omega

/-! ### header_read -/

theorem headerRead_spec {s : St} {bytes : Int} {o : Oracle} {s' : St} {ev : List Ev} {ret : Int}
    (h : Inv s) (hb : 0 ≤ bytes) (hr : headerRead s bytes o = (s', ev, ret)) :
    Inv s' ∧ AllIn s'.len ev ∧ 0 ≤ ret ∧ s.len ≤ s'.len := by
  rcases hg : guard s bytes (o.alloc 0) with ⟨s1, failed, ev1⟩
  obtain ⟨hinv, hi, he, hl, hroom, hev⟩ := guard_spec h hg
  simp only [headerRead, hg] at hr
  cases failed with
  | true =>
    simp only [if_true, Prod.mk.injEq] at hr
    obtain ⟨rfl, rfl, rfl⟩ := hr
    exact ⟨hinv, hev, Int.le_refl _, hl⟩
  | false =>
    have hroom' := hroom rfl
    simp only [Bool.false_eq_true, if_false] at hr
    have c := clampIO_bounds (o.io 0) (bytes - (s1.end_ - s1.indx))
    unfold Inv INITIAL CAP at *
    split at hr
    · split at hr
      · simp only [Prod.mk.injEq] at hr
        obtain ⟨rfl, rfl, rfl⟩ := hr
        refine ⟨hinv, ?_, c.1, hl⟩
        exact AllIn.append (AllIn.append hev (allIn_two (by bnd))) (allIn_one (by simp [Ev.inBounds]))
      · rename_i hne
        have hc : clampIO (o.io 0) (bytes - (s1.end_ - s1.indx)) = bytes - (s1.end_ - s1.indx) := by
          simpa using hne
        simp only [Prod.mk.injEq] at hr
        obtain ⟨rfl, rfl, rfl⟩ := hr
        refine ⟨?_, ?_, hb, hl⟩
        · simp only [hc]; omega
        · simp only [hc]
          exact AllIn.append (AllIn.append hev (allIn_two (by bnd))) (allIn_rd (by bnd))
    · simp only [Prod.mk.injEq] at hr
      obtain ⟨rfl, rfl, rfl⟩ := hr
      refine ⟨?_, ?_, hb, hl⟩
      · dsimp only; omega
      · exact AllIn.append hev (allIn_rd (by bnd))

/-! ### header_seek -/

theorem headerSeek_spec {pipe : Bool} {s : St} {position whence : Int} {o : Oracle} {s' : St} {ev : List Ev}
    (h : Inv s) (hp : whence = 0 → 0 ≤ position) (hr : headerSeek pipe s position whence o = (s', ev)) :
    Inv s' ∧ AllIn s'.len ev ∧ s.len ≤ s'.len := by
  rcases hg : guard s position (o.alloc 0) with ⟨s1, failed, ev1⟩
  obtain ⟨hinv, hi, he, hl, -, hev⟩ := guard_spec h hg
  have c := clampIO_bounds (o.io 0)
  simp only [headerSeek] at hr
  by_cases hw0 : whence = 0
  · have hp' := hp hw0
    rw [if_pos hw0] at hr
    simp only [hg] at hr
    unfold Inv INITIAL CAP at *
    split at hr
    · simp only [Prod.mk.injEq] at hr
      obtain ⟨rfl, rfl⟩ := hr
      refine ⟨by bnd, AllIn.append hev (allIn_one (by simp [Ev.inBounds])), hl⟩
    · split at hr
      · simp only [Prod.mk.injEq] at hr
        obtain ⟨rfl, rfl⟩ := hr
        have c1 := (c (position - s1.end_)).1
        have c2 := (c (position - s1.end_)).2.1 (by omega)
        refine ⟨by bnd, AllIn.append hev (allIn_two (by bnd)), hl⟩
      · simp only [Prod.mk.injEq] at hr
        obtain ⟨rfl, rfl⟩ := hr
        refine ⟨by bnd, hev, hl⟩
  · rw [if_neg hw0] at hr
    by_cases hw1 : whence = 1
    · rw [if_pos hw1] at hr
      simp only [hg] at hr
      unfold Inv INITIAL CAP at *
      split at hr
      · simp only [Prod.mk.injEq] at hr
        obtain ⟨rfl, rfl⟩ := hr
        exact ⟨hinv, hev, hl⟩
      · split at hr
        · simp only [Prod.mk.injEq] at hr
          obtain ⟨rfl, rfl⟩ := hr
          exact ⟨hinv, AllIn.append hev (allIn_one (by simp [Ev.inBounds])), hl⟩
        · split at hr
          · simp only [Prod.mk.injEq] at hr
            obtain ⟨rfl, rfl⟩ := hr
            refine ⟨by bnd, hev, hl⟩
          · split at hr
            · simp only [Prod.mk.injEq] at hr
              obtain ⟨rfl, rfl⟩ := hr
              refine ⟨by bnd, AllIn.append hev (allIn_one ?_), hl⟩
              cases pipe <;> simp [Ev.inBounds]
            · simp only [Prod.mk.injEq] at hr
              obtain ⟨rfl, rfl⟩ := hr
              have c1 := (c (position - (s1.end_ - s1.indx))).1
              have c2 := (c (position - (s1.end_ - s1.indx))).2.1 (by omega)
              refine ⟨by bnd, AllIn.append hev (allIn_two (by bnd)), hl⟩
    · rw [if_neg hw1] at hr
      simp only [Prod.mk.injEq] at hr
      obtain ⟨rfl, rfl⟩ := hr
      exact ⟨h, AllIn.nil _, Int.le_refl _⟩

/-! ### header_gets -/

theorem getsLoop_spec (o : Oracle) : ∀ (fuel k : Nat) (s : St) (ev : List Ev),
    Inv s → AllIn s.len ev → (fuel ≠ 0 → s.indx + fuel + 1 ≤ s.len) →
    ∀ s' ev' k', getsLoop o fuel k s ev = (s', ev', k') → Inv s' ∧ s'.len = s.len ∧ AllIn s'.len ev' := by
  intro fuel
  induction fuel with
  | zero =>
    intro k s ev h hev _ s' ev' k' hr
    simp only [getsLoop, Prod.mk.injEq] at hr
    obtain ⟨rfl, rfl, rfl⟩ := hr
    exact ⟨h, rfl, hev⟩
  | succ fuel ih =>
    intro k s ev h hev hroom s' ev' k' hr
    have hroom' := hroom (by omega)
    have c := clampIO_bounds (o.io k) 1
    simp only [getsLoop] at hr
    by_cases hlt : s.indx < s.end_
    · simp only [hlt, if_true] at hr
      have hinv1 : Inv { s with indx := s.indx + 1 } := by unfold Inv INITIAL CAP at *; dsimp only; omega
      have hev1 : AllIn s.len (ev ++ [Ev.rd s.indx 1]) :=
        AllIn.append hev (allIn_rd (by unfold Inv at h; omega))
      split at hr
      · simp only [Prod.mk.injEq] at hr
        obtain ⟨rfl, rfl, rfl⟩ := hr
        exact ⟨hinv1, rfl, hev1⟩
      · exact ih (k + 1) _ _ hinv1 hev1 (by intro _; dsimp only; omega) s' ev' k' hr
    · simp only [hlt, if_false] at hr
      have c1 := c.1
      have c2 := c.2.1 (by omega)
      have hinv1 : Inv { s with end_ := s.end_ + clampIO (o.io k) 1, indx := s.end_ + clampIO (o.io k) 1 } := by
        unfold Inv INITIAL CAP at *; dsimp only; omega
      have hev1 : AllIn s.len (ev ++ [Ev.wr s.end_ 1, Ev.ioRead 1 (clampIO (o.io k) 1), Ev.rd s.indx 1]) := by
        refine AllIn.append hev ?_
        unfold Inv at h
        intro e he; simp at he
        rcases he with rfl | rfl | rfl <;> simp [Ev.inBounds] <;> omega
      split at hr
      · simp only [Prod.mk.injEq] at hr
        obtain ⟨rfl, rfl, rfl⟩ := hr
        exact ⟨hinv1, rfl, hev1⟩
      · exact ih (k + 1) _ _ hinv1 hev1 (by intro _; dsimp only; omega) s' ev' k' hr

theorem headerGets_spec {s : St} {bufsize : Int} {o : Oracle} {s' : St} {ev : List Ev} {ret : Int}
    (h : Inv s) (hr : headerGets s bufsize o = (s', ev, ret)) :
    Inv s' ∧ AllIn s'.len ev ∧ s.len ≤ s'.len := by
  rcases hg : guard s bufsize (o.alloc 0) with ⟨s1, failed, ev1⟩
  obtain ⟨hinv, hi, he, hl, hroom, hev⟩ := guard_spec h hg
  simp only [headerGets, hg] at hr
  cases failed with
  | true =>
    simp only [if_true, Prod.mk.injEq] at hr
    obtain ⟨rfl, rfl, rfl⟩ := hr
    exact ⟨hinv, hev, hl⟩
  | false =>
    simp only [Bool.false_eq_true, if_false] at hr
    have hroom' := hroom rfl
    rcases hl2 : getsLoop o (bufsize - 1).toNat 0 s1 ev1 with ⟨s2, ev2, k⟩
    simp only [hl2, Prod.mk.injEq] at hr
    obtain ⟨rfl, rfl, rfl⟩ := hr
    obtain ⟨i2, l2, e2⟩ := getsLoop_spec o _ 0 s1 ev1 hinv hev (by intro hne; omega) _ _ _ hl2
    exact ⟨i2, e2, by omega⟩

theorem getsItem_spec {s : St} {count : Int} {o : Oracle} {s' : St} {ev : List Ev} {ret : Int}
    (h : Inv s) (hr : getsItem s count o = (s', ev, ret)) :
    Inv s' ∧ AllIn s'.len ev ∧ s.len ≤ s'.len := by
  rcases hgg : guard s count (o.alloc 0) with ⟨sg, gf, evg⟩
  obtain ⟨hinvg, -, -, hlg, -, hevg⟩ := guard_spec h hgg
  simp only [getsItem, hgg] at hr
  cases gf with
  | true =>
    simp only [if_true, Prod.mk.injEq] at hr
    obtain ⟨rfl, rfl, rfl⟩ := hr
    exact ⟨hinvg, hevg, hlg⟩
  | false =>
    simp only [Bool.false_eq_true, if_false] at hr
    rcases hh : headerGets sg count (o.shiftAlloc 1) with ⟨s2, ev2, k⟩
    simp only [hh, Prod.mk.injEq] at hr
    obtain ⟨rfl, rfl, rfl⟩ := hr
    obtain ⟨a, b, d⟩ := headerGets_spec hinvg hh
    exact ⟨a, AllIn.append (AllIn.mono d hevg) b, by omega⟩

/-! ### one format character of psf_binheader_readf -/

theorem itemBody_spec {pipe : Bool} {s0 : St} {bc : Int} {o1 : Oracle} {it : Item}
    (h : Inv s0) (ha : it.argsOk) :
    Inv (itemBody pipe s0 bc o1 it).1 ∧ AllIn (itemBody pipe s0 bc o1 it).1.len (itemBody pipe s0 bc o1 it).2.1 ∧
      s0.len ≤ (itemBody pipe s0 bc o1 it).1.len := by
  cases it with
  | endian | nop | bad => exact ⟨h, AllIn.nil _, Int.le_refl _⟩
  | fixed n =>
    obtain ⟨a, b, -, d⟩ := headerRead_spec (o := o1) h (Int.natCast_nonneg n) rfl
    exact ⟨a, b, d⟩
  | b count =>
    obtain ⟨a, b, -, d⟩ := headerRead_spec (o := o1) (bytes := count) h ha rfl
    exact ⟨a, b, d⟩
  | G count =>
    obtain ⟨a, b, d⟩ := getsItem_spec (o := o1) (count := count) h rfl
    exact ⟨a, b, d⟩
  | p count => exact headerSeek_spec (pipe := pipe) (o := o1) (position := count) (whence := 0) h (fun _ => ha) rfl
  | j count => exact headerSeek_spec (pipe := pipe) (o := o1) (position := count) (whence := 1) h (by intro hc; cases hc) rfl
  | bang =>
    refine ⟨?_, AllIn.nil _, Int.le_refl _⟩
    unfold Inv INITIAL CAP at *; simp only [itemBody]; omega

theorem readfItem_spec {pipe : Bool} {r : Rf} {it : Item} {o : Oracle} {r' : Rf} {ev : List Ev}
    (h : Inv r.st) (ha : it.argsOk) (hr : readfItem pipe r it o = (r', ev)) :
    Inv r'.st ∧ AllIn r'.st.len ev ∧ r.st.len ≤ r'.st.len := by
  simp only [readfItem] at hr
  by_cases hs : r.stopped = true
  · rw [if_pos hs] at hr
    simp only [Prod.mk.injEq] at hr
    obtain ⟨rfl, rfl⟩ := hr
    exact ⟨h, AllIn.nil _, Int.le_refl _⟩
  · rw [if_neg hs] at hr
    rcases hg : guard r.st 16 (o.alloc 0) with ⟨s0, failed, ev0⟩
    obtain ⟨hinv0, -, -, hl0, -, hev0⟩ := guard_spec h hg
    simp only [hg] at hr
    cases failed with
    | true =>
      simp only [if_true, Prod.mk.injEq] at hr
      obtain ⟨rfl, rfl⟩ := hr
      exact ⟨hinv0, hev0, hl0⟩
    | false =>
      simp only [Bool.false_eq_true, if_false] at hr
      obtain ⟨a, b, d⟩ := itemBody_spec (pipe := pipe) (bc := r.byteCount) (o1 := o.shiftAlloc 1) hinv0 ha
      split at hr <;>
      · simp only [Prod.mk.injEq] at hr
        obtain ⟨rfl, rfl⟩ := hr
        exact ⟨a, AllIn.append (AllIn.mono d hev0) b, by bnd⟩

/-! ### any primitive, any sequence -/

theorem step_spec {s : St} {op : Op} {o : Oracle} (h : Inv s) (ha : op.argsOk) :
    Inv (step s op o).1 ∧ AllIn (step s op o).1.len (step s op o).2 ∧ s.len ≤ (step s op o).1.len := by
  cases op with
  | read b =>
    obtain ⟨a, b', -, d⟩ := headerRead_spec (o := o) (bytes := b) h ha rfl
    exact ⟨a, b', d⟩
  | seek pipe p w => exact headerSeek_spec (o := o) h ha rfl
  | gets n => exact headerGets_spec (o := o) h rfl
  | bump n =>
    obtain ⟨a, -, -, d, -, e⟩ := bump_spec (a := o.alloc 0) (n := n) h rfl
    exact ⟨a, e, d⟩
  | reset =>
    refine ⟨?_, AllIn.nil _, Int.le_refl _⟩
    unfold Inv INITIAL CAP at *; simp only [step]; omega
  | item pipe it => exact readfItem_spec (r := { st := s }) (o := o) h ha rfl

theorem run_spec : ∀ (ops : List (Op × Oracle)) (s : St), Inv s → (∀ x ∈ ops, x.1.argsOk) →
    (∀ x ∈ run s ops, Inv x.1 ∧ AllIn x.1.len x.2) ∧ Inv (finalState s ops) := by
  intro ops
  induction ops with
  | nil =>
    intro s h _
    refine ⟨?_, h⟩
    intro x hx
    simp [run] at hx
  | cons hd tl ih =>
    intro s h ha
    obtain ⟨op, o⟩ := hd
    obtain ⟨a, b, -⟩ := step_spec (o := o) h (ha (op, o) (List.mem_cons_self ..))
    obtain ⟨r1, r2⟩ := ih (step s op o).1 a (fun x hx => ha x (List.mem_cons_of_mem _ hx))
    refine ⟨?_, r2⟩
    intro x hx
    simp only [run] at hx
    rcases List.mem_cons.mp hx with rfl | hx
    · exact ⟨a, b⟩
    · exact r1 x hx

end Sf.HeaderCache
