/-
  The central lemma about reading on a read-only handle: a read of `m` whole frames delivers
  `min m (frames − rpos)` frames, which are the corresponding slice of the decoded item stream.
-/
import SfProofs.HandleInv
namespace Sf

/-- the decoded item sequence of the audio data section: item `i` of the file is `(itemStream …)[i]` -/
def itemStream (h : H) (bytes : List Byte) (ty : Ty) : List Int :=
  h.enc.decodeAll h.conv ty (bytes.drop h.dataoffset.toNat)

/-- Natural-number view of a read-mode handle in front of a read that has data left -/
theorem rmode_nat (h : H) (s : Store) (hi : HInv h s) (hm : h.mode = .r) (he : h.rpos < h.frames) :
    ∃ R A O : Nat, 0 < A ∧ h.rpos = R ∧ h.frames = ((R + A : Nat) : Int) ∧ h.dataoffset = O ∧
      s.pos = O + R * (h.enc.nbytes * h.ch) ∧ s.pos + A * (h.enc.nbytes * h.ch) ≤ s.bytes.length ∧
      readPos h s = s.pos := by
  have hr := hi.rd hm
  obtain ⟨R, hR⟩ := Int.eq_ofNat_of_zero_le hi.rpos_nn
  obtain ⟨O, hO⟩ := Int.eq_ofNat_of_zero_le hi.off_nn
  obtain ⟨A, hA⟩ := Int.eq_ofNat_of_zero_le (show 0 ≤ h.frames - h.rpos by omega)
  have hs := hr.sync he
  have hc := hr.covers
  unfold H.bw at hs hc
  rw [hR, hO] at hs
  have hF : h.frames = ((R + A : Nat) : Int) := by omega
  rw [hF, hO] at hc
  have hs' : s.pos = O + R * (h.enc.nbytes * h.ch) := by
    have : ((s.pos : Nat) : Int) = ((O + R * (h.enc.nbytes * h.ch) : Nat) : Int) := by rw [hs]; push_cast; rfl
    exact Int.ofNat.inj this
  refine ⟨R, A, O, by omega, hR, hF, hO, hs', ?_, ?_⟩
  · have : ((O + (R + A) * (h.enc.nbytes * h.ch) : Nat) : Int) ≤ (s.bytes.length : Int) := by
      push_cast; push_cast at hc; exact hc
    have h2 : O + (R + A) * (h.enc.nbytes * h.ch) ≤ s.bytes.length := Int.ofNat_le.mp this
    rw [hs', Nat.add_mul] at *; omega
  · simp [readPos, hr.lastOp]


theorem vals_eq_stream (h : H) (bytes : List Byte) (ty : Ty) (hnb : 0 < h.enc.nbytes) (O R m : Nat)
    (hO : h.dataoffset = O) :
    h.enc.decodeAll h.conv ty ((bytes.drop (O + R * (h.enc.nbytes * h.ch))).take (m * h.ch * h.enc.nbytes)) =
      ((itemStream h bytes ty).drop (R * h.ch)).take (m * h.ch) := by
  unfold itemStream
  rw [Enc.decodeAll_take _ _ _ hnb, Nat.mul_div_cancel _ hnb, hO, Int.toNat_natCast]
  have : R * (h.enc.nbytes * h.ch) = R * h.ch * h.enc.nbytes := by
    rw [Nat.mul_assoc, Nat.mul_comm h.ch]
  rw [this, ← List.drop_drop, Enc.decodeAll_drop _ _ _ hnb]

/-- what a read of `m` whole frames does on a read-only handle with data left -/
theorem stepRead_rmode (h : H) (s : Store) (ty : Ty) (fc : Bool) (n : Int) (hi : HInv h s) (hm : h.mode = .r)
    (hn : 0 < n) (ha : fc = true ∨ n % h.ch = 0) (he : h.rpos < h.frames)
    (m : Nat) (hlen : reqLen h fc n = (m : Int) * h.ch) :
    ∃ R A : Nat, h.rpos = R ∧ h.frames = ((R + A : Nat) : Int) ∧
      (stepRead h s ty fc n).1 = { h with error := 0, rpos := ((R + min m A : Nat) : Int), lastOp := .r } ∧
      (stepRead h s ty fc n).2.1.bytes = s.bytes ∧
      (m < A → (stepRead h s ty fc n).2.1.pos = s.pos + m * (h.enc.nbytes * h.ch)) ∧
      (stepRead h s ty fc n).2.2.ret = (if fc then ((min m A : Nat) : Int) else ((min m A * h.ch : Nat) : Int)) ∧
      (stepRead h s ty fc n).2.2.err = 0 ∧
      (stepRead h s ty fc n).2.2.data.length = m * h.ch ∧
      (stepRead h s ty fc n).2.2.data.take (min m A * h.ch) =
        ((itemStream h s.bytes ty).drop (R * h.ch)).take (min m A * h.ch) := by
  obtain ⟨R, A, O, hA, hR, hF, hO, hpos, hcov, hrp⟩ := rmode_nat h s hi hm he
  refine ⟨R, A, hR, hF, ?_⟩
  have hmw : h.mode ≠ .w := by rw [hm]; decide
  have hnb := hi.nb_pos
  have hch := hi.ch_pos
  have hlenN : (reqLen h fc n).toNat = m * h.ch := by
    rw [hlen]; exact Int.toNat_natCast (m * h.ch)
  have hgot : readGot h s (reqLen h fc n) = (s.bytes.drop s.pos).take (m * h.ch * h.enc.nbytes) := by
    simp only [readGot, hrp, hlenN, H.nb]
  have hvals : h.enc.decodeAll h.conv ty (readGot h s (reqLen h fc n)) =
      ((itemStream h s.bytes ty).drop (R * h.ch)).take (m * h.ch) := by
    rw [hgot, hpos]; exact vals_eq_stream h s.bytes ty hnb O R m hO
  have hG : (readGot h s (reqLen h fc n)).length = min (m * h.ch * h.enc.nbytes) (s.bytes.length - s.pos) := by
    rw [hgot, List.length_take, List.length_drop]
  obtain ⟨ar1, ar2⟩ := read_arith h.enc.nbytes h.ch m A s.bytes.length s.pos hnb hcov
  rw [← hG] at ar1 ar2
  have hcnt : ((readGot h s (reqLen h fc n)).length : Int) / (h.nb : Int) =
      (((readGot h s (reqLen h fc n)).length / h.enc.nbytes : Nat) : Int) := by
    simp [H.nb]
  have hvl : (h.enc.decodeAll h.conv ty (readGot h s (reqLen h fc n))).length =
      (readGot h s (reqLen h fc n)).length / h.enc.nbytes := Enc.decodeAll_length _ _ _ hnb _
  have hfr : (h.frames - h.rpos) * (h.ch : Int) = ((A * h.ch : Nat) : Int) := by
    have : h.frames - h.rpos = (A : Int) := by rw [hF, hR]; push_cast; omega
    rw [this]; push_cast; rfl
  rw [stepRead_main h s ty fc n hn hmw ha he]
  simp only [hcnt, hfr, hrp]
  generalize hc : (readGot h s (reqLen h fc n)).length / h.enc.nbytes = c at *
  have hcm : c ≤ m * h.ch := by
    rw [← hc]; apply Nat.div_le_of_le_mul; rw [hG, Nat.mul_comm h.enc.nbytes]; exact Nat.min_le_left _ _
  have hdiv : ∀ x : Nat, ((x * h.ch : Nat) : Int) / (h.ch : Int) = x := by
    intro x; push_cast; exact Int.mul_ediv_cancel _ (by omega)
  generalize h.enc.decodeAll h.conv ty (readGot h s (reqLen h fc n)) = V at *
  by_cases hmA : m ≤ A
  · -- the whole request is available
    have hGm := ar1 hmA
    have hcv : c = m * h.ch := by rw [← hc, hGm]; exact Nat.mul_div_cancel _ hnb
    have hmin : min m A = m := by omega
    have hle : m * h.ch ≤ A * h.ch := Nat.mul_le_mul_right _ hmA
    have hcond : ((c : Nat) : Int) ≤ ((A * h.ch : Nat) : Int) := by rw [hcv]; exact Int.ofNat_le.mpr hle
    rw [if_pos hcond, hmin]
    subst hcv
    have hz : reqLen h fc n - ((m * h.ch : Nat) : Int) = 0 := by rw [hlen]; push_cast; omega
    refine ⟨?_, rfl, ?_, ?_, rfl, ?_, ?_⟩
    · simp only [hdiv, hR]; push_cast; rfl
    · intro _; simp only [hGm]; rw [Nat.mul_assoc, Nat.mul_comm h.ch]
    · simp only [hdiv]
    · simp only [Int.toNat_natCast, hz, Int.toNat_zero, List.replicate_zero, List.append_nil, List.length_take, hvl,
        Nat.min_self]
    · simp only [Int.toNat_natCast, hz, Int.toNat_zero, List.replicate_zero, List.append_nil, List.take_take,
        Nat.min_self, hvals]
  · -- more than the remaining frames were requested
    have hAm : A ≤ m := by omega
    have hAc := ar2 hAm
    have hmin : min m A = A := by omega
    have hle : A * h.ch ≤ m * h.ch := Nat.mul_le_mul_right _ hAm
    have hz : (reqLen h fc n - ((A * h.ch : Nat) : Int)).toNat = m * h.ch - A * h.ch := by
      rw [hlen]; push_cast; push_cast at hle
      have : ((m * h.ch : Nat) : Int) - ((A * h.ch : Nat) : Int) = ((m * h.ch - A * h.ch : Nat) : Int) := by omega
      push_cast at this; rw [this]; exact Int.toNat_natCast _
    rw [hmin]
    by_cases hcond : ((c : Nat) : Int) ≤ ((A * h.ch : Nat) : Int)
    · have hcv : c = A * h.ch := by have := Int.ofNat_le.mp hcond; omega
      rw [if_pos hcond]
      subst hcv
      refine ⟨?_, rfl, fun hh => by omega, ?_, rfl, ?_, ?_⟩
      · simp only [hdiv, hR]; push_cast; rfl
      · simp only [hdiv]
      · simp only [Int.toNat_natCast, hz, List.length_append, List.length_take, hvl, Nat.min_self,
          List.length_replicate]; omega
      · rw [Int.toNat_natCast, List.take_append_of_le_length (by rw [List.length_take, hvl]; omega),
          List.take_take, Nat.min_self, hvals, List.take_take, Nat.min_eq_left hle]
    · rw [if_neg hcond]
      have hcgt : A * h.ch < c := by
        apply Nat.lt_of_not_le; intro hh; exact hcond (Int.ofNat_le.mpr hh)
      refine ⟨?_, rfl, fun hh => by omega, ?_, rfl, ?_, ?_⟩
      · simp only [hF]
      · simp only [hdiv]
      · simp only [Int.toNat_natCast, hz, List.length_append, List.length_take, hvl,
          List.length_replicate]; omega
      · rw [Int.toNat_natCast, List.take_append_of_le_length (by rw [List.length_take, hvl]; omega),
          List.take_take, Nat.min_self, hvals, List.take_take, Nat.min_eq_left hle]


/-- a read that reaches the codec, in any mode: `c` items are delivered -/
theorem stepRead_main_general (h : H) (s : Store) (ty : Ty) (fc : Bool) (n : Int) (hn : 0 < n) (hm : h.mode ≠ .w)
    (ha : fc = true ∨ n % h.ch = 0) (he : h.rpos < h.frames) (hnb : 0 < h.enc.nbytes) (hch : 0 < h.ch) :
    ∃ c : Nat, c ≤ (reqLen h fc n).toNat ∧
      (stepRead h s ty fc n).1 = { h with error := 0, rpos := h.rpos + (c : Int) / (h.ch : Int), lastOp := .r } ∧
      (stepRead h s ty fc n).2.1.bytes = s.bytes ∧
      (stepRead h s ty fc n).2.2.ret = (if fc then (c : Int) / (h.ch : Int) else (c : Int)) ∧
      (stepRead h s ty fc n).2.2.err = 0 ∧
      (stepRead h s ty fc n).2.2.data.length = (reqLen h fc n).toNat ∧
      (stepRead h s ty fc n).2.2.data.take c = (h.enc.decodeAll h.conv ty (readGot h s (reqLen h fc n))).take c ∧
      (h.rpos + (c : Int) / (h.ch : Int) ≤ h.frames ∨ h.frames < h.rpos) := by
  rw [stepRead_main h s ty fc n hn hm ha he]
  have hlen0 : 0 ≤ reqLen h fc n := by
    unfold reqLen; split
    · exact Int.mul_nonneg (by omega) (by omega)
    · omega
  have hG : (readGot h s (reqLen h fc n)).length ≤ (reqLen h fc n).toNat * h.enc.nbytes := by
    unfold readGot; rw [List.length_take]; exact Nat.min_le_left _ _
  have hcnt : ((readGot h s (reqLen h fc n)).length : Int) / (h.nb : Int) =
      (((readGot h s (reqLen h fc n)).length / h.enc.nbytes : Nat) : Int) := by
    simp [H.nb]
  have hvl : (h.enc.decodeAll h.conv ty (readGot h s (reqLen h fc n))).length =
      (readGot h s (reqLen h fc n)).length / h.enc.nbytes := Enc.decodeAll_length _ _ _ hnb _
  simp only [hcnt]
  generalize hc : (readGot h s (reqLen h fc n)).length / h.enc.nbytes = c0 at *
  have hc0 : c0 ≤ (reqLen h fc n).toNat := by
    rw [← hc]; apply Nat.div_le_of_le_mul; rw [Nat.mul_comm]; exact hG
  generalize h.enc.decodeAll h.conv ty (readGot h s (reqLen h fc n)) = V at *
  obtain ⟨L, hL⟩ := Int.eq_ofNat_of_zero_le hlen0
  rw [hL] at hc0 ⊢
  simp only [Int.toNat_natCast] at hc0 ⊢
  by_cases hcond : (c0 : Int) ≤ (h.frames - h.rpos) * (h.ch : Int)
  · rw [if_pos hcond]
    refine ⟨c0, hc0, rfl, rfl, rfl, rfl, ?_, ?_, ?_⟩
    · have : ((L : Int) - (c0 : Int)).toNat = L - c0 := by omega
      simp only [this, List.length_append, List.length_take, hvl, Nat.min_self, List.length_replicate]
      omega
    · show List.take c0 (List.take c0 V ++ _) = _
      rw [List.take_append_of_le_length (by rw [List.length_take, hvl]; omega), List.take_take, Nat.min_self]
    · left
      have h1 : (0 : Int) < h.ch := by omega
      have := Int.ediv_le_ediv h1 hcond
      rw [Int.mul_ediv_cancel _ (by omega)] at this
      omega
  · rw [if_neg hcond]
    have hpos : 0 ≤ (h.frames - h.rpos) * (h.ch : Int) := Int.mul_nonneg (by omega) (by omega)
    obtain ⟨c, hcN⟩ := Int.eq_ofNat_of_zero_le hpos
    rw [hcN] at hcond ⊢
    have hlt : c < c0 := by omega
    have hdiv : (c : Int) / (h.ch : Int) = h.frames - h.rpos := by
      rw [← hcN]; exact Int.mul_ediv_cancel _ (by omega)
    refine ⟨c, by omega, ?_, rfl, rfl, rfl, ?_, ?_, ?_⟩
    · simp only [hdiv]; congr 1; omega
    · have : ((L : Int) - (c : Int)).toNat = L - c := by omega
      simp only [this, List.length_append, List.length_take, hvl, List.length_replicate]
      omega
    · show List.take c (List.take c V ++ _) = _
      rw [List.take_append_of_le_length (by rw [List.length_take, hvl]; omega), List.take_take, Nat.min_self]
    · left; rw [hdiv]; omega

end Sf
