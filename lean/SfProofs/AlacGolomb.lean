/-
  SfProofs.AlacGolomb — the adaptive Golomb codes of ag_enc.c / ag_dec.c symbol by symbol: the 32-bit window over a code
  followed by anything, `lead`, and `dyn_get_32bit (dyn_code_32bit n) = n`, `dyn_get (dyn_code n) = n`.
-/
import SfProofs.AlacBits
import SfModel.AlacEnc
import Mathlib.Tactic.IntervalCases
namespace Sf.AlacCore

/-! ## rdBits -/

theorem rdBits_acc : ∀ (n : Nat) (bs : Bits) (acc : Nat), rdBits n bs acc = (acc * 2 ^ n + (rdBits n bs 0).1, (rdBits n bs 0).2)
  | 0, bs, acc => by simp [rdBits]
  | n + 1, [], acc => by
    rw [rdBits, rdBits, rdBits_acc n [] (2 * acc), rdBits_acc n [] (2 * 0)]
    simp [Nat.pow_succ]; ring
  | n + 1, b :: bs, acc => by
    rw [rdBits, rdBits, rdBits_acc n bs (2 * acc + b.toNat), rdBits_acc n bs (2 * 0 + b.toNat)]
    simp [Nat.pow_succ]; ring

theorem rdBits_lt : ∀ (n : Nat) (bs : Bits), (rdBits n bs 0).1 < 2 ^ n
  | 0, bs => by simp [rdBits]
  | n + 1, [] => by
    rw [rdBits, rdBits_acc]; have := rdBits_lt n []; simp [Nat.pow_succ] at *; omega
  | n + 1, b :: bs => by
    rw [rdBits, rdBits_acc]
    have := rdBits_lt n bs
    have hb : b.toNat ≤ 1 := by cases b <;> simp
    simp only [Nat.pow_succ, Nat.mul_zero, Nat.zero_add] at *
    calc b.toNat * 2 ^ n + (rdBits n bs 0).1 < 1 * 2 ^ n + 2 ^ n := by
          have := Nat.mul_le_mul_right (2 ^ n) hb; omega
      _ = 2 ^ n * 2 := by ring

/-- the window over a code of `L` bits followed by anything: the code on top, something below -/
theorem window_code (val L off : Nat) (rest : Bits) (hL : L + off ≤ 32) :
    ∃ t, t < 2 ^ (32 - L) ∧ window (bitsOf val L ++ rest) off = val % 2 ^ L * 2 ^ (32 - L) + t := by
  unfold window
  have e : 32 - off = L + (32 - off - L) := by omega
  -- read L bits, then the rest
  have h1 : rdBits (32 - off) (bitsOf val L ++ rest) 0 = rdBits (32 - off - L) rest (val % 2 ^ L) := by
    rw [e]
    generalize 32 - off - L = b
    have : ∀ (a : Nat) (bs : Bits) (acc : Nat), rdBits (a + b) bs acc = rdBits b (rdBits a bs acc).2 (rdBits a bs acc).1 := by
      intro a
      induction a with
      | zero => intro bs acc; simp [rdBits]
      | succ a ih =>
        intro bs acc
        rw [show a + 1 + b = (a + b) + 1 by omega]
        cases bs with
        | nil => rw [rdBits, rdBits, ih]
        | cons x xs => rw [rdBits, rdBits, ih]
    rw [this, rdBits_bitsOf]; simp
  rw [h1, rdBits_acc]
  refine ⟨(rdBits (32 - off - L) rest 0).1 * 2 ^ off, ?_, ?_⟩
  · have := rdBits_lt (32 - off - L) rest
    calc (rdBits (32 - off - L) rest 0).1 * 2 ^ off < 2 ^ (32 - off - L) * 2 ^ off := Nat.mul_lt_mul_of_pos_right this (Nat.pow_pos (by decide))
      _ = 2 ^ (32 - L) := by rw [← Nat.pow_add]; congr 1; omega
  · simp only
    rw [Nat.add_mul, Nat.mul_assoc, ← Nat.pow_add]
    congr 3; omega

/-! ## lead -/

theorem leadFrom_ge : ∀ (k m : Nat), 32 - k ≤ leadFrom k m
  | 0, _ => by simp [leadFrom]
  | k + 1, m => by rw [leadFrom]; split <;> [omega; (have := leadFrom_ge k m; omega)]

theorem leadFrom_skip : ∀ (k j m : Nat), j ≤ k → m < 2 ^ j → leadFrom k m = leadFrom j m
  | 0, j, m, h, _ => by have : j = 0 := by omega
                        subst this; rfl
  | k + 1, j, m, h, hm => by
    by_cases hj : j = k + 1
    · subst hj; rfl
    · rw [leadFrom]
      have : m / 2 ^ k = 0 := Nat.div_eq_of_lt (Nat.lt_of_lt_of_le hm (Nat.pow_le_pow_right (by decide) (by omega)))
      simp only [this, Nat.zero_mod, Nat.zero_ne_one, if_false]
      exact leadFrom_skip k j m (by omega) hm

theorem leadFrom_top (k m : Nat) (h1 : 2 ^ k ≤ m) (h2 : m < 2 ^ (k + 1)) : leadFrom (k + 1) m = 31 - k := by
  rw [leadFrom]
  have : m / 2 ^ k = 1 := by
    apply Nat.div_eq_of_lt_le
    · simpa using h1
    · rw [Nat.pow_succ] at h2; omega
  simp [this]

/-- `lead`: a word with its highest set bit at position `31 - d` -/
theorem lead_eq (m d : Nat) (hd : d < 32) (h1 : 2 ^ (31 - d) ≤ m) (h2 : m < 2 ^ (32 - d)) : lead m = d := by
  unfold lead
  have hm : m < 4294967296 := Nat.lt_of_lt_of_le h2 (by
    calc 2 ^ (32 - d) ≤ 2 ^ 32 := Nat.pow_le_pow_right (by decide) (by omega)
      _ = 4294967296 := by norm_num)
  rw [Nat.mod_eq_of_lt hm, leadFrom_skip 32 (32 - d) m (by omega) h2]
  have := leadFrom_top (31 - d) m h1 (by rw [show 31 - d + 1 = 32 - d by omega]; exact h2)
  rw [show 31 - d + 1 = 32 - d by omega] at this
  rw [this]; omega

theorem lead_ge (m j : Nat) (hj : j ≤ 32) (h : m < 2 ^ (32 - j)) : j ≤ lead m := by
  unfold lead
  have hm : m < 4294967296 := Nat.lt_of_lt_of_le h (by
    calc 2 ^ (32 - j) ≤ 2 ^ 32 := Nat.pow_le_pow_right (by decide) (by omega)
      _ = 4294967296 := by norm_num)
  rw [Nat.mod_eq_of_lt hm, leadFrom_skip 32 (32 - j) m (by omega) h]
  have := leadFrom_ge (32 - j) m; omega

/-- leading ones: `d` ones then a zero -/
theorem leadOnes_eq (w d : Nat) (hd : d < 32) (h1 : 4294967296 - 2 ^ (32 - d) ≤ w) (h2 : w < 4294967296 - 2 ^ (31 - d)) : leadOnes w = d := by
  unfold leadOnes
  have hp : 2 ^ (31 - d) ≥ 1 := Nat.pow_pos (by decide)
  rw [Nat.mod_eq_of_lt (by omega)]
  apply lead_eq _ d hd
  · omega
  · have : 2 ^ (32 - d) ≤ 4294967296 := by
      calc 2 ^ (32 - d) ≤ 2 ^ 32 := Nat.pow_le_pow_right (by decide) (by omega)
        _ = 4294967296 := by norm_num
    omega

theorem leadOnes_ge9 (w : Nat) (h1 : 4294967296 - 8388608 ≤ w) (h2 : w < 4294967296) : 9 ≤ leadOnes w := by
  unfold leadOnes
  rw [Nat.mod_eq_of_lt h2]
  apply lead_ge _ 9 (by decide)
  norm_num; omega

/-! ## one code word -/

theorem two_pow_split (a b : Nat) (h : b ≤ a) : 2 ^ a = 2 ^ b * 2 ^ (a - b) := by
  rw [← Nat.pow_add]; congr 1; omega

/-- `d` ones, a zero, then anything below: the prefix length and the `k` bits behind the zero -/
theorem prefix_window (d k P : Nat) (hd : d < 32) (hk : k ≤ 31 - d) (hP : P < 2 ^ (31 - d)) :
    leadOnes (4294967296 - 2 ^ (32 - d) + P) = d ∧
    ((4294967296 - 2 ^ (32 - d) + P) * 2 ^ (d + 1) % 4294967296) / 2 ^ (32 - k) = P / 2 ^ (31 - d - k) := by
  have e1 : 2 ^ (32 - d) = 2 * 2 ^ (31 - d) := by rw [← Nat.pow_succ']; congr 1; omega
  have e2 : 2 ^ (31 - d) ≤ 2147483648 := by
    calc 2 ^ (31 - d) ≤ 2 ^ 31 := Nat.pow_le_pow_right (by decide) (by omega)
      _ = 2147483648 := by norm_num
  constructor
  · apply leadOnes_eq _ d hd <;> omega
  · -- (2^32 - 2^(32-d)) * 2^(d+1) is a multiple of 2^32
    have e3 : 2 ^ (32 - d) * 2 ^ (d + 1) = 2 * 4294967296 := by
      rw [← Nat.pow_add, show 32 - d + (d + 1) = 33 by omega]
    have e4 : 4294967296 * 2 ^ (d + 1) = 4294967296 * (2 ^ (d + 1) - 2) + 2 * 4294967296 := by
      have : 2 ≤ 2 ^ (d + 1) := by
        calc 2 = 2 ^ 1 := by norm_num
          _ ≤ 2 ^ (d + 1) := Nat.pow_le_pow_right (by decide) (by omega)
      omega
    have e5 : (4294967296 - 2 ^ (32 - d) + P) * 2 ^ (d + 1) = 4294967296 * (2 ^ (d + 1) - 2) + P * 2 ^ (d + 1) := by
      have h : 4294967296 - 2 ^ (32 - d) + 2 ^ (32 - d) = 4294967296 := by omega
      have := congrArg (· * 2 ^ (d + 1)) h
      simp only [Nat.add_mul] at this
      rw [Nat.add_mul]; omega
    have e6 : P * 2 ^ (d + 1) < 4294967296 := by
      calc P * 2 ^ (d + 1) < 2 ^ (31 - d) * 2 ^ (d + 1) := Nat.mul_lt_mul_of_pos_right hP (Nat.pow_pos (by decide))
        _ = 4294967296 := by rw [← Nat.pow_add, show 31 - d + (d + 1) = 32 by omega]
    rw [e5, Nat.mul_add_mod, Nat.mod_eq_of_lt e6]
    -- P * 2^(d+1) / 2^(32-k) = P / 2^(31-d-k)
    rw [two_pow_split (32 - k) (d + 1) (by omega), show 32 - k - (d + 1) = 31 - d - k by omega, Nat.mul_comm P,
      Nat.mul_div_mul_left _ _ (Nat.pow_pos (by decide))]

/-- `dyn_get_32bit` on a code of `L` bits = `d` ones, a zero, and the payload `p` in the remaining `L - d - 1` bits -/
theorem get32_code (d k L p off m maxbits : Nat) (rest : Bits) (hd : d < 9) (hL : L + off ≤ 32) (hdL : d + 1 ≤ L)
    (hp : p < 2 ^ (L - d - 1)) (hk : d + k ≤ L) (hk1 : 1 ≤ k) (hL31 : L ≤ 31) :
    ∃ t, t < 2 ^ (32 - L) ∧
    dynGet32 (bitsOf ((2 ^ d - 1) * 2 ^ (L - d) + p) L ++ rest) off m k maxbits =
      (if k ≠ 1 then
        (if (p * 2 ^ (32 - L) + t) / 2 ^ (31 - d - k) ≥ 2 then (d * m + ((p * 2 ^ (32 - L) + t) / 2 ^ (31 - d - k) - 1), d + 1 + k)
         else (d * m, d + 1 + k - 1))
       else (d, d + 1)) := by
  have hV : (2 ^ d - 1) * 2 ^ (L - d) + p < 2 ^ L := by
    have : 2 ^ L = 2 ^ d * 2 ^ (L - d) := two_pow_split L d (by omega)
    have h2 : 2 ^ (L - d) = 2 * 2 ^ (L - d - 1) := by rw [← Nat.pow_succ']; congr 1; omega
    have h3 : (2 ^ d - 1) * 2 ^ (L - d) + 2 ^ (L - d) = 2 ^ d * 2 ^ (L - d) := by
      have : 1 ≤ 2 ^ d := Nat.pow_pos (by decide)
      rw [← Nat.succ_mul]; congr 1; omega
    omega
  obtain ⟨t, ht, hw⟩ := window_code ((2 ^ d - 1) * 2 ^ (L - d) + p) L off rest hL
  refine ⟨t, ht, ?_⟩
  rw [Nat.mod_eq_of_lt hV] at hw
  -- the window is 2^32 - 2^(32-d) + P
  have hP : p * 2 ^ (32 - L) + t < 2 ^ (31 - d) := by
    calc p * 2 ^ (32 - L) + t < (p + 1) * 2 ^ (32 - L) := by rw [Nat.succ_mul]; omega
      _ ≤ 2 ^ (L - d - 1) * 2 ^ (32 - L) := Nat.mul_le_mul_right _ hp
      _ = 2 ^ (31 - d) := by rw [← Nat.pow_add]; congr 1; omega
  have hw2 : window (bitsOf ((2 ^ d - 1) * 2 ^ (L - d) + p) L ++ rest) off = 4294967296 - 2 ^ (32 - d) + (p * 2 ^ (32 - L) + t) := by
    rw [hw, Nat.add_mul, Nat.mul_assoc, ← Nat.pow_add, show L - d + (32 - L) = 32 - d by omega, Nat.add_assoc]
    congr 1
    have : 2 ^ d * 2 ^ (32 - d) = 4294967296 := by rw [← Nat.pow_add, show d + (32 - d) = 32 by omega]
    rw [Nat.sub_mul, this]; simp
  obtain ⟨hpre, hv⟩ := prefix_window d k (p * 2 ^ (32 - L) + t) (by omega) (by omega) hP
  unfold dynGet32
  simp only [hw2, hpre, hv]
  have : ¬ (d ≥ 9) := by omega
  simp only [this, if_false]

/-- the window over a code word `d` ones, a zero, payload `p` in `L - d - 1` bits: prefix length and the `k` bits behind the zero -/
theorem code_window (d k L p off : Nat) (rest : Bits) (hd : d < 9) (hL : L + off ≤ 32) (hdL : d + 1 ≤ L)
    (hp : p < 2 ^ (L - d - 1)) (hk : d + k ≤ L) (hL31 : L ≤ 31) :
    ∃ t, t < 2 ^ (32 - L) ∧
      leadOnes (window (bitsOf ((2 ^ d - 1) * 2 ^ (L - d) + p) L ++ rest) off) = d ∧
      (window (bitsOf ((2 ^ d - 1) * 2 ^ (L - d) + p) L ++ rest) off * 2 ^ (d + 1) % 4294967296) / 2 ^ (32 - k) =
        (p * 2 ^ (32 - L) + t) / 2 ^ (31 - d - k) := by
  have hV : (2 ^ d - 1) * 2 ^ (L - d) + p < 2 ^ L := by
    have : 2 ^ L = 2 ^ d * 2 ^ (L - d) := two_pow_split L d (by omega)
    have h2 : 2 ^ (L - d) = 2 * 2 ^ (L - d - 1) := by rw [← Nat.pow_succ']; congr 1; omega
    have h3 : (2 ^ d - 1) * 2 ^ (L - d) + 2 ^ (L - d) = 2 ^ d * 2 ^ (L - d) := by
      have : 1 ≤ 2 ^ d := Nat.pow_pos (by decide)
      rw [← Nat.succ_mul]; congr 1; omega
    omega
  obtain ⟨t, ht, hw⟩ := window_code ((2 ^ d - 1) * 2 ^ (L - d) + p) L off rest hL
  refine ⟨t, ht, ?_⟩
  rw [Nat.mod_eq_of_lt hV] at hw
  have hP : p * 2 ^ (32 - L) + t < 2 ^ (31 - d) := by
    calc p * 2 ^ (32 - L) + t < (p + 1) * 2 ^ (32 - L) := by rw [Nat.succ_mul]; omega
      _ ≤ 2 ^ (L - d - 1) * 2 ^ (32 - L) := Nat.mul_le_mul_right _ hp
      _ = 2 ^ (31 - d) := by rw [← Nat.pow_add]; congr 1; omega
  have hw2 : window (bitsOf ((2 ^ d - 1) * 2 ^ (L - d) + p) L ++ rest) off = 4294967296 - 2 ^ (32 - d) + (p * 2 ^ (32 - L) + t) := by
    rw [hw, Nat.add_mul, Nat.mul_assoc, ← Nat.pow_add, show L - d + (32 - L) = 32 - d by omega, Nat.add_assoc]
    congr 1
    have : 2 ^ d * 2 ^ (32 - d) = 4294967296 := by rw [← Nat.pow_add, show d + (32 - d) = 32 by omega]
    rw [Nat.sub_mul, this]; simp
  rw [hw2]
  exact prefix_window d k (p * 2 ^ (32 - L) + t) (by omega) (by omega) hP

/-- the escape code of a zero run: 9 ones, then the run length in 16 bits -/
theorem escRun (n off m k : Nat) (rest : Bits) (hoff : off < 8) (hn : n < 65536) :
    dynGet (bitsOf (511 * 65536 + n) 25 ++ rest) off m k = (n, 25) := by
  unfold dynGet
  obtain ⟨t, ht, hw⟩ := window_code (511 * 65536 + n) 25 off rest (by omega)
  generalize window (bitsOf (511 * 65536 + n) 25 ++ rest) off = W at hw ⊢
  simp only [Nat.reducePow, Nat.reduceSub, Nat.reduceMul] at ht hw
  rw [Nat.mod_eq_of_lt (by omega)] at hw
  have hp : 9 ≤ leadOnes W := by rw [hw]; exact leadOnes_ge9 _ (by omega) (by omega)
  simp only [hp, ge_iff_le, if_true, Nat.reducePow, Nat.reduceAdd, Prod.mk.injEq, and_true]
  omega

/-- `dyn_get (dyn_code (n)) = n` for a run length below 65536 and `m = 2^k - 1`, 1 ≤ k -/
theorem dynGet_dynCode (k n off : Nat) (rest : Bits) (hk1 : 1 ≤ k) (hoff : off < 8) (hn : n < 65536) :
    dynGet (dynCode (2 ^ k - 1) k n ++ rest) off (2 ^ k - 1) k = (n, (dynCode (2 ^ k - 1) k n).length) := by
  have hm2 : 2 ≤ 2 ^ k := by
    calc 2 = 2 ^ 1 := by norm_num
      _ ≤ 2 ^ k := Nat.pow_le_pow_right (by decide) hk1
  have hmpos : 0 < 2 ^ k - 1 := by omega
  unfold dynCode
  simp only []
  by_cases hd : n / (2 ^ k - 1) ≥ 9
  · simp only [hd, if_true, bitsOf_length]; exact escRun n off _ k rest hoff hn
  · simp only [hd, if_false]
    have hmdlt : n % (2 ^ k - 1) < 2 ^ k - 1 := Nat.mod_lt _ hmpos
    have hn' : n = (n / (2 ^ k - 1)) * (2 ^ k - 1) + n % (2 ^ k - 1) := by
      have := Nat.div_add_mod n (2 ^ k - 1); rw [Nat.mul_comm] at this; omega
    have hd9 : n / (2 ^ k - 1) < 9 := by omega
    generalize n / (2 ^ k - 1) = d at hd9 hn' ⊢
    generalize n % (2 ^ k - 1) = md at hmdlt hn' ⊢
    by_cases hz : md = 0
    · simp only [hz, if_true]
      by_cases hbig : d + k + 1 - 1 > 25
      · simp only [hbig, if_true, bitsOf_length]; exact escRun n off _ k rest hoff hn
      · simp only [hbig, if_false]
        rw [show d + k + 1 - 1 = d + k by omega, show (2 ^ d - 1) * 2 ^ (d + k - d) + 0 + 1 - 1 = (2 ^ d - 1) * 2 ^ (d + k - d) + 0 by omega]
        obtain ⟨t, ht, hpre, hv⟩ := code_window d k (d + k) 0 off rest hd9 (by omega) (by omega)
          (by rw [show d + k - d - 1 = k - 1 by omega]; exact Nat.pow_pos (by decide)) (by omega) (by omega)
        unfold dynGet
        simp only [hpre, hv, Nat.zero_mul, Nat.zero_add]
        have : ¬ (d ≥ 9) := by omega
        simp only [this, if_false]
        have hvl : t / 2 ^ (31 - d - k) < 2 := by
          rw [Nat.div_lt_iff_lt_mul (Nat.pow_pos (by decide))]
          calc t < 2 ^ (32 - (d + k)) := ht
            _ = 2 * 2 ^ (31 - d - k) := by rw [← Nat.pow_succ']; congr 1; omega
        simp only [hvl, if_true, bitsOf_length]
        simp only [hz, Nat.add_zero] at hn'
        rw [Prod.mk.injEq]; constructor <;> omega
    · simp only [hz, if_false, Nat.sub_zero]
      by_cases hbig : d + k + 1 > 25
      · simp only [hbig, if_true, bitsOf_length]; exact escRun n off _ k rest hoff hn
      · simp only [hbig, if_false]
        obtain ⟨t, ht, hpre, hv⟩ := code_window d k (d + k + 1) (md + 1) off rest hd9 (by omega) (by omega)
          (by rw [show d + k + 1 - d - 1 = k by omega]; omega) (by omega) (by omega)
        rw [show (2 ^ d - 1) * 2 ^ (d + k + 1 - d) + md + 1 = (2 ^ d - 1) * 2 ^ (d + k + 1 - d) + (md + 1) by omega]
        unfold dynGet
        simp only [hpre, hv]
        have : ¬ (d ≥ 9) := by omega
        simp only [this, if_false]
        have hvv : ((md + 1) * 2 ^ (32 - (d + k + 1)) + t) / 2 ^ (31 - d - k) = md + 1 := by
          rw [show 32 - (d + k + 1) = 31 - d - k by omega] at ht ⊢
          rw [Nat.mul_comm, Nat.mul_add_div (Nat.pow_pos (by decide)), Nat.div_eq_of_lt ht]
        rw [hvv]
        have : ¬ (md + 1 < 2) := by omega
        simp only [this, if_false, bitsOf_length]
        rw [Prod.mk.injEq]; constructor
        · unfold u32 wrapU
          have : d * (2 ^ k - 1) + (md + 1) < 65537 := by omega
          simp only [Int.reducePow]
          omega
        · omega

theorem esc32 (maxbits n off m k : Nat) (rest : Bits) (hoff : off < 8) (hn : n < 2 ^ maxbits) :
    dynGet32 ((bitsOf 511 9 ++ bitsOf n maxbits) ++ rest) off m k maxbits = (n, (bitsOf 511 9 ++ bitsOf n maxbits).length) := by
  unfold dynGet32
  rw [List.append_assoc]
  obtain ⟨t, ht, hw⟩ := window_code 511 9 off (bitsOf n maxbits ++ rest) (by omega)
  simp only [Nat.reducePow, Nat.reduceMod, Nat.reduceSub, Nat.reduceMul] at ht hw
  have hp : 9 ≤ leadOnes (window (bitsOf 511 9 ++ (bitsOf n maxbits ++ rest)) off) := by
    rw [hw]; exact leadOnes_ge9 _ (by omega) (by omega)
  simp only [hp, ge_iff_le, if_true]
  rw [List.drop_left' (bitsOf_length 511 9), rdBits_bitsOf]
  simp [bitsOf_length, Nat.mod_eq_of_lt hn]

/-- `dyn_get_32bit (dyn_code_32bit (n)) = n`, whatever follows the code: every Golomb parameter `k ≥ 1` (`m = 2^k - 1`),
    every bit index, every value below `2^maxbits` -/
theorem dynGet32_dynCode32 (maxbits k n off : Nat) (rest : Bits) (hk1 : 1 ≤ k) (hoff : off < 8) (hn : n < 2 ^ maxbits) :
    dynGet32 (dynCode32 maxbits (2 ^ k - 1) k n ++ rest) off (2 ^ k - 1) k maxbits = (n, (dynCode32 maxbits (2 ^ k - 1) k n).length) := by
  have hm2 : 2 ≤ 2 ^ k := by
    calc 2 = 2 ^ 1 := by norm_num
      _ ≤ 2 ^ k := Nat.pow_le_pow_right (by decide) hk1
  have hmpos : 0 < 2 ^ k - 1 := by omega
  unfold dynCode32
  simp only []
  by_cases hd : n / (2 ^ k - 1) < 9
  · simp only [hd, if_true]
    have hmd : n - (2 ^ k - 1) * (n / (2 ^ k - 1)) = n % (2 ^ k - 1) := by
      have := Nat.div_add_mod n (2 ^ k - 1); omega
    rw [hmd]
    have hmdlt : n % (2 ^ k - 1) < 2 ^ k - 1 := Nat.mod_lt _ hmpos
    have hn' : n = (n / (2 ^ k - 1)) * (2 ^ k - 1) + n % (2 ^ k - 1) := by
      have := Nat.div_add_mod n (2 ^ k - 1); rw [Nat.mul_comm] at this; omega
    generalize n / (2 ^ k - 1) = d at hd hn' ⊢
    generalize n % (2 ^ k - 1) = md at hmdlt hn' ⊢
    by_cases hz : md = 0
    · -- the remainder is zero: d ones, a zero, k - 1 zero bits
      simp only [hz, if_true]
      by_cases hbig : d + k + 1 - 1 > 25
      · simp only [hbig, if_true]; exact esc32 maxbits n off _ k rest hoff hn
      · simp only [hbig, if_false]
        have hL : d + k + 1 - 1 = d + k := by omega
        rw [hL]
        have hval : (2 ^ d - 1) * 2 ^ (d + k - d) + 0 + 1 - 1 = (2 ^ d - 1) * 2 ^ (d + k - d) + 0 := by omega
        rw [hval]
        obtain ⟨t, ht, hg⟩ := get32_code d k (d + k) 0 off (2 ^ k - 1) maxbits rest hd (by omega) (by omega)
          (by rw [show d + k - d - 1 = k - 1 by omega]; exact Nat.pow_pos (by decide)) (by omega) hk1 (by omega)
        rw [hg]
        by_cases hk : k = 1
        · subst hk; simp [bitsOf_length] at hn' ⊢; omega
        · simp only [hk, ne_eq, not_false_eq_true, if_true, Nat.zero_mul, Nat.zero_add]
          have hv : t / 2 ^ (31 - d - k) < 2 := by
            rw [Nat.div_lt_iff_lt_mul (Nat.pow_pos (by decide))]
            calc t < 2 ^ (32 - (d + k)) := ht
              _ = 2 * 2 ^ (31 - d - k) := by rw [← Nat.pow_succ']; congr 1; omega
          have : ¬ (t / 2 ^ (31 - d - k) ≥ 2) := by omega
          simp only [this, if_false, bitsOf_length]
          simp only [hz, Nat.add_zero] at hn'
          rw [Prod.mk.injEq]; constructor <;> omega
    · -- a remainder: d ones, a zero, the k bits of md + 1
      simp only [hz, if_false, Nat.sub_zero]
      by_cases hbig : d + k + 1 > 25
      · simp only [hbig, if_true]; exact esc32 maxbits n off _ k rest hoff hn
      · simp only [hbig, if_false]
        have hk : k ≠ 1 := by
          intro h; subst h; simp at hmdlt; omega
        obtain ⟨t, ht, hg⟩ := get32_code d k (d + k + 1) (md + 1) off (2 ^ k - 1) maxbits rest hd (by omega) (by omega)
          (by rw [show d + k + 1 - d - 1 = k by omega]; omega) (by omega) hk1 (by omega)
        rw [show (2 ^ d - 1) * 2 ^ (d + k + 1 - d) + md + 1 = (2 ^ d - 1) * 2 ^ (d + k + 1 - d) + (md + 1) by omega, hg]
        simp only [hk, ne_eq, not_false_eq_true, if_true]
        have hv : ((md + 1) * 2 ^ (32 - (d + k + 1)) + t) / 2 ^ (31 - d - k) = md + 1 := by
          rw [show 32 - (d + k + 1) = 31 - d - k by omega] at ht ⊢
          rw [Nat.mul_comm, Nat.mul_add_div (Nat.pow_pos (by decide)), Nat.div_eq_of_lt ht]
        rw [hv]
        have : md + 1 ≥ 2 := by omega
        simp only [this, if_true, bitsOf_length]
        rw [Prod.mk.injEq]; constructor
        · rw [hn']; simp
        · omega
  · simp only [hd, if_false]
    exact esc32 maxbits n off _ k rest hoff hn

end Sf.AlacCore
