/-
  SfProofs.CodecRun — any sequence of write calls and SFC_UPDATE_HEADER_NOW on a writer state: the store stays
  header ++ data, the data is the concatenation of the encoded calls, and the closed file is a function of the
  open parameters, that concatenation and the PEAK state.
-/
import SfProofs.CodecClose
namespace Sf

/-- the operations of a pure writer -/
inductive WOp
  | write (ty : Ty) (fc : Bool) (n : Int) (data : List Int)   -- sf_write_T (fc = false) / sf_writef_T (fc = true)
  | updHeader (size : Int)                                     -- sf_command (SFC_UPDATE_HEADER_NOW)

/-- a well-formed call: zero count, or a positive count of whole frames with a buffer of exactly that size -/
def WOp.ok (h : H) : WOp → Prop
  | .write _ fc n data => n = 0 ∨ ValidW h fc n data
  | .updHeader _ => True

def stepW (hs : H × Store) : WOp → H × Store
  | .write ty fc n data => ((stepWrite hs.1 hs.2 ty fc n data).1, (stepWrite hs.1 hs.2 ty fc n data).2.1)
  | .updHeader size => ((stepCmdFlag hs.1 hs.2 0x1060 size).1, (stepCmdFlag hs.1 hs.2 0x1060 size).2.1)

def runW (hs : H × Store) (ops : List WOp) : H × Store := ops.foldl stepW hs

/-- the bytes a call contributes to the data section -/
def WOp.bytes (e : Enc) (c : Conv) : WOp → List Byte
  | .write ty _ n data => if n = 0 then [] else e.encodeAll c ty data
  | .updHeader _ => []

/-- PEAK state after a sequence of calls (the only part of the state that can see call boundaries) -/
def peakRun (enc : Enc) (conv : Conv) (ch : Nat) : Option (List Peak) → Int → List WOp → Option (List Peak)
  | pk, _, [] => pk
  | pk, wpos, .write ty _ n data :: ops =>
    if n = 0 then peakRun enc conv ch pk wpos ops
    else peakRun enc conv ch (peakUpd pk enc conv ch wpos ty data) (wpos + (data.length : Int) / ch) ops
  | pk, wpos, .updHeader _ :: ops => peakRun enc conv ch pk wpos ops

/-- fields no writer operation changes -/
structure Stable (h h' : H) : Prop where
  container : h'.container = h.container
  enc : h'.enc = h.enc
  big : h'.big = h.big
  ch : h'.ch = h.ch
  sr : h'.sr = h.sr
  fmtWord : h'.fmtWord = h.fmtWord
  conv : h'.conv = h.conv
  peakAtStart : h'.peakAtStart = h.peakAtStart
  autoHeader : h'.autoHeader = h.autoHeader

theorem Stable.refl (h : H) : Stable h h := ⟨rfl, rfl, rfl, rfl, rfl, rfl, rfl, rfl, rfl⟩
theorem Stable.trans {a b c : H} (x : Stable a b) (y : Stable b c) : Stable a c :=
  ⟨y.container.trans x.container, y.enc.trans x.enc, y.big.trans x.big, y.ch.trans x.ch, y.sr.trans x.sr,
   y.fmtWord.trans x.fmtWord, y.conv.trans x.conv, y.peakAtStart.trans x.peakAtStart, y.autoHeader.trans x.autoHeader⟩

theorem ValidW.congr (h h' : H) (hc : h'.ch = h.ch) (fc : Bool) (n : Int) (data : List Int) (v : ValidW h fc n data) :
    ValidW h' fc n data := by
  obtain ⟨a, b, c⟩ := v
  exact ⟨a, by rw [hc]; exact b, by unfold callLen at *; rw [hc]; exact c⟩

theorem WOp.ok_congr (h h' : H) (hc : h'.ch = h.ch) (op : WOp) (o : op.ok h) : op.ok h' := by
  cases op with
  | write ty fc n data =>
    rcases o with o | o
    · exact Or.inl o
    · exact Or.inr (ValidW.congr h h' hc fc n data o)
  | updHeader _ => trivial

/-- one operation -/
theorem stepW_spec (h : H) (s : Store) (hdr dat : List Byte) (inv : WInv h s hdr dat) (op : WOp) (o : op.ok h) :
    ∃ hdr', WInv (stepW (h, s) op).1 (stepW (h, s) op).2 hdr' (dat ++ op.bytes h.enc h.conv) ∧
      Stable h (stepW (h, s) op).1 ∧
      peakRun h.enc h.conv h.ch h.peak h.wpos [op] = (stepW (h, s) op).1.peak ∧
      (∀ ops, peakRun h.enc h.conv h.ch h.peak h.wpos (op :: ops) =
        peakRun h.enc h.conv h.ch (stepW (h, s) op).1.peak (stepW (h, s) op).1.wpos ops) := by
  cases op with
  | write ty fc n data =>
    rcases o with o | o
    · subst o
      simp only [stepW, stepWrite_zero_cw, WOp.bytes, if_true, List.append_nil, peakRun]
      exact ⟨hdr, inv, Stable.refl h, trivial, fun _ => trivial⟩
    · have hn : n ≠ 0 := by have := o.pos; omega
      refine ⟨wrHdr h ty data (s.bytes.length + (h.enc.encodeAll h.conv ty data).length) hdr, ?_, ?_, ?_, ?_⟩
      · simp only [stepW, WOp.bytes, hn, if_false]
        exact stepWrite_winv h s hdr dat inv ty fc n data o
      · simp only [stepW]
        rw [stepWrite_spec h s hdr dat inv ty fc n data o]
        constructor <;> simp [wrMid]
      · simp only [stepW]
        rw [stepWrite_spec h s hdr dat inv ty fc n data o]
        simp [peakRun, hn, wrMid, peakUpdate_eq]
      · intro ops
        simp only [stepW]
        rw [stepWrite_spec h s hdr dat inv ty fc n data o]
        simp [peakRun, hn, wrMid, peakUpdate_eq]
  | updHeader size =>
    refine ⟨uhHdr h s.bytes.length hdr, ?_, ?_, ?_, ?_⟩
    · simp only [stepW, WOp.bytes, List.append_nil]
      exact updHeader_winv h s hdr dat inv size
    · simp only [stepW]
      rw [updHeader_spec h s hdr dat inv size]
      constructor <;> simp
    · simp only [stepW]
      rw [updHeader_spec h s hdr dat inv size]
      simp [peakRun]
    · intro ops
      simp only [stepW]
      rw [updHeader_spec h s hdr dat inv size]
      simp [peakRun]

/-- any sequence of operations -/
theorem runW_spec (ops : List WOp) : ∀ (h : H) (s : Store) (hdr dat : List Byte), WInv h s hdr dat →
    (∀ op ∈ ops, op.ok h) →
    ∃ hdr', WInv (runW (h, s) ops).1 (runW (h, s) ops).2 hdr' (dat ++ ops.flatMap (WOp.bytes h.enc h.conv)) ∧
      Stable h (runW (h, s) ops).1 ∧
      (runW (h, s) ops).1.peak = peakRun h.enc h.conv h.ch h.peak h.wpos ops := by
  induction ops with
  | nil =>
    intro h s hdr dat inv _
    exact ⟨hdr, by simpa [runW] using inv, Stable.refl h, rfl⟩
  | cons op ops ih =>
    intro h s hdr dat inv hok
    obtain ⟨hdr1, inv1, st1, _, hpk⟩ := stepW_spec h s hdr dat inv op (hok op (by simp))
    have hok1 : ∀ o ∈ ops, o.ok (stepW (h, s) op).1 :=
      fun o ho => WOp.ok_congr h _ st1.ch o (hok o (by simp [ho]))
    obtain ⟨hdr2, inv2, st2, hp2⟩ := ih (stepW (h, s) op).1 (stepW (h, s) op).2 hdr1 _ inv1 hok1
    have hrun : runW (h, s) (op :: ops) = runW ((stepW (h, s) op).1, (stepW (h, s) op).2) ops := by
      simp [runW]
    rw [hrun]
    refine ⟨hdr2, ?_, Stable.trans st1 st2, ?_⟩
    · rw [st1.enc, st1.conv] at inv2
      simpa [List.flatMap_cons, List.append_assoc] using inv2
    · rw [hp2, hpk ops, st1.enc, st1.conv, st1.ch]

/-! ## the closed file -/

theorem closeForm_stable (h h' : H) (st : Stable h h') (dat : List Byte) :
    closeForm h' dat = closeForm { h with frames := h'.frames, peak := h'.peak } dat := by
  have hl : hdrLenOf h' = hdrLenOf ({ h with frames := h'.frames, peak := h'.peak } : H) :=
    hdrLenOf_congr _ _ st.container st.fmtWord st.peakAtStart rfl
  unfold closeForm wavPad wavTail
  rw [hl]
  simp only [st.container, st.enc, st.big, st.ch, st.sr, st.fmtWord, st.peakAtStart]

/-- the frame count recorded by a writer state is the data length in frames -/
theorem WInv.frames_eq (h : H) (s : Store) (hdr dat : List Byte) (inv : WInv h s hdr dat) (hnb : 0 < h.enc.nbytes) :
    h.frames = (dat.length : Int) / ((h.enc.nbytes * h.ch : Nat) : Int) := by
  have hb : ((h.enc.nbytes * h.ch : Nat) : Int) ≠ 0 := by
    have := Nat.mul_pos hnb inv.ch_pos; omega
  rw [inv.dat_len, inv.frames, Int.mul_ediv_cancel _ hb]

/-- Closing after any well-formed sequence of writer operations: the file is `closeForm` of the stable fields of
    the starting handle, the concatenated encoded bytes and the PEAK state. -/
theorem writer_close_bytes (h : H) (s : Store) (hdr dat : List Byte) (inv : WInv h s hdr dat) (hnb : 0 < h.enc.nbytes)
    (ops : List WOp) (hok : ∀ op ∈ ops, op.ok h) :
    (closeHandle (runW (h, s) ops).1 (runW (h, s) ops).2).bytes =
      closeForm { h with frames := ((dat ++ ops.flatMap (WOp.bytes h.enc h.conv)).length : Int) / ((h.enc.nbytes * h.ch : Nat) : Int),
                         peak := peakRun h.enc h.conv h.ch h.peak h.wpos ops }
                (dat ++ ops.flatMap (WOp.bytes h.enc h.conv)) := by
  obtain ⟨hdr', inv', st, hpk⟩ := runW_spec ops h s hdr dat inv hok
  rw [close_spec _ _ hdr' _ inv', closeForm_stable h _ st, hpk,
    WInv.frames_eq _ _ _ _ inv' (by rw [st.enc]; exact hnb), st.enc, st.ch]

end Sf
