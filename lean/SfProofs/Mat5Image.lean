/-
  SfProofs.Mat5Image — `Sf.Mat5.parse` (mat5_read_header over the header cache) on the images the MAT5 writer leaves
  in the store: the reader is walked through the 264 header bytes field by field with the zipper lemmas of
  SfProofs/HdrReadLemmas.lean.
-/
import SfModel.Mat5
import SfProofs.Small2Session
import SfProofs.Mat4Image
import SfProofs.HdrReadLemmas
namespace Sf.Mat5
open Sf Sf.Small2 Sf.HdrRd
open Sf.Mat4 (w32 r32 w32_length r32_w32)

theorem w16_length (l : Bool) (v : Int) : (w16 l v).length = 2 := by cases l <;> simp [w16]
theorem marker_length (l : Bool) : (marker l).length = 2 := by cases l <;> rfl
theorem r16_w16 (l : Bool) (v : Int) : r16 l (w16 l v) = wrapU 16 v := by
  cases l <;> simp [r16, w16, ofLE_le16, ofBE_be16]

theorem rateElem_length (l : Bool) (sr : Nat) : (rateElem l sr).length = 8 := by
  unfold rateElem; split <;> simp [w32_length, w16_length]

theorem verMark_length (l : Bool) : (verMark l).length = 4 := by simp [verMark, w16_length, marker_length]

theorem mxFields_length (l : Bool) (a b c : Int) : (mxFields l a b c).flatten.length = 44 := by
  simp [mxFields, w32_length]

theorem mxFields_sum (l : Bool) (a b c : Int) : (List.map List.length (mxFields l a b c)).sum = 44 := by
  simp [mxFields, w32_length]

theorem hdrA_length (c : Cfg) : (hdrA c).length = 76 := by
  simp [hdrA, w32_length, verMark_length, mxFields_sum, rateElem_length, srName]

theorem hdrB_length (c : Cfg) (f : Fields) : (hdrB c f).length = 64 := by
  simp [hdrB, w32_length, mxFields_sum, wdName]

theorem hdr_length (c : Cfg) (ht : c.text.length = 124) (f : Fields) : (hdr c f).length = 264 := by
  simp [hdr, hdrA_length, hdrB_length, ht]

theorem marker_be (l : Bool) : ofBE (marker l) = if l then 0x494D else 0x4D49 := by cases l <;> decide

/-- guess_file_type on anything that starts with "MATLAB 5" -/
theorem guess_matlab (X : List Byte) :
    guess (0x4D :: 0x41 :: 0x54 :: 0x4C :: 0x41 :: 0x42 :: 0x20 :: 0x35 :: X) = some (.fmt 0x0D0000) := by
  rfl

theorem text_split (t : List Byte) (h8 : t.take 8 = [0x4D, 0x41, 0x54, 0x4C, 0x41, 0x42, 0x20, 0x35]) :
    t = 0x4D :: 0x41 :: 0x54 :: 0x4C :: 0x41 :: 0x42 :: 0x20 :: 0x35 :: t.drop 8 := by
  have := List.take_append_drop 8 t
  rw [h8] at this
  exact this.symm

theorem lawful (c : Cfg) (ht : c.text.length = 124) : Lawful (fmt c) where
  hlen := by intro f; exact hdr_length c ht f
  hindep := by intro n f g; rfl

/-- the header a `calc_length` rewrite puts in front of `D` audio bytes -/
theorem calcHdr_eq (c : Cfg) (D : Nat) :
    calcHdr (fmt c) (264 + D) = hdr c { frames := ((D / c.bw : Nat) : Int), filelength := ((264 + D : Nat) : Int), datalength := (D : Nat) } := by
  show hdr c _ = hdr c _
  have e : (((264 + D : Nat) : Int) - 264) = ((D : Nat) : Int) := by omega
  simp only [fmt, e]
  rw [Int.natCast_ediv]

theorem codecOf_encoding (codec : Nat) (hc : codec = 5 ∨ codec = 2 ∨ codec = 4 ∨ codec = 6 ∨ codec = 7) :
    codecOf (encoding codec) = some (codec, bytewidth codec) := by
  rcases hc with h | h | h | h | h <;> subst h <;> decide

theorem bytewidth_pos (codec : Nat) : 0 < bytewidth codec := by
  unfold bytewidth; split <;> (try split) <;> (try split) <;> omega

theorem encoding_lt (codec : Nat) : encoding codec < 10 := by
  unfold encoding; split <;> (try split) <;> (try split) <;> (try split) <;> omega

/-- the rate element read back: both compressed forms give the rate, and the reader is left at offset 200 -/
theorem rate_read (l : Bool) (sr : Nat) (hsr2 : sr ≤ 0x7FFFFFFF) (pre rest bs : List Byte) (hp : pre.length = 192)
    (hb : bs = pre ++ (rateElem l sr ++ rest)) :
    ∃ ty size : List Byte, rdSeq bs [4, 4] ⟨192, 192, false⟩ = ([ty, size], ⟨200, 200, false⟩) ∧
      (if sr > 0xFFFF then r32 l ty = 0x00040006 ∧ sext 32 (r32 l size) = (sr : Int)
       else r32 l ty = 0x00020004 ∧
         rdRaw bs (skip bs ⟨200, 200, false⟩ (-4)) 2 = (w16 l sr, ⟨198, 200, false⟩) ∧ r16 l (w16 l sr) = sr) := by
  by_cases h : sr > 0xFFFF
  · refine ⟨w32 l 0x00040006, w32 l sr, ?_, ?_⟩
    · have hb2 : bs = pre ++ ([w32 l 0x00040006, w32 l sr].flatten ++ rest) := by
        rw [hb]; simp [rateElem, h]
      have := rdSeq_at (bs := bs) (pre := pre) (rest := rest) [w32 l 0x00040006, w32 l sr] (ns := [4, 4]) (e := 192) hb2
        (by simp [w32_length]) (by omega)
      rw [hp] at this; simpa [w32_length] using this
    · rw [if_pos h]
      refine ⟨by rw [r32_w32]; decide, ?_⟩
      rw [r32_w32, wrapU_nat 32 sr (by omega), sext_small' sr (by omega)]
  · refine ⟨w32 l 0x00020004, w16 l sr ++ w16 l 0, ?_, ?_⟩
    · have hb2 : bs = pre ++ ([w32 l 0x00020004, w16 l sr ++ w16 l 0].flatten ++ rest) := by
        rw [hb]; simp [rateElem, h]
      have := rdSeq_at (bs := bs) (pre := pre) (rest := rest) [w32 l 0x00020004, w16 l sr ++ w16 l 0] (ns := [4, 4]) (e := 192) hb2
        (by simp [w32_length, w16_length]) (by omega)
      rw [hp] at this; simpa [w32_length, w16_length] using this
    · rw [if_neg h]
      refine ⟨by rw [r32_w32]; decide, ?_, ?_⟩
      · have hs : skip bs ⟨200, 200, false⟩ (-4) = ⟨196, 200, false⟩ := by
          unfold skip; simp
        rw [hs]
        have hb3 : bs = (pre ++ w32 l 0x00020004) ++ (w16 l sr ++ (w16 l 0 ++ rest)) := by
          rw [hb]; simp [rateElem, h]
        have := rdRaw_at (bs := bs) (pre := pre ++ w32 l 0x00020004) (fld := w16 l sr) (rest := w16 l 0 ++ rest) (e := 200) (n := 2) hb3
          (by simp [w16_length])
        have hl : (pre ++ w32 l 0x00020004).length = 196 := by simp [hp, w32_length]
        rw [hl] at this; simpa using this
      · rw [r16_w16, wrapU_nat 16 sr (by omega)]

/-- the eleven 32-bit fields in front of a name sub-element, read back -/
theorem fields11 (l : Bool) (a b c : Int) (pre rest bs : List Byte) (k : Nat) (hp : pre.length = k)
    (hb : bs = pre ++ ((mxFields l a b c).flatten ++ rest)) :
    rdSeq bs [4, 4, 4, 4, 4, 4, 4, 4, 4, 4, 4] ⟨k, k, false⟩ = (mxFields l a b c, ⟨k + 44, k + 44, false⟩) := by
  have := rdSeq_at (bs := bs) (pre := pre) (rest := rest) (mxFields l a b c)
    (ns := [4, 4, 4, 4, 4, 4, 4, 4, 4, 4, 4]) (e := k) hb (by simp [mxFields, w32_length]) (by omega)
  rw [hp, mxFields_length] at this
  simpa using this

/-- a miINT8 name of `n ≤ 31` bytes padded with `p = (8 − n mod 8) mod 8` bytes, read back from offset `k` -/
theorem name_read (l : Bool) (n p : Nat) (name pad : List Byte) (hn : name.length = n) (hpad : pad.length = p) (hn31 : n ≤ 31)
    (hpp : p = (8 - n % 8) % 8) (pre rest bs : List Byte) (k : Nat) (hp : pre.length = k)
    (hb : bs = pre ++ (w32 l n ++ (name ++ (pad ++ rest)))) :
    readName bs l 1 ⟨k, k, false⟩ = some ⟨k + 4 + n + p, k + 4 + n + p, false⟩ := by
  unfold readName
  rw [if_pos rfl]
  have h1 := rdRaw_at (bs := bs) (pre := pre) (fld := w32 l n) (rest := name ++ (pad ++ rest)) (e := k) (n := 4) hb (by simp [w32_length])
  rw [hp] at h1
  have m1 : max k (k + 4) = k + 4 := by omega
  rw [m1] at h1
  simp only [h1]
  rw [r32_w32, wrapU_nat 32 n (by omega), if_neg (by omega)]
  have hb2 : bs = (pre ++ w32 l n) ++ (name ++ (pad ++ rest)) := by rw [hb]; simp
  have h2 := rdRaw_at (bs := bs) (pre := pre ++ w32 l n) (fld := name) (rest := pad ++ rest) (e := k + 4) (n := n) hb2 hn.symm
  have hl : (pre ++ w32 l n).length = k + 4 := by simp [hp, w32_length]
  rw [hl] at h2
  have m2 : max (k + 4) (k + 4 + n) = k + 4 + n := by omega
  rw [m2] at h2
  simp only [h2]
  have hlen : bs.length = k + 4 + n + p + rest.length := by rw [hb]; simp [hp, hn, hpad, w32_length]; omega
  rw [← hpp, skip_fwd bs (k + 4 + n) (k + 4 + n) p (by omega) (by omega)]
  have m3 : max (k + 4 + n) (k + 4 + n + p) = k + 4 + n + p := by omega
  rw [m3]

/-- the tail of the reader on an image of 264 + D bytes -/
theorem finish_image (c : Cfg) (hc : c.codec = 5 ∨ c.codec = 2 ∨ c.codec = 4 ∨ c.codec = 6 ∨ c.codec = 7) (hch1 : 1 ≤ c.ch) (hch2 : c.ch ≤ 1024)
    (hsr1 : 1 ≤ c.sr) (cols : Nat) (bs : List Byte) (D : Nat) (hlen : bs.length = 264 + D) (l : Bool) (hl : c.little = l) :
    finish bs l (wrapU 32 c.ch) cols (wrapU 32 (encoding c.codec)) c.sr ⟨264, 264, false⟩ =
      .ok { ch := c.ch, fmt := c.fmtWord, sr := c.sr, frames := D / c.bw } := by
  have hbw : 0 < c.bw := Nat.mul_pos (bytewidth_pos _) hch1
  unfold finish
  rw [wrapU_nat 32 c.ch (by omega), wrapU_nat 32 (encoding c.codec) (by have := encoding_lt c.codec; omega), codecOf_encoding _ hc,
    sext_small' c.ch (by omega), ftell_ok, hlen]
  have h1 : ¬ (c.ch = 0 ∧ cols = 0) := by omega
  have h2 : ¬ (((c.ch : Nat) : Int) < 1 ∨ ((c.ch : Nat) : Int) > 1024 ∨ ((c.sr : Nat) : Int) < 1) := by omega
  simp only [h1, h2, if_false]
  have hbwi : ((bytewidth c.codec : Nat) : Int) * ((c.ch : Nat) : Int) = ((c.bw : Nat) : Int) := by unfold Cfg.bw; push_cast; rfl
  rw [hbwi, framesOf_nat 264 D c.bw hbw]
  simp [Cfg.fmtWord, hl]

/-- **mat5_read_header on a writer image**: whatever the frames field says, the file re-opens with the frames its
    length holds (the reader ignores every size field) -/
theorem parse_image (c : Cfg) (hwf : c.wf) (f : Fields) (data : List Byte) :
    parse (hdr c f ++ data) = .ok { ch := c.ch, fmt := c.fmtWord, sr := c.sr, frames := data.length / c.bw } := by
  obtain ⟨hc, _, hch1, hch2, hsr1, hsr2, ht, h8, hz⟩ := hwf
  have hlen : (hdr c f ++ data).length = 264 + data.length := by simp [hdr_length c ht]
  have hbw : 0 < c.bw := Nat.mul_pos (bytewidth_pos _) hch1
  generalize hbs : hdr c f ++ data = bs at hlen ⊢
  obtain ⟨l, hl⟩ : ∃ l, c.little = l := ⟨_, rfl⟩
  have e0 : bs = c.text ++ (verMark l ++ ((mxFields l 64 1 1).flatten ++ (w32 l 10 ++ (srName ++ (rateElem l c.sr ++
      ((mxFields l (datasize c f + 64) c.ch f.frames).flatten ++ (w32 l 8 ++ (wdName ++ (w32 l (encoding c.codec) ++
      (w32 l (dataField c f) ++ data)))))))))) := by
    rw [← hbs, ← hl]; simp [hdr, hdrA, hdrB]
  obtain ⟨X, hX⟩ : ∃ X, c.text = 0x4D :: 0x41 :: 0x54 :: 0x4C :: 0x41 :: 0x42 :: 0x20 :: 0x35 :: X := ⟨_, text_split c.text h8⟩
  have hg : guess bs = some (.fmt 0x0D0000) := by rw [e0, hX]; exact guess_matlab _
  unfold parse
  rw [if_neg (by omega), hg]
  simp only []
  unfold readHeader
  -- the text
  have s1 : rdRaw bs {} 124 = (c.text, ⟨124, 124, false⟩) := by
    have := rdRaw_at (bs := bs) (pre := []) (fld := c.text) (rest := (verMark l ++ ((mxFields l 64 1 1).flatten ++ (w32 l 10 ++ (srName ++ (rateElem l c.sr ++ ((mxFields l (datasize c f + 64) c.ch f.frames).flatten ++ (w32 l 8 ++ (wdName ++ (w32 l (encoding c.codec) ++ (w32 l (dataField c f) ++ data))))))))))) (e := 12) (n := 124) (by simpa using e0) ht.symm
    simpa using this
  -- version and endian marker
  have s2 : rdSeq bs [2, 2] ⟨124, 124, false⟩ = ([w16 l 0x0100, marker l], ⟨128, 128, false⟩) := by
    have := rdSeq_at (bs := bs) (pre := c.text) (rest := ((mxFields l 64 1 1).flatten ++ (w32 l 10 ++ (srName ++ (rateElem l c.sr ++ ((mxFields l (datasize c f + 64) c.ch f.frames).flatten ++ (w32 l 8 ++ (wdName ++ (w32 l (encoding c.codec) ++ (w32 l (dataField c f) ++ data)))))))))) [w16 l 0x0100, marker l] (ns := [2, 2]) (e := 124)
      (by rw [e0]; simp [verMark]) (by simp [w16_length, marker_length]) (by omega)
    rw [ht] at this; simpa [w16_length, marker_length] using this
  -- the samplerate matrix
  have s3 := fields11 l 64 1 1 (c.text ++ verMark l) (w32 l 10 ++ (srName ++ (rateElem l c.sr ++ ((mxFields l (datasize c f + 64) c.ch f.frames).flatten ++ (w32 l 8 ++ (wdName ++ (w32 l (encoding c.codec) ++ (w32 l (dataField c f) ++ data)))))))) bs 128 (by simp [ht, verMark_length]) (by rw [e0]; simp)
  have s4 := name_read l 10 6 (srName.take 10) (srName.drop 10) rfl rfl (by omega) rfl
    (c.text ++ (verMark l ++ (mxFields l 64 1 1).flatten)) (rateElem l c.sr ++ ((mxFields l (datasize c f + 64) c.ch f.frames).flatten ++ (w32 l 8 ++ (wdName ++ (w32 l (encoding c.codec) ++ (w32 l (dataField c f) ++ data)))))) bs 172 (by simp [ht, verMark_length, mxFields_sum])
    (by rw [e0]; simp [srName])
  obtain ⟨ty, size, s5, s6⟩ := rate_read l c.sr hsr2 (c.text ++ (verMark l ++ ((mxFields l 64 1 1).flatten ++ (w32 l 10 ++ srName)))) ((mxFields l (datasize c f + 64) c.ch f.frames).flatten ++ (w32 l 8 ++ (wdName ++ (w32 l (encoding c.codec) ++ (w32 l (dataField c f) ++ data))))) bs
    (by simp [ht, verMark_length, mxFields_sum, w32_length, srName]) (by rw [e0]; simp)
  -- the wavedata matrix
  have s7 := fields11 l (datasize c f + 64) c.ch f.frames
    (c.text ++ (verMark l ++ ((mxFields l 64 1 1).flatten ++ (w32 l 10 ++ (srName ++ rateElem l c.sr))))) (w32 l 8 ++ (wdName ++ (w32 l (encoding c.codec) ++ (w32 l (dataField c f) ++ data)))) bs 200
    (by simp [ht, verMark_length, mxFields_sum, w32_length, srName, rateElem_length]) (by rw [e0]; simp)
  have s8 := name_read l 8 0 wdName [] rfl rfl (by omega) rfl
    (c.text ++ (verMark l ++ ((mxFields l 64 1 1).flatten ++ (w32 l 10 ++ (srName ++ (rateElem l c.sr ++
      (mxFields l (datasize c f + 64) c.ch f.frames).flatten)))))) (w32 l (encoding c.codec) ++ (w32 l (dataField c f) ++ data)) bs 244
    (by simp [ht, verMark_length, mxFields_sum, w32_length, srName, rateElem_length]) (by rw [e0]; simp)
  have s9 : rdSeq bs [4, 4] ⟨256, 256, false⟩ = ([w32 l (encoding c.codec), w32 l (dataField c f)], ⟨264, 264, false⟩) := by
    have := rdSeq_at (bs := bs) (pre := c.text ++ (verMark l ++ ((mxFields l 64 1 1).flatten ++ (w32 l 10 ++ (srName ++ (rateElem l c.sr ++
      ((mxFields l (datasize c f + 64) c.ch f.frames).flatten ++ (w32 l 8 ++ wdName)))))))) (rest := data)
      [w32 l (encoding c.codec), w32 l (dataField c f)] (ns := [4, 4]) (e := 256)
      (by rw [e0]; simp) (by simp [w32_length])
      (by simp [ht, verMark_length, mxFields_sum, w32_length, srName, wdName, rateElem_length])
    have hl2 : (c.text ++ (verMark l ++ ((mxFields l 64 1 1).flatten ++ (w32 l 10 ++ (srName ++ (rateElem l c.sr ++
      ((mxFields l (datasize c f + 64) c.ch f.frames).flatten ++ (w32 l 8 ++ wdName)))))))).length = 256 := by
      simp [ht, verMark_length, mxFields_sum, w32_length, srName, wdName, rateElem_length]
    rw [hl2] at this; simpa [w32_length] using this
  simp only [s1]
  rw [if_neg (fun h => h hz)]
  simp only [s2, List.getD_cons_succ, List.getD_cons_zero, marker_be]
  have hd : decide ((if l = true then 0x494D else 0x4D49) = 0x494D) = l := by cases l <;> rfl
  have hne : ¬ ((if l = true then 0x494D else 0x4D49) ≠ 0x4D49 ∧ (if l = true then 0x494D else 0x4D49) ≠ 0x494D) := by cases l <;> simp
  rw [if_neg hne]
  simp only [hd, s3, mxFields, List.getD_cons_succ, List.getD_cons_zero, r32_w32]
  have w14 : wrapU 32 14 = 14 := by decide
  have w6 : wrapU 32 6 = 6 := by decide
  have w5 : wrapU 32 5 = 5 := by decide
  have w1 : wrapU 32 1 = 1 := by decide
  simp only [Nat.reduceAdd] at s4 s8 s3 s7
  simp only [w14, w6, w5, w1, Nat.reduceAdd, s4, ne_eq, not_true_eq_false, if_false, and_self, decide_true, Bool.not_true, Bool.false_eq_true,
    s5, List.getD_cons_succ, List.getD_cons_zero]
  by_cases h : c.sr > 0xFFFF
  · rw [if_pos h] at s6
    obtain ⟨t1, t2⟩ := s6
    have n9 : ¬ ((0x00040006 : Nat) = 9) := by decide
    have n4 : ¬ ((0x00040006 : Nat) = 0x00020004) := by decide
    simp only [t1, t2, n9, n4, if_false, if_true, s7, mxFields, List.getD_cons_succ, List.getD_cons_zero, r32_w32, w14, w6, w5, w1,
      not_true_eq_false, s8, s9]
    exact finish_image c hc hch1 hch2 hsr1 _ bs data.length hlen l hl
  · rw [if_neg h] at s6
    obtain ⟨t1, t2, t3⟩ := s6
    have n9 : ¬ ((0x00020004 : Nat) = 9) := by decide
    have hsk : skip bs ⟨198, 200, false⟩ 2 = ⟨200, 200, false⟩ := by
      have := skip_fwd bs 198 200 2 (by omega) (by omega)
      simpa using this
    simp only [t1, t2, t3, n9, if_false, if_true, hsk, s7, mxFields, List.getD_cons_succ, List.getD_cons_zero, r32_w32, w14, w6, w5, w1,
      not_true_eq_false, s8, s9]
    exact finish_image c hc hch1 hch2 hsr1 _ bs data.length hlen l hl

end Sf.Mat5
