/-
  SfProofs.RdwrClose — closing a read/write handle: the bytes of the file left behind.
-/
import SfProofs.RdwrOpen
import SfProofs.ContainerWav
namespace Sf

theorem RwView.close_raw {h : H} {s : Store} {R W F : Nat} {hdr D : List Byte} (v : RwView h s R W F hdr D)
    (hc : h.container = .raw) : (closeHandle h s).bytes = D := by
  have h0 : hdr = [] := List.eq_nil_of_length_eq_zero (by rw [v.hlen]; simp [hdrLenOf, hc])
  unfold closeHandle
  rw [v.mode, hc]
  simp [v.bytes, h0]

theorem RwView.close_au {h : H} {s : Store} {R W F : Nat} {hdr D : List Byte} (v : RwView h s R W F hdr D)
    (hc : h.container = .au) :
    (closeHandle h s).bytes = auHdr_ct h.big (codecOf h.fmtWord) h.sr h.ch (D.length : Int) ++ D := by
  unfold closeHandle
  rw [v.mode, hc]
  simp only [show (Mode.rw == Mode.r) = false from rfl, Bool.false_eq_true, if_false]
  rw [writeHeader_snd h s true hdr D v.bytes v.hlen v.doff v.posGe]
  simp only
  congr 1
  have hdl : (recalc h s.bytes.length true).datalength = (D.length : Int) := by
    rw [recalc_datalength]
    simp only [hc, v.dataend, v.doff, v.bytes, List.length_append, v.hlen]
    simp; omega
  unfold hdrOf
  rw [recalc_container, hc]
  simp only
  rw [auHeader_eq_ct, hdl]
  simp

/-- the pad byte `wav_write_tailer` appends after an odd data end -/
def wavPadAt (dataend : Nat) : List Byte := if dataend % 2 = 1 then [0] else []

theorem wavPadAt_length (n : Nat) : (wavPadAt n).length ≤ 1 := by unfold wavPadAt; split <;> simp

/-- the final header rewrite of `wav_close`, whatever the stale length fields were -/
theorem close_wav_core (X : H) (hdr D pad : List Byte) (p O F : Nat) (hc : X.container = .wav) (hO : hdrLenOf X = O)
    (hl : hdr.length = O) (hd : X.dataoffset = (O : Int)) (hde : X.dataend = ((O + D.length : Nat) : Int))
    (hF : X.frames = (F : Int)) (hpk : X.peak = none) (hp : O ≤ p) :
    (Sf.writeHeader X { bytes := hdr ++ D ++ pad, pos := p } true).2.bytes =
      wavHdr_ct X.big (codecOf X.fmtWord) X.enc.nbytes X.ch X.sr F none true
        ((O + D.length + pad.length : Nat) : Int) (D.length : Int) ++ D ++ pad := by
  subst hO
  have hO : 0 < hdrLenOf X := by simp only [hdrLenOf, hc]; exact wavHdrLen_pos X
  rw [writeHeader_snd _ _ true hdr (D ++ pad) (by simp) hl hd hp]
  simp only [List.append_assoc]
  congr 1
  have e1 : (recalc X (hdr ++ (D ++ pad)).length true).filelength = ((hdrLenOf X + D.length + pad.length : Nat) : Int) := by
    rw [recalc_filelength]; simp [hc, hl]; omega
  have e2 : (recalc X (hdr ++ (D ++ pad)).length true).datalength = (D.length : Int) := by
    rw [recalc_datalength]
    have : ¬ ((hdrLenOf X + D.length : Nat) : Int) = 0 := by omega
    simp [hc, hl, hd, hde, this]; omega
  have e3 : hdrOf (recalc X (hdr ++ (D ++ pad)).length true) = wavHeader (recalc X (hdr ++ (D ++ pad)).length true) := by
    unfold hdrOf; rw [recalc_container, hc]
  rw [e3, wavHeader_eq_ct, e1, e2]
  simp [H.nb, hF, hpk]
  cases X.peakAtStart <;> rfl

theorem RwView.close_wav {h : H} {s : Store} {R W F : Nat} {hdr D : List Byte} (v : RwView h s R W F hdr D)
    (hc : h.container = .wav) :
    (closeHandle h s).bytes =
      wavHdr_ct h.big (codecOf h.fmtWord) h.enc.nbytes h.ch h.sr F none true
        ((hdrLenOf h + D.length + (wavPadAt (hdrLenOf h + D.length)).length : Nat) : Int) (D.length : Int) ++ D ++
        wavPadAt (hdrLenOf h + D.length) := by
  have hO : 0 < hdrLenOf h := by simp only [hdrLenOf, hc]; exact wavHdrLen_pos h
  have hdlen : h.frames * (h.nb : Int) * (h.ch : Int) = (D.length : Int) := by
    rw [v.frames, v.dlen]; unfold H.bw H.nb; push_cast; rw [Int.mul_assoc]
  have hde2 : h.dataoffset + (D.length : Int) = ((hdrLenOf h + D.length : Nat) : Int) := by
    rw [v.doff]; push_cast; rfl
  have hpos : ((hdrLenOf h + D.length : Nat) : Int) > 0 := by omega
  have hlenB : s.bytes.length = hdrLenOf h + D.length := by rw [v.bytes, List.length_append, v.hlen]
  have hpad : (if (((hdrLenOf h + D.length : Nat) : Int) % 2 == 1) = true then [(0 : Byte)] else []) =
      wavPadAt (hdrLenOf h + D.length) := by
    unfold wavPadAt
    by_cases hodd : (hdrLenOf h + D.length) % 2 = 1
    · rw [if_pos hodd, if_pos (by rw [beq_iff_eq]; omega)]
    · rw [if_neg hodd, if_neg (by rw [beq_iff_eq]; omega)]
  have hwr : (s.seekSet (hdrLenOf h + D.length)).write (wavPadAt (hdrLenOf h + D.length)) =
      { bytes := hdr ++ D ++ wavPadAt (hdrLenOf h + D.length),
        pos := hdrLenOf h + D.length + (wavPadAt (hdrLenOf h + D.length)).length } := by
    rw [Store.write_end _ _ (by simp [Store.seekSet, hlenB])]
    simp [Store.seekSet, v.bytes]
  unfold closeHandle
  rw [v.mode, hc]
  simp only [show (Mode.rw == Mode.r) = false from rfl, Bool.false_eq_true, if_false]
  unfold wavTailer
  simp only [hdlen, hde2, hpos, v.peak, if_true, Int.toNat_natCast, List.append_nil, hpad, hwr, v.mode,
    show (Mode.rw == Mode.rw) = true from rfl]
  have hp : hdrLenOf h ≤ hdrLenOf h + D.length + (wavPadAt (hdrLenOf h + D.length)).length := by omega
  have ht : List.take (hdrLenOf h + D.length + (wavPadAt (hdrLenOf h + D.length)).length)
      (hdr ++ D ++ wavPadAt (hdrLenOf h + D.length)) = hdr ++ D ++ wavPadAt (hdrLenOf h + D.length) :=
    List.take_of_length_le (by simp [v.hlen]; omega)
  rw [ht]
  split
  · split
    · exact close_wav_core _ hdr D _ _ (hdrLenOf h) F hc (hdrLenOf_congr_rw _ _ rfl rfl v.peak.symm rfl) v.hlen v.doff rfl
        v.frames rfl hp
    · exact close_wav_core _ hdr D _ _ (hdrLenOf h) F hc (hdrLenOf_congr_rw _ _ rfl rfl v.peak.symm rfl) v.hlen v.doff rfl
        v.frames rfl hp
  · exact close_wav_core _ hdr D _ _ (hdrLenOf h) F hc (hdrLenOf_congr_rw _ _ rfl rfl v.peak.symm rfl) v.hlen v.doff rfl
      v.frames rfl hp

end Sf
