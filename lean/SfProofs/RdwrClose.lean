/-
  SfProofs.RdwrClose — closing a read/write handle: the bytes of the file left behind.
-/
import SfProofs.RdwrOpen
import SfProofs.ContainerWav
namespace Sf

/-- RAW and AU have nothing behind the data -/
theorem RwView.bytes_nowav {h : H} {s : Store} {R W F : Nat} {hdr D : List Byte} (v : RwView h s R W F hdr D)
    (hc : h.container ≠ .wav) : s.bytes = hdr ++ D := by
  obtain ⟨t, hb, ht⟩ := v.bytes
  rcases ht with h0 | ⟨_, hw⟩
  · rw [hb, h0]; simp [zeros]
  · exact absurd hw hc

theorem RwView.close_raw {h : H} {s : Store} {R W F : Nat} {hdr D : List Byte} (v : RwView h s R W F hdr D)
    (hc : h.container = .raw) : (closeHandle h s).bytes = D := by
  have h0 : hdr = [] := List.eq_nil_of_length_eq_zero (by rw [v.hlen]; simp [hdrLenOf, hc])
  unfold closeHandle
  rw [v.mode, hc]
  simp [v.bytes_nowav (by rw [hc]; decide), h0]

theorem RwView.close_au {h : H} {s : Store} {R W F : Nat} {hdr D : List Byte} (v : RwView h s R W F hdr D)
    (hc : h.container = .au) :
    (closeHandle h s).bytes = auHdr_ct h.big (codecOf h.fmtWord) h.sr h.ch (D.length : Int) ++ D := by
  unfold closeHandle
  rw [v.mode, hc]
  simp only [show (Mode.rw == Mode.r) = false from rfl, Bool.false_eq_true, if_false]
  have hnw : h.container ≠ .wav := by rw [hc]; decide
  rw [writeHeader_snd h s true hdr D (v.bytes_nowav hnw) v.hlen v.doff v.posGe]
  simp only
  congr 1
  have hdl : (recalc h s.bytes.length true).datalength = (D.length : Int) := by
    rw [recalc_datalength]
    simp only [hc, v.dataend hnw, v.doff, v.bytes_nowav hnw, List.length_append, v.hlen]
    simp; omega
  unfold hdrOf
  rw [recalc_container, hc]
  simp only
  rw [auHeader_eq_ct, hdl]
  simp

/-- the pad byte `wav_write_tailer` appends after an odd data end -/
def wavPadAt (dataend : Nat) : List Byte := if dataend % 2 = 1 then [0] else []

theorem wavPadAt_length (n : Nat) : (wavPadAt n).length ≤ 1 := by unfold wavPadAt; split <;> simp

/-- the final header rewrite of `wav_close`, whatever the stale length fields were -/
theorem close_wav_core (X : H) (hdr D pad : List Byte) (p O F : Nat) (hc : X.container = .wav) (hO : hdrLenOf X = O)
    (hl : hdr.length = O) (hd : X.dataoffset = (O : Int)) (hde : X.dataend = ((O + D.length : Nat) : Int))
    (hF : X.frames = (F : Int)) (pk : Option (List Peak)) (hpk : X.peak = pk)
    (hpas : pk = none ∨ X.peakAtStart = true) (hp : O ≤ p) :
    (Sf.writeHeader X { bytes := hdr ++ D ++ pad, pos := p } true).2.bytes =
      wavHdr_ct X.big (codecOf X.fmtWord) X.enc.nbytes X.ch X.sr F pk true
        ((O + D.length + pad.length : Nat) : Int) (D.length : Int) ++ D ++ pad := by
  subst hO
  have hO : 0 < hdrLenOf X := by simp only [hdrLenOf, hc]; exact wavHdrLen_pos X
  rw [writeHeader_snd _ _ true hdr (D ++ pad) (by simp) hl hd hp]
  simp only [List.append_assoc]
  congr 1
  have e1 : (recalc X (hdr ++ (D ++ pad)).length true).filelength = ((hdrLenOf X + D.length + pad.length : Nat) : Int) := by
    rw [recalc_filelength]; simp [hc, hl]; omega
  have e2 : (recalc X (hdr ++ (D ++ pad)).length true).datalength = (D.length : Int) := by
    rw [recalc_datalength]
    have : ¬ ((hdrLenOf X + D.length : Nat) : Int) = 0 := by omega
    simp [hc, hl, hd, hde, this]; omega
  have e3 : hdrOf (recalc X (hdr ++ (D ++ pad)).length true) = wavHeader (recalc X (hdr ++ (D ++ pad)).length true) := by
    unfold hdrOf; rw [recalc_container, hc]
  rw [e3, wavHeader_eq_ct, e1, e2]
  simp only [recalc_big, recalc_fmtWord, recalc_ch, recalc_sr, recalc_frames, recalc_peak, recalc_peakAtStart, H.nb,
    recalc_enc, hF, hpk]
  rcases hpas with h1 | h1
  · rw [h1]; cases X.peakAtStart <;> rfl
  · rw [h1]

/-- `wav_write_tailer` when a PEAK chunk, if any, sits in front of the data: seek to the end of the data, write the pad byte -/
theorem wavTailer_nopeaktail (h : H) (s : Store) (hpas : ∀ ps, h.peak = some ps → h.peakAtStart = true)
    (hpos : h.dataoffset + h.frames * (h.nb : Int) * (h.ch : Int) > 0) :
    wavTailer h s =
      ({ h with datalength := h.frames * h.nb * h.ch, dataend := h.dataoffset + h.frames * h.nb * h.ch },
       (s.seekSet (h.dataoffset + h.frames * h.nb * h.ch).toNat).write
         (if (h.dataoffset + h.frames * h.nb * h.ch) % 2 == 1 then [0] else [])) := by
  unfold wavTailer
  simp only [hpos, if_true]
  cases hp : h.peak with
  | none => simp
  | some ps => simp [hpas ps hp]

/-- closing a WAV: fresh header, the data, and at most one zero byte behind it — the pad byte when the data section
    ends on an odd offset (written, or already there), otherwise whatever `wav_close` did not cut -/
theorem RwView.close_wav {h : H} {s : Store} {R W F : Nat} {hdr D : List Byte} (v : RwView h s R W F hdr D)
    (hc : h.container = .wav) :
    ∃ t2 : Nat, t2 ≤ 1 ∧ ((hdrLenOf h + D.length) % 2 = 1 → t2 = 1) ∧
      (closeHandle h s).bytes =
        wavHdr_ct h.big (codecOf h.fmtWord) h.enc.nbytes h.ch h.sr F h.peak true
          ((hdrLenOf h + D.length + t2 : Nat) : Int) (D.length : Int) ++ D ++ zeros t2 := by
  have hO : 0 < hdrLenOf h := by simp only [hdrLenOf, hc]; exact wavHdrLen_pos h
  obtain ⟨t, hb, ht⟩ := v.bytes
  have hpas : h.peak = none ∨ h.peakAtStart = true := by
    cases hp : h.peak with
    | none => left; rfl
    | some ps => right; exact (v.peak ps hp).2
  have ht1 : t ≤ 1 := by rcases ht with h0 | ⟨h1, _⟩ <;> omega
  have hdlen : h.frames * (h.nb : Int) * (h.ch : Int) = (D.length : Int) := by
    rw [v.frames, v.dlen]; unfold H.bw H.nb; push_cast; rw [Int.mul_assoc]
  have hde2 : h.dataoffset + (D.length : Int) = ((hdrLenOf h + D.length : Nat) : Int) := by
    rw [v.doff]; push_cast; rfl
  have hpos : ((hdrLenOf h + D.length : Nat) : Int) > 0 := by omega
  have hpad : (if (((hdrLenOf h + D.length : Nat) : Int) % 2 == 1) = true then [(0 : Byte)] else []) =
      wavPadAt (hdrLenOf h + D.length) := by
    unfold wavPadAt
    by_cases hodd : (hdrLenOf h + D.length) % 2 = 1
    · rw [if_pos hodd, if_pos (by rw [beq_iff_eq]; omega)]
    · rw [if_neg hodd, if_neg (by rw [beq_iff_eq]; omega)]
  -- the tailer: seek to the end of the data, write the pad byte (over the one that may be there)
  obtain ⟨t1, p, hwr, hp1, hodd1, hcut⟩ : ∃ t1 p : Nat,
      (s.seekSet (hdrLenOf h + D.length)).write (wavPadAt (hdrLenOf h + D.length)) =
        { bytes := hdr ++ D ++ zeros t1, pos := hdrLenOf h + D.length + p } ∧ t1 ≤ 1 ∧
      ((hdrLenOf h + D.length) % 2 = 1 → t1 = 1 ∧ p = 1) ∧ (p = 0 ∨ (p = 1 ∧ t1 = 1)) := by
    by_cases hodd : (hdrLenOf h + D.length) % 2 = 1
    · refine ⟨1, 1, ?_, Nat.le_refl _, fun _ => ⟨rfl, rfl⟩, Or.inr ⟨rfl, rfl⟩⟩
      have hw : wavPadAt (hdrLenOf h + D.length) = [0] := by unfold wavPadAt; rw [if_pos hodd]
      rw [hw, write_nonempty _ _ (by simp)]
      simp only [Store.seekSet, hb, ← v.hlen, writeAt_append, writeAt_zeros_tail, writeAt_end, List.length_singleton]
      have : t - (D.length + 1 - D.length) = 0 := by omega
      rw [this]; simp [zeros]
    · refine ⟨t, 0, ?_, ht1, fun hx => absurd hx hodd, Or.inl rfl⟩
      have hw : wavPadAt (hdrLenOf h + D.length) = [] := by unfold wavPadAt; rw [if_neg hodd]
      rw [hw]
      simp [Store.write, Store.seekSet, hb]
  unfold closeHandle
  rw [v.mode, hc]
  simp only [show (Mode.rw == Mode.r) = false from rfl, Bool.false_eq_true, if_false]
  rw [wavTailer_nopeaktail h s (fun ps hp => (v.peak ps hp).2) (by rw [hdlen, hde2]; exact hpos)]
  simp only [hdlen, hde2, Int.toNat_natCast, hpad, hwr, v.mode, show (Mode.rw == Mode.rw) = true from rfl, if_true]
  have hp : hdrLenOf h ≤ hdrLenOf h + D.length + p := by omega
  have hcore : ∀ (X : H) (tt : Nat), X.container = .wav → hdrLenOf X = hdrLenOf h → X.dataoffset = h.dataoffset →
      X.dataend = ((hdrLenOf h + D.length : Nat) : Int) → X.frames = h.frames → X.peak = h.peak → X.peakAtStart = h.peakAtStart →
      X.big = h.big → X.fmtWord = h.fmtWord → X.enc = h.enc → X.ch = h.ch → X.sr = h.sr →
      (Sf.writeHeader X { bytes := hdr ++ D ++ zeros tt, pos := hdrLenOf h + D.length + p } true).2.bytes =
        wavHdr_ct h.big (codecOf h.fmtWord) h.enc.nbytes h.ch h.sr F h.peak true
          ((hdrLenOf h + D.length + tt : Nat) : Int) (D.length : Int) ++ D ++ zeros tt := by
    intro X tt x1 x2 x3 x4 x5 x6 x6b x7 x8 x9 x10 x11
    have := close_wav_core X hdr D (zeros tt) _ (hdrLenOf h) F x1 x2 v.hlen (by rw [x3]; exact v.doff) x4
      (by rw [x5]; exact v.frames) h.peak x6 (by rw [x6b]; exact hpas) hp
    rw [this, x7, x8, x9, x10, x11, zeros_length]
  have htake : List.take (hdrLenOf h + D.length + p) (hdr ++ D ++ zeros t1) = hdr ++ D ++ zeros (p * t1) := by
    rcases hcut with h0 | ⟨h1, h2⟩
    · rw [h0, Nat.add_zero, Nat.zero_mul, ← v.hlen, ← List.length_append, List.take_left' rfl]; simp [zeros]
    · rw [h1, h2, List.take_of_length_le (by simp [v.hlen, zeros]; omega)]
  split
  · split
    · rw [htake]
      refine ⟨p * t1, ?_, ?_, hcore _ _ hc (hdrLenOf_congr_rw _ _ rfl rfl rfl rfl) rfl rfl rfl rfl rfl rfl rfl rfl rfl rfl⟩
      · rcases hcut with h0 | ⟨h1, h2⟩
        · rw [h0]; omega
        · rw [h1, h2]; omega
      · intro hx; obtain ⟨a, b⟩ := hodd1 hx; rw [a, b]
    · exact ⟨t1, hp1, fun hx => (hodd1 hx).1,
        hcore _ _ hc (hdrLenOf_congr_rw _ _ rfl rfl rfl rfl) rfl rfl rfl rfl rfl rfl rfl rfl rfl rfl⟩
  · exact ⟨t1, hp1, fun hx => (hodd1 hx).1,
      hcore _ _ hc (hdrLenOf_congr_rw _ _ rfl rfl rfl rfl) rfl rfl rfl rfl rfl rfl rfl rfl rfl rfl⟩

end Sf
