/-
  The staging loop of the ADPCM-style read entry points (`Reader.readChunkedBrk`: pieces of at most `chunk` items,
  stop after a short piece) inside the data: it delivers the slice of the block stream, whatever the piece size.
  Helper lemmas for SfProps/C06Nms.lean.
-/
import SfProofs.BlockReader
import SfModel.AdpcmReader
namespace Sf.Block.Proofs
open Sf Sf.Block

theorem read_spec (r : Reader) (wf : WF r) (st : RState) (inv : Inv r st) (c : Nat) (h : r.pos st + c ≤ r.frames) :
    ∃ st', r.read st (c * r.ch) = (st', r.slice (r.pos st * r.ch) (c * r.ch), c * r.ch) ∧ Inv r st' ∧ r.pos st' = r.pos st + c := by
  obtain ⟨st', h1, h2, h3⟩ := readLoop_spec r wf (c * r.ch + 1) st c inv
    (Nat.lt_succ_of_le (Nat.le_mul_of_pos_right c wf.ch_pos)) h
  exact ⟨st', by unfold Reader.read; exact h1, h2, h3⟩

/-- a request of `m` frames that ends inside the reader's data, cut into pieces of `q` frames (`q = 0`: one piece):
    the cells written are the `m` frames of the stream at the position, appended to what was written before; the
    count is `m · ch`; the invariant holds at position + m -/
theorem readChunkedBrk_spec (r : Reader) (wf : WF r) (q : Nat) (cz : Bool) :
    ∀ (fuel : Nat) (st : RState) (m : Nat) (acc : List Int), Inv r st → m < fuel → r.pos st + m ≤ r.frames →
    ∃ st', r.readChunkedBrk (q * r.ch) cz fuel st (m * r.ch) acc acc.length =
        (st', acc ++ r.slice (r.pos st * r.ch) (m * r.ch), acc.length + m * r.ch) ∧ Inv r st' ∧ r.pos st' = r.pos st + m := by
  intro fuel
  induction fuel with
  | zero => intro st m acc _ h; omega
  | succ fuel ih =>
    intro st m acc inv hf hend
    unfold Reader.readChunkedBrk
    by_cases hm : m = 0
    · subst hm
      simp only [Nat.zero_mul, if_true]
      exact ⟨st, by simp [slice_zero], inv, rfl⟩
    · have hch : r.ch ≠ 0 := Nat.pos_iff_ne_zero.mp wf.ch_pos
      have hmc : m * r.ch ≠ 0 := Nat.mul_ne_zero hm hch
      simp only [hmc, if_false]
      obtain ⟨c, hc1, hc2, hrc⟩ : ∃ c, 1 ≤ c ∧ c ≤ m ∧
          (if q * r.ch = 0 then m * r.ch else min (q * r.ch) (m * r.ch)) = c * r.ch := by
        by_cases hq : q = 0
        · exact ⟨m, by omega, Nat.le_refl _, by simp [hq]⟩
        · refine ⟨min q m, by omega, Nat.min_le_right _ _, ?_⟩
          have : q * r.ch ≠ 0 := Nat.mul_ne_zero hq hch
          rw [if_neg this, Nat.mul_min_mul_right]
      rw [hrc]
      obtain ⟨st1, hread, inv1, hp1⟩ := read_spec r wf st inv c (by omega)
      rw [hread]
      have hcc : c * r.ch ≠ 0 := Nat.mul_ne_zero (by omega) hch
      have hacc1 : (if c * r.ch = 0 ∧ (!cz) = true then acc
          else acc.take acc.length ++ r.slice (r.pos st * r.ch) (c * r.ch) ++ acc.drop (acc.length + c * r.ch)) =
          acc ++ r.slice (r.pos st * r.ch) (c * r.ch) := by
        rw [if_neg (fun h => hcc h.1), List.take_length, List.drop_eq_nil_of_le (by omega), List.append_nil]
      simp only [hacc1, ne_eq, not_true_eq_false, if_false]
      have hlen : (acc ++ r.slice (r.pos st * r.ch) (c * r.ch)).length = acc.length + c * r.ch := by
        rw [List.length_append, slice_length]
      have hsub : m * r.ch - c * r.ch = (m - c) * r.ch := (Nat.sub_mul m c r.ch).symm
      obtain ⟨st', hrec, inv', hp'⟩ := ih st1 (m - c) (acc ++ r.slice (r.pos st * r.ch) (c * r.ch)) inv1 (by omega) (by rw [hp1]; omega)
      rw [hlen] at hrec
      rw [hsub, hrec]
      refine ⟨st', ?_, inv', by rw [hp', hp1]; omega⟩
      have hsplit : m * r.ch = c * r.ch + (m - c) * r.ch := by rw [← Nat.add_mul]; congr 1; omega
      rw [hp1, Nat.add_mul, List.append_assoc, ← slice_append, ← hsplit, Nat.add_assoc, ← hsplit]

end Sf.Block.Proofs
