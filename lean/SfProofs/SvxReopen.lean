/-
  SfProofs.SvxReopen — the chunk loop of the SVX reader (`Sf.Svx.parse`) run symbolically over the model's own writer
  output: FORM, 8SVX | 16SV, VHDR, NAME, ANNO, BODY, audio.
-/
import SfModel.Svx
import SfProofs.SmallSession
import SfProofs.Svx
import SfProps.C04Svx
namespace Sf.SvxReopen
open Sf Sf.Small Sf.Svx

/-! ## reads at a known place -/

theorem rdN_split (bs pre seg post : List Byte) (pos n : Nat) (hbs : bs = pre ++ (seg ++ post))
    (hp : pre.length = pos) (hn : seg.length = n) : rdN bs pos n = (seg, pos + n) := by
  subst hbs hp hn
  unfold rdN
  rw [if_pos (by simp only [List.length_append]; omega)]
  rw [List.drop_left' rfl, List.take_left' rfl]

theorem adv_in (bs : List Byte) (pos n : Nat) (h : pos + n ≤ bs.length) : adv bs pos n = pos + n := by
  unfold adv; rw [if_pos h]

theorem walk_cont (fx nf : Bool) (bs : List Byte) (n : Nat) (s t : Sc) (h : stepX fx nf bs s = .cont t) :
    walkX fx nf bs (n + 1) s = walkX fx nf bs n t := by
  simp only [walkX, h]

theorem walk_stop (fx nf : Bool) (bs : List Byte) (n : Nat) (s t : Sc) (h : stepX fx nf bs s = .stop t) :
    walkX fx nf bs (n + 1) s = some (some t) := by
  simp only [walkX, h]

/-! ## the three kinds of iteration the writer's header asks for -/

/-- the VHDR chunk -/
theorem step_vhdr (fx nf : Bool) (bs pre szb x12 r2 c1 cm v4 post : List Byte) (s : Sc)
    (hbs : bs = pre ++ (mk4 "VHDR" ++ (szb ++ (x12 ++ (r2 ++ (c1 ++ (cm ++ (v4 ++ post))))))))
    (hp : pre.length = s.pos) (hu : s.used ≤ cacheLimit) (hsz : szb.length = 4)
    (h12 : x12.length = 12) (h2 : r2.length = 2) (hc1 : c1.length = 1) (hcm : cm.length = 1) (h4 : v4.length = 4)
    (hpost : 4 < post.length) :
    stepX fx nf bs s = .cont { s with pos := s.pos + 28, used := s.used + 8 + 20, haveVhdr := true, sr := ofBE r2,
                                      compression := ofBE cm } := by
  have hm : (mk4 "VHDR").length = 4 := by decide
  have e1 : rdN bs s.pos 4 = (mk4 "VHDR", s.pos + 4) := rdN_split bs pre _ _ _ _ hbs hp hm
  have e2 : rdN bs (s.pos + 4) 4 = (szb, s.pos + 4 + 4) :=
    rdN_split bs (pre ++ mk4 "VHDR") _ _ _ _ (by rw [hbs]; simp only [List.append_assoc]; rfl)
      (by simp only [List.length_append, hp, hm]) hsz
  have e3 : rdN bs (s.pos + 4 + 4) 12 = (x12, s.pos + 4 + 4 + 12) :=
    rdN_split bs (pre ++ mk4 "VHDR" ++ szb) _ _ _ _ (by rw [hbs]; simp only [List.append_assoc]; rfl)
      (by simp only [List.length_append, hp, hm, hsz]) h12
  have e4 : rdN bs (s.pos + 4 + 4 + 12) 2 = (r2, s.pos + 4 + 4 + 12 + 2) :=
    rdN_split bs (pre ++ mk4 "VHDR" ++ szb ++ x12) _ _ _ _ (by rw [hbs]; simp only [List.append_assoc]; rfl)
      (by simp only [List.length_append, hp, hm, hsz, h12]) h2
  have e5 : rdN bs (s.pos + 4 + 4 + 12 + 2) 1 = (c1, s.pos + 4 + 4 + 12 + 2 + 1) :=
    rdN_split bs (pre ++ mk4 "VHDR" ++ szb ++ x12 ++ r2) _ _ _ _ (by rw [hbs]; simp only [List.append_assoc]; rfl)
      (by simp only [List.length_append, hp, hm, hsz, h12, h2]) hc1
  have e6 : rdN bs (s.pos + 4 + 4 + 12 + 2 + 1) 1 = (cm, s.pos + 4 + 4 + 12 + 2 + 1 + 1) :=
    rdN_split bs (pre ++ mk4 "VHDR" ++ szb ++ x12 ++ r2 ++ c1) _ _ _ _ (by rw [hbs]; simp only [List.append_assoc]; rfl)
      (by simp only [List.length_append, hp, hm, hsz, h12, h2, hc1]) hcm
  have e7 : rdN bs (s.pos + 4 + 4 + 12 + 2 + 1 + 1) 4 = (v4, s.pos + 4 + 4 + 12 + 2 + 1 + 1 + 4) :=
    rdN_split bs (pre ++ mk4 "VHDR" ++ szb ++ x12 ++ r2 ++ c1 ++ cm) _ _ _ _ (by rw [hbs]; simp only [List.append_assoc]; rfl)
      (by simp only [List.length_append, hp, hm, hsz, h12, h2, hc1, hcm]) h4
  have hlen : bs.length = s.pos + 28 + post.length := by
    rw [hbs]; simp only [List.length_append, hp, hm, hsz, h12, h2, hc1, hcm, h4]; omega
  have n1 : mk4 "VHDR" ≠ mk4 "FORM" := by decide
  have hfin : ¬ (((s.pos + 4 + 4 + 12 + 2 + 1 + 1 + 4 : Nat) : Int) ≥ (bs.length : Int) - 4) := by omega
  unfold stepX
  rw [if_neg (by omega)]
  simp only [e1, e2, e3, e4, e5, e6, e7, n1, if_false, if_true, hfin]

/-- a NAME or ANNO chunk that is not the last thing in the file (`nf`: the old NAME rule refuses more than 255 bytes) -/
theorem step_skip (fx nf : Bool) (bs pre mk szb body post : List Byte) (s : Sc) (size : Nat)
    (hbs : bs = pre ++ (mk ++ (szb ++ (body ++ post))))
    (hp : pre.length = s.pos) (hu : s.used ≤ cacheLimit) (hmk : mk = mk4 "NAME" ∨ mk = mk4 "ANNO")
    (hsz : szb.length = 4) (hsize : ofBE szb = size) (hbody : body.length = size) (h31s : size < 2 ^ 31)
    (hold : ¬ (nf = true ∧ size > 255))
    (hpost : 4 < post.length) :
    stepX fx nf bs s = .cont { s with pos := s.pos + 8 + size, used := s.used + 8 + size } := by
  have hm : mk.length = 4 := by rcases hmk with h | h <;> rw [h] <;> decide
  have e1 : rdN bs s.pos 4 = (mk, s.pos + 4) := rdN_split bs pre _ _ _ _ hbs hp hm
  have e2 : rdN bs (s.pos + 4) 4 = (szb, s.pos + 4 + 4) :=
    rdN_split bs (pre ++ mk) _ _ _ _ (by rw [hbs]; simp only [List.append_assoc]; rfl)
      (by simp only [List.length_append, hp, hm]) hsz
  have hlen : bs.length = s.pos + 8 + size + post.length := by
    rw [hbs]; simp only [List.length_append, hp, hm, hsz, hbody]; omega
  have ha : adv bs (s.pos + 4 + 4) size = s.pos + 8 + size := by rw [adv_in _ _ _ (by omega)]
  have hfin : ¬ (((s.pos + 8 + size : Nat) : Int) ≥ (bs.length : Int) - 4) := by omega
  have h31 : ¬ size ≥ 2 ^ 31 := by omega
  unfold stepX
  rw [if_neg (by omega)]
  rcases hmk with h | h
  · have n1 : mk4 "NAME" ≠ mk4 "FORM" := by decide
    have n2 : mk4 "NAME" ≠ mk4 "VHDR" := by decide
    have n3 : mk4 "NAME" ≠ mk4 "BODY" := by decide
    subst h
    simp only [e1, e2, hsize, n1, n2, n3, if_false, if_true, hold, skip, h31, ha, hfin]
  · have n1 : mk4 "ANNO" ≠ mk4 "FORM" := by decide
    have n2 : mk4 "ANNO" ≠ mk4 "VHDR" := by decide
    have n3 : mk4 "ANNO" ≠ mk4 "BODY" := by decide
    have n4 : mk4 "ANNO" ≠ mk4 "NAME" := by decide
    subst h
    simp only [e1, e2, hsize, n1, n2, n3, n4, if_false, if_true, true_or, skip, h31, ha, hfin]

/-- the BODY chunk whose size field is the number of bytes behind it: the loop ends, no `dataend` -/
theorem step_body (fx nf : Bool) (bs pre szb data : List Byte) (s : Sc)
    (hbs : bs = pre ++ (mk4 "BODY" ++ (szb ++ data)))
    (hp : pre.length = s.pos) (hu : s.used ≤ cacheLimit) (hv : s.haveVhdr = true)
    (hsz : szb.length = 4) (hsize : ofBE szb = data.length) :
    stepX fx nf bs s = .stop { s with pos := s.pos + 8 + data.length, used := s.used + 8, haveBody := true,
                                      dataoffset := ((s.pos + 8 : Nat) : Int) } := by
  have hm : (mk4 "BODY").length = 4 := by decide
  have e1 : rdN bs s.pos 4 = (mk4 "BODY", s.pos + 4) := rdN_split bs pre _ _ _ _ hbs hp hm
  have e2 : rdN bs (s.pos + 4) 4 = (szb, s.pos + 4 + 4) :=
    rdN_split bs (pre ++ mk4 "BODY") _ _ _ _ (by rw [hbs]; simp only [List.append_assoc]; rfl)
      (by simp only [List.length_append, hp, hm]) hsz
  have hlen : bs.length = s.pos + 8 + data.length := by
    rw [hbs]; simp only [List.length_append, hp, hm, hsz]; omega
  have n1 : mk4 "BODY" ≠ mk4 "FORM" := by decide
  have n2 : mk4 "BODY" ≠ mk4 "VHDR" := by decide
  have hdl : (if ((data.length : Nat) : Int) > (bs.length : Int) - ((s.pos + 4 + 4 : Nat) : Int)
      then (bs.length : Int) - ((s.pos + 4 + 4 : Nat) : Int) else ((data.length : Nat) : Int)) = ((data.length : Nat) : Int) := by
    rw [if_neg (by omega)]
  unfold stepX
  rw [if_neg (by omega)]
  simp only [e1, e2, hsize, n1, n2, if_false, if_true, hv, Bool.not_true, Bool.false_eq_true, hdl]
  rw [if_neg (by omega)]
  have hend : ¬ (fx = true ∧ ((s.pos + 4 + 4 : Nat) : Int) + ((data.length : Nat) : Int) < (bs.length : Int)) := by omega
  simp only [hend, if_false, Int.toNat_natCast]
  rw [if_pos (by omega)]

/-! ## the whole file, over abstract segments -/

def st1 (sr : Nat) : Sc := { pos := 40, used := 40, haveVhdr := true, sr := sr }
def st2 (sr n : Nat) : Sc := { st1 sr with pos := 48 + n, used := 48 + n }
def st3 (sr n : Nat) : Sc := { st1 sr with pos := 90 + n, used := 90 + n }
def st4 (sr n d : Nat) : Sc :=
  { st1 sr with pos := 98 + n + d, used := 98 + n, haveBody := true, dataoffset := ((98 + n : Nat) : Int) }

theorem head_fields (a b t rest : List Byte) (ha : a.length = 4) (hb : b.length = 4) (ht : t.length = 4) :
    (a ++ (b ++ (t ++ rest))).take 4 = a ∧ ((a ++ (b ++ (t ++ rest))).drop 8).take 4 = t := by
  refine ⟨List.take_left' ha, ?_⟩
  have e : a ++ (b ++ (t ++ rest)) = (a ++ b) ++ (t ++ rest) := by simp only [List.append_assoc]
  rw [e, List.drop_left' (by simp only [List.length_append, ha, hb]), List.take_left' ht]

/-- the walk over FORM, type, VHDR, NAME, ANNO, BODY, audio: four iterations -/
theorem walk_segments (fx nf : Bool) (p12 vsz x12 r2 v4 nsz nm asz an bsz data : List Byte)
    (hp12 : p12.length = 12) (hvsz : vsz.length = 4) (hx12 : x12.length = 12) (hr2 : r2.length = 2) (hv4 : v4.length = 4)
    (hnsz : nsz.length = 4) (hnm : ofBE nsz = nm.length) (hn256 : nm.length ≤ 256)
    (hold : ¬ (nf = true ∧ nm.length > 255))
    (hasz : asz.length = 4) (han : ofBE asz = an.length) (ha255 : an.length = 34)
    (hbsz : bsz.length = 4) (hbd : ofBE bsz = data.length) (bs : List Byte) (fuel : Nat) (hfuel : 4 ≤ fuel)
    (hbs : bs = p12 ++ (mk4 "VHDR" ++ (vsz ++ (x12 ++ (r2 ++ ([1] ++ ([0] ++ (v4 ++ (mk4 "NAME" ++ (nsz ++ (nm ++
      (mk4 "ANNO" ++ (asz ++ (an ++ (mk4 "BODY" ++ (bsz ++ data)))))))))))))))) :
    walkX fx nf bs fuel {} = some (some (st4 (ofBE r2) nm.length data.length)) := by
  obtain ⟨k, rfl⟩ : ∃ k, fuel = k + 4 := ⟨fuel - 4, by omega⟩
  have m4 : ∀ s : String, s.length = 4 → (mk4 s).length = 4 := mk4_len
  have h1 : stepX fx nf bs {} = .cont (st1 (ofBE r2)) := by
    rw [step_vhdr fx nf bs p12 vsz x12 r2 [1] [0] v4 (mk4 "NAME" ++ (nsz ++ (nm ++
      (mk4 "ANNO" ++ (asz ++ (an ++ (mk4 "BODY" ++ (bsz ++ data))))))))  {} hbs hp12 (by decide) hvsz hx12 hr2 rfl rfl hv4
      (by simp only [List.length_append]; have := m4 "NAME" rfl; omega)]
    rfl
  have h2 : stepX fx nf bs (st1 (ofBE r2)) = .cont (st2 (ofBE r2) nm.length) := by
    rw [step_skip fx nf bs (p12 ++ (mk4 "VHDR" ++ (vsz ++ (x12 ++ (r2 ++ ([1] ++ ([0] ++ v4))))))) (mk4 "NAME") nsz nm
      (mk4 "ANNO" ++ (asz ++ (an ++ (mk4 "BODY" ++ (bsz ++ data)))))
      (st1 (ofBE r2)) nm.length (by rw [hbs]; simp only [List.append_assoc, List.cons_append, List.nil_append])
      (by show _ = 40
          simp only [List.length_append, List.length_cons, List.length_nil, hp12, m4 "VHDR" rfl, hvsz, hx12, hr2, hv4])
      (by show 40 ≤ 30000; omega) (Or.inl rfl) hnsz hnm rfl (by omega) hold
      (by simp only [List.length_append]; have := m4 "ANNO" rfl; omega)]
    rfl
  have h3 : stepX fx nf bs (st2 (ofBE r2) nm.length) = .cont (st3 (ofBE r2) nm.length) := by
    rw [step_skip fx nf bs (p12 ++ (mk4 "VHDR" ++ (vsz ++ (x12 ++ (r2 ++ ([1] ++ ([0] ++ (v4 ++ (mk4 "NAME" ++ (nsz ++ nm))))))))))
      (mk4 "ANNO") asz an (mk4 "BODY" ++ (bsz ++ data))
      (st2 (ofBE r2) nm.length) an.length (by rw [hbs]; simp only [List.append_assoc, List.cons_append, List.nil_append])
      (by show _ = 48 + nm.length
          simp only [List.length_append, List.length_cons, List.length_nil, hp12, m4 "VHDR" rfl, m4 "NAME" rfl, hvsz, hx12, hr2, hv4, hnsz]
          omega)
      (by show 48 + nm.length ≤ 30000; omega) (Or.inr rfl) hasz han rfl (by omega) (fun h => absurd h.2 (by omega))
      (by simp only [List.length_append]; have := m4 "BODY" rfl; omega)]
    simp only [st1, st2, st3, ha255, Step.cont.injEq, Sc.mk.injEq, and_true]
    omega
  have h4 : stepX fx nf bs (st3 (ofBE r2) nm.length) = .stop (st4 (ofBE r2) nm.length data.length) := by
    rw [step_body fx nf bs (p12 ++ (mk4 "VHDR" ++ (vsz ++ (x12 ++ (r2 ++ ([1] ++ ([0] ++ (v4 ++ (mk4 "NAME" ++ (nsz ++ (nm ++
      (mk4 "ANNO" ++ (asz ++ an))))))))))))) bsz data
      (st3 (ofBE r2) nm.length) (by rw [hbs]; simp only [List.append_assoc, List.cons_append, List.nil_append])
      (by show _ = 90 + nm.length
          simp only [List.length_append, List.length_cons, List.length_nil, hp12, m4 "VHDR" rfl, m4 "NAME" rfl, m4 "ANNO" rfl,
            hvsz, hx12, hr2, hv4, hnsz, hasz, ha255]
          omega)
      (by show 90 + nm.length ≤ 30000; omega) rfl hbsz hbd]
    simp only [st1, st3, st4, Step.stop.injEq, Sc.mk.injEq, true_and, and_true]
    omega
  rw [walk_cont fx nf bs (k + 3) _ _ h1, walk_cont fx nf bs (k + 2) _ _ h2, walk_cont fx nf bs (k + 1) _ _ h3,
    walk_stop fx nf bs k _ _ h4]

/-- the checks after the loop on the state the walk ends in -/
theorem finish_st4 (sr n d bw : Nat) (hsr : 1 ≤ sr) :
    finish (98 + n + d) bw (st4 sr n d) = .ok { ch := 1, fmt := 0x060000 + bw, sr := sr, frames := d / bw } := by
  have hc := codecFrames_body (98 + n) d (bw * 1)
  unfold finish
  simp only [st4, st1, hc]
  have hnn : (0 : Int) ≤ ((d / (bw * 1) : Nat) : Int) := Int.natCast_nonneg _
  rw [if_neg (by omega), if_neg (by omega), if_neg (by omega)]
  simp only [Int.toNat_natCast, Nat.mul_one]

theorem len_arith (a b : Nat) :
    4 + (4 + (4 + (4 + (4 + (12 + (2 + (0 + 1 + (0 + 1 + (4 + (4 + (4 + (a + (4 + (4 + (34 + (4 + (4 + b))))))))))))))))) =
      98 + a + b := by omega

theorem parse_segments (fx nf : Bool) (fsz t vsz x12 r2 v4 nsz nm asz an bsz data : List Byte)
    (hfsz : fsz.length = 4) (ht : t = mk4 "8SVX" ∨ t = mk4 "16SV")
    (hvsz : vsz.length = 4) (hx12 : x12.length = 12) (hr2 : r2.length = 2) (hv4 : v4.length = 4)
    (hnsz : nsz.length = 4) (hnm : ofBE nsz = nm.length) (hn256 : nm.length ≤ 256)
    (hold : ¬ (nf = true ∧ nm.length > 255))
    (hasz : asz.length = 4) (han : ofBE asz = an.length) (ha34 : an.length = 34)
    (hbsz : bsz.length = 4) (hbd : ofBE bsz = data.length) (hsr : 1 ≤ ofBE r2) :
    parseX fx nf (mk4 "FORM" ++ (fsz ++ (t ++ (mk4 "VHDR" ++ (vsz ++ (x12 ++ (r2 ++ ([1] ++ ([0] ++ (v4 ++ (mk4 "NAME" ++ (nsz ++ (nm ++
      (mk4 "ANNO" ++ (asz ++ (an ++ (mk4 "BODY" ++ (bsz ++ data)))))))))))))))))) =
      .ok { ch := 1, fmt := 0x060000 + (if t = mk4 "8SVX" then 1 else 2), sr := ofBE r2,
            frames := data.length / (if t = mk4 "8SVX" then 1 else 2) } := by
  obtain ⟨bs, hbs⟩ : ∃ bs, bs = mk4 "FORM" ++ (fsz ++ (t ++ (mk4 "VHDR" ++ (vsz ++ (x12 ++ (r2 ++ ([1] ++ ([0] ++ (v4 ++
      (mk4 "NAME" ++ (nsz ++ (nm ++ (mk4 "ANNO" ++ (asz ++ (an ++ (mk4 "BODY" ++ (bsz ++ data))))))))))))))))) := ⟨_, rfl⟩
  rw [← hbs]
  have m4 : ∀ s : String, s.length = 4 → (mk4 s).length = 4 := mk4_len
  have htl : t.length = 4 := by rcases ht with h | h <;> rw [h] <;> decide
  obtain ⟨hf1, hf2⟩ := head_fields (mk4 "FORM") fsz t (mk4 "VHDR" ++ (vsz ++ (x12 ++ (r2 ++ ([1] ++ ([0] ++ (v4 ++
      (mk4 "NAME" ++ (nsz ++ (nm ++ (mk4 "ANNO" ++ (asz ++ (an ++ (mk4 "BODY" ++ (bsz ++ data))))))))))))))) (by decide) hfsz htl
  rw [← hbs] at hf1 hf2
  have hlen : bs.length = 98 + nm.length + data.length := by
    rw [hbs]
    simp only [List.length_append, List.length_cons, List.length_nil, m4 "FORM" rfl, m4 "VHDR" rfl, m4 "NAME" rfl, m4 "ANNO" rfl,
      m4 "BODY" rfl, hfsz, htl, hvsz, hx12, hr2, hv4, hnsz, hasz, ha34, hbsz]
    exact len_arith _ _
  have hw := walk_segments fx nf (mk4 "FORM" ++ (fsz ++ t)) vsz x12 r2 v4 nsz nm asz an bsz data
    (by simp only [List.length_append, m4 "FORM" rfl, hfsz, htl]) hvsz hx12 hr2 hv4 hnsz hnm hn256 hold hasz han ha34 hbsz hbd
    bs bs.length (by omega) (by rw [hbs]; simp only [List.append_assoc])
  have hfin := finish_st4 (ofBE r2) nm.length data.length (if t = mk4 "8SVX" then 1 else 2) hsr
  unfold parseX
  rw [if_neg (by omega)]
  simp only [hf1, hf2, ne_eq, not_true_eq_false, if_false]
  have a1 : mk4 "8SVX" ≠ mk4 "AIFF" := by decide
  have a2 : mk4 "8SVX" ≠ mk4 "AIFC" := by decide
  have a3 : mk4 "16SV" ≠ mk4 "AIFF" := by decide
  have a4 : mk4 "16SV" ≠ mk4 "AIFC" := by decide
  have a5 : mk4 "16SV" ≠ mk4 "8SVX" := by decide
  rw [if_neg (by rcases ht with h | h <;> rw [h] <;> simp only [a1, a2, a3, a4, or_self, not_false_eq_true]),
    if_neg (by rcases ht with h | h <;> rw [h] <;> simp only [a5, not_true_eq_false, false_and, and_false, not_false_eq_true]),
    if_neg (by omega), hw]
  simp only [hlen]
  exact hfin

/-! ## the writer's header -/

theorem strField_split (s : List Byte) :
    strField s = be32 ((s.length + 1 + (s.length + 1) % 2 : Nat) : Int) ++ (s ++ List.replicate (1 + (s.length + 1) % 2) 0) := by
  unfold strField
  simp only [List.append_assoc]

theorem ofBE_be32_nat (v : Nat) (h : v < 2 ^ 32) : ofBE (be32 (v : Int)) = v := by
  rw [ofBE_be32, wrapU_nat 32 v h]

/-- **the reader on any header the writer can emit, followed by the audio it announces**, for both NAME rules (`nf = true`: the
    rule before the repair of KF-SVX-NAME-LENGTH, which needs a name of at most 253 bytes: the chunk holds the name, a NUL
    and a pad, and 256 > 255 fails the open).  The FORM size and the VHDR frame count are not looked at; the BODY size field
    must hold the audio byte count (it wraps at 2 ^ 32). -/
theorem parse_image_x (nf : Bool) (c : Cfg) (hwf : c.wf) (hname : nf = true → c.name.length ≤ 253) (F : Nat) (fl : Int)
    (data : List Byte) (hD : data.length < 2 ^ 32) :
    parseX true nf (hdr c F fl ((data.length : Nat) : Int) ++ data) =
      .ok { ch := c.ch, fmt := c.fmtWord, sr := min c.sr 65535, frames := data.length / c.bw } := by
  have hn255 : c.name.length ≤ 255 := (cfg_facts c hwf).2.2
  obtain ⟨hcd, hch, _⟩ := cfg_facts c hwf
  have hsr : 1 ≤ c.sr := hwf.2.2.1
  have hrate := Sf.C04Svx.svx_rate_field c.sr
  have e : hdr c F fl ((data.length : Nat) : Int) ++ data =
      mk4 "FORM" ++ (be32 (if fl < 8 then 0 else fl - 8) ++ ((if c.bytewidth = 1 then mk4 "8SVX" else mk4 "16SV") ++
      (mk4 "VHDR" ++ (be32 20 ++ ((be32 F ++ (be32 0 ++ be32 0)) ++ (be16 (rateField c.sr) ++ ([1] ++ ([0] ++
      (be32 (if c.bytewidth = 1 then 0xFF else 0xFFFF) ++ (mk4 "NAME" ++
      (be32 ((c.name.length + 1 + (c.name.length + 1) % 2 : Nat) : Int) ++
      ((c.name ++ List.replicate (1 + (c.name.length + 1) % 2) 0) ++ (mk4 "ANNO" ++
      (be32 ((annotation.length + 1 + (annotation.length + 1) % 2 : Nat) : Int) ++
      ((annotation ++ List.replicate (1 + (annotation.length + 1) % 2) 0) ++ (mk4 "BODY" ++
      (be32 ((data.length : Nat) : Int) ++ data))))))))))))))))) := by
    unfold hdr
    rw [if_neg (by omega : ¬ c.ch = 2), if_neg (by omega : ¬ ((data.length : Nat) : Int) < 0), strField_split, strField_split]
    simp only [List.append_assoc, List.append_nil]
  have ht : (if c.bytewidth = 1 then mk4 "8SVX" else mk4 "16SV") = mk4 "8SVX" ∨
      (if c.bytewidth = 1 then mk4 "8SVX" else mk4 "16SV") = mk4 "16SV" := by
    by_cases h : c.bytewidth = 1
    · rw [if_pos h]; exact Or.inl rfl
    · rw [if_neg h]; exact Or.inr rfl
  have h := parse_segments true nf (be32 (if fl < 8 then 0 else fl - 8)) (if c.bytewidth = 1 then mk4 "8SVX" else mk4 "16SV") (be32 20)
    (be32 F ++ (be32 0 ++ be32 0)) (be16 (rateField c.sr)) (be32 (if c.bytewidth = 1 then 0xFF else 0xFFFF))
    (be32 ((c.name.length + 1 + (c.name.length + 1) % 2 : Nat) : Int)) (c.name ++ List.replicate (1 + (c.name.length + 1) % 2) 0)
    (be32 ((annotation.length + 1 + (annotation.length + 1) % 2 : Nat) : Int))
    (annotation ++ List.replicate (1 + (annotation.length + 1) % 2) 0) (be32 ((data.length : Nat) : Int)) data
    (be32_length _) ht (be32_length _) (by simp only [List.length_append, be32_length]) (be16_length _) (be32_length _)
    (be32_length _)
    (by rw [ofBE_be32_nat _ (by omega)]; simp only [List.length_append, List.length_replicate]; omega)
    (by simp only [List.length_append, List.length_replicate]; omega)
    (fun hh => absurd hh.2 (by have := hname hh.1; simp only [List.length_append, List.length_replicate]; omega))
    (be32_length _)
    (by rw [ofBE_be32_nat _ (by rw [annotation_length]; decide)]; simp only [List.length_append, List.length_replicate]; omega)
    (by simp only [List.length_append, List.length_replicate, annotation_length])
    (be32_length _) (ofBE_be32_nat _ hD) (by rw [hrate]; omega)
  rw [e, h, hrate, hch]
  have hbw : c.bw = c.codec := by unfold Cfg.bw Cfg.bytewidth; rw [hch, Nat.mul_one]
  have n1 : mk4 "16SV" ≠ mk4 "8SVX" := by decide
  unfold Cfg.fmtWord
  rw [hbw]
  rcases hcd with h1 | h1
  · have hb : c.bytewidth = 1 := h1
    rw [if_pos hb, if_pos rfl, h1]
  · have hb : ¬ c.bytewidth = 1 := by unfold Cfg.bytewidth; omega
    rw [if_neg hb, if_neg n1, h1]

/-- the repaired reader on any header the writer can emit, followed by the audio it announces: no condition on the name -/
theorem parse_image (c : Cfg) (hwf : c.wf) (F : Nat) (fl : Int) (data : List Byte) (hD : data.length < 2 ^ 32) :
    parse (hdr c F fl ((data.length : Nat) : Int) ++ data) =
      .ok { ch := c.ch, fmt := c.fmtWord, sr := min c.sr 65535, frames := data.length / c.bw } :=
  parse_image_x false c hwf (fun h => Bool.noConfusion h) F fl data hD

/-- **svx_reopens.**  `sf_open (SFM_READ)` on the closed file of any session reports the channel count, the format word, the
    saturated rate and `D / bw` frames.  One guard: the audio is shorter than 2 ^ 32 bytes (the BODY size field holds
    `D % 2 ^ 32`: beyond it the reader ends the data at `D % 2 ^ 32`, sets `dataend` and, when more than 4 bytes follow, goes
    on reading chunk headers out of the audio). -/
theorem svx_reopens (c : Cfg) (hwf : c.wf) (st : Nat) (w : List WOp) (hD : (opsData w).length < 2 ^ 32) :
    parse (closedBytes (spec c) st w) =
      .ok { ch := c.ch, fmt := c.fmtWord, sr := min c.sr 65535, frames := (opsData w).length / c.bw } := by
  rw [Sf.C04Svx.closedBytes_eq c hwf]
  exact parse_image c hwf _ _ _ hD

/-- the same for every header-update image (SFC_UPDATE_HEADER_NOW at the end of `w`) -/
theorem svx_snapshot_reopens (c : Cfg) (hwf : c.wf) (st : Nat) (w : List WOp) (hD : (opsData w).length < 2 ^ 32) :
    parse (snapshotBytes (spec c) st w) =
      .ok { ch := c.ch, fmt := c.fmtWord, sr := min c.sr 65535, frames := (opsData w).length / c.bw } := by
  rw [Sf.C04Svx.snapshotBytes_eq c hwf]
  exact svx_reopens c hwf st w hD

/-! ## the NAME rule before the repair of KF-SVX-NAME-LENGTH -/

/-- the reader before the repair re-opens every session whose NAME chunk carries a name of at most 253 bytes -/
theorem svx_reopens_old_rule (c : Cfg) (hwf : c.wf) (hname : c.name.length ≤ 253) (st : Nat) (w : List WOp)
    (hD : (opsData w).length < 2 ^ 32) :
    parseNameOld (closedBytes (spec c) st w) =
      .ok { ch := c.ch, fmt := c.fmtWord, sr := min c.sr 65535, frames := (opsData w).length / c.bw } := by
  rw [Sf.C04Svx.closedBytes_eq c hwf]
  exact parse_image_x true c hwf (fun _ => hname) _ _ _ hD

/-- the defect: a well-formed configuration with a 254- or 255-byte name (NAME chunk size 256) wrote a file the reader of
    before refused (SFE_SVX_BAD_NAME_LENGTH); the repaired reader opens the same two files -/
theorem svx_name_254_not_reopened_old_rule :
    (⟨0x01, 0, 1, 44100, List.replicate 254 65⟩ : Cfg).wf ∧
    parseNameOld (closedBytes (spec ⟨0x01, 0, 1, 44100, List.replicate 254 65⟩) 0 [.write [1, 2, 3] false]) = .err ∧
    parse (closedBytes (spec ⟨0x01, 0, 1, 44100, List.replicate 254 65⟩) 0 [.write [1, 2, 3] false]) =
      .ok ⟨1, 0x060001, 44100, 3⟩ ∧
    (⟨0x01, 0, 1, 44100, List.replicate 255 65⟩ : Cfg).wf ∧
    parseNameOld (closedBytes (spec ⟨0x01, 0, 1, 44100, List.replicate 255 65⟩) 0 [.write [1, 2, 3] false]) = .err ∧
    parse (closedBytes (spec ⟨0x01, 0, 1, 44100, List.replicate 255 65⟩) 0 [.write [1, 2, 3] false]) =
      .ok ⟨1, 0x060001, 44100, 3⟩ ∧
    parseNameOld (closedBytes (spec ⟨0x01, 0, 1, 44100, List.replicate 253 65⟩) 0 [.write [1, 2, 3] false]) =
      .ok ⟨1, 0x060001, 44100, 3⟩ := by decide +kernel


end Sf.SvxReopen
