/-
  Helper lemmas for the DWVW model (SfModel/Dwvw.lean): bit lists and numbers, `HIGHEST_BIT`, the zero-run scanner,
  the byte packer of the writer.
-/
import Mathlib.Tactic.NormNum
import Mathlib.Tactic.Ring
import Mathlib.Tactic.Linarith
import Mathlib.Tactic.Positivity
import SfModel.Dwvw
namespace Sf.Dwvw.Proofs
open Sf Sf.Dwvw

/-! ### bit lists -/

theorem bitsMSB_length (n v : Nat) : (bitsMSB n v).length = n := by
  induction n with
  | zero => rfl
  | succ n ih => simp [bitsMSB, ih]

theorem ofBitsAcc_append (a : Nat) (l m : List Bool) : ofBitsAcc a (l ++ m) = ofBitsAcc (ofBitsAcc a l) m := by
  induction l generalizing a with
  | nil => rfl
  | cons b l ih => simp [ofBitsAcc, ih]

theorem ofBitsAcc_eq (a : Nat) (l : List Bool) : ofBitsAcc a l = a * 2 ^ l.length + ofBits l := by
  induction l generalizing a with
  | nil => simp [ofBitsAcc, ofBits]
  | cons b l ih =>
    unfold ofBits
    simp only [ofBitsAcc, List.length_cons]
    rw [ih, ih (2 * 0 + _)]
    ring

theorem ofBits_lt (l : List Bool) : ofBits l < 2 ^ l.length := by
  induction l with
  | nil => simp [ofBits, ofBitsAcc]
  | cons b l ih =>
    unfold ofBits
    simp only [ofBitsAcc, List.length_cons]
    rw [ofBitsAcc_eq]
    have : (2 * 0 + if b = true then 1 else 0) ≤ 1 := by split <;> omega
    have h2 : 2 ^ (l.length + 1) = 2 * 2 ^ l.length := by ring
    nlinarith

theorem ofBits_bitsMSB (n v : Nat) : ofBits (bitsMSB n v) = v % 2 ^ n := by
  induction n with
  | zero => simp [bitsMSB, ofBits, ofBitsAcc, Nat.mod_one]
  | succ n ih =>
    unfold ofBits
    simp only [bitsMSB, ofBitsAcc]
    rw [ofBitsAcc_eq, ih, bitsMSB_length]
    have h1 : v % 2 ^ (n + 1) = 2 ^ n * (v / 2 ^ n % 2) + v % 2 ^ n := by
      rw [pow_succ, Nat.mod_mul]
      ring
    rw [h1]
    rcases Nat.mod_two_eq_zero_or_one (v / 2 ^ n) with h | h <;> simp [h]

/-! ### HIGHEST_BIT -/

theorem hbF_zero (f : Nat) : hbF f 0 = 0 := by cases f <;> simp [hbF]

theorem hbF_bounds (f y : Nat) (hy : y < 2 ^ f) (h0 : y ≠ 0) :
    1 ≤ hbF f y ∧ 2 ^ (hbF f y - 1) ≤ y ∧ y < 2 ^ hbF f y := by
  induction f generalizing y with
  | zero => simp at hy; omega
  | succ f ih =>
    simp only [hbF, if_neg h0]
    by_cases h2 : y / 2 = 0
    · have : y = 1 := by omega
      subst this
      simp [hbF_zero]
    · have hlt : y / 2 < 2 ^ f := by
        rw [pow_succ] at hy; omega
      obtain ⟨a, b, c⟩ := ih (y / 2) hlt h2
      refine ⟨by omega, ?_, ?_⟩
      · have : hbF f (y / 2) + 1 - 1 = (hbF f (y / 2) - 1) + 1 := by omega
        rw [this, pow_succ]; omega
      · rw [pow_succ]; omega

theorem highestBit_zero : highestBit 0 = 0 := rfl

theorem highestBit_bounds (y : Nat) (hy : y < 2 ^ 32) (h0 : y ≠ 0) :
    1 ≤ highestBit y ∧ 2 ^ (highestBit y - 1) ≤ y ∧ y < 2 ^ highestBit y := hbF_bounds 32 y hy h0

/-- the width of a number below `2^k` is at most `k` -/
theorem highestBit_le (y k : Nat) (hy : y < 2 ^ 32) (hk : y < 2 ^ k) : highestBit y ≤ k := by
  by_cases h0 : y = 0
  · subst h0; simp [highestBit_zero]
  · obtain ⟨a, b, _⟩ := highestBit_bounds y hy h0
    by_contra hc
    have : k ≤ highestBit y - 1 := by omega
    have := Nat.pow_le_pow_right (n := 2) (by omega) this
    omega

/-! ### the zero-run scanner -/

theorem scan_zeros_one (K k : Nat) (hk : k < K) (rest : List Bool) :
    scan K (zerosB k ++ true :: rest) = (k, rest) := by
  induction k generalizing K with
  | zero => cases K with
    | zero => omega
    | succ K => simp [zerosB, scan]
  | succ k ih => cases K with
    | zero => omega
    | succ K =>
      have := ih K (by omega)
      simp only [zerosB] at this
      simp [zerosB, List.replicate_succ, scan, this]

theorem scan_zeros_max (K : Nat) (rest : List Bool) : scan K (zerosB K ++ rest) = (K, rest) := by
  induction K with
  | zero => simp [zerosB, scan]
  | succ K ih =>
    simp only [zerosB] at ih
    simp [zerosB, List.replicate_succ, scan, ih]

/-! ### the byte packer -/

/-- the bits of a byte list, in file order -/
def bytesBits (bs : List Byte) : List Bool := bs.flatMap (bitsMSB 8)

theorem bytesBits_append (a b : List Byte) : bytesBits (a ++ b) = bytesBits a ++ bytesBits b := by
  simp [bytesBits]

theorem bytesBits_length (a : List Byte) : (bytesBits a).length = 8 * a.length := by
  induction a with
  | nil => rfl
  | cons x a ih => simp [bytesBits, bitsMSB_length] at ih ⊢; omega

theorem bitsMSB_congr (n v w : Nat) (h : v % 2 ^ n = w % 2 ^ n) : bitsMSB n v = bitsMSB n w := by
  induction n generalizing v w with
  | zero => rfl
  | succ n ihn =>
    simp only [bitsMSB]
    have h1 : v % 2 ^ n = w % 2 ^ n := by
      have := congrArg (· % 2 ^ n) h
      simp only [pow_succ] at this
      rwa [Nat.mod_mul_right_mod, Nat.mod_mul_right_mod] at this
    have h2 : v / 2 ^ n % 2 = w / 2 ^ n % 2 := by
      have a := Nat.mod_mul (x := v) (a := 2 ^ n) (b := 2)
      have b := Nat.mod_mul (x := w) (a := 2 ^ n) (b := 2)
      rw [pow_succ] at h
      rw [a, b, h1] at h
      have hp : 0 < 2 ^ n := by positivity
      exact Nat.eq_of_mul_eq_mul_left hp (by omega)
    rw [h2, ihn v w h1]

theorem ofBits_cons (b : Bool) (l : List Bool) : ofBits (b :: l) = (if b then 1 else 0) * 2 ^ l.length + ofBits l := by
  show ofBitsAcc 0 (b :: l) = _
  simp only [ofBitsAcc]; rw [ofBitsAcc_eq]; simp

theorem bitsMSB_ofBits (l : List Bool) : bitsMSB l.length (ofBits l) = l := by
  induction l with
  | nil => rfl
  | cons b l ih =>
    have hl := ofBits_lt l
    have e := ofBits_cons b l
    simp only [List.length_cons, bitsMSB]
    congr 1
    · rw [e]
      cases b
      · simp; rw [Nat.div_eq_of_lt hl]
      · simp
        rw [Nat.div_eq_of_lt hl]
    · conv_rhs => rw [← ih]
      apply bitsMSB_congr
      rw [e]
      cases b <;> simp

/-- invariant of `drain`: emitted bytes (in order) followed by the pending bits are the bits put in -/
theorem drain_spec (f : Nat) (l : List Bool) (acc : List Byte) (hf : l.length / 8 < f) :
    bytesBits (drain f l acc).2.reverse ++ (drain f l acc).1 = bytesBits acc.reverse ++ l ∧ (drain f l acc).1.length < 8 := by
  induction f generalizing l acc with
  | zero => omega
  | succ f ih =>
    simp only [drain]
    split
    · exact ⟨rfl, by assumption⟩
    · rename_i h
      have hl : (l.drop 8).length / 8 < f := by simp; omega
      obtain ⟨a, b⟩ := ih (l.drop 8) (ofBits (l.take 8) :: acc) hl
      refine ⟨?_, b⟩
      rw [a]
      simp only [List.reverse_cons, bytesBits_append, List.append_assoc]
      congr 1
      have h8 : (l.take 8).length = 8 := by simp; omega
      have := bitsMSB_ofBits (l.take 8)
      rw [h8] at this
      simp [bytesBits, this]

end Sf.Dwvw.Proofs
