/-
  SfProofs.CafDataEnd — the 'data' chunk of size −1 ("to the end of the file") in the CAF reader (Sf.Caf.walk / negSize / dataCase),
  for EVERY file: the step of the chunk walk that meets such a chunk, and what the 'data' case then reports.
-/
import SfModel.Caf
namespace Sf.Caf
open Sf Sf.HdrRd

theorem sext_minus_one : sext 64 (ofBE (beBytes 8 (2 ^ 64 - 1))) = -1 := by decide

theorem data_ne_zero : (mk "data" == [0, 0, 0, 0]) = false := by decide

/-- one step of the chunk walk at a chunk header `'data' −1`: the ordinary 'data' case, entered with the number of bytes between the
    chunk body and the end of the file -/
theorem walk_data_minus_one (bs : List Byte) (ch fuel : Nat) (r r1 : Rd) (s : Scan)
    (h : rdSeq bs [4, 8] r = ([mk "data", beBytes 8 (2 ^ 64 - 1)], r1)) :
    walk bs ch (fuel + 1) r s = dataCase bs ((bs.length : Int) - (r1.indx : Int)) r1 s := by
  rw [walk, h]
  simp only [data_ne_zero, Bool.false_eq_true, if_false, sext_minus_one, negSize]
  simp

/-- the same step under the rule before the repair: the walk ends there, no 'data' chunk found -/
theorem walkOld_data_minus_one (bs : List Byte) (ch fuel : Nat) (r r1 : Rd) (s : Scan)
    (h : rdSeq bs [4, 8] r = ([mk "data", beBytes 8 (2 ^ 64 - 1)], r1)) :
    walkOld bs ch (fuel + 1) r s = .done s := by
  rw [walkOld, h]
  simp only [data_ne_zero, Bool.false_eq_true, if_false, sext_minus_one, negSize]
  simp

/-- the 'data' case entered with "to the end of the file" at offset `p` (the chunk body: edit count, then audio): the audio starts
    behind the edit count and is everything the file has; `dataend` stays unset.  Guard: the audio is at most 2^31 − 1 bytes (as in
    `caf_reopen_info`). -/
theorem dataCase_to_end (bs : List Byte) (p : Nat) (s : Scan) (hp : p + 4 ≤ bs.length) (hsz : bs.length - (p + 4) ≤ 0x7FFFFFFF) :
    dataCase bs ((bs.length : Int) - (p : Int)) ⟨p, p, false⟩ s =
      .done { haveData := true, dataoffset := p + 4, datalength := ((bs.length - (p + 4) : Nat) : Int), dataend := s.dataend } := by
  have h1 : rdBE bs ⟨p, p, false⟩ 4 = (ofBE ((bs.drop p).take 4), ⟨p + 4, p + 4, false⟩) := by
    unfold rdBE rdN
    have a : ¬ (p + 4 ≤ p) := by omega
    simp [a, hp]
  unfold dataCase
  simp only [h1]
  have a1 : ¬ ((bs.length : Int) > 0 ∧ (bs.length : Int) - (p : Int) > (bs.length : Int) - ((p + 4 : Nat) : Int) + 10) := by omega
  have a2 : (bs.length : Int) - (p : Int) - 4 = ((bs.length - (p + 4) : Nat) : Int) := by omega
  simp only [a1, if_false, a2]
  have a3 : ¬ (((bs.length - (p + 4) : Nat) : Int) + ((p + 4 : Nat) : Int) < (bs.length : Int)) := by omega
  have a4 : ¬ (((bs.length - (p + 4) : Nat) : Int) < -0x80000000 ∨ ((bs.length - (p + 4) : Nat) : Int) > 0x7FFFFFFF) := by omega
  simp only [a3, a4, if_false]
  have hsk : skip bs ⟨p + 4, p + 4, false⟩ ((bs.length - (p + 4) : Nat) : Int) = ⟨bs.length, bs.length, false⟩ := by
    unfold skip
    have b1 : ¬ (((bs.length - (p + 4) : Nat) : Int) < 0) := by omega
    simp only [b1, if_false, Int.toNat_natCast]
    by_cases hz : bs.length - (p + 4) = 0
    · have : bs.length = p + 4 := by omega
      simp [this]
    · have b2 : ¬ (p + 4 + (bs.length - (p + 4)) ≤ p + 4) := by omega
      simp only [b2, if_false, Bool.false_eq_true]
      have b3 : min (p + 4 + (bs.length - (p + 4)) - (p + 4)) (bs.length - (p + 4)) = bs.length - (p + 4) := by omega
      rw [b3]
      have b4 : p + 4 + (bs.length - (p + 4)) = bs.length := by omega
      simp [b4]
  rw [hsk]
  have a5 : ((ftell bs ⟨bs.length, bs.length, false⟩ : Nat) : Int) ≥ (bs.length : Int) - 8 := by
    simp [ftell]; omega
  simp only [a5, if_true, Int.toNat_natCast]

end Sf.Caf
