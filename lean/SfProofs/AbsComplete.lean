/-
  SfProofs.AbsComplete — the converse of AbsMeaning: an answer that satisfies the mathematical contract IS accepted.
  Together with the contract theorems of the concrete handle model (SfProps/C05.lean `read_contract_rmode`, C06.lean
  `seek_result`, …) this is "the predicate never raises an alarm where the property holds": whatever delivers `d = min m
  (frames − rpos)` frames equal to the reference slice, a zero-filled region at the end, −1 + error for a refused seek and
  the requested frame for an accepted one, is judged `ok`, and the abstract state follows.
-/
import SfProofs.AbsMeaning
namespace Sf.Abs

theorem retItems_frames (g : Geom) (d : Nat) : retItems g true (d : Int) = d * g.ch := by simp [retItems]
theorem retItems_items (g : Geom) (d : Nat) : retItems g false ((d * g.ch : Nat) : Int) = d * g.ch := by
  unfold retItems; rw [if_neg (by decide)]; exact Int.toNat_natCast _

/-- a valid read of `m` frames on a read-only handle answered as the contract says is accepted -/
theorem readOk_complete (g : Geom) (st : St) (ty : Ty) (fc : Bool) (n : Int) (o : Out) (m d : Nat)
    (hch : 0 < g.ch) (htail : g.tailClean = false) (hm : st.mode = .r) (hle : st.rpos ≤ st.frames)
    (hn : n = if fc then (m : Int) else ((m * g.ch : Nat) : Int)) (hm0 : 0 < m)
    (hd : d = min m (st.frames - st.rpos))
    (hret : o.ret = if fc then (d : Int) else ((d * g.ch : Nat) : Int))
    (herr : o.err = false) (hsize : o.data.size = m * g.ch * cells ty)
    (hdata : 0 < d → st.valid ty = true → (st.ref ty).size = st.frames * g.cpf ty ∧
      o.data.extract 0 (d * g.ch * cells ty) =
        (st.ref ty).extract (st.rpos * g.cpf ty) (st.rpos * g.cpf ty + d * g.ch * cells ty))
    (hzero : st.rpos = st.frames → allOf o.data 0 0 0 (m * g.ch * cells ty) = true) :
    readOk g st ty fc n o = .ok { st with rpos := st.rpos + d, err := false } := by
  have hvalid : validReq g fc n = true := by
    unfold validReq
    cases fc with
    | true => simp only [if_true] at hn; subst hn; simp; omega
    | false =>
      simp only [Bool.false_eq_true, if_false] at hn; subst hn
      have : 0 < m * g.ch := Nat.mul_pos hm0 hch
      simp; omega
  have hn0 : ¬ n = 0 := by have := validReq_pos hvalid; omega
  have hreq : reqItems g fc n = m * g.ch := by
    unfold reqItems; cases fc with
    | true => simp only [if_true] at hn ⊢; subst hn; simp
    | false => simp only [Bool.false_eq_true, if_false] at hn ⊢; subst hn; exact Int.toNat_natCast _
  have hitems : retItems g fc o.ret = d * g.ch := by
    cases fc with
    | true => simp only [if_true] at hret; rw [hret]; exact retItems_frames g d
    | false => simp only [Bool.false_eq_true, if_false] at hret; rw [hret]; exact retItems_items g d
  have hk : d * g.ch / g.ch = d := Nat.mul_div_cancel _ hch
  have hmw : ¬ st.mode = .w := by rw [hm]; decide
  have hdm : d ≤ m := by rw [hd]; exact Nat.min_le_left _ _
  have hdf : d ≤ st.frames - st.rpos := by rw [hd]; exact Nat.min_le_right _ _
  have hr1 : ¬ (o.ret < 0 ∨ n < o.ret) := by
    cases fc with
    | true => simp only [if_true] at hret hn; rw [hret, hn]; omega
    | false =>
      simp only [Bool.false_eq_true, if_false] at hret hn; rw [hret, hn]
      have : d * g.ch ≤ m * g.ch := Nat.mul_le_mul_right _ hdm
      omega
  unfold readOk
  simp only [hn0, if_false, hvalid, hmw, Bool.not_true, Bool.false_or, decide_false, Bool.false_eq_true, hr1, hitems, hreq,
    Nat.mul_mod_left, ne_eq, not_true_eq_false, hsize, hk, htail, Bool.false_and]
  by_cases hend : st.frames ≤ st.rpos
  · have hd0 : d = 0 := by omega
    have hz := hzero (by omega)
    have hr0 : o.ret = 0 := by rw [hret, hd0]; cases fc <;> simp
    simp [hend, hr0, herr, hz, hd0]
  · have hlt : ¬ st.frames < st.rpos + d := by omega
    have hdpos : 0 < d := by omega
    have hshort : ¬ (o.ret < n ∧ ¬ st.rpos + d = st.frames) := by
      intro ⟨hlt', hne⟩
      have : d < m := by
        cases fc with
        | true => simp only [if_true] at hret hn; rw [hret, hn] at hlt'; omega
        | false =>
          simp only [Bool.false_eq_true, if_false] at hret hn; rw [hret, hn] at hlt'
          have h2 : d * g.ch < m * g.ch := by omega
          exact Nat.lt_of_mul_lt_mul_right h2
      omega
    have hslice : (st.valid ty && !sliceEq o.data 0 (st.ref ty) (st.rpos * g.cpf ty) (d * g.ch * cells ty)) = false := by
      cases hv : st.valid ty
      · simp
      · obtain ⟨hsz, hx⟩ := hdata hdpos hv
        have hcpf : d * g.ch * cells ty = d * g.cpf ty := by unfold Geom.cpf; rw [Nat.mul_assoc]
        have hb : st.rpos * g.cpf ty + d * g.ch * cells ty ≤ (st.ref ty).size := by
          rw [hsz, hcpf, ← Nat.add_mul]; exact Nat.mul_le_mul_right _ (by omega)
        have ha : 0 + d * g.ch * cells ty ≤ o.data.size := by
          rw [hsize, Nat.zero_add]; exact Nat.mul_le_mul_right _ (Nat.mul_le_mul_right _ hdm)
        have := sliceEq_of_extract o.data (st.ref ty) 0 (st.rpos * g.cpf ty) (d * g.ch * cells ty) ha hb (by rw [Nat.zero_add]; exact hx)
        simp [this]
    simp [hend, hlt, hslice, hshort, herr]

/-- an invalid read request answered with 0 and an error is accepted; only the error flag changes -/
theorem readOk_complete_invalid (g : Geom) (st : St) (ty : Ty) (fc : Bool) (n : Int) (o : Out)
    (hn : n ≠ 0) (hinv : validReq g fc n = false ∨ st.mode = .w) (hret : o.ret = 0) (herr : o.err = true) :
    readOk g st ty fc n o = .ok { st with err := true } := by
  unfold readOk
  have hc : (!validReq g fc n || decide (st.mode = .w)) = true := by
    rcases hinv with h | h <;> simp [h]
  simp [hn, hc, hret, herr]

/-- a refused seek (−1, error set) is accepted whenever the contract allows a refusal: the request is not one `sf_seek`
    may accept, or the handle is not seekable, or — outside the strict geometry — any request but a position query -/
theorem seekOk_complete_refused (g : Geom) (st : St) (off whence : Int) (o : Out)
    (hret : o.ret = -1) (herr : o.err = true)
    (hallow : g.seekable = false ∨ seekTarget st off whence = none ∨
      (¬ (off = 0 ∧ whence % 0x10 = 1) ∧ g.strictSeek = false)) :
    seekOk g st off whence o = .ok { st with err := true } := by
  unfold seekOk
  simp only [hret, if_true, herr, Bool.not_true, Bool.false_eq_true, if_false]
  rcases hallow with h | h | ⟨h1, h2⟩
  · simp [h]
  · cases hs : g.seekable <;> simp [h]
  · cases hs : g.seekable
    · simp
    · simp only [if_true]
      cases ht : seekTarget st off whence with
      | none => rfl
      | some t => simp [h1, h2]

/-- an accepted seek that reports the requested frame with no error is accepted, and the named pointer(s) move there -/
theorem seekOk_complete_moved (g : Geom) (st : St) (off whence : Int) (o : Out) (t : Nat)
    (hs : g.seekable = true) (ht : seekTarget st off whence = some t) (hret : o.ret = (t : Int)) (herr : o.err = false) :
    seekOk g st off whence o = .ok (seekMove st whence t) := by
  unfold seekOk
  have h1 : ¬ o.ret = -1 := by omega
  simp [hs, ht, hret, herr]

end Sf.Abs
