/-
  Helper lemmas for the IRCAM container theorems (SfProps/C04Ircam.lean): length of the header, the reader on
  `hdr c ++ body` for both byte orders, the byte-order guess on big-endian channel counts.
-/
import SfModel.Ircam
import SfProofs.SmallSession
namespace Sf.Ircam
open Sf Sf.Small Sf.Float

theorem f32WriteBytes_length (b : Nat) : (Ieee.f32WriteBytes b).length = 4 := by
  unfold Ieee.f32WriteBytes Ieee.f32FieldBytes; rfl

theorem f32BeWrite_length (b : Nat) : (Ieee.f32BeWrite b).length = 4 := f32WriteBytes_length b
theorem f32LeWrite_length (b : Nat) : (Ieee.f32LeWrite b).length = 4 := by
  unfold Ieee.f32LeWrite; rw [List.length_reverse]; exact f32WriteBytes_length b

/-- the little-endian writer / reader pair computes what the big-endian pair computes -/
theorem le_read_write (b : Nat) : Ieee.f32LeRead (Ieee.f32LeWrite b) = Ieee.f32BeRead (Ieee.f32BeWrite b) := by
  unfold Ieee.f32LeWrite Ieee.f32BeWrite Ieee.f32WriteBytes Ieee.f32FieldBytes
  rfl

theorem hdr_length (c : Cfg) : (hdr c).length = hdrLen := by
  unfold hdr hdrLen
  split <;> simp only [List.length_append, List.length_cons, List.length_nil, List.length_replicate, be32_length, le32_length, f32BeWrite_length, f32LeWrite_length]

theorem spec_lenOk (c : Cfg) : (spec c).LenOk := fun _ _ _ => hdr_length c

theorem cfg_cases (c : Cfg) (h : c.wf) :
    (c.codec = 0x02 ∨ c.codec = 0x04 ∨ c.codec = 0x06 ∨ c.codec = 0x10 ∨ c.codec = 0x11) ∧ 1 ≤ c.ch ∧ c.ch ≤ 256 := by
  obtain ⟨ha, h1, _, _⟩ := h
  unfold accepted at ha
  simp only [Bool.decide_and, Bool.decide_or, Bool.and_eq_true, Bool.or_eq_true, decide_eq_true_eq] at ha
  exact ⟨ha.1, h1, ha.2.2⟩

theorem decode_encoding (c : Cfg) (h : c.wf) : decodeEnc (encodingOf c.codec) = some (c.codec, c.bytewidth) := by
  obtain ⟨hc, _, _⟩ := cfg_cases c h
  unfold Cfg.bytewidth
  rcases hc with h | h | h | h | h <;> rw [h] <;> decide

theorem encoding_lt (codec : Nat) : encodingOf codec < 2 ^ 32 := by
  unfold encodingOf; split <;> (try split) <;> (try split) <;> (try split) <;> (try split) <;> decide

/-- byte-swapped encodings are not encodings -/
theorem decode_swapped (c : Cfg) (h : c.wf) : decodeEnc (ofLE (be32 (encodingOf c.codec))) = none := by
  obtain ⟨hc, _, _⟩ := cfg_cases c h
  rcases hc with h | h | h | h | h <;> rw [h] <;> decide

theorem ofLE_be32_nat (v : Nat) (hv : v < 2 ^ 32) :
    ofLE (be32 (v : Int)) = (v % 256) * 2 ^ 24 + (v / 256 % 256) * 2 ^ 16 + (v / 65536 % 256) * 256 + v / 16777216 % 256 := by
  unfold be32; rw [wrapU_nat 32 v hv]
  simp only [beBytes, leBytes, List.reverse_cons, List.reverse_nil, List.nil_append, List.cons_append, ofLE, Nat.div_div_eq_div_mul, Nat.reduceMul]
  omega

theorem ofBE_be32_nat (v : Nat) (hv : v < 2 ^ 32) : ofBE (be32 (v : Int)) = v := by rw [ofBE_be32, wrapU_nat 32 v hv]
theorem ofLE_le32_nat (v : Nat) (hv : v < 2 ^ 32) : ofLE (le32 (v : Int)) = v := by rw [ofLE_le32, wrapU_nat 32 v hv]

theorem finish_ok (c : Cfg) (hwf : c.wf) (B : Nat) (big : Bool) (hbig : big = c.big) :
    finish (1024 + B) big (c.ch : Int) (rateBack c.sr) c.codec c.bytewidth =
      if rateBack c.sr < 1 then .err
      else .ok { ch := c.ch, fmt := c.fmtWord, sr := (rateBack c.sr).toNat, frames := B / c.bw } := by
  obtain ⟨_, h1, h256⟩ := cfg_cases c hwf
  unfold finish
  rw [if_neg (by omega)]
  have e : ((c.bytewidth : Int) * (c.ch : Int)) = ((c.bw : Nat) : Int) := by unfold Cfg.bw; push_cast; rfl
  have hcf : codecFrames (1024 + B) 1024 0 ((c.bw : Nat) : Int) = ((B : Int), ((B / c.bw : Nat) : Int)) := codecFrames_body 1024 B c.bw
  rw [e]
  simp only [hcf]
  have hnn := Int.natCast_nonneg (B / c.bw)
  by_cases hr : rateBack c.sr < 1
  · rw [if_pos (Or.inl hr), if_pos hr]
  · rw [if_neg (by omega), if_neg hr]
    simp only [Int.toNat_natCast, Cfg.fmtWord, hbig]

/-- the reader on a little-endian header this writer produced -/
theorem parseWith_hdr_le (fx : Bool) (c : Cfg) (hwf : c.wf) (hb : c.big = false) (body : List Byte) :
    parseWith fx (hdr c ++ body) =
      if rateBack c.sr < 1 then .err
      else .ok { ch := c.ch, fmt := c.fmtWord, sr := (rateBack c.sr).toNat, frames := body.length / c.bw } := by
  obtain ⟨_, h1, h256⟩ := cfg_cases c hwf
  have hlen : (hdr c ++ body).length = 1024 + body.length := by rw [List.length_append, hdr_length]; rfl
  have e : hdr c ++ body = [0x64, 0xA3, 0x03, 0x00] ++ (Ieee.f32LeWrite (rateBits c.sr) ++ (le32 c.ch ++ (le32 (encodingOf c.codec) ++ (List.replicate 1008 0 ++ body)))) := by
    unfold hdr; rw [hb]; simp only [Bool.false_eq_true, if_false, List.append_assoc]
  have s4 : slice (hdr c ++ body) 4 4 = Ieee.f32LeWrite (rateBits c.sr) := by
    rw [e]; exact slice_field _ _ _ 4 4 rfl (f32LeWrite_length _).symm
  have s8 : slice (hdr c ++ body) 8 4 = le32 c.ch := by
    have e2 : hdr c ++ body = ([0x64, 0xA3, 0x03, 0x00] ++ Ieee.f32LeWrite (rateBits c.sr)) ++ (le32 c.ch ++ (le32 (encodingOf c.codec) ++ (List.replicate 1008 0 ++ body))) := by
      rw [e]; simp only [List.append_assoc]
    rw [e2]; exact slice_field _ _ _ 8 4 (by simp [f32LeWrite_length]) (le32_length _).symm
  have s12 : slice (hdr c ++ body) 12 4 = le32 (encodingOf c.codec) := by
    have e2 : hdr c ++ body = ([0x64, 0xA3, 0x03, 0x00] ++ Ieee.f32LeWrite (rateBits c.sr) ++ le32 c.ch) ++ (le32 (encodingOf c.codec) ++ (List.replicate 1008 0 ++ body)) := by
      rw [e]; simp only [List.append_assoc]
    rw [e2]; exact slice_field _ _ _ 12 4 (by simp [f32LeWrite_length, le32_length]) (le32_length _).symm
  have g0 : (hdr c ++ body).getD 0 0 = 0x64 ∧ (hdr c ++ body).getD 1 0 = 0xA3 ∧ (hdr c ++ body).getD 2 0 = 0x03 ∧ (hdr c ++ body).getD 3 0 = 0 := by
    rw [e]; exact ⟨rfl, rfl, rfl, rfl⟩
  have hch : sext 32 (ofLE (le32 (c.ch : Int))) = (c.ch : Int) := by
    rw [ofLE_le32_nat c.ch (by omega)]; unfold sext; rw [if_pos (by simp; omega)]
  unfold parseWith
  rw [if_neg (by omega)]
  simp only [g0.1, g0.2.1, g0.2.2.1, g0.2.2.2, s4, s8, s12, hch]
  have hnb : (decide ((c.ch : Int) > 1024) || (fx && decide ((c.ch : Int) < 1))) = false := by
    have h1 : decide ((c.ch : Int) > 1024) = false := by simp; omega
    have h2 : decide ((c.ch : Int) < 1) = false := by simp; omega
    rw [h1, h2]; simp
  simp only [hnb, Bool.false_eq_true, false_and, if_false]
  rw [if_neg (by decide), ofLE_le32_nat _ (encoding_lt _), decode_encoding c hwf, le_read_write]
  have := finish_ok c hwf body.length false hb.symm
  rw [hlen]; exact this

/-- channel counts whose big-endian field, read little-endian, is not a negative int -/
theorem be_channels_detected (ch : Nat) (h1 : 1 ≤ ch) (h256 : ch ≤ 256) (hk : ¬ (128 ≤ ch ∧ ch ≤ 255)) :
    sext 32 (ofLE (be32 (ch : Int))) > 1024 := by
  rw [ofLE_be32_nat ch (by omega)]
  unfold sext
  have : ch / 65536 % 256 = 0 := by omega
  have : ch / 16777216 % 256 = 0 := by omega
  by_cases h : ch = 256
  · subst h; decide
  · have hlt : ch < 128 := by omega
    have e1 : ch % 256 = ch := by omega
    have e2 : ch / 256 % 256 = 0 := by omega
    rw [if_pos (by simp; omega)]
    simp; omega

/-- … and the counts 128..255, which come out negative -/
theorem be_channels_missed (ch : Nat) (hk : 128 ≤ ch ∧ ch ≤ 255) :
    sext 32 (ofLE (be32 (ch : Int))) < 1 := by
  rw [ofLE_be32_nat ch (by omega)]
  unfold sext
  rw [if_neg (by simp; omega)]
  simp; omega

/-- the reader on a big-endian header this writer produced, outside the 128..255 channel class -/
theorem parseWith_hdr_be (fx : Bool) (c : Cfg) (hwf : c.wf) (hb : c.big = true) (hk : fx = false → ¬ (128 ≤ c.ch ∧ c.ch ≤ 255)) (body : List Byte) :
    parseWith fx (hdr c ++ body) =
      if rateBack c.sr < 1 then .err
      else .ok { ch := c.ch, fmt := c.fmtWord, sr := (rateBack c.sr).toNat, frames := body.length / c.bw } := by
  obtain ⟨_, h1, h256⟩ := cfg_cases c hwf
  have hlen : (hdr c ++ body).length = 1024 + body.length := by rw [List.length_append, hdr_length]; rfl
  have e : hdr c ++ body = [0x64, 0xA3, 0x02, 0x00] ++ (Ieee.f32BeWrite (rateBits c.sr) ++ (be32 c.ch ++ (be32 (encodingOf c.codec) ++ (List.replicate 1008 0 ++ body)))) := by
    unfold hdr; rw [hb]; simp only [if_true, List.append_assoc]
  have s4 : slice (hdr c ++ body) 4 4 = Ieee.f32BeWrite (rateBits c.sr) := by
    rw [e]; exact slice_field _ _ _ 4 4 rfl (f32BeWrite_length _).symm
  have s8 : slice (hdr c ++ body) 8 4 = be32 c.ch := by
    have e2 : hdr c ++ body = ([0x64, 0xA3, 0x02, 0x00] ++ Ieee.f32BeWrite (rateBits c.sr)) ++ (be32 c.ch ++ (be32 (encodingOf c.codec) ++ (List.replicate 1008 0 ++ body))) := by
      rw [e]; simp only [List.append_assoc]
    rw [e2]; exact slice_field _ _ _ 8 4 (by simp [f32BeWrite_length]) (be32_length _).symm
  have s12 : slice (hdr c ++ body) 12 4 = be32 (encodingOf c.codec) := by
    have e2 : hdr c ++ body = ([0x64, 0xA3, 0x02, 0x00] ++ Ieee.f32BeWrite (rateBits c.sr) ++ be32 c.ch) ++ (be32 (encodingOf c.codec) ++ (List.replicate 1008 0 ++ body)) := by
      rw [e]; simp only [List.append_assoc]
    rw [e2]; exact slice_field _ _ _ 12 4 (by simp [f32BeWrite_length, be32_length]) (be32_length _).symm
  have g0 : (hdr c ++ body).getD 0 0 = 0x64 ∧ (hdr c ++ body).getD 1 0 = 0xA3 ∧ (hdr c ++ body).getD 2 0 = 0x02 ∧ (hdr c ++ body).getD 3 0 = 0 := by
    rw [e]; exact ⟨rfl, rfl, rfl, rfl⟩
  have hch : sext 32 (ofBE (be32 (c.ch : Int))) = (c.ch : Int) := by
    rw [ofBE_be32_nat c.ch (by omega)]; unfold sext; rw [if_pos (by simp; omega)]
  unfold parseWith
  rw [if_neg (by omega)]
  simp only [g0.1, g0.2.1, g0.2.2.1, g0.2.2.2, s4, s8, s12]
  have hnb : (decide (sext 32 (ofLE (be32 (c.ch : Int))) > 1024) || (fx && decide (sext 32 (ofLE (be32 (c.ch : Int))) < 1))) = true := by
    by_cases hcl : 128 ≤ c.ch ∧ c.ch ≤ 255
    · have hfx : fx = true := by cases fx with | true => rfl | false => exact absurd hcl (hk rfl)
      have := be_channels_missed c.ch hcl
      rw [hfx]; simp; right; exact this
    · have := be_channels_detected c.ch h1 h256 hcl
      simp; left; exact this
  simp only [hnb, if_true, hch, true_and]
  rw [if_neg (by decide), if_neg (by omega), ofBE_be32_nat _ (encoding_lt _), decode_encoding c hwf]
  have := finish_ok c hwf body.length true hb.symm
  rw [hlen]; exact this

/-- the reader on a big-endian header with 128..255 channels: taken for little-endian, unknown encoding -/
theorem parseOld_hdr_be_missed (c : Cfg) (hwf : c.wf) (hb : c.big = true) (hk : 128 ≤ c.ch ∧ c.ch ≤ 255) (body : List Byte) :
    parseOld (hdr c ++ body) = .err := by
  have hlen : (hdr c ++ body).length = 1024 + body.length := by rw [List.length_append, hdr_length]; rfl
  have e : hdr c ++ body = [0x64, 0xA3, 0x02, 0x00] ++ (Ieee.f32BeWrite (rateBits c.sr) ++ (be32 c.ch ++ (be32 (encodingOf c.codec) ++ (List.replicate 1008 0 ++ body)))) := by
    unfold hdr; rw [hb]; simp only [if_true, List.append_assoc]
  have s8 : slice (hdr c ++ body) 8 4 = be32 c.ch := by
    have e2 : hdr c ++ body = ([0x64, 0xA3, 0x02, 0x00] ++ Ieee.f32BeWrite (rateBits c.sr)) ++ (be32 c.ch ++ (be32 (encodingOf c.codec) ++ (List.replicate 1008 0 ++ body))) := by
      rw [e]; simp only [List.append_assoc]
    rw [e2]; exact slice_field _ _ _ 8 4 (by simp [f32BeWrite_length]) (be32_length _).symm
  have s12 : slice (hdr c ++ body) 12 4 = be32 (encodingOf c.codec) := by
    have e2 : hdr c ++ body = ([0x64, 0xA3, 0x02, 0x00] ++ Ieee.f32BeWrite (rateBits c.sr) ++ be32 c.ch) ++ (be32 (encodingOf c.codec) ++ (List.replicate 1008 0 ++ body)) := by
      rw [e]; simp only [List.append_assoc]
    rw [e2]; exact slice_field _ _ _ 12 4 (by simp [f32BeWrite_length, be32_length]) (be32_length _).symm
  have g0 : (hdr c ++ body).getD 0 0 = 0x64 ∧ (hdr c ++ body).getD 1 0 = 0xA3 ∧ (hdr c ++ body).getD 2 0 = 0x02 ∧ (hdr c ++ body).getD 3 0 = 0 := by
    rw [e]; exact ⟨rfl, rfl, rfl, rfl⟩
  have hmiss := be_channels_missed c.ch hk
  unfold parseOld parseWith
  rw [if_neg (by omega)]
  simp only [g0.1, g0.2.1, g0.2.2.1, g0.2.2.2, s8, s12]
  have hnb : (decide (sext 32 (ofLE (be32 (c.ch : Int))) > 1024) || (false && decide (sext 32 (ofLE (be32 (c.ch : Int))) < 1))) = false := by simp; omega
  simp only [hnb, Bool.false_eq_true, false_and, if_false]
  rw [if_neg (by decide), decode_swapped c hwf]

/-- the current reader on a header this writer produced: either byte order, every channel count -/
theorem parse_hdr (c : Cfg) (hwf : c.wf) (body : List Byte) :
    parse (hdr c ++ body) =
      if rateBack c.sr < 1 then .err
      else .ok { ch := c.ch, fmt := c.fmtWord, sr := (rateBack c.sr).toNat, frames := body.length / c.bw } := by
  by_cases hb : c.big = true
  · exact parseWith_hdr_be true c hwf hb (fun h => by cases h) body
  · exact parseWith_hdr_le true c hwf (by simpa using hb) body

/-- the reader of before the repair, outside the 128..255 channel class -/
theorem parseOld_hdr (c : Cfg) (hwf : c.wf) (hk : ¬ (c.big = true ∧ 128 ≤ c.ch ∧ c.ch ≤ 255)) (body : List Byte) :
    parseOld (hdr c ++ body) =
      if rateBack c.sr < 1 then .err
      else .ok { ch := c.ch, fmt := c.fmtWord, sr := (rateBack c.sr).toNat, frames := body.length / c.bw } := by
  by_cases hb : c.big = true
  · exact parseWith_hdr_be false c hwf hb (fun _ h => hk ⟨hb, h⟩) body
  · exact parseWith_hdr_le false c hwf (by simpa using hb) body

end Sf.Ircam
