/-
  State invariants of the G.72x predictor / quantizer-scale state and what they buy: every table index and every
  shift count the C evaluates is in range for every state reachable from `private_init_state` by any sequence of
  `update` calls (i.e. by encoding any samples or decoding any codes).  Helpers for SfProps/C05G72x.lean.
-/
import SfProofs.G72x
namespace Sf.G72x.Proofs
open Sf Sf.G72x

/-! ## shifts by literal counts -/
theorem shr1 (x : Int) : shr x 1 = x / 2 := by simp [shr]
theorem shr2 (x : Int) : shr x 2 = x / 4 := by simp [shr]
theorem shr3 (x : Int) : shr x 3 = x / 8 := by simp [shr]
theorem shr4 (x : Int) : shr x 4 = x / 16 := by simp [shr]
theorem shr5 (x : Int) : shr x 5 = x / 32 := by simp [shr]
theorem shr6 (x : Int) : shr x 6 = x / 64 := by simp [shr]
theorem shr7 (x : Int) : shr x 7 = x / 128 := by simp [shr]
theorem shr10 (x : Int) : shr x 10 = x / 1024 := by simp [shr]
theorem shr15 (x : Int) : shr x 15 = x / 32768 := by simp [shr]

/-- the invariant: LIMB keeps `yu` in [544, 5120]; FILTE then keeps `yl` in [544·64, 5120·64]; the speed control
    `ap` stays in [0, 512]; LIMC keeps the pole coefficient a[1] in [−12288, 12288] (±0.75) and LIMD keeps
    |a[0]| ≤ 15360 − a[1] (the stability triangle of the two-pole predictor); the coefficient / delay-line arrays keep
    their six entries -/
structure Inv (st : St) : Prop where
  yu : 544 ≤ st.yu ∧ st.yu ≤ 5120
  yl : 34816 ≤ st.yl ∧ st.yl ≤ 327680
  ap : 0 ≤ st.ap ∧ st.ap ≤ 512
  a  : -12288 ≤ st.a1 ∧ st.a1 ≤ 12288 ∧ -(15360 - st.a1) ≤ st.a0 ∧ st.a0 ≤ 15360 - st.a1     -- LIMC, LIMD
  b  : st.b.length = 6
  dq : st.dq.length = 6

theorem init_inv_st : Inv St.init := ⟨by decide, by decide, by decide, by decide, rfl, rfl⟩

theorem updYu_range (y wi : Int) : 544 ≤ updYu y wi ∧ updYu y wi ≤ 5120 := by
  unfold updYu
  simp only
  split
  · omega
  · split <;> omega

theorem updBs_length (cs : Nat) (dq : Int) : ∀ (b d : List Int), b.length = 6 → d.length = 6 → (updBs cs dq b d).length = 6 := by
  intro b d hb hd
  match b, d, hb, hd with
  | [_, _, _, _, _, _], [_, _, _, _, _, _], _, _ => simp [updBs]

theorem updAp_range (st : St) (h : 0 ≤ st.ap ∧ st.ap ≤ 512) (tr td : Bool) (y dms dml : Int) :
    0 ≤ updAp st tr td y dms dml ∧ updAp st tr td y dms dml ≤ 512 := by
  have up : s16 (st.ap + shr (0x200 - st.ap) 4) = st.ap + (512 - st.ap) / 16 := by
    rw [shr4]; exact s16_id _ (by omega) (by omega)
  have dn : s16 (st.ap + shr (-st.ap) 4) = st.ap + (-st.ap) / 16 := by
    rw [shr4]; exact s16_id _ (by omega) (by omega)
  unfold updAp
  split
  · omega
  · split
    · rw [up]; omega
    · split
      · rw [up]; omega
      · split
        · rw [up]; omega
        · rw [dn]; omega

/-- LIMC: the new a[1] stays within ±12288 -/
theorem updA2_range (st : St) (h : -12288 ≤ st.a1 ∧ st.a1 ≤ 12288) (pk0 : Bool) (dqsez : Int) :
    -12288 ≤ updA2 st pk0 dqsez ∧ updA2 st pk0 dqsez ≤ 12288 := by
  have e0 : s16 (st.a1 - shr st.a1 7) = st.a1 - st.a1 / 128 := by
    rw [shr7]; exact s16_id _ (by omega) (by omega)
  unfold updA2
  simp only
  split
  · generalize s16 (if s16 (if (pk0 != st.pk0) = true then st.a0 else -st.a0) < -8191 then s16 (st.a1 - shr st.a1 7) - 0x100
        else if s16 (if (pk0 != st.pk0) = true then st.a0 else -st.a0) > 8191 then s16 (st.a1 - shr st.a1 7) + 0xFF
        else s16 (st.a1 - shr st.a1 7) + shr (s16 (if (pk0 != st.pk0) = true then st.a0 else -st.a0)) 5) = a2p1
    split
    · split
      · omega
      · split
        · omega
        · rw [s16_id _ (by omega) (by omega)]; omega
    · split
      · omega
      · split
        · omega
        · rw [s16_id _ (by omega) (by omega)]; omega
  · rw [e0]; omega

theorem clamp_range (x u : Int) (hu : 0 ≤ u ∧ u ≤ 32767) :
    -u ≤ (if x < -u then s16 (-u) else if x > u then u else x) ∧ (if x < -u then s16 (-u) else if x > u then u else x) ≤ u := by
  split
  · rw [s16_id _ (by omega) (by omega)]; omega
  · split <;> omega

/-- LIMD: the new a[0] stays within ±(15360 − a2p) -/
theorem updA1_range (st : St) (pk0 : Bool) (dqsez a2p : Int) (h : -12288 ≤ a2p ∧ a2p ≤ 12288) :
    -(15360 - a2p) ≤ updA1 st pk0 dqsez a2p ∧ updA1 st pk0 dqsez a2p ≤ 15360 - a2p := by
  unfold updA1
  simp only
  rw [s16_id (15360 - a2p) (by omega) (by omega)]
  exact clamp_range _ _ (by omega)

/-- **`update` preserves the invariant**, whatever its arguments are -/
theorem update_inv (cs : Nat) (y wi fi dq sr dqsez : Int) (st : St) (h : Inv st) : Inv (update cs y wi fi dq sr dqsez st) := by
  have hyu := updYu_range y wi
  refine ⟨hyu, ?_, ?_, ?_, ?_, ?_⟩
  · show 34816 ≤ st.yl + (updYu y wi + shr (-st.yl) 6) ∧ st.yl + (updYu y wi + shr (-st.yl) 6) ≤ 327680
    rw [shr6]
    have := h.yl
    omega
  · exact updAp_range st h.ap _ _ _ _ _
  · show -12288 ≤ (if trans st dq then 0 else updA2 st (decide (dqsez < 0)) dqsez) ∧
        (if trans st dq then 0 else updA2 st (decide (dqsez < 0)) dqsez) ≤ 12288 ∧
        -(15360 - (if trans st dq then 0 else updA2 st (decide (dqsez < 0)) dqsez)) ≤
          (if trans st dq then 0 else updA1 st (decide (dqsez < 0)) dqsez (if trans st dq then 0 else updA2 st (decide (dqsez < 0)) dqsez)) ∧
        (if trans st dq then 0 else updA1 st (decide (dqsez < 0)) dqsez (if trans st dq then 0 else updA2 st (decide (dqsez < 0)) dqsez)) ≤
          15360 - (if trans st dq then 0 else updA2 st (decide (dqsez < 0)) dqsez)
    split
    · omega
    · have h2 := updA2_range st ⟨h.a.1, h.a.2.1⟩ (decide (dqsez < 0)) dqsez
      have h1 := updA1_range st (decide (dqsez < 0)) dqsez _ h2
      omega
  · show (if trans st dq then [0, 0, 0, 0, 0, 0] else updBs cs dq st.b st.dq).length = 6
    split
    · rfl
    · exact updBs_length cs dq _ _ h.b h.dq
  · show (floatA dq (s16 (dq % 32768)) :: st.dq.take 5).length = 6
    rw [List.length_cons, List.length_take, h.dq]; rfl

/-- MIX: the step size lies between `yl >> 6` and `yu`, hence in [544, 5120] -/
theorem stepSize_range (st : St) (h : Inv st) : 544 ≤ stepSize st ∧ stepSize st ≤ 5120 := by
  have hyu := h.yu
  have hyl := h.yl
  have hap := h.ap
  unfold stepSize
  split
  · exact hyu
  · rename_i hlt
    simp only [shr6, shr2]
    have hal : 0 ≤ st.ap / 4 ∧ st.ap / 4 ≤ 63 := by omega
    generalize st.ap / 4 = al at hal
    have hy0 : 544 ≤ st.yl / 64 ∧ st.yl / 64 ≤ 5120 := by omega
    generalize st.yl / 64 = y0 at hy0
    split
    · rename_i hpos
      have h1 : 0 ≤ (st.yu - y0) * al := Int.mul_nonneg (by omega) hal.1
      have h2 : (st.yu - y0) * al ≤ (st.yu - y0) * 63 := Int.mul_le_mul_of_nonneg_left hal.2 (by omega)
      generalize (st.yu - y0) * al = p at h1 h2
      omega
    · split
      · rename_i hneg
        have h1 : (st.yu - y0) * al ≤ 0 := Int.mul_nonpos_of_nonpos_of_nonneg (by omega) hal.1
        have h2 : (st.yu - y0) * 63 ≤ (st.yu - y0) * al := Int.mul_le_mul_of_nonpos_left (by omega) hal.2
        generalize (st.yu - y0) * al = p at h1 h2
        omega
      · omega

/-! ## shift counts that are in range for ANY arguments -/

/-- a shift count the C may use on an `int` -/
def okShift (k : Int) : Prop := 0 ≤ k ∧ k ≤ 31

theorem quan_power2 (v : Int) : 0 ≤ quan v power2 ∧ quan v power2 ≤ 15 := by
  have := quan_bounds v power2
  simpa [power2] using this

/-- `fmult`: `anmag >> anexp` / `anmag << -anexp` and `wanmant << wanexp` / `wanmant >> -wanexp` -/
theorem fmult_shift_counts (an srn : Int) :
    let anmag := s16 (if an > 0 then an else (-an) % 8192)
    let anexp := s16 (quan anmag power2 - 6)
    let wanexp := s16 (anexp + (shr srn 6) % 16 - 13)
    (if anexp ≥ 0 then okShift anexp else okShift (-anexp)) ∧ (if wanexp ≥ 0 then okShift wanexp else okShift (-wanexp)) := by
  intro anmag anexp wanexp
  have hq := quan_power2 anmag
  have he : anexp = quan anmag power2 - 6 := s16_id _ (by omega) (by omega)
  have hm : 0 ≤ (shr srn 6) % 16 ∧ (shr srn 6) % 16 ≤ 15 := by omega
  have hw : wanexp = anexp + (shr srn 6) % 16 - 13 := s16_id _ (by omega) (by omega)
  unfold okShift
  constructor
  · split <;> omega
  · split <;> omega

/-- `quantize`: `(dqm << 7) >> expon` -/
theorem quantize_shift_count (d : Int) : okShift (s16 (quan (shr (s16 (d.natAbs : Int)) 1) power2)) := by
  have hq := quan_power2 (shr (s16 (d.natAbs : Int)) 1)
  rw [s16_id _ (by omega) (by omega)]
  unfold okShift; omega

/-- `update` FLOAT A / FLOAT B: `(mag << 6) >> expon` -/
theorem expMant_shift_count (mag : Int) : okShift (quan mag power2) := by
  have hq := quan_power2 mag
  unfold okShift; omega

/-! ## shift counts and indices that need the invariant -/

/-- TRANS: `(32 + ylfrac) << ylint` with `ylint = yl >> 15` -/
theorem trans_shift_count (st : St) (h : Inv st) : 1 ≤ s16 (shr st.yl 15) ∧ s16 (shr st.yl 15) ≤ 10 := by
  have := h.yl
  rw [shr15, s16_id _ (by omega) (by omega)]
  omega

/-- the tables of a rate fit its code width: every code indexes them, and the log-domain entries are the
    published ones' range -/
structure ValidRate (r : Rate) : Prop where
  bits : 2 ≤ r.bits ∧ r.bits ≤ 5
  q    : 2 * r.qtab.length + 2 = 2 ^ r.bits
  dqln : r.dqlntab.length = 2 ^ r.bits
  wi   : r.witab.length = 2 ^ r.bits
  fi   : r.fitab.length = 2 ^ r.bits
  rng  : ∀ v ∈ r.dqlntab, -2048 ≤ v ∧ v ≤ 566

theorem valid_g721 : ValidRate g721 := ⟨by decide, by decide, by decide, by decide, by decide, by decide⟩
theorem valid_g723_16 : ValidRate g723_16 := ⟨by decide, by decide, by decide, by decide, by decide, by decide⟩
theorem valid_g723_24 : ValidRate g723_24 := ⟨by decide, by decide, by decide, by decide, by decide, by decide⟩
theorem valid_g723_40 : ValidRate g723_40 := ⟨by decide, by decide, by decide, by decide, by decide, by decide⟩

theorem tabAt_mem (tab : List Int) (i : Int) (h0 : 0 ≤ i) (h1 : i < tab.length) : tabAt tab i ∈ tab := by
  unfold tabAt
  have hlt : i.toNat < tab.length := by omega
  rcases getD_mem_or tab i.toNat 0 with h | h
  · exact h
  · simp [List.getD, List.getElem?_eq_getElem hlt] at h ⊢

/-- ANTILOG in `reconstruct`: `(dqt << 7) >> (14 - dex)` — the count 14 − dex is in [0, 14] whenever the step size
    is in LIMB's range and the log entry comes from a table -/
theorem reconstruct_shift_count (dqln y : Int) (hy : 544 ≤ y ∧ y ≤ 5120) (hd : -2048 ≤ dqln ∧ dqln ≤ 566) :
    let dql := s16 (dqln + shr y 2)
    0 ≤ dql → 0 ≤ 14 - s16 ((shr dql 7) % 16) ∧ 14 - s16 ((shr dql 7) % 16) ≤ 14 := by
  intro dql hpos
  have e : dql = dqln + y / 4 := by
    show s16 (dqln + shr y 2) = _
    rw [shr2]; exact s16_id _ (by omega) (by omega)
  rw [shr7, s16_id _ (by omega) (by omega)]
  omega

/-- the code the encoder computes -/
theorem encode_code_range (r : Rate) (v : ValidRate r) (st : St) (x : Int) :
    0 ≤ (encode r st x).2 ∧ (encode r st x).2 < 2 ^ r.bits := by
  simp only [encode]
  generalize hq : quantize _ _ r.qtab = q
  have hr := quantize_range (s16 (shr x 2 - (if r.seInt then s16 (shr (s16 (predictorZero st) + predictorPole st) 1)
      else s16 (shr (s16 (s16 (predictorZero st) + predictorPole st)) 1)))) (s16 (stepSize st)) r.qtab
  rw [hq] at hr
  have hb := v.bits
  have hqq := v.q
  have hlen : (r.qtab.length : Int) ≤ 15 := by
    have : 2 ^ r.bits ≤ 32 := by
      have := Nat.pow_le_pow_right (show 0 < 2 by omega) hb.2
      simpa using this
    omega
  rw [s16_id q (by omega) (by omega)]
  have hpow : ((2 : Int) ^ r.bits) = ((2 ^ r.bits : Nat) : Int) := by norm_cast
  rw [hpow, ← hqq]
  split
  · push_cast; omega
  · push_cast; omega

end Sf.G72x.Proofs
