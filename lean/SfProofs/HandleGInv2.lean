/-
  SfProofs.HandleGInv2 — the law records of the second group of instances (SfModel/HandleGInst3.lean: SVX, MPC2K, WVE, PVF,
  MAT4, MAT5, NIST, VOC) and of the hand-made AIFF container record with the in-place header patch of SFM_RDWR
  (SfModel/HandleGAiffRw.lean); steady-state equations of the write wrapper (a second write call does not go through the
  header latch again) and two-calls-equal-one at the `stepWrite` level.
-/
import SfProofs.HandleGRefine
import SfProofs.HandleGWrite
import SfModel.HandleGAiffRw
namespace Sf.HandleG
open Sf

theorem svxLaws (name : List Byte) : SpecLaws (svxSpecN name) := ⟨calcStd_law true, off_len⟩
theorem mpcLaws (name : List Byte) : SpecLaws (mpcSpecN name) :=
  ⟨fun h fl => ⟨fl, fl - 42, 42, _, rfl, fun _ => by omega⟩, off_len⟩
theorem wveLaws : SpecLaws wveSpec := ⟨calcStd_law true, off_len⟩
theorem pvfLaws : SpecLaws pvfSpec := ⟨id_law, off_len⟩
theorem mat4Laws : SpecLaws mat4Spec := ⟨calcStd_law true, off_len⟩
theorem mat5Laws (text : List Byte) : SpecLaws (mat5SpecT text) := ⟨calcStd_law true, off_len⟩

theorem nistCalc_law (h : H) (fl : Int) :
    ∃ f d o fr, nistCalc h fl = { h with filelength := f, datalength := d, dataoffset := o, frames := fr } ∧
      (0 ≤ h.dataoffset → 0 ≤ o) := by
  unfold nistCalc
  simp only
  repeat' split
  all_goals exact ⟨_, _, h.dataoffset, _, rfl, id⟩

theorem nistLaws : SpecLaws nistSpec := ⟨nistCalc_law, fun _ _ _ => by show (0 : Int) ≤ 1024; omega⟩
theorem vocLaws : SpecLaws vocSpec := ⟨fun h fl => ⟨_, _, h.dataoffset, _, rfl, id⟩, off_len⟩

/-! ## AIFF with the SFM_RDWR patch -/

theorem aiffRwHeader_rel (h : H) (s : Store) (b : Bool) : WHRelG h (aiffRwHeader h s b).1 := by
  have hc : WHRelG h (if b = true then calcStd true h s.bytes.length else h) := by
    cases b
    · exact WHRelG.refl h
    · obtain ⟨f, d, o, fr, e, ho⟩ := calcStd_law true h s.bytes.length
      exact ⟨f, d, o, fr, e, ho⟩
  unfold aiffRwHeader
  simp only
  split <;> exact hc

theorem aiffWriteHeader_rel (h : H) (s : Store) (b : Bool) : WHRelG h (aiffWriteHeader h s b).1 := by
  unfold aiffWriteHeader
  split
  · exact aiffRwHeader_rel h s b
  · exact Spec.writeHeader_rel aiffLaws h s b

theorem aiffContLaws : ContLaws aiffCont :=
  ⟨fun h s b => aiffWriteHeader_rel h s b, fun h s hm => by simp [aiffCont, aiffCloseStore, hm]⟩

theorem contOf_lawful (sp : Spec) (L : SpecLaws sp) : ContLaws (contOf sp) := by
  unfold contOf
  split
  · exact aiffContLaws
  · exact specLaws L

/-! ## the write wrapper behind the header latch -/

theorem wPre_steady (c : Cont) (h : H) (s : Store) (hw : h.haveWritten = true) (hl : h.lastOp = .w) (he : h.error = 0) :
    wPre c h s = (h, s) := by
  unfold wPre
  cases h
  simp_all

theorem wPost_off (c : Cont) (p : H × Store) (ha : p.1.autoHeader = false) : wPost c p = p := by
  unfold wPost
  simp [ha]

/-- two item-count write calls = one call with the concatenated buffer: handle and store, every lawful container, any state
    that can write (first call of the session included: the header latch fires once in both runs, on the same state) -/
theorem stepWrite_two {c : Cont} (L : ContLaws c) (h : H) (s : Store) (ty : Ty) (xs ys : List Int)
    (hm : h.mode ≠ .r) (hch : 0 < h.ch) (hauto : h.autoHeader = false) (hp : h.peak = none)
    (hx : 0 < xs.length) (hy : 0 < ys.length) (hdx : (xs.length : Int) % h.ch = 0) (hdy : (ys.length : Int) % h.ch = 0) :
    let r1 := stepWrite c h s ty false xs.length xs
    let r2 := stepWrite c r1.1 r1.2.1 ty false ys.length ys
    let r := stepWrite c h s ty false ((xs.length : Int) + ys.length) (xs ++ ys)
    r2.1 = r.1 ∧ r2.2.1 = r.2.1 := by
  intro r1 r2 r
  obtain ⟨fl1, dl1, off1, fr1, e1, _⟩ := wPre_fields L h s
  have hx' : (0 : Int) < xs.length := by omega
  have hy' : (0 : Int) < ys.length := by omega
  have hxy' : (0 : Int) < (xs.length : Int) + ys.length := by omega
  have hdxy : ((xs.length : Int) + ys.length) % h.ch = 0 :=
    Int.emod_eq_zero_of_dvd (Int.dvd_add (Int.dvd_of_emod_eq_zero hdx) (Int.dvd_of_emod_eq_zero hdy))
  -- first call
  have m1 := stepWrite_main c h s ty false xs.length xs hx' hm (Or.inr hdx)
  have mr := stepWrite_main c h s ty false ((xs.length : Int) + ys.length) (xs ++ ys) hxy' hm (Or.inr hdxy)
  simp only [reqLen, Bool.false_eq_true, if_false] at m1 mr
  obtain ⟨de, pk, fr2, e2⟩ := wBody_fields (wPre c h s) ty xs.length xs
  have pch : (wPre c h s).1.ch = h.ch := by rw [e1]
  have ppk : (wPre c h s).1.peak = none := by rw [e1]; exact hp
  have pau : (wPre c h s).1.autoHeader = false := by rw [e1]; exact hauto
  have b1au : (wBody (wPre c h s) ty xs.length xs).1.autoHeader = false := by rw [e2]; exact pau
  have w1 : wAll c h s ty xs.length xs = wBody (wPre c h s) ty xs.length xs := by
    unfold wAll; exact wPost_off c _ b1au
  have er1 : r1.1 = (wBody (wPre c h s) ty xs.length xs).1 := by show (stepWrite c h s ty false xs.length xs).1 = _; rw [m1, w1]
  have er1s : r1.2.1 = (wBody (wPre c h s) ty xs.length xs).2 := by show (stepWrite c h s ty false xs.length xs).2.1 = _; rw [m1, w1]
  -- second call: steady state
  have q_mode : r1.1.mode ≠ .r := by rw [er1, e2, e1]; exact hm
  have q_ch : r1.1.ch = h.ch := by rw [er1, e2, e1]
  have q_hw : r1.1.haveWritten = true := by rw [er1, e2]
  have q_lo : r1.1.lastOp = .w := by rw [er1, e2]
  have q_er : r1.1.error = 0 := by rw [er1, e2, e1]
  have q_au : r1.1.autoHeader = false := by rw [er1]; exact b1au
  have m2 := stepWrite_main c r1.1 r1.2.1 ty false ys.length ys hy' q_mode (Or.inr (by rw [q_ch]; exact hdy))
  simp only [reqLen, Bool.false_eq_true, if_false] at m2
  have pre2 : wPre c r1.1 r1.2.1 = (r1.1, r1.2.1) := wPre_steady c _ _ q_hw q_lo q_er
  obtain ⟨de2, pk2, fr3, e3⟩ := wBody_fields (r1.1, r1.2.1) ty ys.length ys
  have b2au : (wBody (r1.1, r1.2.1) ty ys.length ys).1.autoHeader = false := by rw [e3]; exact q_au
  have w2 : wAll c r1.1 r1.2.1 ty ys.length ys = wBody (r1.1, r1.2.1) ty ys.length ys := by
    unfold wAll; rw [pre2]; exact wPost_off c _ b2au
  -- the single call
  obtain ⟨de4, pk4, fr4, e4⟩ := wBody_fields (wPre c h s) ty ((xs.length : Int) + ys.length) (xs ++ ys)
  have brau : (wBody (wPre c h s) ty ((xs.length : Int) + ys.length) (xs ++ ys)).1.autoHeader = false := by rw [e4]; exact pau
  have wr : wAll c h s ty ((xs.length : Int) + ys.length) (xs ++ ys) = wBody (wPre c h s) ty ((xs.length : Int) + ys.length) (xs ++ ys) := by
    unfold wAll; exact wPost_off c _ brau
  have two := wBody_two (wPre c h s) ty xs.length ys.length xs ys (by rw [pch]; exact hch) rfl rfl (by rw [pch]; exact hdx) ppk
  have pair : (r1.1, r1.2.1) = wBody (wPre c h s) ty xs.length xs := by rw [er1, er1s]
  constructor
  · show (stepWrite c r1.1 r1.2.1 ty false ys.length ys).1 = (stepWrite c h s ty false ((xs.length : Int) + ys.length) (xs ++ ys)).1
    rw [m2, mr, w2, wr, pair, two]
  · show (stepWrite c r1.1 r1.2.1 ty false ys.length ys).2.1 = (stepWrite c h s ty false ((xs.length : Int) + ys.length) (xs ++ ys)).2.1
    rw [m2, mr, w2, wr, pair, two]

end Sf.HandleG
