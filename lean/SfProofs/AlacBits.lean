/-
  SfProofs.AlacBits — lemmas about the bit I/O model of SfModel/AlacBits.lean: a field written with `bitsOf` is read back
  by `Rd.read`, fields split, `unpack (pack bs)` is `bs` followed by the zero bits of the byte alignment.
-/
import SfModel.AlacCore
import Mathlib.Tactic.Ring
namespace Sf.AlacCore

theorem bitsOf_length (v n : Nat) : (bitsOf v n).length = n := by
  induction n with
  | zero => rfl
  | succ n ih => simp [bitsOf, ih]

theorem rdBits_bitsOf (v : Nat) (rest : Bits) : ∀ (n acc : Nat), rdBits n (bitsOf v n ++ rest) acc = (acc * 2 ^ n + v % 2 ^ n, rest)
  | 0, acc => by simp [rdBits, bitsOf, Nat.mod_one]
  | n + 1, acc => by
    simp only [bitsOf, List.cons_append, rdBits]
    rw [rdBits_bitsOf v rest n]
    congr 1
    rw [Nat.mod_pow_succ]
    have h2 : v / 2 ^ n % 2 = 0 ∨ v / 2 ^ n % 2 = 1 := by omega
    rcases h2 with h | h <;> simp [h, Nat.pow_succ] <;> ring

theorem read_bitsOf (v n : Nat) (rest : Bits) (p : Nat) :
    (Rd.mk (bitsOf v n ++ rest) p).read n = (v % 2 ^ n, Rd.mk rest (p + n)) := by
  simp [Rd.read, rdBits_bitsOf]

/-- a field of `a + b` bits is the field of its top `a` bits followed by the field of its low `b` bits -/
theorem bitsOf_split (v a b : Nat) : bitsOf v (a + b) = bitsOf (v / 2 ^ b) a ++ bitsOf v b := by
  induction a with
  | zero => simp [bitsOf]
  | succ a ih =>
    have : a + 1 + b = (a + b) + 1 := by omega
    rw [this]
    simp only [bitsOf, List.cons_append, ih]
    congr 2
    rw [Nat.div_div_eq_div_mul, ← Nat.pow_add, Nat.add_comm b a]

theorem unpack_length (bs : List Byte) : (unpack bs).length = 8 * bs.length := by
  induction bs with
  | nil => rfl
  | cons b bs ih => simp [unpack, List.flatMap_cons, bitsOf_length] at ih ⊢; omega

theorem byte_roundtrip : ∀ a b c d e f g h : Bool, bitsOf (rdBits 8 [a, b, c, d, e, f, g, h] 0).1 8 = [a, b, c, d, e, f, g, h] := by decide

/-- the packet read back as bits: what was written, then the zero bits of the byte alignment -/
theorem unpack_pack (bs : Bits) : unpack (pack bs) = bs ++ List.replicate ((8 - bs.length % 8) % 8) false := by
  induction bs using pack.induct with
  | case1 a b c d e f g h rest ih =>
    simp only [pack, unpack, List.flatMap_cons] at ih ⊢
    rw [ih, byte_roundtrip]
    have : (8 - (rest.length + 8) % 8) % 8 = (8 - rest.length % 8) % 8 := by omega
    simp [this]
  | case2 => rfl
  | case3 l h1 h2 =>
    rcases l with _ | ⟨a, _ | ⟨b, _ | ⟨c, _ | ⟨d, _ | ⟨e, _ | ⟨f, _ | ⟨g, _ | ⟨h, rest⟩⟩⟩⟩⟩⟩⟩⟩
    · exact absurd rfl h2
    all_goals first
      | exact absurd rfl (h1 _ _ _ _ _ _ _ _ _)
      | (clear h1 h2; simp only [pack, unpack, List.flatMap_cons, List.flatMap_nil, List.append_nil]; decide +revert)
