/-
  SfProofs.PeakChunk — the PEAK chunk of `Sf.Peak.chunkBytes` parses back (`Sf.Peak.parseChunk`) to what a chunk can hold:
  the binary32 of the value (through the writer's FLT_MIN rule) and the low 32 (WAV / AIFF) or 64 (CAF) bits of the position.
-/
import SfProofs.ContainerBytes
import SfModel.Peak
namespace Sf.Peak
open Sf

/-- what a WAV / AIFF chunk entry holds of a PEAK record -/
def held32 (p : Peak) : Peak :=
  { value := Float.f32to64 (wrapU 32 (wrF32 (Float.f64to32 p.value))), position := wrapU 32 p.position }

/-- what a CAF chunk entry holds -/
def held64 (p : Peak) : Peak :=
  { value := Float.f32to64 (wrapU 32 (wrF32 (Float.f64to32 p.value))), position := sext 64 (wrapU 64 p.position) }

def entry32 (big : Bool) (p : Peak) : List Byte := u32 big (wrF32 (Float.f64to32 p.value)) ++ u32 big p.position

theorem parsePeaks_entries (big : Bool) (post : List Byte) : ∀ (ps : List Peak) (pre : List Byte),
    parsePeaks big (pre ++ (ps.flatMap (entry32 big) ++ post)) pre.length ps.length = ps.map held32 := by
  intro ps
  induction ps with
  | nil => intro pre; rfl
  | cons p ps ih =>
    intro pre
    simp only [List.length_cons, parsePeaks, List.map_cons, List.flatMap_cons]
    have h1 : At (pre ++ (entry32 big p ++ ps.flatMap (entry32 big) ++ post)) pre.length (u32 big (wrF32 (Float.f64to32 p.value))) := by
      have := At.skip (off := 0) pre (At.here (u32 big (wrF32 (Float.f64to32 p.value))) (u32 big p.position ++ (ps.flatMap (entry32 big) ++ post)))
      simpa [entry32, List.append_assoc] using this
    have h2 : At (pre ++ (entry32 big p ++ ps.flatMap (entry32 big) ++ post)) (pre.length + 4) (u32 big p.position) := by
      have := At.skip (off := 0) (pre ++ u32 big (wrF32 (Float.f64to32 p.value))) (At.here (u32 big p.position) (ps.flatMap (entry32 big) ++ post))
      simpa [entry32, List.append_assoc, u32_length_ct] using this
    rw [rd32_of_At h1, rd32_of_At h2]
    have e : pre ++ (entry32 big p ++ ps.flatMap (entry32 big) ++ post) = (pre ++ entry32 big p) ++ (ps.flatMap (entry32 big) ++ post) := by
      simp [List.append_assoc]
    have hl : pre.length + 8 = (pre ++ entry32 big p).length := by simp [entry32, u32_length_ct]
    rw [e, hl, ih (pre ++ entry32 big p)]
    rfl

theorem size_field (ch : Nat) (hch : ch ≤ 1024) : wrapU 32 ((8 + 8 * ch : Nat) : Int) = 8 + 8 * ch := by
  have := wrapU_of_range 32 ((8 + 8 * ch : Nat) : Int) (by omega) (by
    have : ((2:Int) ^ 32) = 4294967296 := by decide
    rw [this]; omega)
  exact_mod_cast this

/-- WAV (RIFF and RIFX) and AIFF: 'PEAK' size version timestamp, then (binary32 value, 32-bit position) per channel -/
theorem chunk_parse_32 (big : Bool) (ch : Nat) (ps : List Peak) (hl : ps.length = ch) (hch : ch ≤ 1024) :
    let bytes := marker "PEAK" ++ u32 big (8 + 8 * ch) ++ u32 big 1 ++ u32 big 1000000000 ++ ps.flatMap (entry32 big)
    rd32 big bytes 4 = 8 + 8 * ch ∧ parsePeaks big bytes 16 ch = ps.map held32 := by
  subst hl
  intro bytes
  constructor
  · have h : At bytes 4 (u32 big ((8 + 8 * ps.length : Nat) : Int)) := by
      have := At.skip (off := 0) (marker "PEAK") (At.here (u32 big ((8 + 8 * ps.length : Nat) : Int)) (u32 big 1 ++ u32 big 1000000000 ++ ps.flatMap (entry32 big)))
      have hm : (marker "PEAK").length = 4 := by decide
      simpa [bytes, List.append_assoc, hm] using this
    rw [rd32_of_At h, size_field ps.length hch]
  · have e : bytes = (marker "PEAK" ++ u32 big (8 + 8 * ps.length) ++ u32 big 1 ++ u32 big 1000000000) ++ (ps.flatMap (entry32 big) ++ []) := by
      simp [bytes]
    have hlen : (marker "PEAK" ++ u32 big (8 + 8 * ps.length) ++ u32 big 1 ++ u32 big 1000000000).length = 16 := by
      have hm : (marker "PEAK").length = 4 := by decide
      simp [u32_length_ct, hm]
    rw [e, ← hlen]
    exact parsePeaks_entries big [] ps _

end Sf.Peak
