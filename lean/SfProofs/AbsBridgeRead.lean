/-
  SfProofs.AbsBridgeRead — the bridge, part 2: the simulation relation `Sim`, the concrete invariant `BInv`, and the READ
  step: every answer `stepRead` gives (valid or invalid request, read-only or read/write handle, inside or at the end of
  the data) is accepted by `Abs.readOk` against the decoded data region, and the relation is kept.
-/
import SfProofs.AbsBridge
namespace Sf.AbsBridge
open Sf

/-! ## the abstraction -/

/-- the reference stream: the decoded data region of the store, as cells -/
def absRef (h : H) (s : Store) (ty : Ty) : Array Abs.Item := encBuf ty (h.enc.decodeAll h.conv ty (dataRegion h s))

/-- THE ABSTRACTION MAP: the abstract state a handle on a store stands for -/
def absSt (h : H) (s : Store) : Abs.St :=
  { mode := absMode h.mode, frames := h.frames.toNat, rpos := h.rpos.toNat, wpos := h.wpos.toNat,
    err := decide (h.error ≠ 0), ref := absRef h s, valid := fun _ => true }

/-- the simulation relation.  Positions matter only to the calls the mode allows; the reference stream only where the
    abstract state still claims to know it. -/
structure Sim (h : H) (s : Store) (st : Abs.St) : Prop where
  mode : st.mode = absMode h.mode
  frames : (st.frames : Int) = h.frames
  rpos : h.mode ≠ .w → (st.rpos : Int) = h.rpos
  wpos : h.mode ≠ .r → (st.wpos : Int) = h.wpos
  ref : h.mode ≠ .w → ∀ ty, st.valid ty = true → st.ref ty = absRef h s ty

/-- the invariant of the concrete side -/
structure BInv (h : H) (s : Store) : Prop where
  hinv : HInv h s
  frames_nn : 0 ≤ h.frames
  rw : h.mode = .rw → RwInv h s

/-- the geometry the predicate is run with for a handle of the concrete model -/
structure GeomFor (g : Abs.Geom) (h : H) : Prop where
  ch : g.ch = h.ch
  seekable : g.seekable = true
  canTrunc : g.canTrunc = h.canTruncate
  ioMayFail : g.ioMayFail = false
  tailClean : g.tailClean = false
  holeZero : ∀ t, g.holeZero t = false

theorem absSt_sim (h : H) (s : Store) (bi : BInv h s) : Sim h s (absSt h s) :=
  ⟨rfl, Int.toNat_of_nonneg bi.frames_nn, fun _ => Int.toNat_of_nonneg bi.hinv.rpos_nn,
   fun _ => Int.toNat_of_nonneg bi.hinv.wpos_nn, fun _ _ _ => rfl⟩

theorem Sim.set_err {h : H} {s : Store} {st : Abs.St} (sim : Sim h s st) (e : Int) (b : Bool) :
    Sim { h with error := e } s { st with err := b } :=
  ⟨sim.mode, sim.frames, sim.rpos, sim.wpos, sim.ref⟩

theorem BInv.set_error {h : H} {s : Store} (bi : BInv h s) (e : Int) : BInv { h with error := e } s := by
  refine ⟨bi.hinv.set_error e, bi.frames_nn, fun hm => ?_⟩
  obtain ⟨R, W, F, hdr, D, v⟩ := bi.rw hm
  exact ⟨R, W, F, hdr, D, v.setError e⟩

/-- the reference stream depends only on the codec, the conversion settings, the data offset, the frame count and
    the bytes -/
theorem absRef_congr (h h' : H) (s s' : Store) (ty : Ty) (he : h'.enc = h.enc) (hc : h'.conv = h.conv) (hch : h'.ch = h.ch)
    (ho : h'.dataoffset = h.dataoffset) (hf : h'.frames = h.frames) (hb : s'.bytes = s.bytes) :
    absRef h' s' ty = absRef h s ty := by
  unfold absRef dataRegion H.bw
  rw [he, hc, hch, ho, hf, hb]

/-! ## the completeness of `readOk`, for every mode that can read -/

/-- `Abs.readOk_complete` without the read-only hypothesis: on a read/write handle the read position may lie beyond the
    end of the data -/
theorem readOk_complete_gen (g : Abs.Geom) (st : Abs.St) (ty : Ty) (fc : Bool) (n : Int) (o : Abs.Out) (m d : Nat)
    (hch : 0 < g.ch) (htail : g.tailClean = false) (hm : st.mode ≠ .w)
    (hn : n = if fc then (m : Int) else ((m * g.ch : Nat) : Int)) (hm0 : 0 < m)
    (hd : d = min m (st.frames - st.rpos))
    (hret : o.ret = if fc then (d : Int) else ((d * g.ch : Nat) : Int))
    (herr : o.err = false) (hsize : o.data.size = m * g.ch * Abs.cells ty)
    (hdata : 0 < d → st.valid ty = true → (st.ref ty).size = st.frames * g.cpf ty ∧
      o.data.extract 0 (d * g.ch * Abs.cells ty) =
        (st.ref ty).extract (st.rpos * g.cpf ty) (st.rpos * g.cpf ty + d * g.ch * Abs.cells ty))
    (hzero : st.frames ≤ st.rpos → Abs.allOf o.data 0 0 0 (m * g.ch * Abs.cells ty) = true) :
    Abs.readOk g st ty fc n o = .ok { st with rpos := st.rpos + d, err := false } := by
  have hvalid : Abs.validReq g fc n = true := by
    unfold Abs.validReq
    cases fc with
    | true => simp only [if_true] at hn; subst hn; simp; omega
    | false =>
      simp only [Bool.false_eq_true, if_false] at hn; subst hn
      have : 0 < m * g.ch := Nat.mul_pos hm0 hch
      simp; omega
  have hn0 : ¬ n = 0 := by have := Abs.validReq_pos hvalid; omega
  have hreq : Abs.reqItems g fc n = m * g.ch := by
    unfold Abs.reqItems; cases fc with
    | true => simp only [if_true] at hn ⊢; subst hn; simp
    | false => simp only [Bool.false_eq_true, if_false] at hn ⊢; subst hn; exact Int.toNat_natCast _
  have hitems : Abs.retItems g fc o.ret = d * g.ch := by
    cases fc with
    | true => simp only [if_true] at hret; rw [hret]; exact Abs.retItems_frames g d
    | false => simp only [Bool.false_eq_true, if_false] at hret; rw [hret]; exact Abs.retItems_items g d
  have hk : d * g.ch / g.ch = d := Nat.mul_div_cancel _ hch
  have hdm : d ≤ m := by rw [hd]; exact Nat.min_le_left _ _
  have hdf : d ≤ st.frames - st.rpos := by rw [hd]; exact Nat.min_le_right _ _
  have hr1 : ¬ (o.ret < 0 ∨ n < o.ret) := by
    cases fc with
    | true => simp only [if_true] at hret hn; rw [hret, hn]; omega
    | false =>
      simp only [Bool.false_eq_true, if_false] at hret hn; rw [hret, hn]
      have : d * g.ch ≤ m * g.ch := Nat.mul_le_mul_right _ hdm
      omega
  unfold Abs.readOk
  simp only [hn0, if_false, hvalid, hm, Bool.not_true, Bool.false_or, decide_false, Bool.false_eq_true, hr1, hitems, hreq,
    Nat.mul_mod_left, ne_eq, not_true_eq_false, hsize, hk, htail, Bool.false_and]
  by_cases hend : st.frames ≤ st.rpos
  · have hd0 : d = 0 := by omega
    have hz := hzero hend
    have hr0 : o.ret = 0 := by rw [hret, hd0]; cases fc <;> simp
    simp [hend, hr0, herr, hz, hd0]
  · have hlt : ¬ st.frames < st.rpos + d := by omega
    have hdpos : 0 < d := by omega
    have hshort : ¬ (o.ret < n ∧ ¬ st.rpos + d = st.frames) := by
      intro ⟨hlt', hne⟩
      have : d < m := by
        cases fc with
        | true => simp only [if_true] at hret hn; rw [hret, hn] at hlt'; omega
        | false =>
          simp only [Bool.false_eq_true, if_false] at hret hn; rw [hret, hn] at hlt'
          have h2 : d * g.ch < m * g.ch := by omega
          exact Nat.lt_of_mul_lt_mul_right h2
      omega
    have hslice : (st.valid ty && !Abs.sliceEq o.data 0 (st.ref ty) (st.rpos * g.cpf ty) (d * g.ch * Abs.cells ty)) = false := by
      cases hv : st.valid ty
      · simp
      · obtain ⟨hsz, hx⟩ := hdata hdpos hv
        have hcpf : d * g.ch * Abs.cells ty = d * g.cpf ty := by unfold Abs.Geom.cpf; rw [Nat.mul_assoc]
        have hb : st.rpos * g.cpf ty + d * g.ch * Abs.cells ty ≤ (st.ref ty).size := by
          rw [hsz, hcpf, ← Nat.add_mul]; exact Nat.mul_le_mul_right _ (by omega)
        have ha : 0 + d * g.ch * Abs.cells ty ≤ o.data.size := by
          rw [hsize, Nat.zero_add]; exact Nat.mul_le_mul_right _ (Nat.mul_le_mul_right _ hdm)
        have := Abs.sliceEq_of_extract o.data (st.ref ty) 0 (st.rpos * g.cpf ty) (d * g.ch * Abs.cells ty) ha hb (by rw [Nat.zero_add]; exact hx)
        simp [this]
    simp [hend, hlt, hslice, hshort, herr]

/-- the transcript line of a read call -/
def outOfRead (ty : Ty) (o : Sf.Out) : Abs.Out := { ret := o.ret, err := decide (o.err ≠ 0), data := encBuf ty o.data }

/-- the list form of the read contract implies acceptance: `items` is the decoded data region (`F·ch` items), the call
    asked for `m` frames at read position `R` and answered `d = min m (F − R)` frames -/
theorem read_accept (g : Abs.Geom) (st : Abs.St) (ty : Ty) (fc : Bool) (n : Int) (m d F R chn : Nat) (items : List Int)
    (o : Sf.Out)
    (hgch : g.ch = chn) (hch : 0 < chn) (htail : g.tailClean = false) (hm : st.mode ≠ .w)
    (hF : st.frames = F) (hR : st.rpos = R)
    (hn : n = if fc then (m : Int) else ((m * chn : Nat) : Int)) (hm0 : 0 < m)
    (hd : d = min m (F - R))
    (hret : o.ret = if fc then (d : Int) else ((d * chn : Nat) : Int)) (herr : o.err = 0)
    (hlen : o.data.length = m * chn) (hil : items.length = F * chn)
    (hzero : F ≤ R → o.data = List.replicate (m * chn) 0)
    (hdat : 0 < d → o.data.take (d * chn) = (items.drop (R * chn)).take (d * chn))
    (href : st.valid ty = true → st.ref ty = encBuf ty items) :
    Abs.readOk g st ty fc n (outOfRead ty o) = .ok { st with rpos := st.rpos + d, err := false } := by
  subst hgch
  apply readOk_complete_gen g st ty fc n _ m d hch htail hm hn hm0 (by rw [hF, hR]; exact hd)
  · exact hret
  · simp [outOfRead, herr]
  · simp only [outOfRead]; rw [encBuf_size, hlen]
  · intro hdp hv
    rw [href hv, encBuf_size, hil, hF]
    refine ⟨by unfold Abs.Geom.cpf; rw [Nat.mul_assoc], ?_⟩
    simp only [outOfRead]
    have e1 : st.rpos * g.cpf ty = (R * g.ch) * Abs.cells ty := by rw [hR]; unfold Abs.Geom.cpf; rw [Nat.mul_assoc]
    rw [e1, encBuf_extract, encBuf_extract_zero, hdat hdp]
  · intro hle
    simp only [outOfRead]
    rw [hzero (by rw [← hF, ← hR]; exact hle)]
    exact allOf_encBuf_zero ty (m * g.ch)

/-! ## list facts -/

theorem take_drop_take {α} (l : List α) (a b c : Nat) (h : b + c ≤ a) : ((l.take a).drop b).take c = (l.drop b).take c := by
  rw [List.drop_take, List.take_take, Nat.min_eq_left (by omega)]

theorem take_min_len {α} (l : List α) (a b : Nat) (h : min a l.length = min b l.length) : l.take a = l.take b :=
  List.take_eq_take_iff.mpr h

/-- a request the wrappers accept, as a frame count -/
theorem valid_frames (h : H) (fc : Bool) (n : Int) (hch : 0 < h.ch) (hn : 0 < n) (ha : fc = true ∨ n % (h.ch : Int) = 0) :
    ∃ m : Nat, 0 < m ∧ n = callCount h fc m ∧ reqLen h fc n = ((m * h.ch : Nat) : Int) := by
  obtain ⟨m, hm0, hlen, h1, h2⟩ := reqLen_frames h fc n hch hn ha
  refine ⟨m, hm0, ?_, by rw [hlen]; push_cast; rfl⟩
  unfold callCount
  cases fc with
  | true => simp only [if_true]; exact h1 rfl
  | false => simp only [Bool.false_eq_true, if_false]; rw [h2 rfl]; push_cast; rfl

theorem framesOf_callCount (h : H) (fc : Bool) (d : Nat) (hch : 0 < h.ch) : framesOf h fc (callCount h fc d) = d := by
  unfold framesOf callCount
  cases fc with
  | true => simp
  | false =>
    simp only [Bool.false_eq_true, if_false]
    rw [← Int.natCast_ediv, Nat.mul_div_cancel _ hch]

/-- the decoded data region has `frames·ch` items when the store holds the data -/
theorem items_length (h : H) (s : Store) (ty : Ty) (F : Nat) (hnb : 0 < h.enc.nbytes)
    (hD : (dataRegion h s).length = F * h.bw) :
    (h.enc.decodeAll h.conv ty (dataRegion h s)).length = F * h.ch := by
  rw [Enc.decodeAll_length _ _ _ hnb, hD]
  unfold H.bw
  rw [Nat.mul_comm h.enc.nbytes, ← Nat.mul_assoc, Nat.mul_div_cancel _ hnb]

/-- the relation after a read that advanced the read position by `d` frames -/
theorem sim_after_read (h : H) (s : Store) (st : Abs.St) (ty : Ty) (fc : Bool) (n : Int) (d : Nat) (b : Bool)
    (hi : HInv h s) (sim : Sim h s st) (hr : (stepRead h s ty fc n).1.rpos = h.rpos + d) :
    Sim (stepRead h s ty fc n).1 (stepRead h s ty fc n).2.1 { st with rpos := st.rpos + d, err := b } := by
  obtain ⟨f1, f2, f3, f4, f5, f6, f7⟩ := stepRead_frames h s ty fc n hi
  obtain ⟨_, _, _, _, _, hb⟩ := read_contract_any h s ty fc n hi
  refine ⟨by rw [f6]; exact sim.mode, by rw [f1]; exact sim.frames, fun hm => ?_, fun hm => ?_, fun hm t hv => ?_⟩
  · rw [hr]; have := sim.rpos (by rw [← f6]; exact hm); simp only; omega
  · rw [f7]; exact sim.wpos (by rw [← f6]; exact hm)
  · rw [absRef_congr h _ s _ t f3 f4 f2 f5 f1 hb]
    exact sim.ref (by rw [← f6]; exact hm) t hv

end Sf.AbsBridge
