/-
  SfProofs.FloatFmt — structure of `Fmt.ofDy` / `Fmt.toDy`: packing and unpacking of bit patterns,
  `bitLen`, and the normal form  ofDy d = enc sign (rne (m·2^(e−q))) q  with q the quantum of d.
-/
import SfProofs.FloatVal
namespace Sf.Float

/-- the two formats libsndfile uses -/
def Fmt.Std (f : Fmt) : Prop := f = f32 ∨ f = f64

def Fmt.sgnBit (f : Fmt) (s : Bool) : Nat := if s then 2 ^ (f.ebits + f.mbits) else 0

/-- final encoding step of `ofDy`: significand `mant` (< 2^(mbits+1)) at quantum `q` -/
def Fmt.pack (f : Fmt) (s : Bool) (mant : Nat) (q : Int) : Nat :=
  if mant < 2 ^ f.mbits then f.sgnBit s + mant
  else if q - f.qmin + 1 ≥ f.emax then f.sgnBit s + f.emax * 2 ^ f.mbits
  else f.sgnBit s + (q - f.qmin + 1).toNat * 2 ^ f.mbits + (mant - 2 ^ f.mbits)

/-- the quantum (exponent of the last kept bit) `ofDy` rounds at -/
def Fmt.quantum (f : Fmt) (d : Dy) : Int := max f.qmin (d.e + (bitLen d.m : Int) - 1 - f.mbits)

/-- carry step + pack -/
def Fmt.enc (f : Fmt) (s : Bool) (mant0 : Nat) (q : Int) : Nat :=
  if mant0 ≥ 2 ^ (f.mbits + 1) then f.pack s (mant0 / 2) (q + 1) else f.pack s mant0 q

theorem ofDy_eq (f : Fmt) (d : Dy) :
    f.ofDy d = if d.m = 0 then f.sgnBit d.neg else f.enc d.neg (rneScale d.m (d.e - f.quantum d)) (f.quantum d) := by
  unfold Fmt.ofDy Fmt.enc Fmt.pack Fmt.quantum Fmt.sgnBit
  simp only
  split
  · rfl
  · have hq : (if d.e + ↑(bitLen d.m) - 1 - ↑f.mbits < f.qmin then f.qmin else d.e + ↑(bitLen d.m) - 1 - ↑f.mbits)
        = max f.qmin (d.e + ↑(bitLen d.m) - 1 - ↑f.mbits) := by
      rw [Int.max_def]; split <;> split <;> omega
    rw [hq]
    split <;> rfl

/-! ### bitLen -/

theorem bitLen_zero : bitLen 0 = 0 := by simp [bitLen]

theorem bitLen_bounds (m : Nat) (h : m ≠ 0) : 2 ^ (bitLen m - 1) ≤ m ∧ m < 2 ^ bitLen m ∧ 1 ≤ bitLen m := by
  unfold bitLen
  simp only [h, if_false]
  refine ⟨?_, Nat.lt_log2_self, by omega⟩
  simpa using Nat.log2_self_le h

theorem bitLen_unique (m L : Nat) (h1 : 2 ^ (L - 1) ≤ m) (h2 : m < 2 ^ L) (hL : 1 ≤ L) : bitLen m = L := by
  have hm : m ≠ 0 := by
    have := two_pow_pos' (L - 1); omega
  obtain ⟨b1, b2, b3⟩ := bitLen_bounds m hm
  by_contra hne
  rcases Nat.lt_or_gt_of_ne hne with h | h
  · have : 2 ^ bitLen m ≤ 2 ^ (L - 1) := Nat.pow_le_pow_right (by omega) (by omega)
    omega
  · have : 2 ^ L ≤ 2 ^ (bitLen m - 1) := Nat.pow_le_pow_right (by omega) (by omega)
    omega

/-! ### unpacking a packed pattern -/

theorem toDy_fields (f : Fmt) (hf : f.Std) (s : Bool) (ex fr : Nat) (hex : ex < 2 ^ f.ebits) (hfr : fr < 2 ^ f.mbits) :
    f.sign (f.sgnBit s + ex * 2 ^ f.mbits + fr) = s ∧ f.expo (f.sgnBit s + ex * 2 ^ f.mbits + fr) = ex ∧
    f.frac (f.sgnBit s + ex * 2 ^ f.mbits + fr) = fr := by
  rcases hf with rfl | rfl <;> cases s <;>
    simp [Fmt.sign, Fmt.expo, Fmt.frac, Fmt.sgnBit, f32, f64] at * <;> omega

theorem toDy_packed (f : Fmt) (hf : f.Std) (s : Bool) (ex fr : Nat) (hex : ex < 2 ^ f.ebits) (hfr : fr < 2 ^ f.mbits) :
    f.toDy (f.sgnBit s + ex * 2 ^ f.mbits + fr) =
      if ex = 0 then ⟨s, fr, f.qmin⟩ else ⟨s, 2 ^ f.mbits + fr, (ex : Int) - 1 + f.qmin⟩ := by
  obtain ⟨h1, h2, h3⟩ := toDy_fields f hf s ex fr hex hfr
  unfold Fmt.toDy
  simp only [h1, h2, h3]

/-- every pattern below 2^width is sign·2^(w−1) + expo·2^mbits + frac -/
theorem pattern_decomp (f : Fmt) (hf : f.Std) (b : Nat) (hb : b < 2 ^ f.width) :
    b = f.sgnBit (f.sign b) + f.expo b * 2 ^ f.mbits + f.frac b ∧ f.expo b < 2 ^ f.ebits ∧ f.frac b < 2 ^ f.mbits := by
  rcases hf with rfl | rfl
  · simp [Fmt.sign, Fmt.expo, Fmt.frac, Fmt.sgnBit, Fmt.width, f32] at *
    refine ⟨?_, by omega, by omega⟩
    by_cases h : b / 2147483648 % 2 = 1 <;> simp [h] <;> omega
  · simp [Fmt.sign, Fmt.expo, Fmt.frac, Fmt.sgnBit, Fmt.width, f64] at *
    refine ⟨?_, by omega, by omega⟩
    by_cases h : b / 9223372036854775808 % 2 = 1 <;> simp [h] <;> omega

end Sf.Float
