/-
  SfProofs.CodecTwo — two consecutive write calls equal one call with the concatenated buffer.
-/
import SfProofs.CodecRun
namespace Sf

/-- the PEAK bookkeeping does not see the boundary between a call with `xs` and a call with `ys` -/
def PeakAgree (h : H) (ty : Ty) (xs ys : List Int) : Prop :=
  peakUpd (peakUpdate h ty xs) h.enc h.conv h.ch (h.wpos + (xs.length : Int) / h.ch) ty ys = peakUpdate h ty (xs ++ ys)

theorem wrMid_wrMid (h : H) (ty : Ty) (xs ys : List Int) (_hch : 0 < h.ch) (hdiv : (xs.length : Int) % h.ch = 0)
    (hpk : PeakAgree h ty xs ys) :
    wrMid (wrMid h ty xs) ty ys = wrMid h ty (xs ++ ys) := by
  have hw : h.wpos + (xs.length : Int) / h.ch + (ys.length : Int) / h.ch = h.wpos + ((xs ++ ys).length : Int) / h.ch := by
    rw [List.length_append]; push_cast
    rw [Int.add_ediv_of_dvd_left (Int.dvd_of_emod_eq_zero hdiv)]; omega
  apply H.ext <;> simp only [wrMid, hw]
  · rw [peakUpdate_eq]; exact hpk

theorem recalc_absorb (m : H) (ty : Ty) (ys : List Int) (fl1 fl : Nat) (hd : m.dataoffset = hdrLenOf m)
    (hc : m.container ≠ .raw) :
    recalc (wrMid (recalc m fl1 true) ty ys) fl true = recalc (wrMid m ty ys) fl true := by
  have hdo := recalc_dataoffset' m fl1 true hd
  apply H.ext
  case filelength => simp [recalc_filelength, wrMid, hc]
  case datalength => simp [recalc_datalength, wrMid, hc, hdo, hd, H.nb]
  case dataoffset =>
    rw [recalc_dataoffset, recalc_dataoffset]
    simp only [wrMid, recalc_container, hdo, hd]
    split
    · rfl
    · rfl
    · exact congrArg Nat.cast (wavHdrLen_congr _ _ (by simp) (by simp [peakUpdate_eq]) (by simp))
  all_goals simp [wrMid, peakUpdate_eq]

theorem wrH_pos (h : H) (ty : Ty) (v : List Int) (fl : Nat) (hc : h.autoHeader = true ∧ (h.container != Container.raw) = true) :
    wrH h ty v fl = recalc (wrMid h ty v) fl true := by unfold wrH; rw [if_pos hc]
theorem wrH_neg (h : H) (ty : Ty) (v : List Int) (fl : Nat) (hc : ¬ (h.autoHeader = true ∧ (h.container != Container.raw) = true)) :
    wrH h ty v fl = wrMid h ty v := by unfold wrH; rw [if_neg hc]

theorem wrH_wrH (h : H) (ty : Ty) (xs ys : List Int) (fl1 fl : Nat) (hch : 0 < h.ch)
    (hdiv : (xs.length : Int) % h.ch = 0) (hl : ∀ ps, h.peak = some ps → ps.length = h.ch)
    (hd : h.dataoffset = hdrLenOf h) (hpk : PeakAgree h ty xs ys) :
    wrH (wrH h ty xs fl1) ty ys fl = wrH h ty (xs ++ ys) fl := by
  by_cases hc : h.autoHeader = true ∧ (h.container != Container.raw) = true
  · have hc' : h.container ≠ .raw := by simpa using hc.2
    have hc1 : (recalc (wrMid h ty xs) fl1 true).autoHeader = true ∧ ((recalc (wrMid h ty xs) fl1 true).container != Container.raw) = true := by
      simpa [wrMid] using hc
    have hm : (wrMid h ty xs).dataoffset = hdrLenOf (wrMid h ty xs) := by rw [wrMid_hdrLen h ty xs hl]; exact hd
    rw [wrH_pos h ty xs fl1 hc, wrH_pos _ ty ys fl hc1, wrH_pos h ty (xs ++ ys) fl hc,
      recalc_absorb _ _ _ _ _ hm (by simpa [wrMid] using hc'), wrMid_wrMid h ty xs ys hch hdiv hpk]
  · have hc1 : ¬ ((wrMid h ty xs).autoHeader = true ∧ ((wrMid h ty xs).container != Container.raw) = true) := hc
    rw [wrH_neg h ty xs fl1 hc, wrH_neg _ ty ys fl hc1, wrH_neg h ty (xs ++ ys) fl hc, wrMid_wrMid h ty xs ys hch hdiv hpk]

theorem wrHdr_wrHdr (h : H) (ty : Ty) (xs ys : List Int) (fl1 fl : Nat) (hdr : List Byte) (hch : 0 < h.ch)
    (hdiv : (xs.length : Int) % h.ch = 0) (hl : ∀ ps, h.peak = some ps → ps.length = h.ch)
    (hd : h.dataoffset = hdrLenOf h) (hpk : PeakAgree h ty xs ys) :
    wrHdr (wrH h ty xs fl1) ty ys fl (wrHdr h ty xs fl1 hdr) = wrHdr h ty (xs ++ ys) fl hdr := by
  have hw := wrH_wrH h ty xs ys fl1 fl hch hdiv hl hd hpk
  by_cases hc : h.autoHeader = true ∧ (h.container != Container.raw) = true
  · have hc1 : (wrH h ty xs fl1).autoHeader = true ∧ ((wrH h ty xs fl1).container != Container.raw) = true := by
      simpa [wrMid] using hc
    have a : ∀ (g : H) (v : List Int) (d : List Byte), (g.autoHeader = true ∧ (g.container != Container.raw) = true) →
        wrHdr g ty v fl d = hdrOf (wrH g ty v fl) := by
      intro g v d hg; unfold wrHdr; rw [if_pos hg, wrH_pos g ty v fl hg]
    rw [a _ _ _ hc1, a _ _ _ hc, hw]
  · have hc1 : ¬ ((wrH h ty xs fl1).autoHeader = true ∧ ((wrH h ty xs fl1).container != Container.raw) = true) := by
      simpa [wrMid] using hc
    have hw1 : (wrMid h ty xs).haveWritten = true := rfl
    unfold wrHdr
    rw [if_neg hc1, if_neg hc, if_neg hc]
    simp [hw1]

/-- Two consecutive valid write calls on a writer state equal one call with the concatenated buffer:
    same handle (every field) and same store (every byte, same position). -/
theorem stepWrite_two_calls (h : H) (s : Store) (hdr dat : List Byte) (inv : WInv h s hdr dat) (ty : Ty)
    (fc1 : Bool) (n1 : Int) (xs : List Int) (fc2 : Bool) (n2 : Int) (ys : List Int)
    (v1 : ValidW h fc1 n1 xs) (v2 : ValidW h fc2 n2 ys) (hpk : PeakAgree h ty xs ys) :
    let r1 := stepWrite h s ty fc1 n1 xs
    let r2 := stepWrite r1.1 r1.2.1 ty fc2 n2 ys
    let r := stepWrite h s ty false (callLen h fc1 n1 + callLen h fc2 n2) (xs ++ ys)
    r2.1 = r.1 ∧ r2.2.1 = r.2.1 := by
  intro r1 r2 r
  have inv1 := stepWrite_winv h s hdr dat inv ty fc1 n1 xs v1
  have e1 := stepWrite_spec h s hdr dat inv ty fc1 n1 xs v1
  have hch1 : r1.1.ch = h.ch := by simp only [r1, e1]; simp [wrMid]
  have v2' : ValidW r1.1 fc2 n2 ys := ValidW.congr h _ hch1 fc2 n2 ys v2
  have e2 := stepWrite_spec r1.1 r1.2.1 _ _ inv1 ty fc2 n2 ys v2'
  have hd1 := ValidW.len_mod h fc1 n1 xs v1
  have hd2 := ValidW.len_mod h fc2 n2 ys v2
  have hp1 : 0 < callLen h fc1 n1 := by
    have := v1.pos; have hc := inv.ch_pos; unfold callLen; split
    · exact Int.mul_pos this (by omega)
    · exact this
  have hp2 : 0 < callLen h fc2 n2 := by
    have := v2.pos; have hc := inv.ch_pos; unfold callLen; split
    · exact Int.mul_pos this (by omega)
    · exact this
  have v : ValidW h false (callLen h fc1 n1 + callLen h fc2 n2) (xs ++ ys) := by
    refine ⟨by omega, fun _ => ?_, ?_⟩
    · rw [← v1.len, ← v2.len, Int.add_emod, hd1, hd2]; simp
    · rw [List.length_append]; push_cast; rw [v1.len, v2.len]; rfl
  have e := stepWrite_spec h s hdr dat inv ty false _ (xs ++ ys) v
  have hl := inv.peak_len
  have hfl : r1.2.1.bytes.length + (r1.1.enc.encodeAll r1.1.conv ty ys).length
      = s.bytes.length + (h.enc.encodeAll h.conv ty (xs ++ ys)).length := by
    simp only [r1, e1, wrH_enc, wrH_conv, wrMid, List.length_append, Enc.encodeAll_append]
    rw [wrHdr_length _ _ _ _ _ hl inv.hdr_len, inv.bytes, List.length_append, inv.hdr_len]; omega
  simp only [r2, r, e2, e, hfl]
  simp only [r1, e1]
  refine ⟨wrH_wrH h ty xs ys _ _ inv.ch_pos hd1 hl inv.doff hpk, ?_⟩
  rw [wrHdr_wrHdr h ty xs ys _ _ hdr inv.ch_pos hd1 hl inv.doff hpk]
  simp only [wrH_enc, wrH_conv, wrMid, Enc.encodeAll_append, List.append_assoc, List.length_append, Nat.add_assoc]

theorem peakUpd_none (enc : Enc) (conv : Conv) (ch : Nat) (wpos : Int) (ty : Ty) (vals : List Int) :
    peakUpd none enc conv ch wpos ty vals = none := by
  simp [peakUpd, peakUpdate]

/-- without a PEAK chunk (RAW, AU, integer/G.711 WAV) there is nothing that could see the boundary -/
theorem PeakAgree_of_none (h : H) (ty : Ty) (xs ys : List Int) (hp : h.peak = none) : PeakAgree h ty xs ys := by
  unfold PeakAgree
  rw [peakUpdate_none h ty xs hp, peakUpdate_none h ty (xs ++ ys) hp, peakUpd_none]

theorem peakRun_none (enc : Enc) (conv : Conv) (ch : Nat) (wpos : Int) (ops : List WOp) :
    peakRun enc conv ch none wpos ops = none := by
  induction ops generalizing wpos with
  | nil => rfl
  | cons op ops ih =>
    cases op with
    | write ty fc n data => simp only [peakRun, peakUpd_none]; split <;> exact ih _
    | updHeader _ => simp only [peakRun]; exact ih _

end Sf
