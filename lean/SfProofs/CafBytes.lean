/-
  Byte-level lemmas for the CAF / W64 container theorems (C04Caf, C04W64): a fixed-width field read back
  at its offset, lengths of the header pieces.
-/
import SfModel.Caf
import SfModel.W64
import SfProofs.Bytes
namespace Sf.CafW64
open Sf

/-- an n-byte big-endian field read back where it was put -/
theorem be_field (pre rest : List Byte) (n v : Nat) :
    ofBE (((pre ++ (beBytes n v ++ rest)).drop pre.length).take n) = v % 256 ^ n := by
  have : ((pre ++ (beBytes n v ++ rest)).drop pre.length).take n = beBytes n v := by
    simp [beBytes_length]
  rw [this, ofBE_beBytes]

theorem le_field (pre rest : List Byte) (n v : Nat) :
    ofLE (((pre ++ (leBytes n v ++ rest)).drop pre.length).take n) = v % 256 ^ n := by
  have : ((pre ++ (leBytes n v ++ rest)).drop pre.length).take n = leBytes n v := by
    simp [leBytes_length]
  rw [this, ofLE_leBytes]

theorem be_field_at (bs pre rest : List Byte) (n v off : Nat) (hb : bs = pre ++ (beBytes n v ++ rest)) (ho : off = pre.length) :
    ofBE ((bs.drop off).take n) = v % 256 ^ n := by subst hb; subst ho; exact be_field pre rest n v

theorem le_field_at (bs pre rest : List Byte) (n v off : Nat) (hb : bs = pre ++ (leBytes n v ++ rest)) (ho : off = pre.length) :
    ofLE ((bs.drop off).take n) = v % 256 ^ n := by subst hb; subst ho; exact le_field pre rest n v

theorem wrapU_nat (bits : Nat) (v : Nat) (h : v < 2 ^ bits) : wrapU bits (v : Int) = v := by
  unfold wrapU
  have h2 : ((v : Int) % (2 ^ bits : Int)) = v := by
    apply Int.emod_eq_of_lt (by omega)
    have : ((2 ^ bits : Nat) : Int) = (2 : Int) ^ bits := by simp
    omega
  rw [h2]; simp

end Sf.CafW64
