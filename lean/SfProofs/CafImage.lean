/-
  CAF: lengths and structure of the header the writer produces (helpers for SfProps/C04Caf.lean).
-/
import SfProofs.CafBytes
import SfProofs.FloatExact
namespace Sf.Caf
open Sf Sf.CafW64

theorem mk_lengths : (mk "caff").length = 4 ∧ (mk "desc").length = 4 ∧ (mk "peak").length = 4 ∧ (mk "free").length = 4 ∧
    (mk "data").length = 4 ∧ (mk "lpcm").length = 4 ∧ (mk "ulaw").length = 4 ∧ (mk "alaw").length = 4 := by decide

theorem fmtId_length (codec : Nat) : (fmtId codec).length = 4 := by
  unfold fmtId; split <;> (try split) <;> decide

/-- the 24 bytes of the 'desc' body after the rate -/
def descRest (c : Cfg) : List Byte :=
  fmtId c.codec ++ beBytes 4 (fmtFlags c) ++ beBytes 4 c.bw ++ beBytes 4 1 ++ beBytes 4 c.ch ++ beBytes 4 (8 * bytewidth c.codec)

theorem descChunk_eq (c : Cfg) : descChunk c = mk "desc" ++ beBytes 8 32 ++ beBytes 8 (Float.f64.ofInt c.sr) ++ descRest c := by
  simp only [descChunk, descRest, List.append_assoc]

theorem descChunk_length (c : Cfg) : (descChunk c).length = 44 := by
  obtain ⟨_, g2, _⟩ := mk_lengths
  simp [descChunk, beBytes_length, fmtId_length, g2]

theorem peakEntries_length (pk : List Peak) : (pk.flatMap peakEntry).length = 12 * pk.length := by
  induction pk with
  | nil => rfl
  | cons p ps ih => simp [List.flatMap_cons, peakEntry, beBytes_length, ih]; omega

theorem peakChunk_length (c : Cfg) (pk : List Peak) : (peakChunk c pk).length = 16 + 12 * pk.length := by
  obtain ⟨_, _, g3, _⟩ := mk_lengths
  unfold peakChunk
  rw [List.length_append, peakEntries_length]
  simp [beBytes_length, g3]

/-- the optional part between 'desc' and 'free' -/
def peakPart (c : Cfg) (pk : List Peak) : List Byte := if isFloat c.codec then peakChunk c pk else []

theorem peakPart_length (c : Cfg) (pk : List Peak) (hpk : isFloat c.codec = true → pk.length = c.ch) :
    8 + 44 + (peakPart c pk).length = preLen c := by
  unfold peakPart preLen
  by_cases h : isFloat c.codec = true
  · simp [h, peakChunk_length, hpk h]
  · simp [h]

theorem hdrRaw_eq (c : Cfg) (dl : Int) (pk : List Peak) :
    hdrRaw c dl pk = mk "caff" ++ beBytes 2 1 ++ beBytes 2 0 ++ descChunk c ++ peakPart c pk ++ mk "free" ++ beBytes 8 (freeLen c) ++
      zeros (freeLen c) ++ mk "data" ++ beBytes 8 (wrapU 64 (dl + 4)) ++ beBytes 4 0 := by
  simp only [hdrRaw, peakPart, List.append_assoc]

theorem hdrRaw_length (c : Cfg) (dl : Int) (pk : List Peak) (hpk : isFloat c.codec = true → pk.length = c.ch) :
    (hdrRaw c dl pk).length = dataOffset c := by
  obtain ⟨g1, _, _, g4, g5, _⟩ := mk_lengths
  have := peakPart_length c pk hpk
  rw [hdrRaw_eq]
  simp [beBytes_length, descChunk_length, zeros, g1, g4, g5, dataOffset]
  omega

/-- the audio data starts on a multiple of 4096 -/
theorem dataOffset_aligned (c : Cfg) : dataOffset c % 4096 = 0 ∧ 4096 ≤ dataOffset c := by
  unfold dataOffset freeLen
  have h : 52 ≤ preLen c := by unfold preLen; omega
  constructor <;> omega

theorem image_length (c : Cfg) (n : Nat) (pk : List Peak) (data : List Byte) (hpk : isFloat c.codec = true → pk.length = c.ch) :
    (image c n pk data).length = dataOffset c + data.length + (tail c n).length := by
  simp [image, hdr, hdrRaw_length c _ pk hpk]; omega

/-- every sample rate the API can carry (a C `int`) is exactly representable: the binary64 written into the 'desc'
    chunk is finite and `lrint` of it is the rate again -/
theorem rate_roundtrip (sr : Nat) (h : sr < 2 ^ 53) :
    (Float.f64.toDy (Float.f64.ofInt sr)).rint = sr := by
  have hv := Float.f64_ofInt_exact (sr : Int) (by simpa using h)
  have hr := Float.Dy.rint_isRNE (Float.f64.toDy (Float.f64.ofInt sr))
  exact hr.eq_int (sr : Int) hv

end Sf.Caf
