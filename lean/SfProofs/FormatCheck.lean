/- Helper lemmas for SfProps.C10: per container, "sf_format_check TRUE ⇒ the container's open succeeds,
   installs the four writers, and the SF_INFO / SF_PRIVATE validation passes". -/
import SfModel.FormatCheck
import Mathlib.Tactic.CasesM
namespace Sf.Fmt

theorem endian_cases (f : Int) : endian f = 0 ∨ endian f = E_LITTLE ∨ endian f = E_BIG ∨ endian f = E_CPU := by
  unfold endian E_LITTLE E_BIG E_CPU; omega

theorem codec_range (f : Int) : 0 ≤ codec f ∧ codec f < 65536 := by
  unfold codec; omega

/-- formats whose header writer or codec fixes a missing sample rate itself (XI: always 44100; OKI/VOX: 8000) -/
def rateRepaired (f : Int) : Prop := container f = XI ∨ (container f = RAW ∧ codec f = VOX_ADPCM)

instance (f : Int) : Decidable (rateRepaired f) := by unfold rateRepaired; infer_instance

/-- everything `psf_open_file` still asks for after the format check -/
def GoodRes (f ch : Int) (r : OpenRes) : Prop :=
  r.err = .ok ∧ r.installed = true ∧ validateSfinfo f r.ch r.sr = true ∧ validatePsf r = true ∧
  (r.endian = 0 ∨ r.endian = E_LITTLE ∨ r.endian = E_BIG) ∧ r.ch = ch

def Good (f ch sr : Int) : Prop := GoodRes f ch (containerOpen f ch sr)

/-- MS ADPCM block geometry is always consistent for the one or two channels the check lets through -/
theorem msadpcm_ok (sr ch : Int) : ¬ (1 ≤ ch ∧ ch ≤ 2) ∨ msadpcmInit (srate2blocksize sr ch) ch = Init.good := by
  by_cases h : 1 ≤ ch ∧ ch ≤ 2
  · right
    have : ch = 1 ∨ ch = 2 := by omega
    unfold srate2blocksize
    rcases this with rfl | rfl <;> (simp only []; split <;> (try split) <;> (try split) <;> decide)
  · left; exact h

attribute [local simp] WAV AIFF AU RAW PAF SVX NIST VOC IRCAM W64 MAT4 MAT5 PVF XI HTK SDS AVR WAVEX SD2 FLAC CAF WVE
  OGG MPC2K RF64 MPEG TXW DWD REX2 PCM_S8 PCM_16 PCM_24 PCM_32 PCM_U8 FLOAT DOUBLE ULAW ALAW IMA_ADPCM MS_ADPCM GSM610
  VOX_ADPCM NMS_ADPCM_16 NMS_ADPCM_24 NMS_ADPCM_32 G721_32 G723_24 G723_40 DWVW_12 DWVW_16 DWVW_24 DWVW_N DPCM_8 DPCM_16
  VORBIS OPUS ALAC_16 ALAC_20 ALAC_24 ALAC_32 MPEG_LAYER_I MPEG_LAYER_II MPEG_LAYER_III E_FILE E_LITTLE E_BIG E_CPU
  SF_MAX_CHANNELS

set_option hygiene false in
/-- the shared script: `hc : container f = X`, `h : check f ch sr = true`, `hsr : 1 ≤ sr ∨ rateRepaired f` -/
macro "c10_good" : tactic => `(tactic| (
  have he := endian_cases f
  have hs := codec_range f
  have hc0 : container f ≠ 0 := by rw [hc]; decide
  unfold rateRepaired at hsr
  unfold check at h
  unfold Good containerOpen
  simp only [hc] at h hsr ⊢
  simp only [openWav, openAiff, openAu, openCaf, openRaw, openW64, openRf64, openPaf, openSvx, openNist, openVoc, openIrcam,
      openMat4, openMat5, openPvf, openXi, openHtk, openSds, openAvr, openSd2, openWve, openMpc2k, early, hc]
  generalize hsd : codec f = s at *
  generalize endian f = e at *
  simp at h he hsr hm
  all_goals casesm* _ ∧ _, _ ∨ _
  all_goals (try subst s)
  all_goals (try subst e)
  all_goals (try (first | contradiction | omega))
  all_goals (
    have h0 : ¬ ch = 0 := by omega
    have h1 : ¬ ch < 1 := by omega
    have h2 : ¬ 1024 < ch := by omega
    first
    | (have h3 : ¬ sr = 0 := by omega
       simp [aiffHeader, wavFmtChunkOk, wavexFmtChunkOk, auEncodingOk, w64HeaderOk, isAlac, pcmInit, bytewidthOf, res, Init.good, Init.fail,
         float32Init, double64Init, g72xInit, nmsInit, gsm610Init, dwvwInit, alacInit, voxInit, dpcmInit, imaInit, h0, h1, h2, h3])
    | simp [aiffHeader, wavFmtChunkOk, wavexFmtChunkOk, auEncodingOk, w64HeaderOk, isAlac, pcmInit, bytewidthOf, res, Init.good, Init.fail,
         float32Init, double64Init, g72xInit, nmsInit, gsm610Init, dwvwInit, alacInit, voxInit, dpcmInit, imaInit, h0, h1, h2]
    simp [GoodRes, validateSfinfo, validatePsf, hc0, h1, h2, *])
  all_goals (try omega)
  all_goals (
    first
    | (rcases msadpcm_ok sr ch with hh | hh
       · omega
       · simp [hh, Init.good])
    | (have h4 : ¬ 2 < ch := by omega
       have h5 : ch = 1 ∨ ch = 2 := by omega
       simp [h4, h5, GoodRes, validateSfinfo, validatePsf, hc0, h0, h1, h2, *]
       try omega)
    | (have h7 : ¬ 8 < ch := by omega
       simp [alacInit, Init.good, Init.fail, res, h7, GoodRes, validateSfinfo, validatePsf, hc0, h0, h1, h2, *]
       try omega)
    | (have h6 : ch = 1 := by omega
       simp [h6, GoodRes, validateSfinfo, validatePsf, hc0, *]
       try omega))))

variable (f ch sr : Int)

theorem good_wav (hc : container f = WAV) (h : check f ch sr = true) (hsr : 1 ≤ sr ∨ rateRepaired f) (hm : codec f ≠ MPEG_LAYER_III) : Good f ch sr := by c10_good
theorem good_wavex (hc : container f = WAVEX) (h : check f ch sr = true) (hsr : 1 ≤ sr ∨ rateRepaired f) (hm : codec f ≠ MPEG_LAYER_III) : Good f ch sr := by c10_good
theorem good_aiff (hc : container f = AIFF) (h : check f ch sr = true) (hsr : 1 ≤ sr ∨ rateRepaired f) (hm : codec f ≠ MPEG_LAYER_III) : Good f ch sr := by c10_good
theorem good_au (hc : container f = AU) (h : check f ch sr = true) (hsr : 1 ≤ sr ∨ rateRepaired f) (hm : codec f ≠ MPEG_LAYER_III) : Good f ch sr := by c10_good
theorem good_caf (hc : container f = CAF) (h : check f ch sr = true) (hsr : 1 ≤ sr ∨ rateRepaired f) (hm : codec f ≠ MPEG_LAYER_III) : Good f ch sr := by c10_good
theorem good_raw (hc : container f = RAW) (h : check f ch sr = true) (hsr : 1 ≤ sr ∨ rateRepaired f) (hm : codec f ≠ MPEG_LAYER_III) : Good f ch sr := by c10_good
theorem good_paf (hc : container f = PAF) (h : check f ch sr = true) (hsr : 1 ≤ sr ∨ rateRepaired f) (hm : codec f ≠ MPEG_LAYER_III) : Good f ch sr := by c10_good
theorem good_svx (hc : container f = SVX) (h : check f ch sr = true) (hsr : 1 ≤ sr ∨ rateRepaired f) (hm : codec f ≠ MPEG_LAYER_III) : Good f ch sr := by c10_good
theorem good_nist (hc : container f = NIST) (h : check f ch sr = true) (hsr : 1 ≤ sr ∨ rateRepaired f) (hm : codec f ≠ MPEG_LAYER_III) : Good f ch sr := by c10_good
theorem good_ircam (hc : container f = IRCAM) (h : check f ch sr = true) (hsr : 1 ≤ sr ∨ rateRepaired f) (hm : codec f ≠ MPEG_LAYER_III) : Good f ch sr := by c10_good
theorem good_voc (hc : container f = VOC) (h : check f ch sr = true) (hsr : 1 ≤ sr ∨ rateRepaired f) (hm : codec f ≠ MPEG_LAYER_III) : Good f ch sr := by c10_good
theorem good_w64 (hc : container f = W64) (h : check f ch sr = true) (hsr : 1 ≤ sr ∨ rateRepaired f) (hm : codec f ≠ MPEG_LAYER_III) : Good f ch sr := by c10_good
theorem good_mat4 (hc : container f = MAT4) (h : check f ch sr = true) (hsr : 1 ≤ sr ∨ rateRepaired f) (hm : codec f ≠ MPEG_LAYER_III) : Good f ch sr := by c10_good
theorem good_mat5 (hc : container f = MAT5) (h : check f ch sr = true) (hsr : 1 ≤ sr ∨ rateRepaired f) (hm : codec f ≠ MPEG_LAYER_III) : Good f ch sr := by c10_good
theorem good_pvf (hc : container f = PVF) (h : check f ch sr = true) (hsr : 1 ≤ sr ∨ rateRepaired f) (hm : codec f ≠ MPEG_LAYER_III) : Good f ch sr := by c10_good
theorem good_xi (hc : container f = XI) (h : check f ch sr = true) (hsr : 1 ≤ sr ∨ rateRepaired f) (hm : codec f ≠ MPEG_LAYER_III) : Good f ch sr := by c10_good
theorem good_htk (hc : container f = HTK) (h : check f ch sr = true) (hsr : 1 ≤ sr ∨ rateRepaired f) (hm : codec f ≠ MPEG_LAYER_III) : Good f ch sr := by c10_good
theorem good_sds (hc : container f = SDS) (h : check f ch sr = true) (hsr : 1 ≤ sr ∨ rateRepaired f) (hm : codec f ≠ MPEG_LAYER_III) : Good f ch sr := by c10_good
theorem good_avr (hc : container f = AVR) (h : check f ch sr = true) (hsr : 1 ≤ sr ∨ rateRepaired f) (hm : codec f ≠ MPEG_LAYER_III) : Good f ch sr := by c10_good
theorem good_sd2 (hc : container f = SD2) (h : check f ch sr = true) (hsr : 1 ≤ sr ∨ rateRepaired f) (hm : codec f ≠ MPEG_LAYER_III) : Good f ch sr := by c10_good
theorem good_wve (hc : container f = WVE) (h : check f ch sr = true) (hsr : 1 ≤ sr ∨ rateRepaired f) (hm : codec f ≠ MPEG_LAYER_III) : Good f ch sr := by c10_good
theorem good_mpc2k (hc : container f = MPC2K) (h : check f ch sr = true) (hsr : 1 ≤ sr ∨ rateRepaired f) (hm : codec f ≠ MPEG_LAYER_III) : Good f ch sr := by c10_good
theorem good_rf64 (hc : container f = RF64) (h : check f ch sr = true) (hsr : 1 ≤ sr ∨ rateRepaired f) (hm : codec f ≠ MPEG_LAYER_III) : Good f ch sr := by c10_good

end Sf.Fmt
