/-
  `HInv` is preserved by every step function of the handle model, hence by every operation sequence.
-/
import SfProofs.HandleRead
namespace Sf

theorem stepRead_main_fields (h : H) (s : Store) (ty : Ty) (fc : Bool) (n : Int) (hn : 0 < n) (hm : h.mode ≠ .w)
    (ha : fc = true ∨ n % h.ch = 0) (he : h.rpos < h.frames) (hr : 0 ≤ h.rpos) (hch : 0 < h.ch) :
    ∃ rp, 0 ≤ rp ∧ (stepRead h s ty fc n).1 = { h with error := 0, rpos := rp, lastOp := .r } := by
  rw [stepRead_main h s ty fc n hn hm ha he]
  simp only
  split
  · refine ⟨_, ?_, rfl⟩
    have : 0 ≤ ((readGot h s (reqLen h fc n)).length : Int) / (h.nb : Int) / (h.ch : Int) :=
      Int.ediv_nonneg (Int.ediv_nonneg (by omega) (by omega)) (by omega)
    omega
  · exact ⟨h.frames, by omega, rfl⟩

theorem not_aligned_of (fc : Bool) (n : Int) (c : Nat) (ha : ¬ (fc = true ∨ n % (c : Int) = 0)) : fc = false ∧ n % (c : Int) ≠ 0 := by
  cases fc <;> simp_all

theorem HInv_stepRead (h : H) (s : Store) (ty : Ty) (fc : Bool) (n : Int) (hi : HInv h s) :
    HInv (stepRead h s ty fc n).1 (stepRead h s ty fc n).2.1 := by
  by_cases h0 : n = 0
  · subst h0; rw [stepRead_zero]; exact hi
  by_cases hneg : n < 0
  · rw [stepRead_neg _ _ _ _ _ hneg]; exact hi.set_error _
  have hn : 0 < n := by omega
  by_cases hw : h.mode = .w
  · rw [stepRead_wmode _ _ _ _ _ hn hw]; exact hi.set_error _
  by_cases ha : fc = true ∨ n % (h.ch : Int) = 0
  · by_cases he : h.frames ≤ h.rpos
    · rw [stepRead_eof _ _ _ _ _ hn hw ha he]; exact hi.set_error _
    · have he' : h.rpos < h.frames := by omega
      by_cases hm : h.mode = .r
      · obtain ⟨m, hm0, hlen, _, _⟩ := reqLen_frames h fc n hi.ch_pos hn ha
        obtain ⟨R, A, hR, hF, e1, e2, e3, _, _, _, _⟩ := stepRead_rmode h s ty fc n hi hm hn ha he' m hlen
        have hr := hi.rd hm
        rw [e1]
        refine ⟨hi.ch_pos, hi.nb_pos, Int.natCast_nonneg _, hi.wpos_nn, hi.off_nn, fun _ => ⟨rfl, ?_, ?_, ?_⟩⟩
        · simp only [hF]; apply Int.ofNat_le.mpr; omega
        · rw [e2]; exact hr.covers
        · simp only [hF]
          intro hlt
          have hlt' : R + min m A < R + A := Int.ofNat_lt.mp hlt
          have hmA : m < A := by omega
          rw [e3 hmA]
          have hs := hr.sync he'
          have hmin : min m A = m := by omega
          rw [hmin]
          simp only [H.bw] at *
          rw [hR] at hs
          push_cast
          rw [hs]
          push_cast
          rw [Int.add_mul]; omega
      · obtain ⟨rp, hrp, e⟩ := stepRead_main_fields h s ty fc n hn hw ha he' hi.rpos_nn hi.ch_pos
        rw [e]
        exact hi.of_writable (by exact hm) rfl rfl hrp hi.wpos_nn hi.off_nn
  · obtain ⟨hf, hna⟩ := not_aligned_of fc n h.ch ha
    subst hf
    rw [stepRead_align _ _ _ _ hn hw hna]; exact hi.set_error _

/-! ## write -/

theorem HInv_stepWrite (h : H) (s : Store) (ty : Ty) (fc : Bool) (n : Int) (data : List Int) (hi : HInv h s) :
    HInv (stepWrite h s ty fc n data).1 (stepWrite h s ty fc n data).2.1 := by
  by_cases h0 : n = 0
  · subst h0; rw [stepWrite_zero]; exact hi
  by_cases hneg : n < 0
  · rw [stepWrite_neg _ _ _ _ _ _ hneg]; exact hi.set_error _
  have hn : 0 < n := by omega
  by_cases hr : h.mode = .r
  · rw [stepWrite_rmode _ _ _ _ _ _ hn hr]; exact hi.set_error _
  by_cases ha : fc = true ∨ n % (h.ch : Int) = 0
  · obtain ⟨fl, dl, off, de, pk, e, hoff, _⟩ := stepWrite_fields h s ty fc n data hn hr ha
    rw [e]
    refine hi.of_writable (by exact hr) rfl rfl hi.rpos_nn ?_ (hoff hi.off_nn)
    have : 0 ≤ reqLen h fc n / (h.ch : Int) := by
      apply Int.ediv_nonneg _ (by omega)
      unfold reqLen; split
      · exact Int.mul_nonneg (by omega) (by omega)
      · omega
    have := hi.wpos_nn
    show 0 ≤ h.wpos + reqLen h fc n / (h.ch : Int)
    omega
  · obtain ⟨hf, hna⟩ := not_aligned_of fc n h.ch ha
    subst hf
    rw [stepWrite_align _ _ _ _ _ hn hr hna]; exact hi.set_error _

/-! ## seek -/

/-- the three outcomes of `sf_seek` -/
theorem stepSeek_cases (h : H) (s : Store) (off whence : Int) :
    (∃ e, e ≠ 0 ∧ stepSeek h s off whence = seekFail h s e) ∨
    (∃ b, seekBase h whence = some b ∧ seekIsTell h off whence ∧
      ¬ (seekWm whence = 0x20 ∧ h.mode = .r) ∧ ¬ (seekWm whence = 0x10 ∧ h.mode = .w) ∧
      stepSeek h s off whence = seekTell h s b) ∨
    (∃ b, seekBase h whence = some b ∧ ¬ seekIsTell h off whence ∧ 0 ≤ b + off ∧ (h.mode = .r → b + off ≤ h.frames) ∧
      ¬ (seekWm whence = 0x20 ∧ h.mode = .r) ∧ ¬ (seekWm whence = 0x10 ∧ h.mode = .w) ∧
      stepSeek h s off whence =
        (seekMoveH h (seekWm whence) (b + off), defaultSeek h s (b + off), { ret := b + off, err := 0 })) := by
  rw [stepSeek_eq_spec]
  unfold seekSpec
  by_cases c1 : (seekWm whence = 0x20 ∧ h.mode = .r) ∨ (seekWm whence = 0x10 ∧ h.mode = .w)
  · left; exact ⟨E_WRONG_SEEK, by decide, by rw [if_pos c1]⟩
  rw [if_neg c1]
  cases hb : seekBase h whence with
  | none => left; exact ⟨E_BAD_SEEK, by decide, rfl⟩
  | some b =>
    simp only
    by_cases c2 : seekIsTell h off whence
    · right; left; exact ⟨b, rfl, c2, fun hh => c1 (Or.inl hh), fun hh => c1 (Or.inr hh), by rw [if_pos c2]⟩
    rw [if_neg c2]
    by_cases c3 : b + off < 0 ∨ (h.mode = .r ∧ b + off > h.frames)
    · left; exact ⟨E_BAD_SEEK, by decide, by rw [if_pos c3]⟩
    rw [if_neg c3]
    right; right
    refine ⟨b, rfl, c2, by omega, fun hm => ?_, fun hh => c1 (Or.inl hh), fun hh => c1 (Or.inr hh), rfl⟩
    apply Int.not_lt.mp
    intro hlt
    exact c3 (Or.inr ⟨hm, hlt⟩)

theorem seekWm_cases (w : Int) : seekWm w = 0 ∨ seekWm w = 0x10 ∨ seekWm w = 0x20 ∨ seekWm w = 0x30 := by
  unfold seekWm; omega

/-- which cursors a successful repositioning moves -/
theorem seekMoveH_cases (h : H) (wm t : Int) (hwm : wm = 0 ∨ wm = 0x10 ∨ wm = 0x20 ∨ wm = 0x30) :
    let moveR := wm = 0x10 ∨ wm = 0x30 ∨ (wm = 0 ∧ h.mode ≠ .w)
    let moveW := wm = 0x20 ∨ wm = 0x30 ∨ (wm = 0 ∧ h.mode ≠ .r)
    (moveR ∧ ¬ moveW ∧ seekMoveH h wm t = { h with error := 0, rpos := t, lastOp := .r }) ∨
    (¬ moveR ∧ moveW ∧ seekMoveH h wm t = { h with error := 0, wpos := t, lastOp := .w }) ∨
    (moveR ∧ moveW ∧ seekMoveH h wm t = { h with error := 0, rpos := t, wpos := t, lastOp := .r }) := by
  unfold seekMoveH
  rcases hwm with hw | hw | hw | hw <;> subst hw <;> rcases mode_cases h.mode with hm | hm | hm <;>
    simp [hm, modeBits]

theorem HInv_stepSeek (h : H) (s : Store) (off whence : Int) (hi : HInv h s) :
    HInv (stepSeek h s off whence).1 (stepSeek h s off whence).2.1 := by
  rcases stepSeek_cases h s off whence with ⟨e, _, eq⟩ | ⟨b, _, _, _, _, eq⟩ | ⟨b, hb, _, h0, hfr, n1, n2, eq⟩
  · rw [eq]; exact hi.set_error _
  · rw [eq]; exact hi.set_error _
  · rw [eq]
    by_cases hm : h.mode = .r
    · have hr := hi.rd hm
      have hmove : seekMoveH h (seekWm whence) (b + off) = { h with error := 0, rpos := b + off, lastOp := .r } ∨
          seekMoveH h (seekWm whence) (b + off) = { h with error := 0, rpos := b + off, wpos := b + off, lastOp := .r } := by
        rcases seekMoveH_cases h (seekWm whence) (b + off) (seekWm_cases whence) with ⟨_, _, e⟩ | ⟨nr, mw, e⟩ | ⟨_, _, e⟩
        · exact Or.inl e
        · exfalso
          rcases mw with mw | mw | mw
          · exact n1 ⟨mw, hm⟩
          · exact nr (Or.inr (Or.inl mw))
          · exact mw.2 hm
        · exact Or.inr e
      have hpos : (((defaultSeek h s (b + off)).pos : Nat) : Int) = h.dataoffset + (b + off) * (h.bw : Int) := by
        simp only [defaultSeek, Store.seekSet]
        have : 0 ≤ (h.bw : Int) * (b + off) := Int.mul_nonneg (by omega) h0
        have := hi.off_nn
        rw [Int.toNat_of_nonneg (by omega), Int.mul_comm]
      have hbytes : (defaultSeek h s (b + off)).bytes = s.bytes := rfl
      rcases hmove with e | e <;> rw [e]
      · exact ⟨hi.ch_pos, hi.nb_pos, h0, hi.wpos_nn, hi.off_nn,
          fun _ => ⟨rfl, hfr hm, by rw [hbytes]; exact hr.covers, fun _ => hpos⟩⟩
      · exact ⟨hi.ch_pos, hi.nb_pos, h0, h0, hi.off_nn,
          fun _ => ⟨rfl, hfr hm, by rw [hbytes]; exact hr.covers, fun _ => hpos⟩⟩
    · have hrp := hi.rpos_nn
      have hwp := hi.wpos_nn
      rcases seekMoveH_cases h (seekWm whence) (b + off) (seekWm_cases whence) with ⟨_, _, e⟩ | ⟨_, _, e⟩ | ⟨_, _, e⟩ <;>
        rw [e]
      · exact hi.of_writable (by exact hm) rfl rfl h0 hwp hi.off_nn
      · exact hi.of_writable (by exact hm) rfl rfl hrp h0 hi.off_nn
      · exact hi.of_writable (by exact hm) rfl rfl h0 h0 hi.off_nn

/-! ## commands, close -/

theorem stepCmdFlag_rmode (h : H) (s : Store) (cmd : Nat) (size : Int) (hm : h.mode = .r) :
    ∃ cv ah, (stepCmdFlag h s cmd size).1 = { h with error := 0, conv := cv, autoHeader := ah } ∧
      (stepCmdFlag h s cmd size).2.1 = s := by
  unfold stepCmdFlag
  simp only
  split
  all_goals first
    | exact ⟨_, _, rfl, rfl⟩
    | skip
  refine ⟨h.conv, h.autoHeader, ?_, ?_⟩ <;> simp [hm]

theorem HInv_stepCmdFlag (h : H) (s : Store) (cmd : Nat) (size : Int) (hi : HInv h s) :
    HInv (stepCmdFlag h s cmd size).1 (stepCmdFlag h s cmd size).2.1 := by
  by_cases hm : h.mode = .r
  · obtain ⟨cv, ah, e1, e2⟩ := stepCmdFlag_rmode h s cmd size hm
    rw [e1, e2]
    have hr := hi.rd hm
    exact ⟨hi.ch_pos, hi.nb_pos, hi.rpos_nn, hi.wpos_nn, hi.off_nn, fun _ => ⟨hr.lastOp, hr.rpos_le, hr.covers, hr.sync⟩⟩
  · obtain ⟨cv, ah, ⟨fl, dl, off, e, ho⟩, _, _⟩ := stepCmdFlag_fields h s cmd size
    rw [e]
    exact hi.of_writable (by exact hm) rfl rfl hi.rpos_nn hi.wpos_nn (ho hi.off_nn)

theorem HInv_stepTruncate (h : H) (s : Store) (f : Int) (hi : HInv h s) :
    HInv (stepTruncate h s f).1 (stepTruncate h s f).2.1 := by
  by_cases hm : h.mode = .r
  · rw [stepTruncate_rmode _ _ _ hm]; exact hi.set_error _
  cases hc : h.canTruncate
  · rw [stepTruncate_vio _ _ _ hm hc]; exact hi.set_error _
  by_cases hf : 0 ≤ f
  · rw [stepTruncate_ok _ _ _ hm hf]
    have hrp := hi.rpos_nn
    have hwp := hi.wpos_nn
    rcases seekMoveH_cases h 0 f (Or.inl rfl) with ⟨_, _, e⟩ | ⟨_, _, e⟩ | ⟨_, _, e⟩ <;> rw [e] <;> split
    all_goals first
      | exact hi.of_writable (by exact hm) rfl rfl hf hwp hi.off_nn
      | exact hi.of_writable (by exact hm) rfl rfl hrp hf hi.off_nn
      | exact hi.of_writable (by exact hm) rfl rfl hf hf hi.off_nn
  · by_cases hf1 : f = -1
    · subst hf1
      rw [stepTruncate_minus1 _ _ hm]
      split <;> exact hi.of_writable (by exact hm) rfl rfl hi.rpos_nn hi.wpos_nn hi.off_nn
    · rw [stepTruncate_neg _ _ _ hm hc (by omega) hf1]; exact hi.set_error _

theorem HInv_closeHandle (h : H) (s : Store) (hi : HInv h s) : HInv h (closeHandle h s) := by
  by_cases hm : h.mode = .r
  · simp only [closeHandle, hm, beq_self_eq_true, if_true]; exact hi
  · exact hi.of_writable hm rfl rfl hi.rpos_nn hi.wpos_nn hi.off_nn

/-! ## every operation sequence -/

/-- one operation on an open handle (`close` flushes the header; the handle is not used afterwards) -/
def stepAny (h : H) (s : Store) : Op → H × Store × Out
  | .read _ ty fc n => stepRead h s ty fc n
  | .write _ ty fc n data => stepWrite h s ty fc n data
  | .seek _ off whence => stepSeek h s off whence
  | .cmdFlag _ cmd size => stepCmdFlag h s cmd size
  | .truncate _ f => stepTruncate h s f
  | .close _ => (h, closeHandle h s, {})

def runOps (h : H) (s : Store) : List Op → H × Store
  | [] => (h, s)
  | op :: ops => runOps (stepAny h s op).1 (stepAny h s op).2.1 ops

theorem HInv_stepAny (h : H) (s : Store) (op : Op) (hi : HInv h s) :
    HInv (stepAny h s op).1 (stepAny h s op).2.1 := by
  cases op with
  | read _ ty fc n => exact HInv_stepRead h s ty fc n hi
  | write _ ty fc n data => exact HInv_stepWrite h s ty fc n data hi
  | seek _ off whence => exact HInv_stepSeek h s off whence hi
  | cmdFlag _ cmd size => exact HInv_stepCmdFlag h s cmd size hi
  | truncate _ f => exact HInv_stepTruncate h s f hi
  | close _ => exact HInv_closeHandle h s hi

theorem HInv_runOps (ops : List Op) : ∀ (h : H) (s : Store), HInv h s → HInv (runOps h s ops).1 (runOps h s ops).2 := by
  induction ops with
  | nil => intro h s hi; exact hi
  | cons op ops ih => intro h s hi; exact ih _ _ (HInv_stepAny h s op hi)

end Sf
