/-
  SfProofs.AbsBridgeSteps — the bridge, part 4: the SEEK, WRITE, TRUNCATE and flag-command steps (relation and invariant
  kept, answer accepted), and the map from the operations / answers of the concrete model to script / transcript lines.
-/
import SfProofs.AbsBridgeLossless
import SfProofs.AbsCompleteW
namespace Sf.AbsBridge
open Sf

/-! ## script lines and transcript lines of the concrete model -/

/-- the script line of an operation of the concrete model (a flag command is a call the statements are silent about) -/
def absOp : Sf.Op → Abs.Op
  | .read _ ty fc n => .read ty fc n
  | .write _ ty fc n data => .write ty fc n (encBuf ty data)
  | .seek _ off w => .seek off w
  | .cmdFlag _ _ _ => .other
  | .truncate _ n => .trunc n
  | .close _ => .close

/-- the transcript line of its answer -/
def absOut : Sf.Op → Sf.Out → Abs.Out
  | .read _ ty _ _, o => outOfRead ty o
  | _, o => outOf o

/-- the flag commands that change what a decode delivers or an encode stores (SFC_SET_NORM_FLOAT / _DOUBLE,
    SFC_SET_CLIPPING, SFC_SET_SCALE_INT_FLOAT_WRITE): they replace the reference stream, the three statements are about
    one fixed stream -/
def convCmd (cmd : Nat) : Prop := cmd = 0x1013 ∨ cmd = 0x1012 ∨ cmd = 0x10C0 ∨ cmd = 0x1015

instance (cmd : Nat) : Decidable (convCmd cmd) := by unfold convCmd; infer_instance

/-- the lines the predicate judges: a write line supplies the whole requested region (the harness does), and where the
    geometry CLAIMS the caller type lossless (`g.lossless ty`, C01's side condition) the values handed over are values of
    that type and lossless for the encoding; no conversion-setting command; SFC_FILE_TRUNCATE with −1 only where it is
    refused before the seek (on a descriptor route `sf_seek`'s −1 is taken for success and −1 becomes the frame count:
    invalid-argument territory, property C09) -/
def Judged (g : Abs.Geom) (h : H) : Sf.Op → Prop
  | .write _ ty fc n data => (reqLen h fc n).toNat ≤ data.length ∧
      (g.lossless ty = true → h.enc.wf ∧ ∀ v ∈ data.take (reqLen h fc n).toNat, ty.inRange v ∧ lossless h.enc ty v)
  | .cmdFlag _ cmd _ => ¬ convCmd cmd
  | .truncate _ n => n = -1 → h.mode = .r ∨ h.canTruncate = false
  | _ => True

theorem Judged_congr {g : Abs.Geom} {h h' : H} (c : SameCfg h h') (op : Sf.Op) (hj : Judged g h op) : Judged g h' op := by
  cases op <;> simp only [Judged] at hj ⊢
  · unfold reqLen at hj ⊢; rw [c.ch, c.enc]; exact hj
  · exact hj
  · rw [c.mode, c.canTruncate]; exact hj

theorem GeomFor_congr {g : Abs.Geom} {h h' : H} (c : SameCfg h h') (gf : GeomFor g h) : GeomFor g h' :=
  ⟨by rw [c.ch]; exact gf.ch, gf.seekable, by rw [c.canTruncate]; exact gf.canTrunc, gf.ioMayFail, gf.tailClean, gf.holeZero⟩

/-- what one step of the bridge delivers -/
def StepGoal (g : Abs.Geom) (st : Abs.St) (aop : Abs.Op) (ao : Abs.Out) (h' : H) (s' : Store) : Prop :=
  ∃ st', Abs.check g st aop ao = .ok st' ∧ Sim h' s' st' ∧ BInv h' s'

/-! ## seek -/

/-- `sf_seek` changes nothing a decode looks at -/
theorem stepSeek_keeps (h : H) (s : Store) (off whence : Int) :
    (stepSeek h s off whence).1.enc = h.enc ∧ (stepSeek h s off whence).1.conv = h.conv ∧
    (stepSeek h s off whence).1.ch = h.ch ∧ (stepSeek h s off whence).1.dataoffset = h.dataoffset ∧
    (stepSeek h s off whence).1.frames = h.frames ∧ (stepSeek h s off whence).1.mode = h.mode ∧
    (stepSeek h s off whence).2.1.bytes = s.bytes := by
  rcases stepSeek_cases h s off whence with ⟨e, _, eq⟩ | ⟨b, _, _, _, _, eq⟩ | ⟨b, _, _, _, _, _, _, eq⟩
  · rw [eq]; exact ⟨rfl, rfl, rfl, rfl, rfl, rfl, rfl⟩
  · rw [eq]; exact ⟨rfl, rfl, rfl, rfl, rfl, rfl, rfl⟩
  · rw [eq]
    rcases seekMoveH_cases h (seekWm whence) (b + off) (seekWm_cases whence) with ⟨_, _, e⟩ | ⟨_, _, e⟩ | ⟨_, _, e⟩ <;>
      rw [e] <;> exact ⟨rfl, rfl, rfl, rfl, rfl, rfl, rfl⟩

/-- the RDWR invariant survives every `sf_seek`, whatever the whence value -/
theorem RwInv_stepSeek (h : H) (s : Store) (off whence : Int) (inv : RwInv h s) :
    RwInv (stepSeek h s off whence).1 (stepSeek h s off whence).2.1 := by
  obtain ⟨R, W, F, hdr, D, v⟩ := inv
  have hm := v.mode
  have key : ∀ (w : Whence) (p : Ptr), RwInv (stepSeek h s off (whenceCode w p)).1 (stepSeek h s off (whenceCode w p)).2.1 :=
    fun w p => (v.seek_refines w p off).2.2.1
  by_cases hk : seekKnown whence
  · unfold seekKnown at hk
    rcases hk with hw | hw | hw | hw | hw | hw | hw | hw | hw | hw <;> subst hw
    · exact key .set .both
    · exact key .set .rd
    · exact key .set .wr
    · rw [(seek_sfm_rdwr h s hm off).1]; exact key .set .both
    · exact key .cur .both
    · exact key .cur .rd
    · exact key .cur .wr
    · exact key .fromEnd .both
    · exact key .fromEnd .rd
    · exact key .fromEnd .wr
  · unfold seekKnown at hk
    simp only [not_or] at hk
    obtain ⟨a0, a1, a2, a3, a4, a5, a6, a7, a8, a9⟩ := hk
    have hb : Sf.seekBase h whence = none := by
      simp [Sf.seekBase, a0, a1, a2, a3, a4, a5, a6, a7, a8, a9]
    rw [stepSeek_eq_spec]
    unfold seekSpec
    rw [hb]
    split
    · exact ⟨R, W, F, hdr, D, v.setError _⟩
    · exact ⟨R, W, F, hdr, D, v.setError _⟩

theorem seek_step (g : Abs.Geom) (h : H) (s : Store) (st : Abs.St) (off whence : Int)
    (gf : GeomFor g h) (bi : BInv h s) (sim : Sim h s st) :
    StepGoal g st (.seek off whence) (outOf (stepSeek h s off whence).2.2) (stepSeek h s off whence).1 (stepSeek h s off whence).2.1 := by
  have hi := bi.hinv
  have hsg := seek_bridge g h s st off whence gf.seekable sim.mode sim.frames sim.rpos sim.wpos
    (fun hm => (hi.rd hm).rpos_le) hi.rpos_nn hi.wpos_nn
  rw [← stepSeek_eq_spec] at hsg
  obtain ⟨st', hok, e1, e2, e3, e4, e5, e6⟩ := hsg
  obtain ⟨k1, k2, k3, k4, k5, k6, k7⟩ := stepSeek_keeps h s off whence
  refine ⟨st', hok, ⟨by rw [e1, k6]; exact sim.mode, by rw [e2, k5]; exact sim.frames, fun hm => e5 (by rw [← k6]; exact hm),
    fun hm => e6 (by rw [← k6]; exact hm), fun hm t hv => ?_⟩, ⟨HInv_stepSeek h s off whence hi, by rw [k5]; exact bi.frames_nn,
    fun hm => RwInv_stepSeek h s off whence (bi.rw (by rw [← k6]; exact hm))⟩⟩
  rw [e3, absRef_congr h _ s _ t k1 k2 k3 k4 k5 k7]
  exact sim.ref (by rw [← k6]; exact hm) t (by rw [← e4]; exact hv)

/-! ## write -/

theorem write_invalid_goal (g : Abs.Geom) (h : H) (s : Store) (st : Abs.St) (ty : Ty) (fc : Bool) (n : Int) (e : Int)
    (data : List Int) (bi : BInv h s) (sim : Sim h s st) (he : e ≠ 0) (hn : n ≠ 0)
    (hinv : Abs.validReq g fc n = false ∨ st.mode = .r)
    (hs : stepWrite h s ty fc n data = ({ h with error := e }, s, { ret := 0, err := e })) :
    StepGoal g st (.write ty fc n (encBuf ty data)) (outOf (stepWrite h s ty fc n data).2.2)
      (stepWrite h s ty fc n data).1 (stepWrite h s ty fc n data).2.1 := by
  rw [hs]
  refine ⟨{ st with err := true }, ?_, sim.set_err e true, bi.set_error e⟩
  exact Abs.writeOk_complete_invalid g st ty fc n _ _ hn hinv rfl (by simp [outOf, he])

theorem absMode_r {m : Sf.Mode} (h : m = .r) : absMode m = .r := by subst h; rfl
theorem absMode_ne_r {m : Sf.Mode} (h : m ≠ .r) : absMode m ≠ .r := by cases m <;> simp_all [absMode]

theorem write_step (hwid : WidenExact) (g : Abs.Geom) (h : H) (s : Store) (st : Abs.St) (ty : Ty) (fc : Bool) (n : Int) (data : List Int)
    (gf : GeomFor g h) (bi : BInv h s) (sim : Sim h s st) (hd : (reqLen h fc n).toNat ≤ data.length)
    (hloss : g.lossless ty = true → h.enc.wf ∧ ∀ v ∈ data.take (reqLen h fc n).toNat, ty.inRange v ∧ lossless h.enc ty v) :
    StepGoal g st (.write ty fc n (encBuf ty data)) (outOf (stepWrite h s ty fc n data).2.2)
      (stepWrite h s ty fc n data).1 (stepWrite h s ty fc n data).2.1 := by
  have hi := bi.hinv
  have hch := hi.ch_pos
  by_cases h0 : n = 0
  · subst h0
    rw [stepWrite_zero]
    exact ⟨st, Abs.writeOk_complete_zero g st ty fc _ _ rfl, sim, bi⟩
  by_cases hneg : n < 0
  · exact write_invalid_goal g h s st ty fc n E_NEG_LEN data bi sim (by decide) h0
      (Or.inl (by unfold Abs.validReq; simp; omega)) (stepWrite_neg h s ty fc n data hneg)
  have hn : 0 < n := by omega
  by_cases hr : h.mode = .r
  · exact write_invalid_goal g h s st ty fc n E_NOT_WRITEMODE data bi sim (by decide) h0
      (Or.inr (by rw [sim.mode]; exact absMode_r hr)) (stepWrite_rmode h s ty fc n data hn hr)
  by_cases ha' : ¬ (fc = true ∨ n % (h.ch : Int) = 0)
  · obtain ⟨hf, hna⟩ := not_aligned_of fc n h.ch ha'
    subst hf
    exact write_invalid_goal g h s st ty false n E_BAD_ALIGN data bi sim (by decide) h0
      (Or.inl (by unfold Abs.validReq; rw [gf.ch]; simp [hna])) (stepWrite_align h s ty n data hn hr hna)
  have ha : fc = true ∨ n % (h.ch : Int) = 0 := Decidable.not_not.mp ha'
  -- a valid request: C05.write_contract
  obtain ⟨m, hm0, hnm, hreq⟩ := valid_frames h fc n hch hn ha
  obtain ⟨c1, c2, c3, c4, c5, c6, c7, c8, c9⟩ := write_contract_valid h s ty fc n data hi hn hr ha
  have hfo : framesOf h fc n = m := by rw [hnm]; exact framesOf_callCount h fc m hch
  rw [hfo] at c4
  have hstm : st.mode ≠ .r := by rw [sim.mode]; exact absMode_ne_r hr
  have hlen : m * h.ch ≤ data.length := by rw [hreq, Int.toNat_natCast] at hd; exact hd
  have hacc := Abs.writeOk_complete g st ty fc n (encBuf ty data) (outOf (stepWrite h s ty fc n data).2.2) m
    (by rw [gf.ch]; exact hch) hstm (by rw [gf.ch, hnm]; rfl) hm0
    (by rw [encBuf_size, gf.ch]; exact Nat.mul_le_mul_right _ hlen) c1 (by simp [outOf, c2])
  refine ⟨_, hacc, ⟨?_, ?_, fun hm => ?_, fun hm => ?_, fun hm t hv => ?_⟩, ⟨HInv_stepWrite h s ty fc n data hi, ?_, fun hm => ?_⟩⟩
  · simp only [Abs.afterWrite]; rw [c8]; exact sim.mode
  · simp only [Abs.afterWrite]; rw [c5, c4]
    have := sim.frames; have := sim.wpos hr; omega
  · simp only [Abs.afterWrite]; rw [c6]; exact sim.rpos (by rw [← c8]; exact hm)
  · simp only [Abs.afterWrite]; rw [c4]; have := sim.wpos hr; omega
  · -- the stream is still claimed after the write: lossless type, known before, no hole — it IS the decoded data region
    simp only [Abs.afterWrite, gf.holeZero, Bool.or_false, Bool.and_eq_true, decide_eq_true_eq] at hv ⊢
    obtain ⟨htt, ⟨hlo, hvt⟩, hle⟩ := hv
    subst htt
    simp only [if_true]
    have hmrw : h.mode = .rw := by
      rcases mode_cases h.mode with hx | hx | hx
      · exact absurd hx hr
      · rw [c8] at hm; exact absurd hx hm
      · exact hx
    have inv := bi.rw hmrw
    obtain ⟨hwf, hvals⟩ := hloss hlo
    have htl : (data.take (reqLen h fc n).toNat).length = m * h.ch := by
      rw [List.length_take, hreq, Int.toNat_natCast]; omega
    have hWF : h.wpos ≤ h.frames := by have := sim.frames; have := sim.wpos hr; omega
    have key := write_ref_lossless hwid h s inv t fc (data.take (reqLen h fc n).toNat) m hm0 htl hwf
      (fun v hv => (hvals v hv).1) (fun v hv => (hvals v hv).2) hWF
    simp only [ROp.toOp, stepAny, htl, Nat.mul_div_cancel _ hch, ← hnm] at key
    rw [← write_take_self] at key
    rw [key, sim.ref (by rw [hmrw]; decide) t hvt]
    have hwn : st.wpos = h.wpos.toNat := by have := sim.wpos hr; omega
    have hcpf : g.cpf t = h.ch * Abs.cells t := by unfold Abs.Geom.cpf; rw [gf.ch]
    rw [hwn, hcpf, gf.ch, encBuf_extract_zero, hreq, Int.toNat_natCast]
  · rw [c5, c4]; have := bi.frames_nn; omega
  · -- read/write handle: the RDWR refinement step keeps `RwInv`
    have hmrw : h.mode = .rw := by rw [← c8]; exact hm
    have inv := bi.rw hmrw
    have htl : (data.take (reqLen h fc n).toNat).length = m * h.ch := by
      rw [List.length_take, hreq, Int.toNat_natCast]; omega
    have step := (rdwr_step h s (.write ty fc (data.take (reqLen h fc n).toNat)) inv
      (by simp only [ROp.ok]; rw [htl]; exact Nat.mul_mod_left _ _)).2.1
    simp only [ROp.toOp, stepAny, htl, Nat.mul_div_cancel _ hch, ← hnm] at step
    rw [← write_take_self] at step
    exact step

end Sf.AbsBridge
