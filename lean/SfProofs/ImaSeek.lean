/-
  SfProofs.ImaSeek — the decoded stream of an IMA ADPCM file as a function of the item index (`item`, `slice`) and the induction that ties
  `ima_read_block` as written (lean/SfModel/ImaSeek.lean `readLoop`) to it: `readLoop_slice`.  Property theorems: lean/SfProps/C06ImaSeek.lean.
-/
import SfModel.ImaSeek
namespace Sf.ImaSeek

/-- item `i` of the decoded stream of the file (frame-major, channel-minor), 0 behind its end -/
def item (c : Cfg) (i : Nat) : Int := (c.src (i / (c.spb * c.ch) * c.unit)).getD (i % (c.spb * c.ch)) 0

/-- items [p, p + n) of the stream -/
def slice (c : Cfg) (p n : Nat) : List Int := (List.range n).map fun i => item c (p + i)

theorem slice_append (c : Cfg) (p n m : Nat) : slice c p (n + m) = slice c p n ++ slice c (p + n) m := by
  simp [slice, List.range_add, List.map_append, Nat.add_assoc]

theorem take_drop_eq_map (l : List Int) (a m : Nat) (h : a + m ≤ l.length) :
    (l.drop a).take m = (List.range m).map fun i => l.getD (a + i) 0 := by
  apply List.ext_getElem
  · simp; omega
  · intro i h1 h2
    simp at h1 h2 ⊢
    rw [List.getElem?_eq_getElem (by omega)]
    simp


theorem item_in_block (c : Cfg) (hpos : 0 < c.spb * c.ch) (b r : Nat) (hr : r < c.spb * c.ch) :
    item c (b * (c.spb * c.ch) + r) = (c.src (b * c.unit)).getD r 0 := by
  unfold item
  have h1 : (b * (c.spb * c.ch) + r) / (c.spb * c.ch) = b := by
    rw [Nat.mul_comm b, Nat.mul_add_div hpos, Nat.div_eq_of_lt hr, Nat.add_zero]
  have h2 : (b * (c.spb * c.ch) + r) % (c.spb * c.ch) = r := by
    rw [Nat.mul_comm b, Nat.mul_add_mod, Nat.mod_eq_of_lt hr]
  rw [h1, h2]

/-- a piece copied out of the loaded block is the stream's slice at that position -/
theorem piece_eq_slice (c : Cfg) (nb : Nat) (h : c.Wf nb) (b cnt g : Nat) (hg : cnt + g ≤ c.spb) :
    ((c.src (b * c.unit)).drop (cnt * c.ch)).take (g * c.ch) = slice c ((b * c.spb + cnt) * c.ch) (g * c.ch) := by
  have hlen := h.len (b * c.unit)
  have hle : cnt * c.ch + g * c.ch ≤ c.spb * c.ch := by rw [← Nat.add_mul]; exact Nat.mul_le_mul_right _ hg
  rw [take_drop_eq_map _ _ _ (by omega)]
  unfold slice
  apply List.map_congr_left
  intro i hi
  have hi' : i < g * c.ch := by simpa using hi
  have hpos : 0 < c.spb * c.ch := Nat.mul_pos h.spb_pos h.ch_pos
  have : (b * c.spb + cnt) * c.ch + i = b * (c.spb * c.ch) + (cnt * c.ch + i) := by
    rw [Nat.add_mul, Nat.mul_assoc, Nat.add_assoc]
  rw [this, item_in_block c hpos b _ (by omega)]


theorem decode_next (c : Cfg) (nb : Nat) (h : c.Wf nb) (b cnt : Nat) (hb : b + 2 ≤ nb) :
    decodeBlock c (atBlock c b cnt) = atBlock c (b + 1) 0 := by
  have hbl := h.blocks
  have e : (b + 1 + 1) * c.unit = (b + 1) * c.unit + c.unit := by rw [Nat.add_mul (b + 1) 1, Nat.one_mul]
  have : ¬ ((b + 1) * c.unit + c.unit > nb * c.unit) := by
    have h2 : (b + 2) * c.unit ≤ nb * c.unit := Nat.mul_le_mul_right _ hb
    have e2 : (b + 2) * c.unit = (b + 1) * c.unit + c.unit := e
    omega
  simp [decodeBlock, atBlock, hbl, this, e]

/-- one pass of `ima_read_block` from inside a block (`cnt < spb`): the piece, then the loop goes on behind it -/
theorem readLoop_in_block (c : Cfg) (fuel b cnt f : Nat) (hch : 0 < c.ch) (hc : cnt < c.spb) (hf : 0 < f) :
    readLoop c (fuel + 1) (atBlock c b cnt) (f * c.ch) =
      let g := min (c.spb - cnt) f
      let r := readLoop c fuel (atBlock c b (cnt + g)) ((f - g) * c.ch)
      (r.1, ((c.src (b * c.unit)).drop (cnt * c.ch)).take (g * c.ch) ++ r.2.1, g * c.ch + r.2.2) := by
  have hn : f * c.ch ≠ 0 := Nat.ne_of_gt (Nat.mul_pos hf hch)
  have hc' : ¬ c.spb ≤ cnt := by omega
  have hmin : min ((c.spb - cnt) * c.ch) (f * c.ch) = min (c.spb - cnt) f * c.ch := Nat.mul_min_mul_right _ _ _
  simp only [readLoop, hn, if_false, atBlock, ge_iff_le, hc', and_false, hmin, Nat.mul_div_cancel _ hch, ← Nat.sub_mul]


/-- `ima_read_block` from any state a handle can be in (block `b` loaded, `cnt ≤ spb` of its frames consumed — `cnt = spb`: the lazy state at a
    block end) delivers the next `f` frames of the stream and leaves such a state at the position `f` frames on, for every `f` inside the data -/
theorem readLoop_slice (c : Cfg) (nb : Nat) (h : c.Wf nb) : ∀ (fuel b cnt f : Nat), cnt ≤ c.spb → b < nb →
    b * c.spb + cnt + f ≤ nb * c.spb → f < fuel →
    ∃ b2 cnt2, cnt2 ≤ c.spb ∧ b2 < nb ∧ b2 * c.spb + cnt2 = b * c.spb + cnt + f ∧
      readLoop c fuel (atBlock c b cnt) (f * c.ch) = (atBlock c b2 cnt2, slice c ((b * c.spb + cnt) * c.ch) (f * c.ch), f * c.ch) := by
  have hch := h.ch_pos
  have hs := h.spb_pos
  have hu := h.unit_pos
  intro fuel
  induction fuel with
  | zero => intro b cnt f _ _ _ hf; omega
  | succ fuel ih =>
    intro b cnt f hc hb hle hf
    by_cases hf0 : f = 0
    · subst hf0; exact ⟨b, cnt, hc, hb, by omega, by simp [readLoop, slice]⟩
    have hfpos : 0 < f := Nat.pos_of_ne_zero hf0
    -- the step from inside a block, shared by both cases
    have step : ∀ b' cnt', cnt' < c.spb → b' < nb → b' * c.spb + cnt' + f ≤ nb * c.spb →
        ∃ b2 cnt2, cnt2 ≤ c.spb ∧ b2 < nb ∧ b2 * c.spb + cnt2 = b' * c.spb + cnt' + f ∧
          readLoop c (fuel + 1) (atBlock c b' cnt') (f * c.ch) = (atBlock c b2 cnt2, slice c ((b' * c.spb + cnt') * c.ch) (f * c.ch), f * c.ch) := by
      intro b' cnt' hc' hb' hle'
      rw [readLoop_in_block c fuel b' cnt' f hch hc' hfpos]
      have hg1 : 1 ≤ min (c.spb - cnt') f := by
        have : 1 ≤ c.spb - cnt' := by omega
        exact Nat.le_min.mpr ⟨this, hfpos⟩
      have hgf : min (c.spb - cnt') f ≤ f := Nat.min_le_right _ _
      have hgs : min (c.spb - cnt') f ≤ c.spb - cnt' := Nat.min_le_left _ _
      generalize min (c.spb - cnt') f = g at hg1 hgf hgs
      obtain ⟨b2, cnt2, h1, h2, h3, hr⟩ := ih b' (cnt' + g) (f - g) (by omega) hb' (by omega) (by omega)
      refine ⟨b2, cnt2, h1, h2, by omega, ?_⟩
      simp only [hr]
      rw [piece_eq_slice c nb h b' cnt' g (by omega)]
      have e1 : (b' * c.spb + (cnt' + g)) * c.ch = (b' * c.spb + cnt') * c.ch + g * c.ch := by
        rw [← Nat.add_assoc, Nat.add_mul (b' * c.spb + cnt') g]
      have e2 : f * c.ch = g * c.ch + (f - g) * c.ch := by rw [← Nat.add_mul]; congr 1; omega
      rw [e1, ← slice_append, ← e2]
    by_cases hcs : cnt < c.spb
    · exact step b cnt hcs hb hle
    · -- the lazy state: the loaded block is used up; decode the next one first
      have hce : cnt = c.spb := by omega
      subst hce
      have hb2 : b + 2 ≤ nb := by
        have h1 : (b + 1) * c.spb < nb * c.spb := by rw [Nat.add_mul, Nat.one_mul]; omega
        have := Nat.lt_of_mul_lt_mul_right h1
        omega
      have hn : f * c.ch ≠ 0 := Nat.ne_of_gt (Nat.mul_pos hfpos hch)
      have hA : ¬ (c.blocks ≤ (atBlock c b c.spb).blockcount) := by
        have : (b + 2) * c.unit ≤ nb * c.unit := Nat.mul_le_mul_right _ hb2
        have e : (b + 2) * c.unit = (b + 1) * c.unit + c.unit := by rw [show b + 2 = b + 1 + 1 from rfl, Nat.add_mul (b + 1) 1, Nat.one_mul]
        simp [atBlock, h.blocks]; omega
      have key : readLoop c (fuel + 1) (atBlock c b c.spb) (f * c.ch) = readLoop c (fuel + 1) (atBlock c (b + 1) 0) (f * c.ch) := by
        have hd := decode_next c nb h b c.spb hb2
        have hsc : (atBlock c b c.spb).samplecount = c.spb := rfl
        have hsc0 : (atBlock c (b + 1) 0).samplecount = 0 := rfl
        rw [readLoop, readLoop]
        simp only [hn, if_false, ge_iff_le, hsc, hsc0, Nat.le_refl, if_true, hd, Nat.not_le.mpr hs, and_true, and_false, hA]
      rw [key]
      have e3 : (b + 1) * c.spb + 0 = b * c.spb + c.spb := by rw [Nat.add_mul, Nat.one_mul, Nat.add_zero]
      obtain ⟨b2, cnt2, h1, h2, h3, hr⟩ := step (b + 1) 0 hs (by omega) (by omega)
      exact ⟨b2, cnt2, h1, h2, by omega, by rw [hr, e3]⟩


end Sf.ImaSeek
