/-
  SfProofs.RdwrInv — the invariant of a read/write handle (`RwInv`), the abstraction map (`absOf`) to the abstract
  file of SfProofs/RdwrSpec.lean, and the effect of a header rewrite on both.
-/
import SfProofs.HandlePres
import SfProofs.CodecWriter
import SfProofs.RdwrBytes
namespace Sf

/-! ## invariant -/

/-- the PEAK table, if the handle carries one (WAV float / double data written in SFM_WRITE mode and opened SFM_RDWR):
    one entry per channel, and the chunk sits in front of the data (so the header length counts it) -/
def PeakOk (h : H) : Prop := ∀ ps, h.peak = some ps → ps.length = h.ch ∧ h.peakAtStart = true

/-- what may follow the audio data in the store: nothing, or — in a WAV only — one zero byte: the RIFF pad byte behind an
    odd-length data chunk -/
def TailOk (h : H) (t : Nat) : Prop := t = 0 ∨ (t = 1 ∧ h.container = .wav)

/-- A read/write handle between two API calls, seen through natural numbers: read position `R`, write position `W`,
    frame count `F`; the store is `hdr ++ D ++ zeros t` with `hdr` the header region, `D` exactly `F` frames of audio
    and `t ≤ 1` zero bytes behind it (`TailOk`).  `s.pos` is where the last operation left the descriptor. -/
structure RwView (h : H) (s : Store) (R W F : Nat) (hdr D : List Byte) : Prop where
  mode : h.mode = .rw
  ch_pos : 0 < h.ch
  nb_pos : 0 < h.enc.nbytes
  rpos : h.rpos = R
  wpos : h.wpos = W
  frames : h.frames = F
  doff : h.dataoffset = (hdrLenOf h : Nat)
  peak : PeakOk h
  dataend : h.container ≠ .wav → h.dataend = 0
  bytes : ∃ t, s.bytes = hdr ++ (D ++ zeros t) ∧ TailOk h t
  hlen : hdr.length = hdrLenOf h
  dlen : D.length = F * h.bw
  posGe : hdrLenOf h ≤ s.pos
  syncW : h.lastOp = .w → s.pos = hdrLenOf h + W * h.bw
  syncR : h.lastOp = .r → R < F → s.pos = hdrLenOf h + R * h.bw

/-- the invariant: positions and frame count are non-negative, the data offset is the header length the container
    writes, a PEAK table (if any) of one entry per channel in front of the data, `dataend = 0` (RAW, AU), the store holds the header region followed by exactly `frames`
    whole frames and at most the zero pad byte (WAV), and the descriptor position agrees with the pointer of the
    last operation -/
def RwInv (h : H) (s : Store) : Prop := ∃ R W F hdr D, RwView h s R W F hdr D

theorem RwView.bw_pos {h : H} {s : Store} {R W F : Nat} {hdr D : List Byte} (v : RwView h s R W F hdr D) : 0 < h.bw :=
  Nat.mul_pos v.nb_pos v.ch_pos

/-- `RwInv` implies the general handle invariant of C05 -/
theorem RwInv.toHInv {h : H} {s : Store} (i : RwInv h s) : HInv h s := by
  obtain ⟨R, W, F, hdr, D, v⟩ := i
  refine ⟨v.ch_pos, v.nb_pos, by rw [v.rpos]; omega, by rw [v.wpos]; omega, by rw [v.doff]; omega, ?_⟩
  intro hm; rw [v.mode] at hm; cases hm

/-- in plain terms -/
theorem RwInv.gives {h : H} {s : Store} (i : RwInv h s) :
    h.mode = .rw ∧ 0 < h.ch ∧ 0 < h.enc.nbytes ∧ 0 ≤ h.rpos ∧ 0 ≤ h.wpos ∧ 0 ≤ h.frames ∧
    h.dataoffset = (hdrLenOf h : Nat) ∧ PeakOk h ∧ (h.container ≠ .wav → h.dataend = 0) ∧
    (∃ t : Nat, (s.bytes.length : Int) = h.dataoffset + h.frames * (h.bw : Int) + t ∧ (t = 0 ∨ (t = 1 ∧ h.container = .wav)) ∧
      s.bytes.drop (s.bytes.length - t) = zeros t) ∧
    h.dataoffset ≤ (s.pos : Int) ∧
    (h.lastOp = .w → (s.pos : Int) = h.dataoffset + h.wpos * (h.bw : Int)) ∧
    (h.lastOp = .r → h.rpos < h.frames → (s.pos : Int) = h.dataoffset + h.rpos * (h.bw : Int)) := by
  obtain ⟨R, W, F, hdr, D, v⟩ := i
  refine ⟨v.mode, v.ch_pos, v.nb_pos, by rw [v.rpos]; omega, by rw [v.wpos]; omega, by rw [v.frames]; omega,
    v.doff, v.peak, v.dataend, ?_, ?_, ?_, ?_⟩
  · obtain ⟨t, hb, ht⟩ := v.bytes
    refine ⟨t, ?_, ht, ?_⟩
    · rw [hb, List.length_append, List.length_append, zeros_length, v.hlen, v.dlen, v.doff, v.frames]; push_cast; omega
    · rw [hb, ← List.append_assoc, List.length_append, zeros_length, Nat.add_sub_cancel, List.drop_left' rfl]
  · rw [v.doff]; exact Int.ofNat_le.mpr v.posGe
  · intro hl; rw [v.syncW hl, v.doff, v.wpos]; push_cast; rfl
  · intro hl hlt
    rw [v.rpos, v.frames] at hlt
    rw [v.syncR hl (by omega), v.doff, v.rpos]; push_cast; rfl

/-! ## abstraction map -/

/-- the audio data section of the store: `frames` frames from the data offset -/
def dataRegion (h : H) (s : Store) : List Byte :=
  (s.bytes.drop h.dataoffset.toNat).take (h.frames.toNat * h.bw)

/-- the abstract file a handle and its store stand for: the stored frames (`bw` bytes each), the two positions -/
def absOf (h : H) (s : Store) : AbsFile (List Byte) :=
  { frames := groups h.bw (dataRegion h s), rpos := h.rpos.toNat, wpos := h.wpos.toNat }

theorem RwView.dataRegion {h : H} {s : Store} {R W F : Nat} {hdr D : List Byte} (v : RwView h s R W F hdr D) :
    dataRegion h s = D := by
  unfold Sf.dataRegion
  obtain ⟨t, hb, _⟩ := v.bytes
  rw [hb, v.doff, v.frames, Int.toNat_natCast, Int.toNat_natCast, ← v.hlen, List.drop_left' rfl, ← v.dlen,
    List.take_left' rfl]

theorem RwView.abs {h : H} {s : Store} {R W F : Nat} {hdr D : List Byte} (v : RwView h s R W F hdr D) :
    absOf h s = { frames := groups h.bw D, rpos := R, wpos := W } := by
  unfold absOf
  rw [v.dataRegion, v.rpos, v.wpos]; rfl

theorem RwView.nframes {h : H} {s : Store} {R W F : Nat} {hdr D : List Byte} (v : RwView h s R W F hdr D) :
    (groups h.bw D).length = F := by
  rw [groups_length' _ v.bw_pos, v.dlen, Nat.mul_div_cancel _ v.bw_pos]

/-- every frame of the abstract file is `bw` bytes -/
theorem RwView.frame_len {h : H} {s : Store} {R W F : Nat} {hdr D : List Byte} (v : RwView h s R W F hdr D) :
    ∀ g ∈ groups h.bw D, g.length = h.bw :=
  groups_mem_length _ v.bw_pos _ D rfl

/-! ## a header rewrite changes neither -/

theorem hdrLenOf_upd (h : H) (fl dl : Int) : hdrLenOf { h with filelength := fl, datalength := dl } = hdrLenOf h := by
  unfold hdrLenOf
  cases h.container <;> simp only []
  exact wavHdrLen_congr _ _ rfl rfl rfl

/-- `xxx_write_header` on a store `hdr ++ D` positioned at or after the header: only the two length fields of the
    handle and the header region of the store change; the position is restored -/
theorem writeHeader_shape (h : H) (s : Store) (cl : Bool) (hdr D : List Byte) (hb : s.bytes = hdr ++ D)
    (hl : hdr.length = hdrLenOf h) (hdo : h.dataoffset = (hdrLenOf h : Nat)) (hp : hdrLenOf h ≤ s.pos) :
    ∃ fl dl hdr', Sf.writeHeader h s cl = ({ h with filelength := fl, datalength := dl }, { bytes := hdr' ++ D, pos := s.pos }) ∧
      hdr'.length = hdrLenOf h := by
  have h2 := writeHeader_snd h s cl hdr D hb hl hdo hp
  have h1 := writeHeader_fst_cw h s cl
  refine ⟨(recalc h s.bytes.length cl).filelength, (recalc h s.bytes.length cl).datalength,
    hdrOf (recalc h s.bytes.length cl), ?_, by rw [hdrOf_length, recalc_hdrLen]⟩
  rw [Prod.ext_iff]
  refine ⟨?_, h2⟩
  rw [h1]
  have hd : (recalc h s.bytes.length cl).dataoffset = h.dataoffset := by
    rw [recalc_dataoffset, hdo]
    unfold hdrLenOf
    cases h.container <;> simp
  -- `recalc` touches exactly three fields
  unfold recalc at hd ⊢
  cases hc : h.container <;> cases cl <;> simp only [hc] at hd ⊢ <;> (try simp_all) <;>
    (ext <;> simp_all)

/-- the part of the store behind the header region: the data and the tail -/
theorem RwView.body {h : H} {s : Store} {R W F : Nat} {hdr D : List Byte} (v : RwView h s R W F hdr D) :
    s.bytes = hdr ++ s.bytes.drop hdr.length := by
  obtain ⟨t, hb, _⟩ := v.bytes
  rw [hb, List.drop_left' rfl]

theorem RwView.writeHeader {h : H} {s : Store} {R W F : Nat} {hdr D : List Byte} (v : RwView h s R W F hdr D)
    (cl : Bool) :
    ∃ fl dl hdr', Sf.writeHeader h s cl =
        ({ h with filelength := fl, datalength := dl }, { bytes := hdr' ++ s.bytes.drop hdr.length, pos := s.pos }) ∧
      hdr'.length = hdrLenOf h :=
  writeHeader_shape h s cl hdr _ v.body v.hlen v.doff v.posGe

/-- the view survives any change of the handle fields it does not read and any store with the same data section and
    tail, header length and position -/
theorem RwView.upd_lengths {h : H} {s : Store} {R W F : Nat} {hdr D : List Byte} (v : RwView h s R W F hdr D)
    (fl dl : Int) (hdr' : List Byte) (hl : hdr'.length = hdrLenOf h) :
    RwView { h with filelength := fl, datalength := dl } { bytes := hdr' ++ s.bytes.drop hdr.length, pos := s.pos }
      R W F hdr' D := by
  have e := hdrLenOf_upd h fl dl
  obtain ⟨t, hb, ht⟩ := v.bytes
  exact ⟨v.mode, v.ch_pos, v.nb_pos, v.rpos, v.wpos, v.frames, by rw [e]; exact v.doff, v.peak, v.dataend,
    ⟨t, by rw [hb, List.drop_left' rfl], ht⟩,
    by rw [e]; exact hl, v.dlen, by rw [e]; exact v.posGe, by rw [e]; exact v.syncW, by rw [e]; exact v.syncR⟩

/-- a (conditional) header rewrite keeps the view, with a new header region -/
theorem RwView.condHeader {h : H} {s : Store} {R W F : Nat} {hdr D : List Byte} (v : RwView h s R W F hdr D)
    (c : Prop) [Decidable c] (cl : Bool) :
    ∃ fl dl hdr', (if c then Sf.writeHeader h s cl else (h, s)) =
        ({ h with filelength := fl, datalength := dl }, { bytes := hdr' ++ s.bytes.drop hdr.length, pos := s.pos }) ∧
      hdr'.length = hdrLenOf h := by
  by_cases hc : c
  · rw [if_pos hc]; exact v.writeHeader cl
  · rw [if_neg hc]
    exact ⟨h.filelength, h.datalength, hdr, by rw [← v.body], v.hlen⟩

end Sf
