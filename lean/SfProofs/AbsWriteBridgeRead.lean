/-
  SfProofs.AbsWriteBridgeRead — the read-back of a re-opened file on the concrete handle model (Sf.Handle): what
  `openHandle … .r` leaves in the fields the C04 / C11 theorems do not mention (`open_r_fields`), and what the campaign's
  two read calls deliver on a file whose data region is known (`readBack_spec`: a read of more than the file holds
  delivers exactly F·ch items — the decoded data region — and a further read delivers 0).  Both rest on C05's
  `stepRead_rmode` / `read_at_end`.
-/
import SfProofs.AbsWriteBridge
import SfProps.C05
namespace Sf.AbsWriteBridge
open Sf

/-- a read-only open: mode, positions, conversion settings, and the store is positioned at the data offset -/
theorem open_r_fields (ix : Nat) (s0 : Store) (fmt : Nat) (ch sr : Int) (h' : H) (s' : Store)
    (ho : openHandle ix s0 .r fmt ch sr = .ok h' s') :
    h'.mode = .r ∧ h'.rpos = 0 ∧ h'.conv = {} ∧ s'.bytes = s0.bytes ∧ (s'.pos : Int) = h'.dataoffset := by
  unfold openHandle at ho
  simp only [show (Mode.r == Mode.w) = false from rfl, show (Mode.r == Mode.rw) = false from rfl, Bool.false_eq_true,
    false_and, false_or] at ho
  split at ho
  · rename_i hraw
    split at ho
    · cases ho
    · rename_i c hc
      split at ho
      · cases ho
      · split at ho
        · cases ho
        · split at ho
          · cases ho
          · cases c <;> simp only [] at ho
            · cases ho; simp [Store.seekSet]
            all_goals
              (exfalso
               have : containerOf fmt = some Container.raw := by simpa using hraw
               rw [hc] at this; cases this)
  · split at ho
    · cases ho
    · cases ho
    · split at ho
      · cases ho
      · split at ho
        · cases ho
        · split at ho
          · cases ho
          · cases ho; simp [Store.seekSet]

/-- THE READ-BACK: on a freshly opened read-only handle whose store, from the position the open left, is
    `data ++ tail` with `data` = F frames, an items read of `m > F` frames delivers `F·ch` items, the first `F·ch` cells of
    the region are the decoded data, the region has `m·ch` cells, and a further read of `k > 0` frames delivers 0. -/
theorem readBack_spec {ix : Nat} {s0 : Store} {fmt : Nat} {ch sr : Int} {h' : H} {s' : Store}
    (ho : openHandle ix s0 .r fmt ch sr = .ok h' s') (ty : Ty)
    (F : Nat) (hF : h'.frames = F) (data tail : List Byte) (hb : s'.bytes.drop s'.pos = data ++ tail)
    (hd : data.length = F * (h'.enc.nbytes * h'.ch)) (m : Nat) (hm : F < m) (k : Nat) (hk : 0 < k) :
    (stepRead h' s' ty false ((m * h'.ch : Nat) : Int)).2.2.ret = ((F * h'.ch : Nat) : Int) ∧
    (stepRead h' s' ty false ((m * h'.ch : Nat) : Int)).2.2.data.length = m * h'.ch ∧
    (stepRead h' s' ty false ((m * h'.ch : Nat) : Int)).2.2.data.take (F * h'.ch) = h'.enc.decodeAll {} ty data ∧
    (stepRead (stepRead h' s' ty false ((m * h'.ch : Nat) : Int)).1 (stepRead h' s' ty false ((m * h'.ch : Nat) : Int)).2.1
        ty false ((k * h'.ch : Nat) : Int)).2.2.ret = 0 := by
  have hi : HInv h' s' := C05.HInv_initial ix s0 .r fmt ch sr h' s' ho
  obtain ⟨hmode, hrpos, hconv, _, hpos⟩ := open_r_fields ix s0 fmt ch sr h' s' ho
  have hch := hi.ch_pos
  have hnb := hi.nb_pos
  have hmw : h'.mode ≠ .w := by rw [hmode]; decide
  have hn1 : (0 : Int) < ((m * h'.ch : Nat) : Int) := by
    have : 0 < m * h'.ch := Nat.mul_pos (by omega) hch
    omega
  have hn2 : (0 : Int) < ((k * h'.ch : Nat) : Int) := by
    have : 0 < k * h'.ch := Nat.mul_pos hk hch
    omega
  have hal : ∀ x : Nat, ((x * h'.ch : Nat) : Int) % (h'.ch : Int) = 0 := by
    intro x; push_cast; exact Int.mul_emod_left _ _
  have hreq : ∀ x : Nat, reqLen h' false ((x * h'.ch : Nat) : Int) = (x : Int) * (h'.ch : Int) := by
    intro x; simp [reqLen]
  rcases Nat.eq_zero_or_pos F with hF0 | hFpos
  · -- an empty file
    subst hF0
    have hd0 : data = [] := List.eq_nil_of_length_eq_zero (by simpa using hd)
    have he : h'.frames ≤ h'.rpos := by rw [hF, hrpos]; simp
    have e1 := C05.read_at_end h' s' ty false _ ⟨hn1, hmw, Or.inr (hal m)⟩ he
    rw [e1]
    have e2 := C05.read_at_end { h' with error := 0 } s' ty false ((k * h'.ch : Nat) : Int) ⟨hn2, hmw, Or.inr (hal k)⟩ he
    simp only [] at e2 ⊢
    rw [e2]
    refine ⟨by simp, ?_, ?_, rfl⟩
    rotate_left
    · rw [hd0]; simp only [Nat.zero_mul, List.take_zero]
      exact (List.eq_nil_of_length_eq_zero (by rw [Enc.decodeAll_length _ _ _ hnb]; simp)).symm
    simp only [List.length_replicate, hreq]
    rw [← Int.natCast_mul, Int.toNat_natCast]
  · have he : h'.rpos < h'.frames := by rw [hF, hrpos]; omega
    obtain ⟨R, A, hR, hFA, e1, e2, _, e3, _, e4, e5⟩ :=
      stepRead_rmode h' s' ty false _ hi hmode hn1 (Or.inr (hal m)) he m (hreq m)
    have hR0 : R = 0 := by rw [hrpos] at hR; omega
    subst hR0
    have hA : A = F := by rw [hF] at hFA; omega
    subst hA
    have hmin : min m A = A := by omega
    rw [hmin] at e1 e3 e5
    simp only [Bool.false_eq_true, if_false] at e3
    refine ⟨e3, e4, ?_, ?_⟩
    · rw [e5]
      simp only [Nat.zero_mul, List.drop_zero, itemStream]
      have hO : h'.dataoffset.toNat = s'.pos := by omega
      have hdl : data.length = A * h'.ch * h'.enc.nbytes := by rw [hd, Nat.mul_assoc, Nat.mul_comm h'.ch]
      rw [hO, hb, hconv, Enc.decodeAll_append _ _ _ hnb (A * h'.ch) data tail hdl]
      apply List.take_left'
      rw [Enc.decodeAll_length _ _ _ hnb, hdl, Nat.mul_div_cancel _ hnb]
    · rw [e1]
      have he2 : ({ h' with error := 0, rpos := ((0 + A : Nat) : Int), lastOp := .r } : H).frames ≤
          ({ h' with error := 0, rpos := ((0 + A : Nat) : Int), lastOp := .r } : H).rpos := by
        simp only []; rw [hF]; omega
      have := C05.read_at_end _ (stepRead h' s' ty false ((m * h'.ch : Nat) : Int)).2.1 ty false ((k * h'.ch : Nat) : Int)
        ⟨hn2, by simpa using hmw, Or.inr (by simpa using hal k)⟩ he2
      rw [this]

end Sf.AbsWriteBridge
