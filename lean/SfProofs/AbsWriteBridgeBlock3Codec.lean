/-
  SfProofs.AbsWriteBridgeBlock3Codec — `SnapFacts` (crash points, C11) for ANY codec that is an instance of the generic block
  writer `Sf.Block.Writer` (G.72x, NMS ADPCM, GSM 06.10, IMA / MS ADPCM, PAF24): the calls of a run push whole frames one by one
  (`frames`), a block is encoded and emitted every `spb` frames, the close function only appends; SFC_UPDATE_HEADER_NOW / an
  auto-mode write rewrites the header from the store length and leaves the partly filled block in the codec's buffer.

  `writer_snap_facts`: with the reader's block rule `framesAt (m · bpb) = m · spb` the image at a crash point re-opens with
  `floorToBlock N_k spb` frames (the frames in COMPLETE blocks flushed so far), its data region is a prefix of the closed one,
  so a reader that decodes front to back (`backPrefix`) reads back exactly that prefix of what the finished file reads back.
-/
import SfProofs.AbsWriteBridgeBlock3
import SfProofs.AbsWriteBridgeBlock3Writer
namespace Sf.AbsWriteBridge
open Sf Sf.Abs Sf.AbsWrite Sf.Geometry Sf.Block Sf.Block.Proofs Sf.Block.Snap

/-- a codec seen through the generic block writer -/
structure WCodec (σ : Type) where
  w : Writer σ
  s0 : σ
  bpb : Nat                                   -- bytes per encoded block
  frames : List LCall → List (List Int)       -- the frames the calls of a run push, in order
  closeSt : WState σ → WState σ               -- the codec's close function

/-- the writer state after the calls -/
def WCodec.after {σ : Type} (C : WCodec σ) (cs : List LCall) : WState σ := (C.frames cs).foldl (pushFrame C.w) (C.w.init C.s0)

structure WCodecFacts {σ : Type} (C : WCodec σ) (J : SnapJob) : Prop where
  wf : WWF C.w
  bpbPos : 0 < C.bpb
  chEq : C.w.ch = J.g.ch
  blockEq : J.g.block = C.w.spb
  framesLen : ∀ cs, (∀ c ∈ cs, c.good J.g.ch) → (C.frames cs).length = framesOf J.g.ch cs
  framesApp : ∀ a b, C.frames (a ++ b) = C.frames a ++ C.frames b
  /-- the store between two calls holds the whole blocks of the frames pushed so far (`flushed_length` for an encoder that
      always answers `bpb` bytes) -/
  storedLen : ∀ cs, (∀ c ∈ cs, c.good J.g.ch) → (C.after cs).bytes.length = (C.frames cs).length / C.w.spb * C.bpb
  closePrefix : ∀ st, ∃ e, (C.closeSt st).bytes = st.bytes ++ e
  /-- the closed data region and the store between calls ARE the writer's -/
  dataEq : ∀ cs, (∀ c ∈ cs, c.good J.g.ch) → J.data cs = (C.closeSt (C.after cs)).bytes
  storedEq : ∀ cs, (∀ c ∈ cs, c.good J.g.ch) → J.stored cs = (C.after cs).bytes
  /-- the reader's frame count for a region of whole blocks -/
  framesAtBlocks : ∀ m, J.framesAt (m * C.bpb) = m * C.w.spb

theorem writer_snap_facts {σ : Type} (C : WCodec σ) (J : SnapJob) (F : WCodecFacts C J) (base : BlockFacts J.toBlockJob)
    (lossy : losslessLow J.g.codec J.ty = none)
    (backPrefix : ∀ (d e : List Byte) (n n' : Nat), J.framesAt d.length * J.g.ch ≤ n → J.framesAt d.length * J.g.ch ≤ n' →
      (J.back d n).take (J.framesAt d.length * J.g.ch) = (J.back (d ++ e) n').take (J.framesAt d.length * J.g.ch)) :
    SnapFacts J := by
  have hgood : ∀ k, ∀ c ∈ J.split.take k, c.good J.g.ch := fun k c hc => base.calls2 c (List.mem_of_mem_take hc)
  apply snap_facts_of_stream J base
  · intro k _
    rw [F.storedEq _ (hgood k)]
    rw [F.storedLen _ (hgood k), F.framesAtBlocks, F.framesLen _ (hgood k), F.blockEq]
    rfl
  · intro k _
    rw [F.storedEq _ (hgood k), F.dataEq _ base.calls2]
    have hsplit : J.split = J.split.take k ++ J.split.drop k := (List.take_append_drop k J.split).symm
    have hfr : C.frames J.split = C.frames (J.split.take k) ++ C.frames (J.split.drop k) := by
      conv => lhs; rw [hsplit]
      exact F.framesApp _ _
    obtain ⟨e1, h1⟩ := F.closePrefix (C.after J.split)
    obtain ⟨e2, h2⟩ := fold_push_prefix C.w (C.frames (J.split.drop k)) (C.after (J.split.take k))
    refine ⟨e2 ++ e1, ?_⟩
    rw [h1]
    have : C.after J.split = (C.frames (J.split.drop k)).foldl (pushFrame C.w) (C.after (J.split.take k)) := by
      unfold WCodec.after; rw [hfr, List.foldl_append]
    rw [this, h2, List.append_assoc]
  · exact backPrefix
  · exact Or.inl lossy

/-- the frames of mono calls: one item each -/
def monoFrames (conv : Int → Int) (cs : List LCall) : List (List Int) := ((samples cs).map conv).map fun x => [x]

theorem monoFrames_uniform (conv : Int → Int) (cs : List LCall) : Uniform 1 (monoFrames conv cs) := by
  intro f hf
  obtain ⟨x, _, rfl⟩ := List.mem_map.mp hf
  rfl

theorem monoFrames_append (conv : Int → Int) (a b : List LCall) : monoFrames conv (a ++ b) = monoFrames conv a ++ monoFrames conv b := by
  simp [monoFrames, samples]

theorem monoFrames_length (conv : Int → Int) (cs : List LCall) (h : ∀ c ∈ cs, c.good 1) : (monoFrames conv cs).length = framesOf 1 cs := by
  have := samples_length 1 cs h
  simp only [monoFrames, List.length_map]
  omega

end Sf.AbsWriteBridge
