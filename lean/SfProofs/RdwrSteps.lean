/-
  SfProofs.RdwrSteps — one concrete step (seek, truncate, read, write, flag command) of a read/write handle against the
  abstract file: same answer, invariant kept, abstraction commutes.
-/
import SfProofs.RdwrInv
namespace Sf

theorem hdrLenOf_congr_rw (h h' : H) (h0 : h'.container = h.container) (h1 : h'.fmtWord = h.fmtWord)
    (h2 : h'.peak.map List.length = h.peak.map List.length)
    (h3 : h'.peakAtStart = h.peakAtStart) : hdrLenOf h' = hdrLenOf h := by
  unfold hdrLenOf wavHdrLen
  rw [h0, h1, h2, h3]

/-- rebuild a view for a handle that agrees with `h` on the configuration fields -/
theorem RwView.rebuild {h : H} {s : Store} {R W F : Nat} {hdr D : List Byte} (v : RwView h s R W F hdr D)
    (h' : H) (s' : Store) (R' W' F' : Nat) (hdr' D' : List Byte)
    (c1 : h'.mode = h.mode) (c2 : h'.ch = h.ch) (c3 : h'.enc = h.enc) (c4 : h'.dataoffset = h.dataoffset)
    (c5 : h'.peak.map List.length = h.peak.map List.length) (c6 : h'.container ≠ .wav → h'.dataend = 0) (c7 : h'.container = h.container)
    (c8 : h'.fmtWord = h.fmtWord)
    (c9 : h'.peakAtStart = h.peakAtStart)
    (hr : h'.rpos = R') (hw : h'.wpos = W') (hf : h'.frames = F')
    (hb : ∃ t, s'.bytes = hdr' ++ (D' ++ zeros t) ∧ TailOk h t) (hl : hdr'.length = hdr.length)
    (hd : D'.length = F' * h.bw)
    (hp : hdr.length ≤ s'.pos) (sw : h'.lastOp = .w → s'.pos = hdr.length + W' * h.bw)
    (sr : h'.lastOp = .r → R' < F' → s'.pos = hdr.length + R' * h.bw) : RwView h' s' R' W' F' hdr' D' := by
  have e : hdrLenOf h' = hdrLenOf h := hdrLenOf_congr_rw h h' c7 c8 c5 c9
  have eb : h'.bw = h.bw := by unfold H.bw; rw [c2, c3]
  have hl0 := v.hlen
  have hb' : ∃ t, s'.bytes = hdr' ++ (D' ++ zeros t) ∧ TailOk h' t := by
    obtain ⟨t, e1, e2⟩ := hb
    exact ⟨t, e1, by unfold TailOk at e2 ⊢; rw [c7]; exact e2⟩
  have hpk' : PeakOk h' := by
    intro ps' hp'
    rw [hp'] at c5
    cases hp : h.peak with
    | none => rw [hp] at c5; cases c5
    | some ps =>
      rw [hp] at c5
      obtain ⟨a, b⟩ := v.peak ps hp
      have : ps'.length = ps.length := by simpa using c5
      exact ⟨by rw [this, a, c2], by rw [c9]; exact b⟩
  exact ⟨c1.trans v.mode, c2 ▸ v.ch_pos, c3 ▸ v.nb_pos, hr, hw, hf, by rw [c4, e]; exact v.doff, hpk', c6, hb',
    by rw [e, hl, hl0], by rw [eb]; exact hd, by rw [e, ← hl0]; exact hp, by rw [e, eb, ← hl0]; exact sw,
    by rw [e, eb, ← hl0]; exact sr⟩

/-- the view does not read the error field -/
theorem RwView.setError {h : H} {s : Store} {R W F : Nat} {hdr D : List Byte} (v : RwView h s R W F hdr D) (e : Int) :
    RwView { h with error := e } s R W F hdr D :=
  v.rebuild _ s R W F hdr D rfl rfl rfl rfl rfl v.dataend rfl rfl rfl v.rpos v.wpos v.frames v.bytes rfl v.dlen
    (by rw [v.hlen]; exact v.posGe) (by rw [v.hlen]; exact v.syncW) (by rw [v.hlen]; exact v.syncR)

/-- byte position of frame `t` -/
theorem RwView.defaultSeek {h : H} {s : Store} {R W F : Nat} {hdr D : List Byte} (v : RwView h s R W F hdr D) (T : Nat) :
    Sf.defaultSeek h s (T : Int) = { bytes := s.bytes, pos := hdr.length + T * h.bw } := by
  unfold Sf.defaultSeek Store.seekSet
  rw [v.doff, v.hlen]
  congr 1
  have : ((hdrLenOf h : Nat) : Int) + ((h.bw : Nat) : Int) * (T : Int) = ((hdrLenOf h + T * h.bw : Nat) : Int) := by
    push_cast; rw [Int.mul_comm]
  rw [this, Int.toNat_natCast]

/-! ## seek -/

/-- the `whence` argument of `sf_seek` for an abstract (whence, pointer) pair -/
def whenceCode (w : Whence) (p : Ptr) : Int :=
  (match w with | .set => 0 | .cur => 1 | .fromEnd => 2) + (match p with | .both => 0 | .rd => 0x10 | .wr => 0x20)

def ptrBits : Ptr → Int | .both => 0 | .rd => 0x10 | .wr => 0x20

theorem seekSpec_rw (h : H) (s : Store) (hm : h.mode = .rw) (w : Whence) (p : Ptr) (off : Int) :
    seekSpec h s off (whenceCode w p) =
      let b : Int := match w, p with
        | .set, _ => 0 | .cur, .rd => h.rpos | .cur, _ => h.wpos | .fromEnd, _ => h.frames
      if off = 0 ∧ w = .cur ∧ p ≠ .both then seekTell h s b
      else if b + off < 0 then seekFail h s E_BAD_SEEK
      else (seekMoveH h (ptrBits p) (b + off), Sf.defaultSeek h s (b + off), { ret := b + off, err := 0 }) := by
  cases w <;> cases p <;> simp [seekSpec, seekWm, seekBase, seekIsTell, whenceCode, ptrBits, hm]

theorem RwView.base {h : H} {s : Store} {R W F : Nat} {hdr D : List Byte} (v : RwView h s R W F hdr D)
    (w : Whence) (p : Ptr) :
    (match w, p with
      | .set, _ => (0 : Int) | .cur, .rd => h.rpos | .cur, _ => h.wpos | .fromEnd, _ => h.frames) =
    (absOf h s).base w p := by
  rw [v.abs]
  cases w <;> cases p <;> simp [AbsFile.base, v.rpos, v.wpos, v.frames, v.nframes]

theorem seekMoveH_rw (h : H) (hm : h.mode = .rw) (p : Ptr) (t : Int) :
    seekMoveH h (ptrBits p) t = match p with
      | .both => { h with error := 0, rpos := t, wpos := t, lastOp := .r }
      | .rd => { h with error := 0, rpos := t, lastOp := .r }
      | .wr => { h with error := 0, wpos := t, lastOp := .w } := by
  cases p <;> simp [seekMoveH, ptrBits, hm, modeBits]

/-- the handle after a successful move to frame `T` -/
theorem RwView.seekMove {h : H} {s : Store} {R W F : Nat} {hdr D : List Byte} (v : RwView h s R W F hdr D)
    (p : Ptr) (T : Nat) :
    RwView (seekMoveH h (ptrBits p) (T : Int)) { bytes := s.bytes, pos := hdr.length + T * h.bw }
      (match p with | .wr => R | _ => T) (match p with | .rd => W | _ => T) F hdr D := by
  rw [seekMoveH_rw h v.mode]
  cases p
  · exact v.rebuild _ _ T T F hdr D rfl rfl rfl rfl rfl v.dataend rfl rfl rfl rfl rfl v.frames v.bytes rfl
      v.dlen (by simp) (fun hc => by simp at hc) (fun _ _ => rfl)
  · exact v.rebuild _ _ T W F hdr D rfl rfl rfl rfl rfl v.dataend rfl rfl rfl rfl v.wpos v.frames v.bytes rfl
      v.dlen (by simp) (fun hc => by simp at hc) (fun _ _ => rfl)
  · exact v.rebuild _ _ R T F hdr D rfl rfl rfl rfl rfl v.dataend rfl rfl rfl v.rpos rfl v.frames v.bytes rfl
      v.dlen (by simp) (fun _ => rfl) (fun hc => by simp at hc)

theorem seekMoveH_bw (h : H) (hm : h.mode = .rw) (p : Ptr) (t : Int) : (seekMoveH h (ptrBits p) t).bw = h.bw := by
  rw [seekMoveH_rw h hm]; cases p <;> rfl

theorem RwView.seek_refines {h : H} {s : Store} {R W F : Nat} {hdr D : List Byte} (v : RwView h s R W F hdr D)
    (w : Whence) (p : Ptr) (off : Int) :
    (stepSeek h s off (whenceCode w p)).2.2.ret = ((absOf h s).seek w p off).1 ∧
    (0 ≤ ((absOf h s).seek w p off).1 → (stepSeek h s off (whenceCode w p)).2.2.err = 0) ∧
    RwInv (stepSeek h s off (whenceCode w p)).1 (stepSeek h s off (whenceCode w p)).2.1 ∧
    absOf (stepSeek h s off (whenceCode w p)).1 (stepSeek h s off (whenceCode w p)).2.1 = ((absOf h s).seek w p off).2 := by
  rw [stepSeek_eq_spec, seekSpec_rw h s v.mode]
  simp only [v.base w p]
  unfold AbsFile.seek
  simp only []
  generalize hb : (absOf h s).base w p = b
  have hb0 : 0 ≤ b := by
    rw [← hb, v.abs]; cases w <;> cases p <;> simp [AbsFile.base] <;> omega
  by_cases htell : off = 0 ∧ w = .cur ∧ p ≠ .both
  · rw [if_pos htell]
    obtain ⟨h0, hw, hp⟩ := htell
    subst h0 hw
    have hn : ¬ b + 0 < 0 := by omega
    rw [if_neg hn]
    refine ⟨by simp [seekTell], fun _ => rfl, ⟨R, W, F, hdr, D, v.setError 0⟩, ?_⟩
    simp only [seekTell]
    rw [(v.setError 0).abs, v.abs]
    rw [v.abs] at hb
    cases p
    · exact absurd rfl hp
    · simp only [AbsFile.base] at hb; simp [← hb]; rfl
    · simp only [AbsFile.base] at hb; simp [← hb]; rfl
  · rw [if_neg htell]
    by_cases hneg : b + off < 0
    · rw [if_pos hneg, if_pos hneg]
      refine ⟨rfl, fun hc => absurd hc (by simp), ⟨R, W, F, hdr, D, v.setError _⟩, ?_⟩
      simp only [seekFail]
      rw [(v.setError _).abs, v.abs]; rfl
    · rw [if_neg hneg, if_neg hneg]
      obtain ⟨T, hT⟩ := Int.eq_ofNat_of_zero_le (show 0 ≤ b + off by omega)
      rw [hT, v.defaultSeek T]
      have vm := v.seekMove p T
      refine ⟨rfl, fun _ => rfl, ⟨_, _, F, hdr, D, vm⟩, ?_⟩
      simp only []
      rw [vm.abs, v.abs, seekMoveH_bw h v.mode]
      cases p <;> simp

/-! ## SFC_FILE_TRUNCATE (routes on which `ftruncate` works) -/

theorem RwView.truncate_refines {h : H} {s : Store} {R W F : Nat} {hdr D : List Byte} (v : RwView h s R W F hdr D)
    (k : Nat) (hc : h.canTruncate = true) :
    (stepTruncate h s (k : Int)).2.2.ret = 0 ∧ (stepTruncate h s (k : Int)).2.2.err = 0 ∧
    RwInv (stepTruncate h s (k : Int)).1 (stepTruncate h s (k : Int)).2.1 ∧
    absOf (stepTruncate h s (k : Int)).1 (stepTruncate h s (k : Int)).2.1 = (absOf h s).truncate (zeroFrame h.bw) k := by
  rw [stepTruncate_ok h s k (by rw [v.mode]; decide) (by omega), if_pos hc, v.defaultSeek k]
  have hby : truncBytes s.bytes (hdr.length + k * h.bw) = hdr ++ truncBytes D (k * h.bw) := by
    obtain ⟨t, hb, _⟩ := v.bytes
    rw [hb, truncBytes_append, truncBytes_zeros_tail]
  have vt : RwView ({ seekMoveH h 0 (k : Int) with frames := (k : Int) })
      { bytes := truncBytes s.bytes (hdr.length + k * h.bw), pos := hdr.length + k * h.bw } k k k hdr
      (truncBytes D (k * h.bw)) :=
    by
      have e := seekMoveH_rw h v.mode .both (k : Int)
      simp only [ptrBits] at e
      rw [e]
      exact v.rebuild _ _ k k k hdr _ rfl rfl rfl rfl rfl v.dataend rfl rfl rfl rfl rfl rfl
        ⟨0, by show truncBytes s.bytes _ = _; rw [hby]; simp [zeros], Or.inl rfl⟩ rfl
        (truncBytes_length _ _) (by simp) (fun hc => by simp at hc) (fun _ _ => rfl)
  refine ⟨rfl, rfl, ⟨k, k, k, hdr, _, vt⟩, ?_⟩
  rw [vt.abs, v.abs]
  have eb : ({ seekMoveH h 0 (k : Int) with frames := (k : Int) } : H).bw = h.bw := by
    have e := seekMoveH_bw h v.mode .both (k : Int)
    simp only [ptrBits, H.bw] at e ⊢
    exact e
  rw [eb, groups_truncBytes _ v.bw_pos D F k v.dlen]
  rfl

/-! ## read -/

/-- the `n` argument of a call for `k` frames -/
def callCount (h : H) (fc : Bool) (k : Nat) : Int := if fc then (k : Int) else ((k * h.ch : Nat) : Int)

theorem reqLen_callCount (h : H) (fc : Bool) (k : Nat) : reqLen h fc (callCount h fc k) = ((k * h.ch : Nat) : Int) := by
  unfold reqLen callCount; cases fc <;> simp

theorem RwView.readPos {h : H} {s : Store} {R W F : Nat} {hdr D : List Byte} (v : RwView h s R W F hdr D) (hlt : R < F) :
    Sf.readPos h s = hdr.length + R * h.bw := by
  unfold Sf.readPos
  by_cases hl : h.lastOp = .r
  · rw [if_neg (by simp [hl]), v.syncR hl hlt, v.hlen]
  · rw [if_pos hl]
    have := v.defaultSeek R
    unfold Sf.defaultSeek Store.seekSet at this
    rw [v.rpos]
    exact congrArg Store.pos this

/-- number of bytes behind the audio data (0, or 1: the pad byte) -/
def tailLen (h : H) (s : Store) : Nat := s.bytes.length - (h.dataoffset.toNat + h.frames.toNat * h.bw)

theorem RwView.tailLen_eq {h : H} {s : Store} {R W F : Nat} {hdr D : List Byte} (v : RwView h s R W F hdr D) (t : Nat)
    (hb : s.bytes = hdr ++ (D ++ zeros t)) : tailLen h s = t := by
  unfold tailLen
  rw [hb, List.length_append, List.length_append, zeros_length, v.doff, v.frames, Int.toNat_natCast, Int.toNat_natCast,
    v.hlen, v.dlen]
  omega

/-- pad-byte samples a read of `k` frames that delivers `d` frames runs into: non-zero only when the request goes past
    the end of a file of 1-byte samples whose odd-length data is followed by the pad byte -/
def tailItems (h : H) (s : Store) (k d : Nat) : Nat := min ((k - d) * h.bw) (tailLen h s) / h.enc.nbytes

/-- the value the undelivered part of the requested region holds after a read that started inside the data: untouched
    (the harness pattern), or zero when the codec read ran into the pad byte (the wrapper then zero-fills) -/
def readFill (h : H) (s : Store) (ty : Ty) (k d : Nat) : Int := if tailItems h s k d = 0 then pattern ty else 0

theorem decodeAll_short (e : Enc) (c : Conv) (ty : Ty) (bs : List Byte) (hs : bs.length < e.nbytes) : e.decodeAll c ty bs = [] := by
  unfold Enc.decodeAll; rw [groups_short _ _ hs]; rfl

theorem RwView.read_main {h : H} {s : Store} {R W F : Nat} {hdr D : List Byte} (v : RwView h s R W F hdr D)
    (ty : Ty) (fc : Bool) (k : Nat) (hk : 0 < k) (hlt : R < F) :
    stepRead h s ty fc (callCount h fc k) =
      ({ h with error := 0, rpos := ((R + min k (F - R) : Nat) : Int), lastOp := .r },
       { bytes := s.bytes, pos := hdr.length + (R + min k (F - R)) * h.bw + min ((k - min k (F - R)) * h.bw) (tailLen h s) },
       { ret := callCount h fc (min k (F - R)), err := 0,
         data := h.enc.decodeAll h.conv ty ((D.drop (R * h.bw)).take (k * h.bw)) ++
                 List.replicate ((k - min k (F - R)) * h.ch) (readFill h s ty k (min k (F - R))), hasData := true }) := by
  have hch := v.ch_pos
  have hnb := v.nb_pos
  obtain ⟨t, hb, ht⟩ := v.bytes
  have htl := v.tailLen_eq t hb
  have hn : 0 < callCount h fc k := by
    unfold callCount; cases fc
    · simp only [Bool.false_eq_true, if_false]; exact Int.ofNat_lt.mpr (Nat.mul_pos hk hch)
    · simp only [if_true]; exact Int.ofNat_lt.mpr hk
  have ha : fc = true ∨ callCount h fc k % (h.ch : Int) = 0 := by
    cases fc
    · right; simp [callCount]
    · left; rfl
  rw [stepRead_main h s ty fc _ hn (by rw [v.mode]; decide) ha (by rw [v.rpos, v.frames]; omega)]
  simp only [reqLen_callCount]
  generalize hd : min k (F - R) = d
  have hdle : d ≤ F - R := by rw [← hd]; exact Nat.min_le_right _ _
  have hdk : d ≤ k := by rw [← hd]; exact Nat.min_le_left _ _
  unfold readFill tailItems
  rw [htl]
  generalize he : min ((k - d) * h.bw) t = e
  have hbwe : h.bw = h.enc.nbytes * h.ch := rfl
  -- the bytes the codec gets: the data part, then `e` bytes of the tail
  have hgl : ((D.drop (R * h.bw)).take (k * h.bw)).length = d * h.bw := by
    rw [List.length_take, List.length_drop, v.dlen, ← Nat.sub_mul, ← hd]
    rcases Nat.le_total k (F - R) with hle | hle
    · rw [Nat.min_eq_left hle, Nat.min_eq_left (Nat.mul_le_mul_right _ hle)]
    · rw [Nat.min_eq_right hle, Nat.min_eq_right (Nat.mul_le_mul_right _ hle)]
  have hgot : readGot h s ((k * h.ch : Nat) : Int) = (D.drop (R * h.bw)).take (k * h.bw) ++ zeros e := by
    unfold readGot
    have hkb : k * h.ch * h.nb = k * h.bw := by unfold H.bw H.nb; rw [Nat.mul_assoc, Nat.mul_comm h.ch]
    have hRle : R * h.bw ≤ D.length := by rw [v.dlen]; exact Nat.mul_le_mul_right _ (by omega)
    rw [v.readPos hlt, hb, Int.toNat_natCast, ← List.drop_drop, List.drop_left' rfl, hkb, List.drop_append,
      Nat.sub_eq_zero_of_le hRle, List.drop_zero, List.take_append, take_zeros, List.length_drop, v.dlen, ← Nat.sub_mul]
    congr 2
    rw [← he, ← hd]
    rcases Nat.le_total k (F - R) with hle | hle
    · rw [Nat.min_eq_left hle, Nat.sub_self, Nat.zero_mul, Nat.sub_eq_zero_of_le (Nat.mul_le_mul_right _ hle)]
    · rw [Nat.min_eq_right hle]; simp only [Nat.sub_mul]
  have hdb : d * h.bw = d * h.ch * h.enc.nbytes := by unfold H.bw; rw [Nat.mul_assoc, Nat.mul_comm h.ch]
  have hvD : (h.enc.decodeAll h.conv ty ((D.drop (R * h.bw)).take (k * h.bw))).length = d * h.ch := by
    rw [Enc.decodeAll_length _ _ _ hnb, hgl, hdb, Nat.mul_div_cancel _ hnb]
  have hvals : h.enc.decodeAll h.conv ty ((D.drop (R * h.bw)).take (k * h.bw) ++ zeros e) =
      h.enc.decodeAll h.conv ty ((D.drop (R * h.bw)).take (k * h.bw)) ++ h.enc.decodeAll h.conv ty (zeros e) :=
    Enc.decodeAll_append _ _ _ hnb (d * h.ch) _ _ (by rw [hgl, hdb])
  have hcnt : ((((D.drop (R * h.bw)).take (k * h.bw) ++ zeros e).length : Nat) : Int) / (h.nb : Int) =
      ((d * h.ch + e / h.enc.nbytes : Nat) : Int) := by
    rw [List.length_append, hgl, zeros_length, hdb]; unfold H.nb
    rw [← Int.natCast_ediv, Nat.add_comm, Nat.add_mul_div_right _ _ hnb, Nat.add_comm]
  rw [hgot, hcnt, hvals, v.readPos hlt, List.length_append, hgl, zeros_length, v.rpos, v.frames]
  have e3 : hdr.length + R * h.bw + (d * h.bw + e) = hdr.length + (R + d) * h.bw + e := by rw [Nat.add_mul]; omega
  have e2 : (if fc = true then (d : Int) else ((d * h.ch : Nat) : Int)) = callCount h fc d := rfl
  have hdiv : ((d * h.ch : Nat) : Int) / (h.ch : Int) = (d : Int) := by
    rw [← Int.natCast_ediv, Nat.mul_div_cancel _ hch]
  have e1 : (((k * h.ch : Nat) : Int) - ((d * h.ch : Nat) : Int)).toNat = (k - d) * h.ch := by
    rw [Nat.sub_mul]; omega
  by_cases hx : e / h.enc.nbytes = 0
  · -- nothing of the tail makes a sample: the codec delivered `d` whole frames
    have hz : h.enc.decodeAll h.conv ty (zeros e) = [] :=
      decodeAll_short _ _ _ _ (by rw [zeros_length]; exact (Nat.div_eq_zero_iff.mp hx).resolve_left (by omega))
    have hcond : ((d * h.ch + e / h.enc.nbytes : Nat) : Int) ≤ ((F : Int) - (R : Int)) * (h.ch : Int) := by
      rw [hx, Nat.add_zero]
      have : ((d * h.ch : Nat) : Int) = (d : Int) * (h.ch : Int) := by push_cast; rfl
      rw [this]
      exact Int.mul_le_mul_of_nonneg_right (by omega) (by omega)
    rw [if_pos hcond, hx, Nat.add_zero, hdiv, hz, List.append_nil, Int.toNat_natCast,
      List.take_of_length_le (by rw [hvD]; exact Nat.le_refl _), e1, e2, e3, if_pos rfl, Int.natCast_add]
  · -- the codec read the pad byte as a sample: more than the frame count allows, clamped, rest zero-filled
    have hepos : 0 < e := by
      rcases Nat.eq_zero_or_pos e with h0 | h0
      · rw [h0] at hx; simp at hx
      · exact h0
    have hkd : d < k := by
      rcases Nat.lt_or_ge d k with hlt' | hge
      · exact hlt'
      · have : k - d = 0 := by omega
        rw [this, Nat.zero_mul, Nat.zero_min] at he; omega
    have hdF : d = F - R := by rw [← hd]; rw [← hd] at hkd; omega
    have hcond : ¬ ((d * h.ch + e / h.enc.nbytes : Nat) : Int) ≤ ((F : Int) - (R : Int)) * (h.ch : Int) := by
      have hFR : (F : Int) - (R : Int) = (d : Int) := by omega
      have h1 : ((F : Int) - (R : Int)) * (h.ch : Int) = ((d * h.ch : Nat) : Int) := by rw [hFR]; push_cast; rfl
      rw [h1]; push_cast
      have : 0 < e / h.enc.nbytes := Nat.pos_of_ne_zero hx
      omega
    have hav : ((F : Int) - (R : Int)) * (h.ch : Int) = ((d * h.ch : Nat) : Int) := by
      have hFR : (F : Int) - (R : Int) = (d : Int) := by omega
      rw [hFR]; push_cast; rfl
    rw [if_neg hcond, hav, hdiv, Int.toNat_natCast, List.take_append_of_le_length (by rw [hvD]; exact Nat.le_refl _),
      List.take_of_length_le (by rw [hvD]; exact Nat.le_refl _), e1, e2, e3, if_neg hx]
    have hF : (F : Int) = ((R + d : Nat) : Int) := by rw [hdF]; omega
    rw [hF]

theorem decodeAll_nil (e : Enc) (c : Conv) (ty : Ty) : e.decodeAll c ty [] = [] := by
  unfold Enc.decodeAll groups; rfl

theorem RwView.read_refines {h : H} {s : Store} {R W F : Nat} {hdr D : List Byte} (v : RwView h s R W F hdr D)
    (ty : Ty) (fc : Bool) (k : Nat) :
    ∃ h' s' o, stepRead h s ty fc (callCount h fc k) = (h', s', o) ∧
      o.ret = callCount h fc ((absOf h s).read k).1.length ∧
      (0 < k → o.err = 0 ∧ o.data = h.enc.decodeAll h.conv ty ((absOf h s).read k).1.flatten ++
        List.replicate ((k - ((absOf h s).read k).1.length) * h.ch)
          (if (absOf h s).rpos < (absOf h s).frames.length then readFill h s ty k ((absOf h s).read k).1.length else 0)) ∧
      RwInv h' s' ∧ absOf h' s' = ((absOf h s).read k).2 := by
  rw [v.abs]
  unfold AbsFile.read
  simp only [v.nframes]
  rcases Nat.eq_zero_or_pos k with hk | hk
  · subst hk
    have : callCount h fc 0 = 0 := by unfold callCount; cases fc <;> simp
    rw [this, stepRead_zero]
    refine ⟨_, _, _, rfl, by simp [this], fun hc => absurd hc (by omega), ⟨R, W, F, hdr, D, v⟩, ?_⟩
    rw [v.abs]; simp
  · by_cases hlt : R < F
    · rw [v.read_main ty fc k hk hlt]
      have hfr : ((groups h.bw D).drop R).take k = groups h.bw ((D.drop (R * h.bw)).take (k * h.bw)) := by
        rw [groups_take' _ v.bw_pos, Nat.mul_div_cancel _ v.bw_pos, groups_drop _ v.bw_pos]
      have hgl : ((D.drop (R * h.bw)).take (k * h.bw)).length = min k (F - R) * h.bw := by
        rw [List.length_take, List.length_drop, v.dlen, ← Nat.sub_mul]
        rcases Nat.le_total k (F - R) with hle | hle
        · rw [Nat.min_eq_left hle, Nat.min_eq_left (Nat.mul_le_mul_right _ hle)]
        · rw [Nat.min_eq_right hle, Nat.min_eq_right (Nat.mul_le_mul_right _ hle)]
      have hlen : (((groups h.bw D).drop R).take k).length = min k (F - R) := by
        rw [hfr, groups_length' _ v.bw_pos, hgl, Nat.mul_div_cancel _ v.bw_pos]
      have vr : RwView { h with error := 0, rpos := ((R + min k (F - R) : Nat) : Int), lastOp := .r }
          { bytes := s.bytes, pos := hdr.length + (R + min k (F - R)) * h.bw + min ((k - min k (F - R)) * h.bw) (tailLen h s) }
          (R + min k (F - R)) W F hdr D :=
        v.rebuild _ _ _ W F hdr D rfl rfl rfl rfl rfl v.dataend rfl rfl rfl rfl v.wpos v.frames v.bytes rfl v.dlen
          (by simp only []; omega) (fun hc => by simp at hc) (fun _ hlt2 => by
            have : min k (F - R) = k := by omega
            simp only [this, Nat.sub_self, Nat.zero_mul, Nat.zero_min, Nat.add_zero])
      refine ⟨_, _, _, rfl, by rw [hlen], fun _ => ⟨rfl, ?_⟩, ⟨_, W, F, hdr, D, vr⟩, ?_⟩
      · simp only [hlen, hlt, if_true]
        rw [hfr, groups_join _ v.bw_pos _ _ hgl]
      · rw [vr.abs]; simp only [hlen]; rfl
    · have he : h.frames ≤ h.rpos := by rw [v.frames, v.rpos]; omega
      have hn : 0 < callCount h fc k := by
        unfold callCount; cases fc
        · simp only [Bool.false_eq_true, if_false]; exact Int.ofNat_lt.mpr (Nat.mul_pos hk v.ch_pos)
        · simp only [if_true]; exact Int.ofNat_lt.mpr hk
      have ha : fc = true ∨ callCount h fc k % (h.ch : Int) = 0 := by
        cases fc
        · right; simp [callCount]
        · left; rfl
      rw [stepRead_eof h s ty fc _ hn (by rw [v.mode]; decide) ha he, reqLen_callCount, Int.toNat_natCast]
      have hnil : ((groups h.bw D).drop R).take k = [] := by
        rw [List.drop_of_length_le (by rw [v.nframes]; omega)]; simp
      refine ⟨_, _, _, rfl, by rw [hnil]; unfold callCount; cases fc <;> simp, fun _ => ⟨rfl, ?_⟩,
        ⟨R, W, F, hdr, D, v.setError 0⟩, ?_⟩
      · rw [hnil]; simp [hlt, decodeAll_nil]
      · rw [(v.setError 0).abs, hnil]; rfl

end Sf
