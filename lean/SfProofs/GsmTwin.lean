/-
  A WRAP-FREE twin of the GSM 06.10 decoder (SfModel/Gsm.lean): the same functions with every `int16_t` / `int32_t`
  conversion (`w16`, `w32`, the `0xFFFF &` of gsm_mult_r) removed and the arithmetic done on unbounded integers with
  the Recommendation's saturating operators — `…N` ("no wrap").  This file proves, function by function, that the twin
  equals the wrapping decoder on every state satisfying the decoder invariant `SInv` and every parameter set whose
  fields lie inside their bit widths (`PInv`, `LarInv`) — hence for every byte string and every reachable state
  (SfProps/C06GsmNoWrap.lean).  The only place where the C decoder relies on truncation is the `& 0xFFF8` of
  Postprocessing, which is "round down to a multiple of 8" (`trunc8_exact`).
-/
import SfProofs.GsmSpec
import SfProofs.GsmRec
namespace Sf.Gsm.Twin
open Sf Sf.Gsm Sf.Gsm.Proofs Sf.Gsm.Spec

/-! ## per-index range of the LAR codes -/

def larWidths : List Nat := [6, 6, 5, 5, 4, 4, 3, 3]

/-- LARc [i] lies inside ITS bit field (PInv only says < 64) -/
def LarInv (p : Params) : Prop := ∀ i, i < 8 → 0 ≤ p.larc.getD i 0 ∧ p.larc.getD i 0 < ((2 ^ larWidths.getD i 0 : Nat) : Int)

theorem mkParams_larInv (val : List Bool → Nat) (hval : ∀ bs, val bs < 2 ^ bs.length) (bits : List Bool) :
    LarInv (mkParams (fields val fieldWidths bits)) := by
  intro i hi
  have hlen : fieldWidths.length = 76 := by decide
  have hb := fields_getD val hval fieldWidths bits i (by omega)
  have hw : fieldWidths.getD i 0 = larWidths.getD i 0 := by
    have : ∀ i, i < 8 → fieldWidths.getD i 0 = larWidths.getD i 0 := by decide
    exact this i hi
  have hg : (mkParams (fields val fieldWidths bits)).larc.getD i 0 = (fields val fieldWidths bits).getD i 0 := by
    simp only [mkParams]
    rw [List.getD_eq_getElem?_getD, List.getElem?_map, List.getElem?_range hi]
    rfl
  rw [hg, ← hw]
  exact hb

theorem unpack33_larInv (c : List Byte) (p : Params) (h : unpack33 c = some p) : LarInv p := by
  unfold unpack33 at h
  split at h
  · cases h
  · cases h; exact mkParams_larInv valMsb valMsb_lt _

theorem unpack49a_larInv (c : List Byte) : LarInv (unpack49a c).1 := mkParams_larInv valLsb valLsb_lt _
theorem unpack49b_larInv (chain : Nat) (c : List Byte) : LarInv (unpack49b chain c) := mkParams_larInv valLsb valLsb_lt _

/-! ## RPE decoding -/

def normLoopN : Nat → Int → Int → Int × Int
  | 0, expon, mant => (expon, mant)
  | fuel + 1, expon, mant => if mant ≤ 7 then normLoopN fuel (expon - 1) (2 * mant + 1) else (expon, mant)

def expMantN (xmaxc : Int) : Int × Int :=
  let expon0 : Int := if xmaxc > 15 then xmaxc / 8 - 1 else 0
  let mant0 : Int := xmaxc - expon0 * 8
  if mant0 = 0 then (-4, 7)
  else
    let (e, m) := normLoopN 16 expon0 mant0
    (e, m - 8)

theorem expMantN_eq : ∀ n : Nat, n < 64 → expMantN (n : Int) = expMant (n : Int) := by decide +kernel

/-- one cell of `APCM_inverse_quantization`, as the model computes it -/
def apcm1 (mant expon x : Int) : Int :=
  let temp1 := tab tabFAC mant
  let temp2 := gsmSub 6 expon
  let temp3 := gsmAsl 1 (gsmSub temp2 1)
  let t := w16 (2 * x - 7)
  let t := w16 (shl32 t 12)
  let t := w16 (multR temp1 t)
  let t := w16 (add t temp3)
  gsmAsr t temp2

theorem apcmInv_map (xmc : List Int) (mant expon : Int) : apcmInv xmc mant expon = xmc.map (apcm1 mant expon) := rfl

/-- the same cell on unbounded integers: `temp3 = 2^(5 − expon)` (0 for expon = 6), no conversion anywhere -/
def apcm1N (mant expon x : Int) : Int :=
  let temp1 := tab tabFAC mant
  let temp2 := 6 - expon
  let temp3 : Int := if expon ≤ 5 then 2 ^ (5 - expon).toNat else 0
  let t := (2 * x - 7) * 4096
  let t := (temp1 * t + 16384) / 32768
  let t := Rec.sat16 (t + temp3)
  t / 2 ^ temp2.toNat

/-- 8 codes × 8 mantissas × 11 exponents: every case -/
theorem apcm1N_eq : ∀ x : Nat, x < 8 → ∀ m : Nat, m < 8 → ∀ e : Nat, e < 11 →
    apcm1N (m : Int) ((e : Int) - 4) (x : Int) = apcm1 (m : Int) ((e : Int) - 4) (x : Int) := by decide +kernel

def apcmInvN (xmc : List Int) (mant expon : Int) : List Int := xmc.map (apcm1N mant expon)

theorem apcmInvN_eq (xmc : List Int) (mant expon : Int) (hx : ∀ x ∈ xmc, 0 ≤ x ∧ x < 8) (hm : 0 ≤ mant ∧ mant ≤ 7)
    (he : -4 ≤ expon ∧ expon ≤ 6) : apcmInvN xmc mant expon = apcmInv xmc mant expon := by
  rw [apcmInv_map]
  unfold apcmInvN
  apply List.map_congr_left
  intro x hxm
  obtain ⟨x0, x1⟩ := hx x hxm
  obtain ⟨xn, rfl⟩ : ∃ n : Nat, x = (n : Int) := ⟨x.toNat, by omega⟩
  obtain ⟨mn, rfl⟩ : ∃ n : Nat, mant = (n : Int) := ⟨mant.toNat, by omega⟩
  obtain ⟨en, hen⟩ : ∃ n : Nat, expon = (n : Int) - 4 := ⟨(expon + 4).toNat, by omega⟩
  subst hen
  exact apcm1N_eq xn (by omega) mn (by omega) en (by omega)

def rpeDecodeN (xmaxc mc : Int) (xmc : List Int) : List Int :=
  let (expon, mant) := expMantN xmaxc
  gridPos mc (apcmInvN xmc mant expon)

theorem rpeDecodeN_eq (s : Sub) (h : SubInv s) : rpeDecodeN s.xmaxc s.mc s.xmc = rpeDecode s.xmaxc s.mc s.xmc := by
  obtain ⟨n, hn⟩ : ∃ n : Nat, s.xmaxc = (n : Int) := ⟨s.xmaxc.toNat, by have := h.xmaxc; omega⟩
  have hn64 : n < 64 := by have := h.xmaxc; omega
  unfold rpeDecodeN rpeDecode
  rw [hn, expMantN_eq n hn64]
  obtain ⟨r1, r2, r3, r4⟩ := expMant_range n hn64
  generalize expMant (n : Int) = em at r1 r2 r3 r4
  obtain ⟨e, m⟩ := em
  simp only at r1 r2 r3 r4 ⊢
  rw [apcmInvN_eq s.xmc m e h.xmc_rng ⟨r1, r2⟩ ⟨r3, r4⟩]

theorem apcm1_range (mant expon x : Int) : W16 (apcm1 mant expon x) := by
  unfold apcm1
  exact gsmAsr_range _ _ (w16_range _)

theorem rpeDecode_w16 (xmaxc mc : Int) (xmc : List Int) : AllW16 (rpeDecode xmaxc mc xmc) := by
  unfold rpeDecode
  split
  rename_i e m _
  intro v hv
  simp only [gridPos, List.mem_map] at hv
  obtain ⟨k, _, rfl⟩ := hv
  split
  · rw [apcmInv_map, List.getD_eq_getElem?_getD, List.getElem?_map]
    cases (xmc[((↑k - mc) / 3).toNat]?) with
    | none => exact W16_zero
    | some y => exact apcm1_range _ _ _
  · exact W16_zero

/-! ## long-term synthesis -/

def ltSynthN (hist : List Int) (nr bcr : Int) (erp : List Int) : List Int × List Int :=
  let brp := tab tabQLB bcr
  let old := (hist.drop (120 - nr).toNat).take 40
  let drp := List.zipWith (fun e d => Rec.add e ((brp * d + 16384) / 32768)) erp old
  ((hist ++ drp).drop 40, drp)

theorem tab_pos (t : List Int) (ht : ∀ v ∈ t, 0 < v ∧ v ≤ 32767) (i : Int) : 0 ≤ tab t i ∧ tab t i ≤ 32767 := by
  unfold tab
  rw [List.getD_eq_getElem?_getD]
  cases h : t[i.toNat]? with
  | none => simp
  | some v =>
    have := ht v (List.mem_of_getElem? h)
    simp only [Option.getD_some]; omega

theorem add_eq_spec (a b : Int) : Gsm.add a b = Rec.add a b := by
  unfold Gsm.add Rec.add Rec.sat16
  simp only
  split <;> split <;> (try split) <;> omega

theorem sub_eq_spec (a b : Int) : Gsm.sub a b = Rec.sub a b := by
  unfold Gsm.sub Rec.sub Rec.sat16
  simp only
  split <;> split <;> (try split) <;> omega

theorem zipWith_congr_mem {α β γ : Type} (f g : α → β → γ) : ∀ (l1 : List α) (l2 : List β),
    (∀ a ∈ l1, ∀ b ∈ l2, f a b = g a b) → List.zipWith f l1 l2 = List.zipWith g l1 l2 := by
  intro l1
  induction l1 with
  | nil => intro l2 _; rfl
  | cons a as ih =>
    intro l2 h
    cases l2 with
    | nil => rfl
    | cons b bs =>
      simp only [List.zipWith_cons_cons]
      rw [h a (by simp) b (by simp), ih bs (fun x hx y hy => h x (by simp [hx]) y (by simp [hy]))]

theorem ltSynthN_eq (hist : List Int) (nr bcr : Int) (erp : List Int) (hw : AllW16 hist) :
    ltSynthN hist nr bcr erp = ltSynth hist nr bcr erp := by
  unfold ltSynthN ltSynth
  simp only
  have hb := tab_pos tabQLB (by decide) bcr
  have key : List.zipWith (fun e d => Rec.add e ((tab tabQLB bcr * d + 16384) / 32768)) erp
        (List.take 40 (List.drop (120 - nr).toNat hist)) =
      List.zipWith (fun e d => w16 (Gsm.add e (w16 (multR (tab tabQLB bcr) d)))) erp (List.take 40 (List.drop (120 - nr).toNat hist)) := by
    apply zipWith_congr_mem
    intro e _ d hd
    have hdw : W16 d := hw d (List.mem_of_mem_drop (List.mem_of_mem_take hd))
    have hr := multR_range_pos _ d hb hdw
    rw [w16_id _ hr, w16_id _ (add_range _ _), add_eq_spec]
    unfold multR
    rw [asr15]
  rw [key]

/-! ## short-term synthesis -/

def larStepN (larc b mic inva : Int) : Int :=
  let t := Rec.add larc mic * 1024
  let t := Rec.sub t (b * 2)
  let t := (inva * t + 16384) / 32768
  Rec.add t t

/-- 64 + 64 + 32 + 32 + 16 + 16 + 8 + 8 codes: every case -/
theorem larStepN_eq : ∀ i : Nat, i < 8 → ∀ c : Nat, c < 2 ^ larWidths.getD i 0 →
    larStepN (c : Int) (tab tabB i) (tab tabMIC i) (tab tabINVA i) = larStep (c : Int) (tab tabB i) (tab tabMIC i) (tab tabINVA i) := by
  decide +kernel

def decodeLarN (larc : List Int) : List Int :=
  (List.range 8).map fun i => larStepN (larc.getD i 0) (tab tabB i) (tab tabMIC i) (tab tabINVA i)

theorem decodeLarN_eq (p : Params) (h : LarInv p) : decodeLarN p.larc = decodeLar p.larc := by
  unfold decodeLarN decodeLar
  apply List.map_congr_left
  intro i hi
  have hi8 : i < 8 := List.mem_range.mp hi
  obtain ⟨l0, l1⟩ := h i hi8
  obtain ⟨c, hc⟩ : ∃ c : Nat, p.larc.getD i 0 = (c : Int) := ⟨(p.larc.getD i 0).toNat, by omega⟩
  rw [hc] at l1 ⊢
  exact larStepN_eq i hi8 c (by exact_mod_cast l1)

def coeff0_12N (p c : List Int) : List Int :=
  List.zipWith (fun a b => Rec.add (Rec.add (a / 4) (b / 4)) (a / 2)) p c
def coeff13_26N (p c : List Int) : List Int :=
  List.zipWith (fun a b => Rec.add (a / 2) (b / 2)) p c
def coeff27_39N (p c : List Int) : List Int :=
  List.zipWith (fun a b => Rec.add (Rec.add (a / 4) (b / 4)) (b / 2)) p c

theorem sasr1 (x : Int) : sasr x 1 = x / 2 := by simp [sasr, asr]
theorem sasr2 (x : Int) : sasr x 2 = x / 4 := by simp [sasr, asr]

/-- the interpolation needs no range at all: every assignment stores a saturated sum -/
theorem coeffN_eq (p c : List Int) :
    coeff0_12N p c = coeff0_12 p c ∧ coeff13_26N p c = coeff13_26 p c ∧ coeff27_39N p c = coeff27_39 p c := by
  unfold coeff0_12N coeff0_12 coeff13_26N coeff13_26 coeff27_39N coeff27_39
  refine ⟨?_, ?_, ?_⟩
  · congr 1; funext a b
    rw [w16_id _ (add_range _ _), w16_id _ (add_range _ _), sasr1, sasr2, sasr2, add_eq_spec, add_eq_spec]
  · congr 1; funext a b
    rw [w16_id _ (add_range _ _), sasr1, sasr1, add_eq_spec]
  · congr 1; funext a b
    rw [w16_id _ (add_range _ _), w16_id _ (add_range _ _), sasr1, sasr2, sasr2, add_eq_spec, add_eq_spec]

def larpToRpN (x : Int) : Int :=
  let f (temp : Int) : Int :=
    if temp < 11059 then temp * 2 else if temp < 20070 then temp + 11059 else Rec.add (temp / 4) 26112
  if x < 0 then - f (Rec.abs x) else f x

theorem larpToRpN_eq (x : Int) (h : W16 x) : larpToRpN x = larpToRp x := by
  unfold W16 at h
  unfold larpToRpN larpToRp Rec.abs
  simp only
  have hasr : ∀ t : Int, asr t 2 = t / 4 := fun t => by simp [asr]
  by_cases hx : x < 0
  · simp only [hx, if_true]
    by_cases hm : x = -32768
    · subst hm; decide
    · have e1 : (if x = -32768 then (32767 : Int) else if x < 0 then -x else x) = -x := by simp [hm, hx]
      have e2 : (if x = -32768 then (32767 : Int) else -x) = -x := by simp [hm]
      simp only [e2]
      split
      · rw [w16_id _ (by unfold W16; omega)]
      · split
        · rw [w16_id _ (by unfold W16; omega)]
        · rw [hasr, w16_id (-x / 4) (by unfold W16; omega), add_eq_spec]
          have := add_range (-x / 4) 26112
          rw [add_eq_spec] at this
          unfold W16 at this
          rw [w16_id _ (by unfold W16; unfold Rec.add Rec.sat16 at *; split <;> (try split) <;> omega)]
  · simp only [hx, if_false]
    split
    · rw [w16_id _ (by unfold W16; omega)]
    · split
      · rw [w16_id _ (by unfold W16; omega)]
      · rw [hasr, w16_id (x / 4) (by unfold W16; omega), add_eq_spec]
        rw [w16_id _ (by rw [← add_eq_spec]; exact add_range _ _)]

theorem larpToRp_range (x : Int) : W16 (larpToRp x) := by
  unfold larpToRp
  simp only
  split <;> exact w16_range _

def synStepN : List (Int × Int) → Int → Int × List Int
  | [], sri => (sri, [])
  | (r, vi) :: rest, sri =>
    let mr (a b : Int) : Int := if a = -32768 ∧ b = -32768 then 32767 else (a * b + 16384) / 32768
    let tmp2 := mr r vi
    let sri := Rec.sub sri tmp2
    let tmp1 := mr r sri
    let vnew := Rec.add vi tmp1
    let (s, vs) := synStepN rest sri
    (s, vnew :: vs)

theorem synStepN_eq : ∀ (ps : List (Int × Int)) (sri : Int), W16 sri → (∀ p ∈ ps, W16 p.1 ∧ W16 p.2) →
    synStepN ps sri = synStep ps sri := by
  intro ps
  induction ps with
  | nil => intro sri _ _; rfl
  | cons p rest ih =>
    intro sri hs hp
    obtain ⟨r, vi⟩ := p
    obtain ⟨hr, hv⟩ := hp (r, vi) (by simp)
    simp only [synStepN, synStep]
    have e1 := gsmMultR_eq r vi hr hv
    have hs1 : W16 (Gsm.sub sri (gsmMultR r vi)) := sub_range _ _
    have e2 := gsmMultR_eq r (Gsm.sub sri (gsmMultR r vi)) hr hs1
    rw [w16_id _ hs1, w16_id _ (add_range _ _), ← e1, ← sub_eq_spec, ← e2, ← add_eq_spec,
      ih _ hs1 (fun q hq => hp q (by simp [hq]))]

def synFilterN (rrp : List Int) : List Int → List Int → List Int × List Int
  | v, [] => (v, [])
  | v, w :: ws =>
    let (sri, vs) := synStepN ((rrp.zip v).reverse) w
    let (vf, out) := synFilterN rrp (sri :: vs.reverse) ws
    (vf, sri :: out)

theorem zip_w16 (rrp v : List Int) (hr : AllW16 rrp) (hv : AllW16 v) : ∀ p ∈ (rrp.zip v).reverse, W16 p.1 ∧ W16 p.2 := by
  intro p hp
  rw [List.mem_reverse] at hp
  obtain ⟨a, b⟩ := p
  have := List.of_mem_zip hp
  exact ⟨hr a this.1, hv b this.2⟩

theorem synFilterN_eq (rrp : List Int) (hr : rrp.length = 8) (hrw : AllW16 rrp) : ∀ (wt v : List Int), v.length = 9 → AllW16 v →
    AllW16 wt → synFilterN rrp v wt = synFilter rrp v wt := by
  intro wt
  induction wt with
  | nil => intro v _ _ _; rfl
  | cons w ws ih =>
    intro v hv hvw hwt
    have hw : W16 w := hwt w (List.mem_cons_self ..)
    have hws : AllW16 ws := fun x hx => hwt x (List.mem_cons_of_mem _ hx)
    simp only [synFilterN, synFilter]
    rw [synStepN_eq _ w hw (zip_w16 rrp v hrw hvw)]
    obtain ⟨c1, c2, c3⟩ := synStep_spec ((rrp.zip v).reverse) w hw
    have hz : ((rrp.zip v).reverse).length = 8 := by rw [List.length_reverse, List.length_zip, hr, hv]; rfl
    rw [ih ((synStep ((rrp.zip v).reverse) w).1 :: (synStep ((rrp.zip v).reverse) w).2.reverse)
      (by simp [c2, hz]) (AllW16_cons c1 (AllW16_reverse c3)) hws]

def shortTermSynthN (st : State) (larcr : List Int) (wt : List Int) : State × List Int :=
  let cur := decodeLarN larcr
  let prev := if st.j = 0 then st.larpp1 else st.larpp0
  let st1 : State := if st.j = 0 then { st with larpp0 := cur, j := 1 } else { st with larpp1 := cur, j := 0 }
  let (v1, s1) := synFilterN ((coeff0_12N prev cur).map larpToRpN) st.v (wt.take 13)
  let (v2, s2) := synFilterN ((coeff13_26N prev cur).map larpToRpN) v1 ((wt.drop 13).take 14)
  let (v3, s3) := synFilterN ((coeff27_39N prev cur).map larpToRpN) v2 ((wt.drop 27).take 13)
  let (v4, s4) := synFilterN (cur.map larpToRpN) v3 ((wt.drop 40).take 120)
  ({ st1 with v := v4 }, s1 ++ s2 ++ s3 ++ s4)

theorem map_larp_eq (l : List Int) (h : AllW16 l) : l.map larpToRpN = l.map larpToRp :=
  List.map_congr_left (fun x hx => larpToRpN_eq x (h x hx))

theorem map_larp_w16 (l : List Int) : AllW16 (l.map larpToRp) := by
  intro x hx
  obtain ⟨y, _, rfl⟩ := List.mem_map.mp hx
  exact larpToRp_range y

theorem coeff_w16 (p c : List Int) : AllW16 (coeff0_12 p c) ∧ AllW16 (coeff13_26 p c) ∧ AllW16 (coeff27_39 p c) :=
  ⟨AllW16_zipWith_w16 _ _ _, AllW16_zipWith_w16 _ _ _, AllW16_zipWith_w16 _ _ _⟩

theorem shortTermSynthN_eq (st : State) (p : Params) (wt : List Int) (inv : SInv st) (hl : LarInv p) (hwt : wt.length = 160)
    (hw : AllW16 wt) : shortTermSynthN st p.larc wt = shortTermSynth st p.larc wt := by
  obtain ⟨cl, cw⟩ := decodeLar_spec p.larc
  have hprev : (if st.j = 0 then st.larpp1 else st.larpp0).length = 8 := by split; exact inv.l1_len; exact inv.l0_len
  unfold shortTermSynthN shortTermSynth
  simp only
  rw [decodeLarN_eq p hl]
  generalize hpv : (if st.j = 0 then st.larpp1 else st.larpp0) = prev at hprev
  obtain ⟨q1, q2, q3⟩ := coeffN_eq prev (decodeLar p.larc)
  obtain ⟨k1, k2, k3⟩ := coeff_w16 prev (decodeLar p.larc)
  rw [q1, q2, q3, map_larp_eq _ k1, map_larp_eq _ k2, map_larp_eq _ k3, map_larp_eq _ cw]
  have r1 : ((coeff0_12 prev (decodeLar p.larc)).map larpToRp).length = 8 := coeff_len _ _ _ hprev cl
  have r2 : ((coeff13_26 prev (decodeLar p.larc)).map larpToRp).length = 8 := coeff_len _ _ _ hprev cl
  have r3 : ((coeff27_39 prev (decodeLar p.larc)).map larpToRp).length = 8 := coeff_len _ _ _ hprev cl
  have r4 : ((decodeLar p.larc).map larpToRp).length = 8 := by rw [List.length_map, cl]
  obtain ⟨a1, a2, _, _⟩ := synFilter_spec _ r1 (wt.take 13) st.v inv.v_len inv.v_w (AllW16_take _ hw)
  rw [synFilterN_eq _ r1 (map_larp_w16 _) (wt.take 13) st.v inv.v_len inv.v_w (AllW16_take _ hw)]
  obtain ⟨b1, b2, _, _⟩ := synFilter_spec _ r2 ((wt.drop 13).take 14) _ a1 a2 (AllW16_take _ (AllW16_drop _ hw))
  rw [synFilterN_eq _ r2 (map_larp_w16 _) ((wt.drop 13).take 14) _ a1 a2 (AllW16_take _ (AllW16_drop _ hw))]
  obtain ⟨c1, c2, _, _⟩ := synFilter_spec _ r3 ((wt.drop 27).take 13) _ b1 b2 (AllW16_take _ (AllW16_drop _ hw))
  rw [synFilterN_eq _ r3 (map_larp_w16 _) ((wt.drop 27).take 13) _ b1 b2 (AllW16_take _ (AllW16_drop _ hw))]
  rw [synFilterN_eq _ r4 (map_larp_w16 _) ((wt.drop 40).take 120) _ c1 c2 (AllW16_take _ (AllW16_drop _ hw))]

/-! ## post-processing and the frame decoder -/

/-- `& 0xFFF8` on a saturated sum stored into an `int16_t`: rounding down to a multiple of 8 -/
theorem trunc8_exact (x : Int) (h : W16 x) : w16 (((wrapU 16 x / 8 * 8 : Nat) : Int)) = x / 8 * 8 := by
  unfold W16 at h
  unfold w16 wrapS wrapU
  simp only [pow16]
  by_cases hx : 0 ≤ x
  · have h1 : x % 65536 = x := Int.emod_eq_of_lt hx (by omega)
    rw [h1]
    have h2 : ((x.toNat / 8 * 8 : Nat) : Int) = x / 8 * 8 := by omega
    rw [h2]
    have h3 : (x / 8 * 8) % 65536 = x / 8 * 8 := Int.emod_eq_of_lt (by omega) (by omega)
    rw [h3]; split <;> omega
  · have h1 : x % 65536 = x + 65536 := by
      have := Int.emod_eq_of_lt (show 0 ≤ x + 65536 by omega) (show x + 65536 < 65536 by omega)
      rw [← this, Int.add_emod_right]
    rw [h1]
    have h2 : (((x + 65536).toNat / 8 * 8 : Nat) : Int) = x / 8 * 8 + 65536 := by omega
    rw [h2]
    have h3 : (x / 8 * 8 + 65536) % 65536 = x / 8 * 8 + 65536 := Int.emod_eq_of_lt (by omega) (by omega)
    rw [h3]; split <;> omega

def postprocN : Int → List Int → Int × List Int
  | msr, [] => (msr, [])
  | msr, s :: ss =>
    let tmp := (msr * 28180 + 16384) / 32768
    let msr := Rec.add s tmp
    let out := Rec.add msr msr / 8 * 8
    let (m, rest) := postprocN msr ss
    (m, out :: rest)

theorem postprocN_eq : ∀ (l : List Int) (msr : Int), W16 msr → postprocN msr l = postproc msr l := by
  intro l
  induction l with
  | nil => intro msr _; rfl
  | cons s ss ih =>
    intro msr hm
    simp only [postprocN, postproc]
    have hr := multR_range msr 28180 hm (by unfold W16; omega) (by omega)
    have e : multR msr 28180 = (msr * 28180 + 16384) / 32768 := by unfold multR; rw [asr15]
    rw [w16_id _ hr, w16_id _ (add_range _ _), trunc8_exact _ (add_range _ _), add_eq_spec, add_eq_spec, e,
      ih _ (by rw [← add_eq_spec, ← e]; exact add_range _ _)]

def subLoopN : List Sub → Int → List Int → Int × List Int × List Int
  | [], nrp, hist => (nrp, hist, [])
  | sb :: rest, nrp, hist =>
    let erp := rpeDecodeN sb.xmaxc sb.mc sb.xmc
    let nr := nrOf nrp sb.nc
    let (hist1, drp) := ltSynthN hist nr sb.bc erp
    let (n, h, wt) := subLoopN rest nr hist1
    (n, h, drp ++ wt)

theorem subLoopN_eq : ∀ (subs : List Sub) (nrp : Int) (hist : List Int), (∀ s ∈ subs, SubInv s) → hist.length = 120 → 40 ≤ nrp →
    nrp ≤ 120 → AllW16 hist → subLoopN subs nrp hist = subLoop subs nrp hist := by
  intro subs
  induction subs with
  | nil => intro nrp hist _ _ _ _ _; rfl
  | cons sb rest ih =>
    intro nrp hist hs hl h1 h2 hw
    obtain ⟨n1, n2⟩ := nrOf_range nrp sb.nc h1 h2
    simp only [subLoopN, subLoop]
    rw [rpeDecodeN_eq sb (hs sb (by simp)), ltSynthN_eq _ _ _ _ hw]
    obtain ⟨a1, a2, _, _⟩ := ltSynth_spec hist (nrOf nrp sb.nc) sb.bc (rpeDecode sb.xmaxc sb.mc sb.xmc) hl n1 n2
      (rpeDecode_length _ _ _) hw
    rw [ih (nrOf nrp sb.nc) _ (fun s h => hs s (by simp [h])) a1 n1 n2 a2]

def decodeParamsN (st : State) (p : Params) : State × List Int :=
  let hist := st.dp0.take 120
  let (nrp, hist1, wt) := subLoopN p.subs st.nrp hist
  let st1 : State := { st with nrp := nrp, dp0 := hist1 ++ hist1.drop 80 ++ st.dp0.drop 160 }
  let (st2, s) := shortTermSynthN st1 p.larc wt
  let (msr, out) := postprocN st2.msr s
  ({ st2 with msr := msr }, out)

/-- **the wrap-free frame decoder equals the wrapping one** on every invariant state and every in-range parameter set -/
theorem decodeParamsN_eq (st : State) (p : Params) (inv : SInv st) (pi : PInv p) (hl : LarInv p) :
    decodeParamsN st p = decodeParams st p := by
  have hh : (st.dp0.take 120).length = 120 := by rw [List.length_take, inv.dp0_len]; rfl
  obtain ⟨a1, a2, a3, a4, a5, a6⟩ := subLoop_spec p.subs st.nrp (st.dp0.take 120) hh inv.nrp_lo inv.nrp_hi (AllW16_take _ inv.dp0_w)
  rw [pi.subs_len] at a5
  unfold decodeParamsN decodeParams
  simp only
  rw [subLoopN_eq p.subs st.nrp _ pi.subs hh inv.nrp_lo inv.nrp_hi (AllW16_take _ inv.dp0_w)]
  generalize hsl : subLoop p.subs st.nrp (st.dp0.take 120) = sl at a1 a2 a3 a4 a5 a6
  obtain ⟨nrp, hist1, wt⟩ := sl
  simp only at a1 a2 a3 a4 a5 a6 ⊢
  have inv1 : SInv { st with nrp := nrp, dp0 := hist1 ++ hist1.drop 80 ++ st.dp0.drop 160 } := by
    refine ⟨?_, AllW16_append (AllW16_append a4 (AllW16_drop _ a4)) (AllW16_drop _ inv.dp0_w), inv.v_len, inv.v_w, inv.msr_w,
      inv.l0_len, inv.l0_w, inv.l1_len, inv.l1_w, inv.j_le, a1, a2, inv.fi_le, inv.chain_lt⟩
    simp only [List.length_append, List.length_drop, a3, inv.dp0_len]
  rw [shortTermSynthN_eq _ p wt inv1 hl a5 a6]
  obtain ⟨b1, _, _, _⟩ := shortTermSynth_spec _ p.larc wt inv1 a5 a6
  generalize shortTermSynth { st with nrp := nrp, dp0 := hist1 ++ hist1.drop 80 ++ st.dp0.drop 160 } p.larc wt = sts at b1
  obtain ⟨st2, s⟩ := sts
  simp only at b1 ⊢
  rw [postprocN_eq s st2.msr b1.msr_w]

/-- `gsm_decode` built on the wrap-free frame decoder -/
def gsmDecodeN (st : State) (c : List Byte) : State × Option (List Int) :=
  if st.wavFmt then
    let fi := 1 - st.frameIndex
    if fi = 1 then
      let (p, chain) := unpack49a c
      let (st1, out) := decodeParamsN { st with frameIndex := fi, frameChain := chain } p
      (st1, some out)
    else
      let p := unpack49b st.frameChain c
      let (st1, out) := decodeParamsN { st with frameIndex := fi } p
      (st1, some out)
  else
    match unpack33 c with
    | none => (st, none)
    | some p =>
      let (st1, out) := decodeParamsN st p
      (st1, some out)

theorem gsmDecodeN_eq (st : State) (c : List Byte) (inv : SInv st) : gsmDecodeN st c = gsmDecode st c := by
  unfold gsmDecodeN gsmDecode
  by_cases hw : st.wavFmt = true
  · rw [if_pos hw, if_pos hw]
    by_cases hf : 1 - st.frameIndex = 1
    · simp only [if_pos hf]
      obtain ⟨p1, p2⟩ := unpack49a_inv c
      have p3 := unpack49a_larInv c
      generalize unpack49a c = u at p1 p2 p3
      obtain ⟨p, chain⟩ := u
      simp only at p1 p2 p3 ⊢
      have inv1 : SInv { st with frameIndex := 1 - st.frameIndex, frameChain := chain } :=
        ⟨inv.dp0_len, inv.dp0_w, inv.v_len, inv.v_w, inv.msr_w, inv.l0_len, inv.l0_w, inv.l1_len, inv.l1_w, inv.j_le, inv.nrp_lo,
          inv.nrp_hi, Nat.sub_le 1 _, p2⟩
      rw [decodeParamsN_eq _ p inv1 p1 p3]
    · simp only [if_neg hf]
      have inv1 : SInv { st with frameIndex := 1 - st.frameIndex } :=
        ⟨inv.dp0_len, inv.dp0_w, inv.v_len, inv.v_w, inv.msr_w, inv.l0_len, inv.l0_w, inv.l1_len, inv.l1_w, inv.j_le, inv.nrp_lo,
          inv.nrp_hi, Nat.sub_le 1 _, inv.chain_lt⟩
      rw [decodeParamsN_eq _ _ inv1 (unpack49b_inv st.frameChain c) (unpack49b_larInv st.frameChain c)]
  · rw [if_neg hw, if_neg hw]
    cases hu : unpack33 c with
    | none => rfl
    | some p =>
      simp only
      rw [decodeParamsN_eq st p inv (unpack33_inv c p hu) (unpack33_larInv c p hu)]

end Sf.Gsm.Twin
