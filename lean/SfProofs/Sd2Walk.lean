/-
  SD2: the walk of sd2_parse_rsrc_fork / parse_str_rsrc over the fork the writer makes, for EVERY accepted configuration
  (helpers of SfProps/C04Sd2All.lean).  `stage1` = the header tests, the map fields and the type list up to the call of
  parse_str_rsrc; `iter_text` / `iter_sdml` = one iteration of the string loop on a Pascal-string resource / on the 'sdML'
  resource; `item_reads` = the reference-list reads of the six iterations (items 0-3 as written, item 4 = the zero
  background nobody writes, "item" 5 = the start of the name area, whose data offset ends the loop); `loop_walk` chains
  them.  Hypotheses that are equations between `Prog.eval` terms are kept away from `omega` (its kernel check would unfold
  the whole fork): arithmetic facts are proved after `clear`, the item reads live in the structure `ItemReads`.
-/
import SfProofs.Sd2Eval
namespace Sf.Sd2.Walk
open Sf Sf.Small2 Sf.Sd2 Sf.Sd2.Prog
open Sf.Pvf (digits)

theorem eval_Pure (g : Nat → Byte) (a : α) : (Pure.pure a : Prog α).eval g = a := rfl

theorem wrapS32_small (x : Int) (h0 : -2147483648 ≤ x) (h1 : x < 2147483648) : wrapS 32 x = x := by
  unfold wrapS
  have e : (2 : Int) ^ 32 = 4294967296 := by decide
  simp only [e]
  split <;> omega

theorem head_fields (c : Cfg) (u : Nat) (hu : u < 4) :
    G c (0 + u) = (be32 ((256 : Nat) : Int)).getD u 0 ∧ G c (4 + u) = (be32 (mapOff c : Int)).getD u 0 ∧
    G c (8 + u) = (be32 (dataLen c : Int)).getD u 0 ∧ G c (12 + u) = (be32 ((147 : Nat) : Int)).getD u 0 := by
  refine ⟨?_, ?_, ?_, ?_⟩
  · rw [G_head c _ (by omega)]
    exact getD_at _ [] (be32 256) (be32 (mapOff c : Int) ++ be32 (dataLen c : Int) ++ be32 (mapLen : Int)) (by simp) 0 rfl u (by rw [be32_len]; exact hu)
  · rw [G_head c _ (by omega)]
    exact getD_at _ (be32 256) (be32 (mapOff c : Int)) (be32 (dataLen c : Int) ++ be32 (mapLen : Int)) (by simp) 4 (by rw [be32_len]) u (by rw [be32_len]; exact hu)
  · rw [G_head c _ (by omega)]
    exact getD_at _ (be32 256 ++ be32 (mapOff c : Int)) (be32 (dataLen c : Int)) (be32 (mapLen : Int)) (by simp) 8 (by simp [be32_len]) u (by rw [be32_len]; exact hu)
  · rw [G_head c _ (by omega)]
    exact getD_at _ (be32 256 ++ be32 (mapOff c : Int) ++ be32 (dataLen c : Int)) (be32 (mapLen : Int)) [] (by simp) 12 (by simp [be32_len]) u (by rw [be32_len]; exact hu)

theorem head_ints (c : Cfg) (len : Int) (hlen : 16 < len) (hm : mapOff c < 2147483648) (hd : dataLen c < 2147483648) :
    (rdInt len 0).eval (G c) = 256 ∧ (rdInt len 4).eval (G c) = (mapOff c : Int) ∧
    (rdInt len 8).eval (G c) = (dataLen c : Int) ∧ (rdInt len 12).eval (G c) = 147 :=
  ⟨eval_rdInt_be32 (G c) len 0 0 256 rfl (by omega) (by omega) (fun u hu => (head_fields c u hu).1),
   eval_rdInt_be32 (G c) len 4 4 (mapOff c) rfl (by omega) hm (fun u hu => (head_fields c u hu).2.1),
   eval_rdInt_be32 (G c) len 8 8 (dataLen c) rfl (by omega) hd (fun u hu => (head_fields c u hu).2.2.1),
   eval_rdInt_be32 (G c) len 12 12 147 rfl (by omega) (by omega) (fun u hu => (head_fields c u hu).2.2.2)⟩

theorem isPrint_digit (b : Nat) (h : 48 ≤ b ∧ b ≤ 57) : isPrint b = true := by
  have h1 := h.1; have h2 := h.2
  simp only [isPrint, decide_eq_true_eq]
  exact ⟨Nat.le_trans (by decide : 32 ≤ 48) h1, Nat.le_trans h2 (by decide : 57 ≤ 126)⟩

theorem no_photoshop : ∀ (t : List Byte), (∀ b ∈ t, b ≠ 80) → hasInfix (asc "Photoshop") t = false
  | [], _ => by decide
  | b :: t, h => by
    have hb : b ≠ 80 := h b (List.mem_cons_self ..)
    have ih := no_photoshop t (fun x hx => h x (List.mem_cons_of_mem _ hx))
    have e : asc "Photoshop" = 80 :: asc "hotoshop" := by decide
    unfold hasInfix
    rw [ih, e]
    simp [List.isPrefixOf, hb]
    intro h; exact absurd h.symm hb

theorem rateText_chars (c : Cfg) : ∀ b ∈ rateText c, isPrint b = true ∧ b ≠ 80 := by
  intro b hb
  unfold rateText at hb
  rw [List.mem_append] at hb
  rcases hb with hb | hb
  · have := Sf.Pvf.digits_all _ b hb
    exact ⟨isPrint_digit b this, fun h => by subst h; omega⟩
  · have e : asc ".000000" = [0x2E, 0x30, 0x30, 0x30, 0x30, 0x30, 0x30] := by decide
    rw [e] at hb
    simp at hb
    rcases hb with rfl | rfl <;> decide

theorem digits_chars (n : Nat) : ∀ b ∈ digits n, isPrint b = true ∧ b ≠ 80 := by
  intro b hb
  have := Sf.Pvf.digits_all _ b hb
  exact ⟨isPrint_digit b this, fun h => by subst h; omega⟩


/-- reads inside the resource map -/
theorem map_short (c : Cfg) (hn : c.name.length ≤ 200) (len off : Int) (hlen : len = (mapOff c : Int) + 147) (u : Nat) (hu : u + 1 < 147)
    (ho : off = (mapOff c : Int) + u) :
    (rdShort len off).eval (G c) = ((mapRegion bg c).getD u 0 : Int) * 256 + ((mapRegion bg c).getD (u + 1) 0 : Int) := by
  rw [eval_rdShort (G c) len off (mapOff c + u) (by omega) (by omega), G_map c hn u (by omega), Nat.add_assoc, G_map c hn (u + 1) (by omega)]

theorem map_int (c : Cfg) (hn : c.name.length ≤ 200) (len off : Int) (hlen : len = (mapOff c : Int) + 147) (u : Nat) (hu : u + 3 < 147)
    (ho : off = (mapOff c : Int) + u) :
    (rdInt len off).eval (G c) = wrapS 32 (((mapRegion bg c).getD u 0 : Int) * 16777216 + ((mapRegion bg c).getD (u + 1) 0 : Int) * 65536
      + ((mapRegion bg c).getD (u + 2) 0 : Int) * 256 + ((mapRegion bg c).getD (u + 3) 0 : Int)) := by
  rw [eval_rdInt (G c) len off (mapOff c + u) (by omega) (by omega), G_map c hn u (by omega), Nat.add_assoc, G_map c hn (u + 1) (by omega),
    Nat.add_assoc, G_map c hn (u + 2) (by omega), Nat.add_assoc, G_map c hn (u + 3) (by omega)]

theorem map_int_be32 (c : Cfg) (hn : c.name.length ≤ 200) (len off : Int) (hlen : len = (mapOff c : Int) + 147) (u : Nat) (hu : u + 3 < 147)
    (ho : off = (mapOff c : Int) + u) (v : Nat) (hv : v < 2147483648) (hb : ∀ t, t < 4 → (mapRegion bg c).getD (u + t) 0 = (be32 (v : Int)).getD t 0) :
    (rdInt len off).eval (G c) = (v : Int) :=
  eval_rdInt_be32 (G c) len off (mapOff c + u) v (by omega) (by omega) hv (fun t ht => by rw [Nat.add_assoc, G_map c hn (u + t) (by omega), hb t ht])

/-- sd2_parse_rsrc_fork up to the call of parse_str_rsrc -/
theorem stage1 (c : Cfg) (hn : c.name.length ≤ 200) (len : Int) (hlen : len = (mapOff c : Int) + 147) (hd : dataLen c < 1000) :
    (parseFork len).eval (G c) = (parseStr len 256 ((mapOff c : Int) + 46) ((mapOff c : Int) + 106)).eval (G c) := by
  have hmo : mapOff c = 256 + dataLen c := rfl
  obtain ⟨h0, h4, h8, h12⟩ := head_ints c len (by omega) (by omega) (by omega)
  unfold parseFork
  simp only [eval_bind, h0, h4, h8, h12]
  rw [if_neg (by omega : ¬ ((256 : Int) = 333319 ∧ (mapOff c : Int) = 131072))]
  simp only [eval_Pure]
  have w1 : wrapS 32 (256 + (dataLen c : Int)) = (mapOff c : Int) := by rw [wrapS32_small _ (by omega) (by omega)]; omega
  have w2 : wrapS 32 ((mapOff c : Int) + 147) = len := by rw [wrapS32_small _ (by omega) (by omega)]; omega
  have n1 : ¬ ((256 : Int) > len) := by omega
  have n2 : ¬ ((mapOff c : Int) > len) := by omega
  have n3 : ¬ ((dataLen c : Int) > len) := by omega
  have n4 : ¬ ((147 : Int) > len) := by omega
  have n5 : ¬ ((mapOff c : Int) + 28 ≥ len) := by omega
  simp only [n1, n2, n3, n4, n5, w1, w2, ne_eq, not_true_eq_false, or_self, if_false]
  obtain ⟨b26, b27, b28, b29, b30, b31, b32, b33, -⟩ := map_bytes bg c
  have eso : (rdShort len ((mapOff c : Int) + 26)).eval (G c) = 106 := by
    rw [map_short c hn len ((mapOff c : Int) + 26) hlen 26 (by omega) rfl, b26, b27]; rfl
  have etc : (rdShort len ((mapOff c : Int) + 28)).eval (G c) = 1 := by
    rw [map_short c hn len ((mapOff c : Int) + 28) hlen 28 (by omega) rfl, b28, b29]; rfl
  simp only [eval_bind, eso, etc]
  have n6 : ¬ ((mapOff c : Int) + 106 > len) := by omega
  have n7 : ¬ ((1 : Int) + 1 < 1) := by omega
  have n8 : ¬ ((mapOff c : Int) + 30 + (1 + 1) * 8 < 0 ∨ (mapOff c : Int) + 30 + (1 + 1) * 8 > len) := by omega
  simp only [n6, if_false]
  simp only [eval_bind, etc]
  simp only [n7, n8, if_false]
  have e2 : ((1 : Int) + 1).toNat = 1 + 1 := by decide
  rw [e2, typeLoop]
  have em : (rdMarker len ((mapOff c : Int) + 30 + 0 * 8)).eval (G c) = some [0x53, 0x54, 0x52, 0x20] := by
    rw [eval_rdMarker (G c) len _ (mapOff c + 30) (by omega) (by omega), G_map c hn 30 (by omega), Nat.add_assoc, G_map c hn 31 (by omega),
      Nat.add_assoc, G_map c hn 32 (by omega), Nat.add_assoc, G_map c hn 33 (by omega), b30, b31, b32, b33]
    rfl
  simp only [eval_bind, em, if_true]
  have e46 : (mapOff c : Int) + 30 + (1 + 1) * 8 = (mapOff c : Int) + 46 := by clear eso etc em h0 h4 h8 h12; omega
  rw [e46]

/-- an iteration of the string loop whose item points at a Pascal-string resource `t` lying at data offset `off` -/
theorem iter_text (c : Cfg) (hn : c.name.length ≤ 200) (len : Int) (hlen : len = (mapOff c : Int) + 147) (itemOff : Int) (fuel : Nat) (k : Int)
    (s : LoopSt) (off id : Nat) (t : List Byte)
    (hcont : s.dataOff + s.dataLen < len)
    (hid : ¬ (itemOff + k * 12 < 0 ∨ itemOff + k * 12 + 1 ≥ len))
    (e_id : (rdShort len (itemOff + k * 12)).eval (G c) = (id : Int))
    (e_rel : (rdInt len (itemOff + k * 12 + 4)).eval (G c) = (off : Int))
    (hoff : off + t.length + 6 ≤ dataLen c)
    (hd : dataLen c < 1000)
    (hg : ∀ u, u < t.length + 5 → G c (256 + off + u) = (entry (pstr t)).getD u 0)
    (ht : t.length ≤ 31) (hp : ∀ b ∈ t, isPrint b = true ∧ b ≠ 80) :
    ∃ so, (strLoopK len 256 itemOff (fuel + 1) k s).eval (G c) =
      (strLoopK len 256 itemOff fuel (k + 1)
        (upd { s with strOff := so, dataOff := ((256 + off : Nat) : Int), dataLen := ((t.length + 1 : Nat) : Int) } (id : Int) t)).eval (G c) := by
  have hmo : mapOff c = 256 + dataLen c := rfl
  have a1 : -2147483648 ≤ 256 + (off : Int) := by clear e_id e_rel hg hid hcont; omega
  have a2 : 256 + (off : Int) < 2147483648 := by clear e_id e_rel hg hid hcont; omega
  have a3 : 256 + (off : Int) = ((256 + off : Nat) : Int) := by clear e_id e_rel hg hid hcont; omega
  have a4 : ¬ (((256 + off : Nat) : Int) < 0 ∨ ((256 + off : Nat) : Int) > len) := by clear e_id e_rel hg hid hcont; omega
  have a5 : ((256 + off : Nat) : Int) + t.length + 6 < len := by clear e_id e_rel hg hid hcont; omega
  have a6 : ¬ (((t.length + 1 : Nat) : Int) < 0 ∨ ((t.length + 1 : Nat) : Int) > len) := by clear e_id e_rel hg hid hcont; omega
  have hw : wrapS 32 (256 + (off : Int)) = ((256 + off : Nat) : Int) := by rw [wrapS32_small _ a1 a2]; exact a3
  obtain ⟨r1, r2, r3⟩ := entry_reads (G c) len (256 + off) t ht (fun b hb => (hp b hb).1) a5 hg
  have := strLoopK_step (G c) len 256 itemOff fuel k s id off ((t.length + 1 : Nat) : Int) t hcont hid e_id e_rel
    (by rw [hw]; exact a4) (by rw [hw]; exact r1) a6 (by rw [hw, r2]; exact r3) (no_photoshop t (fun b hb => (hp b hb).2))
  rw [hw] at this
  exact this

/-- the iteration on the 'sdML' resource (eight zero bytes): the value is the empty string -/
theorem iter_sdml (c : Cfg) (len : Int) (hlen : len = (mapOff c : Int) + 147) (itemOff : Int) (fuel : Nat) (k : Int)
    (s : LoopSt) (off id : Nat)
    (hcont : s.dataOff + s.dataLen < len)
    (hid : ¬ (itemOff + k * 12 < 0 ∨ itemOff + k * 12 + 1 ≥ len))
    (e_id : (rdShort len (itemOff + k * 12)).eval (G c) = (id : Int))
    (e_rel : (rdInt len (itemOff + k * 12 + 4)).eval (G c) = (off : Int))
    (hoff : off + 12 ≤ dataLen c)
    (hd : dataLen c < 1000)
    (hg : ∀ u, u < 12 → G c (256 + off + u) = (entry (List.replicate 8 0)).getD u 0) :
    ∃ so, (strLoopK len 256 itemOff (fuel + 1) k s).eval (G c) =
      (strLoopK len 256 itemOff fuel (k + 1)
        (upd { s with strOff := so, dataOff := ((256 + off : Nat) : Int), dataLen := 8 } (id : Int) [])).eval (G c) := by
  have hmo : mapOff c = 256 + dataLen c := rfl
  have a1 : -2147483648 ≤ 256 + (off : Int) := by clear e_id e_rel hg hid hcont; omega
  have a2 : 256 + (off : Int) < 2147483648 := by clear e_id e_rel hg hid hcont; omega
  have a3 : 256 + (off : Int) = ((256 + off : Nat) : Int) := by clear e_id e_rel hg hid hcont; omega
  have a4 : ¬ (((256 + off : Nat) : Int) < 0 ∨ ((256 + off : Nat) : Int) > len) := by clear e_id e_rel hg hid hcont; omega
  have a5 : ((256 + off : Nat) : Int) + 6 < len := by clear e_id e_rel hg hid hcont; omega
  have a6 : ¬ ((8 : Int) < 0 ∨ (8 : Int) > len) := by clear e_id e_rel hg hid hcont; omega
  have hw : wrapS 32 (256 + (off : Int)) = ((256 + off : Nat) : Int) := by rw [wrapS32_small _ a1 a2]; exact a3
  have r1 : (rdInt len ((256 + off : Nat) : Int)).eval (G c) = 8 := by
    refine eval_rdInt_be32 (G c) len _ (256 + off) 8 rfl (by clear e_id e_rel hg hid hcont; omega) (by decide) (fun u hu => ?_)
    rw [hg u (by omega)]
    have : u = 0 ∨ u = 1 ∨ u = 2 ∨ u = 3 := by omega
    rcases this with rfl | rfl | rfl | rfl <;> decide
  have r2 : (rdChar len (((256 + off : Nat) : Int) + 4)).eval (G c) = 0 := by
    rw [eval_rdChar (G c) len _ (256 + off + 4) (by clear e_id e_rel hg hid hcont r1; omega) (by clear e_id e_rel hg hid hcont r1; omega), hg 4 (by omega)]
    decide
  have r3 : (rdStr len (((256 + off : Nat) : Int) + 5) (min 32 ((0 : Int) + 1))).eval (G c) = [] := by
    unfold rdStr
    rw [if_neg (by clear e_id e_rel hg hid hcont r1 r2; omega)]
    rfl
  have := strLoopK_step (G c) len 256 itemOff fuel k s id off 8 [] hcont hid e_id e_rel
    (by rw [hw]; exact a4) (by rw [hw]; exact r1) a6 (by rw [hw, r2]; exact r3) (by decide)
  rw [hw] at this
  exact this

/-- what the six iterations read from the reference list (a structure, so that `omega` does not look inside) -/
structure ItemReads (c : Cfg) (len : Int) : Prop where
  i0 : (rdShort len ((mapOff c : Int) + 46 + 0 * 12)).eval (G c) = ((1000 : Nat) : Int)
  j0 : (rdInt len ((mapOff c : Int) + 46 + 0 * 12 + 4)).eval (G c) = ((off0 c : Nat) : Int)
  i1 : (rdShort len ((mapOff c : Int) + 46 + 1 * 12)).eval (G c) = ((1001 : Nat) : Int)
  j1 : (rdInt len ((mapOff c : Int) + 46 + 1 * 12 + 4)).eval (G c) = ((off1 c : Nat) : Int)
  i2 : (rdShort len ((mapOff c : Int) + 46 + 2 * 12)).eval (G c) = ((1002 : Nat) : Int)
  j2 : (rdInt len ((mapOff c : Int) + 46 + 2 * 12 + 4)).eval (G c) = ((off2 c : Nat) : Int)
  i3 : (rdShort len ((mapOff c : Int) + 46 + 3 * 12)).eval (G c) = ((1000 : Nat) : Int)
  j3 : (rdInt len ((mapOff c : Int) + 46 + 3 * 12 + 4)).eval (G c) = ((off3 c : Nat) : Int)
  i4 : (rdShort len ((mapOff c : Int) + 46 + 4 * 12)).eval (G c) = ((0 : Nat) : Int)
  j4 : (rdInt len ((mapOff c : Int) + 46 + 4 * 12 + 4)).eval (G c) = ((0 : Nat) : Int)
  j5 : (rdInt len ((mapOff c : Int) + 46 + 5 * 12 + 4)).eval (G c) = 1836084325

theorem item_reads (c : Cfg) (hn : c.name.length ≤ 200) (len : Int) (hlen : len = (mapOff c : Int) + 147) (hd : dataLen c < 1000) :
    ItemReads c len := by
  have hmo : mapOff c = 256 + dataLen c := rfl
  have hdl : dataLen c = off3 c + 12 := rfl
  have hoff3 : off3 c = off2 c + 5 + (chText c).length := rfl
  have hoff2 : off2 c = off1 c + 5 + (rateText c).length := rfl
  have hoff0 : off0 c = 0 := rfl
  have g1 : off0 c < 2147483648 := by omega
  have g2 : off1 c < 2147483648 := by omega
  have g3 : off2 c < 2147483648 := by omega
  have g4 : off3 c < 2147483648 := by omega
  have g5 : 256 ≤ mapOff c := by omega
  obtain ⟨-, -, -, -, -, -, -, -, b46, b47, b58, b59, b70, b71, b82, b83, b94, b95, b98, b99, b100, b101, -, -, b110, b111, b112, b113⟩ := map_bytes bg c
  rw [bg_zero _ (by omega)] at b94 b95 b98 b99 b100 b101
  refine ⟨?_, ?_, ?_, ?_, ?_, ?_, ?_, ?_, ?_, ?_, ?_⟩
  · rw [map_short c hn len _ hlen 46 (by omega) (by omega), b46, b47]; rfl
  · exact map_int_be32 c hn len _ hlen 50 (by omega) (by omega) _ g1 (fun t ht => (map_rel bg c t ht).1)
  · rw [map_short c hn len _ hlen 58 (by omega) (by omega), b58, b59]; rfl
  · exact map_int_be32 c hn len _ hlen 62 (by omega) (by omega) _ g2 (fun t ht => (map_rel bg c t ht).2.1)
  · rw [map_short c hn len _ hlen 70 (by omega) (by omega), b70, b71]; rfl
  · exact map_int_be32 c hn len _ hlen 74 (by omega) (by omega) _ g3 (fun t ht => (map_rel bg c t ht).2.2.1)
  · rw [map_short c hn len _ hlen 82 (by omega) (by omega), b82, b83]; rfl
  · exact map_int_be32 c hn len _ hlen 86 (by omega) (by omega) _ g4 (fun t ht => (map_rel bg c t ht).2.2.2)
  · rw [map_short c hn len _ hlen 94 (by omega) (by omega), b94, b95]; rfl
  · rw [map_int c hn len _ hlen 98 (by omega) (by omega), b98, b99, b100, b101]; decide
  · rw [map_int c hn len _ hlen 110 (by omega) (by omega), b110, b111, b112, b113]; decide

theorem upd_size (s1 : LoopSt) (v : List Byte) (h : s1.size = 0) : upd s1 ((1000 : Nat) : Int) v = { s1 with size := strtol v } := by
  simp [upd, h]
theorem upd_rate (s1 : LoopSt) (v : List Byte) (h : s1.rate = 0) : upd s1 ((1001 : Nat) : Int) v = { s1 with rate := strtol v } := by
  simp [upd, h]
theorem upd_ch (s1 : LoopSt) (v : List Byte) (h : s1.ch = 0) : upd s1 ((1002 : Nat) : Int) v = { s1 with ch := strtol v } := by
  simp [upd, h]
theorem upd_size_set (s1 : LoopSt) (v : List Byte) (h : s1.size ≠ 0) : upd s1 ((1000 : Nat) : Int) v = s1 := by
  simp [upd, h]
theorem upd_zero (s1 : LoopSt) (v : List Byte) : upd s1 ((0 : Nat) : Int) v = s1 := by
  simp [upd]

theorem loop_walk (c : Cfg) (hc : c.wf) (htot : total c ≤ 452) (er : strtol (rateText c) = (c.rate : Int))
    (es : strtol (digits c.size) = (c.size : Int)) (ec : strtol (digits c.ch) = (c.ch : Int))
    (len : Int) (hlen : len = (mapOff c : Int) + 147) (n : Nat) (so0 : Int) :
    ∃ so dO dL, (strLoopK len 256 ((mapOff c : Int) + 46) (n + 6) 0 { strOff := so0 }).eval (G c)
      = some { strOff := so, dataOff := dO, dataLen := dL, size := c.size, rate := c.rate, ch := c.ch } := by
  obtain ⟨hs1, hs4, hc1, hc2, hr1, hr2, hn⟩ := hc
  have ls := Sf.Pvf.digits_length_le 1 c.size (by omega) (by omega)
  have lr := Sf.Pvf.digits_length_le 10 c.rate (by omega) (by omega)
  have lc := Sf.Pvf.digits_length_le 4 c.ch (by omega) (by omega)
  have e7 : (asc ".000000").length = 7 := by decide
  have lrt : (rateText c).length = (digits c.rate).length + 7 := by unfold rateText; rw [List.length_append, e7]
  have lst : (sizeText c).length ≤ 1 := ls
  have lct : (chText c).length ≤ 4 := lc
  have hoff0 : off0 c = 0 := rfl
  have hoff1 : off1 c = 5 + (sizeText c).length := rfl
  have hoff2 : off2 c = off1 c + 5 + (rateText c).length := rfl
  have hoff3 : off3 c = off2 c + 5 + (chText c).length := rfl
  have hdl : dataLen c = off3 c + 12 := rfl
  have hmo : mapOff c = 256 + dataLen c := rfl
  have hd : dataLen c < 1000 := by omega
  have R := item_reads c hn len hlen hd
  have D := fun u => data_entries c u
  have k1 : (0 : Int) + 1 = 1 := rfl
  have k2 : (1 : Int) + 1 = 2 := rfl
  have k3 : (2 : Int) + 1 = 3 := rfl
  have k4 : (3 : Int) + 1 = 4 := rfl
  have k5 : (4 : Int) + 1 = 5 := rfl
  -- iteration 0: 'STR ' 1000 = the sample size
  obtain ⟨s0, e0⟩ := iter_text c hn len hlen _ (n + 5) 0 { strOff := so0 } (off0 c) 1000 (sizeText c)
    (by show (0 : Int) + 0 < len; omega) (by omega) R.i0 R.j0 (by omega) hd
    (fun u hu => by rw [Nat.add_assoc, G_data c hn _ (by omega)]; exact (D u).1 hu) (by omega) (digits_chars c.size)
  rw [e0, k1, upd_size _ _ rfl]
  dsimp only
  -- iteration 1: 'STR ' 1001 = the sample rate
  obtain ⟨s1, e1⟩ := iter_text c hn len hlen _ (n + 4) 1 { strOff := s0, dataOff := ((256 + off0 c : Nat) : Int), dataLen := (((sizeText c).length + 1 : Nat) : Int), size := strtol (sizeText c) }
    (off1 c) 1001 (rateText c)
    (by show ((256 + off0 c : Nat) : Int) + (((sizeText c).length + 1 : Nat) : Int) < len; omega) (by omega) R.i1 R.j1 (by omega) hd
    (fun u hu => by rw [Nat.add_assoc, G_data c hn _ (by omega)]; exact (D u).2.1 hu) (by omega) (rateText_chars c)
  rw [e1, k2, upd_rate _ _ rfl]
  dsimp only
  -- iteration 2: 'STR ' 1002 = the channel count
  obtain ⟨s2, e2⟩ := iter_text c hn len hlen _ (n + 3) 2 { strOff := s1, dataOff := ((256 + off1 c : Nat) : Int), dataLen := (((rateText c).length + 1 : Nat) : Int), size := strtol (sizeText c), rate := strtol (rateText c) }
    (off2 c) 1002 (chText c)
    (by show ((256 + off1 c : Nat) : Int) + (((rateText c).length + 1 : Nat) : Int) < len; omega) (by omega) R.i2 R.j2 (by omega) hd
    (fun u hu => by rw [Nat.add_assoc, G_data c hn _ (by omega)]; exact (D u).2.2.1 hu) (by omega) (digits_chars c.ch)
  rw [e2, k3, upd_ch _ _ rfl]
  dsimp only
  rw [show strtol (sizeText c) = (c.size : Int) from es, er, show strtol (chText c) = (c.ch : Int) from ec]
  -- iteration 3: 'sdML' 1000 (eight zero bytes); the sample size is set already
  obtain ⟨s3, e3⟩ := iter_sdml c len hlen _ (n + 2) 3 { strOff := s2, dataOff := ((256 + off2 c : Nat) : Int), dataLen := (((chText c).length + 1 : Nat) : Int), size := c.size, rate := c.rate, ch := c.ch }
    (off3 c) 1000
    (by show ((256 + off2 c : Nat) : Int) + (((chText c).length + 1 : Nat) : Int) < len; omega) (by omega) R.i3 R.j3 (by omega) hd
    (fun u hu => by rw [Nat.add_assoc, G_data c hn _ (by omega)]; exact (D u).2.2.2 hu)
  rw [e3, k4, upd_size_set _ _ (by show (c.size : Int) ≠ 0; omega)]
  dsimp only
  -- iteration 4: the fifth item was never written (zero background): id 0, data offset 0 = the first resource again
  obtain ⟨s4, e4⟩ := iter_text c hn len hlen _ (n + 1) 4 { strOff := s3, dataOff := ((256 + off3 c : Nat) : Int), dataLen := 8, size := c.size, rate := c.rate, ch := c.ch }
    0 0 (sizeText c)
    (by show ((256 + off3 c : Nat) : Int) + 8 < len; omega) (by omega) R.i4 R.j4 (by omega) hd
    (fun u hu => by rw [Nat.add_assoc, G_data c hn _ (by omega)]; exact (D u).1 hu) (by omega) (digits_chars c.size)
  rw [e4, k5, upd_zero]
  dsimp only
  -- iteration 5: the "item" is the start of the name area; its data offset lies outside the fork
  obtain ⟨s5, dO, e5⟩ := strLoopK_end (G c) len 256 ((mapOff c : Int) + 46) n 5 { strOff := s4, dataOff := ((256 + 0 : Nat) : Int), dataLen := (((sizeText c).length + 1 : Nat) : Int), size := c.size, rate := c.rate, ch := c.ch }
    1836084325
    (by show ((256 + 0 : Nat) : Int) + (((sizeText c).length + 1 : Nat) : Int) < len; omega) (by omega) R.j5
    (by have : wrapS 32 (256 + 1836084325) = 1836084581 := by decide
        rw [this]; omega)
  rw [e5]
  exact ⟨s5, dO, _, rfl⟩

theorem finish_written (c : Cfg) (hs : 1 ≤ c.size ∧ c.size ≤ 4) (so dO dL : Int) :
    finish { strOff := so, dataOff := dO, dataLen := dL, size := c.size, rate := c.rate, ch := c.ch }
      = .ok { size := c.size, rate := c.rate, ch := c.ch } := by
  unfold finish
  have h1 : ¬ ((c.rate : Int) ≤ 4 ∧ (c.size : Int) > 4) := by omega
  simp only [h1, if_false]
  rw [if_neg (by omega), if_neg (by omega), if_pos (by omega)]

end Sf.Sd2.Walk
