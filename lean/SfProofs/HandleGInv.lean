/-
  SfProofs.HandleGInv — the generic handle machine (SfModel/HandleG.lean) under the law record `ContLaws`:
  equation lemmas of `HandleG.stepWrite` / `stepCmdFlag`, the handle invariant `Sf.HInv` preserved by every step of
  EVERY container that satisfies the laws, and `specLaws`: a container described by a `Spec` satisfies them as soon as
  its `calc_length` block touches only the four length fields.
-/
import SfModel.HandleGInst2
import SfProofs.HandlePres
namespace Sf.HandleG
open Sf

/-- `h'` is `h` up to the four fields a header rewrite recomputes (file length, data length, data offset, frames) -/
def WHRelG (h h' : H) : Prop :=
  ∃ fl dl off fr, h' = { h with filelength := fl, datalength := dl, dataoffset := off, frames := fr } ∧
    (0 ≤ h.dataoffset → 0 ≤ off)

theorem WHRelG.refl (h : H) : WHRelG h h := ⟨h.filelength, h.datalength, h.dataoffset, h.frames, rfl, id⟩

/-- what the generic theorems ask of a container -/
structure ContLaws (c : Cont) : Prop where
  /-- `write_header` recomputes lengths only: mode, channels, encoding, cursors, flags … are not touched -/
  wh : ∀ h s b, WHRelG h (c.writeHeader h s b).1
  /-- closing a handle opened for reading leaves the file alone -/
  close_r : ∀ h s, h.mode = .r → c.closeStore h s = s

theorem WHRelG.cond {c : Cont} (L : ContLaws c) (p : Prop) [Decidable p] (h : H) (s : Store) (b : Bool) :
    WHRelG h (if p then c.writeHeader h s b else (h, s)).1 := by
  split
  · exact L.wh h s b
  · exact WHRelG.refl h

/-! ## write: guard paths -/

theorem stepWrite_zero (c : Cont) (h : H) (s : Store) (ty : Ty) (fc : Bool) (data : List Int) :
    stepWrite c h s ty fc 0 data = (h, s, { ret := 0, err := h.error }) := by
  simp [stepWrite]

theorem stepWrite_neg (c : Cont) (h : H) (s : Store) (ty : Ty) (fc : Bool) (n : Int) (data : List Int) (hn : n < 0) :
    stepWrite c h s ty fc n data = ({ h with error := E_NEG_LEN }, s, { ret := 0, err := E_NEG_LEN }) := by
  have h0 : ¬ n = 0 := by omega
  simp [stepWrite, h0, hn]

theorem stepWrite_rmode (c : Cont) (h : H) (s : Store) (ty : Ty) (fc : Bool) (n : Int) (data : List Int) (hn : 0 < n)
    (hm : h.mode = .r) :
    stepWrite c h s ty fc n data = ({ h with error := E_NOT_WRITEMODE }, s, { ret := 0, err := E_NOT_WRITEMODE }) := by
  have h0 : ¬ n = 0 := by omega
  have h1 : ¬ n < 0 := by omega
  simp [stepWrite, h0, h1, hm]

theorem stepWrite_align (c : Cont) (h : H) (s : Store) (ty : Ty) (n : Int) (data : List Int) (hn : 0 < n) (hm : h.mode ≠ .r)
    (ha : n % h.ch ≠ 0) :
    stepWrite c h s ty false n data = ({ h with error := E_BAD_ALIGN }, s, { ret := 0, err := E_BAD_ALIGN }) := by
  have h0 : ¬ n = 0 := by omega
  have h1 : ¬ n < 0 := by omega
  simp [stepWrite, h0, h1, hm, ha]

/-! ## write: the three phases -/

/-- the seek back to the write position and the `have_written` latch -/
def wPre (c : Cont) (h : H) (s : Store) : H × Store :=
  let h0 := { h with error := 0 }
  let s := if h.lastOp != .w then defaultSeek h0 s h0.wpos else s
  if !h0.haveWritten ∧ c.hasHeader then c.writeHeader h0 s false else (h0, s)

/-- the codec write and the bookkeeping of the wrapper -/
def wBody (p : H × Store) (ty : Ty) (len : Int) (data : List Int) : H × Store :=
  let h := { p.1 with haveWritten := true }
  let vals := data.take len.toNat
  let peak := peakUpdate h ty vals
  let s := p.2.write (h.enc.encodeAll h.conv ty vals)
  let wpos := h.wpos + len / h.ch
  let h := { h with wpos := wpos, lastOp := .w, peak := peak }
  (if wpos > h.frames then { h with frames := wpos, dataend := 0 } else h, s)

/-- SFC_SET_UPDATE_HEADER_AUTO -/
def wPost (c : Cont) (p : H × Store) : H × Store :=
  if p.1.autoHeader ∧ c.hasHeader then c.writeHeader p.1 p.2 true else p

def wAll (c : Cont) (h : H) (s : Store) (ty : Ty) (len : Int) (data : List Int) : H × Store :=
  wPost c (wBody (wPre c h s) ty len data)

theorem stepWrite_main (c : Cont) (h : H) (s : Store) (ty : Ty) (fc : Bool) (n : Int) (data : List Int)
    (hn : 0 < n) (hm : h.mode ≠ .r) (ha : fc = true ∨ n % h.ch = 0) :
    stepWrite c h s ty fc n data =
      ((wAll c h s ty (reqLen h fc n) data).1, (wAll c h s ty (reqLen h fc n) data).2,
       { ret := if fc then reqLen h fc n / (wAll c h s ty (reqLen h fc n) data).1.ch else reqLen h fc n, err := 0 }) := by
  have h0 : ¬ n = 0 := by omega
  have h1 : ¬ n < 0 := by omega
  have h3 : ¬ ((!fc) = true ∧ ((if fc = true then n * (h.ch : Int) else n) % (h.ch : Int) != 0) = true) := by
    intro ⟨hf, hx⟩; rcases ha with ha | ha
    · subst ha; simp at hf
    · simp at hf; subst hf; simp [ha] at hx
  unfold stepWrite
  simp only [beq_iff_eq, h0, if_false, h1, hm, h3]
  rfl

theorem wPre_fields {c : Cont} (L : ContLaws c) (h : H) (s : Store) : WHRelG { h with error := 0 } (wPre c h s).1 := by
  unfold wPre
  exact WHRelG.cond L _ _ _ _

theorem wBody_fields (p : H × Store) (ty : Ty) (len : Int) (data : List Int) :
    ∃ de pk fr, (wBody p ty len data).1 =
      { p.1 with haveWritten := true, wpos := p.1.wpos + len / p.1.ch, lastOp := .w, peak := pk, frames := fr, dataend := de } := by
  unfold wBody
  by_cases hc : p.1.wpos + len / p.1.ch > p.1.frames
  · exact ⟨0, peakUpdate { p.1 with haveWritten := true } ty (data.take len.toNat), p.1.wpos + len / p.1.ch, by simp only [hc, if_true]⟩
  · exact ⟨p.1.dataend, peakUpdate { p.1 with haveWritten := true } ty (data.take len.toNat), p.1.frames, by simp only [hc, if_false]⟩

theorem wPost_fields {c : Cont} (L : ContLaws c) (p : H × Store) : WHRelG p.1 (wPost c p).1 := by
  unfold wPost
  split
  · exact L.wh _ _ _
  · exact WHRelG.refl _

/-- the handle after a valid write call: which fields may have changed, and to what -/
theorem stepWrite_fields {c : Cont} (L : ContLaws c) (h : H) (s : Store) (ty : Ty) (fc : Bool) (n : Int) (data : List Int)
    (hn : 0 < n) (hm : h.mode ≠ .r) (ha : fc = true ∨ n % h.ch = 0) :
    ∃ fl dl off de pk fr,
      (stepWrite c h s ty fc n data).1 =
        { h with error := 0, haveWritten := true, wpos := h.wpos + reqLen h fc n / h.ch, lastOp := .w, peak := pk,
                 frames := fr, dataend := de, filelength := fl, datalength := dl, dataoffset := off } ∧
      (0 ≤ h.dataoffset → 0 ≤ off) ∧
      (stepWrite c h s ty fc n data).2.2 = { ret := if fc then reqLen h fc n / h.ch else reqLen h fc n, err := 0 } := by
  rw [stepWrite_main c h s ty fc n data hn hm ha]
  obtain ⟨fl1, dl1, off1, fr1, e1, p1⟩ := wPre_fields L h s
  obtain ⟨de, pk, fr2, e2⟩ := wBody_fields (wPre c h s) ty (reqLen h fc n) data
  obtain ⟨fl3, dl3, off3, fr3, e3, p3⟩ := wPost_fields L (wBody (wPre c h s) ty (reqLen h fc n) data)
  refine ⟨fl3, dl3, off3, de, pk, fr3, ?_, ?_, ?_⟩
  · simp only [wAll, e3, e2, e1]
  · intro h0; apply p3; simp only [e2, e1]; exact p1 h0
  · simp only [wAll, e3, e2, e1]

/-! ## commands -/

theorem stepCmdFlag_fields {c : Cont} (L : ContLaws c) (h : H) (s : Store) (cmd : Nat) (size : Int) :
    ∃ cv ah, WHRelG { h with error := 0, conv := cv, autoHeader := ah } (stepCmdFlag c h s cmd size).1 ∧
      (stepCmdFlag c h s cmd size).2.2.err = 0 ∧
      (h.mode = .r → (stepCmdFlag c h s cmd size).2.1 = s) := by
  unfold stepCmdFlag
  simp only
  split
  all_goals first
    | exact ⟨_, _, WHRelG.refl _, rfl, fun _ => rfl⟩
    | skip
  refine ⟨h.conv, h.autoHeader, WHRelG.cond L _ _ _ _, rfl, ?_⟩
  intro hm
  simp [hm]

theorem stepCmdFlag_rmode (c : Cont) (h : H) (s : Store) (cmd : Nat) (size : Int) (hm : h.mode = .r) :
    ∃ cv ah, (stepCmdFlag c h s cmd size).1 = { h with error := 0, conv := cv, autoHeader := ah } ∧
      (stepCmdFlag c h s cmd size).2.1 = s := by
  unfold stepCmdFlag
  simp only
  split
  all_goals first
    | exact ⟨_, _, rfl, rfl⟩
    | skip
  refine ⟨h.conv, h.autoHeader, ?_, ?_⟩ <;> simp [hm]

/-! ## the invariant -/

theorem HInv_stepWrite {c : Cont} (L : ContLaws c) (h : H) (s : Store) (ty : Ty) (fc : Bool) (n : Int) (data : List Int)
    (hi : HInv h s) : HInv (stepWrite c h s ty fc n data).1 (stepWrite c h s ty fc n data).2.1 := by
  by_cases h0 : n = 0
  · subst h0; rw [stepWrite_zero]; exact hi
  by_cases hneg : n < 0
  · rw [stepWrite_neg _ _ _ _ _ _ _ hneg]; exact hi.set_error _
  have hn : 0 < n := by omega
  by_cases hr : h.mode = .r
  · rw [stepWrite_rmode _ _ _ _ _ _ _ hn hr]; exact hi.set_error _
  by_cases ha : fc = true ∨ n % (h.ch : Int) = 0
  · obtain ⟨fl, dl, off, de, pk, fr, e, hoff, _⟩ := stepWrite_fields L h s ty fc n data hn hr ha
    rw [e]
    refine hi.of_writable (by exact hr) rfl rfl hi.rpos_nn ?_ (hoff hi.off_nn)
    have : 0 ≤ reqLen h fc n / (h.ch : Int) := by
      apply Int.ediv_nonneg _ (by omega)
      unfold reqLen; split
      · exact Int.mul_nonneg (by omega) (by omega)
      · omega
    have := hi.wpos_nn
    show 0 ≤ h.wpos + reqLen h fc n / (h.ch : Int)
    omega
  · obtain ⟨hf, hna⟩ := not_aligned_of fc n h.ch ha
    subst hf
    rw [stepWrite_align _ _ _ _ _ _ hn hr hna]; exact hi.set_error _

theorem HInv_stepCmdFlag {c : Cont} (L : ContLaws c) (h : H) (s : Store) (cmd : Nat) (size : Int) (hi : HInv h s) :
    HInv (stepCmdFlag c h s cmd size).1 (stepCmdFlag c h s cmd size).2.1 := by
  by_cases hm : h.mode = .r
  · obtain ⟨cv, ah, e1, e2⟩ := stepCmdFlag_rmode c h s cmd size hm
    rw [e1, e2]
    have hr := hi.rd hm
    exact ⟨hi.ch_pos, hi.nb_pos, hi.rpos_nn, hi.wpos_nn, hi.off_nn, fun _ => ⟨hr.lastOp, hr.rpos_le, hr.covers, hr.sync⟩⟩
  · obtain ⟨cv, ah, ⟨fl, dl, off, fr, e, ho⟩, _, _⟩ := stepCmdFlag_fields L h s cmd size
    rw [e]
    exact hi.of_writable (by exact hm) rfl rfl hi.rpos_nn hi.wpos_nn (ho hi.off_nn)

theorem HInv_close {c : Cont} (L : ContLaws c) (h : H) (s : Store) (hi : HInv h s) : HInv h (c.closeStore h s) := by
  by_cases hm : h.mode = .r
  · rw [L.close_r h s hm]; exact hi
  · exact hi.of_writable hm rfl rfl hi.rpos_nn hi.wpos_nn hi.off_nn

theorem HInv_stepAny {c : Cont} (L : ContLaws c) (h : H) (s : Store) (op : Op) (hi : HInv h s) :
    HInv (stepAny c h s op).1 (stepAny c h s op).2.1 := by
  cases op with
  | read _ ty fc n => exact HInv_stepRead h s ty fc n hi
  | write _ ty fc n data => exact HInv_stepWrite L h s ty fc n data hi
  | seek _ off whence => exact HInv_stepSeek h s off whence hi
  | cmdFlag _ cmd size => exact HInv_stepCmdFlag L h s cmd size hi
  | truncate _ f => exact HInv_stepTruncate h s f hi
  | close _ => exact HInv_close L h s hi

theorem HInv_runOps {c : Cont} (L : ContLaws c) (ops : List Op) :
    ∀ (h : H) (s : Store), HInv h s → HInv (runOps c h s ops).1 (runOps c h s ops).2 := by
  induction ops with
  | nil => intro h s hi; exact hi
  | cons op ops ih => intro h s hi; exact ih _ _ (HInv_stepAny L h s op hi)

/-! ## a `Spec` satisfies the laws -/

/-- what a `Spec` has to guarantee: its `calc_length` block recomputes only the four length fields and the offset it
    stores after writing the header is not negative -/
structure SpecLaws (sp : Spec) : Prop where
  recalc : ∀ h fl, ∃ f d o fr, sp.recalc h fl = { h with filelength := f, datalength := d, dataoffset := o, frames := fr } ∧
    (0 ≤ h.dataoffset → 0 ≤ o)
  off : ∀ h n, 0 ≤ h.dataoffset → 0 ≤ sp.offAfter h n

theorem Spec.writeHeader_rel {sp : Spec} (L : SpecLaws sp) (h : H) (s : Store) (b : Bool) : WHRelG h (sp.writeHeader h s b).1 := by
  unfold Spec.writeHeader
  by_cases h1 : (!sp.hasHeader) = true
  · rw [if_pos h1]; exact WHRelG.refl h
  rw [if_neg h1]
  by_cases h2 : sp.skipAt s.pos = true
  · simp only [h2, if_true]; exact WHRelG.refl h
  simp only [h2]
  cases b
  · exact ⟨h.filelength, h.datalength, _, h.frames, rfl, L.off h _⟩
  · obtain ⟨f, d, o, fr, e, ho⟩ := L.recalc h s.bytes.length
    simp only [if_true, e]
    refine ⟨f, d, _, fr, rfl, fun h0 => ?_⟩
    have := L.off { h with filelength := f, datalength := d, dataoffset := o, frames := fr }
    exact this _ (ho h0)

theorem Spec.closeStore_r (sp : Spec) (h : H) (s : Store) (hm : h.mode = .r) : sp.closeStore h s = s := by
  simp [Spec.closeStore, hm]

theorem specLaws {sp : Spec} (L : SpecLaws sp) : ContLaws sp.toCont :=
  ⟨fun h s b => Spec.writeHeader_rel L h s b, fun h s hm => Spec.closeStore_r sp h s hm⟩

end Sf.HandleG
