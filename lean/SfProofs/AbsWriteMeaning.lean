/-
  SfProofs.AbsWriteMeaning — what an ACCEPTED record of the write campaign means: for each clause of
  SfModel/AbsWrite.lean, `clause = true` implies the sentence of the statement in mathematical form, whatever produced the
  record; and `accepted r = true` (no clause of `judge` fails) gives every clause.
-/
import SfModel.AbsWrite
import SfProofs.AbsSeq
namespace Sf.AbsWrite
open Sf Sf.Abs Sf.Geometry

/-! ## small list facts -/

theorem ite_nil_iff {α : Type} (c : Bool) (x : α) : (if c = true then ([] : List α) else [x]) = [] ↔ c = true := by
  cases c <;> simp

theorem pad_zero (g : Geom) : g.pad = 0 := rfl

/-! ## write calls -/

theorem firstBadCall_none : ∀ (cs : List Call) (k : Nat), firstBadCall k cs = none → ∀ c ∈ cs, c.ret = c.n
  | [], _, _ => by simp
  | c :: cs, k, h => by
    unfold firstBadCall at h
    split at h
    · rename_i hc
      intro d hd
      rcases List.mem_cons.1 hd with rfl | hd
      · simpa [callOk] using hc
      · exact firstBadCall_none cs (k + 1) h d hd
    · exact absurd h (by simp)

theorem firstBadCall_of_all : ∀ (cs : List Call) (k : Nat), (∀ c ∈ cs, c.ret = c.n) → firstBadCall k cs = none
  | [], _, _ => rfl
  | c :: cs, k, h => by
    unfold firstBadCall
    have hc : callOk c = true := by simp [callOk, h c (List.mem_cons_self)]
    simp only [hc, if_true]
    exact firstBadCall_of_all cs (k + 1) (fun d hd => h d (List.mem_cons_of_mem _ hd))

/-- a call that returned what it was asked accepted the frames it was asked -/
theorem accepted_of_ret (ch : Nat) (c : Call) (h : c.ret = c.n) :
    c.accepted ch = if c.fc then c.n.toNat else c.n.toNat / ch := by
  unfold Call.accepted; rw [h]

/-! ## the written stream -/

theorem writtenFrom_eq (ch : Nat) : ∀ (cs : List Call) (acc : Array Item), writtenFrom ch acc cs = acc ++ written ch cs
  | [], acc => by simp [writtenFrom, written]
  | c :: cs, acc => by
    unfold written
    simp only [writtenFrom]
    rw [writtenFrom_eq ch cs (acc ++ c.taken ch), writtenFrom_eq ch cs (#[] ++ c.taken ch)]
    simp [written, Array.append_assoc]

theorem written_nil (ch : Nat) : written ch [] = #[] := rfl

/-- the written stream is the concatenation of what each call handed over and the library accepted -/
theorem written_cons (ch : Nat) (c : Call) (cs : List Call) : written ch (c :: cs) = c.taken ch ++ written ch cs := by
  unfold written
  simp only [writtenFrom]
  rw [writtenFrom_eq]; simp [written]

theorem written_append (ch : Nat) : ∀ (xs ys : List Call), written ch (xs ++ ys) = written ch xs ++ written ch ys
  | [], ys => by simp [written_nil]
  | x :: xs, ys => by simp [written_cons, written_append ch xs ys, Array.append_assoc]

theorem framesAccepted_append (ch : Nat) : ∀ (xs ys : List Call),
    framesAccepted ch (xs ++ ys) = framesAccepted ch xs + framesAccepted ch ys
  | [], ys => by simp [framesAccepted]
  | x :: xs, ys => by simp [framesAccepted, framesAccepted_append ch xs ys, Nat.add_assoc]

theorem handedFrom_eq : ∀ (cs : List Call) (acc : Array Item), handedFrom acc cs = acc ++ handed cs
  | [], acc => by simp [handedFrom, handed]
  | c :: cs, acc => by
    unfold handed
    simp only [handedFrom]
    rw [handedFrom_eq cs (acc ++ c.data), handedFrom_eq cs (#[] ++ c.data)]
    simp [handed, Array.append_assoc]

theorem handed_cons (c : Call) (cs : List Call) : handed (c :: cs) = c.data ++ handed cs := by
  unfold handed
  simp only [handedFrom]
  rw [handedFrom_eq]; simp [handed]

/-- frames written before a crash point never exceed the frames of the whole run -/
theorem framesAccepted_take_le (ch : Nat) (cs : List Call) (k : Nat) :
    framesAccepted ch (cs.take k) ≤ framesAccepted ch cs := by
  have := framesAccepted_append ch (cs.take k) (cs.drop k)
  rw [List.take_append_drop] at this
  omega

/-- … and what was written before it is a prefix of what the whole run wrote -/
theorem written_take_prefix (ch : Nat) (cs : List Call) (k : Nat) :
    written ch cs = written ch (cs.take k) ++ written ch (cs.drop k) := by
  rw [← written_append, List.take_append_drop]

/-! ## C04 -/

/-- C04 `frames_bound`: an accepted frame count satisfies `N ≤ F < N + B` (no container has a pad allowance any more),
    and `F = N` for a sample-granular encoding -/
theorem framesOk_meaning (g : Geom) (N : Nat) (F : Int) (h : framesOk g N F = true) :
    (N : Int) ≤ F ∧ F < (N : Int) + (g.block : Int) + (g.pad : Int) ∧ (g.block = 1 → F = N) := by
  unfold framesOk at h
  simp only [Bool.and_eq_true, decide_eq_true_eq] at h
  obtain ⟨h1, h2⟩ := h
  have hp := pad_zero g
  refine ⟨h1, by push_cast at h2; omega, fun hb => ?_⟩
  rw [hb, hp] at h2
  push_cast at h2; omega

theorem eofOk_meaning (g : Geom) (F : Int) (rb : ReadBack) (h : eofOk g F rb = true) :
    rb.ret = F * (g.ch : Int) ∧ rb.more = 0 := by
  unfold eofOk at h
  simpa using h

theorem infoOk_meaning (g : Geom) (i : Info) (h : infoOk g i = true) :
    i.ch = (g.ch : Int) ∧ (g.major ≠ 0x04 → i.fmt % 0x10000000 = g.word % 0x10000000) := by
  unfold infoOk at h
  simp only [Bool.and_eq_true, Bool.or_eq_true, beq_iff_eq] at h
  exact ⟨h.1, fun hm => h.2.resolve_left hm⟩

/-- the containers with integer-Hz or wider fields report the rate asked for -/
theorem rateOk_exact (major sr : Nat) (got : Int) (hc : rateClass major = .exact) (h : rateOk major sr got = true) :
    got = (sr : Int) := by
  unfold rateOk at h
  rw [hc] at h
  simpa using h

/-! ## C01 -/

/-- C01 `round trip`: under the side condition an accepted read-back delivered at least the written frames and its first
    cells ARE the written stream, bit for bit -/
theorem roundtripOk_meaning (g : Geom) (ty : Ty) (cs : List Call) (rb : ReadBack)
    (h : roundtripOk g ty cs rb = true) (hs : sameType ty cs = true) (hl : losslessFor g ty (written g.ch cs) = true) :
    (written g.ch cs).size ≤ rb.ret.toNat * cells ty ∧
    rb.data.extract 0 (written g.ch cs).size = written g.ch cs := by
  unfold roundtripOk at h
  simp only [hs, hl, Bool.and_self, Bool.not_true, Bool.false_or, Bool.and_eq_true, decide_eq_true_eq] at h
  obtain ⟨h1, h2⟩ := h
  refine ⟨h1, ?_⟩
  have := (sliceEq_extract _ _ _ _ _ h2).1
  simpa using this

theorem cellsAll_pointwise (p : Item → Bool) (a : Array Item) (n : Nat) : ∀ (i : Nat),
    cellsAll p a i n = true ↔ ∀ k, k < n → ∃ h : i + k < a.size, p a[i + k] = true := by
  induction n with
  | zero => intro i; simp [cellsAll]
  | succ n ih =>
    intro i
    unfold cellsAll
    by_cases hi : i < a.size
    · simp only [hi, dif_pos, Bool.and_eq_true, ih]
      constructor
      · rintro ⟨h0, hr⟩ k hk
        cases k with
        | zero => exact ⟨by simpa using hi, by simpa using h0⟩
        | succ k =>
          obtain ⟨hh, hp⟩ := hr k (by omega)
          have e : i + 1 + k = i + (k + 1) := by omega
          exact ⟨by omega, by simpa [e] using hp⟩
      · intro hall
        refine ⟨by simpa using (hall 0 (by omega)).2, fun k hk => ?_⟩
        obtain ⟨hh, hp⟩ := hall (k + 1) (by omega)
        have e : i + (k + 1) = i + 1 + k := by omega
        exact ⟨by omega, by simpa [e] using hp⟩
    · simp only [hi, dif_neg, not_false_eq_true, Bool.false_eq_true, false_iff]
      intro hall
      obtain ⟨hh, _⟩ := hall 0 (by omega)
      omega

/-- the side condition, cell by cell -/
theorem losslessFor_cells (g : Geom) (ty : Ty) (w : Array Item) (h : losslessFor g ty w = true) :
    ∃ lz, losslessLow g.codec ty = some lz ∧ ∀ k (hk : k < w.size), cellOk g.codec ty lz w[k] = true := by
  unfold losslessFor at h
  split at h
  · exact absurd h (by simp)
  · rename_i lz hlz
    refine ⟨lz, hlz, fun k hk => ?_⟩
    obtain ⟨_, hp⟩ := (cellsAll_pointwise _ _ _ 0).1 h k hk
    simpa using hp

/-! ## C07 / C04 stale -/

theorem partitionOk_meaning (one split : Run) (h : partitionOk one split = true) : one.bytes = split.bytes := by
  unfold partitionOk at h
  exact eq_of_beq h

theorem staleOk_meaning (one : Run) (b : Array Item) (h : staleOk one b = true) : one.bytes = b := by
  unfold staleOk at h
  exact eq_of_beq h

/-! ## C11 -/

/-- C11: the accepted frame count of a crash point IS the frames written so far rounded down to whole blocks -/
theorem snapFramesOk_meaning (g : Geom) (Nk : Nat) (F : Int) (h : snapFramesOk g Nk F = true) :
    F = (floorToBlock Nk g.block : Int) ∧ (g.block = 1 → F = Nk) := by
  unfold snapFramesOk at h
  simp only [Bool.and_eq_true, decide_eq_true_eq] at h
  rw [pad_zero g] at h
  have h1 : F = (floorToBlock Nk g.block : Int) := by omega
  refine ⟨h1, fun hb => ?_⟩
  rw [h1, hb]; simp [floorToBlock]

/-- C11: an accepted crash-point read-back that is not short delivers the whole prefix — `⌊N_k⌋_B · ch` items — equal to the
    first items of the finished file's read-back, and for a lossless pair equal to the written cells themselves -/
theorem snapDataOk_meaning (g : Geom) (ty : Ty) (Nk : Nat) (w : Array Item) (lossless : Bool) (final rb : ReadBack)
    (hd : snapDataOk g ty Nk w lossless final rb = true) (hs : snapShortOk g Nk rb = true) :
    let m := floorToBlock Nk g.block * g.ch * cells ty
    floorToBlock Nk g.block * g.ch ≤ rb.ret.toNat ∧
    rb.data.extract 0 m = final.data.extract 0 m ∧ (lossless = true → rb.data.extract 0 m = w.extract 0 m) := by
  intro m
  unfold snapShortOk at hs
  have hs' : floorToBlock Nk g.block * g.ch ≤ rb.ret.toNat := by simpa using hs
  have hm : snapItems g Nk rb * cells ty = m := by
    unfold snapItems
    rw [Nat.min_eq_right hs']
  unfold snapDataOk at hd
  simp only [hm, Bool.and_eq_true, Bool.or_eq_true, Bool.not_eq_true'] at hd
  obtain ⟨h1, h2⟩ := hd
  refine ⟨hs', ?_, fun hl => ?_⟩
  · have := (sliceEq_extract _ _ _ _ _ h1).1
    simpa using this
  · rcases h2 with h2 | h2
    · rw [hl] at h2; exact absurd h2 (by simp)
    · have := (sliceEq_extract _ _ _ _ _ h2).1
      simpa using this

theorem judgeSnaps_nil (r : Record) (sp : Run) : ∀ (ss : List Snap) (k0 : Nat), judgeSnaps r sp k0 ss = [] →
    ∀ i s, ss[i]? = some s → judgeSnap r sp (k0 + i) s = []
  | [], _, _ => by simp
  | s :: ss, k0, h => by
    unfold judgeSnaps at h
    obtain ⟨h1, h2⟩ := List.append_eq_nil_iff.1 h
    intro i t ht
    cases i with
    | zero => simp at ht; subst ht; simpa using h1
    | succ i =>
      simp at ht
      have := judgeSnaps_nil r sp ss (k0 + 1) h2 i t ht
      rw [show k0 + (i + 1) = k0 + 1 + i by omega]; exact this

/-- what `judgeSnap … = []` says about one crash point -/
theorem judgeSnap_nil (r : Record) (sp : Run) (k : Nat) (s : Snap) (h : judgeSnap r sp k s = []) :
    s.info.null = false ∧ snapInfoOk r.g s.info = true ∧
    snapFramesOk r.g (framesAccepted r.g.ch (sp.calls.take s.calls)) s.info.frames = true ∧
    snapDataOk r.g r.ty (framesAccepted r.g.ch (sp.calls.take s.calls)) (written r.g.ch (sp.calls.take s.calls))
      (sameType r.ty (sp.calls.take s.calls) && losslessFor r.g r.ty (written r.g.ch (sp.calls.take s.calls))) r.rb s.rb = true ∧
    snapShortOk r.g (framesAccepted r.g.ch (sp.calls.take s.calls)) s.rb = true := by
  unfold judgeSnap at h
  simp only at h
  split at h
  · exact absurd h (by simp)
  · rename_i hn
    simp only [List.append_eq_nil_iff, ite_nil_iff] at h
    obtain ⟨⟨⟨a, b⟩, c⟩, d⟩ := h
    exact ⟨by simpa using hn, a, b, c, d⟩

/-! ## a whole record -/

/-- everything an accepted record says, clause by clause -/
structure Accepted (r : Record) : Prop where
  complete : r.complete = true
  opened : r.one.openNull = false
  calls : ∀ c ∈ r.one.calls, c.ret = c.n
  closed : r.one.close = 0
  reopened : r.info.null = false
  info : infoOk r.g r.info = true
  rate : rateOk r.g.major r.g.sr r.info.sr = true
  frames : framesOk r.g (framesAccepted r.g.ch r.one.calls) r.info.frames = true
  eof : eofOk r.g r.info.frames r.rb = true
  roundtrip : roundtripOk r.g r.ty r.one.calls r.rb = true
  split : ∀ sp, r.split = some sp →
    sp.openNull = false ∧ handed sp.calls = handed r.one.calls ∧ (∀ c ∈ sp.calls, c.ret = c.n) ∧ partitionOk r.one sp = true ∧
    (snapScope r.g = true → ∀ i s, r.snaps[i]? = some s → judgeSnap r sp i s = [])
  stale : ∀ b, r.stale = some b → staleOk r.one b = true

theorem judgeReopen_nil (r : Record) (h : judgeReopen r = []) :
    infoOk r.g r.info = true ∧ rateOk r.g.major r.g.sr r.info.sr = true ∧
    framesOk r.g (framesAccepted r.g.ch r.one.calls) r.info.frames = true ∧ eofOk r.g r.info.frames r.rb = true ∧
    roundtripOk r.g r.ty r.one.calls r.rb = true := by
  unfold judgeReopen at h
  simp only [List.append_eq_nil_iff, ite_nil_iff] at h
  obtain ⟨⟨⟨⟨a, b⟩, c⟩, d⟩, e⟩ := h
  exact ⟨a, b, c, d, e⟩

theorem judgeSplit_nil (r : Record) (sp : Run) (h : judgeSplit r sp = []) :
    sp.openNull = false ∧ handed sp.calls = handed r.one.calls ∧ (∀ c ∈ sp.calls, c.ret = c.n) ∧ partitionOk r.one sp = true ∧
    (snapScope r.g = true → ∀ i s, r.snaps[i]? = some s → judgeSnap r sp i s = []) := by
  unfold judgeSplit at h
  split at h
  · exact absurd h (by simp)
  · rename_i hn
    split at h
    · exact absurd h (by simp)
    · rename_i hh
      simp only [List.append_eq_nil_iff, ite_nil_iff] at h
      obtain ⟨⟨a, b⟩, c⟩ := h
      refine ⟨by simpa using hn, by simpa using hh, ?_, b, fun hsc i s hs => ?_⟩
      · cases hf : firstBadCall 0 sp.calls with
        | none => exact firstBadCall_none _ _ hf
        | some k => rw [hf] at a; exact absurd a (by simp)
      · rw [hsc] at c
        simp only [if_true] at c
        have := judgeSnaps_nil r sp r.snaps 0 c i s hs
        simpa using this

/-- THE MEANING OF THE PREDICATE: `accepted r` gives every clause -/
theorem accepted_meaning (r : Record) (h : accepted r = true) : Accepted r := by
  unfold accepted at h
  have hj : judge r = [] := by simpa using h
  unfold judge at hj
  split at hj
  · exact absurd hj (by simp)
  · rename_i hc
    split at hj
    · exact absurd hj (by simp)
    · rename_i ho
      simp only [List.append_eq_nil_iff] at hj
      obtain ⟨⟨⟨hw, hcl⟩, hre⟩, hst⟩ := hj
      have hnull : r.info.null = false := by
        cases hx : r.info.null
        · rfl
        · rw [hx] at hre; exact absurd hre (by simp)
      rw [hnull] at hre
      simp only [Bool.false_eq_true, if_false, List.append_eq_nil_iff] at hre
      obtain ⟨hro, hsp⟩ := hre
      obtain ⟨a, b, c, d, e⟩ := judgeReopen_nil r hro
      refine ⟨by simpa using hc, by simpa using ho, ?_, ?_, hnull, a, b, c, d, e, ?_, ?_⟩
      · cases hf : firstBadCall 0 r.one.calls with
        | none => exact firstBadCall_none _ _ hf
        | some k => rw [hf] at hw; exact absurd hw (by simp)
      · by_cases hz : r.one.close = 0
        · exact hz
        · have : (r.one.close == 0) = false := by simpa using hz
          rw [this] at hcl; exact absurd hcl (by simp)
      · intro sp hs
        rw [hs] at hsp
        exact judgeSplit_nil r sp hsp
      · intro b hb
        rw [hb] at hst
        simp only at hst
        exact (ite_nil_iff _ _).1 hst

end Sf.AbsWrite
