/-
  SfProofs.RdwrOpen — `sf_open (…, SFM_RDWR)` establishes the read/write invariant.
-/
import SfProofs.RdwrRun
import SfProofs.HandleOpen
import SfProofs.CodecClose
import SfProofs.ContainerParse
namespace Sf

/-! ## a parsed header never announces RAW -/

theorem auCodec_lt (e c : Nat) (h : auCodec e = some c) : c < 0x10000 := by
  unfold auCodec at h
  split at h <;> first | contradiction | (injection h with h; subst h; decide)

theorem containerOf_small (x c : Nat) (m : Nat) (hx : x = 0 ∨ x = 0x10000000 ∨ x = 0x20000000) (hc : c < 0x10000)
    (hm : m = 1 ∨ m = 3) : containerOf (x + m * 0x10000 + c) ≠ some .raw := by
  unfold containerOf
  have : (x + m * 0x10000 + c) / 0x10000 % 0x1000 = m := by
    rcases hx with h | h | h <;> rcases hm with h' | h' <;> subst h h' <;> omega
  rw [this]
  rcases hm with h | h <;> subst h <;> simp

theorem auParse_notraw (bs : List Byte) (p : Parsed) (h : auParse bs = .ok p) : containerOf p.fmtWord ≠ some .raw := by
  unfold auParse at h
  simp only at h
  split at h
  · split at h <;> contradiction
  split at h
  · contradiction
  split at h
  · contradiction
  rename_i codec hc
  split at h
  · contradiction
  split at h
  · contradiction
  injection h with h
  subst h
  simp only
  have := auCodec_lt _ _ hc
  split
  · exact containerOf_small 0 codec 3 (Or.inl rfl) this (Or.inr rfl)
  · exact containerOf_small 0x10000000 codec 3 (Or.inr (Or.inl rfl)) this (Or.inr rfl)

theorem wavParse_notraw (bs : List Byte) (p : Parsed) (h : wavParse bs = .ok p) : containerOf p.fmtWord ≠ some .raw := by
  unfold wavParse at h
  simp only at h
  split at h
  · contradiction
  split at h
  · contradiction
  split at h
  · contradiction
  split at h
  · contradiction
  split at h
  · contradiction
  split at h
  · contradiction
  rename_i c hc
  split at h
  · contradiction
  injection h with h
  subst h
  simp only
  have hlt : c < 0x10000 := by
    split at hc <;> first | contradiction | (injection hc with hc; subst hc; decide)
  split
  · exact containerOf_small 0x20000000 c 1 (Or.inr (Or.inr rfl)) hlt (Or.inl rfl)
  · exact containerOf_small 0 c 1 (Or.inl rfl) hlt (Or.inl rfl)

/-- what every successful RDWR open returns, whatever the file -/
theorem open_rw_facts (ix : Nat) (s0 : Store) (fmt : Nat) (ch sr : Int) (h : H) (s : Store)
    (ho : openHandle ix s0 .rw fmt ch sr = .ok h s) :
    h.mode = .rw ∧ h.lastOp = .rw ∧ h.rpos = 0 ∧ 0 ≤ h.frames ∧ h.wpos = h.frames ∧ (s.pos : Int) = h.dataoffset ∧
    (s0.bytes = [] → h.frames = 0 ∧ h.peak = none ∧ h.dataend = 0 ∧ h.dataoffset = (hdrLenOf h : Nat) ∧
      s.bytes.length = hdrLenOf h) ∧
    (h.container = .raw → h.dataoffset = 0 ∧ h.peak = none ∧ h.dataend = 0 ∧ s.bytes = s0.bytes ∧
      h.frames = ((s0.bytes.length / h.bw : Nat) : Int)) := by
  have hi := HInv_openHandle ix s0 .rw fmt ch sr h s ho
  unfold openHandle at ho
  simp only at ho
  split at ho
  · rename_i hfresh
    split at ho
    · contradiction
    rename_i c hc
    split at ho
    · contradiction
    rename_i hargs
    split at ho
    · contradiction
    rename_i enc henc
    split at ho
    · contradiction
    have hnb := encOf_nbytes_pos _ _ _ _ henc
    have hchn : 0 < ch.toNat := by omega
    have hbw : 0 < enc.nbytes * ch.toNat := Nat.mul_pos hnb hchn
    split at ho
    · -- raw
      injection ho with e1 e2
      subst e1 e2
      obtain ⟨f0, _⟩ := initFrames_spec 0 0 ((s0.seekSet 0).bytes.length : Int) (enc.nbytes * ch.toNat)
        ((s0.seekSet 0).bytes.length : Int) hbw (by omega) (by omega) (by omega)
      have hfr : (initFrames 0 0 ((s0.seekSet 0).bytes.length : Int) (enc.nbytes * ch.toNat)).2 =
          ((s0.bytes.length / (enc.nbytes * ch.toNat) : Nat) : Int) := by
        have := initFrames_plain 0 s0.bytes.length _ hbw
        simp only [Nat.zero_add, Int.natCast_zero] at this
        exact this
      refine ⟨rfl, rfl, rfl, f0, by simp, by simp [Store.seekSet], ?_, ?_⟩
      · intro hb
        refine ⟨?_, rfl, rfl, by simp [hdrLenOf], by simp [hdrLenOf, Store.seekSet, hb]⟩
        show (initFrames 0 0 ((s0.seekSet 0).bytes.length : Int) (enc.nbytes * ch.toNat)).2 = 0
        rw [hfr, hb]; simp
      · intro _
        exact ⟨rfl, rfl, rfl, rfl, hfr⟩
    · -- au, new file
      have hb : (s0.seekSet 0).bytes = [] := by
        simp [hc] at hfresh
        simpa [Store.seekSet] using hfresh
      rw [writeHeader_au _ _ rfl, writeHeader_empty _ _ hb rfl (fun hc => by cases hc)] at ho
      injection ho with e1 e3
      subst e1 e3
      refine ⟨rfl, rfl, rfl, Int.le_refl _, rfl, by simp [hdrLenOf], fun _ => ?_, fun hc => by cases hc⟩
      exact ⟨rfl, rfl, rfl, by simp [hdrLenOf], by simp [hdrLenOf, hdrOf, auHeader_length]⟩
    · -- wav, new file
      have hb : (s0.seekSet 0).bytes = [] := by
        simp [hc] at hfresh
        simpa [Store.seekSet] using hfresh
      rw [writeHeader_wav _ _ rfl, writeHeader_empty _ _ hb rfl (fun _ => Int.le_refl _)] at ho
      injection ho with e1 e3
      subst e1 e3
      refine ⟨rfl, rfl, rfl, Int.le_refl _, rfl, ?_, fun _ => ?_, fun hc => by cases hc⟩
      · simp [hdrLenOf, wavHeader_length]
      · refine ⟨rfl, by simp, rfl, ?_, ?_⟩
        · simp only [hdrLenOf, wavHeader_length]; exact congrArg Nat.cast (wavHdrLen_congr _ _ rfl rfl rfl).symm
        · simp only [hdrOf, hdrLenOf, wavHeader_length]; exact (wavHdrLen_congr _ _ rfl rfl rfl).symm
  · -- existing file: header parsed
    rename_i hnf
    split at ho
    · contradiction
    · contradiction
    rename_i p hp
    have hwf : p.WF (s0.seekSet 0).bytes.length := by
      split at hp
      · exact wavParse_wf _ _ hp
      · split at hp
        · exact auParse_wf _ _ hp
        · contradiction
    split at ho
    · contradiction
    rename_i c hc
    split at ho
    · contradiction
    rename_i enc henc
    split at ho
    · contradiction
    have hnb := encOf_nbytes_pos _ _ _ _ henc
    obtain ⟨w1, w2, w3, w4⟩ := hwf
    have hbw : 0 < enc.nbytes * p.ch := Nat.mul_pos hnb w1
    obtain ⟨f0, f1⟩ := initFrames_spec p.dataoffset p.dataend p.filelength (enc.nbytes * p.ch)
      ((s0.seekSet 0).bytes.length : Int) hbw (by omega) w4 w3
    injection ho with e1 e2
    subst e1 e2
    have hne : s0.bytes ≠ [] := by
      intro hb
      apply hnf
      left; right
      simp [Store.seekSet, hb]
    refine ⟨rfl, rfl, rfl, f0, by simp, by simp [Store.seekSet], fun hb => absurd hb hne, fun hcr => ?_⟩
    -- a parsed file is never RAW
    exfalso
    simp only at hcr
    subst hcr
    split at hp
    · exact wavParse_notraw _ _ hp hc
    · split at hp
      · exact auParse_notraw _ _ hp hc
      · contradiction

/-! ## the invariant after open -/

/-- the shape an opened file must have for the read/write invariant: a header of exactly the length the container
    writes, no PEAK table, nothing behind the audio data, whole frames only -/
def OpenTight (h : H) (s : Store) : Prop :=
  h.dataoffset = (hdrLenOf h : Nat) ∧ h.peak = none ∧ h.dataend = 0 ∧
  (s.bytes.length : Int) = h.dataoffset + h.frames * (h.bw : Int)

/-- … or, in a WAV, exactly the zero pad byte behind an odd-length data chunk; a PEAK table, if any, has one entry per
    channel and its chunk sits in front of the data -/
def OpenPadded (h : H) (s : Store) : Prop :=
  h.dataoffset = (hdrLenOf h : Nat) ∧ PeakOk h ∧ (h.container ≠ .wav → h.dataend = 0) ∧
  ∃ t : Nat, TailOk h t ∧ (s.bytes.length : Int) = h.dataoffset + h.frames * (h.bw : Int) + t ∧
    s.bytes.drop (s.bytes.length - t) = zeros t

theorem OpenTight.padded {h : H} {s : Store} (ht : OpenTight h s) : OpenPadded h s := by
  obtain ⟨t1, t2, t3, t4⟩ := ht
  have hpk : PeakOk h := fun ps hp => by rw [t2] at hp; cases hp
  exact ⟨t1, hpk, fun _ => t3, 0, Or.inl rfl, by rw [t4]; simp, by simp [zeros]⟩

theorem RwInv_open_padded (ix : Nat) (s0 : Store) (fmt : Nat) (ch sr : Int) (h : H) (s : Store)
    (ho : openHandle ix s0 .rw fmt ch sr = .ok h s) (ht : OpenPadded h s) : RwInv h s := by
  have hi := HInv_openHandle ix s0 .rw fmt ch sr h s ho
  obtain ⟨hm, hl, hr, hf, hw, hp, _, _⟩ := open_rw_facts ix s0 fmt ch sr h s ho
  obtain ⟨t1, t2, t3, t, tk, t4, t5⟩ := ht
  obtain ⟨F, hF⟩ := Int.eq_ofNat_of_zero_le hf
  have hlen : s.bytes.length = hdrLenOf h + F * h.bw + t := by
    rw [t1, hF] at t4
    have : ((s.bytes.length : Nat) : Int) = ((hdrLenOf h + F * h.bw + t : Nat) : Int) := by rw [t4]; push_cast; rfl
    exact Int.ofNat.inj this
  refine ⟨0, F, F, s.bytes.take (hdrLenOf h), (s.bytes.drop (hdrLenOf h)).take (F * h.bw), ?_⟩
  refine ⟨hm, hi.ch_pos, hi.nb_pos, hr, by rw [hw, hF], hF, t1, t2, t3, ⟨t, ?_, tk⟩,
    by rw [List.length_take]; omega, by rw [List.length_take, List.length_drop]; omega, ?_, fun hc => ?_, fun hc => ?_⟩
  · have e1 : s.bytes.drop (hdrLenOf h) =
        (s.bytes.drop (hdrLenOf h)).take (F * h.bw) ++ (s.bytes.drop (hdrLenOf h)).drop (F * h.bw) :=
      (List.take_append_drop _ _).symm
    have e2 : (s.bytes.drop (hdrLenOf h)).drop (F * h.bw) = zeros t := by
      rw [List.drop_drop, ← t5]; congr 1; omega
    rw [← e2, ← e1, List.take_append_drop]
  · rw [t1] at hp; omega
  · rw [hl] at hc; cases hc
  · rw [hl] at hc; cases hc

theorem RwInv_open (ix : Nat) (s0 : Store) (fmt : Nat) (ch sr : Int) (h : H) (s : Store)
    (ho : openHandle ix s0 .rw fmt ch sr = .ok h s) (ht : OpenTight h s) : RwInv h s :=
  RwInv_open_padded ix s0 fmt ch sr h s ho ht.padded

/-- a new (empty) file opened RDWR: any container -/
theorem open_fresh_tight (ix : Nat) (s0 : Store) (fmt : Nat) (ch sr : Int) (h : H) (s : Store)
    (ho : openHandle ix s0 .rw fmt ch sr = .ok h s) (he : s0.bytes = []) : OpenTight h s := by
  obtain ⟨_, _, _, _, _, _, hfresh, _⟩ := open_rw_facts ix s0 fmt ch sr h s ho
  obtain ⟨a, b, c, d, e⟩ := hfresh he
  exact ⟨d, b, c, by rw [e, d, a]; simp⟩

/-- an existing RAW file of whole frames opened RDWR -/
theorem open_raw_tight (ix : Nat) (s0 : Store) (fmt : Nat) (ch sr : Int) (h : H) (s : Store)
    (ho : openHandle ix s0 .rw fmt ch sr = .ok h s) (hc : h.container = .raw) (hw : s0.bytes.length % h.bw = 0) :
    OpenTight h s := by
  obtain ⟨_, _, _, _, _, _, _, hraw⟩ := open_rw_facts ix s0 fmt ch sr h s ho
  obtain ⟨a, b, c, d, e⟩ := hraw hc
  refine ⟨by rw [a]; simp [hdrLenOf, hc], b, c, ?_⟩
  rw [a, e, d]
  have := Nat.div_add_mod s0.bytes.length h.bw
  rw [hw, Nat.mul_comm] at this
  generalize s0.bytes.length / h.bw = q at *
  rw [← this]; push_cast; simp

/-- the harness records after open whether the route can `ftruncate`; the invariant does not read that flag -/
theorem RwInv.setTruncate {h : H} {s : Store} (i : RwInv h s) (b : Bool) : RwInv { h with canTruncate := b } s := by
  obtain ⟨R, W, F, hdr, D, v⟩ := i
  exact ⟨R, W, F, hdr, D, v.rebuild _ s R W F hdr D rfl rfl rfl rfl rfl v.dataend rfl rfl rfl v.rpos v.wpos v.frames v.bytes rfl
    v.dlen (by rw [v.hlen]; exact v.posGe) (by rw [v.hlen]; exact v.syncW) (by rw [v.hlen]; exact v.syncR)⟩

theorem absOf_setTruncate (h : H) (s : Store) (b : Bool) : absOf { h with canTruncate := b } s = absOf h s := rfl

end Sf
