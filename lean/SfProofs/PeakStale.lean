/-
  SfProofs.PeakStale — the PEAK state of a handle (`h.peak`: what the PEAK chunk said at open, or what the write calls accumulated) is
  read by NONE of the steps the four SFC_CALC_* commands are made of: `stepRead`, `stepSeek`, SFC_SET_NORM_DOUBLE.  Each lemma
  says: running the step on the handle with ANOTHER PEAK state gives the same store, the same output, and the same handle with
  that other PEAK state.  `stepCalc_peak` puts them together.  (`stepSeek` is first split into its whence decoding and its
  range-check / pointer half; `stepSeek_split` is `rfl`, so the two copies cannot drift from SfModel.Handle.)
-/
import SfProofs.PeakCalc
namespace Sf.Peak
open Sf

/-- the handle with another PEAK state -/
def withPeak (h : H) (p : Option (List Sf.Peak)) : H := { h with peak := p }

theorem stepRead_peak (h : H) (s : Store) (ty : Ty) (fc : Bool) (n : Int) (p : Option (List Sf.Peak)) :
    stepRead (withPeak h p) s ty fc n =
      (withPeak (stepRead h s ty fc n).1 p, (stepRead h s ty fc n).2) := by
  cases h
  unfold stepRead withPeak defaultSeek H.bw H.nb
  dsimp only
  by_cases c1 : (n == 0) = true
  · rw [if_pos c1, if_pos c1]
  rw [if_neg c1, if_neg c1]
  by_cases c2 : n < 0
  · rw [if_pos c2, if_pos c2]
  rw [if_neg c2, if_neg c2]
  rename_i mode _ _ _ ch _ _ frames rpos _ _ _ _ _ _ _ _ _ _ _ _ _
  by_cases c3 : (mode == Mode.w) = true
  · rw [if_pos c3, if_pos c3]
  rw [if_neg c3, if_neg c3]
  by_cases c4 : (!fc) = true ∧ ((if fc = true then n * ↑ch else n) % ↑ch != 0) = true
  · rw [if_pos c4, if_pos c4]
  rw [if_neg c4, if_neg c4]
  by_cases c5 : rpos ≥ frames
  · rw [if_pos c5, if_pos c5]
  rw [if_neg c5, if_neg c5]


/-- `stepSeek`, first half: whence decoding (frames from the start, or an immediate return value) -/
def seekDecode (h : H) (off whence : Int) : Except Int (Sum Int Int) :=
  if whence == 0 ∨ whence == 0x10 ∨ whence == 0x20 ∨ whence == 0x30 then .ok (.inl off)
  else if whence == 1 then
    if off == 0 ∧ h.mode == .r then .ok (.inr h.rpos)
    else if off == 0 ∧ h.mode == .w then .ok (.inr h.wpos)
    else if h.mode == .r then .ok (.inl (h.rpos + off)) else .ok (.inl (h.wpos + off))
  else if whence == 0x11 then (if off == 0 then .ok (.inr h.rpos) else .ok (.inl (h.rpos + off)))
  else if whence == 0x21 then (if off == 0 then .ok (.inr h.wpos) else .ok (.inl (h.wpos + off)))
  else if whence == 2 ∨ whence == 0x12 ∨ whence == 0x22 then .ok (.inl (h.frames + off))
  else .error E_BAD_SEEK

/-- second half: range check, `psf_default_seek`, the pointer(s) moved -/
def seekApply (h : H) (s : Store) (wm : Int) (r : Except Int (Sum Int Int)) : H × Store × Out :=
  match r with
  | .error e => ({ h with error := e }, s, { ret := -1, err := e })
  | .ok (.inr v) => (h, s, { ret := v, err := 0 })
  | .ok (.inl target) =>
    if (h.mode == .rw ∨ h.mode == .w) ∧ target < 0 then ({ h with error := E_BAD_SEEK }, s, { ret := -1, err := E_BAD_SEEK })
    else if h.mode == .r ∧ (target < 0 ∨ target > h.frames) then ({ h with error := E_BAD_SEEK }, s, { ret := -1, err := E_BAD_SEEK })
    else
      let newMode : Int := if wm != 0 then wm else modeBits h.mode
      let s := defaultSeek h s target
      let h := if newMode == 0x10 then { h with rpos := target, lastOp := .r }
               else if newMode == 0x20 then { h with wpos := target, lastOp := .w }
               else { h with rpos := target, wpos := target, lastOp := .r }
      (h, s, { ret := target, err := 0 })

theorem stepSeek_split (h : H) (s : Store) (off whence : Int) :
    stepSeek h s off whence =
      (let h0 : H := { h with error := 0 }
       let wm := whence % 0x100 / 0x10 * 0x10 % 0x40
       if (wm == 0x20 ∧ h0.mode == .r) ∨ (wm == 0x10 ∧ h0.mode == .w) then
         ({ h0 with error := E_WRONG_SEEK }, s, { ret := -1, err := E_WRONG_SEEK })
       else seekApply h0 s wm (seekDecode h0 off whence)) := rfl

theorem seekDecode_peak (h : H) (off whence : Int) (p : Option (List Sf.Peak)) :
    seekDecode (withPeak h p) off whence = seekDecode h off whence := rfl

theorem seekApply_peak (h : H) (s : Store) (wm : Int) (r : Except Int (Sum Int Int)) (p : Option (List Sf.Peak)) :
    seekApply (withPeak h p) s wm r = (withPeak (seekApply h s wm r).1 p, (seekApply h s wm r).2) := by
  cases h
  rename_i mode _ _ _ ch _ _ frames rpos wpos _ _ _ _ _ _ _ _ _ _ _ _
  unfold seekApply withPeak defaultSeek H.bw
  rcases r with e | (t | v)
  · rfl
  · dsimp only
    by_cases c2 : ((mode == Mode.rw) = true ∨ (mode == Mode.w) = true) ∧ t < 0
    · rw [if_pos c2, if_pos c2]
    rw [if_neg c2, if_neg c2]
    by_cases c3 : (mode == Mode.r) = true ∧ (t < 0 ∨ t > frames)
    · rw [if_pos c3, if_pos c3]
    rw [if_neg c3, if_neg c3]
    by_cases c4 : ((if (wm != 0) = true then wm else modeBits mode) == 16) = true
    · rw [if_pos c4, if_pos c4]
    rw [if_neg c4, if_neg c4]
    by_cases c5 : ((if (wm != 0) = true then wm else modeBits mode) == 32) = true
    · rw [if_pos c5, if_pos c5]
    rw [if_neg c5, if_neg c5]
  · rfl

theorem stepSeek_peak (h : H) (s : Store) (off whence : Int) (p : Option (List Sf.Peak)) :
    stepSeek (withPeak h p) s off whence =
      (withPeak (stepSeek h s off whence).1 p, (stepSeek h s off whence).2) := by
  rw [stepSeek_split, stepSeek_split]
  cases h
  rename_i st mode cont enc big ch sr fw frames rpos wpos lo hw ah er conv doff dlen dend flen pk pas ct
  dsimp only [withPeak]
  by_cases c1 : ((whence % 256 / 16 * 16 % 64 == 32) = true ∧ (mode == Mode.r) = true ∨
      (whence % 256 / 16 * 16 % 64 == 16) = true ∧ (mode == Mode.w) = true)
  · rw [if_pos c1, if_pos c1]
  · rw [if_neg c1, if_neg c1]
    exact seekApply_peak ⟨st, mode, cont, enc, big, ch, sr, fw, frames, rpos, wpos, lo, hw, ah, 0, conv, doff, dlen, dend, flen, pk, pas, ct⟩ s _ _ p

theorem stepNormD_peak (h : H) (s : Store) (size : Int) (p : Option (List Sf.Peak)) :
    stepCmdFlag (withPeak h p) s 0x1012 size =
      (withPeak (stepCmdFlag h s 0x1012 size).1 p, (stepCmdFlag h s 0x1012 size).2) := rfl

theorem calcLoop_peak (fuel : Nat) (h : H) (s : Store) (a : Acc) (p : Option (List Sf.Peak)) :
    calcLoop fuel (withPeak h p) s a = (withPeak (calcLoop fuel h s a).1 p, (calcLoop fuel h s a).2) := by
  induction fuel generalizing h s a with
  | zero => rfl
  | succ k ih =>
    have hc : (withPeak h p).ch = h.ch := rfl
    unfold calcLoop
    rw [hc, stepRead_peak]
    dsimp only
    by_cases c : (stepRead h s .f64 false (calcLen h.ch)).2.2.ret ≤ 0
    · rw [if_pos c, if_pos c]
    · rw [if_neg c, if_neg c]
      exact ih _ _ _

theorem calcPre_peak (h : H) (s : Store) (normalize : Bool) (p : Option (List Sf.Peak)) :
    calcPre (withPeak h p) s normalize = (withPeak (calcPre h s normalize).1 p, (calcPre h s normalize).2) := by
  unfold calcPre
  have e0 : ({ withPeak h p with error := 0 } : H) = withPeak { h with error := 0 } p := rfl
  dsimp only
  rw [e0, stepNormD_peak]
  dsimp only
  by_cases c : ((stepCmdFlag { h with error := 0 } s 0x1012 (if normalize then 1 else 0)).1.mode == Mode.rw) = true
  · have c' : ((withPeak (stepCmdFlag { h with error := 0 } s 0x1012 (if normalize then 1 else 0)).1 p).mode == Mode.rw) = true := c
    rw [if_pos c, if_pos c', stepSeek_peak]
    rfl
  · have c' : ¬ ((withPeak (stepCmdFlag { h with error := 0 } s 0x1012 (if normalize then 1 else 0)).1 p).mode == Mode.rw) = true := c
    rw [if_neg c, if_neg c', stepSeek_peak]
    dsimp only
    rw [stepSeek_peak]
    rfl

theorem calcPost_peak (h : H) (s : Store) (save : Bool) (rp pos : Int) (p : Option (List Sf.Peak)) :
    calcPost (withPeak h p) s save rp pos = (withPeak (calcPost h s save rp pos).1 p, (calcPost h s save rp pos).2) := by
  unfold calcPost
  have hm : (withPeak h p).mode = h.mode := rfl
  rw [hm]
  by_cases c : (h.mode == Mode.rw) = true
  · rw [if_pos c, if_pos c, stepSeek_peak]
    rfl
  · rw [if_neg c, if_neg c, stepSeek_peak]
    rfl

/-- the whole command -/
theorem stepCalc_peak (h : H) (s : Store) (normalize : Bool) (p : Option (List Sf.Peak)) :
    stepCalc (withPeak h p) s normalize =
      (withPeak (stepCalc h s normalize).1 p, (stepCalc h s normalize).2.1, (stepCalc h s normalize).2.2) := by
  unfold stepCalc
  rw [calcPre_peak]
  dsimp only
  have hf : (withPeak (calcPre h s normalize).1 p).frames = (calcPre h s normalize).1.frames := rfl
  have hc : (withPeak (calcPre h s normalize).1 p).ch = (calcPre h s normalize).1.ch := rfl
  rw [hf, hc, calcLoop_peak]
  dsimp only
  rw [calcPost_peak]

end Sf.Peak
