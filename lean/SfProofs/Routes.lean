/-
  SfProofs.Routes — helper lemmas for C14: list facts about `readAt` / `writeAt` / `resize` under a window offset,
  and the one-step simulation between a concrete route (descriptor at file offset k, or the callbacks) and the logical file.
-/
import SfModel.Routes
namespace Sf.Routes
open Sf

theorem zeros_length (n : Nat) : (zeros n).length = n := by simp [zeros]

theorem readAt_shift (f : List Byte) (k p n : Nat) : readAt f (k + p) n = readAt (f.drop k) p n := by
  simp [readAt, List.drop_drop]

theorem readAt_length_le (f : List Byte) (p n : Nat) : (readAt f p n).length ≤ n := by
  simp [readAt]; omega

theorem writeAt_length (f : List Byte) (p : Nat) (d : List Byte) :
    (writeAt f p d).length = max f.length (p + d.length) := by
  simp [writeAt, zeros]; omega

/-- writing at or after offset k commutes with looking at the file from offset k on -/
theorem writeAt_drop (f : List Byte) (k p : Nat) (d : List Byte) (hk : k ≤ f.length) :
    (writeAt f (k + p) d).drop k = writeAt (f.drop k) p d := by
  unfold writeAt
  have h1 : k ≤ (f.take (k + p)).length := by simp; omega
  rw [List.append_assoc, List.append_assoc, List.drop_append_of_le_length h1]
  have h2 : (f.take (k + p)).drop k = (f.drop k).take p := by
    rw [List.drop_take]; congr 1; omega
  have h3 : k + p - f.length = p - (f.drop k).length := by simp; omega
  have h4 : f.drop (k + p + d.length) = (f.drop k).drop (p + d.length) := by
    rw [List.drop_drop]; congr 1; omega
  rw [h2, h3, h4]; simp [List.append_assoc]

/-- … and leaves everything before offset k alone -/
theorem writeAt_take (f : List Byte) (k p : Nat) (d : List Byte) (hk : k ≤ f.length) :
    (writeAt f (k + p) d).take k = f.take k := by
  unfold writeAt
  have h1 : k ≤ (f.take (k + p)).length := by simp; omega
  rw [List.append_assoc, List.append_assoc, List.take_append_of_le_length h1, List.take_take]
  congr 1; omega

theorem resize_length (f : List Byte) (n : Nat) : (resize f n).length = n := by
  simp [resize, zeros]; omega

/-- cutting (or extending) at k + n commutes with looking at the file from offset k on -/
theorem resize_drop (f : List Byte) (k n : Nat) (hk : k ≤ f.length) : (resize f (k + n)).drop k = resize (f.drop k) n := by
  unfold resize
  have h1 : k ≤ (f.take (k + n)).length := by simp; omega
  rw [List.drop_append_of_le_length h1]
  have h2 : (f.take (k + n)).drop k = (f.drop k).take n := by
    rw [List.drop_take]; congr 1; omega
  have h3 : k + n - f.length = n - (f.drop k).length := by simp; omega
  rw [h2, h3]

theorem resize_take (f : List Byte) (k n : Nat) (hk : k ≤ f.length) : (resize f (k + n)).take k = f.take k := by
  unfold resize
  have h1 : k ≤ (f.take (k + n)).length := by simp; omega
  rw [List.take_append_of_le_length h1, List.take_take]
  congr 1; omega


/-! ## the simulation relation -/

/-- the concrete state (sh, w) presents the logical file `a`:
    callbacks: the store is the content; descriptor: a regular file whose bytes from `fileoffset` on are the content
    (everything up to the REAL end of the descriptor: the shim has no upper bound) and whose offset is fileoffset + pos -/
def Rel (sh : Shim) (w : World) (a : Abs) : Prop :=
  if sh.virtualIo then w.mem = a.content ∧ w.mpos = a.pos
  else sh.isPipe = false ∧ w.isPipe = false ∧ w.valid sh.filedes = true ∧
       ∃ k : Nat, sh.fileoffset = (k : Int) ∧ k ≤ w.file.length ∧ w.file.drop k = a.content ∧ w.off = k + a.pos ∧
         (sh.mode = .rw → k = 0)

/-- the operations covered by `routes_equivalent`, as a decidable predicate of the current logical state.
    Excluded, each with a proved witness in SfProps/C14.lean:
      * a whence other than SEEK_SET/CUR/END (descriptor: 0, callbacks: whatever the user returns) — never issued;
      * a seek to a negative logical position when fileoffset > 0 (the descriptor moves in front of the window) — never issued;
      * psf_get_filelen on an embedded READ handle once the container parser has set `filelength` to something other
        than the logical length (by design: the header's own size field then defines the embedded file);
      * psf_ftruncate on the callback route: SF_VIRTUAL_IO has no truncate callback, the call is refused and nothing
        is touched (theorem truncate_vio_refused_cleanly).
    Since the repairs 0001..0003 truncate with fileoffset > 0 and the first psf_get_filelen of an embedded READ handle are covered. -/
def Op.ok (sh : Shim) (a : Abs) : Op → Bool
  | .seek off wh =>
    decide (wh ≤ 2) && (decide (sh.fileoffset = 0) ||
      decide (0 ≤ whBase wh a.pos a.content.length + off))
  | .read _ _ => true
  | .write _ _ _ => true
  | .tell => true
  | .filelen => sh.virtualIo || decide (sh.mode = .w) || decide (sh.fileoffset = 0) ||
      (decide (sh.mode = .r) && (decide (sh.filelength ≤ 0) || decide (sh.filelength = (a.content.length : Int))))
  | .truncate _ => !sh.virtualIo

/-- the fields no primitive changes -/
def Frame (s s' : Shim) : Prop :=
  s'.virtualIo = s.virtualIo ∧ s'.mode = s.mode ∧ s'.filedes = s.filedes ∧ s'.fileoffset = s.fileoffset ∧
  s'.filelength = s.filelength ∧ s'.isPipe = s.isPipe ∧ s'.doNotClose = s.doNotClose

theorem logSyserr_frame (s : Shim) : Frame s (logSyserr s) := by
  unfold logSyserr Frame; split <;> simp

theorem Frame.refl (s : Shim) : Frame s s := by simp [Frame]

theorem Frame.trans {a b c : Shim} (h1 : Frame a b) (h2 : Frame b c) : Frame a c := by
  unfold Frame at *; simp_all

theorem Op.ok_frame {s s' : Shim} (h : Frame s s') (a : Abs) (op : Op) : Op.ok s' a op = Op.ok s a op := by
  obtain ⟨h1, h2, _, h4, h5, _, _⟩ := h
  cases op <;> simp [Op.ok, h1, h2, h4, h5]

theorem Rel_frame {s s' : Shim} {w : World} {a : Abs} (h : Frame s s') (hr : Rel s w a) : Rel s' w a := by
  obtain ⟨h1, h2, h3, h4, _, h6, _⟩ := h
  unfold Rel at *; simp only [h1, h2, h3, h4, h6]; exact hr


/-! ## one step, callback route -/

theorem cdiv_zero (b : Int) : cdiv 0 b = 0 := by simp [cdiv]

theorem mul_ne_zero_of {b i : Int} (h : ¬ (b = 0 ∨ i = 0)) : b * i ≠ 0 := by
  intro h0; rcases Int.mul_eq_zero.mp h0 with h1 | h1 <;> simp [h1] at h

theorem step_sim_vio {sh : Shim} {w : World} {a : Abs} (op : Op) (hv : sh.virtualIo = true)
    (h : Rel sh w a) (hok : Op.ok sh a op = true) :
    ((step sh w op).ret, (step sh w op).data) = (absStep a op).1 ∧
    Rel (step sh w op).sh (step sh w op).w (absStep a op).2 ∧ Frame sh (step sh w op).sh := by
  simp only [Rel, hv, if_true] at h
  obtain ⟨hm, hp⟩ := h
  cases op with
  | seek off wh =>
    simp only [Op.ok, Bool.and_eq_true, decide_eq_true_eq] at hok
    have hwh : ¬ 2 < wh := by omega
    simp only [step, fseek, hv, if_true, vioSeek, absStep, hwh, if_false, hm, hp]
    generalize whBase wh a.pos a.content.length = base
    by_cases hneg : base + off < 0
    · simp [hneg, Rel, hv, hm, hp, Frame.refl]
    · simp [hneg, Rel, hv, hm, Frame.refl]
  | read b i =>
    simp only [step, fread, absStep]
    by_cases hz : b = 0 ∨ i = 0
    · simp [hz, Rel, hv, hm, hp, Frame.refl]
    · have hne := mul_ne_zero_of hz
      simp only [hz, if_false, hv, if_true, vioRead, hm, hp]
      by_cases hneg : b * i < 0
      · have : b * i ≤ 0 := by omega
        simp [hneg, this, cdiv_zero, Rel, hv, hm, hp, Frame.refl]
      · have : ¬ b * i ≤ 0 := by omega
        simp [hneg, this, Rel, hv, Frame.refl]
  | write b i d =>
    simp only [step, fwrite, absStep]
    by_cases hz : b = 0 ∨ i = 0
    · simp [hz, Rel, hv, hm, hp, Frame.refl]
    · simp only [hz, if_false, hv, if_true]
      by_cases hneg : b * i ≤ 0
      · simp [hneg, Rel, hv, hm, hp, Frame.refl]
      · simp only [hneg, if_false, vioWrite, hm, hp]
        generalize List.take (b * i).toNat d = dd
        by_cases hl : dd.length = 0
        · simp only [hl, if_true]; simp [cdiv_zero, Rel, hv, hm, hp, Frame.refl]
        · simp only [hl, if_false]; simp [Rel, hv, Frame.refl]
  | tell => simp [step, ftell, hv, absStep, hp, Rel, hm, Frame.refl]
  | filelen => simp [step, getFilelen, hv, absStep, hp, Rel, hm, Frame.refl]
  | truncate n => simp [Op.ok, hv] at hok

/-! ## one step, descriptor route (path: k = 0; sf_open_fd: k = the descriptor's offset at open) -/

theorem whBase_shift (wh k pos : Nat) (f : List Byte) (hk : k ≤ f.length) (hwh : wh ≤ 2) :
    whBase wh (k + pos) f.length = (if wh = 0 then 0 else (k : Int)) + whBase wh pos (f.drop k).length := by
  unfold whBase
  by_cases h0 : wh = 0
  · simp [h0]
  · by_cases h1 : wh = 1
    · simp [h1]
    · simp [h0, h1]; omega

theorem whBase_nonneg (wh c l : Nat) : 0 ≤ whBase wh c l := by
  unfold whBase; split; · omega
  split <;> omega

theorem Rel_fd {sh : Shim} {w : World} {a : Abs} (hv : sh.virtualIo = false) :
    Rel sh w a ↔ (sh.isPipe = false ∧ w.isPipe = false ∧ w.valid sh.filedes = true ∧
       ∃ k : Nat, sh.fileoffset = (k : Int) ∧ k ≤ w.file.length ∧ w.file.drop k = a.content ∧ w.off = k + a.pos ∧
         (sh.mode = .rw → k = 0)) := by
  simp [Rel, hv]

theorem lseek_ok {w : World} {d : Int} {off : Int} {wh : Nat} (hval : w.valid d = true) (hp : w.isPipe = false)
    (hwh : wh ≤ 2) (h : 0 ≤ whBase wh w.off w.file.length + off) :
    lseek w d off wh = (whBase wh w.off w.file.length + off, { w with off := (whBase wh w.off w.file.length + off).toNat }) := by
  have h1 : ¬ 2 < wh := by omega
  have h2 : ¬ (whBase wh w.off w.file.length + off < 0) := by omega
  simp [lseek, hval, hp, h1, h2]

theorem lseek_neg {w : World} {d : Int} {off : Int} {wh : Nat} (hval : w.valid d = true) (hp : w.isPipe = false)
    (hwh : wh ≤ 2) (h : whBase wh w.off w.file.length + off < 0) : lseek w d off wh = (-1, w) := by
  have h1 : ¬ 2 < wh := by omega
  simp [lseek, hval, hp, h1, h]

theorem fseek_fd {sh : Shim} {w : World} (off : Int) {wh : Nat} (hv : sh.virtualIo = false) (hsp : sh.isPipe = false)
    (hwh : wh ≤ 2) :
    fseek sh w off wh =
      { ret := (lseek w sh.filedes (if wh = 0 then off + sh.fileoffset else off) wh).1 - sh.fileoffset,
        sh := if (lseek w sh.filedes (if wh = 0 then off + sh.fileoffset else off) wh).1 < 0 then logSyserr sh else sh,
        w := (lseek w sh.filedes (if wh = 0 then off + sh.fileoffset else off) wh).2 } := by
  have h1 : ¬ 2 < wh := by omega
  simp [fseek, hv, hsp, h1]

theorem step_sim_fd_seek {sh : Shim} {w : World} {a : Abs} (off : Int) (wh : Nat) (hv : sh.virtualIo = false)
    (h : Rel sh w a) (hok : Op.ok sh a (.seek off wh) = true) :
    ((step sh w (.seek off wh)).ret, (step sh w (.seek off wh)).data) = (absStep a (.seek off wh)).1 ∧
    Rel (step sh w (.seek off wh)).sh (step sh w (.seek off wh)).w (absStep a (.seek off wh)).2 ∧
    Frame sh (step sh w (.seek off wh)).sh := by
  have hR := h
  rw [Rel_fd hv] at h
  obtain ⟨hsp, hwp, hval, k, hk, hkl, hc, hoff, hrw⟩ := h
  simp only [Op.ok, Bool.and_eq_true, decide_eq_true_eq, Bool.or_eq_true] at hok
  obtain ⟨hwh2, hok⟩ := hok
  have hwh : ¬ 2 < wh := by omega
  have hb := whBase_shift wh k a.pos w.file hkl hwh2
  rw [hc, ← hoff] at hb
  have hnn := whBase_nonneg wh a.pos a.content.length
  simp only [step, fseek_fd off hv hsp hwh2, absStep, hwh, if_false]
  generalize hbase : whBase wh a.pos a.content.length = base at *
  -- the absolute target
  have htarget : whBase wh w.off w.file.length + (if wh = 0 then off + sh.fileoffset else off) = (k : Int) + (base + off) := by
    rw [hb, hk]; split <;> omega
  by_cases hneg : base + off < 0
  · have hk0 : k = 0 := by omega
    have hlt : whBase wh w.off w.file.length + (if wh = 0 then off + sh.fileoffset else off) < 0 := by omega
    rw [lseek_neg hval hwp hwh2 hlt]
    simp only [hneg, if_true]
    refine ⟨by simp [hk, hk0], ?_, ?_⟩
    · simpa using Rel_frame (logSyserr_frame sh) hR
    · simpa using logSyserr_frame sh
  · have hge : 0 ≤ whBase wh w.off w.file.length + (if wh = 0 then off + sh.fileoffset else off) := by omega
    rw [lseek_ok hval hwp hwh2 hge, htarget]
    have h3 : ¬ ((k : Int) + (base + off) < 0) := by omega
    simp only [hneg, h3, if_false]
    refine ⟨by simp [hk]; omega, ?_, Frame.refl _⟩
    rw [Rel_fd hv]
    refine ⟨hsp, hwp, hval, k, hk, hkl, hc, ?_, hrw⟩
    simp; omega

theorem step_sim_fd_read {sh : Shim} {w : World} {a : Abs} (b i : Int) (hv : sh.virtualIo = false)
    (h : Rel sh w a) :
    ((step sh w (.read b i)).ret, (step sh w (.read b i)).data) = (absStep a (.read b i)).1 ∧
    Rel (step sh w (.read b i)).sh (step sh w (.read b i)).w (absStep a (.read b i)).2 ∧
    Frame sh (step sh w (.read b i)).sh := by
  have hR := h
  rw [Rel_fd hv] at h
  obtain ⟨hsp, hwp, hval, k, hk, hkl, hc, hoff, hrw⟩ := h
  simp only [step, fread, absStep]
  by_cases hz : b = 0 ∨ i = 0
  · simp only [hz, if_true]; exact ⟨by first | rfl | trivial | simp, hR, Frame.refl _⟩
  · simp only [hz, if_false, hv, Bool.false_eq_true, Int.mul_comm i b]
    by_cases hneg : b * i ≤ 0
    · simp only [hneg, if_true]; exact ⟨by first | rfl | trivial | simp, hR, Frame.refl _⟩
    · simp only [hneg, if_false, osRead, hval, Bool.not_true, hsp, Bool.false_eq_true, if_true]
      have hrd : readAt w.file w.off (b * i).toNat = readAt a.content a.pos (b * i).toNat := by
        rw [hoff, readAt_shift, hc]
      rw [hrd]
      refine ⟨by first | rfl | trivial | simp, ?_, Frame.refl _⟩
      rw [Rel_fd hv]
      exact ⟨hsp, by simpa using hwp, by simpa [World.valid] using hval, k, hk, hkl, hc, by simp; omega, hrw⟩

theorem step_sim_fd_write {sh : Shim} {w : World} {a : Abs} (b i : Int) (d : List Byte) (hv : sh.virtualIo = false)
    (h : Rel sh w a) :
    ((step sh w (.write b i d)).ret, (step sh w (.write b i d)).data) = (absStep a (.write b i d)).1 ∧
    Rel (step sh w (.write b i d)).sh (step sh w (.write b i d)).w (absStep a (.write b i d)).2 ∧
    Frame sh (step sh w (.write b i d)).sh := by
  have hR := h
  rw [Rel_fd hv] at h
  obtain ⟨hsp, hwp, hval, k, hk, hkl, hc, hoff, hrw⟩ := h
  simp only [step, fwrite, absStep]
  by_cases hz : b = 0 ∨ i = 0
  · simp only [hz, if_true]; exact ⟨by first | rfl | trivial | simp, hR, Frame.refl _⟩
  · simp only [hz, if_false, hv, Bool.false_eq_true, Int.mul_comm i b]
    by_cases hneg : b * i ≤ 0
    · simp only [hneg, if_true]; exact ⟨by first | rfl | trivial | simp, hR, Frame.refl _⟩
    · simp only [hneg, if_false, osWrite, hval, Bool.not_true, hsp, hwp, Bool.false_or]
      generalize List.take (b * i).toNat d = dd
      by_cases hl : dd.length = 0
      · have : (dd.length == 0) = true := by simp [hl]
        simp only [this, hl, if_true]
        exact ⟨by simp [cdiv_zero], hR, Frame.refl _⟩
      · have : (dd.length == 0) = false := by simp [hl]
        simp only [this, hl, if_false, Bool.false_eq_true, if_true]
        refine ⟨by first | rfl | trivial | simp, ?_, Frame.refl _⟩
        rw [Rel_fd hv]
        refine ⟨hsp, by simpa using hwp, by simpa [World.valid] using hval, k, hk, ?_, ?_, ?_, hrw⟩
        · simp only [writeAt_length]; omega
        · simp only [hoff, writeAt_drop _ _ _ _ hkl, hc]
        · simp only [hoff]; omega

theorem step_sim_fd_tell {sh : Shim} {w : World} {a : Abs} (hv : sh.virtualIo = false) (h : Rel sh w a) :
    ((step sh w .tell).ret, (step sh w .tell).data) = (absStep a .tell).1 ∧
    Rel (step sh w .tell).sh (step sh w .tell).w (absStep a .tell).2 ∧ Frame sh (step sh w .tell).sh := by
  have hR := h
  rw [Rel_fd hv] at h
  obtain ⟨hsp, hwp, hval, k, hk, hkl, hc, hoff, hrw⟩ := h
  have hge : 0 ≤ whBase 1 w.off w.file.length + 0 := by simp [whBase]
  have hls := lseek_ok (d := sh.filedes) hval hwp (by omega : (1 : Nat) ≤ 2) hge
  simp only [step, ftell, hv, hsp, Bool.false_eq_true, if_false, hls, absStep]
  have h1 : ¬ (whBase 1 w.off w.file.length + 0 = -1) := by simp [whBase]
  simp only [h1, if_false]
  refine ⟨by simp [whBase, hk, hoff]; omega, hR, Frame.refl _⟩

theorem step_sim_fd_filelen {sh : Shim} {w : World} {a : Abs} (hv : sh.virtualIo = false) (h : Rel sh w a)
    (hok : Op.ok sh a .filelen = true) :
    ((step sh w .filelen).ret, (step sh w .filelen).data) = (absStep a .filelen).1 ∧
    Rel (step sh w .filelen).sh (step sh w .filelen).w (absStep a .filelen).2 ∧ Frame sh (step sh w .filelen).sh := by
  have hR := h
  rw [Rel_fd hv] at h
  obtain ⟨hsp, hwp, hval, k, hk, hkl, hc, hoff, hrw⟩ := h
  have hlen : (a.content.length : Int) = (w.file.length : Int) - k := by rw [← hc]; simp; omega
  simp only [Op.ok, hv, Bool.false_or, Bool.or_eq_true, Bool.and_eq_true, decide_eq_true_eq] at hok
  have h1 : ¬ ((w.file.length : Int) = -1) := by omega
  simp only [step, getFilelen, hv, Bool.false_eq_true, if_false, fstatSize, hval, Bool.not_true, hwp, h1, absStep]
  cases hm : sh.mode with
  | w => exact ⟨by simp [hk, hlen], hR, Frame.refl _⟩
  | rw =>
    have hk0 := hrw hm
    exact ⟨by simp [hlen, hk0], hR, Frame.refl _⟩
  | r =>
    simp only [hm] at hok
    refine ⟨?_, hR, Frame.refl _⟩
    by_cases hpos : sh.fileoffset > 0
    · simp only [hpos, if_true]
      by_cases hfl : sh.filelength > 0
      · simp only [hfl, if_true]
        rcases hok with (h | h) | h
        · exact absurd h (by simp)
        · omega
        · rcases h.2 with h2 | h2
          · omega
          · simp [h2]
      · simp only [hfl, if_false]
        simp [hk, hlen]
    · simp only [hpos, if_false]
      have : k = 0 := by omega
      simp [hlen, this]

theorem step_sim_fd_truncate {sh : Shim} {w : World} {a : Abs} (n : Int) (hv : sh.virtualIo = false) (h : Rel sh w a) :
    ((step sh w (.truncate n)).ret, (step sh w (.truncate n)).data) = (absStep a (.truncate n)).1 ∧
    Rel (step sh w (.truncate n)).sh (step sh w (.truncate n)).w (absStep a (.truncate n)).2 ∧
    Frame sh (step sh w (.truncate n)).sh := by
  have hR := h
  rw [Rel_fd hv] at h
  obtain ⟨hsp, hwp, hval, k, hk, hkl, hc, hoff, hrw⟩ := h
  simp only [step, ftruncate, absStep]
  by_cases hneg : n < 0
  · simp only [hneg, if_true]; exact ⟨by first | rfl | trivial | simp, hR, Frame.refl _⟩
  · simp only [hneg, if_false, hv, Bool.false_eq_true, osTruncate, hval, Bool.not_true, hwp, Bool.or_self]
    have h1 : ¬ ((0 : Int) = -1) := by omega
    simp only [h1, if_false]
    have hn : (n + sh.fileoffset).toNat = k + n.toNat := by rw [hk]; omega
    refine ⟨by first | rfl | trivial | simp, ?_, Frame.refl _⟩
    rw [Rel_fd hv]
    refine ⟨hsp, by simpa using hwp, by simpa [World.valid] using hval, k, hk, ?_, ?_, hoff, hrw⟩
    · simp only [hn, resize_length]; omega
    · simp only [hn, resize_drop _ _ _ hkl, hc]

theorem step_sim {sh : Shim} {w : World} {a : Abs} (op : Op) (h : Rel sh w a) (hok : Op.ok sh a op = true) :
    ((step sh w op).ret, (step sh w op).data) = (absStep a op).1 ∧
    Rel (step sh w op).sh (step sh w op).w (absStep a op).2 ∧ Frame sh (step sh w op).sh := by
  cases hv : sh.virtualIo with
  | true => exact step_sim_vio op hv h hok
  | false =>
    cases op with
    | seek off wh => exact step_sim_fd_seek off wh hv h hok
    | read b i => exact step_sim_fd_read b i hv h
    | write b i d => exact step_sim_fd_write b i d hv h
    | tell => exact step_sim_fd_tell hv h
    | filelen => exact step_sim_fd_filelen hv h hok
    | truncate n => exact step_sim_fd_truncate n hv h

end Sf.Routes
