/-
  SfProofs.AbsWriteComplete — the converse of AbsWriteMeaning: answers that satisfy the mathematical statements ARE
  accepted, clause by clause and for a whole record (`accepted_iff`).  Together with the theorems of the concrete model
  (C01.file_roundtrip, C04.frames_bound / *_reopen_info, C07.file_bytes_partition_*, C11.snapshot_valid_*; linked in
  lean/SfProps/C0xAbsW.lean) this is "the write-side predicate never raises an alarm where the property holds".
  `cellsOf` is the encoding of the model's caller buffers (`List Int`) as the cell arrays the harness prints.
-/
import SfProofs.AbsWriteMeaning
namespace Sf.AbsWrite
open Sf Sf.Abs Sf.Geometry

/-! ## clause by clause -/

/-- `N ≤ F < N + B` is accepted -/
theorem framesOk_complete (g : Geom) (N : Nat) (F : Int) (h1 : (N : Int) ≤ F) (h2 : F < (N : Int) + (g.block : Int)) :
    framesOk g N F = true := by
  unfold framesOk
  simp only [Bool.and_eq_true, decide_eq_true_eq]
  refine ⟨h1, ?_⟩
  push_cast; rw [pad_zero g]; omega

/-- `F = N` is accepted whenever the block length is positive -/
theorem framesOk_complete_exact (g : Geom) (N : Nat) (hb : 1 ≤ g.block) : framesOk g N (N : Int) = true :=
  framesOk_complete g N N (Int.le_refl _) (by omega)

theorem eofOk_complete (g : Geom) (F : Int) (rb : ReadBack) (h1 : rb.ret = F * (g.ch : Int)) (h2 : rb.more = 0) :
    eofOk g F rb = true := by
  unfold eofOk; simp [h1, h2]

theorem infoOk_complete (g : Geom) (i : Info) (h1 : i.ch = (g.ch : Int)) (h2 : i.fmt % 0x10000000 = g.word % 0x10000000) :
    infoOk g i = true := by
  unfold infoOk; simp [h1, h2]

theorem rateOk_complete_exact (major sr : Nat) (got : Int) (hc : rateClass major = .exact) (h : got = (sr : Int)) :
    rateOk major sr got = true := by
  unfold rateOk; rw [hc]; simp [h]

/-- a read-back that starts with the written stream is accepted (side condition or not) -/
theorem roundtripOk_complete (g : Geom) (ty : Ty) (cs : List Call) (rb : ReadBack)
    (h1 : (written g.ch cs).size ≤ rb.ret.toNat * cells ty)
    (h2 : rb.data.extract 0 (written g.ch cs).size = written g.ch cs) : roundtripOk g ty cs rb = true := by
  unfold roundtripOk
  simp only [Bool.or_eq_true, Bool.and_eq_true, decide_eq_true_eq]
  refine Or.inr ⟨h1, ?_⟩
  have hsz : (written g.ch cs).size ≤ rb.data.size := by
    have := congrArg Array.size h2
    simp at this; omega
  apply sliceEq_of_extract
  · omega
  · omega
  · simpa using h2

/-- a pair outside the side condition is not judged -/
theorem roundtripOk_lossy (g : Geom) (ty : Ty) (cs : List Call) (rb : ReadBack)
    (h : (sameType ty cs && losslessFor g ty (written g.ch cs)) = false) : roundtripOk g ty cs rb = true := by
  unfold roundtripOk; simp [h]

theorem partitionOk_complete (one split : Run) (h : one.bytes = split.bytes) : partitionOk one split = true := by
  unfold partitionOk; rw [h]; exact beq_self_eq_true _

theorem staleOk_complete (one : Run) (b : Array Item) (h : one.bytes = b) : staleOk one b = true := by
  unfold staleOk; rw [h]; exact beq_self_eq_true _

/-- `F = ⌊N_k⌋_B` is accepted -/
theorem snapFramesOk_complete (g : Geom) (Nk : Nat) : snapFramesOk g Nk (floorToBlock Nk g.block : Int) = true := by
  unfold snapFramesOk
  simp only [Bool.and_eq_true, decide_eq_true_eq]
  rw [pad_zero g]; constructor <;> simp

/-- sample-granular encodings: `F = N_k` is accepted -/
theorem snapFramesOk_complete_exact (g : Geom) (Nk : Nat) (hb : g.block = 1) : snapFramesOk g Nk (Nk : Int) = true := by
  have := snapFramesOk_complete g Nk
  rw [hb] at this
  simpa [floorToBlock] using this

theorem snapShortOk_complete (g : Geom) (Nk : Nat) (rb : ReadBack) (h : floorToBlock Nk g.block * g.ch ≤ rb.ret.toNat) :
    snapShortOk g Nk rb = true := by
  unfold snapShortOk; simpa using h

/-- a crash-point read-back whose judged prefix equals the finished file's read-back (and the written cells) is accepted -/
theorem snapDataOk_complete (g : Geom) (ty : Ty) (Nk : Nat) (w : Array Item) (lossless : Bool) (final rb : ReadBack)
    (hf : snapItems g Nk rb * cells ty ≤ final.data.size) (hr : snapItems g Nk rb * cells ty ≤ rb.data.size)
    (hw : lossless = true → snapItems g Nk rb * cells ty ≤ w.size)
    (h1 : rb.data.extract 0 (snapItems g Nk rb * cells ty) = final.data.extract 0 (snapItems g Nk rb * cells ty))
    (h2 : lossless = true → rb.data.extract 0 (snapItems g Nk rb * cells ty) = w.extract 0 (snapItems g Nk rb * cells ty)) :
    snapDataOk g ty Nk w lossless final rb = true := by
  unfold snapDataOk
  simp only [Bool.and_eq_true, Bool.or_eq_true, Bool.not_eq_true']
  refine ⟨sliceEq_of_extract _ _ _ _ _ (by omega) (by omega) (by simpa using h1), ?_⟩
  cases lossless with
  | false => exact Or.inl rfl
  | true => exact Or.inr (sliceEq_of_extract _ _ _ _ _ (by omega) (by have := hw rfl; omega) (by simpa using h2 rfl))

/-! ## a whole record -/

theorem judgeSnaps_of (r : Record) (sp : Run) : ∀ (ss : List Snap) (k0 : Nat),
    (∀ i s, ss[i]? = some s → judgeSnap r sp (k0 + i) s = []) → judgeSnaps r sp k0 ss = []
  | [], _, _ => rfl
  | s :: ss, k0, h => by
    unfold judgeSnaps
    rw [List.append_eq_nil_iff]
    refine ⟨by simpa using h 0 s (by simp), judgeSnaps_of r sp ss (k0 + 1) (fun i t ht => ?_)⟩
    have := h (i + 1) t (by simpa using ht)
    rw [show k0 + (i + 1) = k0 + 1 + i by omega] at this; exact this

/-- every clause holds ⇒ the record is accepted -/
theorem accepted_of (r : Record) (a : Accepted r) : accepted r = true := by
  unfold accepted
  suffices hj : judge r = [] by simp [hj]
  unfold judge
  simp only [a.complete, a.opened, Bool.not_true, Bool.false_eq_true, if_false, a.reopened, List.append_eq_nil_iff]
  refine ⟨⟨⟨?_, ?_⟩, ⟨?_, ?_⟩⟩, ?_⟩
  · rw [firstBadCall_of_all _ _ a.calls]
  · simp [a.closed]
  · unfold judgeReopen
    simp only [List.append_eq_nil_iff, ite_nil_iff]
    exact ⟨⟨⟨⟨a.info, a.rate⟩, a.frames⟩, a.eof⟩, a.roundtrip⟩
  · cases hs : r.split with
    | none => rfl
    | some sp =>
      obtain ⟨h1, h2, h3, h4, h5⟩ := a.split sp hs
      simp only
      unfold judgeSplit
      simp only [h1, Bool.false_eq_true, if_false, h2, bne_self_eq_false, List.append_eq_nil_iff, ite_nil_iff]
      refine ⟨⟨by rw [firstBadCall_of_all _ _ h3], h4⟩, ?_⟩
      cases hsc : snapScope r.g with
      | false => simp
      | true =>
        simp only [if_true]
        exact judgeSnaps_of r sp r.snaps 0 (fun i s hs => by simpa using h5 hsc i s hs)
  · cases hs : r.stale with
    | none => rfl
    | some b => simp only; exact (ite_nil_iff _ _).2 (a.stale b hs)

/-- THE PREDICATE, characterised: a record is accepted exactly when every clause holds -/
theorem accepted_iff (r : Record) : accepted r = true ↔ Accepted r := ⟨accepted_meaning r, accepted_of r⟩

/-! ## the model's caller buffers as cell arrays -/

/-- the cells the harness prints for one caller item: the 16- / 32-bit pattern of an integer, the bit pattern of a float,
    the two halves (high first) of a double's pattern -/
def cellOf (ty : Ty) (v : Int) : Array Item :=
  match ty with
  | .s16 => #[wrapU 16 v]
  | .s32 => #[wrapU 32 v]
  | .f32 => #[v.toNat]
  | .f64 => #[v.toNat / 2 ^ 32, v.toNat % 2 ^ 32]

def cellsOf (ty : Ty) : List Int → Array Item
  | [] => #[]
  | v :: vs => cellOf ty v ++ cellsOf ty vs

theorem cellOf_size (ty : Ty) (v : Int) : (cellOf ty v).size = cells ty := by
  cases ty <;> rfl

theorem cellsOf_size (ty : Ty) : ∀ vs : List Int, (cellsOf ty vs).size = vs.length * cells ty
  | [] => by simp [cellsOf]
  | v :: vs => by simp [cellsOf, cellOf_size, cellsOf_size ty vs, Nat.add_mul]; omega

/-- a read-back that consists of the cells of the written list followed by anything is accepted by the C01 clause -/
theorem roundtripOk_of_lists (g : Geom) (ty : Ty) (cs : List Call) (rb : ReadBack) (samples back : List Int) (tail : Array Item)
    (hw : written g.ch cs = cellsOf ty samples) (hd : rb.data = cellsOf ty back ++ tail) (hb : back = samples)
    (hret : samples.length ≤ rb.ret.toNat) : roundtripOk g ty cs rb = true := by
  apply roundtripOk_complete
  · rw [hw, cellsOf_size]; exact Nat.mul_le_mul_right _ hret
  · rw [hd, hb, hw]
    simp [Array.extract_append]

end Sf.AbsWrite
