/-
  SfProofs.CodecFile — whole-file statements: open for write, any writer operations, close.
-/
import SfProofs.CodecTwo
namespace Sf

/-! ## what `openHandle … .w` returns -/

theorem encOf_props (c : Container) (codec : Nat) (big : Bool) (e : Enc) (h : encOf c codec big = some e) :
    0 < e.nbytes ∧ e.wf := by
  unfold encOf at h
  split at h <;> (try split at h) <;> simp at h <;> subst h <;>
    simp [Enc.nbytes, PcmFmt.nbytes, Enc.wf, PcmFmt.wf]

/-- the handle of a successful open for write on an empty store -/
theorem open_props (si : Nat) (s0 : Store) (fmt : Nat) (ch sr : Int) (h : H) (s : Store)
    (ho : openHandle si s0 .w fmt ch sr = .ok h s) :
    0 < h.enc.nbytes ∧ h.enc.wf ∧ h.conv = {} ∧ h.autoHeader = false ∧ (ch : Int) = h.ch ∧ h.sr = sr ∧ h.fmtWord = fmt ∧
    containerOf fmt = some h.container ∧
    encOf h.container (codecOf fmt) (dataBig h.container fmt) = some h.enc ∧
    h.peak = (if h.container = .wav ∧ h.enc.isFloatData = true then some (mkPeaks h.ch) else none) := by
  unfold openHandle at ho
  simp only [beq_self_eq_true, true_or, if_true] at ho
  split at ho
  · cases ho
  · rename_i c hc
    split at ho
    · cases ho
    · split at ho
      · cases ho
      · rename_i enc he
        split at ho
        · cases ho
        · rename_i hch _ hsr
          obtain ⟨hnb, hwf⟩ := encOf_props _ _ _ _ he
          have hcn : (ch.toNat : Int) = ch := by omega
          cases c <;> simp only [] at ho <;> cases ho <;>
            simp [writeHeader_fst_cw, hnb, hwf, hcn, hc, he]

/-! ## the data section of the closed file -/

theorem auHdr_length (big : Bool) (dl : Int) (fmtWord : Nat) (sr : Int) (ch : Nat) :
    (auHdr big dl fmtWord sr ch).length = 24 := by
  unfold auHdr
  simp only [List.length_append, u32_length, apply_ite List.length, marker_len_snd, marker_len_dns, ite_self]

/-- the closed file is  header ++ data ++ trailer  with a header of the length the handle records as data offset -/
theorem closeForm_split (h : H) (dat : List Byte) :
    ∃ hd tl : List Byte, closeForm h dat = hd ++ dat ++ tl ∧ hd.length = hdrLenOf h ∧ (h.container ≠ .wav → tl = []) := by
  unfold closeForm
  cases hc : h.container with
  | raw => exact ⟨[], [], by simp, by simp [hdrLenOf, hc], fun _ => rfl⟩
  | au =>
    exact ⟨auHdr h.big dat.length h.fmtWord h.sr h.ch, [], by simp, by simp [hdrLenOf, hc, auHdr_length], fun _ => rfl⟩
  | wav =>
    refine ⟨wavHdr h.big ((hdrLenOf h + dat.length + (wavPad h dat ++ wavTail h).length : Nat) : Int) h.enc.nbytes h.ch h.sr
        h.frames h.peak h.peakAtStart dat.length h.fmtWord, wavPad h dat ++ wavTail h,
        by simp only [List.append_assoc], ?_, fun x => absurd rfl x⟩
    have := wavHeader_length ({ h with filelength := ((hdrLenOf h + dat.length + (wavPad h dat ++ wavTail h).length : Nat) : Int),
                                       datalength := (dat.length : Int) } : H)
    rw [wavHeader_eq] at this
    simp only [] at this
    rw [this]
    simp only [hdrLenOf, hc]
    exact wavHdrLen_congr _ _ rfl rfl rfl

theorem closeForm_data (h : H) (dat : List Byte) :
    ((closeForm h dat).drop (hdrLenOf h)).take dat.length = dat := by
  obtain ⟨hd, tl, e, l, _⟩ := closeForm_split h dat
  rw [e, ← l, List.append_assoc, List.drop_left' rfl, List.take_left' rfl]

/-! ## calls of one sample type -/

/-- the samples a call hands over -/
def WOp.samples : WOp → List Int
  | .write _ _ n data => if n = 0 then [] else data
  | .updHeader _ => []

/-- the call is a header update or a write of type `ty` -/
def WOp.hasTy (ty : Ty) : WOp → Prop
  | .write ty' _ _ _ => ty' = ty
  | .updHeader _ => True

theorem ops_bytes_eq (e : Enc) (c : Conv) (ty : Ty) (ops : List WOp) (ht : ∀ op ∈ ops, op.hasTy ty) :
    ops.flatMap (WOp.bytes e c) = e.encodeAll c ty (ops.flatMap WOp.samples) := by
  induction ops with
  | nil => rfl
  | cons op ops ih =>
    rw [List.flatMap_cons, List.flatMap_cons, Enc.encodeAll_append, ih (fun o ho => ht o (by simp [ho]))]
    congr 1
    have := ht op (by simp)
    cases op with
    | write ty' fc n data =>
      simp only [WOp.hasTy] at this
      subst this
      simp only [WOp.bytes, WOp.samples]; split <;> rfl
    | updHeader _ => rfl

theorem ops_samples_mod (h : H) (ops : List WOp) (hok : ∀ op ∈ ops, op.ok h) :
    ((ops.flatMap WOp.samples).length : Int) % h.ch = 0 := by
  induction ops with
  | nil => simp
  | cons op ops ih =>
    rw [List.flatMap_cons, List.length_append]; push_cast
    rw [Int.add_emod, ih (fun o ho => hok o (by simp [ho]))]
    have := hok op (by simp)
    cases op with
    | write ty fc n data =>
      rcases this with h0 | v
      · simp [WOp.samples, h0]
      · have hn : n ≠ 0 := by have := v.pos; omega
        simp only [WOp.samples, hn, if_false]
        rw [ValidW.len_mod h fc n data v]; simp
    | updHeader _ => simp [WOp.samples]

/-- one items call with all the samples is itself a well-formed call -/
theorem single_ok (h : H) (ty : Ty) (ops : List WOp) (hok : ∀ op ∈ ops, op.ok h) :
    (WOp.write ty false (ops.flatMap WOp.samples).length (ops.flatMap WOp.samples)).ok h := by
  by_cases h0 : ((ops.flatMap WOp.samples).length : Int) = 0
  · exact Or.inl h0
  · exact Or.inr ⟨by omega, fun _ => ops_samples_mod h ops hok, rfl⟩

/-- the formats whose files carry a PEAK chunk: float / double data in WAV -/
def carriesPeak (fmt : Nat) : Bool :=
  containerOf fmt == some .wav && (codecOf fmt == 0x06 || codecOf fmt == 0x07)

theorem encOf_float (c : Container) (codec : Nat) (big : Bool) (e : Enc) (h : encOf c codec big = some e)
    (hf : e.isFloatData = true) : codec = 0x06 ∨ codec = 0x07 := by
  unfold encOf at h
  split at h <;> (try split at h) <;> simp at h <;> subst h <;> simp [Enc.isFloatData] at hf ⊢

theorem open_peak_none (si : Nat) (s0 : Store) (fmt : Nat) (ch sr : Int) (h : H) (s : Store)
    (ho : openHandle si s0 .w fmt ch sr = .ok h s) (hp : carriesPeak fmt = false) : h.peak = none := by
  obtain ⟨_, _, _, _, _, _, _, hc, he, hpk⟩ := open_props si s0 fmt ch sr h s ho
  rw [hpk]
  split
  · rename_i hx
    have := encOf_float _ _ _ _ he hx.2
    simp [carriesPeak, hc, hx.1] at hp
    omega
  · rfl

/-! ## the file written by a sequence of writer operations -/

/-- open an empty store for write, perform the operations, close: the bytes of the file (none if the open fails) -/
def closeBytes (fmt : Nat) (ch sr : Int) (ops : List WOp) : Option (List Byte) :=
  match openHandle 0 {} .w fmt ch sr with
  | .ok h s => some (closeHandle (runW (h, s) ops).1 (runW (h, s) ops).2).bytes
  | _ => none

theorem closeBytes_eq (fmt : Nat) (ch sr : Int) (h : H) (s : Store) (ho : openHandle 0 {} .w fmt ch sr = .ok h s)
    (ops : List WOp) (hok : ∀ op ∈ ops, op.ok h) :
    closeBytes fmt ch sr ops =
      some (closeForm { h with frames := ((ops.flatMap (WOp.bytes h.enc h.conv)).length : Int) / ((h.enc.nbytes * h.ch : Nat) : Int),
                               peak := peakRun h.enc h.conv h.ch h.peak 0 ops }
              (ops.flatMap (WOp.bytes h.enc h.conv))) := by
  obtain ⟨inv, hw⟩ := open_winv 0 {} rfl fmt ch sr h s ho
  obtain ⟨hnb, _⟩ := open_props 0 {} fmt ch sr h s ho
  unfold closeBytes
  rw [ho]
  simp only []
  rw [writer_close_bytes h s s.bytes [] inv hnb ops hok, hw]
  simp

/-! ## PEAK entries stay one per channel over a whole run (so the header length never changes) -/

theorem peakUpd_maplen (pk : Option (List Peak)) (enc : Enc) (conv : Conv) (ch : Nat) (wpos : Int) (ty : Ty)
    (vals : List Int) (hl : ∀ ps, pk = some ps → ps.length = ch) :
    (peakUpd pk enc conv ch wpos ty vals).map List.length = pk.map List.length := by
  unfold peakUpd
  exact peakUpdate_maplen _ ty vals hl

theorem peakRun_maplen (enc : Enc) (conv : Conv) (ch : Nat) (ops : List WOp) :
    ∀ (pk : Option (List Peak)) (wpos : Int), (∀ ps, pk = some ps → ps.length = ch) →
      (peakRun enc conv ch pk wpos ops).map List.length = pk.map List.length := by
  induction ops with
  | nil => intro pk wpos _; rfl
  | cons op ops ih =>
    intro pk wpos hl
    cases op with
    | write ty fc n data =>
      simp only [peakRun]
      split
      · exact ih pk wpos hl
      · have hm := peakUpd_maplen pk enc conv ch wpos ty data hl
        rw [ih _ _ ?_, hm]
        intro ps' hps'
        rw [hps'] at hm
        cases hpk : pk with
        | none => rw [hpk] at hm; simp at hm
        | some ps => rw [hpk] at hm; simp at hm; rw [hm]; exact hl ps hpk
    | updHeader _ => simp only [peakRun]; exact ih pk wpos hl

/-- `isOk` view of an open result (OpenRes has no decidable equality) -/
def OpenRes.isOk : OpenRes → Bool
  | .ok _ _ => true
  | _ => false

theorem OpenRes.ok_of_isOk (r : OpenRes) (h : r.isOk = true) : ∃ hh s, r = .ok hh s := by
  cases r with
  | ok hh s => exact ⟨hh, s, rfl⟩
  | fail s => cases h
  | unmodelled => cases h

/-! ## re-open (RAW) -/

/-- the argument checks a successful open for write has passed -/
theorem open_args (si : Nat) (s0 : Store) (fmt : Nat) (ch sr : Int) (h : H) (s : Store)
    (ho : openHandle si s0 .w fmt ch sr = .ok h s) : 1 ≤ ch ∧ ch ≤ 1024 ∧ 1 ≤ sr := by
  unfold openHandle at ho
  simp only [beq_self_eq_true, true_or, if_true] at ho
  split at ho
  · cases ho
  · split at ho
    · cases ho
    · split at ho
      · cases ho
      · split at ho
        · cases ho
        · omega

/-- RAW: re-opening the closed bytes for read (same format word, channels, rate — RAW has no header) finds the
    data at offset 0 and exactly `length / bytewidth` frames, with the same encoding -/
theorem reopen_raw (fmt : Nat) (ch sr : Int) (h : H) (s : Store) (ho : openHandle 0 {} .w fmt ch sr = .ok h s)
    (hc : h.container = .raw) (si : Nat) (file : List Byte) (p : Nat) :
    ∃ h' s', openHandle si { bytes := file, pos := p } .r fmt ch sr = .ok h' s' ∧
      h'.frames = (file.length : Int) / ((h.enc.nbytes * h.ch : Nat) : Int) ∧ h'.dataoffset = 0 ∧
      h'.enc = h.enc ∧ h'.ch = h.ch ∧ h'.mode = .r ∧ h'.rpos = 0 ∧ s' = { bytes := file, pos := 0 } := by
  obtain ⟨hnb, _, _, _, hch, _, _, hcont, henc, _⟩ := open_props 0 {} fmt ch sr h s ho
  obtain ⟨a1, a2, a3⟩ := open_args 0 {} fmt ch sr h s ho
  rw [hc] at hcont henc
  have hchn : ch.toNat = h.ch := by omega
  unfold openHandle
  simp only [hcont, henc]
  have c1 : ¬ (ch < 1 ∨ ch > 1024 ∨ sr < 0) := by omega
  have c2 : ¬ (sr < 1) := by omega
  simp [c1, c2, initFrames, Store.seekSet, hchn]
  have hb : 0 < h.enc.nbytes * h.ch := Nat.mul_pos hnb (by omega)
  refine ⟨_, _, ⟨rfl, rfl⟩, ?_, rfl, rfl, rfl, rfl, rfl, rfl⟩
  simp only [hb, if_true]
  split
  · rfl
  · have : file.length = 0 := by omega
    simp [this]

end Sf
