/-
  The write session of a handle on RAW / AU / WAV as an abstract state (frames, data bytes, PEAK table,
  auto-header flag) and the invariant tying it to the concrete handle and store (C04, C11).
-/
import SfProofs.ContainerBytes
namespace Sf
set_option linter.unusedSimpArgs false

/-! ### headers as functions of the quantities they serialise -/

def auHdr_ct (big : Bool) (codec : Nat) (sr : Int) (ch : Nat) (dl : Int) : List Byte :=
  let dl' : Int := if dl < 0 ∨ dl > 0x7FFFFFFF then -1 else dl
  (if big then marker ".snd" else marker "dns.") ++ u32 big 24 ++ u32 big dl' ++
    u32 big (auEncoding codec) ++ u32 big sr ++ u32 big ch

theorem auHeader_eq_ct (h : H) : auHeader h = auHdr_ct h.big (codecOf h.fmtWord) h.sr h.ch h.datalength := rfl

def peakChk (big : Bool) (ch : Nat) (ps : List Peak) : List Byte :=
  marker "PEAK" ++ u32 big (8 + 8 * ch) ++ u32 big 1 ++ u32 big 1000000000 ++
    ps.flatMap fun p => u32 big (wrF32 (Float.f64to32 p.value)) ++ u32 big p.position

theorem peakChunk_eq_ct (h : H) (ps : List Peak) : peakChunk h ps = peakChk h.big h.ch ps := rfl

def wavFmtChunk (b : Bool) (codec nb ch : Nat) (sr : Int) : List Byte :=
  let bwid : Int := nb
  let fmtBody := u16 b (wavFormatTag codec) ++ u16 b ch ++ u32 b sr ++ u32 b (sr * bwid * ch) ++
                 u16 b (bwid * ch) ++ u16 b (if codec == 0x10 || codec == 0x11 then 8 else bwid * 8)
  if codec == 0x10 || codec == 0x11 then u32 b 18 ++ fmtBody ++ u16 b 0 else u32 b 16 ++ fmtBody

def wavFact (b : Bool) (codec : Nat) (frames : Int) : List Byte :=
  if hasFact codec then marker "fact" ++ u32 b 4 ++ u32 b frames else []

def wavPeakStart (b : Bool) (ch : Nat) (peak : Option (List Peak)) (pas : Bool) : List Byte :=
  match peak with
  | some ps => if pas then peakChk b ch ps else []
  | none => []

def wavHdr_ct (b : Bool) (codec nb ch : Nat) (sr frames : Int) (peak : Option (List Peak)) (pas : Bool) (fl dl : Int) :
    List Byte :=
  let riffLen : Int := if fl < 8 then 8 else (if fl - 8 < 0xFFFFFFFF then fl - 8 else 0xFFFFFFFF)
  let dlen : Int := if dl < 0xFFFFFFFF then dl else 0xFFFFFFFF
  (if b then marker "RIFX" else marker "RIFF") ++ u32 b riffLen ++ marker "WAVE" ++ marker "fmt " ++
    wavFmtChunk b codec nb ch sr ++ wavFact b codec frames ++ wavPeakStart b ch peak pas ++ marker "data" ++ u32 b dlen

theorem wavHeader_eq_ct (h : H) :
    wavHeader h = wavHdr_ct h.big (codecOf h.fmtWord) h.nb h.ch h.sr h.frames h.peak h.peakAtStart h.filelength h.datalength := by
  unfold wavHeader wavHdr_ct wavFmtChunk wavFact wavPeakStart
  cases h.peak <;> rfl

theorem peakChk_length (b : Bool) (ch : Nat) (ps : List Peak) : (peakChk b ch ps).length = 16 + 8 * ps.length := by
  unfold peakChk
  have : ∀ l : List Peak, (l.flatMap fun p => u32 b (wrF32 (Float.f64to32 p.value)) ++ u32 b p.position).length = 8 * l.length := by
    intro l; induction l with
    | nil => rfl
    | cons p l ih => simp [List.flatMap_cons, u32_length_ct, ih]; omega
  simp [u32_length_ct, this]; omega

def wavFmtLen (codec : Nat) : Nat := if codec == 0x10 || codec == 0x11 then 22 else 20

theorem wavFmtChunk_length (b : Bool) (codec nb ch : Nat) (sr : Int) :
    (wavFmtChunk b codec nb ch sr).length = wavFmtLen codec := by
  unfold wavFmtChunk wavFmtLen; split <;> simp [u32_length_ct, u16_length_ct]

theorem wavFact_length (b : Bool) (codec : Nat) (fr : Int) : (wavFact b codec fr).length = if hasFact codec then 12 else 0 := by
  unfold wavFact; split <;> simp [u32_length_ct]

def wavHdrLen_ct (codec ch : Nat) (hasPeak : Bool) : Nat :=
  16 + wavFmtLen codec + (if hasFact codec then 12 else 0) + (if hasPeak then 16 + 8 * ch else 0) + 8

theorem wavHdr_length (b : Bool) (codec nb ch : Nat) (sr frames : Int) (peak : Option (List Peak)) (fl dl : Int)
    (hp : ∀ ps, peak = some ps → ps.length = ch) :
    (wavHdr_ct b codec nb ch sr frames peak true fl dl).length = wavHdrLen_ct codec ch peak.isSome := by
  unfold wavHdr_ct wavHdrLen_ct
  cases peak with
  | none => cases b <;> simp [wavPeakStart, u32_length_ct, wavFmtChunk_length, wavFact_length] <;> omega
  | some ps =>
    have := hp ps rfl
    cases b <;> simp [wavPeakStart, u32_length_ct, wavFmtChunk_length, wavFact_length, peakChk_length, this] <;> omega


/-! ### configuration, abstract state, invariant -/

/-- what `openHandle … .w` fixes for the life of the handle -/
structure Cfg where
  container : Container
  enc : Enc
  big : Bool
  ch : Nat
  sr : Int
  fmtWord : Nat

/-- what a write session accumulates -/
structure Abs where
  frames : Nat                      -- frames accepted so far
  data : List Byte                  -- the encoded audio so far
  peak : Option (List Peak)         -- the PEAK table (WAV float/double)
  auto : Bool                       -- SFC_SET_UPDATE_HEADER_AUTO

def Cfg.bw (c : Cfg) : Nat := c.enc.nbytes * c.ch
def Cfg.hasPeak (c : Cfg) : Bool := c.container == .wav && c.enc.isFloatData
def Cfg.hdrLen (c : Cfg) : Nat :=
  match c.container with
  | .raw => 0 | .au => 24 | .wav => wavHdrLen_ct (codecOf c.fmtWord) c.ch c.hasPeak

/-- the header a `write_header` call produces, given the two length fields it serialises -/
def hdrBytes (c : Cfg) (a : Abs) (fl dl : Int) : List Byte :=
  match c.container with
  | .raw => []
  | .au => auHdr_ct c.big (codecOf c.fmtWord) c.sr c.ch dl
  | .wav => wavHdr_ct c.big (codecOf c.fmtWord) c.enc.nbytes c.ch c.sr a.frames a.peak true fl dl

/-- the invariant of a handle opened for writing, between API calls -/
structure Inv (c : Cfg) (a : Abs) (h : H) (s : Store) : Prop where
  mode : h.mode = .w
  cont : h.container = c.container
  enc : h.enc = c.enc
  big : h.big = c.big
  ch : h.ch = c.ch
  chpos : 0 < c.ch
  sr : h.sr = c.sr
  fmt : h.fmtWord = c.fmtWord
  frames : h.frames = a.frames
  wpos : h.wpos = a.frames
  lastOp : h.lastOp = .w
  auto : h.autoHeader = a.auto
  conv : h.conv = {}
  doff : h.dataoffset = c.hdrLen
  dend : h.dataend = 0
  peak : h.peak = a.peak
  pas : h.peakAtStart = true
  bytes : ∃ hdr, s.bytes = hdr ++ a.data ∧ hdr.length = c.hdrLen
  pos : s.pos = s.bytes.length
  dlen : a.data.length = a.frames * c.bw
  pkSome : a.peak.isSome = c.hasPeak
  pkLen : ∀ ps, a.peak = some ps → ps.length = c.ch

theorem hdrBytes_length (c : Cfg) (a : Abs) (fl dl : Int) (h1 : a.peak.isSome = c.hasPeak)
    (h2 : ∀ ps, a.peak = some ps → ps.length = c.ch) : (hdrBytes c a fl dl).length = c.hdrLen := by
  unfold hdrBytes Cfg.hdrLen
  cases hc : c.container with
  | raw => rfl
  | au => cases hb : c.big <;> simp [auHdr_ct, u32_length_ct]
  | wav => simp only []; rw [wavHdr_length _ _ _ _ _ _ _ _ _ h2, h1]

theorem seekSet_bytes (s : Store) (p : Nat) : (s.seekSet p).bytes = s.bytes := rfl
theorem seekSet_pos (s : Store) (p : Nat) : (s.seekSet p).pos = p := rfl

/-- rewriting the header region of a store and restoring the position -/
theorem hdr_rewrite (s : Store) (hdr data hdr' : List Byte) (hb : s.bytes = hdr ++ data) (hl : hdr'.length = hdr.length)
    (hpos : 0 < hdr'.length) :
    ((s.seekSet 0).write hdr').bytes = hdr' ++ data ∧ ((s.seekSet 0).write hdr').pos = hdr'.length := by
  have hne : hdr'.isEmpty = false := by
    cases hdr' with
    | nil => simp at hpos
    | cons x xs => rfl
  simp [Store.write, Store.seekSet, hne, hb, writeAt_head _ _ _ hl]

/-- `write_header` on a handle in the invariant: the store becomes (fresh header) ++ data, position and all
    session quantities unchanged -/
theorem writeHeader_inv {c : Cfg} {a : Abs} {h : H} {s : Store} (i : Inv c a h s) (cl : Bool) :
    Inv c a (writeHeader h s cl).1 (writeHeader h s cl).2 ∧
    (writeHeader h s cl).2.bytes =
      hdrBytes c a (if cl then (s.bytes.length : Int) else h.filelength) (if cl then (a.data.length : Int) else h.datalength) ++ a.data ∧
    (writeHeader h s cl).1.haveWritten = h.haveWritten := by
  obtain ⟨hdr, hb, hl⟩ := i.bytes
  cases hc : c.container with
  | raw =>
    have e : writeHeader h s cl = (h, s) := by unfold writeHeader; rw [i.cont, hc]
    have hl0 : hdr = [] := by
      have : c.hdrLen = 0 := by simp [Cfg.hdrLen, hc]
      rw [this] at hl; exact List.eq_nil_of_length_eq_zero hl
    rw [e]; refine ⟨i, ?_, rfl⟩
    simp [hdrBytes, hc, hb, hl0]
  | au =>
    have hL : c.hdrLen = 24 := by simp [Cfg.hdrLen, hc]
    have hcont : h.container = .au := by rw [i.cont, hc]
    have hposs : s.pos > 0 := by rw [i.pos, hb]; simp; omega
    -- the header that gets written
    have hdl : (if cl then ((s.bytes.length : Int) - h.dataoffset) else h.datalength) = (if cl then (a.data.length : Int) else h.datalength) := by
      cases cl <;> simp [i.doff, hL, hb, hl]; omega
    let hdr' := auHdr_ct c.big (codecOf c.fmtWord) c.sr c.ch (if cl then (a.data.length : Int) else h.datalength)
    have hlen' : hdr'.length = hdr.length := by
      rw [hl, hL]; show (auHdr_ct _ _ _ _ _).length = 24
      cases hbg : c.big <;> simp [auHdr_ct, u32_length_ct]
    have hst : (writeHeader h s cl).2 = ((s.seekSet 0).write hdr').seekSet s.pos := by
      cases cl <;>
        simp [writeHeader, hcont, hposs, auHeader_eq_ct, i.big, i.fmt, i.sr, i.ch, i.dend, i.doff, hL, hb, hl, hdr',
          show ∀ x : Int, 24 + x - 24 = x from by omega]
    have hw := hdr_rewrite s hdr a.data hdr' hb hlen' (by rw [hlen', hl, hL]; decide)
    refine ⟨?_, ?_, ?_⟩
    · constructor
      case bytes => exact ⟨hdr', by rw [hst]; exact hw.1, by rw [hlen', hl]⟩
      case pos => rw [hst, seekSet_bytes, seekSet_pos, hw.1, i.pos, hb]; simp [hlen']
      all_goals (first | exact i.chpos | exact i.dlen | exact i.pkSome | exact i.pkLen |
        (cases cl <;> simp [writeHeader, hcont, i.mode, i.enc, i.big, i.ch, i.sr, i.fmt, i.frames, i.wpos, i.lastOp, i.auto,
          i.conv, i.dend, i.peak, i.pas, hL, hc]))
    · rw [hst, seekSet_bytes, hw.1]; simp [hdrBytes, hc, hdr']
    · cases cl <;> simp [writeHeader, hcont]
  | wav =>
    have hL : c.hdrLen = wavHdrLen_ct (codecOf c.fmtWord) c.ch c.hasPeak := by simp [Cfg.hdrLen, hc]
    have hcont : h.container = .wav := by rw [i.cont, hc]
    have hdl : (a.data.length : Int) = (a.frames : Int) * c.enc.nbytes * c.ch := by
      rw [i.dlen, Cfg.bw]; simp [Int.mul_assoc]
    let hdr' := wavHdr_ct c.big (codecOf c.fmtWord) c.enc.nbytes c.ch c.sr a.frames a.peak true
      (if cl then (s.bytes.length : Int) else h.filelength) (if cl then (a.data.length : Int) else h.datalength)
    have hlen'' : hdr'.length = c.hdrLen := by
      rw [hL, ← i.pkSome]; exact wavHdr_length _ _ _ _ _ _ _ _ _ i.pkLen
    have hlen' : hdr'.length = hdr.length := by rw [hl, hlen'']
    have hpos' : 0 < hdr'.length := by rw [hlen'', hL]; unfold wavHdrLen_ct; omega
    have hw := hdr_rewrite s hdr a.data hdr' hb hlen' hpos'
    have hbytes : (writeHeader h s cl).2.bytes = hdr' ++ a.data := by
      rw [← hw.1]
      cases cl <;>
        simp [writeHeader, hcont, wavHeader_eq_ct, i.big, i.fmt, i.sr, i.ch, i.dend, i.frames, i.peak, i.pas, H.nb, i.enc, hdr', hdl] <;>
        (repeat' split) <;> rfl
    have hgen : ∀ fl dl : Int, (wavHdr_ct c.big (codecOf c.fmtWord) c.enc.nbytes c.ch c.sr a.frames a.peak true fl dl).length = c.hdrLen := by
      intro fl dl; rw [hL, ← i.pkSome]; exact wavHdr_length _ _ _ _ _ _ _ _ _ i.pkLen
    have hpos : (writeHeader h s cl).2.pos = s.pos := by
      have h1 : s.pos = hdr.length + a.data.length := by rw [i.pos, hb]; simp
      have h2 := i.doff
      cases cl <;>
        simp [writeHeader, hcont, wavHeader_eq_ct, i.big, i.fmt, i.sr, i.ch, i.dend, i.frames, i.peak, i.pas, H.nb, i.enc, hdl] <;>
        (repeat' split) <;> (try simp [seekSet_pos]) <;> (try rw [hgen]) <;> omega
    refine ⟨?_, ?_, ?_⟩
    · constructor
      case bytes => exact ⟨hdr', hbytes, hlen''⟩
      case pos => rw [hpos, hbytes, i.pos, hb]; simp [hlen']
      case doff => cases cl <;> simp [writeHeader, hcont, wavHeader_eq_ct, i.big, i.fmt, i.sr, i.ch, i.dend, i.frames, i.peak, i.pas, H.nb, i.enc, hgen]
      all_goals (first | exact i.chpos | exact i.dlen | exact i.pkSome | exact i.pkLen |
        (cases cl <;> simp [writeHeader, hcont, i.mode, i.enc, i.big, i.ch, i.sr, i.fmt, i.frames, i.wpos, i.lastOp, i.auto,
          i.conv, i.dend, i.peak, i.pas, hc]))
    · rw [hbytes]; simp [hdrBytes, hc, hdr']
    · cases cl <;> simp [writeHeader, hcont]

/-! ### one write call -/

structure WCall where
  ty : Ty
  frameCall : Bool
  n : Int
  data : List Int

/-- items the call transfers -/
def WCall.items (w : WCall) (ch : Nat) : Nat := (if w.frameCall then w.n * ch else w.n).toNat
/-- frames the call transfers -/
def WCall.frames (w : WCall) (ch : Nat) : Nat := w.items ch / ch
/-- a call the API accepts: non-negative count, whole frames, and the caller's buffer holds the items -/
def WCall.valid (w : WCall) (ch : Nat) : Prop :=
  0 ≤ w.n ∧ (w.frameCall = false → w.n % ch = 0) ∧ w.items ch ≤ w.data.length

/-- the part of `sf_write_*` after the guards and the first-write header: PEAK bookkeeping, the codec write,
    position and frame count -/
def writeBody (h : H) (s : Store) (ty : Ty) (len : Int) (data : List Int) : H × Store :=
  let vals := data.take len.toNat
  let peak := peakUpdate h ty vals
  let s := s.write (h.enc.encodeAll h.conv ty vals)
  let wpos := h.wpos + len / h.ch
  let h := { h with wpos := wpos, lastOp := .w, peak := peak }
  let h := if wpos > h.frames then { h with frames := wpos, dataend := 0 } else h
  (h, s)

/-- the header written by the first write call -/
def firstHdr (h : H) (s : Store) : H × Store :=
  if !h.haveWritten ∧ h.container != .raw then writeHeader h s false else (h, s)

/-- the header rewritten after a write call in auto-update mode -/
def autoHdr (h : H) (s : Store) : H × Store :=
  if h.autoHeader ∧ h.container != .raw then writeHeader h s true else (h, s)

def writeCore (h : H) (s : Store) (ty : Ty) (fc : Bool) (n : Int) (data : List Int) : H × Store :=
  let len : Int := if fc then n * h.ch else n
  let hs1 := firstHdr { h with error := 0 } s
  let hs2 := writeBody { hs1.1 with haveWritten := true } hs1.2 ty len data
  autoHdr hs2.1 hs2.2

theorem stepWrite_eq (h : H) (s : Store) (ty : Ty) (fc : Bool) (n : Int) (data : List Int)
    (hn : 0 < n) (hm : h.mode = .w) (hl : h.lastOp = .w) (hal : fc = false → n % h.ch = 0) :
    ((stepWrite h s ty fc n data).1, (stepWrite h s ty fc n data).2.1) = writeCore h s ty fc n data := by
  have hn0 : (n == 0) = false := by simp; omega
  have hn1 : ¬ n < 0 := by omega
  unfold stepWrite writeCore writeBody firstHdr autoHdr
  cases fc
  · have := hal rfl
    simp [hn0, hn1, hm, hl, this]
  · simp [hn0, hn1, hm, hl]

/-! ### PEAK bookkeeping: depends on five fields only, keeps the table's shape -/

theorem peakUpdate_congr (h h' : H) (ty : Ty) (vals : List Int) (h1 : h.peak = h'.peak) (h2 : h.enc = h'.enc)
    (h3 : h.conv = h'.conv) (h4 : h.ch = h'.ch) (h5 : h.wpos = h'.wpos) :
    peakUpdate h ty vals = peakUpdate h' ty vals := by
  unfold peakUpdate; simp only [h1, h2, h3, h4, h5]

theorem peakChunkUpdate_length_ct (f : Float.Fmt) (ch : Nat) (w i : Int) (vals : List Nat) (ps : List Peak) :
    (peakChunkUpdate f ch w i vals ps).length = ch := by
  simp [peakChunkUpdate]

theorem peakFold_length (f : Float.Fmt) (ch : Nat) (w : Int) (cs : List (List Nat)) (acc : List Peak × Nat)
    (h : acc.1.length = ch) :
    (cs.foldl (fun (acc : List Peak × Nat) c =>
        (peakChunkUpdate f ch w ((acc.2 / ch : Nat) : Int) c acc.1, acc.2 + c.length)) acc).1.length = ch := by
  induction cs generalizing acc with
  | nil => exact h
  | cons c cs ih => exact ih _ (peakChunkUpdate_length_ct _ _ _ _ _ _)

theorem peakUpdate_isSome (h : H) (ty : Ty) (vals : List Int) : (peakUpdate h ty vals).isSome = h.peak.isSome := by
  unfold peakUpdate; cases h.peak <;> simp

theorem peakUpdate_length (h : H) (ty : Ty) (vals : List Int) (hp : ∀ ps, h.peak = some ps → ps.length = h.ch) :
    ∀ ps, peakUpdate h ty vals = some ps → ps.length = h.ch := by
  intro ps'
  unfold peakUpdate
  cases hpk : h.peak with
  | none => simp
  | some ps =>
    simp only [Option.some.injEq]
    intro e; rw [← e]
    exact peakFold_length _ _ _ _ _ (hp ps hpk)

end Sf
