/-
  The header cache reading a well-formed file: fields read back from a prefix-relative position
  ("zipper" lemmas for the parser theorems of CAF / W64 / WAVEX / RF64).
-/
import SfModel.HdrRead
import SfProofs.Bytes
namespace Sf.HdrRd
open Sf

/-- a reader that has consumed exactly `k` bytes without a short read and holds `e` bytes in the cache -/
def Rd.mk3 (k e : Nat) : Rd := ⟨k, e, false⟩

theorem slice_mid (pre fld rest : List Byte) : ((pre ++ (fld ++ rest)).drop pre.length).take fld.length = fld := by simp

theorem rdN_mid (pre fld rest : List Byte) (e : Nat) :
    rdN (pre ++ (fld ++ rest)) ⟨pre.length, e, false⟩ fld.length =
      (some fld, fld.length, ⟨pre.length + fld.length, max e (pre.length + fld.length), false⟩) := by
  unfold rdN
  by_cases h : pre.length + fld.length ≤ e
  · simp only [h, if_true, slice_mid]
    have : max e (pre.length + fld.length) = e := by omega
    rw [this]
  · have h2 : (!false) = true ∧ pre.length + fld.length ≤ (pre ++ (fld ++ rest)).length := by simp
    have : max e (pre.length + fld.length) = pre.length + fld.length := by omega
    rw [this]
    simp [h]

theorem rdN_at {bs pre fld rest : List Byte} {e n : Nat} (hb : bs = pre ++ (fld ++ rest)) (hn : n = fld.length) :
    rdN bs ⟨pre.length, e, false⟩ n = (some fld, n, ⟨pre.length + n, max e (pre.length + n), false⟩) := by
  subst hb; subst hn; exact rdN_mid pre fld rest e

theorem rdRaw_at {bs pre fld rest : List Byte} {e n : Nat} (hb : bs = pre ++ (fld ++ rest)) (hn : n = fld.length) :
    rdRaw bs ⟨pre.length, e, false⟩ n = (fld, ⟨pre.length + n, max e (pre.length + n), false⟩) := by
  unfold rdRaw; rw [rdN_at hb hn]

theorem rdBE_at {bs pre fld rest : List Byte} {e n : Nat} (hb : bs = pre ++ (fld ++ rest)) (hn : n = fld.length) :
    rdBE bs ⟨pre.length, e, false⟩ n = (ofBE fld, ⟨pre.length + n, max e (pre.length + n), false⟩) := by
  unfold rdBE; rw [rdN_at hb hn]

theorem rdLE_at {bs pre fld rest : List Byte} {e n : Nat} (hb : bs = pre ++ (fld ++ rest)) (hn : n = fld.length) :
    rdLE bs ⟨pre.length, e, false⟩ n = (ofLE fld, ⟨pre.length + n, max e (pre.length + n), false⟩) := by
  unfold rdLE; rw [rdN_at hb hn]

/-- consecutive fields -/
theorem rdSeq_mid (flds : List (List Byte)) : ∀ (pre rest : List Byte) (e : Nat), pre.length ≤ e →
    rdSeq (pre ++ (flds.flatten ++ rest)) (flds.map List.length) ⟨pre.length, e, false⟩ =
      (flds, ⟨pre.length + flds.flatten.length, max e (pre.length + flds.flatten.length), false⟩) := by
  induction flds with
  | nil => intro pre rest e he; simp [rdSeq]; omega
  | cons f fs ih =>
    intro pre rest e he
    have hb : pre ++ ((f :: fs).flatten ++ rest) = pre ++ (f ++ (fs.flatten ++ rest)) := by simp
    have hb2 : pre ++ ((f :: fs).flatten ++ rest) = (pre ++ f) ++ (fs.flatten ++ rest) := by simp
    simp only [List.map_cons, rdSeq]
    rw [rdRaw_at hb rfl]
    simp only
    have hl : pre.length + f.length = (pre ++ f).length := by simp
    rw [hl, hb2, ih (pre ++ f) rest (max e (pre ++ f).length) (by omega)]
    simp only [List.length_append, List.flatten_cons, Prod.mk.injEq, true_and, Rd.mk.injEq, and_true]
    constructor <;> omega

theorem rdSeq_at {bs pre rest : List Byte} (flds : List (List Byte)) {ns : List Nat} {e : Nat}
    (hb : bs = pre ++ (flds.flatten ++ rest)) (hn : ns = flds.map List.length) (he : pre.length ≤ e) :
    rdSeq bs ns ⟨pre.length, e, false⟩ = (flds, ⟨pre.length + flds.flatten.length, max e (pre.length + flds.flatten.length), false⟩) := by
  subst hb; subst hn; exact rdSeq_mid flds pre rest e he

/-- a forward skip that stays inside the file -/
theorem skip_fwd (bs : List Byte) (k e p : Nat) (h : k + p ≤ bs.length) (he : e ≤ bs.length) :
    skip bs ⟨k, e, false⟩ (p : Int) = ⟨k + p, max e (k + p), false⟩ := by
  unfold skip
  have h0 : ¬ ((p : Int) < 0) := by omega
  simp only [h0, if_false, Int.toNat_natCast]
  by_cases h1 : k + p ≤ e
  · simp only [h1, if_true]
    have : max e (k + p) = e := by omega
    rw [this]
  · simp only [h1, if_false, Bool.false_eq_true]
    have : min (k + p - e) (bs.length - e) = k + p - e := by omega
    rw [this]
    have h2 : e + (k + p - e) = k + p := by omega
    have h3 : max e (k + p) = k + p := by omega
    rw [h2, h3]

theorem ftell_ok (bs : List Byte) (k e : Nat) : ftell bs ⟨k, e, false⟩ = e := by simp [ftell]

end Sf.HdrRd
