/-
  Accumulations of the GSM 06.10 ENCODER in `int32_t` (`longword`): helper lemmas showing that a fold
  `acc = (int32) (acc + p)` is the exact sum as long as the bounds of the terms fit, that a product of two values below 2^12
  survives the `float` detour of the USE_FLOAT_MUL build unchanged, and `maxAbs`.  For SfProps/C07GsmEncSums.lean.
-/
import SfProofs.GsmSpec
import SfProofs.GsmTwin
namespace Sf.Gsm.EncSums
open Sf Sf.Gsm Sf.Gsm.Proofs Sf.Gsm.Spec

theorem w32_id (x : Int) (h : -2147483648 ≤ x ∧ x ≤ 2147483647) : w32 x = x := by
  unfold w32 wrapS
  have e : (2 : Int) ^ 32 = 4294967296 := by norm_num
  simp only [e]
  by_cases hx : 0 ≤ x
  · have : x % 4294967296 = x := Int.emod_eq_of_lt hx (by omega)
    rw [this]; split <;> omega
  · have : x % 4294967296 = x + 4294967296 := by
      have := Int.emod_eq_of_lt (show 0 ≤ x + 4294967296 by omega) (show x + 4294967296 < 4294967296 by omega)
      rw [← this, Int.add_emod_right]
    rw [this]; split <;> omega

/-- **the wrapping accumulation is the exact sum** while `A + n · M` fits an `int32_t`; the sum stays within `A + n · M` -/
theorem foldl_w32_exact (M : Int) (hM : 0 ≤ M) : ∀ (l : List Int) (acc A : Int), (∀ p ∈ l, -M ≤ p ∧ p ≤ M) → -A ≤ acc ∧ acc ≤ A →
    A + (l.length : Int) * M ≤ 2147483647 →
    l.foldl (fun a p => w32 (a + p)) acc = l.foldl (· + ·) acc ∧
    -(A + (l.length : Int) * M) ≤ l.foldl (· + ·) acc ∧ l.foldl (· + ·) acc ≤ A + (l.length : Int) * M := by
  intro l
  induction l with
  | nil =>
    intro acc A _ ha _
    simp only [List.foldl_nil, List.length_nil, Nat.cast_zero, zero_mul, add_zero]
    exact ⟨trivial, by omega, by omega⟩
  | cons p ps ih =>
    intro acc A hp ha hfit
    have hp0 := hp p (by simp)
    have hlen : ((p :: ps).length : Int) * M = (ps.length : Int) * M + M := by
      rw [List.length_cons]; push_cast; ring
    rw [hlen] at hfit ⊢
    have hnn : 0 ≤ (ps.length : Int) * M := mul_nonneg (by positivity) hM
    simp only [List.foldl_cons]
    rw [w32_id (acc + p) (by omega)]
    obtain ⟨i1, i2, i3⟩ := ih (acc + p) (A + M) (fun q hq => hp q (by simp [hq])) (by omega) (by omega)
    exact ⟨i1, by omega, by omega⟩

/-- the same with a fixed coefficient list: terms `a · h`, |a| ≤ 32768, the bound is 32768 · Σ |h| -/
theorem foldl_w32_weighted : ∀ (hs as : List Int) (acc A : Int), (∀ a ∈ as, -32768 ≤ a ∧ a ≤ 32768) → -A ≤ acc ∧ acc ≤ A →
    A + 32768 * ((hs.map fun h => (h.natAbs : Int)).sum) ≤ 2147483647 →
    (List.zipWith (· * ·) as hs).foldl (fun a p => w32 (a + p)) acc = (List.zipWith (· * ·) as hs).foldl (· + ·) acc ∧
    -(A + 32768 * ((hs.map fun h => (h.natAbs : Int)).sum)) ≤ (List.zipWith (· * ·) as hs).foldl (· + ·) acc ∧
    (List.zipWith (· * ·) as hs).foldl (· + ·) acc ≤ A + 32768 * ((hs.map fun h => (h.natAbs : Int)).sum) := by
  intro hs
  induction hs with
  | nil =>
    intro as acc A _ ha _
    simp only [List.zipWith_nil_right, List.foldl_nil, List.map_nil, List.sum_nil, mul_zero, add_zero]
    exact ⟨trivial, by omega, by omega⟩
  | cons h hs ih =>
    intro as acc A hb ha hfit
    have hsn : 0 ≤ ((hs.map fun h => (h.natAbs : Int)).sum) := List.sum_nonneg (by
      intro x hx; obtain ⟨y, _, rfl⟩ := List.mem_map.mp hx; positivity)
    simp only [List.map_cons, List.sum_cons] at hfit ⊢
    cases as with
    | nil =>
      simp only [List.zipWith_nil_left, List.foldl_nil]
      have : (0 : Int) ≤ (h.natAbs : Int) := by positivity
      refine ⟨trivial, by nlinarith, by nlinarith⟩
    | cons a as =>
      have ha0 := hb a (by simp)
      have habs : -(32768 * (h.natAbs : Int)) ≤ a * h ∧ a * h ≤ 32768 * (h.natAbs : Int) := by
        rcases Int.natAbs_eq h with e | e
        · rw [← e]
          have : 0 ≤ h := by omega
          constructor <;> nlinarith
        · have : h ≤ 0 := by omega
          have e2 : (h.natAbs : Int) = -h := by omega
          rw [e2]
          constructor <;> nlinarith
      simp only [List.zipWith_cons_cons, List.foldl_cons]
      rw [w32_id (acc + a * h) (by omega)]
      obtain ⟨i1, i2, i3⟩ := ih as (acc + a * h) (A + 32768 * (h.natAbs : Int)) (fun q hq => hb q (by simp [hq])) (by omega) (by omega)
      exact ⟨i1, by omega, by omega⟩

/-! ## the `float` detour of USE_FLOAT_MUL -/

theorem bitlen_le_24 (n : Nat) (h : n < 2 ^ 24) : bitlen n ≤ 24 := by
  by_cases h0 : n = 0
  · subst h0; decide
  · obtain ⟨_, i2, _⟩ := bitlen_spec n (by omega) (Nat.lt_of_lt_of_le h (by decide))
    by_contra hc
    have : 2 ^ 24 ≤ 2 ^ (bitlen n - 1) := Nat.pow_le_pow_right (by decide) (by omega)
    omega

/-- an integer below 2^24 in magnitude is a binary32 value: the `(float)` conversion and back is the identity -/
theorem f32r_exact (x : Int) (h : x.natAbs < 2 ^ 24) : f32r x = x := by
  unfold f32r
  simp only [bitlen_le_24 _ h, if_true]

theorem prod_2048 (a b : Int) (ha : -2048 ≤ a ∧ a ≤ 2048) (hb : -2048 ≤ b ∧ b ≤ 2048) : -4194304 ≤ a * b ∧ a * b ≤ 4194304 := by
  constructor
  · nlinarith [mul_nonneg (show (0 : Int) ≤ a + 2048 by omega) (show (0 : Int) ≤ 2048 - b by omega),
      mul_nonneg (show (0 : Int) ≤ 2048 - a by omega) (show (0 : Int) ≤ b + 2048 by omega)]
  · nlinarith [mul_nonneg (show (0 : Int) ≤ a + 2048 by omega) (show (0 : Int) ≤ b + 2048 by omega),
      mul_nonneg (show (0 : Int) ≤ 2048 - a by omega) (show (0 : Int) ≤ 2048 - b by omega)]

theorem sq_bound (t B : Int) (h : -B ≤ t ∧ t ≤ B) : 0 ≤ t * t ∧ t * t ≤ B * B := by
  constructor
  · exact mul_self_nonneg t
  · nlinarith [mul_nonneg (show (0 : Int) ≤ B - t by omega) (show (0 : Int) ≤ B + t by omega)]

theorem mem_zipWith {α β γ : Type} (f : α → β → γ) : ∀ (l1 : List α) (l2 : List β) (c : γ), c ∈ List.zipWith f l1 l2 →
    ∃ a ∈ l1, ∃ b ∈ l2, c = f a b := by
  intro l1
  induction l1 with
  | nil => intro l2 c h; simp at h
  | cons a as ih =>
    intro l2 c h
    cases l2 with
    | nil => simp at h
    | cons b bs =>
      simp only [List.zipWith_cons_cons, List.mem_cons] at h
      rcases h with rfl | h
      · exact ⟨a, by simp, b, by simp, rfl⟩
      · obtain ⟨x, hx, y, hy, e⟩ := ih bs c h
        exact ⟨x, by simp [hx], y, by simp [hy], e⟩

/-! ## maxAbs -/

theorem gabs_range (x : Int) (h : W16 x) : 0 ≤ gabs x ∧ gabs x ≤ 32767 := by
  unfold W16 at h; unfold gabs; split <;> (try split) <;> omega

theorem foldl_max_spec : ∀ (l : List Int) (m : Int), 0 ≤ m → m ≤ 32767 → AllW16 l →
    m ≤ l.foldl (fun m x => if gabs x > m then gabs x else m) m ∧ l.foldl (fun m x => if gabs x > m then gabs x else m) m ≤ 32767 ∧
    ∀ x ∈ l, gabs x ≤ l.foldl (fun m x => if gabs x > m then gabs x else m) m := by
  intro l
  induction l with
  | nil => intro m h0 h1 _; exact ⟨Int.le_refl _, h1, by intro x hx; cases hx⟩
  | cons y ys ih =>
    intro m h0 h1 hw
    have hy := gabs_range y (hw y (by simp))
    simp only [List.foldl_cons]
    have hws : AllW16 ys := fun x hx => hw x (by simp [hx])
    by_cases hg : gabs y > m
    · simp only [hg, if_true]
      obtain ⟨a, b, c⟩ := ih (gabs y) hy.1 hy.2 hws
      refine ⟨by omega, b, ?_⟩
      intro x hx
      rcases List.mem_cons.mp hx with rfl | hx
      · exact a
      · exact c x hx
    · simp only [hg, if_false]
      obtain ⟨a, b, c⟩ := ih m h0 h1 hws
      refine ⟨a, b, ?_⟩
      intro x hx
      rcases List.mem_cons.mp hx with rfl | hx
      · omega
      · exact c x hx

theorem maxAbs_spec (l : List Int) (hw : AllW16 l) : 0 ≤ maxAbs l ∧ maxAbs l ≤ 32767 ∧ ∀ x ∈ l, gabs x ≤ maxAbs l := by
  obtain ⟨a, b, c⟩ := foldl_max_spec l 0 (by omega) (by omega) hw
  exact ⟨a, b, c⟩

/-- what `gabs x ≤ m` says about x itself -/
theorem of_gabs_le (x m : Int) (h : W16 x) (hg : gabs x ≤ m) : -(m + 1) ≤ x ∧ x ≤ m := by
  unfold W16 at h
  unfold gabs at hg
  split at hg
  · omega
  · split at hg <;> omega

end Sf.Gsm.EncSums
