/-
  SfProofs.HandleGRefine — the RAW / AU / WAV instances of the generic handle machine reproduce `Sf.Handle`:
  `rawSpec`, `auSpec`, `wavSpec` (SfModel/HandleGInst.lean, built from the header writers through `Spec.toCont`) give the very
  `writeHeader`, `closeHandle`, `stepWrite`, `stepCmdFlag`, `stepAny`, `runOps` of SfModel/Handle.lean on every handle that
  carries the container's tag; the law records of all instances.
-/
import SfProofs.HandleGInv
namespace Sf.HandleG
open Sf

/-- the instance of a container of `Sf.Handle` -/
def classic : Container → Spec
  | .raw => rawSpec | .au => auSpec | .wav => wavSpec

theorem classic_tag (k : Container) : (classic k).tag = k := by cases k <;> rfl
theorem classic_hasHeader (k : Container) : (classic k).hasHeader = (k != .raw) := by cases k <;> rfl

/-! ## write_header -/

theorem raw_writeHeader (h : H) (s : Store) (b : Bool) (hc : h.container = .raw) :
    rawSpec.writeHeader h s b = Sf.writeHeader h s b := by
  simp [Spec.writeHeader, rawSpec, Sf.writeHeader, hc]

theorem au_writeHeader (h : H) (s : Store) (b : Bool) (hc : h.container = .au) :
    auSpec.writeHeader h s b = Sf.writeHeader h s b := by
  cases b <;> simp [Spec.writeHeader, auSpec, Sf.writeHeader, hc, restoreCur, calcStd]

theorem wav_writeHeader (h : H) (s : Store) (b : Bool) (hc : h.container = .wav) :
    wavSpec.writeHeader h s b = Sf.writeHeader h s b := by
  cases b <;> simp [Spec.writeHeader, wavSpec, Sf.writeHeader, hc, restoreHasData, wavCalc]

theorem classic_writeHeader (k : Container) (h : H) (s : Store) (b : Bool) (hc : h.container = k) :
    (classic k).writeHeader h s b = Sf.writeHeader h s b := by
  cases k
  · exact raw_writeHeader h s b hc
  · exact au_writeHeader h s b hc
  · exact wav_writeHeader h s b hc

/-- `Sf.writeHeader` keeps the container tag -/
theorem writeHeader_container (h : H) (s : Store) (b : Bool) : (Sf.writeHeader h s b).1.container = h.container := by
  obtain ⟨fl, dl, off, e, _⟩ := writeHeader_fst h s b
  rw [e]

/-! ## close -/

theorem closeHandle_wav (h : H) (s : Store) (hc : h.container = .wav) (hm : h.mode ≠ .r) :
    Sf.closeHandle h s = (Sf.writeHeader (wavCloseTail h s).1 (wavCloseTail h s).2 true).2 := by
  unfold Sf.closeHandle wavCloseTail
  simp only [beq_iff_eq, hm, if_false, hc]

theorem wavTailer_container (h : H) (s : Store) : (wavTailer h s).1.container = h.container := by
  unfold wavTailer
  dsimp only
  split <;> rfl

theorem wavCloseTail_container (h : H) (s : Store) : (wavCloseTail h s).1.container = h.container := by
  have e := wavTailer_container h s
  unfold wavCloseTail
  generalize wavTailer h s = q at e
  obtain ⟨h', s'⟩ := q
  dsimp only at e ⊢
  split
  · split
    · exact e
    · exact e
  · exact e

/-- a guarded header rewrite at the instance = the guarded header rewrite of `Sf.Handle` -/
theorem cond_wh (k : Container) (p : Prop) [Decidable p] (h : H) (s : Store) (b : Bool) (hc : h.container = k) :
    (if p ∧ (classic k).toCont.hasHeader then (classic k).toCont.writeHeader h s b else (h, s)) =
    (if p ∧ h.container != .raw then Sf.writeHeader h s b else (h, s)) := by
  subst hc
  simp only [Spec.toCont, classic_hasHeader]
  split
  · exact classic_writeHeader _ _ _ _ rfl
  · rfl

theorem classic_closeStore (k : Container) (h : H) (s : Store) (hc : h.container = k) :
    (classic k).closeStore h s = Sf.closeHandle h s := by
  subst hc
  by_cases hm : h.mode = .r
  · simp [Spec.closeStore, Sf.closeHandle, hm]
  cases hk : h.container
  · simp [Spec.closeStore, classic, rawSpec, Sf.closeHandle, hk, hm]
  · have e := au_writeHeader h s true hk
    simp only [Spec.closeStore, Sf.closeHandle, classic, hk, beq_iff_eq, hm, if_false]
    rw [← e]
    simp [auSpec]
  · rw [closeHandle_wav h s hk hm, ← wav_writeHeader _ _ true (by rw [wavCloseTail_container, hk])]
    simp only [Spec.closeStore, classic, beq_iff_eq, hm, if_false]
    have e1 : wavSpec.hasHeader = true := rfl
    have e2 : wavSpec.closeHdr = true := rfl
    have e3 : wavSpec.tailer = wavCloseTail := rfl
    simp only [e1, e2, e3, Bool.not_true, Bool.false_eq_true, if_false, if_true]

/-! ## write -/

theorem wPre_classic (k : Container) (h : H) (s : Store) (hc : h.container = k) :
    wPre (classic k).toCont h s = Sf.wPre h s := by
  unfold wPre Sf.wPre
  exact cond_wh k _ { h with error := 0 } _ false hc

theorem wPre_container (h : H) (s : Store) : (Sf.wPre h s).1.container = h.container := by
  obtain ⟨fl, dl, off, e, _⟩ := Sf.wPre_fields h s
  rw [e]

theorem wPostBody_classic (k : Container) (p : H × Store) (ty : Ty) (len : Int) (data : List Int) (hp : p.1.container = k) :
    wPost (classic k).toCont (wBody p ty len data) = Sf.wCore p ty len data := by
  unfold wPost wBody Sf.wCore
  by_cases hx : p.1.wpos + len / p.1.ch > p.1.frames
  · simp only [hx, if_true]
    exact cond_wh k _ _ _ true hp
  · simp only [hx, if_false]
    exact cond_wh k _ _ _ true hp

theorem wAll_classic (k : Container) (h : H) (s : Store) (ty : Ty) (len : Int) (data : List Int) (hc : h.container = k) :
    wAll (classic k).toCont h s ty len data = Sf.wCore (Sf.wPre h s) ty len data := by
  unfold wAll
  rw [wPre_classic k h s hc]
  have hp : (Sf.wPre h s).1.container = k := by rw [wPre_container, hc]
  exact wPostBody_classic k _ ty len data hp

/-- THE REFINEMENT, write calls: the generic `stepWrite` at the RAW / AU / WAV instance is `Sf.stepWrite` -/
theorem stepWrite_classic (k : Container) (h : H) (s : Store) (ty : Ty) (fc : Bool) (n : Int) (data : List Int)
    (hc : h.container = k) :
    stepWrite (classic k).toCont h s ty fc n data = Sf.stepWrite h s ty fc n data := by
  by_cases h0 : n = 0
  · subst h0; rw [stepWrite_zero, Sf.stepWrite_zero]
  by_cases hneg : n < 0
  · rw [stepWrite_neg _ _ _ _ _ _ _ hneg, Sf.stepWrite_neg _ _ _ _ _ _ hneg]
  have hn : 0 < n := by omega
  by_cases hr : h.mode = .r
  · rw [stepWrite_rmode _ _ _ _ _ _ _ hn hr, Sf.stepWrite_rmode _ _ _ _ _ _ hn hr]
  by_cases ha : fc = true ∨ n % (h.ch : Int) = 0
  · rw [stepWrite_main _ h s ty fc n data hn hr ha, Sf.stepWrite_main h s ty fc n data hn hr ha, wAll_classic k h s ty _ data hc]
  · obtain ⟨hf, hna⟩ := not_aligned_of fc n h.ch ha
    subst hf
    rw [stepWrite_align _ _ _ _ _ _ hn hr hna, Sf.stepWrite_align _ _ _ _ _ hn hr hna]

/-! ## commands, every operation -/

theorem stepCmdFlag_classic (k : Container) (h : H) (s : Store) (cmd : Nat) (size : Int) (hc : h.container = k) :
    stepCmdFlag (classic k).toCont h s cmd size = Sf.stepCmdFlag h s cmd size := by
  have e := cond_wh k ((({ h with error := 0 } : H).mode != .r) = true) { h with error := 0 } s true hc
  unfold stepCmdFlag Sf.stepCmdFlag
  dsimp only at e ⊢
  split
  all_goals first
    | rfl
    | (rw [e]; rfl)
    | (split <;> first | rfl | simp_all)

/-- THE REFINEMENT, one operation -/
theorem stepAny_classic (k : Container) (h : H) (s : Store) (op : Op) (hc : h.container = k) :
    stepAny (classic k).toCont h s op = Sf.stepAny h s op := by
  cases op with
  | read _ ty fc n => rfl
  | write _ ty fc n data => exact stepWrite_classic k h s ty fc n data hc
  | seek _ off whence => rfl
  | cmdFlag _ cmd size => exact stepCmdFlag_classic k h s cmd size hc
  | truncate _ f => rfl
  | close _ =>
    show (h, (classic k).closeStore h s, ({} : Out)) = (h, Sf.closeHandle h s, {})
    rw [classic_closeStore k h s hc]

theorem seekMoveH_container (h : H) (wm t : Int) : (seekMoveH h wm t).container = h.container := by
  unfold seekMoveH
  dsimp only
  repeat' split
  all_goals rfl

theorem seekSpec_container (h : H) (s : Store) (off whence : Int) : (seekSpec h s off whence).1.container = h.container := by
  unfold seekSpec seekFail seekTell
  repeat' split
  all_goals first | rfl | exact seekMoveH_container _ _ _

/-- every step of `Sf.Handle` keeps the container tag -/
theorem stepAny_container (h : H) (s : Store) (op : Op) : (Sf.stepAny h s op).1.container = h.container := by
  cases op with
  | read _ ty fc n =>
    show (Sf.stepRead h s ty fc n).1.container = _
    unfold Sf.stepRead
    simp only
    repeat' split
    all_goals rfl
  | write _ ty fc n data =>
    show (Sf.stepWrite h s ty fc n data).1.container = _
    by_cases h0 : n = 0
    · subst h0; rw [Sf.stepWrite_zero]
    by_cases hneg : n < 0
    · rw [Sf.stepWrite_neg _ _ _ _ _ _ hneg]
    have hn : 0 < n := by omega
    by_cases hr : h.mode = .r
    · rw [Sf.stepWrite_rmode _ _ _ _ _ _ hn hr]
    by_cases ha : fc = true ∨ n % (h.ch : Int) = 0
    · obtain ⟨fl, dl, off, de, pk, e, _, _⟩ := Sf.stepWrite_fields h s ty fc n data hn hr ha
      rw [e]
    · obtain ⟨hf, hna⟩ := not_aligned_of fc n h.ch ha
      subst hf
      rw [Sf.stepWrite_align _ _ _ _ _ hn hr hna]
  | seek _ off whence =>
    show (Sf.stepSeek h s off whence).1.container = _
    rw [stepSeek_eq_spec]
    exact seekSpec_container h s off whence
  | cmdFlag _ cmd size =>
    obtain ⟨cv, ah, ⟨fl, dl, off, e, _⟩, _, _⟩ := Sf.stepCmdFlag_fields h s cmd size
    show (Sf.stepCmdFlag h s cmd size).1.container = _
    rw [e]
  | truncate _ f =>
    show (Sf.stepTruncate h s f).1.container = _
    unfold Sf.stepTruncate
    simp only [stepSeek_eq_spec]
    have e := seekSpec_container { h with error := 0 } s f 0
    repeat' split
    all_goals first | rfl | exact e
  | close _ => rfl

/-- THE REFINEMENT, every history: `handleG_refines_handle` -/
theorem handleG_refines_handle (k : Container) (ops : List Op) :
    ∀ (h : H) (s : Store), h.container = k → runOps (classic k).toCont h s ops = Sf.runOps h s ops := by
  induction ops with
  | nil => intro h s _; rfl
  | cons op ops ih =>
    intro h s hc
    show runOps _ (stepAny _ h s op).1 (stepAny _ h s op).2.1 ops = Sf.runOps (Sf.stepAny h s op).1 (Sf.stepAny h s op).2.1 ops
    rw [stepAny_classic k h s op hc]
    exact ih _ _ (by rw [stepAny_container, hc])

/-! ## the law records of the instances -/

theorem calcStd_law (b : Bool) (h : H) (fl : Int) :
    ∃ f d o fr, calcStd b h fl = { h with filelength := f, datalength := d, dataoffset := o, frames := fr } ∧
      (0 ≤ h.dataoffset → 0 ≤ o) := by
  unfold calcStd
  cases b
  · exact ⟨_, _, h.dataoffset, h.frames, rfl, id⟩
  · exact ⟨_, _, h.dataoffset, _, rfl, id⟩

theorem id_law (h : H) (_fl : Int) :
    ∃ f d o fr, h = { h with filelength := f, datalength := d, dataoffset := o, frames := fr } ∧ (0 ≤ h.dataoffset → 0 ≤ o) :=
  ⟨h.filelength, h.datalength, h.dataoffset, h.frames, rfl, id⟩

theorem off_len (h : H) (n : Nat) (_h0 : 0 ≤ h.dataoffset) : (0 : Int) ≤ ((fun (_ : H) (n : Nat) => (n : Int)) h n) :=
  Int.natCast_nonneg n

theorem rawLaws : SpecLaws rawSpec := ⟨id_law, off_len⟩
theorem auLaws : SpecLaws auSpec := ⟨calcStd_law false, fun _ _ _ => by show (0 : Int) ≤ 24; omega⟩
theorem wavLaws : SpecLaws wavSpec :=
  ⟨fun h fl => ⟨_, _, h.dataoffset, h.frames, rfl, id⟩, off_len⟩
theorem avrLaws : SpecLaws avrSpec := ⟨calcStd_law true, off_len⟩
theorem ircamLaws : SpecLaws ircamSpec := ⟨id_law, fun _ _ h0 => h0⟩
theorem pafLaws : SpecLaws pafSpec := ⟨id_law, fun _ _ _ => by show (0 : Int) ≤ 2048; omega⟩
theorem htkLaws : SpecLaws htkSpec := ⟨fun h fl => ⟨fl, h.datalength, h.dataoffset, h.frames, rfl, id⟩, off_len⟩
theorem aiffLaws : SpecLaws aiffSpec := ⟨calcStd_law true, off_len⟩
theorem cafLaws : SpecLaws cafSpec := ⟨fun h fl => ⟨_, _, h.dataoffset, _, rfl, id⟩, off_len⟩
theorem w64Laws : SpecLaws w64Spec := ⟨calcStd_law true, off_len⟩

end Sf.HandleG
