/-
  SfProofs.RdwrRun — the C08 alphabet on a read/write handle (`ROp`), one step against the abstract file
  (`rdwr_step`), and the lift to every operation sequence (`rdwr_run`).
-/
import SfProofs.RdwrWrite
namespace Sf

/-- the configuration of a handle: what no operation changes -/
structure SameCfg (h h' : H) : Prop where
  mode : h'.mode = h.mode
  container : h'.container = h.container
  enc : h'.enc = h.enc
  big : h'.big = h.big
  ch : h'.ch = h.ch
  sr : h'.sr = h.sr
  fmtWord : h'.fmtWord = h.fmtWord
  peakAtStart : h'.peakAtStart = h.peakAtStart
  canTruncate : h'.canTruncate = h.canTruncate

theorem SameCfg.refl (h : H) : SameCfg h h := ⟨rfl, rfl, rfl, rfl, rfl, rfl, rfl, rfl, rfl⟩
theorem SameCfg.trans {a b c : H} (x : SameCfg a b) (y : SameCfg b c) : SameCfg a c :=
  ⟨y.mode.trans x.mode, y.container.trans x.container, y.enc.trans x.enc, y.big.trans x.big, y.ch.trans x.ch,
   y.sr.trans x.sr, y.fmtWord.trans x.fmtWord, y.peakAtStart.trans x.peakAtStart, y.canTruncate.trans x.canTruncate⟩

theorem SameCfg.of_WHRel {h h' : H} (w : WHRel h h') : SameCfg h h' := by
  obtain ⟨fl, dl, off, e, _⟩ := w
  subst e; exact ⟨rfl, rfl, rfl, rfl, rfl, rfl, rfl, rfl, rfl⟩

theorem SameCfg.writeHeader (h : H) (s : Store) (b : Bool) : SameCfg h (writeHeader h s b).1 :=
  SameCfg.of_WHRel (WHRel.wh h s b)

theorem SameCfg.stepRead (h : H) (s : Store) (ty : Ty) (fc : Bool) (n : Int) : SameCfg h (stepRead h s ty fc n).1 := by
  unfold Sf.stepRead
  simp only []
  repeat' split
  all_goals exact ⟨rfl, rfl, rfl, rfl, rfl, rfl, rfl, rfl, rfl⟩

theorem SameCfg.stepSeek (h : H) (s : Store) (off wh : Int) : SameCfg h (stepSeek h s off wh).1 := by
  rw [stepSeek_eq_spec]
  unfold seekSpec seekFail seekTell seekMoveH
  simp only []
  repeat' split
  all_goals exact ⟨rfl, rfl, rfl, rfl, rfl, rfl, rfl, rfl, rfl⟩


theorem SameCfg.stepWrite (h : H) (s : Store) (ty : Ty) (fc : Bool) (n : Int) (data : List Int) :
    SameCfg h (stepWrite h s ty fc n data).1 := by
  rcases Int.lt_trichotomy n 0 with hn | hn | hn
  · rw [stepWrite_neg h s ty fc n data hn]; exact ⟨rfl, rfl, rfl, rfl, rfl, rfl, rfl, rfl, rfl⟩
  · subst hn; rw [stepWrite_zero]; exact SameCfg.refl h
  · by_cases hm : h.mode = .r
    · rw [stepWrite_rmode h s ty fc n data hn hm]; exact ⟨rfl, rfl, rfl, rfl, rfl, rfl, rfl, rfl, rfl⟩
    · by_cases ha : fc = true ∨ n % (h.ch : Int) = 0
      · obtain ⟨fl, dl, off, de, pk, e, _, _⟩ := stepWrite_fields h s ty fc n data hn hm ha
        rw [e]; exact ⟨rfl, rfl, rfl, rfl, rfl, rfl, rfl, rfl, rfl⟩
      · obtain ⟨hf, hna⟩ := not_aligned_of fc n h.ch ha
        subst hf
        rw [stepWrite_align h s ty n data hn hm hna]; exact ⟨rfl, rfl, rfl, rfl, rfl, rfl, rfl, rfl, rfl⟩

theorem SameCfg.stepCmdFlag (h : H) (s : Store) (cmd : Nat) (size : Int) : SameCfg h (stepCmdFlag h s cmd size).1 := by
  obtain ⟨cv, ah, w, _, _⟩ := stepCmdFlag_fields h s cmd size
  have := SameCfg.of_WHRel w
  exact ⟨this.mode, this.container, this.enc, this.big, this.ch, this.sr, this.fmtWord, this.peakAtStart, this.canTruncate⟩

theorem SameCfg.stepTruncate (h : H) (s : Store) (f : Int) : SameCfg h (stepTruncate h s f).1 := by
  unfold Sf.stepTruncate
  simp only []
  have hs := SameCfg.stepSeek { h with error := 0 } s f 0
  generalize Sf.stepSeek { h with error := 0 } s f 0 = r at hs
  obtain ⟨h1, s1, o1⟩ := r
  have hs' : SameCfg h h1 := ⟨hs.mode, hs.container, hs.enc, hs.big, hs.ch, hs.sr, hs.fmtWord, hs.peakAtStart, hs.canTruncate⟩
  repeat' split
  all_goals first
    | exact ⟨rfl, rfl, rfl, rfl, rfl, rfl, rfl, rfl, rfl⟩
    | exact ⟨hs'.mode, hs'.container, hs'.enc, hs'.big, hs'.ch, hs'.sr, hs'.fmtWord, hs'.peakAtStart, hs'.canTruncate⟩

theorem SameCfg.stepAny (h : H) (s : Store) (op : Op) : SameCfg h (stepAny h s op).1 := by
  cases op with
  | read _ ty fc n => exact SameCfg.stepRead h s ty fc n
  | write _ ty fc n data => exact SameCfg.stepWrite h s ty fc n data
  | seek _ off whence => exact SameCfg.stepSeek h s off whence
  | cmdFlag _ cmd size => exact SameCfg.stepCmdFlag h s cmd size
  | truncate _ f => exact SameCfg.stepTruncate h s f
  | close _ => exact SameCfg.refl h


theorem SameCfg.bw {h h' : H} (c : SameCfg h h') : h'.bw = h.bw := by unfold H.bw; rw [c.enc, c.ch]

/-! ## the alphabet -/

/-- one call on a read/write handle, as the C08 statement names it: read `k` frames (items or frames variant, any
    caller type), write a buffer, seek (whence × pointer, offset), truncate to `n` frames, and the flag commands
    (normalisation, clipping, SFC_SET_UPDATE_HEADER_AUTO, SFC_UPDATE_HEADER_NOW) -/
inductive ROp
  | read (ty : Ty) (fc : Bool) (k : Nat)
  | write (ty : Ty) (fc : Bool) (data : List Int)
  | seek (w : Whence) (p : Ptr) (off : Int)
  | truncate (n : Nat)
  | flag (cmd : Nat) (size : Int)

/-- the call as the handle model's `Op` -/
def ROp.toOp (h : H) : ROp → Op
  | .read ty fc k => .read h.store ty fc (callCount h fc k)
  | .write ty fc data => .write h.store ty fc (callCount h fc (data.length / h.ch)) data
  | .seek w p off => .seek h.store off (whenceCode w p)
  | .truncate n => .truncate h.store (n : Int)
  | .flag cmd size => .cmdFlag h.store cmd size

/-- side condition: a write buffer holds whole frames.  (Since the TRUNC-VIO repair SFC_FILE_TRUNCATE needs none: on a
    route without `ftruncate` it is refused cleanly, see `ROp.toAOp`.) -/
def ROp.ok (h : H) : ROp → Prop
  | .write _ _ data => data.length % h.ch = 0
  | _ => True

instance (h : H) (op : ROp) : Decidable (op.ok h) := by
  cases op <;> simp only [ROp.ok] <;> infer_instance

/-- the abstract operation a call stands for.  None for a flag command: the abstract file does not change.  None for
    SFC_FILE_TRUNCATE on a route without `ftruncate` (SF_VIRTUAL_IO has no truncate callback): the abstract file of the
    statement promises truncation only where the route supports it; elsewhere the command is a refused call that
    changes nothing (return value 1, see `ROp.outOk`). -/
def ROp.toAOp (h : H) : ROp → Option (AOp (List Byte))
  | .read _ _ k => some (.read k)
  | .write ty _ data => some (.write (writtenFrames h ty data))
  | .seek w p off => some (.seek w p off)
  | .truncate n => if h.canTruncate then some (.truncate n) else none
  | .flag _ _ => none

def AbsFile.stepOpt {α : Type} (zero : α) (f : AbsFile α) : Option (AOp α) → AbsFile α
  | none => f
  | some op => (f.step zero op).2

/-- what the call must answer, given the abstract file `f` before it:
    * read: the count is the number of frames the abstract read delivers (×channels for an items call); for a
      non-zero request no error, the buffer starts with those frames decoded, and the rest of the requested region
      is untouched (the harness pattern) — or zero when the read position was at/after the end, and (`readFill`) when
      the request ran past the end of a WAV of 1-byte samples into the pad byte behind its odd-length data;
    * write: the count asked for, no error;
    * seek: the abstract answer (−1 when refused), no error when accepted;
    * truncate: 0, no error — on a route without `ftruncate`: refused, SF_TRUE (1), no error. -/
def ROp.outOk (h : H) (s : Store) (f : AbsFile (List Byte)) : ROp → Out → Prop
  | .read ty fc k, o =>
      o.ret = callCount h fc (f.read k).1.length ∧
      (0 < k → o.err = 0 ∧ o.data = h.enc.decodeAll h.conv ty (f.read k).1.flatten ++
        List.replicate ((k - (f.read k).1.length) * h.ch)
          (if f.rpos < f.frames.length then readFill h s ty k (f.read k).1.length else 0))
  | .write _ fc data, o => o.ret = callCount h fc (data.length / h.ch) ∧ (0 < data.length → o.err = 0)
  | .seek w p off, o => o.ret = (f.seek w p off).1 ∧ (0 ≤ (f.seek w p off).1 → o.err = 0)
  | .truncate _, o => o.ret = (if h.canTruncate then 0 else 1) ∧ o.err = 0
  | .flag _ _, _ => True

/-! ## one step -/

theorem encodeAll_nil_frames (h : H) (ty : Ty) : writtenFrames h ty [] = [] := by
  unfold writtenFrames Enc.encodeAll groups; rfl

theorem rdwr_step (h : H) (s : Store) (op : ROp) (inv : RwInv h s) (hok : op.ok h) :
    op.outOk h s (absOf h s) (stepAny h s (op.toOp h)).2.2 ∧
    RwInv (stepAny h s (op.toOp h)).1 (stepAny h s (op.toOp h)).2.1 ∧
    absOf (stepAny h s (op.toOp h)).1 (stepAny h s (op.toOp h)).2.1 =
      (absOf h s).stepOpt (zeroFrame h.bw) (op.toAOp h) := by
  obtain ⟨R, W, F, hdr, D, v⟩ := inv
  cases op with
  | read ty fc k =>
    obtain ⟨h', s', o, e, r1, r2, i', a'⟩ := v.read_refines ty fc k
    simp only [ROp.toOp, stepAny, e, ROp.outOk, ROp.toAOp, AbsFile.stepOpt, AbsFile.step]
    exact ⟨⟨r1, r2⟩, i', a'⟩
  | write ty fc data =>
    simp only [ROp.ok] at hok
    simp only [ROp.toOp, stepAny, ROp.outOk, ROp.toAOp, AbsFile.stepOpt, AbsFile.step]
    rcases Nat.eq_zero_or_pos (data.length / h.ch) with hk | hk
    · have hd : data = [] := by
        have := Nat.div_add_mod data.length h.ch
        rw [hk, hok] at this
        exact List.eq_nil_of_length_eq_zero (by omega)
      subst hd
      rw [hk, write_zero_rw, encodeAll_nil_frames]
      refine ⟨⟨by unfold callCount; cases fc <;> simp, fun hc => absurd hc (by simp)⟩, ⟨R, W, F, hdr, D, v⟩, ?_⟩
      simp [AbsFile.write]
    · have hdl : data.length = data.length / h.ch * h.ch := by
        have := Nat.div_add_mod data.length h.ch
        rw [hok, Nat.mul_comm] at this; omega
      obtain ⟨h', s', o, e, r1, r2, _, i', a'⟩ := v.write_refines ty fc _ data hk hdl
      rw [e]
      exact ⟨⟨r1, fun _ => r2⟩, i', a'⟩
  | seek w p off =>
    obtain ⟨r1, r2, i', a'⟩ := v.seek_refines w p off
    simp only [ROp.toOp, stepAny, ROp.outOk, ROp.toAOp, AbsFile.stepOpt, AbsFile.step]
    exact ⟨⟨r1, r2⟩, i', a'⟩
  | truncate n =>
    by_cases hc : h.canTruncate = true
    · obtain ⟨r1, r2, i', a'⟩ := v.truncate_refines n hc
      simp only [ROp.toOp, stepAny, ROp.outOk, ROp.toAOp, AbsFile.stepOpt, AbsFile.step, hc, if_true]
      exact ⟨⟨r1, r2⟩, i', a'⟩
    · have hc' : h.canTruncate = false := by simpa using hc
      simp only [ROp.toOp, stepAny, ROp.outOk, ROp.toAOp, AbsFile.stepOpt, hc', Bool.false_eq_true, if_false]
      rw [stepTruncate_vio h s n (by rw [v.mode]; decide) hc']
      exact ⟨⟨rfl, rfl⟩, ⟨R, W, F, hdr, D, v.setError 0⟩, by rw [(v.setError 0).abs, v.abs]; rfl⟩
  | flag cmd size =>
    obtain ⟨i', a'⟩ := v.cmdFlag_refines cmd size
    simp only [ROp.toOp, stepAny, ROp.outOk, ROp.toAOp, AbsFile.stepOpt]
    exact ⟨trivial, i', a'⟩

theorem ROp.ok_congr {h h' : H} (c : SameCfg h h') (op : ROp) (hok : op.ok h) : op.ok h' := by
  cases op <;> simp only [ROp.ok] at hok ⊢
  rw [c.ch]; exact hok

/-! ## every sequence -/

/-- the handle and store after a sequence of calls -/
def runR (h : H) (s : Store) : List ROp → H × Store
  | [] => (h, s)
  | op :: ops => runR (stepAny h s (op.toOp h)).1 (stepAny h s (op.toOp h)).2.1 ops

/-- "the run refines the abstract file `f`": every answer along the way is the abstract one, and at the end the
    handle satisfies the invariant and stands for the abstract file the abstract run produced -/
def RefinesRun (zero : List Byte) : H → Store → AbsFile (List Byte) → List ROp → Prop
  | h, s, f, [] => RwInv h s ∧ absOf h s = f
  | h, s, f, op :: ops =>
    op.outOk h s f (stepAny h s (op.toOp h)).2.2 ∧
    RefinesRun zero (stepAny h s (op.toOp h)).1 (stepAny h s (op.toOp h)).2.1 (f.stepOpt zero (op.toAOp h)) ops

theorem rdwr_run (ops : List ROp) : ∀ (h : H) (s : Store), RwInv h s → (∀ op ∈ ops, op.ok h) →
    RefinesRun (zeroFrame h.bw) h s (absOf h s) ops := by
  induction ops with
  | nil => intro h s inv _; exact ⟨inv, rfl⟩
  | cons op ops ih =>
    intro h s inv hok
    obtain ⟨o, i', a'⟩ := rdwr_step h s op inv (hok op (by simp))
    have c := SameCfg.stepAny h s (op.toOp h)
    refine ⟨o, ?_⟩
    have := ih _ _ i' (fun op' hm => ROp.ok_congr c op' (hok op' (by simp [hm])))
    rw [c.bw, a'] at this
    exact this

/-- the abstract file after the abstract counterparts of a sequence of calls (the frames a write hands over are
    the samples encoded under the conversion settings in force at that call) -/
def absRunR (zero : List Byte) : H → Store → AbsFile (List Byte) → List ROp → AbsFile (List Byte)
  | _, _, f, [] => f
  | h, s, f, op :: ops =>
    absRunR zero (stepAny h s (op.toOp h)).1 (stepAny h s (op.toOp h)).2.1 (f.stepOpt zero (op.toAOp h)) ops

/-- the end of a refined run: invariant, and the handle stands for the result of the abstract run -/
theorem RefinesRun.final (zero : List Byte) (ops : List ROp) : ∀ (h : H) (s : Store) (f : AbsFile (List Byte)),
    RefinesRun zero h s f ops →
      RwInv (runR h s ops).1 (runR h s ops).2 ∧ absOf (runR h s ops).1 (runR h s ops).2 = absRunR zero h s f ops := by
  induction ops with
  | nil => intro h s f r; exact r
  | cons op ops ih => intro h s f r; exact ih _ _ _ r.2

theorem RwInv_runR (ops : List ROp) : ∀ (h : H) (s : Store), RwInv h s → (∀ op ∈ ops, op.ok h) →
    RwInv (runR h s ops).1 (runR h s ops).2 ∧ SameCfg h (runR h s ops).1 := by
  induction ops with
  | nil => intro h s inv _; exact ⟨inv, SameCfg.refl h⟩
  | cons op ops ih =>
    intro h s inv hok
    obtain ⟨_, i', _⟩ := rdwr_step h s op inv (hok op (by simp))
    have c := SameCfg.stepAny h s (op.toOp h)
    obtain ⟨a, b⟩ := ih _ _ i' (fun op' hm => ROp.ok_congr c op' (hok op' (by simp [hm])))
    exact ⟨a, c.trans b⟩

end Sf
