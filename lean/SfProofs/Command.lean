/-
  Helper lemmas about SfModel.Command (C17): the pieces `sf_command` is assembled from stay inside
  [0, datasize) under the hypotheses their call sites establish.
-/
import SfModel.Command
import Mathlib.Tactic.SplitIfs
namespace Sf.Command

/-- a result is fine: all ranges inside [0,size), NULL not dereferenced, return value defined -/
def Res.ok (r : Res) (size : Nat) : Prop := r.inBounds size = true ∧ r.retDefined = true

theorem crlfEnd_ge (m : Nat → Nat) (n i room : Nat) : i ≤ crlfEnd m n i room := by
  fun_induction crlfEnd m n i room <;> omega

theorem crlfEnd_le (m : Nat → Nat) (n i room : Nat) : crlfEnd m n i room ≤ i + n := by
  fun_induction crlfEnd m n i room <;> omega

/-- the rule before 8501a42 could look one byte further -/
theorem oldCrlfEnd_le (m : Nat → Nat) (n i room : Nat) : oldCrlfEnd m n i room ≤ i + n + 1 := by
  fun_induction oldCrlfEnd m n i room <;> omega

theorem chanExamined_le (m : Nat → Nat) (n k : Nat) : chanExamined m n k ≤ n := by
  induction n generalizing k with
  | zero => simp [chanExamined]
  | succ n ih =>
    simp only [chanExamined]
    split
    · omega
    · have := ih (k + 1); omega

theorem stringOut_ok (l size : Nat) (data : Option Mem) (h : Option H) (e : Option Nat) (r : Int) :
    (stringOut l size data h e r).ok size := by
  unfold stringOut Res.ok Res.inBounds Res.retDefined
  cases data with
  | none => simp
  | some m =>
    by_cases hs : size = 0
    · simp [hs]
    · simp [hs, rangeIn]
      omega

theorem guardEq_ok (want size : Nat) (data : Option Mem) (h : Option H) (fr : Int) (fe : Option Nat) (k : Mem → Res)
    (hk : ∀ m, data = some m → size = want → (k m).ok size) : (guardEq want size data h fr fe k).ok size := by
  unfold guardEq
  cases data with
  | none => simp [Res.ok, Res.inBounds, Res.retDefined]
  | some m =>
    by_cases hw : size = want
    · simp [hw]; exact hw ▸ hk m rfl hw
    · simp [hw, Res.ok, Res.inBounds, Res.retDefined]

theorem varGet_ok (s : Option Nat) (h : H) (size : Nat) (data : Option Mem) : (varGet s h size data).ok size := by
  unfold varGet Res.ok Res.inBounds Res.retDefined
  cases data <;> cases s <;> simp [rangeIn]
  omega

theorem lateVar_ok (late : Bool) (r : Res) (size : Nat) (h : r.ok size) : (lateVar late r).ok size := by
  unfold lateVar
  split
  · split
    · obtain ⟨hb, _⟩ := h
      exact ⟨by simpa [Res.inBounds] using hb, by simp [Res.retDefined]⟩
    · exact h
  · exact h

theorem varSet_ok (sizeOff fixed cap eS eB : Nat) (h h2 : H) (size : Nat) (data : Option Mem)
    (hoff : sizeOff + 4 ≤ fixed) : (varSet sizeOff fixed cap eS eB h size data h2).ok size := by
  unfold varSet
  cases data with
  | none => simp [Res.ok, Res.inBounds, Res.retDefined]
  | some m =>
    simp only
    split
    · simp [Res.ok, Res.inBounds, Res.retDefined]
    · split
      · simp [Res.ok, Res.inBounds, Res.retDefined, rangeIn]; omega
      · split
        · simp [Res.ok, Res.inBounds, Res.retDefined, rangeIn]; omega
        · have hge := crlfEnd_ge m.byte (size - fixed) fixed (cap - fixed - 2)
          have hle := crlfEnd_le m.byte (size - fixed) fixed (cap - fixed - 2)
          simp [Res.ok, Res.inBounds, Res.retDefined, rangeIn]
          omega

theorem containerCommand_ok (h : H) (cmd : Int) (size n : Nat) : (containerCommand h cmd size).ok n := by
  unfold containerCommand Res.ok Res.inBounds Res.retDefined
  repeat' split
  all_goals simp

theorem formatIndexed_ok (count : Nat) (c : Bool) (size : Nat) (data : Option Mem) (h : Option H) :
    (formatIndexed count c size data h).ok size := by
  unfold formatIndexed
  apply guardEq_ok
  intro m _ hs
  simp only
  split <;> cases c <;> simp [Res.ok, Res.inBounds, Res.retDefined, rangeIn, szFormatInfo] at * <;> omega


theorem preHandle_ok (g : G) (h : Option H) (cmd : Int) (size : Nat) (data : Option Mem) (r : Res)
    (hr : preHandle g h cmd size data = some r) : r.ok size := by
  unfold preHandle at hr
  split at hr
  · cases hr
    apply stringOut_ok
  · split at hr
    · cases hr
      apply guardEq_ok; intro m _ hs
      simp [Res.ok, Res.inBounds, Res.retDefined, rangeIn, szInt] at *; omega
    · split at hr
      · cases hr; apply formatIndexed_ok
      · split at hr
        · cases hr; apply formatIndexed_ok
        · split at hr
          · cases hr; apply formatIndexed_ok
          · split at hr
            · cases hr
              apply guardEq_ok; intro m _ hs
              simp [Res.ok, Res.inBounds, Res.retDefined, rangeIn, szFormatInfo] at *; omega
            · cases hr

theorem classify_sound (cmd : Int) : (classify cmd).cond cmd := by
  unfold classify
  by_cases h0 : cmd = 0x1013
  · rw [if_pos h0]; exact h0
  rw [if_neg h0]
  by_cases h1 : cmd = 0x1002
  · rw [if_pos h1]; exact h1
  rw [if_neg h1]
  by_cases h2 : cmd = 0x1012
  · rw [if_pos h2]; exact h2
  rw [if_neg h2]
  by_cases h3 : cmd = 0x1011
  · rw [if_pos h3]; exact h3
  rw [if_neg h3]
  by_cases h4 : cmd = 0x1010
  · rw [if_pos h4]; exact h4
  rw [if_neg h4]
  by_cases h5 : cmd = 0x1014
  · rw [if_pos h5]; exact h5
  rw [if_neg h5]
  by_cases h6 : cmd = 0x1015
  · rw [if_pos h6]; exact h6
  rw [if_neg h6]
  by_cases h7 : cmd = 0x1050
  · rw [if_pos h7]; exact h7
  rw [if_neg h7]
  by_cases h8 : cmd = 0x1051
  · rw [if_pos h8]; exact h8
  rw [if_neg h8]
  by_cases h9 : cmd = 0x1001
  · rw [if_pos h9]; exact h9
  rw [if_neg h9]
  by_cases h10 : cmd = 0x1040 ∨ cmd = 0x1041
  · rw [if_pos h10]; exact h10
  rw [if_neg h10]
  by_cases h11 : cmd = 0x1042 ∨ cmd = 0x1043
  · rw [if_pos h11]; exact h11
  rw [if_neg h11]
  by_cases h12 : cmd = 0x1044
  · rw [if_pos h12]; exact h12
  rw [if_neg h12]
  by_cases h13 : cmd = 0x1045
  · rw [if_pos h13]; exact h13
  rw [if_neg h13]
  by_cases h14 : cmd = 0x1060
  · rw [if_pos h14]; exact h14
  rw [if_neg h14]
  by_cases h15 : cmd = 0x1061
  · rw [if_pos h15]; exact h15
  rw [if_neg h15]
  by_cases h16 : cmd = 0x1070 ∨ cmd = 0x1071
  · rw [if_pos h16]; exact h16
  rw [if_neg h16]
  by_cases h17 : cmd = 0x10A0 ∨ cmd = 0x10A1
  · rw [if_pos h17]; exact h17
  rw [if_neg h17]
  by_cases h18 : cmd = 0x1080
  · rw [if_pos h18]; exact h18
  rw [if_neg h18]
  by_cases h19 : cmd = 0x1090
  · rw [if_pos h19]; exact h19
  rw [if_neg h19]
  by_cases h20 : cmd = 0x10B0
  · rw [if_pos h20]; exact h20
  rw [if_neg h20]
  by_cases h21 : cmd = 0x6001
  · rw [if_pos h21]; exact h21
  rw [if_neg h21]
  by_cases h22 : cmd = 0x10C0
  · rw [if_pos h22]; exact h22
  rw [if_neg h22]
  by_cases h23 : cmd = 0x10C1
  · rw [if_pos h23]; exact h23
  rw [if_neg h23]
  by_cases h24 : cmd = 0x10E0
  · rw [if_pos h24]; exact h24
  rw [if_neg h24]
  by_cases h25 : cmd = 0x10F1
  · rw [if_pos h25]; exact h25
  rw [if_neg h25]
  by_cases h26 : cmd = 0x10F0
  · rw [if_pos h26]; exact h26
  rw [if_neg h26]
  by_cases h27 : cmd = 0x1400
  · rw [if_pos h27]; exact h27
  rw [if_neg h27]
  by_cases h28 : cmd = 0x1401
  · rw [if_pos h28]; exact h28
  rw [if_neg h28]
  by_cases h29 : cmd = 0x10CD
  · rw [if_pos h29]; exact h29
  rw [if_neg h29]
  by_cases h30 : cmd = 0x10CE
  · rw [if_pos h30]; exact h30
  rw [if_neg h30]
  by_cases h31 : cmd = 0x10CF
  · rw [if_pos h31]; exact h31
  rw [if_neg h31]
  by_cases h32 : cmd = 0x10D0
  · rw [if_pos h32]; exact h32
  rw [if_neg h32]
  by_cases h33 : cmd = 0x10D1
  · rw [if_pos h33]; exact h33
  rw [if_neg h33]
  by_cases h34 : cmd = 0x1110
  · rw [if_pos h34]; exact h34
  rw [if_neg h34]
  by_cases h35 : cmd = 0x1100
  · rw [if_pos h35]; exact h35
  rw [if_neg h35]
  by_cases h36 : cmd = 0x1101
  · rw [if_pos h36]; exact h36
  rw [if_neg h36]
  by_cases h37 : cmd = 0x1300 ∨ cmd = 0x1302
  · rw [if_pos h37]; exact h37
  rw [if_neg h37]
  trivial

macro "c17_leaf" : tactic =>
  `(tactic| (simp [Res.ok, Res.inBounds, Res.retDefined, rangeIn, szInfo, szDouble, szDither, szCount, szEmbed, szLoop, szInt,
               szInstrument, szCuePoint] at * <;> omega))

macro "c17_auto" : tactic =>
  `(tactic| ((repeat' (first | split | (apply guardEq_ok; intro _ _ _))) <;> c17_leaf))

theorem withHandle_ok (h : H) (cmd : Int) (size : Nat) (data : Option Mem) : (withHandle h cmd size data).ok size := by
  have hs := classify_sound cmd
  unfold withHandle
  cases hcl : classify cmd <;> rw [hcl] at hs <;> simp only [Cls.cond] at hs <;> simp only []
  all_goals first
    | apply varGet_ok
    | apply containerCommand_ok
    | apply stringOut_ok
    | (apply guardEq_ok; intro m hm hs; first | apply containerCommand_ok | (split_ifs <;> c17_leaf) | c17_leaf)
    | (split_ifs <;> c17_leaf)
    | c17_leaf
    | skip
  case k1040 =>
    apply guardEq_ok; intro m hm hs2; unfold calcSignalMax; split_ifs <;> c17_leaf
  case k1080 =>
    split_ifs <;> first | c17_leaf | (cases data <;> c17_leaf)
  case k10F1 =>
    split_ifs <;> first | c17_leaf | (apply lateVar_ok; apply varSet_ok; decide)
  case k1400 =>
    split_ifs <;> first | c17_leaf | (apply lateVar_ok; apply varSet_ok; decide)
  case k10CD =>
    apply guardEq_ok; intro m hm hs'
    split <;> c17_leaf
  case k10CE => c17_auto
  case k10CF => c17_auto
  case k10D1 => c17_auto
  case k1100 => c17_auto
  case k1101 =>
    unfold chmapSet
    split_ifs <;> first
      | c17_leaf
      | (apply guardEq_ok; intro m hm hs'
         have hle := chanExamined_le m.byte h.channels 0
         split_ifs <;> first | c17_leaf | (simp only []; split_ifs <;> c17_leaf))
  case k1300 =>
    apply guardEq_ok; intro m hm hs'
    unfold containerCommand
    split_ifs <;> c17_leaf


theorem stringOut_terminates (l size : Nat) (m : Mem) (h : Option H) (e : Option Nat) (r : Int) (hs : 1 ≤ size) :
    (stringOut l size (some m) h e r).terminates size = true := by
  have : size ≠ 0 := by omega
  simp [stringOut, this, Res.terminates]
  omega


theorem containerCommand_pure (h : H) (cmd : Int) (size : Nat) (h1 : cmd ≠ 0x1200) (h2 : cmd ≠ 0x1210) :
    sameState (containerCommand h cmd size).h' (some h) = true := by
  unfold containerCommand
  split_ifs <;> simp_all [sameState, H.core]

theorem preHandle_pure (g : G) (h : Option H) (cmd : Int) (size : Nat) (data : Option Mem) (r : Res)
    (hr : preHandle g h cmd size data = some r) : r.h' = h := by
  unfold preHandle at hr
  split_ifs at hr <;> cases hr <;> simp only [stringOut, guardEq, formatIndexed] <;> (repeat' split) <;> rfl

macro "c17_pure" : tactic =>
  `(tactic| (((try simp only [guardEq, stringOut, varGet]); repeat' split) <;> (simp [sameState]; done)))

theorem withHandle_pure (h : H) (cmd : Int) (size : Nat) (data : Option Mem)
    (hq : isQuery cmd = true) : sameState (withHandle h cmd size data).h' (some h) = true := by
  have hs := classify_sound cmd
  unfold withHandle
  cases hcl : classify cmd <;> rw [hcl] at hs <;> simp only [Cls.cond] at hs <;> simp only []
  all_goals first
    | (exfalso; subst hs; revert hq; decide)
    | (exfalso; rcases hs with hs | hs <;> subst hs <;> revert hq <;> decide)
    | (apply containerCommand_pure <;> (intro hc; subst hc; revert hq; decide))
    | c17_pure
    | skip
  case k1040 =>
    simp only [guardEq, calcSignalMax]
    (repeat' split) <;> simp [sameState]

end Sf.Command
