/-
  SfProofs.AbsWriteBridgeSmall1 — containers built on the session machine of SfModel/SmallSession.lean (`Sf.Small`: AVR,
  IRCAM, PAF, SVX) as `Cont`s of the write-side bridge: `small1Cont` (the operations and parse results of the two machines
  are the same data: `toS1`, `resOf`), and `laws_of_small1` — the `Laws` from the facts every lean/SfProps/C04<Container>.lean
  of that group proves (`Small1Facts`).
-/
import SfProofs.AbsWriteBridgeSmall2
import SfModel.SmallSession
import SfProofs.SmallSession
namespace Sf.AbsWriteBridge.Small
open Sf Sf.AbsWrite Sf.AbsWriteBridge

def toS1 : List Small2.WOp → List Sf.Small.WOp
  | [] => []
  | .write enc a :: r => .write enc a :: toS1 r
  | .update :: r => .update :: toS1 r

def resOf : Sf.Small.ParseRes → Small2.ParseRes
  | .ok i => .ok { ch := i.ch, fmt := i.fmt, sr := i.sr, frames := i.frames }
  | .err => .err
  | .unmodelled => .unmodelled

theorem toS1_append : ∀ (xs ys : List Small2.WOp), toS1 (xs ++ ys) = toS1 xs ++ toS1 ys
  | [], _ => rfl
  | .write _ _ :: xs, ys => by simp [toS1, toS1_append xs ys]
  | .update :: xs, ys => by simp [toS1, toS1_append xs ys]

theorem opsData_toS1 : ∀ (ops : List Small2.WOp), Sf.Small.opsData (toS1 ops) = Small2.opsData ops
  | [] => rfl
  | .write _ _ :: r => by simp [toS1, Sf.Small.opsData, Small2.opsData, opsData_toS1 r]
  | .update :: r => by simp [toS1, Sf.Small.opsData, Small2.opsData, opsData_toS1 r]

/-- a Small-machine container as a `Cont` -/
def small1Cont (sp : Sf.Small.Spec) (parse : List Byte → Sf.Small.ParseRes) (g : AbsWrite.Geom) (enc : Enc) : Cont :=
  { g := g, enc := enc, L := sp.hdrLen, closed := fun st ops => Sf.Small.closedBytes sp st (toS1 ops),
    store := fun st ops => (Sf.Small.run sp (Sf.Small.openW sp st) (toS1 ops)).bytes, parse := fun bs => resOf (parse bs) }

theorem store1_update (sp : Sf.Small.Spec) (st : Nat) (w : List Sf.Small.WOp) :
    (Sf.Small.run sp (Sf.Small.openW sp st) (w ++ [.update])).bytes = Sf.Small.snapshotBytes sp st w := by
  simp [Sf.Small.run, Sf.Small.snapshotBytes, List.foldl_append, Sf.Small.applyOp]

theorem store1_autowrite (sp : Sf.Small.Spec) (st : Nat) (w : List Sf.Small.WOp) (enc : List Byte) :
    (Sf.Small.run sp (Sf.Small.openW sp st) (w ++ [.write enc true])).bytes =
      Sf.Small.snapshotBytes sp st (w ++ [.write enc false]) := by
  simp [Sf.Small.run, Sf.Small.snapshotBytes, List.foldl_append, Sf.Small.applyOp, Sf.Small.write, Sf.Small.update]

structure Small1Facts (sp : Sf.Small.Spec) (parse : List Byte → Sf.Small.ParseRes) (g : AbsWrite.Geom) (enc : Enc)
    (G : List Small2.WOp → Prop) : Prop where
  chpos : 0 < g.ch
  nb : 0 < enc.nbytes
  wf : enc.wf
  block : g.block = 1
  notRaw : g.major ≠ 0x04
  codec : ∃ big, encOf .raw g.codec big = some enc
  snapForm : ∀ st ops, ∃ hdr, hdr.length = sp.hdrLen ∧ Sf.Small.snapshotBytes sp st ops = hdr ++ Sf.Small.opsData ops
  closedForm : ∀ st ops, ∃ hdr tail, hdr.length = sp.hdrLen ∧ Sf.Small.closedBytes sp st ops = hdr ++ Sf.Small.opsData ops ++ tail
  closedFn : ∀ a b ops ops', Sf.Small.opsData ops = Sf.Small.opsData ops' → Sf.Small.closedBytes sp a ops = Sf.Small.closedBytes sp b ops'
  closedParse : ∀ st ops, G ops → ∃ i, parse (Sf.Small.closedBytes sp st (toS1 ops)) = .ok i ∧
    i.frames = (Small2.opsData ops).length / (enc.nbytes * g.ch) ∧ i.ch = g.ch ∧
    i.fmt % 0x10000000 = g.word % 0x10000000 ∧ rateOk g.major g.sr (i.sr : Int) = true
  snapParse : ∀ st (w : List Sf.Small.WOp), (∃ ops, G ops ∧ Sf.Small.opsData w = Small2.opsData ops) →
    ∃ i, parse (Sf.Small.snapshotBytes sp st w) = .ok i ∧
    i.frames = (Sf.Small.opsData w).length / (enc.nbytes * g.ch) ∧ i.ch = g.ch ∧ i.fmt % 0x10000000 = g.word % 0x10000000

theorem opsData1_append : ∀ (xs ys : List Sf.Small.WOp), Sf.Small.opsData (xs ++ ys) = Sf.Small.opsData xs ++ Sf.Small.opsData ys
  | [], _ => rfl
  | .write _ _ :: xs, ys => by simp [Sf.Small.opsData, opsData1_append xs ys]
  | .update :: xs, ys => by simp [Sf.Small.opsData, opsData1_append xs ys]

theorem laws_of_small1 {sp : Sf.Small.Spec} {parse : List Byte → Sf.Small.ParseRes} {g : AbsWrite.Geom} {enc : Enc}
    {G : List Small2.WOp → Prop} (X : Small1Facts sp parse g enc G) : Laws (small1Cont sp parse g enc) G := by
  have hstore : ∀ st ops, EndsInRewrite ops → ∃ w, (Sf.Small.run sp (Sf.Small.openW sp st) (toS1 ops)).bytes = Sf.Small.snapshotBytes sp st w ∧
      Sf.Small.opsData w = Small2.opsData ops := by
    intro st ops ⟨w, x, e, hx⟩
    subst e
    rw [toS1_append]
    rcases hx with rfl | ⟨enc', rfl⟩
    · exact ⟨toS1 w, store1_update sp st _, by rw [opsData_toS1]; simp [Small.opsData_append, Small2.opsData]⟩
    · refine ⟨toS1 w ++ [.write enc' false], store1_autowrite sp st _ enc', ?_⟩
      rw [opsData1_append, opsData_toS1]; simp [Small.opsData_append, Small2.opsData, Sf.Small.opsData]
  have hres : ∀ bs i, parse bs = .ok i → resOf (parse bs) = .ok { ch := i.ch, fmt := i.fmt, sr := i.sr, frames := i.frames } := by
    intro bs i h; rw [h]; rfl
  refine { chpos := X.chpos, nb := X.nb, wf := X.wf, block := X.block, notRaw := X.notRaw, codec := X.codec,
           closedForm := ?_, closedParse := ?_, closedFn := ?_, storeForm := ?_, storeParse := ?_ }
  · intro st ops _
    obtain ⟨hdr, tail, h1, h2⟩ := X.closedForm st (toS1 ops)
    exact ⟨hdr, tail, h1, by show Sf.Small.closedBytes sp st (toS1 ops) = _; rw [h2, opsData_toS1]⟩
  · intro st ops hg
    obtain ⟨i, h1, h2, h3, h4, h5⟩ := X.closedParse st ops hg
    exact ⟨{ ch := i.ch, fmt := i.fmt, sr := i.sr, frames := i.frames }, hres _ i h1, h2, h3, h4, h5⟩
  · intro a b ops ops' h
    exact X.closedFn a b _ _ (by rw [opsData_toS1, opsData_toS1, h])
  · intro st ops _ he
    obtain ⟨w, e1, e2⟩ := hstore st ops he
    obtain ⟨hdr, h1, h2⟩ := X.snapForm st w
    exact ⟨hdr, [], h1, by show (Sf.Small.run sp (Sf.Small.openW sp st) (toS1 ops)).bytes = _; rw [e1, h2, e2]; simp⟩
  · intro st ops hg he
    obtain ⟨w, e1, e2⟩ := hstore st ops he
    obtain ⟨i, h1, h2, h3, h4⟩ := X.snapParse st w ⟨ops, hg, e2⟩
    refine ⟨{ ch := i.ch, fmt := i.fmt, sr := i.sr, frames := i.frames }, ?_, by show i.frames = _; rw [h2, e2]; rfl, h3, h4⟩
    show resOf (parse (Sf.Small.run sp (Sf.Small.openW sp st) (toS1 ops)).bytes) = _
    rw [e1]; exact hres _ i h1

end Sf.AbsWriteBridge.Small

namespace Sf.AbsWriteBridge.Small
open Sf Sf.AbsWrite Sf.AbsWriteBridge

/-- facts of the `Sf.Small` session machine alone, for a container whose `write_header` honours `calc_length` and whose
    close function rewrites the header -/
theorem small1_machine_facts (sp : Sf.Small.Spec) (hl : sp.LenOk) (hc : sp.useCalc = true) (hch : sp.closeHdr = true) :
    (∀ st ops, ∃ hdr, hdr.length = sp.hdrLen ∧ Sf.Small.snapshotBytes sp st ops = hdr ++ Sf.Small.opsData ops) ∧
    (∀ st ops, ∃ hdr tail, hdr.length = sp.hdrLen ∧ Sf.Small.closedBytes sp st ops = hdr ++ Sf.Small.opsData ops ++ tail) ∧
    (∀ a b ops ops', Sf.Small.opsData ops = Sf.Small.opsData ops' → Sf.Small.closedBytes sp a ops = Sf.Small.closedBytes sp b ops') := by
  refine ⟨fun st ops => ⟨_, hl _ _ _, Sf.Small.snapshot_calc sp hl hc st ops⟩,
    fun st ops => ⟨_, sp.term, hl _ _ _, Sf.Small.closed_calc sp hl hc hch st ops⟩, ?_⟩
  intro a b ops ops' h
  rw [Sf.Small.closed_calc sp hl hc hch, Sf.Small.closed_calc sp hl hc hch, h]

end Sf.AbsWriteBridge.Small
