/-
  SfProofs.AbsWriteBridgeSmall — level B of the write-side bridge for the STAND-ALONE CONTAINER MODELS (a byte-exact header
  writer + parser per container, the audio an opaque byte string): one generic theorem.

  A container model is seen through `Cont`: the closed bytes and the store after any operation list (functions of the
  caller's stale frames value and the operations of the session machine `Sf.Small2.WOp`), its parser, its header length, and
  the sample encoding `enc : Sf.Enc` (SfModel/Pcm.lean) the configuration selects.  A campaign job on it is a list of
  `Op` (write calls of either variant handing over samples, SFC_UPDATE_HEADER_NOW, SFC_SET_UPDATE_HEADER_AUTO); `toW` turns it
  into session-machine operations (the samples encoded by `enc`, every write tagged with the auto flag in force).
  `predOf` is the prediction: write calls return what they were asked; closed bytes from the model; re-open info from
  the model's parser; the read-back is the model's decoder (`Enc.decodeAll`) on the bytes behind the header, cut at the frame
  count the parser reports; one crash point after every header update and every write in auto mode (the store at that moment).
  `Laws` is what the container's theorems must supply (`<x>_reopen_info`, `<x>_snapshot_valid`, `closedBytes_eq`,
  `stale_frames_ignored_<x>`), `small_pred_good` derives `Good`, hence `accepted`.
-/
import SfProofs.AbsWriteBridgeFacts
import SfProofs.Small2Session
namespace Sf.AbsWriteBridge.Small
open Sf Sf.AbsWrite Sf.AbsWriteBridge Sf.Geometry

/-- one operation of a campaign job -/
inductive Op
  | write (fc : Bool) (xs : List Int)
  | update
  | auto (b : Bool)

/-- a stand-alone container model as the bridge sees it -/
structure Cont where
  g : AbsWrite.Geom
  enc : Enc
  L : Nat                                          -- header length
  closed : Nat → List Small2.WOp → List Byte              -- the closed file (stale frames value, operations)
  store : Nat → List Small2.WOp → List Byte               -- the store right after the operations
  parse : List Byte → Small2.ParseRes

def Cont.bw (K : Cont) : Nat := K.enc.nbytes * K.g.ch

/-- session-machine operations of a job (`a`: SFC_SET_UPDATE_HEADER_AUTO in force) -/
def toW (K : Cont) (ty : Ty) : Bool → List Op → List Small2.WOp
  | _, [] => []
  | a, .write _ xs :: r => Small2.WOp.write (K.enc.encodeAll {} ty xs) a :: toW K ty a r
  | a, .update :: r => Small2.WOp.update :: toW K ty a r
  | _, .auto b :: r => toW K ty b r

def sampleList : List Op → List Int
  | [] => []
  | .write _ xs :: r => xs ++ sampleList r
  | _ :: r => sampleList r

def callsOf (ch : Nat) : List Op → List LCall
  | [] => []
  | .write fc xs :: r => { fc := fc, xs := xs, ret := LCall.n ch { fc := fc, xs := xs, ret := 0 } } :: callsOf ch r
  | _ :: r => callsOf ch r

def refOps (ops : List Op) : List Op := if (sampleList ops).length = 0 then [] else [.write true (sampleList ops)]

/-- the prefixes of a job after which the campaign copies the store: after every SFC_UPDATE_HEADER_NOW and after every
    non-empty write made in auto mode -/
def crashes : List Op → List Op → Bool → List (List Op)
  | _, [], _ => []
  | pre, .write fc xs :: r, a =>
    (if a ∧ xs ≠ [] then [pre ++ [.write fc xs]] else []) ++ crashes (pre ++ [.write fc xs]) r a
  | pre, .update :: r, a => (pre ++ [.update]) :: crashes (pre ++ [.update]) r a
  | pre, .auto b :: r, _ => crashes (pre ++ [.auto b]) r b

def infoOf : Small2.ParseRes → Info
  | .ok i => { ch := i.ch, sr := i.sr, fmt := i.fmt, frames := i.frames }
  | _ => { null := true }

/-- the model's reader: the decoded bytes behind the header, cut at the frame count the parser reports; the rest of the
    requested region keeps the harness's fill pattern -/
def readBack (K : Cont) (ty : Ty) (want : Nat) (bytes : List Byte) : Int × List Int :=
  match K.parse bytes with
  | .ok i =>
    let items := (K.enc.decodeAll {} ty (bytes.drop K.L)).take (i.frames * K.g.ch)
    ((items.length : Int), items ++ List.replicate (want - items.length) (pattern ty))
  | _ => (0, [])

def snapOf (K : Cont) (ty : Ty) (stale : Nat) (p : List Op) : LSnap :=
  let img := K.store stale (toW K ty false p)
  let rb := readBack K ty ((framesOf K.g.ch (callsOf K.g.ch p) + 8) * K.g.ch) img
  { k := (callsOf K.g.ch p).length, info := infoOf (K.parse img), ret := rb.1, data := rb.2 }

/-- THE PREDICTION of a container model for a job (`stale` / `stale'`: the two SF_INFO.frames values at open) -/
def predOf (K : Cont) (ty : Ty) (stale stale' : Nat) (ops : List Op) : Pred :=
  let b1 := K.closed stale (toW K ty false (refOps ops))
  let N := framesOf K.g.ch (callsOf K.g.ch ops)
  let rb := readBack K ty ((N + K.g.block + K.g.pad + 8) * K.g.ch) b1
  { g := K.g, ty := ty,
    one := { calls := callsOf K.g.ch (refOps ops), bytes := b1 },
    info := infoOf (K.parse b1), rbRet := rb.1, rbData := rb.2, rbMore := 0,
    split := { calls := callsOf K.g.ch ops, bytes := K.closed stale (toW K ty false ops) },
    snaps := (crashes [] ops false).map (snapOf K ty stale),
    stale := K.closed stale' (toW K ty false (refOps ops)) }

def recordOf (K : Cont) (ty : Ty) (stale stale' : Nat) (ops : List Op) : Record := (predOf K ty stale stale' ops).record

/-! ## what a container's theorems must supply -/

/-- the operation list ends in a header rewrite: SFC_UPDATE_HEADER_NOW or a write call made in auto mode -/
def EndsInRewrite (ops : List Small2.WOp) : Prop := ∃ w x, ops = w ++ [x] ∧ (x = Small2.WOp.update ∨ ∃ enc, x = Small2.WOp.write enc true)

structure Laws (K : Cont) (G : List Small2.WOp → Prop) : Prop where
  chpos : 0 < K.g.ch
  nb : 0 < K.enc.nbytes
  wf : K.enc.wf
  block : K.g.block = 1
  notRaw : K.g.major ≠ 0x04
  /-- the configuration's encoding is the one the format word names (for the side condition of C01) -/
  codec : ∃ big, encOf .raw K.g.codec big = some K.enc
  /-- C04: the closed file is header ++ audio ++ tail and re-opens with the requested parameters and D / bw frames -/
  closedForm : ∀ st ops, G ops → ∃ hdr tail, hdr.length = K.L ∧ K.closed st ops = hdr ++ Small2.opsData ops ++ tail
  closedParse : ∀ st ops, G ops → ∃ i, K.parse (K.closed st ops) = .ok i ∧ i.frames = (Small2.opsData ops).length / K.bw ∧
    i.ch = K.g.ch ∧ i.fmt % 0x10000000 = K.g.word % 0x10000000 ∧ rateOk K.g.major K.g.sr (i.sr : Int) = true
  /-- C07 / C04: the closed bytes are a function of the audio bytes alone (not of the split, the updates, the stale value) -/
  closedFn : ∀ a b ops ops', Small2.opsData ops = Small2.opsData ops' → K.closed a ops = K.closed b ops'
  /-- C11: the store after a header rewrite is header ++ audio so far and opens with the same parameters -/
  storeForm : ∀ st ops, G ops → EndsInRewrite ops → ∃ hdr tail, hdr.length = K.L ∧ K.store st ops = hdr ++ Small2.opsData ops ++ tail
  storeParse : ∀ st ops, G ops → EndsInRewrite ops → ∃ i, K.parse (K.store st ops) = .ok i ∧
    i.frames = (Small2.opsData ops).length / K.bw ∧ i.ch = K.g.ch ∧ i.fmt % 0x10000000 = K.g.word % 0x10000000

/-! ## lemmas about jobs -/

/-- a job hands over whole frames of values of the caller's type -/
def Valid (ch : Nat) (ty : Ty) (ops : List Op) : Prop :=
  ∀ op ∈ ops, match op with | .write _ xs => xs.length % ch = 0 ∧ ∀ v ∈ xs, ty.inRange v | _ => True

theorem sampleList_append : ∀ (xs ys : List Op), sampleList (xs ++ ys) = sampleList xs ++ sampleList ys
  | [], _ => rfl
  | .write _ _ :: xs, ys => by simp [sampleList, sampleList_append xs ys]
  | .update :: xs, ys => by simp [sampleList, sampleList_append xs ys]
  | .auto _ :: xs, ys => by simp [sampleList, sampleList_append xs ys]

theorem callsOf_append (ch : Nat) : ∀ (xs ys : List Op), callsOf ch (xs ++ ys) = callsOf ch xs ++ callsOf ch ys
  | [], _ => rfl
  | .write _ _ :: xs, ys => by simp [callsOf, callsOf_append ch xs ys]
  | .update :: xs, ys => by simp [callsOf, callsOf_append ch xs ys]
  | .auto _ :: xs, ys => by simp [callsOf, callsOf_append ch xs ys]

theorem callsOf_good (ch : Nat) (ty : Ty) : ∀ (ops : List Op), Valid ch ty ops →
    (∀ d ∈ callsOf ch ops, d.good ch) ∧ samples (callsOf ch ops) = sampleList ops
  | [], _ => ⟨by simp [callsOf], rfl⟩
  | .write fc xs :: r, h => by
    obtain ⟨g1, g2⟩ := callsOf_good ch ty r (fun o ho => h o (by simp [ho]))
    have hx := h (.write fc xs) (by simp)
    refine ⟨?_, by simp [callsOf, samples, sampleList] at g2 ⊢; rw [g2]⟩
    intro d hd
    simp only [callsOf, List.mem_cons] at hd
    rcases hd with rfl | hd
    · exact ⟨hx.1, rfl⟩
    · exact g1 d hd
  | .update :: r, h => by simpa [callsOf, sampleList] using callsOf_good ch ty r (fun o ho => h o (by simp [ho]))
  | .auto b :: r, h => by simpa [callsOf, sampleList] using callsOf_good ch ty r (fun o ho => h o (by simp [ho]))

/-- the audio bytes of a job are the encoded samples, whatever the auto flag -/
theorem opsData_toW (K : Cont) (ty : Ty) : ∀ (ops : List Op) (a : Bool),
    Small2.opsData (toW K ty a ops) = K.enc.encodeAll {} ty (sampleList ops)
  | [], _ => rfl
  | .write _ xs :: r, a => by simp [toW, Small2.opsData, sampleList, opsData_toW K ty r a, Enc.encodeAll_append]
  | .update :: r, a => by simp [toW, Small2.opsData, sampleList, opsData_toW K ty r a]
  | .auto b :: r, a => by simp [toW, sampleList, opsData_toW K ty r b]

theorem refOps_valid (ch : Nat) (ty : Ty) (hch : 0 < ch) (ops : List Op) (h : Valid ch ty ops) : Valid ch ty (refOps ops) := by
  have hg := callsOf_good ch ty ops h
  have hl := samples_length ch _ hg.1
  rw [hg.2] at hl
  have hr : ∀ v ∈ sampleList ops, ty.inRange v := by
    clear hg hl
    induction ops with
    | nil => simp [sampleList]
    | cons op r ih =>
      have ih := ih (fun o ho => h o (by simp [ho]))
      cases op with
      | write fc xs =>
        have := (h (.write fc xs) (by simp)).2
        intro v hv; simp only [sampleList, List.mem_append] at hv
        rcases hv with hv | hv
        · exact this v hv
        · exact ih v hv
      | update => simpa [sampleList] using ih
      | auto b => simpa [sampleList] using ih
  intro op hop
  unfold refOps at hop
  split at hop
  · cases hop
  · simp only [List.mem_singleton] at hop
    subst hop
    exact ⟨by rw [hl]; exact Nat.mul_mod_left _ _, hr⟩

theorem refOps_samples (ops : List Op) : sampleList (refOps ops) = sampleList ops := by
  unfold refOps; split
  · rename_i h0; simp [sampleList, List.eq_nil_of_length_eq_zero h0]
  · simp [sampleList]

theorem range_of_valid (ch : Nat) (ty : Ty) : ∀ (ops : List Op), Valid ch ty ops → ∀ v ∈ sampleList ops, ty.inRange v
  | [], _ => by simp [sampleList]
  | .write fc xs :: r, h => by
    intro v hv; simp only [sampleList, List.mem_append] at hv
    rcases hv with hv | hv
    · exact (h (.write fc xs) (by simp)).2 v hv
    · exact range_of_valid ch ty r (fun o ho => h o (by simp [ho])) v hv
  | .update :: r, h => by simpa [sampleList] using range_of_valid ch ty r (fun o ho => h o (by simp [ho]))
  | .auto b :: r, h => by simpa [sampleList] using range_of_valid ch ty r (fun o ho => h o (by simp [ho]))

/-- SFC_SET_UPDATE_HEADER_AUTO after a list of operations -/
def autoAfter : Bool → List Op → Bool
  | a, [] => a
  | _, .auto b :: r => autoAfter b r
  | a, _ :: r => autoAfter a r

theorem autoAfter_append : ∀ (xs ys : List Op) (a : Bool), autoAfter a (xs ++ ys) = autoAfter (autoAfter a xs) ys
  | [], _, _ => rfl
  | .write _ _ :: xs, ys, a => by simp [autoAfter, autoAfter_append xs ys a]
  | .update :: xs, ys, a => by simp [autoAfter, autoAfter_append xs ys a]
  | .auto b :: xs, ys, a => by simp [autoAfter, autoAfter_append xs ys b]

theorem toW_append (K : Cont) (ty : Ty) : ∀ (xs ys : List Op) (a : Bool),
    toW K ty a (xs ++ ys) = toW K ty a xs ++ toW K ty (autoAfter a xs) ys
  | [], _, _ => rfl
  | .write _ _ :: xs, ys, a => by simp [toW, autoAfter, toW_append K ty xs ys a]
  | .update :: xs, ys, a => by simp [toW, autoAfter, toW_append K ty xs ys a]
  | .auto b :: xs, ys, a => by simp [toW, autoAfter, toW_append K ty xs ys b]

/-- every crash prefix is a prefix of the job and ends in a header rewrite -/
theorem crashes_spec (K : Cont) (ty : Ty) : ∀ (rest pre : List Op) (a : Bool) (p : List Op), p ∈ crashes pre rest a →
    ∃ mid post, p = pre ++ mid ∧ rest = mid ++ post ∧ ∀ a0, autoAfter a0 pre = a → EndsInRewrite (toW K ty a0 p)
  | [], _, _, _, hp => by simp [crashes] at hp
  | .write fc xs :: r, pre, a, p, hp => by
    simp only [crashes, List.mem_append] at hp
    rcases hp with hp | hp
    · split at hp
      · rename_i hc
        simp only [List.mem_singleton] at hp
        subst hp
        refine ⟨[.write fc xs], r, rfl, rfl, fun a0 ha => ?_⟩
        rw [toW_append, ha, hc.1]
        exact ⟨_, _, rfl, Or.inr ⟨_, rfl⟩⟩
      · simp at hp
    · obtain ⟨mid, post, e1, e2, e3⟩ := crashes_spec K ty r (pre ++ [.write fc xs]) a p hp
      refine ⟨.write fc xs :: mid, post, by rw [e1]; simp, by rw [e2]; rfl, fun a0 ha => e3 a0 ?_⟩
      rw [autoAfter_append, ha]; rfl
  | .update :: r, pre, a, p, hp => by
    simp only [crashes, List.mem_cons] at hp
    rcases hp with hp | hp
    · subst hp
      refine ⟨[.update], r, rfl, rfl, fun a0 _ => ?_⟩
      rw [toW_append]
      exact ⟨_, _, rfl, Or.inl rfl⟩
    · obtain ⟨mid, post, e1, e2, e3⟩ := crashes_spec K ty r (pre ++ [.update]) a p hp
      refine ⟨.update :: mid, post, by rw [e1]; simp, by rw [e2]; rfl, fun a0 ha => e3 a0 ?_⟩
      rw [autoAfter_append, ha]; rfl
  | .auto b :: r, pre, a, p, hp => by
    simp only [crashes] at hp
    obtain ⟨mid, post, e1, e2, e3⟩ := crashes_spec K ty r (pre ++ [.auto b]) b p hp
    refine ⟨.auto b :: mid, post, by rw [e1]; simp, by rw [e2]; rfl, fun a0 _ => e3 a0 ?_⟩
    rw [autoAfter_append]; rfl

/-- the model's reader on an image header ++ encoded samples ++ tail whose parser reports the samples' frames -/
theorem readBack_eval (K : Cont) (ty : Ty) (want : Nat) (bytes hdr tail : List Byte) (xs : List Int) (i : Small2.Info)
    (hnb : 0 < K.enc.nbytes) (hp : K.parse bytes = .ok i) (hb : bytes = hdr ++ K.enc.encodeAll {} ty xs ++ tail)
    (hl : hdr.length = K.L) (hf : i.frames * K.g.ch = xs.length) :
    readBack K ty want bytes =
      ((xs.length : Int), K.enc.decodeAll {} ty (K.enc.encodeAll {} ty xs) ++ List.replicate (want - xs.length) (pattern ty)) := by
  have hdl : (K.enc.decodeAll {} ty (K.enc.encodeAll {} ty xs)).length = xs.length := by
    rw [Enc.decodeAll_length _ _ _ hnb, Enc.encodeAll_length, Nat.mul_div_cancel _ hnb]
  have hitems : (K.enc.decodeAll {} ty (bytes.drop K.L)).take (i.frames * K.g.ch) =
      K.enc.decodeAll {} ty (K.enc.encodeAll {} ty xs) := by
    rw [hb, List.append_assoc, ← hl, List.drop_left' rfl,
      Enc.decodeAll_append _ _ _ hnb xs.length _ _ (Enc.encodeAll_length _ _ _ _), hf]
    exact List.take_left' hdl
  unfold readBack
  rw [hp]
  simp only [hitems, hdl]

end Sf.AbsWriteBridge.Small
