/-
  SfProofs.CodecClose — SFC_UPDATE_HEADER_NOW, open and close on states satisfying the writer invariant;
  the closed file as a function of the stable handle fields, the data bytes and the PEAK state.
-/
import SfProofs.CodecInv
namespace Sf

/-! ## a zero-count call does nothing -/

theorem stepWrite_zero_cw (h : H) (s : Store) (ty : Ty) (fc : Bool) (data : List Int) :
    stepWrite h s ty fc 0 data = (h, s, { ret := 0, err := h.error }) := by
  simp [stepWrite]

/-! ## SFC_UPDATE_HEADER_NOW -/

def uhH (h : H) (fl : Nat) : H :=
  if h.container != .raw then recalc { h with error := 0 } fl true else { h with error := 0 }

def uhHdr (h : H) (fl : Nat) (hdr : List Byte) : List Byte :=
  if h.container != .raw then hdrOf (recalc { h with error := 0 } fl true) else hdr

theorem updHeader_spec (h : H) (s : Store) (hdr dat : List Byte) (inv : WInv h s hdr dat) (size : Int) :
    stepCmdFlag h s 0x1060 size =
      (uhH h s.bytes.length, { bytes := uhHdr h s.bytes.length hdr ++ dat, pos := s.pos }, { ret := 0 }) := by
  have hE : hdrLenOf { h with error := 0 } = hdrLenOf h := hdrLenOf_congr _ _ rfl rfl rfl rfl
  have hpos : hdrLenOf h ≤ s.pos := by rw [inv.pos, inv.bytes, List.length_append, inv.hdr_len]; omega
  have hm : (h.mode != Mode.r) = true := by rw [inv.mode]; decide
  unfold stepCmdFlag uhH uhHdr
  simp only [hm, true_and]
  by_cases hc : (h.container != Container.raw) = true
  · have e1 := writeHeader_fst_cw { h with error := 0 } s true
    have e2 := writeHeader_snd { h with error := 0 } s true hdr dat inv.bytes (by rw [hE]; exact inv.hdr_len)
      (by rw [hE]; exact inv.doff) (by rw [hE]; exact hpos)
    simp only [hc, if_true]
    exact Prod.ext e1 (Prod.ext e2 rfl)
  · simp only [hc, if_false]
    have := inv.bytes
    cases s
    simp_all

@[simp] theorem uhH_store (h : H) (fl : Nat) : (uhH h fl).store = h.store := by
  unfold uhH; split <;> simp
@[simp] theorem uhH_mode (h : H) (fl : Nat) : (uhH h fl).mode = h.mode := by
  unfold uhH; split <;> simp
@[simp] theorem uhH_container (h : H) (fl : Nat) : (uhH h fl).container = h.container := by
  unfold uhH; split <;> simp
@[simp] theorem uhH_enc (h : H) (fl : Nat) : (uhH h fl).enc = h.enc := by
  unfold uhH; split <;> simp
@[simp] theorem uhH_big (h : H) (fl : Nat) : (uhH h fl).big = h.big := by
  unfold uhH; split <;> simp
@[simp] theorem uhH_ch (h : H) (fl : Nat) : (uhH h fl).ch = h.ch := by
  unfold uhH; split <;> simp
@[simp] theorem uhH_sr (h : H) (fl : Nat) : (uhH h fl).sr = h.sr := by
  unfold uhH; split <;> simp
@[simp] theorem uhH_fmtWord (h : H) (fl : Nat) : (uhH h fl).fmtWord = h.fmtWord := by
  unfold uhH; split <;> simp
@[simp] theorem uhH_frames (h : H) (fl : Nat) : (uhH h fl).frames = h.frames := by
  unfold uhH; split <;> simp
@[simp] theorem uhH_rpos (h : H) (fl : Nat) : (uhH h fl).rpos = h.rpos := by
  unfold uhH; split <;> simp
@[simp] theorem uhH_wpos (h : H) (fl : Nat) : (uhH h fl).wpos = h.wpos := by
  unfold uhH; split <;> simp
@[simp] theorem uhH_lastOp (h : H) (fl : Nat) : (uhH h fl).lastOp = h.lastOp := by
  unfold uhH; split <;> simp
@[simp] theorem uhH_haveWritten (h : H) (fl : Nat) : (uhH h fl).haveWritten = h.haveWritten := by
  unfold uhH; split <;> simp
@[simp] theorem uhH_autoHeader (h : H) (fl : Nat) : (uhH h fl).autoHeader = h.autoHeader := by
  unfold uhH; split <;> simp
@[simp] theorem uhH_conv (h : H) (fl : Nat) : (uhH h fl).conv = h.conv := by
  unfold uhH; split <;> simp
@[simp] theorem uhH_dataend (h : H) (fl : Nat) : (uhH h fl).dataend = h.dataend := by
  unfold uhH; split <;> simp
@[simp] theorem uhH_peak (h : H) (fl : Nat) : (uhH h fl).peak = h.peak := by
  unfold uhH; split <;> simp
@[simp] theorem uhH_peakAtStart (h : H) (fl : Nat) : (uhH h fl).peakAtStart = h.peakAtStart := by
  unfold uhH; split <;> simp
@[simp] theorem uhH_canTruncate (h : H) (fl : Nat) : (uhH h fl).canTruncate = h.canTruncate := by
  unfold uhH; split <;> simp

theorem uhH_hdrLen (h : H) (fl : Nat) : hdrLenOf (uhH h fl) = hdrLenOf h :=
  hdrLenOf_congr _ _ (by simp) (by simp) (by simp) (by simp)

theorem updHeader_winv (h : H) (s : Store) (hdr dat : List Byte) (inv : WInv h s hdr dat) (size : Int) :
    WInv (stepCmdFlag h s 0x1060 size).1 (stepCmdFlag h s 0x1060 size).2.1 (uhHdr h s.bytes.length hdr) dat := by
  rw [updHeader_spec h s hdr dat inv size]
  have hE : hdrLenOf { h with error := 0 } = hdrLenOf h := hdrLenOf_congr _ _ rfl rfl rfl rfl
  have hlen : (uhHdr h s.bytes.length hdr).length = hdrLenOf h := by
    unfold uhHdr; split
    · rw [hdrOf_length, recalc_hdrLen, hE]
    · exact inv.hdr_len
  constructor
  · simp [inv.mode]
  · simp [inv.lastOp]
  · simp [inv.ch_pos]
  · simp [inv.wpos_nonneg]
  · simp [inv.frames]
  · simp [inv.dataend]
  · simp only [uhH_hdrLen]
    unfold uhH; split
    · rw [recalc_dataoffset' _ _ _ (by rw [hE]; exact inv.doff), hE]
    · exact inv.doff
  · simp only [uhH_hdrLen]; exact hlen
  · rfl
  · simp only [List.length_append]
    rw [hlen, inv.pos, inv.bytes, List.length_append, inv.hdr_len]
  · simp only [uhH_wpos, uhH_enc, uhH_ch]; exact inv.dat_len
  · simp only [uhH_peak, uhH_ch]; exact inv.peak_len

/-! ## close -/

def wavPad (h : H) (dat : List Byte) : List Byte :=
  if (((hdrLenOf h + dat.length : Nat) : Int) % 2 == 1) then [0] else []

def wavTail (h : H) : List Byte :=
  match h.peak with
  | some ps => if !h.peakAtStart then pkChunk h.big h.ch ps else []
  | none => []

/-- the bytes of the closed file, from the handle's stable fields, `frames`, `peak`, and the data bytes -/
def closeForm (h : H) (dat : List Byte) : List Byte :=
  match h.container with
  | .raw => dat
  | .au => auHdr h.big dat.length h.fmtWord h.sr h.ch ++ dat
  | .wav =>
    wavHdr h.big ((hdrLenOf h + dat.length + (wavPad h dat ++ wavTail h).length : Nat) : Int) h.enc.nbytes h.ch h.sr
        h.frames h.peak h.peakAtStart dat.length h.fmtWord ++ (dat ++ (wavPad h dat ++ wavTail h))

theorem WInv.dl (h : H) (s : Store) (hdr dat : List Byte) (inv : WInv h s hdr dat) :
    h.frames * h.nb * h.ch = (dat.length : Int) := by
  rw [inv.dat_len, inv.frames, H.nb]; push_cast; rw [Int.mul_assoc]

theorem wavHdrLen_pos (h : H) : 0 < wavHdrLen h := by unfold wavHdrLen; simp only []; omega

theorem wavTailer_spec (h : H) (s : Store) (hdr dat : List Byte) (inv : WInv h s hdr dat) (hc : h.container = .wav) :
    wavTailer h s =
      ({ h with datalength := dat.length, dataend := ((hdrLenOf h + dat.length : Nat) : Int) },
       { bytes := hdr ++ (dat ++ (wavPad h dat ++ wavTail h)), pos := s.pos + (wavPad h dat ++ wavTail h).length }) := by
  have hdl := WInv.dl h s hdr dat inv
  have hlen : hdrLenOf h = wavHdrLen h := by simp [hdrLenOf, hc]
  have hpos := wavHdrLen_pos h
  have hde : h.dataoffset + (dat.length : Int) = ((hdrLenOf h + dat.length : Nat) : Int) := by
    rw [inv.doff]; push_cast; rfl
  have hgt : ((hdrLenOf h + dat.length : Nat) : Int) > 0 := by omega
  have hsp : s.pos = hdrLenOf h + dat.length := by rw [inv.pos, inv.bytes, List.length_append, inv.hdr_len]
  unfold wavTailer
  simp only [hdl, hde, hgt, if_true]
  refine Prod.ext rfl ?_
  simp only []
  have : (Store.seekSet s ((hdrLenOf h + dat.length : Nat) : Int).toNat) = s := by
    cases s; simp only [Store.seekSet, Int.toNat_natCast] at *; rw [hsp]
  rw [this, Store.write_end s _ inv.pos, inv.bytes]
  simp [wavPad, wavTail, peakChunk_eq]
  cases h.peak <;> simp

theorem close_spec (h : H) (s : Store) (hdr dat : List Byte) (inv : WInv h s hdr dat) :
    (closeHandle h s).bytes = closeForm h dat := by
  have hm : (h.mode == Mode.r) = false := by rw [inv.mode]; decide
  have hsp : s.pos = hdrLenOf h + dat.length := by rw [inv.pos, inv.bytes, List.length_append, inv.hdr_len]
  unfold closeHandle closeForm
  simp only [hm, Bool.false_eq_true, if_false]
  cases hc : h.container with
  | raw =>
    have h0 : hdrLenOf h = 0 := by simp [hdrLenOf, hc]
    have : hdr = [] := List.eq_nil_of_length_eq_zero (by rw [inv.hdr_len, h0])
    simp [inv.bytes, this]
  | au =>
    have h24 : hdrLenOf h = 24 := by simp [hdrLenOf, hc]
    simp only []
    rw [writeHeader_snd h s true hdr dat inv.bytes inv.hdr_len inv.doff (by omega), hdrOf_recalc, hc]
    simp only [recalc_datalength, hc, inv.dataend, inv.doff, inv.bytes, List.length_append, inv.hdr_len, h24]
    simp
    congr 1; omega
  | wav =>
    simp only []
    rw [wavTailer_spec h s hdr dat inv hc]
    have hrw : (h.mode == Mode.rw) = false := by rw [inv.mode]; decide
    simp only [hrw, Bool.false_eq_true, if_false]
    have hT : hdrLenOf ({ h with datalength := dat.length, dataend := ((hdrLenOf h + dat.length : Nat) : Int) } : H) = hdrLenOf h :=
      hdrLenOf_congr _ _ rfl rfl rfl rfl
    rw [writeHeader_snd _ _ true hdr (dat ++ (wavPad h dat ++ wavTail h)) rfl (by rw [hT]; exact inv.hdr_len)
      (by rw [hT]; exact inv.doff) (by rw [hT]; simp only []; omega), hdrOf_recalc]
    simp only [hc, recalc_datalength, recalc_filelength]
    have hne : (((hdrLenOf h + dat.length : Nat) : Int) != 0) = true := by
      have := wavHdrLen_pos h
      have hlen : hdrLenOf h = wavHdrLen h := by simp [hdrLenOf, hc]
      simp; omega
    simp only [hne, if_true, inv.doff]
    simp [inv.hdr_len]
    congr 1 <;> omega

/-! ## open -/

theorem writeHeader_empty (h : H) (s : Store) (hs : s.bytes = []) (hp : s.pos = 0) (hd : h.container = .wav → 0 ≤ h.dataoffset) :
    (writeHeader h s false).2 = { bytes := hdrOf h, pos := hdrLenOf h } := by
  have e0 : ∀ d : List Byte, (s.seekSet 0).write d = { bytes := d, pos := d.length } := by
    intro d
    have := Store.write_at0 s [] d [] (by simp [hs])
    cases d with
    | nil => cases s; simp_all [Store.write, Store.seekSet]
    | cons x t => simp [Store.write, Store.seekSet, hs, writeAt]
  unfold writeHeader hdrOf hdrLenOf
  cases hc : h.container with
  | raw => cases s; simp_all
  | au => simp only [e0, hp, auHeader_length]; simp
  | wav =>
    have := hd hc
    have hn : ¬ ((s.pos : Int) > h.dataoffset) := by rw [hp]; omega
    simp only [e0]
    simp only [hn, decide_false, Bool.not_false, if_true, Store.seekSet, wavHeader_length, Bool.false_eq_true, if_false]

theorem open_winv (si : Nat) (s0 : Store) (hs : s0.bytes = []) (fmt : Nat) (ch sr : Int) (h : H) (s : Store)
    (ho : openHandle si s0 .w fmt ch sr = .ok h s) :
    WInv h s s.bytes [] ∧ h.wpos = 0 := by
  unfold openHandle at ho
  simp only [beq_self_eq_true, true_or, if_true] at ho
  split at ho
  · cases ho
  · rename_i c hc
    split at ho
    · cases ho
    · split at ho
      · cases ho
      · rename_i enc he
        split at ho
        · cases ho
        · rename_i hch _ hsr
          have hchp : 0 < ch.toNat := by omega
          have hs0 : (s0.seekSet 0).bytes = [] := hs
          have e2 : ∀ h1 : H, (h1.container = .wav → 0 ≤ h1.dataoffset) →
              (writeHeader h1 (s0.seekSet 0) false).2 = ⟨hdrOf h1, hdrLenOf h1⟩ :=
            fun h1 hd => writeHeader_empty h1 _ hs0 rfl hd
          cases c
          · simp only [] at ho
            cases ho
            refine ⟨?_, by simp⟩
            constructor <;> simp [initFrames, hs, hdrLenOf, hchp, Store.seekSet]
          · simp only [] at ho
            cases ho
            refine ⟨?_, by simp [writeHeader_fst_cw]⟩
            constructor <;> simp [writeHeader_fst_cw, e2, hdrLenOf, hchp, recalc_dataoffset, hdrOf_length]
          · simp only [] at ho
            cases ho
            refine ⟨?_, by simp [writeHeader_fst_cw]⟩
            constructor <;> simp [writeHeader_fst_cw, e2, hdrLenOf, hchp, recalc_dataoffset, hdrOf_length, mkPeaks, wavHdrLen]

end Sf
