/-
  SfProofs.AlacMono — a compressed mono element (EncodeMono's output for any coefficient row and predictor order) is
  decoded by `alac_decode`'s ID_SCE branch to the truncated samples: parameter block, shifted-off bytes, Golomb coder,
  predictor and output conversion put together.
-/
import SfProofs.AlacEscape
import SfProofs.AlacInverse
import SfProofs.AlacGolombLoop
import SfModel.AlacDec
namespace Sf.AlacCore

def Int16 (c : Int) : Prop := -32768 ≤ c ∧ c < 32768

theorem hdrBits_length (pf : Bool) (bs n : Nat) (esc : Bool) : (hdrBits pf bs n esc).length = if pf then 48 else 16 := by
  unfold hdrBits
  cases pf <;> simp [bitsOf_length]

/-- the element header as `hdrBits` writes it is read back -/
theorem rdHeader_hdr (inst n reqN bs : Nat) (esc : Bool) (hbs : bs ≤ 2) (hn : n ≤ frameLen) (hreq : n = frameLen → reqN = frameLen)
    (rest : Bits) (p : Nat) :
    rdHeader reqN ⟨bitsOf inst 4 ++ (hdrBits (decide (n ≠ frameLen)) bs n esc ++ rest), p⟩ =
      (.ok ⟨bs, esc, n⟩, ⟨rest, p + 4 + escHeaderLen n⟩) := by
  have hbs' : bs = 0 ∨ bs = 1 ∨ bs = 2 := by omega
  unfold hdrBits escHeaderLen rdHeader
  by_cases h : n = frameLen
  · subst h
    simp only [ne_eq, not_true_eq_false, decide_false, Bool.false_eq_true, if_false, List.append_assoc, List.nil_append, read_bitsOf,
      hreq rfl]
    rcases hbs' with rfl | rfl | rfl <;> cases esc <;> simp [frameLen]
  · have hlt : n < 4096 := by unfold frameLen at hn h; omega
    simp only [ne_eq, h, not_false_eq_true, decide_true, if_true, List.append_assoc, read_bitsOf]
    have e1 : n / 2 ^ 16 % 2 ^ 16 = 0 := by omega
    have e2 : n % 2 ^ 16 = n := by omega
    have r1 : ∀ q, (Rd.mk (bitsOf n 32 ++ rest) q).read 16 = (0, Rd.mk (bitsOf n 16 ++ rest) (q + 16)) := by
      intro q
      rw [show bitsOf n 32 = bitsOf n (16 + 16) from rfl, read_split, e1]
    have e3 : n % 65536 = n := by omega
    rcases hbs' with rfl | rfl | rfl <;> cases esc <;> simp [r1, read_bitsOf, e2, e3, frameLen, hlt]

theorem rdCoefs_coefBits (cs : List Int) (hcs : ∀ c ∈ cs, Int16 c) (rest : Bits) (p : Nat) :
    rdCoefs cs.length ⟨cs.flatMap (fun c => bitsOf (wrapU 16 c) 16) ++ rest, p⟩ = (cs, ⟨rest, p + 16 * cs.length⟩) := by
  induction cs generalizing p with
  | nil => simp [rdCoefs]
  | cons c cs ih =>
    simp only [List.flatMap_cons, List.append_assoc, List.length_cons, rdCoefs, read_bitsOf]
    rw [ih (fun x hx => hcs x (by simp [hx]))]
    obtain ⟨h1, h2⟩ := hcs c (by simp)
    have : sext 16 (wrapU 16 c % 2 ^ 16) = c := by
      unfold sext wrapU
      simp only [Int.reducePow, Nat.reducePow, Nat.reduceSub]
      split <;> omega
    have this2 : sext 16 (wrapU 16 c % 65536) = c := by simpa using this
    simp [this2, Nat.mul_succ]; omega

theorem rdFields_enc (w : Nat) (ss : List Nat) (hss : ∀ s ∈ ss, s < 2 ^ w) (rest : Bits) (p : Nat) :
    rdFields w ss.length ⟨ss.flatMap (fun s => bitsOf s w) ++ rest, p⟩ = (ss, ⟨rest, p + w * ss.length⟩) := by
  induction ss generalizing p with
  | nil => simp [rdFields]
  | cons s ss ih =>
    simp only [List.flatMap_cons, List.append_assoc, List.length_cons, rdFields, read_bitsOf]
    rw [ih (fun x hx => hss x (by simp [hx])), Nat.mod_eq_of_lt (hss s (by simp))]
    simp [Nat.mul_succ]; omega

theorem flatMap_bits_length (w : Nat) (ss : List Nat) : (ss.flatMap fun s => bitsOf s w).length = w * ss.length := by
  induction ss with
  | nil => rfl
  | cons s ss ih => simp [List.flatMap_cons, bitsOf_length, ih, Nat.mul_succ]; omega

theorem pcBlock_take (inp coefs : List Int) (na cb ds : Nat) : (pcBlock inp (coefs.take na) na cb ds).1 = (pcBlock inp coefs na cb ds).1 := by
  unfold pcBlock
  cases inp with
  | nil => rfl
  | cons x0 xs => simp only [List.take_take, Nat.min_self]; split <;> [rfl; (split <;> rfl)]

/-- a value cut to `cb` bits fits `cb` bits -/
theorem sx_fits (cb : Nat) (hcb : 1 ≤ cb) (y : Int) : -(2 : Int) ^ (cb - 1) ≤ sx cb y ∧ sx cb y < (2 : Int) ^ (cb - 1) := by
  unfold sx wrapS
  have e : (2 : Int) ^ cb = 2 * 2 ^ (cb - 1) := by rw [← Int.pow_succ']; congr 1; omega
  have hpos : (0 : Int) < 2 ^ (cb - 1) := Int.pow_pos (by decide)
  have h1 := Int.emod_nonneg y (show (2 : Int) ^ cb ≠ 0 by omega)
  have h2 := Int.emod_lt_of_pos y (show (0 : Int) < 2 ^ cb by omega)
  simp only []
  rw [e] at h1 h2 ⊢
  have : 2 * (2 : Int) ^ (cb - 1) / 2 = 2 ^ (cb - 1) := by omega
  rw [this]
  split <;> omega

theorem sx_of_fits (cb : Nat) (hcb : 1 ≤ cb) (y : Int) (h1 : -(2 : Int) ^ (cb - 1) ≤ y) (h2 : y < (2 : Int) ^ (cb - 1)) : sx cb y = y := by
  unfold sx wrapS
  have e : (2 : Int) ^ cb = 2 * 2 ^ (cb - 1) := by rw [← Int.pow_succ']; congr 1; omega
  have hpos : (0 : Int) < 2 ^ (cb - 1) := Int.pow_pos (by decide)
  simp only []
  rw [e]
  have : 2 * (2 : Int) ^ (cb - 1) / 2 = 2 ^ (cb - 1) := by omega
  rw [this]
  by_cases hy : 0 ≤ y
  · have : y % (2 * 2 ^ (cb - 1)) = y := Int.emod_eq_of_lt hy (by omega)
    rw [this]; simp [h2]
  · have : y % (2 * 2 ^ (cb - 1)) = y + 2 * 2 ^ (cb - 1) := by
      rw [← Int.add_mul_emod_self_left y (2 * 2 ^ (cb - 1)) 1, Int.mul_one]
      exact Int.emod_eq_of_lt (by omega) (by omega)
    rw [this]
    have : ¬ (y + 2 * 2 ^ (cb - 1) < 2 ^ (cb - 1)) := by omega
    simp only [this, if_false]; omega

theorem pcStep_fits (na cb ds : Nat) (hcb : 1 ≤ cb) (coefs hist : List Int) (x : Int) : Fits cb (pcStep na cb ds coefs hist x).1 := by
  unfold pcStep
  simp only []
  split <;> exact sx_fits cb hcb _

theorem pcLoop_fits (na cb ds : Nat) (hcb : 1 ≤ cb) (xs : List Int) : ∀ (j : Nat) (coefs hist : List Int),
    ∀ r ∈ (pcLoop na cb ds xs j coefs hist).1, Fits cb r := by
  induction xs with
  | nil => intro j coefs hist r hr; simp [pcLoop] at hr
  | cons x xs ih =>
    intro j coefs hist r hr
    rw [pcLoop] at hr
    split at hr
    · simp only [List.mem_cons] at hr
      rcases hr with rfl | hr
      · exact sx_fits cb hcb _
      · exact ih _ _ _ r hr
    · simp only [List.mem_cons] at hr
      rcases hr with rfl | hr
      · exact pcStep_fits na cb ds hcb coefs hist x
      · exact ih _ _ _ r hr

theorem foldl_fits (cb : Nat) (hcb : 1 ≤ cb) (xs : List Int) : ∀ (acc : List Int) (p : Int), (∀ r ∈ acc, Fits cb r) →
    ∀ r ∈ (xs.foldl (fun (a : List Int × Int) x => (sx cb (w32 (x - a.2)) :: a.1, x)) (acc, p)).1, Fits cb r := by
  induction xs with
  | nil => intro acc p h r hr; exact h r hr
  | cons x xs ih =>
    intro acc p h r hr
    simp only [List.foldl_cons] at hr
    exact ih _ _ (by intro r' hr'; simp only [List.mem_cons] at hr'; rcases hr' with rfl | h'; exact sx_fits cb hcb _; exact h r' h') r hr

/-- the residuals of `pc_block` fit the channel width (so the Golomb coder can code them in `chanbits` bits) -/
theorem pcBlock_fits (inp coefs : List Int) (na cb ds : Nat) (hcb : 1 ≤ cb) (hin : ∀ x ∈ inp, Fits cb x) :
    ∀ r ∈ (pcBlock inp coefs na cb ds).1, Fits cb r := by
  cases inp with
  | nil => intro r hr; simp [pcBlock] at hr
  | cons x0 xs =>
    intro r hr
    simp only [pcBlock] at hr
    split at hr
    · exact hin r hr
    · split at hr
      · simp only [List.mem_reverse] at hr
        exact foldl_fits cb hcb xs [x0] x0 (by intro r' hr'; simp at hr'; subst hr'; exact hin _ (by simp)) r hr
      · simp only [List.mem_cons] at hr
        rcases hr with rfl | hr
        · exact hin _ (by simp)
        · exact pcLoop_fits na cb ds hcb xs 1 _ _ r hr

theorem pcBlock_length (inp coefs : List Int) (na cb ds : Nat) : (pcBlock inp coefs na cb ds).1.length = inp.length := by
  cases inp with
  | nil => rfl
  | cons x0 xs =>
    simp only [pcBlock]
    have hl : ∀ (ys : List Int) (j : Nat) (c h : List Int), (pcLoop na cb ds ys j c h).1.length = ys.length := by
      intro ys
      induction ys with
      | nil => intro j c h; simp [pcLoop]
      | cons y ys ih => intro j c h; rw [pcLoop]; split <;> simp [ih]
    have hf : ∀ (ys : List Int) (a : List Int) (q : Int),
        (ys.foldl (fun (a : List Int × Int) x => (sx cb (w32 (x - a.2)) :: a.1, x)) (a, q)).1.length = a.length + ys.length := by
      intro ys
      induction ys with
      | nil => intro a q; simp
      | cons y ys ih => intro a q; simp only [List.foldl_cons, ih, List.length_cons]; omega
    split
    · rfl
    · split
      · simp [hf]; omega
      · simp [hl]

theorem depth_facts {depth : Nat} (hd : Depth depth) :
    bytesShiftedOf depth ≤ 2 ∧ 1 ≤ depth - 8 * bytesShiftedOf depth ∧ depth - 8 * bytesShiftedOf depth ≤ 20 ∧ 8 * bytesShiftedOf depth ≤ depth := by
  rcases hd with rfl | rfl | rfl | rfl <;> decide

theorem monoMix_fits {depth : Nat} (hd : Depth depth) (xs : List Int) (hxs : ∀ x ∈ xs, I32 x) :
    ∀ y ∈ monoMix depth xs, Fits (depth - 8 * bytesShiftedOf depth) y := by
  intro y hy
  simp only [monoMix, List.mem_map] at hy
  obtain ⟨x, hx, rfl⟩ := hy
  obtain ⟨h1, h2⟩ := hxs x hx
  unfold Fits asr
  rcases hd with rfl | rfl | rfl | rfl <;> simp [bytesShiftedOf] <;> omega

theorem zipWith_map_map {α β γ δ : Type} (f : β → γ → δ) (g : α → β) (h : α → γ) (l : List α) :
    List.zipWith f (l.map g) (l.map h) = l.map fun a => f (g a) (h a) := by
  induction l with
  | nil => rfl
  | cons a l ih => simp [ih]

/-- the output conversion of a mono element undoes the encoder's input conversion -/
theorem outChan_mono {depth : Nat} (hd : Depth depth) (xs : List Int) (hxs : ∀ x ∈ xs, I32 x) :
    outChan Rules.current depth (bytesShiftedOf depth) (monoMix depth xs) (monoShift depth xs) = some (xs.map (trunc depth)) := by
  unfold monoMix monoShift
  rcases hd with rfl | rfl | rfl | rfl
  · simp [outChan, bytesShiftedOf, trunc, List.map_map, Function.comp_def, asr]
  · simp [outChan, bytesShiftedOf, trunc, List.map_map, Function.comp_def, asr]
  · simp only [outChan, bytesShiftedOf, Rules.current]
    simp only [show ¬ ((24 : Nat) = 16) by decide, show ¬ ((24 : Nat) = 20) by decide, show ¬ ((24 : Nat) = 32) by decide, if_false, if_true,
      ge_iff_le, Nat.le_refl, ne_eq, Nat.succ_ne_zero, not_false_eq_true, zipWith_map_map]
    congr 1
    apply List.map_congr_left
    intro x hx
    obtain ⟨h1, h2⟩ := hxs x hx
    unfold trunc shl32 w32 wrapS wrapU asr
    simp only [Nat.reduceMul, Nat.reduceSub, Int.reducePow, Nat.reducePow]
    repeat' split
    all_goals omega
  · simp only [outChan, bytesShiftedOf, Rules.current]
    simp only [show ¬ ((32 : Nat) = 16) by decide, show ¬ ((32 : Nat) = 20) by decide, show ¬ ((32 : Nat) = 24) by decide, if_false, if_true,
      ne_eq, Nat.succ_ne_zero, not_false_eq_true, zipWith_map_map, OfNat.ofNat_ne_zero]
    congr 1
    apply List.map_congr_left
    intro x hx
    obtain ⟨h1, h2⟩ := hxs x hx
    unfold trunc shl32 w32 wrapS wrapU asr
    simp only [Nat.reduceMul, Nat.reduceSub, Int.reducePow, Nat.reducePow]
    repeat' split
    all_goals omega

theorem monoShift_lt (depth : Nat) (xs : List Int) : ∀ s ∈ monoShift depth xs, s < 2 ^ (8 * bytesShiftedOf depth) := by
  intro s hs
  simp only [monoShift, List.mem_map] at hs
  obtain ⟨x, _, rfl⟩ := hs
  exact Nat.mod_lt _ (Nat.pow_pos (by decide))

theorem compMonoBits_length (depth fs : Nat) (xs coefs : List Int) (numU : Nat) (hlen : numU ≤ coefs.length) :
    (compMonoBits depth fs xs coefs numU).length =
      (if xs.length ≠ fs then 48 else 16) + 32 + 16 * numU + (if bytesShiftedOf depth ≠ 0 then 8 * bytesShiftedOf depth * xs.length else 0) +
        (dynComp stdAg (pcBlock (monoMix depth xs) coefs numU (depth - 8 * bytesShiftedOf depth) 9).1 (depth - 8 * bytesShiftedOf depth)).length := by
  have h1 : (coefBits coefs numU).length = 16 * numU := by
    unfold coefBits
    have : ∀ l : List Int, (l.flatMap fun c => bitsOf (wrapU 16 c) 16).length = 16 * l.length := by
      intro l; induction l with
      | nil => rfl
      | cons a l ih => rw [List.flatMap_cons, List.length_append, bitsOf_length, ih, List.length_cons]; omega
    rw [this, List.length_take, Nat.min_eq_left hlen]
  have h2 : (if bytesShiftedOf depth ≠ 0 then (monoShift depth xs).flatMap fun s => bitsOf s (8 * bytesShiftedOf depth) else []).length =
      (if bytesShiftedOf depth ≠ 0 then 8 * bytesShiftedOf depth * xs.length else 0) := by
    split
    · rw [flatMap_bits_length]; simp [monoShift]
    · rfl
  have h3 : (hdrBits (decide (xs.length ≠ fs)) (bytesShiftedOf depth) xs.length false).length = (if xs.length ≠ fs then 48 else 16) := by
    rw [hdrBits_length]; by_cases h : xs.length = fs <;> simp [h]
  unfold compMonoBits
  simp only []
  rw [List.length_append, List.length_append, List.length_append, List.length_append, List.length_append, List.length_append, h1, h2, h3,
    bitsOf_length, bitsOf_length, bitsOf_length]

/-- a compressed mono element, whatever coefficient row and order the encoder's search picked, is decoded to the
    samples (low bits cleared) -/
theorem decMono_comp {cfg : Config} (hd : Depth cfg.bitDepth) (hmb : cfg.mb = 10) (hpb : cfg.pb = 40) (hkb : cfg.kb = 14)
    (byteSize inst reqN : Nat) (xs coefs : List Int) (numU : Nat) (hlen : numU ≤ coefs.length) (hnu : numU < 31)
    (hcoefs : ∀ c ∈ coefs.take numU, Int16 c) (hxs : ∀ x ∈ xs, I32 x) (hn : xs.length ≤ frameLen)
    (hreq : xs.length = frameLen → reqN = frameLen) (rest : Bits) (p : Nat)
    (hroom : p + 4 + (compMonoBits cfg.bitDepth frameLen xs coefs numU).length ≤ byteSize * 8) :
    decMono (comp Rules.current byteSize) Rules.current cfg reqN
        ⟨bitsOf inst 4 ++ (compMonoBits cfg.bitDepth frameLen xs coefs numU ++ rest), p⟩ =
      .done xs.length [xs.map (trunc cfg.bitDepth)] ⟨rest, p + 4 + (compMonoBits cfg.bitDepth frameLen xs coefs numU).length⟩ := by
  obtain ⟨hbs, hcb1, hcb31, hle⟩ := depth_facts hd
  have hL := compMonoBits_length cfg.bitDepth frameLen xs coefs numU hlen
  have hE : (if xs.length ≠ frameLen then 48 else 16) = escHeaderLen xs.length := rfl
  rw [hE] at hL
  rw [hL] at hroom ⊢
  unfold compMonoBits at ⊢
  simp only []
  generalize hpc : (pcBlock (monoMix cfg.bitDepth xs) coefs numU (cfg.bitDepth - 8 * bytesShiftedOf cfg.bitDepth) 9).1 = pc at hroom ⊢
  have hpclen : pc.length = xs.length := by rw [← hpc, pcBlock_length]; simp [monoMix]
  have hpcfit : ∀ r ∈ pc, Fits (cfg.bitDepth - 8 * bytesShiftedOf cfg.bitDepth) r := by
    rw [← hpc]; exact pcBlock_fits _ _ _ _ _ hcb1 (monoMix_fits hd xs hxs)
  unfold decMono
  simp only [List.append_assoc]
  rw [rdHeader_hdr inst xs.length reqN (bytesShiftedOf cfg.bitDepth) false hbs hn hreq]
  simp only [Bool.false_eq_true, if_false, comp, compMono, rdChanParams]
  -- mixBits, mixRes, mode / denShift, pbFactor / order, coefficients
  rw [show bitsOf 0 16 = bitsOf 0 (8 + 8) from rfl, read_split]
  simp only [read_bitsOf]
  have hfb : (4 * 32 + numU) % 2 ^ 8 = 128 + numU := by omega
  simp only [hfb, show (128 + numU) % 32 = numU by omega]
  unfold coefBits
  have hct : (coefs.take numU).length = numU := by rw [List.length_take, Nat.min_eq_left hlen]
  have hrc := rdCoefs_coefBits (coefs.take numU) hcoefs
  rw [hct] at hrc
  rw [hrc]
  simp only [Nat.reducePow, Nat.reduceMod, Nat.reduceDiv]
  -- the shifted-off bytes are skipped, the domain holds
  have hdom : inDomain cfg (cfg.bitDepth - 8 * bytesShiftedOf cfg.bitDepth) = true := by
    simp [inDomain, hkb]; omega
  have hnlt : ¬ (cfg.bitDepth < 8 * bytesShiftedOf cfg.bitDepth) := by omega
  simp only [hdom, Bool.not_true, Bool.false_or, decide_eq_true_eq, hnlt, if_false]
  -- dyn_decomp, then unpc_block
  have hag : setAgParams cfg.mb (cfg.pb * ((128 + numU) / 32) / 4) cfg.kb = stdAg := by
    rw [hmb, hpb, hkb, show (128 + numU) / 32 = 4 by omega]; rfl
  have hmixfit : ∀ y ∈ monoMix cfg.bitDepth xs, sx (cfg.bitDepth - 8 * bytesShiftedOf cfg.bitDepth) y = y := by
    intro y hy
    obtain ⟨h1, h2⟩ := monoMix_fits hd xs hxs y hy
    exact sx_of_fits _ hcb1 y h1 h2
  have hun : unpcBlock pc (coefs.take numU) (coefs.take numU).length (cfg.bitDepth - 8 * bytesShiftedOf cfg.bitDepth) 9 = monoMix cfg.bitDepth xs := by
    rw [hct, ← hpc, ← pcBlock_take]
    exact unpcBlock_pcBlock _ _ numU _ 9 (by omega) (by omega) hmixfit
  by_cases hb0 : bytesShiftedOf cfg.bitDepth = 0
  · -- no shift bytes
    have hout : outChan Rules.current cfg.bitDepth 0 (monoMix cfg.bitDepth xs) [] = some (xs.map (trunc cfg.bitDepth)) := by
      have := outChan_mono hd xs hxs
      rw [hb0] at this
      rcases hd with h | h | h | h <;> rw [h] at this hb0 ⊢ <;> first
        | (simp [outChan] at this ⊢; exact this)
        | (simp [bytesShiftedOf] at hb0)
    simp only [hb0, ne_eq, not_true_eq_false, if_false, List.nil_append, Nat.mul_zero, Nat.sub_zero, Nat.zero_mul] at hroom hpc hpcfit hun ⊢
    simp only [decChan, hag]
    rw [← hpclen]
    rw [dynDecomp_dynComp cfg.bitDepth (by omega) (by omega) pc hpcfit rest _ byteSize (by rw [hpclen]; omega)]
    simp only [Bool.not_true, Bool.false_eq_true, if_false, Nat.reduceDiv, if_true, hun, hout, Option.getD_some, ElemRes.done.injEq, true_and,
      Rd.mk.injEq, hpclen]
    omega
  · -- the shifted-off bytes come first
    have hshlen : ((monoShift cfg.bitDepth xs).flatMap fun s => bitsOf s (8 * bytesShiftedOf cfg.bitDepth)).length =
        8 * bytesShiftedOf cfg.bitDepth * xs.length := by rw [flatMap_bits_length]; simp [monoShift]
    have hsl : (monoShift cfg.bitDepth xs).length = xs.length := by simp [monoShift]
    simp only [hb0, ne_eq, not_false_eq_true, if_true, List.append_assoc] at hroom ⊢
    simp only [Rd.advance, List.drop_left' hshlen]
    simp only [decChan, hag]
    rw [← hpclen]
    rw [dynDecomp_dynComp _ hcb1 (by omega) pc hpcfit rest _ byteSize (by rw [hpclen]; omega)]
    have hrf := rdFields_enc (8 * bytesShiftedOf cfg.bitDepth) (monoShift cfg.bitDepth xs) (monoShift_lt cfg.bitDepth xs)
    rw [hsl, ← hpclen] at hrf
    have hsh : (if bytesShiftedOf cfg.bitDepth ≠ 0 then 8 * bytesShiftedOf cfg.bitDepth * xs.length else 0) =
        8 * bytesShiftedOf cfg.bitDepth * xs.length := if_pos hb0
    simp only [Bool.not_true, Bool.false_eq_true, if_false, Nat.reduceDiv, if_true, hun]
    rw [hrf]
    simp only [outChan_mono hd xs hxs, Option.getD_some, ElemRes.done.injEq, true_and, Rd.mk.injEq, hpclen, hsh]
    omega

end Sf.AlacCore
