/-
  SfProofs.AbsBridgeHolesRun — the bridge Sf.Handle → Sf.Abs for geometries that CLAIM HOLES (`g.holeZero ty = true`: a frame
  nobody wrote reads as 0; what the C08 hole campaign, vlib/c08holes.py, runs signed-PCM / float / double files with).

  `GeomForH g h` is `GeomFor g h` with the clause `holeZero = ∅` replaced by "only where zero bytes decode to zero"
  (`holeZeroFor h.enc`).  `write_step_h` and `trunc_step_h` are the two steps whose abstract state depends on the claim — a write
  at a write position beyond the frame count (`write_ref_hole`) and an extending SFC_FILE_TRUNCATE (`trunc_ref_extend`); every
  other operation is judged exactly as without the claim (`check_holeZero_irrelevant`), so `step_bridge_h` / `run_bridge_h`
  reuse the steps of AbsBridgeSteps / AbsBridgeRun.
-/
import SfProofs.AbsBridgeHoles
import SfProofs.AbsBridgeRun
namespace Sf.AbsBridge
open Sf

/-- the geometry the predicate is run with for a handle of the concrete model, hole claims allowed where they are true -/
structure GeomForH (g : Abs.Geom) (h : H) : Prop where
  ch : g.ch = h.ch
  seekable : g.seekable = true
  canTrunc : g.canTrunc = h.canTruncate
  ioMayFail : g.ioMayFail = false
  tailClean : g.tailClean = false
  holeZero : ∀ t, g.holeZero t = true → holeZeroFor h.enc t = true ∧ g.lossless t = true

/-- the same geometry without the claim -/
def noHoles (g : Abs.Geom) : Abs.Geom := { g with holeZero := fun _ => false }

theorem GeomForH.plain {g : Abs.Geom} {h : H} (gf : GeomForH g h) : GeomFor (noHoles g) h :=
  ⟨gf.ch, gf.seekable, gf.canTrunc, gf.ioMayFail, gf.tailClean, fun _ => rfl⟩

theorem GeomForH_congr {g : Abs.Geom} {h h' : H} (c : SameCfg h h') (gf : GeomForH g h) : GeomForH g h' :=
  ⟨by rw [c.ch]; exact gf.ch, gf.seekable, by rw [c.canTruncate]; exact gf.canTrunc, gf.ioMayFail, gf.tailClean,
   fun t ht => by rw [c.enc]; exact gf.holeZero t ht⟩

/-- the hole claim is looked at by the write and truncate clauses only -/
theorem check_holeZero_irrelevant (g : Abs.Geom) (st : Abs.St) (op : Abs.Op) (o : Abs.Out)
    (hop : (∀ ty fc n d, op ≠ .write ty fc n d) ∧ (∀ n, op ≠ .trunc n)) :
    Abs.check g st op o = Abs.check (noHoles g) st op o := by
  cases op with
  | write ty fc n d => exact absurd rfl (hop.1 ty fc n d)
  | trunc n => exact absurd rfl (hop.2 n)
  | _ => rfl

/-! ## an extending truncate -/

/-- the decoded data region after SFC_FILE_TRUNCATE to `k ≥ F` frames: the old stream, then zero items -/
theorem decode_after_extend (e : Enc) (hnb : 0 < e.nbytes) (c : Conv) (ty : Ty) (chn : Nat) (D : List Byte) (F k : Nat)
    (hD : D.length = F * (e.nbytes * chn)) (hFk : F ≤ k) (hz : holeZeroFor e ty = true) :
    e.decodeAll c ty (truncBytes D (k * (e.nbytes * chn))) = e.decodeAll c ty D ++ List.replicate ((k - F) * chn) 0 := by
  have e1 : ∀ x : Nat, x * (e.nbytes * chn) = (x * chn) * e.nbytes := by
    intro x; rw [Nat.mul_comm e.nbytes, Nat.mul_assoc]
  have hpos : D.length ≤ k * (e.nbytes * chn) := by rw [hD]; exact Nat.mul_le_mul_right _ hFk
  have hgap : k * (e.nbytes * chn) - D.length = ((k - F) * chn) * e.nbytes := by rw [hD, ← Nat.sub_mul, e1]
  have hform : truncBytes D (k * (e.nbytes * chn)) = D ++ zeros (((k - F) * chn) * e.nbytes) := by
    unfold truncBytes
    split
    · rename_i hle
      have heq : k * (e.nbytes * chn) = D.length := Nat.le_antisymm hle hpos
      have h0 : (k - F) * chn * e.nbytes = 0 := by rw [← hgap, heq, Nat.sub_self]
      rw [heq, List.take_length, h0]; simp [zeros]
    · rw [hgap]
  rw [hform, Enc.decodeAll_append e c ty hnb (F * chn) D _ (by rw [hD, e1]), decodeAll_zeros e ty hz c hnb]

theorem upTo_encBuf_extend (ty : Ty) (items : List Int) (p : Nat) (hp : items.length ≤ p) :
    Abs.upTo 0 ((encBuf ty items).extract 0 (p * Abs.cells ty)) (p * Abs.cells ty) =
      encBuf ty (items ++ List.replicate (p - items.length) 0) := by
  unfold Abs.upTo
  have hsz : (encBuf ty items).size ≤ p * Abs.cells ty := by rw [encBuf_size]; exact Nat.mul_le_mul_right _ hp
  have h1 : (encBuf ty items).extract 0 (p * Abs.cells ty) = encBuf ty items := Array.extract_eq_self_of_le hsz
  rw [h1, h1, encBuf_size, ← Nat.sub_mul, ← encBuf_replicate_zero, encBuf_append]

/-! ## the two steps -/

theorem write_step_h (hwid : WidenExact) (g : Abs.Geom) (h : H) (s : Store) (st : Abs.St) (ty : Ty) (fc : Bool) (n : Int) (data : List Int)
    (gf : GeomForH g h) (bi : BInv h s) (sim : Sim h s st) (hd : (reqLen h fc n).toNat ≤ data.length)
    (hloss : g.lossless ty = true → h.enc.wf ∧ ∀ v ∈ data.take (reqLen h fc n).toNat, ty.inRange v ∧ lossless h.enc ty v) :
    StepGoal g st (.write ty fc n (encBuf ty data)) (outOf (stepWrite h s ty fc n data).2.2)
      (stepWrite h s ty fc n data).1 (stepWrite h s ty fc n data).2.1 := by
  have hi := bi.hinv
  have hch := hi.ch_pos
  by_cases h0 : n = 0
  · subst h0
    rw [stepWrite_zero]
    exact ⟨st, Abs.writeOk_complete_zero g st ty fc _ _ rfl, sim, bi⟩
  by_cases hneg : n < 0
  · exact write_invalid_goal g h s st ty fc n E_NEG_LEN data bi sim (by decide) h0
      (Or.inl (by unfold Abs.validReq; simp; omega)) (stepWrite_neg h s ty fc n data hneg)
  have hn : 0 < n := by omega
  by_cases hr : h.mode = .r
  · exact write_invalid_goal g h s st ty fc n E_NOT_WRITEMODE data bi sim (by decide) h0
      (Or.inr (by rw [sim.mode]; exact absMode_r hr)) (stepWrite_rmode h s ty fc n data hn hr)
  by_cases ha' : ¬ (fc = true ∨ n % (h.ch : Int) = 0)
  · obtain ⟨hf, hna⟩ := not_aligned_of fc n h.ch ha'
    subst hf
    exact write_invalid_goal g h s st ty false n E_BAD_ALIGN data bi sim (by decide) h0
      (Or.inl (by unfold Abs.validReq; rw [gf.ch]; simp [hna])) (stepWrite_align h s ty n data hn hr hna)
  have ha : fc = true ∨ n % (h.ch : Int) = 0 := Decidable.not_not.mp ha'
  obtain ⟨m, hm0, hnm, hreq⟩ := valid_frames h fc n hch hn ha
  obtain ⟨c1, c2, c3, c4, c5, c6, c7, c8, c9⟩ := write_contract_valid h s ty fc n data hi hn hr ha
  have hfo : framesOf h fc n = m := by rw [hnm]; exact framesOf_callCount h fc m hch
  rw [hfo] at c4
  have hstm : st.mode ≠ .r := by rw [sim.mode]; exact absMode_ne_r hr
  have hlen : m * h.ch ≤ data.length := by rw [hreq, Int.toNat_natCast] at hd; exact hd
  have hacc := Abs.writeOk_complete g st ty fc n (encBuf ty data) (outOf (stepWrite h s ty fc n data).2.2) m
    (by rw [gf.ch]; exact hch) hstm (by rw [gf.ch, hnm]; rfl) hm0
    (by rw [encBuf_size, gf.ch]; exact Nat.mul_le_mul_right _ hlen) c1 (by simp [outOf, c2])
  refine ⟨_, hacc, ⟨?_, ?_, fun hm => ?_, fun hm => ?_, fun hm t hv => ?_⟩, ⟨HInv_stepWrite h s ty fc n data hi, ?_, fun hm => ?_⟩⟩
  · simp only [Abs.afterWrite]; rw [c8]; exact sim.mode
  · simp only [Abs.afterWrite]; rw [c5, c4]
    have := sim.frames; have := sim.wpos hr; omega
  · simp only [Abs.afterWrite]; rw [c6]; exact sim.rpos (by rw [← c8]; exact hm)
  · simp only [Abs.afterWrite]; rw [c4]; have := sim.wpos hr; omega
  · -- the stream is still claimed after the write: inside the data, or beyond it with a true hole claim
    simp only [Abs.afterWrite, Bool.and_eq_true, Bool.or_eq_true, decide_eq_true_eq] at hv ⊢
    obtain ⟨htt, ⟨hlo, hvt⟩, hle⟩ := hv
    subst htt
    simp only [if_true]
    have hmrw : h.mode = .rw := by
      rcases mode_cases h.mode with hx | hx | hx
      · exact absurd hx hr
      · rw [c8] at hm; exact absurd hx hm
      · exact hx
    have inv := bi.rw hmrw
    obtain ⟨hwf, hvals⟩ := hloss hlo
    have htl : (data.take (reqLen h fc n).toNat).length = m * h.ch := by
      rw [List.length_take, hreq, Int.toNat_natCast]; omega
    have hwn : st.wpos = h.wpos.toNat := by have := sim.wpos hr; omega
    have hcpf : g.cpf t = h.ch * Abs.cells t := by unfold Abs.Geom.cpf; rw [gf.ch]
    by_cases hWF : h.wpos ≤ h.frames
    · have key := write_ref_lossless hwid h s inv t fc (data.take (reqLen h fc n).toNat) m hm0 htl hwf
        (fun v hv => (hvals v hv).1) (fun v hv => (hvals v hv).2) hWF
      simp only [ROp.toOp, stepAny, htl, Nat.mul_div_cancel _ hch, ← hnm] at key
      rw [← write_take_self] at key
      rw [key, sim.ref (by rw [hmrw]; decide) t hvt]
      rw [hwn, hcpf, gf.ch, encBuf_extract_zero, hreq, Int.toNat_natCast]
    · -- a hole: the claim must be there, and it is a true one
      have hz : g.holeZero t = true := by
        rcases hle with hle | hle
        · exfalso; have := sim.frames; have := sim.wpos hr; omega
        · exact hle
      have key := write_ref_hole hwid h s inv t fc (data.take (reqLen h fc n).toNat) m hm0 htl hwf
        (fun v hv => (hvals v hv).1) (fun v hv => (hvals v hv).2) (by omega) (gf.holeZero t hz).1
      simp only [ROp.toOp, stepAny, htl, Nat.mul_div_cancel _ hch, ← hnm] at key
      rw [← write_take_self] at key
      rw [key, sim.ref (by rw [hmrw]; decide) t hvt]
      rw [hwn, hcpf, gf.ch, encBuf_extract_zero, hreq, Int.toNat_natCast]
  · rw [c5, c4]; have := bi.frames_nn; omega
  · have hmrw : h.mode = .rw := by rw [← c8]; exact hm
    have inv := bi.rw hmrw
    have htl : (data.take (reqLen h fc n).toNat).length = m * h.ch := by
      rw [List.length_take, hreq, Int.toNat_natCast]; omega
    have step := (rdwr_step h s (.write ty fc (data.take (reqLen h fc n).toNat)) inv
      (by simp only [ROp.ok]; rw [htl]; exact Nat.mul_mod_left _ _)).2.1
    simp only [ROp.toOp, stepAny, htl, Nat.mul_div_cancel _ hch, ← hnm] at step
    rw [← write_take_self] at step
    exact step

theorem trunc_step_h (g : Abs.Geom) (h : H) (s : Store) (st : Abs.St) (n : Int)
    (gf : GeomForH g h) (bi : BInv h s) (sim : Sim h s st) (hj : n = -1 → h.mode = .r ∨ h.canTruncate = false) :
    StepGoal g st (.trunc n) (outOf (stepTruncate h s n).2.2) (stepTruncate h s n).1 (stepTruncate h s n).2.1 := by
  have hi := bi.hinv
  by_cases hr : h.mode = .r
  · exact trunc_refused_goal g h s st n 0 bi sim (Or.inl (by rw [sim.mode]; exact absMode_r hr)) (stepTruncate_rmode h s n hr)
  by_cases hc : h.canTruncate = false
  · exact trunc_refused_goal g h s st n 0 bi sim (Or.inr (Or.inl (by rw [gf.canTrunc]; exact hc))) (stepTruncate_vio h s n hr hc)
  have hct : h.canTruncate = true := by simpa using hc
  by_cases hneg : n < 0
  · have hn1 : n ≠ -1 := by
      intro hx
      rcases hj hx with hx | hx
      · exact hr hx
      · exact hc hx
    exact trunc_refused_goal g h s st n E_BAD_SEEK bi sim (Or.inr (Or.inr hneg)) (stepTruncate_neg h s n hr hct hneg hn1)
  have hn : 0 ≤ n := by omega
  obtain ⟨k, hk⟩ := Int.eq_ofNat_of_zero_le hn
  have hstm : st.mode ≠ .r := by rw [sim.mode]; exact absMode_ne_r hr
  rcases mode_cases h.mode with hm | hm | hm
  · exact absurd hm hr
  · -- write-only handle: no stream to keep
    have hs := stepTruncate_ok h s n hr hn
    rw [if_pos hct] at hs
    have hmv : seekMoveH h 0 n = { h with error := 0, wpos := n, lastOp := .w } := by
      simp [seekMoveH, hm, modeBits]
    rw [hmv] at hs
    have hacc := Abs.truncOk_complete g st n (outOf (stepTruncate h s n).2.2) hstm (by rw [gf.canTrunc]; exact hct) hn
      (by rw [hs]; rfl) (by rw [hs]; rfl)
    refine ⟨_, hacc, ?_, ?_⟩
    · rw [hs]
      refine ⟨sim.mode, by simp only [Abs.afterTrunc]; omega, fun hx => absurd hm hx,
        fun _ => by simp only [Abs.afterTrunc]; omega, fun hx => absurd hm hx⟩
    · have := HInv_stepTruncate h s n hi
      rw [hs] at this ⊢
      exact ⟨this, hn, fun hx => by rw [hm] at hx; cases hx⟩
  · -- read/write handle: shortening (C08Refine.truncate_shortens) or extending with zero frames
    have inv := bi.rw hm
    obtain ⟨R, W, F, hdr, D, v⟩ := inv
    subst hk
    obtain ⟨t1, t2, inv', habs⟩ := v.truncate_refines k hct
    have hs := stepTruncate_ok h s (k : Int) hr hn
    rw [if_pos hct] at hs
    have hmv := seekMoveH_rw h hm .both (k : Int)
    simp only [ptrBits] at hmv
    rw [hmv] at hs
    have hacc := Abs.truncOk_complete g st (k : Int) (outOf (stepTruncate h s (k : Int)).2.2) hstm
      (by rw [gf.canTrunc]; exact hct) hn (by simp [outOf, t1]) (by simp [outOf, t2])
    have hF : st.frames = F := by have := sim.frames; have := v.frames; omega
    refine ⟨_, hacc, ?_, ⟨HInv_stepTruncate h s _ hi, by rw [hs]; exact hn, fun _ => inv'⟩⟩
    refine ⟨?_, ?_, fun _ => ?_, fun _ => ?_, fun _ t hv => ?_⟩
    · rw [hs]; exact sim.mode
    · rw [hs]; simp only [Abs.afterTrunc, Int.toNat_natCast]
    · rw [hs]; simp only [Abs.afterTrunc, Int.toNat_natCast]
    · rw [hs]; simp only [Abs.afterTrunc, Int.toNat_natCast]
    · simp only [Abs.afterTrunc, Bool.and_eq_true, Bool.or_eq_true, decide_eq_true_eq, Int.toNat_natCast] at hv ⊢
      obtain ⟨hvt, hle⟩ := hv
      rw [hF] at hle
      have hnb := v.nb_pos
      have hbw := v.bw_pos
      have hbw' : (stepTruncate h s (k : Int)).1.bw = h.bw := by rw [hs]; rfl
      -- the data region after the command: `truncBytes` of the old one
      have hD' : dataRegion (stepTruncate h s (k : Int)).1 (stepTruncate h s (k : Int)).2.1 = truncBytes D (k * h.bw) := by
        apply dataRegion_of_frames _ _ inv' _ k (by rw [hbw']; exact truncBytes_length _ _)
        rw [habs, v.abs, hbw']
        simp only [AbsFile.truncate]
        exact (groups_truncBytes _ hbw D F k v.dlen).symm
      have e1 : (stepTruncate h s (k : Int)).1.enc = h.enc := by rw [hs]
      have e2 : (stepTruncate h s (k : Int)).1.conv = h.conv := by rw [hs]
      have hcpf : k * g.cpf t = (k * h.ch) * Abs.cells t := by unfold Abs.Geom.cpf; rw [gf.ch, Nat.mul_assoc]
      have hdl : (h.enc.decodeAll h.conv t D).length = F * h.ch := by
        rw [Enc.decodeAll_length _ _ _ hnb, v.dlen]
        unfold H.bw; rw [Nat.mul_comm h.enc.nbytes, ← Nat.mul_assoc, Nat.mul_div_cancel _ hnb]
      rw [sim.ref (by rw [hm]; decide) t hvt]
      unfold absRef
      rw [hD', e1, e2, v.dataRegion, hcpf]
      by_cases hkF : k ≤ F
      · have htk : truncBytes D (k * h.bw) = D.take (k * h.bw) := by
          unfold truncBytes; rw [if_pos (by rw [v.dlen]; exact Nat.mul_le_mul_right _ hkF)]
        have : k * h.bw / h.enc.nbytes = k * h.ch := by
          unfold H.bw; rw [Nat.mul_comm h.enc.nbytes, ← Nat.mul_assoc, Nat.mul_div_cancel _ hnb]
        rw [htk, Enc.decodeAll_take _ _ _ hnb, this, encBuf_extract_zero]
        refine upTo_full _ _ ?_
        rw [encBuf_size, List.length_take, hdl, Nat.min_eq_left (Nat.mul_le_mul_right _ hkF)]
      · have hz : g.holeZero t = true := by
          rcases hle with hle | hle
          · exact absurd hle hkF
          · exact hle
        have hdec := decode_after_extend h.enc hnb h.conv t h.ch D F k v.dlen (by omega) (gf.holeZero t hz).1
        unfold H.bw
        unfold H.bw at hdec
        rw [hdec, upTo_encBuf_extend t _ (k * h.ch) (by rw [hdl]; exact Nat.mul_le_mul_right _ (by omega)), hdl, ← Nat.sub_mul]

/-! ## one step, every sequence -/

/-- ONE STEP under a hole-claiming geometry -/
theorem step_bridge_h (hwid : WidenExact) (g : Abs.Geom) (h : H) (s : Store) (st : Abs.St) (op : Sf.Op)
    (gf : GeomForH g h) (bi : BInv h s) (sim : Sim h s st) (hj : Judged g h op) (hc : isClose op = false) :
    StepGoal g st (absOp op) (absOut op (stepAny h s op).2.2) (stepAny h s op).1 (stepAny h s op).2.1 := by
  cases op with
  | read ix ty fc n =>
    obtain ⟨st', a, b, c⟩ := read_bridge (noHoles g) h s st ty fc n gf.plain bi sim
    exact ⟨st', a, b, c⟩
  | write ix ty fc n data => exact write_step_h hwid g h s st ty fc n data gf bi sim hj.1 hj.2
  | seek ix off whence =>
    obtain ⟨st', a, b, c⟩ := seek_step (noHoles g) h s st off whence gf.plain bi sim
    exact ⟨st', a, b, c⟩
  | cmdFlag ix cmd size => exact cmd_step g h s st cmd size bi sim hj
  | truncate ix n => exact trunc_step_h g h s st n gf bi sim hj
  | close ix => simp [isClose] at hc

/-- EVERY SEQUENCE under a hole-claiming geometry, by induction over `runOps` -/
theorem run_bridge_h (hwid : WidenExact) (g : Abs.Geom) : ∀ (ops : List Sf.Op) (h : H) (s : Store) (st : Abs.St),
    GeomForH g h → BInv h s → Sim h s st → (∀ op ∈ ops, Judged g h op) → CloseLast ops →
    ∃ st', Abs.accepts g st (transcript h s ops) = some st' := by
  intro ops
  induction ops with
  | nil => intro h s st _ _ _ _ _; exact ⟨st, rfl⟩
  | cons op ops ih =>
    intro h s st gf bi sim hj hcl
    simp only [transcript, Abs.accepts]
    by_cases hc : isClose op = true
    · have : ops = [] := hcl.1 hc
      subst this
      cases op with
      | close ix => exact ⟨st, by simp [absOp, absOut, Abs.check, Abs.closeOk, outOf, stepAny, transcript, Abs.accepts]⟩
      | _ => simp [isClose] at hc
    · have hc' : isClose op = false := by simpa using hc
      obtain ⟨st1, hok, sim1, bi1⟩ := step_bridge_h hwid g h s st op gf bi sim (hj op (by simp)) hc'
      rw [hok]
      have c := SameCfg.stepAny h s op
      exact ih _ _ st1 (GeomForH_congr c gf) bi1 sim1 (fun op' hm => Judged_congr c op' (hj op' (by simp [hm]))) hcl.2

end Sf.AbsBridge
