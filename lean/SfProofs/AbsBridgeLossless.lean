/-
  SfProofs.AbsBridgeLossless — the bridge for geometries that CLAIM a lossless caller type (`g.lossless ty = true`, what the
  C08 campaign runs with): after a write of lossless samples inside the data of a read/write handle the predicate goes on
  comparing reads with `writeAt 0 ref (wpos·cpf) cells`; this file proves that this IS the decoded data region of the store
  after the write (C01's round trip: decode ∘ encode = id on lossless in-range values, for whatever conversion settings).
-/
import SfProofs.AbsBridgeReadStep
import SfProofs.Codec
namespace Sf.AbsBridge
open Sf

/-! ## the data region -/

theorem absRef_congr_region (h h' : H) (s s' : Store) (ty : Ty) (he : h'.enc = h.enc) (hc : h'.conv = h.conv)
    (hD : dataRegion h' s' = dataRegion h s) : absRef h' s' ty = absRef h s ty := by
  unfold absRef; rw [he, hc, hD]

/-- a read/write handle whose abstract frames are the `bw`-groups of `X` has the data region `X` -/
theorem dataRegion_of_frames (h' : H) (s' : Store) (inv' : RwInv h' s') (X : List Byte) (k : Nat)
    (hX : X.length = k * h'.bw) (habs : (absOf h' s').frames = groups h'.bw X) : dataRegion h' s' = X := by
  obtain ⟨R, W, F, hdr, D, v⟩ := inv'
  have hbw := v.bw_pos
  rw [v.abs] at habs
  simp only at habs
  rw [v.dataRegion, ← groups_join _ hbw F D v.dlen, habs, groups_join _ hbw k X hX]

/-! ## lossless writes -/

theorem encBuf_extract_to_end (ty : Ty) (l : List Int) (i : Nat) :
    (encBuf ty l).extract (i * Abs.cells ty) (encBuf ty l).size = encBuf ty (l.drop i) := by
  unfold encBuf
  rw [List.extract_toArray, List.size_toArray]
  congr 1
  show ((cellList ty l).drop (i * Abs.cells ty)).take ((cellList ty l).length - i * Abs.cells ty) = _
  rw [cellList_drop, List.take_of_length_le]
  rw [cellList_length, cellList_length, List.length_drop, Nat.sub_mul]
  exact Nat.le_refl _

/-- `Abs.writeAt` on cell arrays is the list surgery on the items, for a write position inside (or at the end of) the
    stream -/
theorem writeAt_encBuf (ty : Ty) (items vals : List Int) (p : Nat) (hp : p ≤ items.length) :
    Abs.writeAt 0 (encBuf ty items) (p * Abs.cells ty) (encBuf ty vals) =
      encBuf ty (items.take p ++ vals ++ items.drop (p + vals.length)) := by
  unfold Abs.writeAt Abs.upTo
  have hsz : p * Abs.cells ty - (encBuf ty items).size = 0 := by
    rw [encBuf_size]; exact Nat.sub_eq_zero_of_le (Nat.mul_le_mul_right _ hp)
  rw [hsz, encBuf_extract_zero, encBuf_size, ← Nat.add_mul, encBuf_extract_to_end, encBuf_append, encBuf_append]
  simp

/-- the decoded data region after a write of whole frames of lossless samples at frame `W ≤ F` -/
theorem decode_after_write (hw : WidenExact) (e : Enc) (he : e.wf) (hnb : 0 < e.nbytes) (c c' : Conv) (ty : Ty) (chn : Nat)
    (D : List Byte) (F W m : Nat) (vals : List Int) (hD : D.length = F * (e.nbytes * chn)) (hWF : W ≤ F)
    (hvl : vals.length = m * chn) (hv : ∀ v ∈ vals, ty.inRange v) (hl : ∀ v ∈ vals, lossless e ty v) :
    e.decodeAll c' ty (Sf.writeAt D (W * (e.nbytes * chn)) (e.encodeAll c ty vals)) =
      (e.decodeAll c' ty D).take (W * chn) ++ vals ++ (e.decodeAll c' ty D).drop (W * chn + vals.length) := by
  have hpos : W * (e.nbytes * chn) ≤ D.length := by rw [hD]; exact Nat.mul_le_mul_right _ hWF
  have e1 : W * (e.nbytes * chn) = (W * chn) * e.nbytes := by rw [Nat.mul_comm e.nbytes, Nat.mul_assoc]
  have hel : (e.encodeAll c ty vals).length = vals.length * e.nbytes := Enc.encodeAll_length e c ty vals
  unfold Sf.writeAt
  simp only [hpos, if_true]
  rw [List.append_assoc,
    Enc.decodeAll_append e c' ty hnb (W * chn) _ _ (by rw [List.length_take, Nat.min_eq_left hpos, e1]),
    Enc.decodeAll_append e c' ty hnb vals.length _ _ hel,
    Enc.decodeAll_take e c' ty hnb, e1, Nat.mul_div_cancel _ hnb, hel, ← Nat.add_mul, Enc.decodeAll_drop e c' ty hnb,
    Enc.decodeAll_encodeAll_of e hnb c c' ty vals (fun v hm => Enc.sample_roundtrip hw e he c c' ty v (hv v hm) (hl v hm)),
    List.append_assoc]

/-- after a write of lossless in-range samples inside the data of a read/write handle, the decoded data region of the store
    is `Abs.writeAt` of the cells handed over — the stream the predicate goes on judging with -/
theorem write_ref_lossless (hw : WidenExact) (h : H) (s : Store) (inv : RwInv h s) (ty : Ty) (fc : Bool) (vals : List Int)
    (m : Nat) (hm0 : 0 < m) (hvl : vals.length = m * h.ch) (he : h.enc.wf) (hv : ∀ v ∈ vals, ty.inRange v)
    (hl : ∀ v ∈ vals, lossless h.enc ty v) (hWF : h.wpos ≤ h.frames) :
    absRef (stepAny h s ((ROp.write ty fc vals).toOp h)).1 (stepAny h s ((ROp.write ty fc vals).toOp h)).2.1 ty =
      Abs.writeAt 0 (absRef h s ty) (h.wpos.toNat * (h.ch * Abs.cells ty)) (encBuf ty vals) := by
  obtain ⟨R, W, F, hdr, D, v⟩ := inv
  have hch := v.ch_pos
  have hnb := v.nb_pos
  have hbw := v.bw_pos
  have hmod : vals.length % h.ch = 0 := by rw [hvl]; exact Nat.mul_mod_left _ _
  have hdiv : vals.length / h.ch = m := by rw [hvl]; exact Nat.mul_div_cancel _ hch
  obtain ⟨_, inv', habs⟩ := rdwr_step h s (.write ty fc vals) ⟨R, W, F, hdr, D, v⟩ hmod
  -- the call, spelled out
  have hn : 0 < callCount h fc m := by
    unfold callCount; cases fc
    · simp only [Bool.false_eq_true, if_false]; exact Int.ofNat_lt.mpr (Nat.mul_pos hm0 hch)
    · simp only [if_true]; exact Int.ofNat_lt.mpr hm0
  have ha : fc = true ∨ callCount h fc m % (h.ch : Int) = 0 := by
    cases fc
    · right; simp [callCount]
    · left; rfl
  simp only [ROp.toOp, stepAny, hdiv] at inv' habs ⊢
  obtain ⟨fl, dl, off, de, pk, e, _, _⟩ := stepWrite_fields h s ty fc (callCount h fc m) vals hn (by rw [v.mode]; decide) ha
  have henc : (stepWrite h s ty fc (callCount h fc m) vals).1.enc = h.enc := by rw [e]
  have hconv : (stepWrite h s ty fc (callCount h fc m) vals).1.conv = h.conv := by rw [e]
  have hbw' : (stepWrite h s ty fc (callCount h fc m) vals).1.bw = h.bw := by rw [e]; rfl
  have hWn : W ≤ F := by have := v.wpos; have := v.frames; omega
  have hel : (h.enc.encodeAll h.conv ty vals).length = m * h.bw := by
    rw [Enc.encodeAll_length, hvl]; unfold H.bw; rw [Nat.mul_assoc, Nat.mul_comm h.ch]
  -- the data region after the call
  have hX : (Sf.writeAt D (W * h.bw) (h.enc.encodeAll h.conv ty vals)).length = max F (W + m) * h.bw := by
    rw [writeAt_length, v.dlen, hel, ← Nat.add_mul]
    rcases Nat.le_total F (W + m) with hle | hle
    · rw [Nat.max_eq_right hle, Nat.max_eq_right (Nat.mul_le_mul_right _ hle)]
    · rw [Nat.max_eq_left hle, Nat.max_eq_left (Nat.mul_le_mul_right _ hle)]
  have hfl : (writtenFrames h ty vals).length = m := by
    rw [(writtenFrames_facts h ty vals hch hnb hmod).1, hdiv]
  have hne : writtenFrames h ty vals ≠ [] := by
    intro hx; rw [hx] at hfl; simp at hfl; omega
  have hD' : dataRegion (stepWrite h s ty fc (callCount h fc m) vals).1 (stepWrite h s ty fc (callCount h fc m) vals).2.1 =
      Sf.writeAt D (W * h.bw) (h.enc.encodeAll h.conv ty vals) := by
    apply dataRegion_of_frames _ _ inv' _ (max F (W + m)) (by rw [hbw']; exact hX)
    rw [habs, hbw']
    simp only [ROp.toAOp, AbsFile.stepOpt, AbsFile.step]
    rw [AbsFile.write_frames _ _ _ hne, v.abs, groups_writeAt _ hbw D _ F W m v.dlen hel, hfl]
    rfl
  unfold absRef
  rw [hD', henc, hconv, v.dataRegion]
  have hdec := decode_after_write hw h.enc he hnb h.conv h.conv ty h.ch D F W m vals v.dlen hWn hvl hv hl
  unfold H.bw
  rw [hdec]
  have hwn : h.wpos.toNat = W := by rw [v.wpos]; exact Int.toNat_natCast W
  have hil : W * h.ch ≤ (h.enc.decodeAll h.conv ty D).length := by
    rw [Enc.decodeAll_length _ _ _ hnb, v.dlen]
    have : F * h.bw / h.enc.nbytes = F * h.ch := by
      unfold H.bw; rw [Nat.mul_comm h.enc.nbytes, ← Nat.mul_assoc, Nat.mul_div_cancel _ hnb]
    rw [this]; exact Nat.mul_le_mul_right _ hWn
  rw [hwn, ← Nat.mul_assoc, writeAt_encBuf ty _ vals (W * h.ch) hil]

end Sf.AbsBridge
