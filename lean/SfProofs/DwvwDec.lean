/-
  DWVW round trip through the decoder state machine (`fill` / `getBits` / `getDwm` / `decStep` / `decLoop`):
  what the bit loader delivers when the reservoir and the unread bytes start with a known bit string, one decoded
  sample against `encSample`, the loop against `codes`, and the file written by `encodeAll` read back by `decodeAll`.
-/
import SfProofs.DwvwEnc
import SfProofs.DwvwCalls
namespace Sf.Dwvw.Proofs
open Sf Sf.Dwvw

/-- all bits the decoder can still see: the reservoir, then the unread bytes -/
def avail (d : DSt) : List Bool := d.pend ++ bytesBits d.inp

/-- the decoder sees `s`, possibly followed by zero bits; the zero bits shifted in behind the end of the input
    (`pad_bits` of them, and only once the input is exhausted) are among those -/
def Sees (d : DSt) (s : List Bool) : Prop := ∃ j, avail d = s ++ zerosB j ∧ d.padBits ≤ j ∧ (0 < d.padBits → d.inp = [])

/-- `b.end == 0` after a refill means the input is exhausted -/
def Inv (d : DSt) : Prop := d.endZero = true → d.inp = []

theorem zerosB_append (a b : Nat) : zerosB a ++ zerosB b = zerosB (a + b) := by
  simp [zerosB, List.replicate_append_replicate]

theorem zerosB_length (a : Nat) : (zerosB a).length = a := by simp [zerosB]

/-! ### the bit loader -/

theorem fill_spec (f n : Nat) (d : DSt) (hf : n ≤ d.pend.length + 8 * f) (hn : n ≤ (avail d).length ∨ 8 ≤ n) :
    (fill f n d).2 = true ∧ n ≤ (fill f n d).1.pend.length ∧
      (∃ j, avail (fill f n d).1 = avail d ++ zerosB j ∧ (fill f n d).1.padBits = d.padBits + j ∧
        ((0 < d.padBits → d.inp = []) → (0 < (fill f n d).1.padBits → (fill f n d).1.inp = []))) ∧
      (fill f n d).1.ldw = d.ldw ∧ (fill f n d).1.last = d.last ∧ ((Inv d ∨ d.pend.length < n) → Inv (fill f n d).1) := by
  induction f generalizing d with
  | zero =>
    simp only [fill]
    refine ⟨trivial, by omega, ⟨0, by simp [zerosB], rfl, id⟩, trivial, trivial, ?_⟩
    rintro (h | h)
    · exact h
    · omega
  | succ f ih =>
    obtain ⟨ldw, last, pend, inp, ez, pb⟩ := d
    simp only [fill]
    by_cases h : pend.length ≥ n
    · rw [if_pos h]
      refine ⟨rfl, h, ⟨0, by simp [zerosB], rfl, id⟩, rfl, rfl, ?_⟩
      rintro (h' | h')
      · exact h'
      · omega
    · rw [if_neg h]
      cases inp with
      | nil =>
        simp only
        have h8 : ¬ n < 8 := by
          rcases hn with hn | hn
          · simp [avail, bytesBits] at hn; omega
          · omega
        rw [if_neg h8]
        obtain ⟨a1, a2, ⟨j, a3, a3p, a3i⟩, a4, a5, a6⟩ :=
          ih { ldw := ldw, last := last, pend := pend ++ zerosB 8, inp := [], endZero := true, padBits := pb + 8 }
            (by simp [zerosB_length] at hf ⊢; omega) (Or.inr (by omega))
        refine ⟨a1, a2, ⟨8 + j, ?_, ?_, ?_⟩, a4, a5, ?_⟩
        · rw [a3]; simp [avail, bytesBits, ← zerosB_append]
        · rw [a3p]; simp only; omega
        · intro _; exact a3i (fun _ => rfl)
        · intro _; exact a6 (Or.inl (fun _ => rfl))
      | cons b rest =>
        simp only
        obtain ⟨a1, a2, ⟨j, a3, a3p, a3i⟩, a4, a5, a6⟩ :=
          ih { ldw := ldw, last := last, pend := pend ++ bitsMSB 8 b, inp := rest, endZero := false, padBits := pb }
            (by simp [bitsMSB_length] at hf ⊢; omega)
            (by
              rcases hn with hn | hn
              · left; simp [avail, bytesBits, bitsMSB_length] at hn ⊢; omega
              · exact Or.inr hn)
        refine ⟨a1, a2, ⟨j, ?_, a3p, ?_⟩, a4, a5, ?_⟩
        · rw [a3]; simp [avail, bytesBits]
        · intro hpi
          apply a3i
          intro hpb
          have := hpi hpb
          simp at this
        · intro _; exact a6 (Or.inl (fun h => by simp at h))

/-- a refill that took real bytes, or found enough of them, leaves `b.end ≠ 0` -/
theorem fill_ez (f n : Nat) (d : DSt) (hf : n ≤ d.pend.length + 8 * f) (hr : n ≤ d.pend.length + 8 * d.inp.length)
    (h : d.pend.length < n ∨ d.endZero = false) : (fill f n d).1.endZero = false := by
  induction f generalizing d with
  | zero =>
    simp only [fill]
    rcases h with h | h
    · omega
    · exact h
  | succ f ih =>
    obtain ⟨ldw, last, pend, inp, ez, pb⟩ := d
    simp only [fill]
    by_cases h' : pend.length ≥ n
    · rw [if_pos h']
      rcases h with h | h
      · simp only at h; omega
      · exact h
    · rw [if_neg h']
      cases inp with
      | nil => simp at hr; omega
      | cons b rest =>
        simp only
        exact ih { ldw := ldw, last := last, pend := pend ++ bitsMSB 8 b, inp := rest, endZero := false, padBits := pb }
          (by simp [bitsMSB_length] at hf ⊢; omega) (by simp [bitsMSB_length] at hr ⊢; omega) (Or.inr rfl)

theorem fill_real (f n : Nat) (d : DSt) (hf : n ≤ d.pend.length + 8 * f) (hr : n ≤ d.pend.length + 8 * d.inp.length)
    (h : d.pend.length < n) : (fill f n d).1.endZero = false := fill_ez f n d hf hr (Or.inl h)

/-! ### a list helper -/

theorem append_split {α : Type} (p q a r : List α) (h : p ++ q = a ++ r) (hl : a.length ≤ p.length) :
    p.take a.length = a ∧ p.drop a.length ++ q = r := by
  have h1 := congrArg (List.take a.length) h
  have h2 := congrArg (List.drop a.length) h
  rw [List.take_append_of_le_length hl, List.take_left'] at h1
  rw [List.drop_append_of_le_length hl, List.drop_left'] at h2
  · exact ⟨h1, h2⟩
  · rfl
  · rfl

/-! ### `dwvw_decode_load_bits` -/

theorem getBits_spec (n : Nat) (d : DSt) (a rest : List Bool) (ha : a.length = n) (hs : Sees d (a ++ rest)) :
    (getBits n d).2 = (ofBits a : Int) ∧ Sees (getBits n d).1 rest ∧ (getBits n d).1.ldw = d.ldw ∧
      (getBits n d).1.last = d.last ∧ (Inv d → Inv (getBits n d).1) := by
  obtain ⟨j, hj, hjp, hji⟩ := hs
  have hlen : n ≤ (avail d).length := by rw [hj]; simp; omega
  obtain ⟨h1, h2, ⟨j2, h3, h3p, h3i⟩, h4, h5, h6⟩ := fill_spec (n + 1) n d (by omega) (Or.inl hlen)
  rcases hfd : fill (n + 1) n d with ⟨d1, ok⟩
  rw [hfd] at h1 h2 h3 h3p h3i h4 h5 h6
  simp only at h1 h2 h3 h3p h3i h4 h5 h6
  subst h1
  simp only [getBits, hfd, if_true]
  rw [hj, List.append_assoc, List.append_assoc, zerosB_append] at h3
  obtain ⟨t1, t2⟩ := append_split d1.pend (bytesBits d1.inp) a (rest ++ zerosB (j + j2)) h3 (by omega)
  rw [ha] at t1 t2
  refine ⟨by rw [t1], ⟨j + j2, t2, by simp only; omega, h3i hji⟩, h4, h5, fun hi => h6 (Or.inl hi)⟩

/-- the zero-run code of a width modifier of magnitude `k` -/
def unary (c : Cfg) (k : Nat) : List Bool := zerosB k ++ (if k ≠ c.dwmMax then [true] else [])

theorem getDwm_spec (c : Cfg) (d : DSt) (k : Nat) (rest : List Bool) (hk : k ≤ c.dwmMax)
    (hs : Sees d (unary c k ++ rest)) (hl : c.dwmMax ≤ (unary c k ++ rest).length ∨ 8 ≤ c.dwmMax) :
    (getDwm c d).2 = (k : Int) ∧ Sees (getDwm c d).1 rest ∧ (getDwm c d).1.ldw = d.ldw ∧ (getDwm c d).1.last = d.last ∧
      ((Inv d ∨ d.pend.length < c.dwmMax) → Inv (getDwm c d).1) ∧
      (c.dwmMax ≤ d.pend.length + 8 * d.inp.length → d.pend.length < c.dwmMax → (getDwm c d).1.endZero = false) := by
  obtain ⟨j, hj, hjp, hji⟩ := hs
  have hn : c.dwmMax ≤ (avail d).length ∨ 8 ≤ c.dwmMax := by
    rcases hl with hl | hl
    · left; rw [hj]; simp only [List.length_append] at hl ⊢; omega
    · exact Or.inr hl
  obtain ⟨h1, h2, ⟨j2, h3, h3p, h3i⟩, h4, h5, h6⟩ := fill_spec (c.dwmMax + 1) c.dwmMax d (by omega) hn
  have h7 := fill_real (c.dwmMax + 1) c.dwmMax d (by omega)
  rcases hfd : fill (c.dwmMax + 1) c.dwmMax d with ⟨d1, ok⟩
  rw [hfd] at h1 h2 h3 h3p h3i h4 h5 h6 h7
  simp only at h1 h2 h3 h3p h3i h4 h5 h6 h7
  subst h1
  rw [hj, List.append_assoc, List.append_assoc, zerosB_append] at h3
  have hul : (unary c k).length ≤ d1.pend.length := by
    unfold unary; split <;> simp [zerosB_length] <;> omega
  obtain ⟨t1, t2⟩ := append_split d1.pend (bytesBits d1.inp) (unary c k) (rest ++ zerosB (j + j2)) h3 hul
  have hp : d1.pend = unary c k ++ d1.pend.drop (unary c k).length := by
    conv_lhs => rw [← List.take_append_drop (unary c k).length d1.pend, t1]
  have hsc : scan c.dwmMax d1.pend = (k, d1.pend.drop (unary c k).length) := by
    rw [hp]
    generalize d1.pend.drop (unary c k).length = tl
    unfold unary
    by_cases hkk : k = c.dwmMax
    · subst hkk; simp [scan_zeros_max]
    · rw [if_pos hkk]
      simpa using scan_zeros_one c.dwmMax k (by omega) tl
  simp only [getDwm, hfd, if_true, hsc]
  exact ⟨trivial, ⟨j + j2, t2, by simp only; omega, h3i hji⟩, h4, h5, h6, h7⟩

/-- while the decoder still sees the code it expects, no padding bit has been consumed: the end test of
    `dwvw_decode_data` (`b.end == 0 && bit_count < pad_bits`) does not fire -/
theorem sees_no_pad_consumed (d : DSt) (s : List Bool) (hs : Sees d s) : ¬ (d.pend.length < d.padBits) := by
  obtain ⟨j, hj, hjp, hji⟩ := hs
  intro h
  have hpos : 0 < d.padBits := by omega
  have hin := hji hpos
  have hl := congrArg List.length hj
  simp only [avail, hin, bytesBits, List.flatMap_nil, List.append_nil, List.length_append, zerosB_length] at hl
  omega

/-! ### one sample: the pieces of `decStep` -/

/-- the sign of the width modifier -/
def decSign (d1 : DSt) (m : Int) : DSt × Int :=
  if m ≠ 0 then (let (e, s) := getBits 1 d1; (e, if s ≠ 0 then -m else m)) else (d1, m)

/-- magnitude, sign and extra bit of the delta -/
def decDelta (c : Cfg) (dw : Int) (d2 : DSt) : DSt × Int :=
  if dw ≠ 0 then
    let (e1, v) := getBits (dw - 1).toNat d2
    let delta0 : Int := if v < 0 then -1 else v + 2 ^ (dw - 1).toNat
    let (e2, neg) := getBits 1 e1
    let (e3, delta1) : DSt × Int :=
      if delta0 = c.maxDelta - 1 then (let (e, x) := getBits 1 e2; (e, delta0 + x)) else (e2, delta0)
    (e3, if neg ≠ 0 then -delta1 else delta1)
  else (d2, 0)

/-- the sample, wrapped into the range, and the new state -/
def decOut (c : Cfg) (dw : Int) (d3 : DSt) (delta : Int) : Out :=
  let M := c.maxDelta
  let s0 := d3.last + delta
  let s := if s0 ≥ M then s0 - c.span else if s0 < -M then s0 + c.span else s0
  .sample { d3 with ldw := dw, last := s } (s * 2 ^ c.shift)

theorem decStep_eq (c : Cfg) (d : DSt) :
    decStep c d =
      (let (d1, m) := getDwm c d
       if m < 0 ∨ (d1.endZero ∧ d1.pend.length < d1.padBits) then .stop d1
       else
         let (d2, dwm) := decSign d1 m
         let dw := cmod (d2.ldw + dwm + c.w) c.w
         let (d3, delta) := decDelta c dw d2
         decOut c dw d3 delta) := by
  rcases h : getDwm c d with ⟨d1, m⟩
  simp only [decStep, h, decSign, decDelta, decOut]

theorem ofBits_single (b : Bool) : ofBits [b] = if b then 1 else 0 := by
  cases b <;> rfl

theorem decSign_spec (d1 : DSt) (dwm m : Int) (hm : m = iabs dwm) (rest : List Bool)
    (hs : Sees d1 ((if dwm < 0 then [true] else []) ++ (if dwm > 0 then [false] else []) ++ rest)) :
    (decSign d1 m).2 = dwm ∧ Sees (decSign d1 m).1 rest ∧ (decSign d1 m).1.ldw = d1.ldw ∧
      (decSign d1 m).1.last = d1.last ∧ (Inv d1 → Inv (decSign d1 m).1) := by
  unfold iabs at hm
  unfold decSign
  by_cases hneg : dwm < 0
  · rw [if_pos hneg, if_neg (by omega)] at hs
    rw [if_pos hneg] at hm
    obtain ⟨a1, a2, a3, a4, a5⟩ := getBits_spec 1 d1 [true] rest rfl (by simpa using hs)
    rw [if_pos (by omega)]
    simp only [a1, ofBits_single]
    exact ⟨by simp; omega, a2, a3, a4, a5⟩
  · rw [if_neg hneg] at hm
    by_cases hpos : dwm > 0
    · rw [if_neg hneg, if_pos hpos] at hs
      obtain ⟨a1, a2, a3, a4, a5⟩ := getBits_spec 1 d1 [false] rest rfl (by simpa using hs)
      rw [if_pos (by omega)]
      simp only [a1, ofBits_single]
      exact ⟨by simp; omega, a2, a3, a4, a5⟩
    · rw [if_neg hneg, if_neg hpos] at hs
      rw [if_neg (by omega)]
      exact ⟨by simp only; omega, by simpa using hs, rfl, rfl, id⟩

theorem getBits_ex (n : Nat) (d : DSt) (a rest : List Bool) (ha : a.length = n) (hs : Sees d (a ++ rest)) :
    ∃ e, getBits n d = (e, (ofBits a : Int)) ∧ Sees e rest ∧ e.ldw = d.ldw ∧ e.last = d.last ∧ (Inv d → Inv e) := by
  obtain ⟨a1, a2, a3, a4, a5⟩ := getBits_spec n d a rest ha hs
  exact ⟨(getBits n d).1, Prod.ext rfl a1, a2, a3, a4, a5⟩

theorem decDelta_spec (c : Cfg) (hw : c.ok) (d2 : DSt) (r : Delta) (δ : Nat) (hδ : r.delta = δ)
    (hlt : (δ : Int) ≤ c.maxDelta - 1) (hiff : r.extra ≥ 0 ↔ r.delta = c.maxDelta - 1) (rest : List Bool)
    (hs : Sees d2 (deltaBits (highestBit δ) r ++ rest)) :
    (decDelta c (highestBit δ : Int) d2).2 =
        (if r.neg then -(r.delta + (if r.delta = c.maxDelta - 1 then (if r.extra = 1 then 1 else 0) else 0))
         else (r.delta + (if r.delta = c.maxDelta - 1 then (if r.extra = 1 then 1 else 0) else 0))) ∧
      Sees (decDelta c (highestBit δ : Int) d2).1 rest ∧ (decDelta c (highestBit δ : Int) d2).1.ldw = d2.ldw ∧
      (decDelta c (highestBit δ : Int) d2).1.last = d2.last ∧ (Inv d2 → Inv (decDelta c (highestBit δ : Int) d2).1) := by
  obtain ⟨_, hM2, hM23, _, _, _, _, _⟩ := cfg_consts c hw
  have hδ32 : δ < 2 ^ 32 := by
    norm_num at hM23 ⊢; omega
  have htn : r.delta.toNat = δ := by omega
  unfold deltaBits at hs
  rw [htn] at hs
  generalize hdw : highestBit δ = dw at hs ⊢
  by_cases h0 : dw = 0
  · subst h0
    have hδ0 : δ = 0 := by
      by_contra hne
      have := (highestBit_bounds δ hδ32 hne).1
      omega
    subst hδ0
    have hne : ¬ r.extra ≥ 0 := by
      rw [hiff]; omega
    rw [if_neg (by simp), if_neg hne] at hs
    unfold decDelta
    rw [if_neg (by simp)]
    refine ⟨?_, by simpa using hs, rfl, rfl, id⟩
    have hM1 : ¬ ((0 : Int) = c.maxDelta - 1) := by omega
    simp [hδ, hM1]
  · have hne : δ ≠ 0 := by
      intro h; subst h; rw [highestBit_zero] at hdw; omega
    obtain ⟨b1, b2, b3⟩ := highestBit_bounds δ hδ32 hne
    rw [hdw] at b1 b2 b3
    rw [if_pos h0] at hs
    have hn : ((dw : Int) - 1).toNat = dw - 1 := by omega
    obtain ⟨e1, g1, s1, l1, la1, i1⟩ := getBits_ex (dw - 1) d2 (bitsMSB (dw - 1) δ)
      ([r.neg] ++ ((if r.extra ≥ 0 then [r.extra == 1] else []) ++ rest)) (bitsMSB_length _ _)
      (by simpa [List.append_assoc] using hs)
    obtain ⟨e2, g2, s2, l2, la2, i2⟩ := getBits_ex 1 e1 [r.neg] ((if r.extra ≥ 0 then [r.extra == 1] else []) ++ rest) rfl s1
    unfold decDelta
    rw [if_pos (by omega)]
    simp only [hn, g1, g2]
    have hmod : δ % 2 ^ (dw - 1) + 2 ^ (dw - 1) = δ := by
      have e2 : 2 ^ dw = 2 * 2 ^ (dw - 1) := by
        conv_lhs => rw [show dw = (dw - 1) + 1 by omega, pow_succ]
        omega
      rw [Nat.mod_eq_sub_mod b2, Nat.mod_eq_of_lt (by omega)]
      omega
    have hd0 : (if ((ofBits (bitsMSB (dw - 1) δ) : Nat) : Int) < 0 then (-1 : Int)
        else (ofBits (bitsMSB (dw - 1) δ) : Int) + 2 ^ (dw - 1)) = (δ : Int) := by
      rw [if_neg (by omega), ofBits_bitsMSB]
      exact_mod_cast hmod
    simp only [hd0, ofBits_single]
    by_cases hex : r.extra ≥ 0
    · have hM := hiff.1 hex
      rw [if_pos hex] at s2
      obtain ⟨e3, g3, s3, l3, la3, i3⟩ := getBits_ex 1 e2 [r.extra == 1] rest rfl s2
      have hM' : (δ : Int) = c.maxDelta - 1 := by omega
      rw [if_pos hM']
      simp only [g3, ofBits_single]
      refine ⟨?_, s3, by omega, by omega, fun h => i3 (i2 (i1 h))⟩
      rw [if_pos hM, hδ]
      cases r.neg <;> by_cases he : r.extra = 1 <;> simp [he]
    · have hM : ¬ r.delta = c.maxDelta - 1 := fun h => hex (hiff.2 h)
      rw [if_neg hex] at s2
      have hM' : ¬ (δ : Int) = c.maxDelta - 1 := by omega
      rw [if_neg hM']
      simp only
      refine ⟨?_, by simpa using s2, by omega, by omega, fun h => i2 (i1 h)⟩
      rw [if_neg hM, hδ]
      cases r.neg <;> simp

/-! ### one sample: `decStep` against `encSample` -/

theorem asr_range (c : Cfg) (hw : c.ok) (ptr : Int) (hp : -2 ^ 31 ≤ ptr ∧ ptr < 2 ^ 31) :
    -c.maxDelta ≤ asr ptr c.shift ∧ asr ptr c.shift < c.maxDelta := by
  obtain ⟨w⟩ := c
  rcases hw with h | h | h <;> simp only at h <;> subst h <;>
  · simp only [asr, Cfg.maxDelta, Cfg.shift]
    norm_num at hp ⊢
    omega

theorem iabs_nonneg (a : Int) : 0 ≤ iabs a := by unfold iabs; split <;> omega

theorem dwmBits_eq (c : Cfg) (dwm : Int) :
    dwmBits c dwm = unary c (iabs dwm).toNat ++ ((if dwm < 0 then [true] else []) ++ (if dwm > 0 then [false] else [])) := by
  have h0 := iabs_nonneg dwm
  unfold dwmBits unary
  by_cases h : iabs dwm = c.dwmMax
  · have h' : (iabs dwm).toNat = c.dwmMax := by omega
    simp [h]
  · have h' : ¬ (iabs dwm).toNat = c.dwmMax := by omega
    simp [h, h']

theorem dwmMax_cases (c : Cfg) (hw : c.ok) : c.dwmMax ≤ 6 ∨ 8 ≤ c.dwmMax := by
  obtain ⟨w⟩ := c
  rcases hw with h | h | h <;> simp only at h <;> subst h <;> simp [Cfg.dwmMax]

theorem unary_length_pos (c : Cfg) (hK : 1 ≤ c.dwmMax) (k : Nat) : 1 ≤ (unary c k).length := by
  unfold unary
  split
  · simp [zerosB_length]
  · simp [zerosB_length]; omega

/-- every sample code has at least one bit -/
theorem encSample_bits_pos (c : Cfg) (hw : c.ok) (ldw last x : Int) : 1 ≤ (encSample c ldw last x).bits.length := by
  have hK := (cfg_consts c hw).2.2.2.2.1
  simp only [encSample, dwmBits_eq, List.length_append]
  have := unary_length_pos c hK (iabs (dwmOf c (highestBit (deltaOf c (asr x c.shift - last)).delta.toNat) ldw)).toNat
  omega

theorem codes_length_ge (c : Cfg) (hw : c.ok) (ldw last : Int) (xs : List Int) : xs.length ≤ (codes c ldw last xs).length := by
  induction xs generalizing ldw last with
  | nil => simp [codes]
  | cons x xs ih =>
    have h1 := encSample_bits_pos c hw ldw last x
    have h2 := ih (encSample c ldw last x).ldw (encSample c ldw last x).last
    simp only [codes, List.length_append, List.length_cons]
    omega

theorem codes_flush_length (c : Cfg) (hw : c.ok) (ldw last : Int) : 12 ≤ (codes c ldw last (List.replicate 12 0)).length := by
  simpa using codes_length_ge c hw ldw last (List.replicate 12 0)

theorem decStep_spec (c : Cfg) (hw : c.ok) (d : DSt) (ptr : Int) (rest : List Bool)
    (hl1 : 0 ≤ d.ldw ∧ d.ldw < c.w) (hl2 : -c.maxDelta ≤ d.last ∧ d.last < c.maxDelta)
    (hp : -2 ^ 31 ≤ ptr ∧ ptr < 2 ^ 31)
    (hs : Sees d ((encSample c d.ldw d.last ptr).bits ++ rest)) (hr : 5 ≤ rest.length)
    (hi : Inv d ∨ d.pend.length < c.dwmMax) :
    ∃ d', decStep c d = .sample d' (asr ptr c.shift * 2 ^ c.shift) ∧ Sees d' rest ∧ Inv d' ∧
      d'.ldw = (encSample c d.ldw d.last ptr).ldw ∧ d'.last = (encSample c d.ldw d.last ptr).last ∧
      0 ≤ d'.ldw ∧ d'.ldw < c.w ∧ -c.maxDelta ≤ d'.last ∧ d'.last < c.maxDelta := by
  obtain ⟨hsp, hM2, hM23, hMp, hK1, hK2, hw24, hw12⟩ := cfg_consts c hw
  have hsr := asr_range c hw ptr hp
  generalize hsdef : asr ptr c.shift = s at hsr
  obtain ⟨r0, r1, r2, r3, r4⟩ := deltaOf_spec c hw s d.last hsr hl2
  generalize hrdef : deltaOf c (s - d.last) = r at r0 r1 r2 r3 r4
  obtain ⟨δ, hδ⟩ : ∃ δ : Nat, r.delta = δ := ⟨r.delta.toNat, by omega⟩
  have htn : r.delta.toNat = δ := by omega
  have hδ32 : δ < 2 ^ 32 := by
    norm_num at hM23 ⊢; omega
  have hδM : δ < 2 ^ (c.w - 1) := by
    have : (δ : Int) < 2 ^ (c.w - 1) := by rw [← hMp]; omega
    exact_mod_cast this
  have hdwle : highestBit δ ≤ c.w - 1 := highestBit_le δ (c.w - 1) hδ32 hδM
  generalize hdwdef : highestBit δ = dw at hdwle
  obtain ⟨m1, m2⟩ := dwmOf_spec c hw dw d.ldw ⟨by omega, by omega⟩ hl1
  generalize hdwm : dwmOf c (dw : Int) d.ldw = dwm at m1 m2
  have hbits : (encSample c d.ldw d.last ptr).bits = dwmBits c dwm ++ deltaBits dw r := by
    simp only [encSample, hsdef, hrdef, htn, hdwdef, hdwm]
  have hldw : (encSample c d.ldw d.last ptr).ldw = dw := by
    simp only [encSample, hsdef, hrdef, htn, hdwdef]
  have hlast : (encSample c d.ldw d.last ptr).last = s := by
    simp only [encSample, hsdef]
  rw [hbits, dwmBits_eq] at hs
  rw [hldw, hlast]
  have hk0 := iabs_nonneg dwm
  obtain ⟨k, hk⟩ : ∃ k : Nat, iabs dwm = k := ⟨(iabs dwm).toNat, by omega⟩
  have hkn : (iabs dwm).toNat = k := by omega
  rw [hkn] at hs
  have hul := unary_length_pos c hK1 k
  obtain ⟨g1, g2, g3, g4, g5, g6⟩ := getDwm_spec c d k
    (((if dwm < 0 then [true] else []) ++ (if dwm > 0 then [false] else [])) ++ (deltaBits dw r ++ rest)) (by omega)
    (by simpa [List.append_assoc] using hs)
    (by have := dwmMax_cases c hw; simp only [List.length_append]; omega)
  rcases hgd : getDwm c d with ⟨d1, m⟩
  rw [hgd] at g1 g2 g3 g4 g5 g6
  simp only at g1 g2 g3 g4 g5 g6
  subst g1
  rw [decStep_eq, hgd]
  simp only
  have hstop : ¬ ((k : Int) < 0 ∨ (d1.endZero = true ∧ d1.pend.length < d1.padBits)) := by
    rintro (h | ⟨_, h2⟩)
    · omega
    · exact sees_no_pad_consumed d1 _ g2 h2
  rw [if_neg hstop]
  obtain ⟨q1, q2, q3, q4, q5⟩ := decSign_spec d1 dwm k hk.symm (deltaBits dw r ++ rest) g2
  rcases hsd : decSign d1 k with ⟨d2, dwm'⟩
  rw [hsd] at q1 q2 q3 q4 q5
  simp only at q1 q2 q3 q4 q5
  subst q1
  simp only
  have hcm : cmod (d2.ldw + dwm' + c.w) c.w = dw := by rw [q3, g3]; exact m2
  rw [hcm]
  obtain ⟨p1, p2, p3, p4, p5⟩ := decDelta_spec c hw d2 r δ hδ (by omega) r3 rest (by rw [hdwdef]; exact q2)
  rw [hdwdef] at p1 p2 p3 p4 p5
  rcases hdd : decDelta c dw d2 with ⟨d3, delta⟩
  rw [hdd] at p1 p2 p3 p4 p5
  simp only at p1 p2 p3 p4 p5
  simp only
  have hl3 : d3.last = d.last := by omega
  unfold recon at r4
  simp only at r4
  unfold decOut
  simp only
  rw [hl3, p1, r4]
  refine ⟨_, rfl, ?_, ?_, rfl, rfl, by simp only; omega, by simp only; omega, hsr.1, hsr.2⟩
  · exact p2
  · have h3 : Inv d3 := p5 (q5 (g5 hi))
    exact h3

/-! ### the loop and the file -/

theorem decLoop_codes (c : Cfg) (hw : c.ok) (xs : List Int) (d : DSt) (tail : List Bool)
    (hx : ∀ x ∈ xs, -2 ^ 31 ≤ x ∧ x < 2 ^ 31)
    (hl1 : 0 ≤ d.ldw ∧ d.ldw < c.w) (hl2 : -c.maxDelta ≤ d.last ∧ d.last < c.maxDelta)
    (hs : Sees d (codes c d.ldw d.last xs ++ tail)) (ht : 5 ≤ tail.length)
    (hi : Inv d ∨ d.pend.length < c.dwmMax) :
    (decLoop c xs.length d).2 = xs.map (fun p => asr p c.shift * 2 ^ c.shift) := by
  induction xs generalizing d with
  | nil => simp [decLoop_zero]
  | cons x xs ih =>
    simp only [codes, List.append_assoc] at hs
    obtain ⟨d', e1, e2, e3, e4, e5, e6, e7, e8, e9⟩ :=
      decStep_spec c hw d x
        (codes c (encSample c d.ldw d.last x).ldw (encSample c d.ldw d.last x).last xs ++ tail) hl1 hl2
        (hx x (by simp)) hs (by simp only [List.length_append]; omega) hi
    simp only [List.length_cons, decLoop, e1]
    have hne : ¬ (d'.endZero = true ∧ d'.pend.length = 0) := by
      rintro ⟨h1, h2⟩
      have h3 := e3 h1
      obtain ⟨j, hj, _, _⟩ := e2
      have h4 := congrArg List.length hj
      simp only [avail, h3, bytesBits, List.length_append, List.flatMap_nil, List.length_nil] at h4
      omega
    rw [if_neg hne]
    simp only [List.map_cons]
    rw [← e4, ← e5] at e2
    rw [ih d' (fun y hy => hx y (by simp [hy])) ⟨e6, e7⟩ ⟨e8, e9⟩ e2 (Or.inl e3)]

/-- the DWVW round trip: what `sf_write` + `sf_close` put into the file, read back in one call, possibly with other
    bytes after the data.  Unconditional since the repair of KF-DWVW-TAIL-CALL (before it, a file so short that the very
    first look-ahead passed its end delivered nothing: `hfile` of `dwvw_roundtrip_old_rule`). -/
theorem dwvw_roundtrip_core (c : Cfg) (hw : c.ok) (xs : List Int) (hx : ∀ x ∈ xs, -2 ^ 31 ≤ x ∧ x < 2 ^ 31)
    (extra : List Byte) :
    decodeAll c (encodeAll c xs ++ extra) xs.length = xs.map (fun p => asr p c.shift * 2 ^ c.shift) := by
  obtain ⟨hsp, hM2, hM23, hMp, hK1, hK2, hw24, hw12⟩ := cfg_consts c hw
  obtain ⟨p, hp, hb⟩ := encodeAll_bits c xs
  have hF := codes_flush_length c hw (endSt c 0 0 xs).1 (endSt c 0 0 xs).2
  generalize codes c (endSt c 0 0 xs).1 (endSt c 0 0 xs).2 (List.replicate 12 0) = F at hb hF
  have hlen := congrArg List.length hb
  simp only [List.length_append] at hlen
  obtain ⟨t1, t2⟩ := append_split (bytesBits (encodeAll c xs)) p (codes c 0 0 xs) F hb (by omega)
  have hB : bytesBits (encodeAll c xs) = codes c 0 0 xs ++ (bytesBits (encodeAll c xs)).drop (codes c 0 0 xs).length := by
    conv_lhs => rw [← List.take_append_drop (codes c 0 0 xs).length (bytesBits (encodeAll c xs)), t1]
  unfold decodeAll decodeData
  apply decLoop_codes c hw xs (DSt.init (encodeAll c xs ++ extra))
    ((bytesBits (encodeAll c xs)).drop (codes c 0 0 xs).length ++ bytesBits extra) hx
  · simp [DSt.init]; omega
  · simp only [DSt.init]; omega
  · refine ⟨0, ?_, Nat.le_refl _, fun h => absurd h (by simp [DSt.init])⟩
    simp only [avail, DSt.init, List.nil_append, bytesBits_append, zerosB, List.replicate_zero, List.append_nil]
    rw [← List.append_assoc, ← hB]
  · simp only [List.length_append, List.length_drop]; omega
  · right; simp only [DSt.init, List.length_nil]; omega

end Sf.Dwvw.Proofs
