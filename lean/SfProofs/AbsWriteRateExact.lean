/-
  SfProofs.AbsWriteRateExact — the EXACT rate clauses of the write-side predicate added in round 9:

  * `.float32` (IRCAM): `rateOk` accepts exactly `float32Quant sr` (`rateOk_float32_iff`);
  * `.field16` (SVX, MPC2K): exactly `min sr 65535` (`rateOk_field16_iff`);
  * VOC: `rateOkG` — the clause on the whole geometry — accepts, for the block type the encoding and the channel count
    select, exactly the time-constant quantiser where the field can hold the period (`rateOkG_voc_iff`), it refines `rateOk`
    (`rateOk_of_rateOkG`) and is `rateOk` for every other container (`rateOkG_not_voc`);
  * `judgeG` / `acceptedG` (what `sfmodel abs-write` evaluates): `acceptedG_iff` — accepted, and the exact rate clause.
-/
import SfProofs.AbsWriteRate
import SfProofs.AbsWriteMeaning
namespace Sf.AbsWriteRate
open Sf Sf.AbsWrite

theorem rateClass_ircam : rateClass 0x0A = .float32 := rfl
theorem rateClass_svx : rateClass 0x06 = .field16 := rfl
theorem rateClass_mpc2k : rateClass 0x21 = .field16 := rfl
theorem rateClass_voc : rateClass 0x08 = .divisor := rfl

/-- the binary32 clause says: exactly the (capped) binary32 round trip of the rate -/
theorem rateOk_float32_iff (major sr : Nat) (got : Int) (hc : rateClass major = .float32) :
    rateOk major sr got = true ↔ got = ((float32Quant sr : Nat) : Int) := by
  unfold rateOk; rw [hc]; simp

/-- the 16-bit clause says: exactly the saturated rate -/
theorem rateOk_field16_iff (major sr : Nat) (got : Int) (hc : rateClass major = .field16) :
    rateOk major sr got = true ↔ got = ((min sr 65535 : Nat) : Int) := by
  unfold rateOk; rw [hc]; simp

/-- what `periodOk` says (the clause shared by HTK / SDS and the two VOC time-constant blocks) -/
theorem periodOk_iff (u b sr : Nat) (got : Int) :
    periodOk u b sr got = true ↔
      (0 < u / sr ∧ u / sr < 2 ^ b ∧ got = ((u / (u / sr) : Nat) : Int)) ∨ ((u / sr = 0 ∨ 2 ^ b ≤ u / sr) ∧ 1 ≤ got) := by
  unfold periodOk
  by_cases h0 : u / sr = 0
  · rw [periodQuant_zero u b sr h0]; simp [h0]
  · by_cases hb : 2 ^ b ≤ u / sr
    · rw [periodQuant_wide u b sr hb]
      have : ¬ u / sr < 2 ^ b := Nat.not_lt.2 hb
      simp [hb, this]
    · have h1 : 0 < u / sr := Nat.pos_of_ne_zero h0
      have h2 : u / sr < 2 ^ b := Nat.lt_of_not_le hb
      rw [periodQuant_some u b sr h1 h2]
      simp only [beq_iff_eq, h1, h2, true_and, h0, hb, or_self, false_and, or_false]

/-- a quantiser of the documented shape is accepted -/
theorem periodOk_complete (u b sr q : Nat) (hin : 0 < u / sr → u / sr < 2 ^ b → q = u / (u / sr)) (hout : 1 ≤ q) :
    periodOk u b sr (q : Int) = true := by
  rw [periodOk_iff]
  by_cases h0 : u / sr = 0
  · exact Or.inr ⟨Or.inl h0, by exact_mod_cast hout⟩
  · by_cases hb : 2 ^ b ≤ u / sr
    · exact Or.inr ⟨Or.inr hb, by exact_mod_cast hout⟩
    · have h1 : 0 < u / sr := Nat.pos_of_ne_zero h0
      have h2 : u / sr < 2 ^ b := Nat.lt_of_not_le hb
      exact Or.inl ⟨h1, h2, by rw [hin h1 h2]⟩

/-- every container but VOC is decided by `rateOk` -/
theorem rateOkG_not_voc (g : Geom) (got : Int) (h : g.major ≠ 0x08) : rateOkG g got = rateOk g.major g.sr got := by
  unfold rateOkG
  have : (g.major == 0x08) = false := by simpa using h
  rw [this]; rfl

/-- VOC: the block type decides -/
theorem rateOkG_voc_iff (g : Geom) (got : Int) (h : g.major = 0x08) :
    rateOkG g got = true ↔
      (g.codec ≠ 0x05 ∧ got = (g.sr : Int)) ∨
      (g.codec = 0x05 ∧ g.ch = 1 ∧ periodOk (10 ^ 6) 8 g.sr got = true) ∨
      (g.codec = 0x05 ∧ g.ch ≠ 1 ∧ periodOk (128 * 10 ^ 6) 16 g.sr got = true) := by
  unfold rateOkG vocField
  rw [h]
  by_cases h5 : g.codec = 0x05
  · by_cases h1 : g.ch = 1
    · simp [h5, h1]
    · simp [h5, h1]
  · simp [h5]

/-- the exact clause refines the clause that sees only the container and the rate -/
theorem rateOk_of_rateOkG (g : Geom) (got : Int) (h : rateOkG g got = true) : rateOk g.major g.sr got = true := by
  by_cases hm : g.major = 0x08
  · rcases (rateOkG_voc_iff g got hm).1 h with ⟨_, e⟩ | ⟨_, _, e⟩ | ⟨_, _, e⟩
    · unfold rateOk; rw [hm, rateClass_voc]; simp [e]
    · unfold rateOk; rw [hm, rateClass_voc]; simp [e]
    · unfold rateOk; rw [hm, rateClass_voc]; simp [e]
  · rw [← rateOkG_not_voc g got hm]; exact h

/-! ## `judgeG` -/

theorem acceptedG_iff (r : Record) : acceptedG r = true ↔ accepted r = true ∧ rateOkG r.g r.info.sr = true := by
  unfold acceptedG judgeG accepted
  constructor
  · intro h
    by_cases ha : (judge r).any rateSettled = true
    · simp only [ha, if_true] at h
      have : judge r = [] := by simpa using h
      rw [this] at ha; simp at ha
    · simp only [ha] at h
      by_cases hr : rateOkG r.g r.info.sr = true
      · simp only [hr, if_true] at h
        exact ⟨by simpa using h, hr⟩
      · simp only [hr] at h
        simp at h
  · rintro ⟨ha, hr⟩
    have hj : judge r = [] := by simpa using ha
    simp [hj, hr]

/-- for every container but VOC the two predicates agree -/
theorem acceptedG_eq_accepted (r : Record) (h : r.g.major ≠ 0x08) : acceptedG r = accepted r := by
  by_cases ha : accepted r = true
  · rw [ha, acceptedG_iff]
    exact ⟨ha, by rw [rateOkG_not_voc _ _ h]; exact (accepted_meaning r ha).rate⟩
  · have : ¬ acceptedG r = true := fun hg => ha ((acceptedG_iff r).1 hg).1
    simp only [Bool.not_eq_true] at ha this
    rw [ha, this]

end Sf.AbsWriteRate
