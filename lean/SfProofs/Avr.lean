/-
  Helper lemmas for the AVR container theorems (SfProps/C04Avr.lean): length of the header, the reader on
  `hdr c frames ++ body`.
-/
import SfModel.Avr
import SfProofs.SmallSession
namespace Sf.Avr
open Sf Sf.Small

theorem mk4_2BIT_length : (mk4 "2BIT").length = 4 := by decide

theorem hdr_length (c : Cfg) (f : Nat) : (hdr c f).length = hdrLen := by
  unfold hdr hdrLen
  simp only [List.length_append, be16_length, be32_length, List.length_replicate, mk4_2BIT_length]

theorem spec_lenOk (c : Cfg) : (spec c).LenOk := fun f _ _ => hdr_length c f

theorem cfg_cases (c : Cfg) (h : c.wf) :
    (c.codec = 0x01 ∨ c.codec = 0x02 ∨ c.codec = 0x05) ∧ (c.ch = 1 ∨ c.ch = 2) := by
  obtain ⟨ha, h1, _, _⟩ := h
  unfold accepted at ha
  simp only [Bool.decide_and, Bool.decide_or, Bool.and_eq_true, Bool.or_eq_true, decide_eq_true_eq] at ha
  refine ⟨ha.1, ?_⟩
  omega

theorem bw_pos (c : Cfg) (h : c.wf) : 0 < c.bw := by
  obtain ⟨_, hch⟩ := cfg_cases c h
  unfold Cfg.bw Cfg.bytewidth
  split <;> omega

/-- the reader on a header this writer produced, followed by any bytes: everything as requested, the frame count
    derived from the number of bytes that follow the header (the `frames` field is not used) -/
theorem parse_hdr (c : Cfg) (hwf : c.wf) (f : Nat) (body : List Byte) :
    parse (hdr c f ++ body) = .ok { ch := c.ch, fmt := c.fmtWord, sr := c.sr, frames := body.length / c.bw } := by
  have hlen : (hdr c f ++ body).length = 128 + body.length := by rw [List.length_append, hdr_length]; rfl
  have h0 : (hdr c f ++ body).take 4 = mk4 "2BIT" := by
    unfold hdr; simp only [List.append_assoc]; exact List.take_left' mk4_2BIT_length
  have h8 : ((hdr c f ++ body).drop 8).take 4 = [0, 0, 0, 0] := by
    unfold hdr; simp only [List.append_assoc]
    rfl
  have hhtk : htkCoincidence (hdr c f ++ body) = false := by
    unfold htkCoincidence; rw [h8]; simp
  have s12 : slice (hdr c f ++ body) 12 2 = be16 (if c.ch = 2 then 0xFFFF else 0) := by
    have e : hdr c f ++ body = (mk4 "2BIT" ++ List.replicate 8 0) ++ (be16 (if c.ch = 2 then 0xFFFF else 0) ++
        (be16 (c.bytewidth * 8) ++ be16 (if c.codec = 0x05 then 0 else 0xFFFF) ++ be16 0 ++ be16 0xFFFF ++
          be32 c.sr ++ be32 f ++ be32 0 ++ be32 0 ++ be16 0 ++ be16 0 ++ be16 0 ++ List.replicate 20 0 ++ List.replicate 64 0 ++ body)) := by
      unfold hdr; simp only [List.append_assoc]
    rw [e]; exact slice_field _ _ _ 12 2 (by decide) (by rw [be16_length])
  have s14 : slice (hdr c f ++ body) 14 2 = be16 (c.bytewidth * 8) := by
    have e : hdr c f ++ body = (mk4 "2BIT" ++ List.replicate 8 0 ++ be16 (if c.ch = 2 then 0xFFFF else 0)) ++ (be16 (c.bytewidth * 8) ++
        (be16 (if c.codec = 0x05 then 0 else 0xFFFF) ++ be16 0 ++ be16 0xFFFF ++
          be32 c.sr ++ be32 f ++ be32 0 ++ be32 0 ++ be16 0 ++ be16 0 ++ be16 0 ++ List.replicate 20 0 ++ List.replicate 64 0 ++ body)) := by
      unfold hdr; simp only [List.append_assoc]
    rw [e]; exact slice_field _ _ _ 14 2 (by simp [List.length_append, be16_length, mk4_2BIT_length]) (by rw [be16_length])
  have s16 : slice (hdr c f ++ body) 16 2 = be16 (if c.codec = 0x05 then 0 else 0xFFFF) := by
    have e : hdr c f ++ body = (mk4 "2BIT" ++ List.replicate 8 0 ++ be16 (if c.ch = 2 then 0xFFFF else 0) ++ be16 (c.bytewidth * 8)) ++
        (be16 (if c.codec = 0x05 then 0 else 0xFFFF) ++ (be16 0 ++ be16 0xFFFF ++
          be32 c.sr ++ be32 f ++ be32 0 ++ be32 0 ++ be16 0 ++ be16 0 ++ be16 0 ++ List.replicate 20 0 ++ List.replicate 64 0 ++ body)) := by
      unfold hdr; simp only [List.append_assoc]
    rw [e]; exact slice_field _ _ _ 16 2 (by simp [List.length_append, be16_length, mk4_2BIT_length]) (by rw [be16_length])
  have s22 : slice (hdr c f ++ body) 22 4 = be32 c.sr := by
    have e : hdr c f ++ body = (mk4 "2BIT" ++ List.replicate 8 0 ++ be16 (if c.ch = 2 then 0xFFFF else 0) ++ be16 (c.bytewidth * 8) ++
        be16 (if c.codec = 0x05 then 0 else 0xFFFF) ++ be16 0 ++ be16 0xFFFF) ++
        (be32 c.sr ++ (be32 f ++ be32 0 ++ be32 0 ++ be16 0 ++ be16 0 ++ be16 0 ++ List.replicate 20 0 ++ List.replicate 64 0 ++ body)) := by
      unfold hdr; simp only [List.append_assoc]
    rw [e]; exact slice_field _ _ _ 22 4 (by simp [List.length_append, be16_length, mk4_2BIT_length]) (by rw [be32_length])
  obtain ⟨hcodec, hch⟩ := cfg_cases c hwf
  have hb := bw_pos c hwf
  obtain ⟨_, _, hsr1, hsr2⟩ := hwf
  have hsr : sext 32 (ofBE (be32 (c.sr : Int))) = (c.sr : Int) := by
    rw [ofBE_be32, wrapU_nat 32 c.sr (by omega)]
    unfold sext
    rw [if_pos (by simp; omega)]
  have hmono : ofBE (be16 (if c.ch = 2 then 0xFFFF else 0)) % 2 + 1 = c.ch := by
    rcases hch with h | h <;> rw [h] <;> decide
  unfold parse
  rw [if_neg (by omega), if_neg (by rw [h0]; simp), hhtk]
  simp only [Bool.false_eq_true, if_false, s12, s14, s16, s22, hsr, hmono]
  have hcf : codecFrames (hdr c f ++ body).length 128 0 ((c.bw : Nat) : Int) = ((body.length : Int), ((body.length / c.bw : Nat) : Int)) := by
    rw [hlen]; exact codecFrames_body 128 body.length c.bw
  have hfin : ∀ codec bytewidth : Nat, 0x120000 + codec = c.fmtWord → bytewidth * c.ch = c.bw →
      finish (hdr c f ++ body).length c.ch (c.sr : Int) codec bytewidth =
      ParseRes.ok { ch := c.ch, fmt := c.fmtWord, sr := c.sr, frames := body.length / c.bw } := by
    intro codec bytewidth hc hbw
    unfold finish
    simp only [hbw, hcf, hc]
    have hnn := Int.natCast_nonneg (body.length / c.bw)
    rw [if_neg (by omega)]
    simp only [Int.toNat_natCast]
  rcases hcodec with h | h | h
  · have e1 : ofBE (be16 ((c.bytewidth : Int) * 8)) = 8 := by unfold Cfg.bytewidth; rw [h]; decide
    have e2 : ofBE (be16 (if c.codec = 0x05 then 0 else 0xFFFF)) = 65535 := by rw [h]; decide
    rw [e1, e2, show selOf 8 65535 = some (1, 1) by decide]
    exact hfin 1 1 (by unfold Cfg.fmtWord; rw [h]) (by unfold Cfg.bw Cfg.bytewidth; rw [h]; simp)
  · have e1 : ofBE (be16 ((c.bytewidth : Int) * 8)) = 16 := by unfold Cfg.bytewidth; rw [h]; decide
    have e2 : ofBE (be16 (if c.codec = 0x05 then 0 else 0xFFFF)) = 65535 := by rw [h]; decide
    rw [e1, e2, show selOf 16 65535 = some (2, 2) by decide]
    exact hfin 2 2 (by unfold Cfg.fmtWord; rw [h]) (by unfold Cfg.bw Cfg.bytewidth; rw [h]; simp)
  · have e1 : ofBE (be16 ((c.bytewidth : Int) * 8)) = 8 := by unfold Cfg.bytewidth; rw [h]; decide
    have e2 : ofBE (be16 (if c.codec = 0x05 then 0 else 0xFFFF)) = 0 := by rw [h]; decide
    rw [e1, e2, show selOf 8 0 = some (5, 1) by decide]
    exact hfin 5 1 (by unfold Cfg.fmtWord; rw [h]) (by unfold Cfg.bw Cfg.bytewidth; rw [h]; simp)

end Sf.Avr
