/-
  SfProofs.NistSearch — `strstr` over a text made of known literals and unknown runs of decimal digits, decided
  symbolically: `ssearch pat segs` inspects the literals only and `ssearch_sound` transfers its answer to
  `Sf.Nist.strstr pat (flatten env segs)` for every assignment `env` of non-empty digit runs.  Also the sscanf pieces
  (`scanInt`, `scanWord`) on "known text ++ unknown rest".
-/
import SfModel.Nist
import SfProofs.PvfImage
namespace Sf.Nist
open Sf Sf.Small2
open Sf.Pvf (digits scanInt skipWs isWs isDigit scanDigits)

def isDig (b : Byte) : Bool := 48 ≤ b ∧ b ≤ 57

inductive Seg
  | lit (l : List Byte)
  | digs (i : Nat)
deriving Repr, DecidableEq

def flatten (env : Nat → List Byte) : List Seg → List Byte
  | [] => []
  | .lit l :: r => l ++ flatten env r
  | .digs i :: r => env i ++ flatten env r

/-- what may follow a literal for `mis` to be conclusive: nothing, or a digit -/
def DigOrEnd (X : List Byte) : Prop := X = [] ∨ ∃ d R, X = d :: R ∧ isDig d = true

/-- `pat` certainly does not match at the known text `T` when a `DigOrEnd` text follows -/
def mis : List Byte → List Byte → Bool
  | [], _ => false
  | p :: _, [] => !isDig p
  | p :: ps, b :: bs => if p = b then mis ps bs else true

inductive LitRes
  | found (suf : List Byte)
  | absent
  | unknown
deriving Repr, DecidableEq

def searchLit (pat : List Byte) : List Byte → LitRes
  | [] => .absent
  | b :: r => if isPrefix pat (b :: r) then .found (b :: r) else if mis pat (b :: r) then searchLit pat r else .unknown

def nextOk : List Seg → Bool
  | [] => true
  | .digs _ :: _ => true
  | .lit _ :: _ => false

/-- `some (some rest)`: first occurrence found, `rest` starts at it; `some none`: no occurrence; `none`: undecided -/
def ssearch (pat : List Byte) : List Seg → Option (Option (List Seg))
  | [] => some none
  | .digs _ :: rest => if (pat.head?.map (fun p => !isDig p)).getD false then ssearch pat rest else none
  | .lit L :: rest =>
    if nextOk rest then
      match searchLit pat L with
      | .found suf => some (some (.lit suf :: rest))
      | .absent => ssearch pat rest
      | .unknown => none
    else none

/-! ### soundness -/

theorem isPrefix_append (pat T X : List Byte) (h : isPrefix pat T = true) : isPrefix pat (T ++ X) = true := by
  induction pat generalizing T with
  | nil => simp [isPrefix]
  | cons p ps ih =>
    cases T with
    | nil => simp [isPrefix] at h
    | cons b bs =>
      simp only [isPrefix, Bool.and_eq_true, decide_eq_true_eq] at h
      simp only [List.cons_append, isPrefix, Bool.and_eq_true, decide_eq_true_eq]
      exact ⟨h.1, ih bs h.2⟩

theorem mis_sound (pat T X : List Byte) (hX : DigOrEnd X) (h : mis pat T = true) : isPrefix pat (T ++ X) = false := by
  induction pat generalizing T with
  | nil => simp [mis] at h
  | cons p ps ih =>
    cases T with
    | nil =>
      simp only [mis, Bool.not_eq_true'] at h
      rcases hX with rfl | ⟨d, R, rfl, hd⟩
      · simp [isPrefix]
      · simp only [List.nil_append, isPrefix, Bool.and_eq_false_imp, decide_eq_true_eq]
        intro e; subst e; rw [hd] at h; cases h
    | cons b bs =>
      simp only [mis] at h
      simp only [List.cons_append, isPrefix]
      by_cases e : p = b
      · rw [if_pos e] at h; simp [e, ih bs h]
      · simp [e]

theorem strstr_nil_of_ne (pat : List Byte) (hp : pat ≠ []) : strstr pat [] = none := by simp [strstr, hp]

theorem searchLit_sound (pat : List Byte) (_hp : pat ≠ []) (L X : List Byte) (hX : DigOrEnd X) :
    (∀ suf, searchLit pat L = .found suf → strstr pat (L ++ X) = some (suf ++ X)) ∧
    (searchLit pat L = .absent → strstr pat (L ++ X) = strstr pat X) := by
  induction L with
  | nil => exact ⟨by intro suf h; simp [searchLit] at h, by intro _; rfl⟩
  | cons b r ih =>
    constructor
    · intro suf h
      simp only [searchLit] at h
      by_cases h1 : isPrefix pat (b :: r) = true
      · rw [if_pos h1] at h; injection h with h; subst h
        have := isPrefix_append pat (b :: r) X h1
        simp only [List.cons_append] at this ⊢
        simp [strstr, this]
      · rw [if_neg h1] at h
        by_cases h2 : mis pat (b :: r) = true
        · rw [if_pos h2] at h
          have := mis_sound pat (b :: r) X hX h2
          simp only [List.cons_append] at this ⊢
          simp only [strstr, this, Bool.false_eq_true, if_false]
          exact ih.1 suf h
        · rw [if_neg h2] at h; cases h
    · intro h
      simp only [searchLit] at h
      by_cases h1 : isPrefix pat (b :: r) = true
      · rw [if_pos h1] at h; cases h
      · rw [if_neg h1] at h
        by_cases h2 : mis pat (b :: r) = true
        · rw [if_pos h2] at h
          have := mis_sound pat (b :: r) X hX h2
          simp only [List.cons_append] at this ⊢
          simp only [strstr, this, Bool.false_eq_true, if_false]
          exact ih.2 h
        · rw [if_neg h2] at h; cases h

theorem strstr_skip_digits (p : Byte) (ps : List Byte) (hp : isDig p = false) (ds X : List Byte) (hd : ∀ b ∈ ds, isDig b = true) :
    strstr (p :: ps) (ds ++ X) = strstr (p :: ps) X := by
  induction ds with
  | nil => rfl
  | cons d r ih =>
    have hdd := hd d (List.mem_cons_self ..)
    have : p ≠ d := by intro e; subst e; rw [hp] at hdd; cases hdd
    simp only [List.cons_append, strstr, isPrefix, this, decide_false, Bool.false_and, Bool.false_eq_true, if_false]
    exact ih (fun b hb => hd b (List.mem_cons_of_mem _ hb))

/-- an assignment of digit runs: each is non-empty and holds decimal digits only -/
def GoodEnv (env : Nat → List Byte) : Prop := ∀ i, env i ≠ [] ∧ ∀ b ∈ env i, isDig b = true

theorem digOrEnd_flatten (env : Nat → List Byte) (he : GoodEnv env) (rest : List Seg) (h : nextOk rest = true) :
    DigOrEnd (flatten env rest) := by
  cases rest with
  | nil => exact Or.inl rfl
  | cons s r =>
    cases s with
    | lit l => simp [nextOk] at h
    | digs i =>
      obtain ⟨hne, hall⟩ := he i
      cases hi : env i with
      | nil => exact absurd hi hne
      | cons d R =>
        refine Or.inr ⟨d, R ++ flatten env r, by simp [flatten, hi], hall d (by rw [hi]; exact List.mem_cons_self ..)⟩

theorem ssearch_sound (pat : List Byte) (hp : pat ≠ []) (env : Nat → List Byte) (he : GoodEnv env) (segs : List Seg) :
    ∀ r, ssearch pat segs = some r → strstr pat (flatten env segs) = r.map (flatten env) := by
  induction segs with
  | nil => intro r h; simp only [ssearch] at h; injection h with h; subst h; simp [flatten, strstr, hp]
  | cons s rest ih =>
    intro r h
    cases s with
    | digs i =>
      simp only [ssearch] at h
      cases pat with
      | nil => exact absurd rfl hp
      | cons p ps =>
        simp only [List.head?, Option.map, Option.getD] at h
        by_cases hd : isDig p = true
        · simp [hd] at h
        · have hd' : isDig p = false := by simpa using hd
          simp only [hd', Bool.not_false, if_true] at h
          simp only [flatten]
          rw [strstr_skip_digits p ps hd' _ _ (he i).2]
          exact ih r h
    | lit L =>
      simp only [ssearch] at h
      by_cases hn : nextOk rest = true
      · rw [if_pos hn] at h
        have hX := digOrEnd_flatten env he rest hn
        have hs := searchLit_sound pat hp L (flatten env rest) hX
        cases hl : searchLit pat L with
        | found suf =>
          rw [hl] at h; simp only at h; injection h with h; subst h
          simp only [flatten, Option.map]
          exact hs.1 suf hl
        | absent =>
          rw [hl] at h; simp only at h
          simp only [flatten]
          rw [hs.2 hl]; exact ih r h
        | unknown => rw [hl] at h; simp at h
      · rw [if_neg hn] at h; cases h

/-! ### sscanf on "known text ++ unknown rest" -/

theorem isDig_iff (b : Byte) : isDig b = true ↔ 48 ≤ b ∧ b ≤ 57 := by simp [isDig]

theorem digits_isDig (n : Nat) : ∀ b ∈ digits n, isDig b = true := by
  intro b hb; rw [isDig_iff]; exact Sf.Pvf.digits_all n b hb

/-- a decimal number in front of a character that is not a digit -/
theorem scanInt_digits_then (n : Nat) (b : Byte) (R : List Byte) (hb : isDigit b = false) :
    scanInt (digits n ++ b :: R) = some ((n : Int), b :: R) :=
  Sf.Pvf.scanInt_digits n (b :: R) (by intro b' r h; injection h with h1 _; subst h1; exact hb)

theorem skipWs_append (L X : List Byte) (h : skipWs L ≠ []) : skipWs (L ++ X) = skipWs L ++ X := by
  induction L with
  | nil => simp [skipWs] at h
  | cons b r ih =>
    by_cases hb : isWs b = true
    · simp only [List.cons_append, skipWs, hb, if_true] at h ⊢; exact ih h
    · simp only [List.cons_append, skipWs, hb, if_false, Bool.false_eq_true]

theorem scanDigits_append (acc : Nat) (L X : List Byte) (h : (scanDigits acc L).2 ≠ []) :
    scanDigits acc (L ++ X) = ((scanDigits acc L).1, (scanDigits acc L).2 ++ X) := by
  induction L generalizing acc with
  | nil => simp [scanDigits] at h
  | cons b r ih =>
    by_cases hb : isDigit b = true
    · simp only [List.cons_append, scanDigits, hb, if_true] at h ⊢; exact ih _ h
    · simp only [List.cons_append, scanDigits, hb, if_false, Bool.false_eq_true]

/-- what scanInt does after skipping white space, on a text whose sign / first digit position is known -/
def scanTail (neg : Bool) (s : List Byte) : Option (Int × List Byte) :=
  if (s.head?.map isDigit).getD false then some (if neg then - ((scanDigits 0 s).1 : Int) else ((scanDigits 0 s).1 : Int), (scanDigits 0 s).2) else none

theorem scanInt_cons (L : List Byte) (a : Byte) (t : List Byte) (h : skipWs L = a :: t) :
    scanInt L = if a = 0x2D then scanTail true t else if a = 0x2B then scanTail false t else scanTail false (a :: t) := by
  unfold scanInt
  rw [h]
  by_cases h1 : a = 0x2D
  · subst h1; simp [scanTail]
  · by_cases h2 : a = 0x2B
    · subst h2; simp [scanTail]
    · simp [scanTail, h1, h2]

theorem scanTail_append (neg : Bool) (s X : List Byte) (v : Int) (r : List Byte) (h : scanTail neg s = some (v, r)) (hr : r ≠ []) :
    scanTail neg (s ++ X) = some (v, r ++ X) := by
  cases s with
  | nil => simp [scanTail] at h
  | cons d u =>
    unfold scanTail at h ⊢
    simp only [List.cons_append, List.head?_cons, Option.map_some, Option.getD_some] at h ⊢
    by_cases hd : isDigit d = true
    · simp only [hd, if_true, Option.some.injEq, Prod.mk.injEq] at h ⊢
      have h2 : (scanDigits 0 (d :: u)).2 ≠ [] := by rw [h.2]; exact hr
      have := scanDigits_append 0 (d :: u) X h2
      simp only [List.cons_append] at this
      rw [this]
      exact ⟨h.1, by rw [h.2]⟩
    · simp [hd] at h

/-- a "%d" conversion that ends inside the known text -/
theorem scanInt_lit (L X : List Byte) (v : Int) (r : List Byte) (h : scanInt L = some (v, r)) (hr : r ≠ []) :
    scanInt (L ++ X) = some (v, r ++ X) := by
  have hs : skipWs L ≠ [] := by
    intro e; unfold scanInt at h; rw [e] at h; simp at h
  cases hsl : skipWs L with
  | nil => exact absurd hsl hs
  | cons a t =>
    have hX : skipWs (L ++ X) = a :: (t ++ X) := by rw [skipWs_append L X hs, hsl]; rfl
    rw [scanInt_cons L a t hsl] at h
    rw [scanInt_cons (L ++ X) a (t ++ X) hX]
    by_cases h1 : a = 0x2D
    · rw [if_pos h1] at h ⊢; exact scanTail_append _ _ _ _ _ h hr
    · rw [if_neg h1] at h ⊢
      by_cases h2 : a = 0x2B
      · rw [if_pos h2] at h ⊢; exact scanTail_append _ _ _ _ _ h hr
      · rw [if_neg h2] at h ⊢; exact scanTail_append false (a :: t) X _ _ h hr

theorem takeWhile_append_stop (p : Byte → Bool) (A X : List Byte) (h : A.any (fun b => !p b) = true) :
    (A ++ X).takeWhile p = A.takeWhile p := by
  induction A with
  | nil => simp at h
  | cons a t ih =>
    simp only [List.cons_append, List.takeWhile_cons]
    by_cases ha : p a = true
    · simp only [ha, if_true]
      simp only [List.any_cons, ha, Bool.not_true, Bool.false_or] at h
      rw [ih h]
    · simp [ha]

/-- a "%<n>s" conversion whose word ends inside the known text -/
def wordEnds (r : List Byte) : Bool := (skipWs r).any (fun b => !(!isWs b))

theorem scanWord_lit (n : Nat) (r X : List Byte) (h : wordEnds r = true) : scanWord n (r ++ X) = scanWord n r := by
  unfold scanWord
  have hs : skipWs r ≠ [] := by intro e; simp [wordEnds, e] at h
  rw [skipWs_append r X hs, takeWhile_append_stop _ _ _ h]

end Sf.Nist
