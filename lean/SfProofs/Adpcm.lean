/- Helper lemmas for SfProps.C20Adpcm: lib-shaped ADPCM decoders = reference decoders. -/
import SfModel.Adpcm
import SfModel.AdpcmSpec
import SfProofs.Table
namespace Sf.Adpcm
open Sf.Generated

/-! ### integers -/

theorem wrapS16_id (x : Int) (h1 : -32768 ≤ x) (h2 : x ≤ 32767) : wrapS 16 x = x := by
  simp only [wrapS]
  have : (2 : Int) ^ 16 = 65536 := by decide
  rw [this]
  split <;> omega

theorem wrapS16_eq_sext (u : Nat) (h : u < 65536) : wrapS 16 (u : Int) = sext 16 u := by
  simp only [wrapS, sext]
  have h1 : (2 : Int) ^ 16 = 65536 := by decide
  have h2 : (2 : Nat) ^ (16 - 1) = 32768 := by decide
  have h3 : (2 : Nat) ^ 16 = 65536 := by decide
  rw [h1, h2]
  split <;> split <;> omega

theorem clamp16_eq_sat16 (x : Int) : clamp16 x = Spec.sat16 x := by
  simp only [clamp16, Spec.sat16]; omega

theorem sat16_range (x : Int) : -32768 ≤ Spec.sat16 x ∧ Spec.sat16 x ≤ 32767 := by
  simp only [Spec.sat16]; omega

theorem clampIdx_eq_limit (x : Int) : clampImaStepIndex x = Spec.limitIndex x := by
  simp only [clampImaStepIndex, Spec.limitIndex]; omega

theorem limitIndex_range (x : Int) : 0 ≤ Spec.limitIndex x ∧ Spec.limitIndex x ≤ 88 := by
  simp only [Spec.limitIndex]; omega


/-! ### tables: what the running library uses = what is published -/

theorem imaStepTab_spec : imaStepTab = (List.range 89).map (fun i => Spec.imaStepTable.getD i 0) :=
  tabIs_spec _ _ _ (by decide)
theorem imaStepTab_eq : imaStepTab = Spec.imaStepTable := by decide
theorem imaIndexAdjust_spec : imaIndexAdjust = (List.range 16).map Spec.imaIndexDelta :=
  tabIs_spec _ _ _ (by decide)
theorem msAdaptationTab_eq : msAdaptationTab = Spec.msAdaptionTable := by decide
theorem msCoeff_spec : msCoeff1 = (List.range 7).map (fun p => (Spec.msCoefTable.getD p (0, 0)).1)
    ∧ msCoeff2 = (List.range 7).map (fun p => (Spec.msCoefTable.getD p (0, 0)).2) :=
  ⟨tabIs_spec _ _ _ (by decide), tabIs_spec _ _ _ (by decide)⟩

theorem imaIndxAdjust_eq : ∀ c, c < 16 → imaIndxAdjust c = Spec.imaIndexDelta c := by decide

theorem imaIndexDelta_range (c : Nat) : -1 ≤ Spec.imaIndexDelta c ∧ Spec.imaIndexDelta c ≤ 8 := by
  simp only [Spec.imaIndexDelta]; split <;> omega

theorem imaStepSize_eq (i : Int) : imaStepSize i = Spec.imaStepTable.getD i.toNat 0 := by
  simp only [imaStepSize, imaStepTab_eq]

/-! ### one code -/

/-- the reference step only looks at the low four bits of the code -/
theorem imaStep_mod16 (s : Spec.ImaState) (c : Nat) : Spec.imaStep s (c % 16) = Spec.imaStep s c := by
  have h1 : c % 16 % 8 = c % 8 := by omega
  have h2 : c % 16 % 16 = c % 16 := by omega
  simp only [Spec.imaStep, Spec.imaIndexDelta, h1, h2]

theorem imaDiff_spec (step : Int) (c : Nat) (hc : c < 16) (p : Int) :
    p + imaDiff step c =
      (let m := c % 8
       let vpdiff := step / 8 + (if m ≥ 4 then step else 0) + (if m % 4 ≥ 2 then step / 2 else 0)
                      + (if m % 2 = 1 then step / 4 else 0)
       if c % 16 ≥ 8 then p - vpdiff else p + vpdiff) := by
  have e3 : asr step 3 = step / 8 := by simp [asr]
  have e2 : asr step 2 = step / 4 := by simp [asr]
  have e1 : asr step 1 = step / 2 := by simp [asr]
  simp only [imaDiff, e1, e2, e3]
  have : c = 0 ∨ c = 1 ∨ c = 2 ∨ c = 3 ∨ c = 4 ∨ c = 5 ∨ c = 6 ∨ c = 7 ∨ c = 8 ∨ c = 9 ∨ c = 10 ∨ c = 11
      ∨ c = 12 ∨ c = 13 ∨ c = 14 ∨ c = 15 := by omega
  rcases this with h | h | h | h | h | h | h | h | h | h | h | h | h | h | h | h <;> subst h <;> simp <;> omega

/-- the per-code body shared by both IMA loops, against the reference step -/
theorem ima_code (p i : Int) (c : Nat) (hi0 : 0 ≤ i) (hi1 : i ≤ 88) :
    wrapS 16 (clamp16 (p + imaDiff (imaStepSize i) (c % 16))) = (Spec.imaStep ⟨p, i⟩ c).valpred
    ∧ clampImaStepIndex (wrapS 16 (i + imaIndxAdjust (c % 16))) = (Spec.imaStep ⟨p, i⟩ c).index := by
  have hc : c % 16 < 16 := by omega
  rw [← imaStep_mod16]
  constructor
  · rw [clamp16_eq_sat16, wrapS16_id _ (sat16_range _).1 (sat16_range _).2, imaDiff_spec _ _ hc, imaStepSize_eq]
    simp only [Spec.imaStep]
  · rw [imaIndxAdjust_eq _ hc, clampIdx_eq_limit]
    have := imaIndexDelta_range (c % 16)
    rw [wrapS16_id _ (by omega) (by omega)]
    simp only [Spec.imaStep]


/-! ### IMA decode passes = streaming reference -/

theorem imaStep_index_range (s : Spec.ImaState) (c : Nat) :
    0 ≤ (Spec.imaStep s c).index ∧ (Spec.imaStep s c).index ≤ 88 := by
  simp only [Spec.imaStep]; exact limitIndex_range _

theorem imaDecode_mod16 (cs : List Nat) : ∀ s, Spec.imaDecode s (cs.map (· % 16)) = Spec.imaDecode s cs := by
  induction cs with
  | nil => intro s; rfl
  | cons c cs ih => intro s; simp only [List.map_cons, Spec.imaDecode, imaStep_mod16, ih]

/-- mono: the buffer walk is the stream recursion -/
theorem wavDecodeLoop_mono (codes : List Nat) :
    ∀ (k : Nat) (i0 i1 p : Int) (h : List Int), 0 ≤ i0 → i0 ≤ 88 →
      wavDecodeLoop 1 k codes (i0, i1) (p :: h) = Spec.imaDecode ⟨p, i0⟩ codes := by
  induction codes with
  | nil => intros; rfl
  | cons c cs ih =>
    intro k i0 i1 p h h0 h1
    have hc := ima_code p i0 c h0 h1
    have hr := imaStep_index_range ⟨p, i0⟩ c
    simp only [wavDecodeLoop, Spec.imaDecode, Nat.lt_irrefl, if_false, if_true, List.getD_cons_zero,
      Nat.sub_self, hc.1, hc.2]
    rw [ih _ _ _ _ _ hr.1 hr.2]

/-- stereo: walking the interleaved buffer with `chan = k % 2` = decoding each channel's stream, then framing -/
theorem wavDecodeLoop_stereo (xs : List Nat) :
    ∀ (ys : List Nat) (k : Nat) (i0 i1 p0 p1 : Int) (h : List Int), k % 2 = 0 →
      0 ≤ i0 → i0 ≤ 88 → 0 ≤ i1 → i1 ≤ 88 →
      wavDecodeLoop 2 k (interleave xs ys) (i0, i1) (p1 :: p0 :: h)
        = Spec.frames2 (Spec.imaDecode ⟨p0, i0⟩ xs) (Spec.imaDecode ⟨p1, i1⟩ ys) := by
  induction xs with
  | nil => intros; simp [interleave, wavDecodeLoop, Spec.imaDecode, Spec.frames2]
  | cons x xs ih =>
    intro ys k i0 i1 p0 p1 h hk a0 a1 b0 b1
    cases ys with
    | nil => simp [interleave, wavDecodeLoop, Spec.imaDecode, Spec.frames2]
    | cons y ys =>
      have hx := ima_code p0 i0 x a0 a1
      have hy := ima_code p1 i1 y b0 b1
      have rx := imaStep_index_range ⟨p0, i0⟩ x
      have ry := imaStep_index_range ⟨p1, i1⟩ y
      have hk1 : (k + 1) % 2 = 1 := by omega
      have hk2 : (k + 1 + 1) % 2 = 0 := by omega
      simp only [interleave, wavDecodeLoop, Spec.imaDecode, Spec.frames2, hk, hk1, if_true,
        show (2 : Nat) > 1 from by decide, show (2 : Nat) - 1 = 1 from rfl, List.getD_cons_succ, List.getD_cons_zero,
        show ((1 : Nat) = 0) = False from by simp, if_false, hx.1, hx.2, hy.1, hy.2]
      rw [ih ys (k + 1 + 1) _ _ _ _ _ hk2 rx.1 rx.2 ry.1 ry.2]


/-! ### IMA/WAV unpack loops: the buffer contents are the per-channel code streams, interleaved -/

theorem flatMap_lohi_eq (bytes : List Byte) :
    (bytes.flatMap fun b => [nibLo b, nibHi b]) = (Spec.codesLowFirst bytes).map (· % 16) := by
  induction bytes with
  | nil => rfl
  | cons b bs ih =>
    simp only [Spec.codesLowFirst, List.flatMap_cons, List.map_append, List.map_cons, List.map_nil] at ih ⊢
    rw [ih]; simp [nibLo, nibHi]

theorem flatMap_lohi_length (bytes : List Byte) :
    (bytes.flatMap fun b => [nibLo b, nibHi b]).length = 2 * bytes.length := by
  induction bytes with
  | nil => rfl
  | cons b bs ih => simp only [List.flatMap_cons, List.length_append, List.length_cons, List.length_nil] at ih ⊢; omega

theorem wavUnpack1_eq (data : List Byte) :
    wavUnpack1 data = (Spec.codesLowFirst data).map (· % 16) := by
  fun_induction wavUnpack1 data with
  | case1 b0 b1 b2 b3 rest ih =>
    rw [ih]
    simp [Spec.codesLowFirst, nibLo, nibHi]
  | case2 data hne => exact flatMap_lohi_eq data

theorem wavUnpack1_length_le (data : List Byte) : (wavUnpack1 data).length ≤ 2 * data.length := by
  fun_induction wavUnpack1 data with
  | case1 b0 b1 b2 b3 rest ih => simp only [List.length_append, List.length_cons, List.length_nil]; omega
  | case2 data hne => rw [flatMap_lohi_length]; omega

theorem wavUnpack2_eq (data : List Byte) :
    wavUnpack2 data = interleave ((Spec.codesLowFirst (Spec.splitWords data).1).map (· % 16))
                                 ((Spec.codesLowFirst (Spec.splitWords data).2).map (· % 16)) := by
  fun_induction wavUnpack2 data with
  | case1 a0 a1 a2 a3 b0 b1 b2 b3 rest ih =>
    rw [ih]
    simp [Spec.splitWords, Spec.codesLowFirst, nibLo, nibHi, interleave]
  | case2 data hne =>
    have : Spec.splitWords data = ([], []) := by
      unfold Spec.splitWords
      split
      · rename_i l0 l1 l2 l3 r0 r1 r2 r3 rest
        exact absurd rfl (hne l0 l1 l2 l3 r0 r1 r2 r3 rest)
      · rfl
    simp [this, Spec.codesLowFirst, interleave]

theorem wavUnpack2_length_le (data : List Byte) : (wavUnpack2 data).length ≤ 2 * data.length := by
  fun_induction wavUnpack2 data with
  | case1 a0 a1 a2 a3 b0 b1 b2 b3 rest ih => simp only [List.length_append, List.length_cons, List.length_nil]; omega
  | case2 data hne => simp


/-! ### IMA/WAV block header -/

theorem wavHeader_pred (b0 b1 : Nat) (h0 : b0 < 256) (h1 : b1 < 256) :
    wrapS 16 (if ((b0 : Int) + (b1 : Int) * 256) / 32768 % 2 = 1 then (b0 : Int) + (b1 : Int) * 256 - 65536
              else (b0 : Int) + (b1 : Int) * 256) = sext 16 (ofLE [b0, b1]) := by
  have e : ofLE [b0, b1] = b0 + 256 * b1 := by simp only [ofLE, Nat.mul_zero, Nat.add_zero]
  have h2 : (2 : Nat) ^ (16 - 1) = 32768 := by decide
  have h3 : (2 : Int) ^ 16 = 65536 := by decide
  rw [e]
  simp only [sext, h2, h3]
  split <;> split <;> first | (rw [wrapS16_id _ (by omega) (by omega)]; omega) | omega

theorem wavHeader_index (b2 : Nat) (h : b2 < 256) :
    clampImaStepIndex (wrapS 16 (b2 : Int)) = Spec.limitIndex b2 := by
  rw [wrapS16_id _ (by omega) (by omega), clampIdx_eq_limit]


/-! ### IMA/AIFF ('ima4' packets) -/

theorem interleave_eq_frames2 (xs : List Int) : ∀ ys, interleave xs ys = Spec.frames2 xs ys := by
  induction xs with
  | nil => intro ys; simp [interleave, Spec.frames2]
  | cons x xs ih => intro ys; cases ys <;> simp [interleave, Spec.frames2, ih]

theorem aiffDecodeLoop_eq (cs : List Nat) :
    ∀ (p i : Int), 0 ≤ i → i ≤ 88 →
      aiffDecodeLoop (cs.map (· % 16)) p i = Spec.imaDecode ⟨p, i⟩ cs := by
  induction cs with
  | nil => intros; rfl
  | cons c cs ih =>
    intro p i h0 h1
    have hc := ima_code p i c h0 h1
    have hr := imaStep_index_range ⟨p, i⟩ c
    have hv : clamp16 (p + imaDiff (imaStepSize i) (c % 16)) = (Spec.imaStep ⟨p, i⟩ c).valpred := by
      rw [← hc.1, clamp16_eq_sat16, wrapS16_id _ (sat16_range _).1 (sat16_range _).2]
    have hw : wrapS 16 (Spec.imaStep ⟨p, i⟩ c).valpred = (Spec.imaStep ⟨p, i⟩ c).valpred := by
      have := hc.1; rw [hv] at this; exact this
    simp only [List.map_cons, aiffDecodeLoop, Spec.imaDecode, hc.2, hv, hw]
    rw [ih _ _ hr.1 hr.2]

theorem aiffUnpack_eq (bytes : List Byte) : aiffUnpack bytes = (Spec.codesLowFirst bytes).map (· % 16) := by
  induction bytes with
  | nil => rfl
  | cons b bs ih =>
    simp only [aiffUnpack, Spec.codesLowFirst, List.flatMap_cons, List.map_append, List.map_cons, List.map_nil] at ih ⊢
    rw [ih]; simp [nibLo, nibHi]

theorem aiffUnpack_length (bytes : List Byte) : (aiffUnpack bytes).length = 2 * bytes.length := by
  induction bytes with
  | nil => rfl
  | cons b bs ih => simp only [aiffUnpack, List.flatMap_cons, List.length_append, List.length_cons, List.length_nil] at ih ⊢; omega

theorem aiffHeader (h0 h1 : Nat) (b0 : h0 < 256) (b1 : h1 < 256) :
    wrapS 16 ((h0 : Int) * 256 + ((h1 / 128 % 2 * 128 : Nat) : Int)) = sext 16 (ofBE [h0, h1] - ofBE [h0, h1] % 128)
    ∧ clampImaStepIndex (wrapS 16 ((h1 % 128 : Nat) : Int)) = Spec.limitIndex ((ofBE [h0, h1] % 128 : Nat) : Int) := by
  have e : ofBE [h0, h1] = h1 + 256 * (h0 + 256 * 0) := rfl
  have e2 : (h1 + 256 * (h0 + 256 * 0)) % 128 = h1 % 128 := by omega
  have e3 : h1 + 256 * (h0 + 256 * 0) - h1 % 128 = h0 * 256 + h1 / 128 % 2 * 128 := by omega
  rw [e, e2, e3]
  constructor
  · rw [← wrapS16_eq_sext _ (by omega)]; congr 1
  · rw [wrapS16_id _ (by omega) (by omega), clampIdx_eq_limit]

theorem aiffChannel_eq (pkt : List Byte) (hlen : 34 ≤ pkt.length) (hb : ∀ b ∈ pkt, b < 256) :
    aiffChannel 34 64 pkt = Spec.ima4Packet (pkt.take 34) := by
  match pkt, hlen, hb with
  | h0 :: h1 :: data, hlen, hb =>
    have b0 : h0 < 256 := hb _ (by simp)
    have b1 : h1 < 256 := hb _ (by simp)
    have hh := aiffHeader h0 h1 b0 b1
    have hr := limitIndex_range ((ofBE [h0, h1] % 128 : Nat) : Int)
    have ht : (aiffUnpack (data.take 32)).take 64 = aiffUnpack (data.take 32) :=
      List.take_of_length_le (by rw [aiffUnpack_length, List.length_take]; omega)
    simp only [aiffChannel, Spec.ima4Packet, List.getD_cons_zero, List.getD_cons_succ, List.drop_succ_cons,
      List.drop_zero, List.take_succ_cons, hh.1, hh.2, ht, show 34 - 2 = 32 from rfl]
    rw [aiffUnpack_eq, aiffDecodeLoop_eq _ _ _ hr.1 hr.2, List.take_take]
    simp
  | [], hlen, _ | [_], hlen, _ => simp at hlen


/-! ### Microsoft ADPCM -/

theorem msAdaptation_eq (c : Nat) : msAdaptation c = Spec.msAdaptionTable.getD c 0 := by
  simp only [msAdaptation, msAdaptationTab_eq]

theorem msCoeff_lt7 : ∀ p, p < 7 → msAdaptCoeff1 p = (Spec.msCoefTable.getD p (0, 0)).1
    ∧ msAdaptCoeff2 p = (Spec.msCoefTable.getD p (0, 0)).2 := by decide

theorem msCoeff_eq (v : Nat) :
    msAdaptCoeff1 (msGetBpred v) = (Spec.msCoefTable.getD (if v < 7 then v else 0) (0, 0)).1
    ∧ msAdaptCoeff2 (msGetBpred v) = (Spec.msCoefTable.getD (if v < 7 then v else 0) (0, 0)).2 := by
  simp only [msGetBpred]
  by_cases h : v < 7
  · have : ¬ v ≥ 7 := by omega
    simp only [this, h, if_true, if_false]; exact msCoeff_lt7 v h
  · have : v ≥ 7 := by omega
    simp only [this, h, if_true, if_false]; exact msCoeff_lt7 0 (by decide)

theorem msShort_eq (lo hi : Nat) (h0 : lo < 256) (h1 : hi < 256) : msShort lo hi = sext 16 (ofLE [lo, hi]) := by
  have e : ofLE [lo, hi] = lo + 256 * hi := by simp only [ofLE, Nat.mul_zero, Nat.add_zero]
  have c : (lo : Int) + (hi : Int) * 256 = ((lo + 256 * hi : Nat) : Int) := by omega
  rw [msShort, e, c]
  exact wrapS16_eq_sext _ (by omega)

/-- the per-code body of the MS decode pass, against the reference step -/
theorem ms_code (c1 c2 d s1 s2 : Int) (c : Nat) :
    wrapS 16 (clamp16 ((if c % 16 / 8 % 2 = 1 then ((c % 16 : Nat) : Int) - 16 else ((c % 16 : Nat) : Int)) * d
        + asr (s1 * c1 + s2 * c2) 8)) = (Spec.msStep ⟨c1, c2, d, s1, s2⟩ (c % 16)).samp1
    ∧ (if wrapS 16 (asr (msAdaptation (c % 16) * d) 8) < 16 then 16 else wrapS 16 (asr (msAdaptation (c % 16) * d) 8))
        = (Spec.msStep ⟨c1, c2, d, s1, s2⟩ (c % 16)).delta := by
  have hc : c % 16 < 16 := by omega
  generalize c % 16 = n at hc
  have herr : (if n / 8 % 2 = 1 then (n : Int) - 16 else (n : Int)) = (if n ≥ 8 then (n : Int) - 16 else (n : Int)) := by
    split <;> split <;> omega
  have e8 : ∀ x : Int, asr x 8 = x / 256 := by intro x; simp [asr]
  simp only [Spec.msStep, herr, e8, msAdaptation_eq]
  constructor
  · rw [clamp16_eq_sat16, wrapS16_id _ (sat16_range _).1 (sat16_range _).2, Int.add_comm]
  · generalize wrapS 16 _ = w
    omega

theorem msDecodeLoop_mono (codes : List Nat) :
    ∀ (k bp bpx : Nat) (d dx s1 s2 : Int) (h : List Int),
      msDecodeLoop 1 (bp, bpx) k codes (d, dx) (s1 :: s2 :: h)
        = Spec.msDecode ⟨msAdaptCoeff1 bp, msAdaptCoeff2 bp, d, s1, s2⟩ (codes.map (· % 16)) := by
  induction codes with
  | nil => intros; rfl
  | cons c cs ih =>
    intro k bp bpx d dx s1 s2 h
    have hc := ms_code (msAdaptCoeff1 bp) (msAdaptCoeff2 bp) d s1 s2 c
    simp only [msDecodeLoop, List.map_cons, Spec.msDecode, Nat.lt_irrefl, if_false, if_true, List.getD_cons_zero,
      List.getD_cons_succ, Nat.sub_self, show 2 * 1 - 1 = 1 from rfl, hc.1, hc.2]
    rw [ih]
    rfl

theorem msDecodeLoop_stereo (xs : List Nat) :
    ∀ (ys : List Nat) (k bp0 bp1 : Nat) (d0 d1 a0 a1 b0 b1 : Int) (h : List Int), k % 2 = 0 →
      msDecodeLoop 2 (bp0, bp1) k (interleave xs ys) (d0, d1) (b1 :: b0 :: a1 :: a0 :: h)
        = Spec.frames2 (Spec.msDecode ⟨msAdaptCoeff1 bp0, msAdaptCoeff2 bp0, d0, b0, a0⟩ (xs.map (· % 16)))
                       (Spec.msDecode ⟨msAdaptCoeff1 bp1, msAdaptCoeff2 bp1, d1, b1, a1⟩ (ys.map (· % 16))) := by
  induction xs with
  | nil => intros; simp [interleave, msDecodeLoop, Spec.msDecode, Spec.frames2]
  | cons x xs ih =>
    intro ys k bp0 bp1 d0 d1 a0 a1 b0 b1 h hk
    cases ys with
    | nil => simp [interleave, msDecodeLoop, Spec.msDecode, Spec.frames2]
    | cons y ys =>
      have hx := ms_code (msAdaptCoeff1 bp0) (msAdaptCoeff2 bp0) d0 b0 a0 x
      have hy := ms_code (msAdaptCoeff1 bp1) (msAdaptCoeff2 bp1) d1 b1 a1 y
      have hk1 : (k + 1) % 2 = 1 := by omega
      have hk2 : (k + 1 + 1) % 2 = 0 := by omega
      simp only [interleave, msDecodeLoop, List.map_cons, Spec.msDecode, Spec.frames2, hk, hk1, if_true,
        show (2 : Nat) > 1 from by decide, show (2 : Nat) - 1 = 1 from rfl, show 2 * 2 - 1 = 3 from rfl,
        List.getD_cons_succ, List.getD_cons_zero,
        show ((1 : Nat) = 0) = False from by simp, if_false, hx.1, hx.2, hy.1, hy.2]
      rw [ih ys (k + 1 + 1) _ _ _ _ _ _ _ _ _ hk2]
      rfl

theorem msUnpack_stereo (data : List Byte) : msUnpack data = interleave (data.map nibHi) (data.map nibLo) := by
  induction data with
  | nil => rfl
  | cons b bs ih =>
    simp only [msUnpack, List.flatMap_cons, List.map_cons, interleave, List.cons_append, List.nil_append] at ih ⊢
    rw [ih]

theorem msUnpack_length (data : List Byte) : (msUnpack data).length = 2 * data.length := by
  induction data with
  | nil => rfl
  | cons b bs ih => simp only [msUnpack, List.flatMap_cons, List.length_append, List.length_cons, List.length_nil] at ih ⊢; omega

theorem hi_mod16 (b : Nat) (h : b < 256) : b / 16 % 16 % 16 = b / 16 := by omega
theorem lo_mod16 (b : Nat) : b % 16 % 16 = b % 16 := by omega

theorem msUnpack_mono (data : List Byte) (hb : ∀ b ∈ data, b < 256) :
    (msUnpack data).map (· % 16) = data.flatMap fun b => [b / 16, b % 16] := by
  induction data with
  | nil => rfl
  | cons b bs ih =>
    have hb0 : b < 256 := hb b (by simp)
    have := ih (fun x hx => hb x (by simp [hx]))
    simp only [msUnpack, List.flatMap_cons, List.map_append, List.map_cons, List.map_nil, nibHi, nibLo] at this ⊢
    rw [this]
    have e1 : b / 16 % 16 % 16 = b / 16 := hi_mod16 b hb0
    have e2 : b % 16 % 16 = b % 16 := lo_mod16 b
    rw [e1, e2]

theorem map_nibHi (data : List Byte) (hb : ∀ b ∈ data, b < 256) : (data.map nibHi).map (· % 16) = data.map (· / 16) := by
  induction data with
  | nil => rfl
  | cons b bs ih =>
    have hb0 : b < 256 := hb b (by simp)
    have e1 : b / 16 % 16 % 16 = b / 16 := hi_mod16 b hb0
    simp only [List.map_cons, nibHi, e1] at ih ⊢
    rw [ih (fun x hx => hb x (by simp [hx]))]

theorem map_nibLo (data : List Byte) : (data.map nibLo).map (· % 16) = data.map (· % 16) := by
  induction data with
  | nil => rfl
  | cons b bs ih =>
    have e2 : b % 16 % 16 = b % 16 := lo_mod16 b
    simp only [List.map_cons, nibLo, e2] at ih ⊢
    rw [ih]


/-! ### ranges -/

def In16 (x : Int) : Prop := -32768 ≤ x ∧ x ≤ 32767

theorem wrapS16_range (x : Int) : In16 (wrapS 16 x) := by
  simp only [In16, wrapS]
  have : (2 : Int) ^ 16 = 65536 := by decide
  rw [this]
  split <;> omega

theorem sext16_range (u : Nat) (h : u < 65536) : In16 (sext 16 u) := by
  rw [← wrapS16_eq_sext u h]; exact wrapS16_range _

theorem imaDecode_range (cs : List Nat) : ∀ s, ∀ x ∈ Spec.imaDecode s cs, In16 x := by
  induction cs with
  | nil => intro s x hx; simp [Spec.imaDecode] at hx
  | cons c cs ih =>
    intro s x hx
    simp only [Spec.imaDecode, List.mem_cons] at hx
    rcases hx with rfl | hx
    · simp only [Spec.imaStep]; exact sat16_range _
    · exact ih _ x hx

theorem msDecode_range (cs : List Nat) : ∀ s, ∀ x ∈ Spec.msDecode s cs, In16 x := by
  induction cs with
  | nil => intro s x hx; simp [Spec.msDecode] at hx
  | cons c cs ih =>
    intro s x hx
    simp only [Spec.msDecode, List.mem_cons] at hx
    rcases hx with rfl | hx
    · simp only [Spec.msStep]; exact sat16_range _
    · exact ih _ x hx

theorem mem_frames2 (xs : List Int) : ∀ ys x, x ∈ Spec.frames2 xs ys → x ∈ xs ∨ x ∈ ys := by
  induction xs with
  | nil => intro ys x hx; simp [Spec.frames2] at hx
  | cons a as ih =>
    intro ys x hx
    cases ys with
    | nil => simp [Spec.frames2] at hx
    | cons b bs =>
      simp only [Spec.frames2, List.mem_cons] at hx ⊢
      rcases hx with h | h | h
      · exact Or.inl (Or.inl h)
      · exact Or.inr (Or.inl h)
      · rcases ih bs x h with h | h
        · exact Or.inl (Or.inr h)
        · exact Or.inr (Or.inr h)

theorem imaRun_index_range (cs : List Nat) : ∀ s : Spec.ImaState, 0 ≤ s.index → s.index ≤ 88 →
    0 ≤ (Spec.imaRun s cs).index ∧ (Spec.imaRun s cs).index ≤ 88 := by
  induction cs with
  | nil => intro s h0 h1; exact ⟨h0, h1⟩
  | cons c cs ih =>
    intro s _ _
    have := imaStep_index_range s c
    exact ih _ this.1 this.2

end Sf.Adpcm
