/-
  SfProofs.AbsBridgeEnc — the encoding of the caller buffers of the concrete handle model (`List Int`, SfModel/Handle.lean:
  host values for short / int, bit patterns for float / double) as the CELL arrays of the abstract model
  (SfModel/Abs.lean: the bit pattern of a 16- or 32-bit host value as the harness prints it; a double is two cells, high
  half first), and the algebra of that encoding (size, slices, concatenation, zero regions).
-/
import SfProofs.AbsComplete
import SfProofs.AbsWriteLemmas
import SfProofs.HandleContract
namespace Sf.AbsBridge
open Sf

/-- the cells of one caller value: its bit pattern, cut into 32-bit halves (high half first) for a double -/
def cellsOf (ty : Ty) (v : Int) : List Abs.Item :=
  match ty with
  | .f64 => [valBits .f64 v / 2 ^ 32, valBits .f64 v % 2 ^ 32]
  | t => [valBits t v]

theorem cellsOf_length (ty : Ty) (v : Int) : (cellsOf ty v).length = Abs.cells ty := by
  cases ty <;> rfl

/-- the cells of a buffer, as a list -/
def cellList (ty : Ty) (l : List Int) : List Abs.Item := l.flatMap (cellsOf ty)

/-- the cells of a buffer: what the harness prints for it, what `sfmodel abs` parses -/
def encBuf (ty : Ty) (l : List Int) : Array Abs.Item := (cellList ty l).toArray

theorem cellList_nil (ty : Ty) : cellList ty [] = [] := rfl

theorem cellList_cons (ty : Ty) (v : Int) (l : List Int) : cellList ty (v :: l) = cellsOf ty v ++ cellList ty l := rfl

theorem cellList_append (ty : Ty) (a b : List Int) : cellList ty (a ++ b) = cellList ty a ++ cellList ty b :=
  List.flatMap_append

theorem cellList_length (ty : Ty) (l : List Int) : (cellList ty l).length = l.length * Abs.cells ty := by
  induction l with
  | nil => simp [cellList]
  | cons v l ih =>
    rw [cellList_cons, List.length_append, ih, cellsOf_length, List.length_cons, Nat.add_mul, Nat.one_mul, Nat.add_comm]

theorem cellList_take (ty : Ty) : ∀ (k : Nat) (l : List Int),
    (cellList ty l).take (k * Abs.cells ty) = cellList ty (l.take k) := by
  intro k
  induction k with
  | zero => intro l; simp [cellList]
  | succ k ih =>
    intro l
    cases l with
    | nil => simp [cellList]
    | cons v l =>
      rw [cellList_cons, List.take_succ_cons, cellList_cons, ← ih l, Nat.add_mul, Nat.one_mul]
      have hl := cellsOf_length ty v
      rw [List.take_append, hl]
      have e1 : k * Abs.cells ty + Abs.cells ty - Abs.cells ty = k * Abs.cells ty := by omega
      rw [e1, List.take_of_length_le (by omega)]

theorem cellList_drop (ty : Ty) : ∀ (k : Nat) (l : List Int),
    (cellList ty l).drop (k * Abs.cells ty) = cellList ty (l.drop k) := by
  intro k
  induction k with
  | zero => intro l; simp
  | succ k ih =>
    intro l
    cases l with
    | nil => simp [cellList]
    | cons v l =>
      rw [cellList_cons, List.drop_succ_cons, ← ih l, Nat.add_mul, Nat.one_mul]
      have hl := cellsOf_length ty v
      rw [List.drop_append, hl]
      have e1 : k * Abs.cells ty + Abs.cells ty - Abs.cells ty = k * Abs.cells ty := by omega
      rw [e1, List.drop_of_length_le (by omega), List.nil_append]

theorem encBuf_size (ty : Ty) (l : List Int) : (encBuf ty l).size = l.length * Abs.cells ty := by
  unfold encBuf; rw [List.size_toArray, cellList_length]

/-- a slice of whole items of the cell array is the cell array of the slice -/
theorem encBuf_extract (ty : Ty) (l : List Int) (i n : Nat) :
    (encBuf ty l).extract (i * Abs.cells ty) (i * Abs.cells ty + n * Abs.cells ty) = encBuf ty ((l.drop i).take n) := by
  unfold encBuf
  rw [List.extract_toArray]
  congr 1
  show ((cellList ty l).drop (i * Abs.cells ty)).take (i * Abs.cells ty + n * Abs.cells ty - i * Abs.cells ty) = _
  rw [Nat.add_sub_cancel_left, cellList_drop, cellList_take]

theorem encBuf_extract_zero (ty : Ty) (l : List Int) (n : Nat) :
    (encBuf ty l).extract 0 (n * Abs.cells ty) = encBuf ty (l.take n) := by
  have := encBuf_extract ty l 0 n
  simpa using this

theorem encBuf_append (ty : Ty) (a b : List Int) : encBuf ty (a ++ b) = encBuf ty a ++ encBuf ty b := by
  unfold encBuf; rw [cellList_append]; simp

theorem cellsOf_zero (ty : Ty) (c : Abs.Item) (hc : c ∈ cellsOf ty 0) : c = 0 := by
  cases ty <;> simp [cellsOf, valBits, wrapU, Ty.bits] at hc <;> omega

theorem cellList_replicate_zero (ty : Ty) (n : Nat) (c : Abs.Item) (hc : c ∈ cellList ty (List.replicate n 0)) : c = 0 := by
  unfold cellList at hc
  rw [List.mem_flatMap] at hc
  obtain ⟨v, hv, hc⟩ := hc
  rw [List.eq_of_mem_replicate hv] at hc
  exact cellsOf_zero ty c hc

/-- a zero-filled buffer is an all-zero cell array -/
theorem allOf_encBuf_zero (ty : Ty) (n : Nat) :
    Abs.allOf (encBuf ty (List.replicate n 0)) 0 0 0 (n * Abs.cells ty) = true := by
  apply (Abs.allOf_pointwise _ 0 0 _ 0).2
  intro k hk
  have hs : 0 + k < (encBuf ty (List.replicate n 0)).size := by
    rw [encBuf_size, List.length_replicate]; omega
  refine ⟨hs, Or.inl ?_⟩
  have key : ∀ (l : List Abs.Item) (j : Nat) (hj : j < l.toArray.size), (∀ c ∈ l, c = 0) → l.toArray[j] = 0 := by
    intro l j hj hall
    apply hall
    rw [List.getElem_toArray]
    exact List.getElem_mem _
  exact key _ _ hs (cellList_replicate_zero ty n)

end Sf.AbsBridge
