-- properties: C04 C11
/-
  C04 / C11 — the NIST / SPHERE container (stand-alone L1 model SfModel/Nist.lean; helpers SfProofs/NistSearch.lean,
  NistImage.lean, NistParse.lean, Small2Session.lean).  Property theorems only.

  A *session* is `Sf.Nist.openW` (sf_open SFM_WRITE — nist_open zeroes `sf.frames` before it writes the first header,
  so the caller's frames value reaches no byte of the store), any list of `WOp`s (write calls, SFC_UPDATE_HEADER_NOW,
  auto mode), then `close`.  The header is 1024 bytes of "key -type value" text lines, NUL filled; its only length
  field is the `sample_count -i <frames>` line.
-/
import SfModel.Nist
import SfProofs.NistParse
namespace Sf.C04Nist
open Sf Sf.Small2 Sf.Nist
open Sf.Pvf (digits scanInt)

/-- the rate is stored as decimal text (`sample_rate -i %d`): every rate in [1, 2^31 − 1] is reported back exactly -/
theorem nist_rate_exact (sr : Nat) : quant sr = sr := rfl

example : quant 2147483647 = 2147483647 ∧ quant 1 = 1 := by decide

/-- printf "%d" followed by sscanf "%d" is the identity, whatever non-digit follows the number in the header -/
theorem nist_decimal_roundtrip (n : Nat) (rest : List Byte) : scanInt (digits n ++ 0x0A :: rest) = some ((n : Int), 0x0A :: rest) :=
  scanInt_digits_then n 0x0A rest (by decide)

example : scanInt (digits 44100 ++ 0x0A :: [0x65]) = some (44100, [0x0A, 0x65]) := by decide +kernel

/-- the store of a closed file: the header recomputed from the store length, then the audio -/
theorem closedBytes_eq (c : Cfg) (stale : Nat) (ops : List WOp) :
    Nist.closedBytes c stale ops =
      hdr c { frames := (((1024 + (opsData ops).length : Nat) : Int) - 1024) / ((c.bw : Nat) : Int),
              filelength := ((1024 + (opsData ops).length : Nat) : Int),
              datalength := ((1024 + (opsData ops).length : Nat) : Int) - 1024 } ++ opsData ops := by
  show Small2.closedBytes (fmt c) 0 ops = _
  rw [Small2.closedBytes_eq (fmt c) (lawful c) rfl 0 ops]; rfl

theorem frames_field (c : Cfg) (D : Nat) : (((1024 + D : Nat) : Int) - 1024) / ((c.bw : Nat) : Int) = ((D / c.bw : Nat) : Int) := by
  have e : (((1024 + D : Nat) : Int) - 1024) = ((D : Nat) : Int) := by omega
  rw [e, ← Int.natCast_ediv]

/-- **nist_reopen_info.**  For every accepted configuration (six encodings, any byte order request, 1…1024 channels,
    any rate in [1, 2^31 − 1]) and every session, under the guard of the 64-bit `sample_count` line, the closed file
    re-opens with the requested channels, NIST / the requested encoding — with the byte order for the multi-byte PCM
    encodings, which is where the file records it —, exactly the requested rate and exactly the frames written. -/
theorem nist_reopen_info (c : Cfg) (hwf : c.wf) (stale : Nat) (ops : List WOp) (hguard : (opsData ops).length / c.bw < 2 ^ 63) :
    parse (Nist.closedBytes c stale ops) =
      .ok { ch := c.ch, fmt := c.fmtWord, sr := quant c.sr, frames := (opsData ops).length / c.bw } := by
  rw [closedBytes_eq]
  exact parse_image c hwf _ hguard _ (frames_field c _) _

def exCfg : Cfg := ⟨2, 2, 2, 44100⟩
def exLaw : Cfg := ⟨0x10, 0, 1, 8000⟩
def exS8 : Cfg := ⟨1, 3, 3, 2147483647⟩
def exOps : List WOp := [.write [0, 1, 0, 2] false, .update, .write [0, 3, 0, 4, 0, 5, 0, 6] true]

example : exCfg.wf ∧ (Nist.closedBytes exCfg 77 exOps).length = 1036 ∧
    parse (Nist.closedBytes exCfg 77 exOps) = .ok ⟨2, 0x20070002, 44100, 3⟩ := by decide +kernel
example : exLaw.wf ∧ parse (Nist.closedBytes exLaw 0 exOps) = .ok ⟨1, 0x00070010, 8000, 12⟩ := by decide +kernel
example : exS8.wf ∧ parse (Nist.closedBytes exS8 5 exOps) = .ok ⟨3, 0x00070001, 2147483647, 4⟩ := by decide +kernel

/-- the `sample_count` line of a header text -/
def kCount : List Byte := Small2.asc "sample_count -i "
def sampleCount (bs : List Byte) : Option Int := ((after kCount (headerText bs)).bind scanInt).map (·.1)

theorem fact_count : ∀ codec ∈ codecs, ∀ big ∈ [true, false],
    litAfter kCount (segs codec big) = some (some ([], (segs codec big).drop 5)) := by decide +kernel

/-- **nist_size_fields.**  The file is the 1024-byte header plus the audio, nothing is padded and nothing follows
    the audio; the header is the text (ending in `sample_count -i <audio bytes / block width>` and `end_head`) and a
    zero fill; an independent reading of the `sample_count` line gives audio bytes / block width. -/
theorem nist_size_fields (c : Cfg) (hwf : c.wf) (stale : Nat) (ops : List WOp) (bytes : List Byte) (D : Nat)
    (hbytes : bytes = Nist.closedBytes c stale ops) (hD : D = (opsData ops).length) (hguard : D / c.bw < 2 ^ 63) :
    bytes.length = 1024 + D ∧ bytes.drop 1024 = opsData ops ∧
    (∃ k, bytes.take 1024 = text c ((D / c.bw : Nat) : Int) ++ List.replicate (k + 1) 0) ∧
    sampleCount bytes = some ((D / c.bw : Nat) : Int) := by
  rw [closedBytes_eq, frames_field, ← hD] at hbytes
  have hl := hdr_length c { frames := ((D / c.bw : Nat) : Int), filelength := ((1024 + D : Nat) : Int), datalength := ((1024 + D : Nat) : Int) - 1024 }
  obtain ⟨k, hh, hk⟩ := hdr_eq c hwf (D / c.bw) hguard
    { frames := ((D / c.bw : Nat) : Int), filelength := ((1024 + D : Nat) : Int), datalength := ((1024 + D : Nat) : Int) - 1024 } rfl
  have htake : bytes.take 1024 = hdr c { frames := ((D / c.bw : Nat) : Int), filelength := ((1024 + D : Nat) : Int), datalength := ((1024 + D : Nat) : Int) - 1024 } := by
    rw [hbytes, List.take_append_of_le_length (by rw [hl]; exact Nat.le_refl _), List.take_of_length_le (by rw [hl]; exact Nat.le_refl _)]
  refine ⟨by rw [hbytes, List.length_append, hl, hD], by rw [hbytes]; exact drop_append_len _ _ 1024 hl, ⟨k, ?_⟩, ?_⟩
  · rw [htake, hh, text_eq c _ hguard]
  · have he := goodEnv c (D / c.bw)
    have hT : headerText bytes = flatten (env c (D / c.bw)) (segs c.codec c.big) := by
      unfold headerText
      rw [htake, hh, takeWhile_fill _ (text_nonzero c hwf _) k]
      have hs : strstr kEnd (flatten (env c (D / c.bw)) (segs c.codec c.big)) = some (Small2.asc "end_head\n") := by
        rw [ssearch_sound kEnd kEnd_ne _ he _ _ (fact_end c.codec (mem_codecs c hwf) c.big (mem_bools _))]
        simp [flatten]
      simp only [hs]
      apply List.take_of_length_le
      have : (Small2.asc "end_head\n").length = 9 := by decide
      omega
    unfold sampleCount
    rw [hT, after_of_litAfter kCount (by decide) _ he _ _ _ (fact_count c.codec (mem_codecs c hwf) c.big (mem_bools _))]
    have : ([] : List Byte) ++ flatten (env c (D / c.bw)) ((segs c.codec c.big).drop 5) = digits (D / c.bw) ++ 0x0A :: (headD.drop 1) := by
      have hd : headD = 0x0A :: headD.drop 1 := by decide +kernel
      simp only [segs, List.drop_succ_cons, List.drop_zero, flatten, env, List.nil_append, List.append_nil]
      conv => lhs; rw [hd]
      simp
    rw [this]
    simp only [Option.bind_some, nist_decimal_roundtrip, Option.map_some]

example : sampleCount (Nist.closedBytes exCfg 77 exOps) = some 3 ∧ (Nist.closedBytes exCfg 77 exOps).drop 1024 = opsData exOps := by decide +kernel

/-- **nist_frames_bound.**  All six encodings are sample-granular and nothing is padded: `N` frames re-open as `N`
    (C04's `N ≤ F < N + B + pad` with `B = 1`, `pad = 0`). -/
theorem nist_frames_bound (bw N : Nat) (hbw : 0 < bw) : (N * bw) / bw = N ∧ N ≤ (N * bw) / bw ∧ (N * bw) / bw < N + 1 := by
  have : (N * bw) / bw = N := Nat.mul_div_cancel _ hbw
  omega

example : (3 * 4) / 4 = 3 := by decide

/-- **stale_frames_ignored_nist.**  No store image of a session — not even the header sf_open itself writes —
    depends on the caller's frames value. -/
theorem stale_frames_ignored_nist (c : Cfg) (a b : Nat) (ops : List WOp) :
    Nist.closedBytes c a ops = Nist.closedBytes c b ops ∧ Nist.snapshotBytes c a ops = Nist.snapshotBytes c b ops ∧
    (Nist.openW c a).bytes = (Nist.openW c b).bytes := ⟨rfl, rfl, rfl⟩

example : Nist.closedBytes exCfg 0 exOps = Nist.closedBytes exCfg 123456 exOps ∧ (Nist.openW exCfg 99).bytes.length = 1024 := by decide +kernel

/-- **nist_snapshot_valid.**  After any session prefix, the image a header update leaves in the store parses with
    the same parameters and exactly the frames written so far, and is the 1024-byte header followed by the audio
    written so far. -/
theorem nist_snapshot_valid (c : Cfg) (hwf : c.wf) (stale : Nat) (ops : List WOp) (hguard : (opsData ops).length / c.bw < 2 ^ 63) :
    parse (Nist.snapshotBytes c stale ops) =
      .ok { ch := c.ch, fmt := c.fmtWord, sr := quant c.sr, frames := (opsData ops).length / c.bw } ∧
    ∃ hdr, hdr.length = 1024 ∧ Nist.snapshotBytes c stale ops = hdr ++ opsData ops := by
  have e : Nist.snapshotBytes c stale ops = Nist.closedBytes c stale ops :=
    (closed_is_snapshot (fmt c) rfl 0 ops).symm
  rw [e]
  refine ⟨nist_reopen_info c hwf stale ops hguard, _, hdr_length c _, closedBytes_eq c stale ops⟩

example : parse (Nist.snapshotBytes exCfg 5 [.write [1, 2, 3, 4] false]) = .ok ⟨2, 0x20070002, 44100, 1⟩ := by decide +kernel

/-- header updates never change the audio of the finished file: with or without them the closed bytes are equal -/
theorem nist_updates_dont_change_file (c : Cfg) (stale : Nat) (ops : List WOp) :
    Nist.closedBytes c stale ops = Nist.closedBytes c stale [.write (opsData ops) false] := by
  rw [closedBytes_eq, closedBytes_eq]; simp [opsData]

example : Nist.closedBytes exCfg 0 exOps = Nist.closedBytes exCfg 0 [.write (opsData exOps) false] := by decide +kernel

end Sf.C04Nist
