/-
  C07 (GSM 06.10) — write-partition independence of the closed data region with the REAL encoder
  (SfModel/GsmEnc.lean `encodeBlock`, the block writer instance `Sf.Gsm.writer` of SfModel/GsmFile.lean):
  for both geometries, every sequence of sf_write_* / sf_writef_* calls of any of the four caller types and any sizes
  (the staging pieces of 4096 shorts of the int / float / double entry points included), the encoder state, the
  emitted blocks and the bytes after close are a function of the concatenated sequence of converted samples only.
  Also: every emitted block has the geometry's block size; the encoder's lag and gain indices are in range.
  Property theorems only.
-/
import SfModel.GsmFile
import SfProofs.BlockWriter
import SfProps.C07Block
namespace Sf.C07Gsm
open Sf Sf.Gsm Sf.Block Sf.Block.Proofs

theorem gsm_writer_wwf (c : Cfg) : WWF (writer c) :=
  ⟨by show 0 < c.spb; unfold Cfg.spb; split <;> decide, Nat.one_pos⟩

theorem gsm_write_init_inv (c : Cfg) : WInv (writer c) (writeInit c) := init_inv_w _ (gsm_writer_wwf c) _

theorem singletons_flatten (xs : List Int) : (xs.map fun x => [x]).flatten = xs := by
  induction xs with
  | nil => rfl
  | cons x xs ih => simp [ih]

theorem singletons_uniform (xs : List Int) : Uniform 1 (xs.map fun x => [x]) := by
  intro f hf
  obtain ⟨x, _, rfl⟩ := List.mem_map.mp hf
  rfl

theorem gsm_chunk_whole_frames (ty : Ty) : ∃ q, chunkOf ty = q * 1 := by
  unfold chunkOf
  split
  · exact ⟨0, rfl⟩
  · exact ⟨4096, rfl⟩

/-- **∀ splits, ∀ caller types**: the writer state after any list of calls (each with its own staging piece size:
    one piece for short callers, 4096 shorts for the others) is the per-sample fold over the concatenated codec
    samples — it depends on the concatenation only -/
theorem gsm_write_partition (c : Cfg) (calls : List (Ty × List Int)) (st : WState State) (inv : WInv (writer c) st) :
    calls.foldl (fun st k => wcall (writer c) (chunkOf k.1) st k.2) st =
      (calls.flatMap fun k => k.2.map fun x => [x]).foldl (pushFrame (writer c)) st := by
  have wf := gsm_writer_wwf c
  have hch : (writer c).ch = 1 := rfl
  let calls2 : List (Nat × List (List Int)) := calls.map fun k => ((gsm_chunk_whole_frames k.1).choose, k.2.map fun x => [x])
  have h := C07Block.block_writer_calls_fold (writer c) wf calls2 st inv (by
    intro d hd
    obtain ⟨k, _, rfl⟩ := List.mem_map.mp hd
    rw [hch]; exact singletons_uniform k.2)
  have e1 : calls2.foldl (fun st d => wcall (writer c) (d.1 * (writer c).ch) st d.2.flatten) st =
      calls.foldl (fun st k => wcall (writer c) (chunkOf k.1) st k.2) st := by
    simp only [calls2, List.foldl_map]
    congr 1
    funext s k
    rw [hch, ← (gsm_chunk_whole_frames k.1).choose_spec, singletons_flatten]
  have e2 : calls2.flatMap (·.2) = calls.flatMap fun k => k.2.map fun x => [x] := by
    simp only [calls2, List.flatMap_map]
  rw [← e1, h.1, e2]

/-- the codec samples a list of typed calls amounts to -/
def samplesOf (cv : Conv) (calls : List (Ty × List Int)) : List Int := calls.flatMap fun k => k.2.map (ofCaller cv k.1)

theorem flatMap_singletons (cv : Conv) (calls : List (Ty × List Int)) :
    (calls.map fun k => (k.1, k.2.map (ofCaller cv k.1))).flatMap (fun k => k.2.map fun x => [x]) =
      (samplesOf cv calls).map fun x => [x] := by
  induction calls with
  | nil => rfl
  | cons k ks ih =>
    simp only [List.map_cons, List.flatMap_cons, samplesOf, List.map_append] at ih ⊢
    rw [ih]

/-- **C07 for GSM files, full strength**: two call histories — any partitions, any mix of short / int / float / double
    calls, item or frame variants (one channel: the same thing) — whose converted samples concatenate to the same
    sequence leave the same bytes in the data region after close, in both geometries -/
theorem gsm_file_bytes_partition (c : Cfg) (cv : Conv) (calls1 calls2 : List (Ty × List Int))
    (h : samplesOf cv calls1 = samplesOf cv calls2) :
    closeBytes c (calls1.foldl (fun st k => writeCall c cv k.1 st k.2) (writeInit c)) =
    closeBytes c (calls2.foldl (fun st k => writeCall c cv k.1 st k.2) (writeInit c)) := by
  have key : ∀ calls : List (Ty × List Int),
      calls.foldl (fun st k => writeCall c cv k.1 st k.2) (writeInit c) =
        ((samplesOf cv calls).map fun x => [x]).foldl (pushFrame (writer c)) (writeInit c) := by
    intro calls
    have := gsm_write_partition c (calls.map fun k => (k.1, k.2.map (ofCaller cv k.1))) (writeInit c) (gsm_write_init_inv c)
    rw [List.foldl_map, flatMap_singletons] at this
    exact this
  rw [key calls1, key calls2, h]

/-- in particular: the same samples in one call or split anywhere -/
theorem gsm_one_call_or_split (c : Cfg) (cv : Conv) (ty : Ty) (xs ys : List Int) :
    closeBytes c (writeCall c cv ty (writeCall c cv ty (writeInit c) xs) ys) =
    closeBytes c (writeCall c cv ty (writeInit c) (xs ++ ys)) := by
  have := gsm_file_bytes_partition c cv [(ty, xs), (ty, ys)] [(ty, xs ++ ys)] (by simp [samplesOf])
  simpa using this

/-- non-vacuity of the hypothesis of `gsm_file_bytes_partition`: a short call and an int call against one int call -/
example : samplesOf {} [(.s16, [5, -7]), (.s32, [65536 * 9])] = samplesOf {} [(.s32, [65536 * 5, 65536 * (-7), 65536 * 9])] := by
  decide

/-! ## blocks -/

theorem bytesMsb_length : ∀ (n : Nat) (bs : List Bool), (bytesMsb n bs).length = n := by
  intro n; induction n with
  | zero => intro bs; rfl
  | succ n ih => intro bs; simp [bytesMsb, ih]

theorem bytesLsb_length : ∀ (n : Nat) (bs : List Bool), (bytesLsb n bs).length = n := by
  intro n; induction n with
  | zero => intro bs; rfl
  | succ n ih => intro bs; simp [bytesLsb, ih]

/-- `gsm_encode` stores exactly 33 bytes, whatever the samples and the state -/
theorem gsm_encode_33_bytes (st : State) (s : List Int) : (gsmEncode st s).2.length = 33 := by
  unfold gsmEncode
  simp only
  split
  · split
    · exact bytesLsb_length _ _
    · exact bytesLsb_length _ _
  · exact bytesMsb_length _ _

/-- every block written to the file has the geometry's block size: 33, or 65 = 32 + 33 (the second WAV49 frame starts
    in the byte that holds the first frame's last nibble) -/
theorem gsm_block_size (c : Cfg) (st : State) (s : List Int) : (encodeBlock c.wav st s).2.length = c.blocksize := by
  unfold encodeBlock Cfg.blocksize
  split
  · simp only [List.length_append, List.length_take, gsm_encode_33_bytes]; rfl
  · exact gsm_encode_33_bytes _ _

/-! ## encoder indices -/

/-- the LTP lag search returns a lag in 40 .. 120 (an index into the 120-cell history) -/
theorem gsm_lag_in_range (wt hist : List Int) : ∀ (fuel lag : Nat) (lmax nc : Int), 40 ≤ nc → nc ≤ 120 → lag + fuel = 121 → 40 ≤ lag →
    40 ≤ (lagSearch wt hist fuel lag lmax nc).2 ∧ (lagSearch wt hist fuel lag lmax nc).2 ≤ 120 := by
  intro fuel
  induction fuel with
  | zero => intro lag lmax nc h1 h2 _ _; exact ⟨h1, h2⟩
  | succ fuel ih =>
    intro lag lmax nc h1 h2 h3 h4
    unfold lagSearch
    simp only
    split
    · exact ih (lag + 1) _ _ (by omega) (by omega) (by omega) (by omega)
    · exact ih (lag + 1) _ _ h1 h2 (by omega) (by omega)

/-- `Calculation_of_the_LTP_parameters` always answers a gain index 0..3 (an index into gsm_QLB) and a lag 40..120 -/
theorem gsm_ltp_params_in_range (d hist : List Int) :
    (0 ≤ (ltpParams d hist).1 ∧ (ltpParams d hist).1 ≤ 3) ∧ (40 ≤ (ltpParams d hist).2 ∧ (ltpParams d hist).2 ≤ 120) := by
  refine ⟨?_, ?_⟩
  · unfold ltpParams
    simp only
    unfold ltpGain
    split
    · decide
    · split
      · decide
      · simp only
        split
        · decide
        · split
          · decide
          · split <;> decide
  · exact gsm_lag_in_range _ hist 81 40 0 40 (by decide) (by decide) (by decide) (by decide)

end Sf.C07Gsm
