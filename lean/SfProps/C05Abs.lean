/-
  C05 on the ABSTRACT model (SfModel/Abs.lean) — the predicate `Sf.Abs.holdsOn` the check evaluates on the implementation's
  own transcripts (`sfmodel abs`), and what an accepted transcript MEANS, whatever code produced it (opaque codecs,
  unmodelled containers).  Property theorems only; lemmas in SfProofs/Abs*.lean.
-/
import SfProofs.AbsRun
namespace Sf.C05Abs
open Sf Sf.Abs

/-- THE PREDICATE says `ok` exactly when every line of the transcript is accepted by its checker -/
theorem predicate_ok_iff (g : Geom) (ref : Ty → Array Item) (valid : Ty → Bool) (tr : List (Op × Out)) (n : Nat) :
    holdsOn g ref valid tr = .ok n ↔ (∃ st', accepts g (St.init g ref valid) tr = some st') ∧ n = tr.length := by
  unfold holdsOn
  rw [holdsFrom_ok_iff]; simp

/-- read_contract, for ANY accepted answer to a valid read request (`n > 0`, items calls a multiple of the channel count,
    handle not write-only): `0 ≤ r ≤ requested`; an items call returns whole frames; the buffer is exactly the requested
    region; no error; at the end of the data `r = 0` and the whole region is zero; inside the data the first `r` items are
    the items `rpos·ch …` of the reference stream, the read position advances by exactly `r / ch` frames and stays inside
    the file, and `r < requested` happens only when the data ends there. -/
theorem read_contract_abs (g : Geom) (st : St) (ty : Ty) (fc : Bool) (n : Int) (o : Out) (st' : St)
    (hr : ReadReq g st fc n) (h : readOk g st ty fc n o = .ok st') :
    0 ≤ o.ret ∧ o.ret ≤ n ∧ retItems g fc o.ret % g.ch = 0 ∧ o.data.size = reqItems g fc n * cells ty ∧ o.err = false ∧
    (st.frames ≤ st.rpos → o.ret = 0 ∧ st'.rpos = st.rpos ∧
      ∀ k, k < reqItems g fc n * cells ty → o.data[k]? = some 0) ∧
    (st.rpos < st.frames →
      st'.rpos = st.rpos + retItems g fc o.ret / g.ch ∧ st'.rpos ≤ st.frames ∧
      (st.valid ty = true →
        o.data.extract 0 (retItems g fc o.ret * cells ty) =
          (st.ref ty).extract (st.rpos * g.cpf ty) (st.rpos * g.cpf ty + retItems g fc o.ret * cells ty)) ∧
      (o.ret < n → st'.rpos = st.frames)) ∧
    st'.frames = st.frames ∧ st'.wpos = st.wpos ∧ st'.ref = st.ref ∧ st'.mode = st.mode := by
  obtain ⟨a, b, c, d, e, heof, hmain⟩ := readOk_valid g st ty fc n o st' hr h
  refine ⟨a, b, c, d, e, ?_, ?_, ?_⟩
  · intro hend
    obtain ⟨z, hz, hs⟩ := heof hend
    subst hs
    refine ⟨z, rfl, fun k hk => ?_⟩
    have := allOf_zero_get o.data 0 _ hz k hk
    simpa using this
  · intro hin
    obtain ⟨hs, hle, hdat, hshort⟩ := hmain hin
    subst hs
    refine ⟨rfl, hle, fun hv => ?_, hshort⟩
    have := (sliceEq_extract _ _ _ _ _ (hdat hv)).1
    simpa using this
  · by_cases hend : st.frames ≤ st.rpos
    · obtain ⟨_, _, hs⟩ := heof hend; subst hs; exact ⟨rfl, rfl, rfl, rfl⟩
    · obtain ⟨hs, _⟩ := hmain (by omega); subst hs; exact ⟨rfl, rfl, rfl, rfl⟩

/-- an accepted answer to an INVALID read request is 0 with an error set, and no position changes -/
theorem read_invalid_abs (g : Geom) (st : St) (ty : Ty) (fc : Bool) (n : Int) (o : Out) (st' : St)
    (hn : n ≠ 0) (hr : ¬ ReadReq g st fc n) (h : readOk g st ty fc n o = .ok st') :
    o.ret = 0 ∧ o.err = true ∧ st'.rpos = st.rpos ∧ st'.wpos = st.wpos ∧ st'.frames = st.frames := by
  obtain ⟨a, b, hs⟩ := readOk_invalid g st ty fc n o st' hn hr h
  subst hs; exact ⟨a, b, rfl, rfl, rfl⟩

/-- the abstract machine's invariant `0 ≤ rpos ≤ frames` of a read-only handle, and the constancy of the file, hold after
    EVERY accepted transcript of reads / seeks / raw reads / queries, by induction over the transcript -/
theorem read_only_invariant (g : Geom) (tr : List (Op × Out)) (st st' : St) (hm : st.mode = .r) (hle : st.rpos ≤ st.frames)
    (hops : ∀ l ∈ tr, rdOnly l.1 = true) (h : accepts g st tr = some st') :
    st'.mode = .r ∧ st'.rpos ≤ st'.frames ∧ st'.frames = st.frames ∧ st'.ref = st.ref ∧ st'.valid = st.valid := by
  obtain ⟨⟨a, b⟩, c, d, e⟩ := accepts_RInv g tr st st' ⟨hm, hle⟩ hops h
  exact ⟨a, b, c, d, e⟩

/-! ## non-vacuity: the 3-frame stereo file of C05.lean, as the harness prints it -/

def exG : Geom := { ch := 2, frames0 := 3, mode0 := .r }
def exRef : Ty → Array Item := fun ty => match ty with | .s16 => #[1, 2, 3, 4, 5, 6] | _ => #[]
def exValid : Ty → Bool := fun ty => ty = .s16

/-- 4 items, then 5 frames asked with 1 left (short, tail untouched), then a read at the end (zero-filled), an unaligned
    items call (refused), a position probe -/
def exTr : List (Op × Out) :=
  [(.read .s16 false 4, { ret := 4, data := #[1, 2, 3, 4] }),
   (.read .s16 true 5, { ret := 1, data := #[5, 6, 0xA5A5, 0xA5A5, 0xA5A5, 0xA5A5, 0xA5A5, 0xA5A5, 0xA5A5, 0xA5A5] }),
   (.read .s16 true 1, { ret := 0, data := #[0, 0] }),
   (.read .s16 false 3, { ret := 0, err := true, data := #[0xA5A5, 0xA5A5, 0xA5A5] }),
   (.seek 0 1, { ret := 3 })]

example : holdsOn exG exRef exValid exTr = .ok 5 := by decide
/-- a wrong item, a short read inside the data, a non-zero buffer at the end: each is refused with its clause -/
example : holdsOn exG exRef exValid [(.read .s16 false 4, { ret := 4, data := #[1, 2, 9, 4] })] = .bad 0 "data" := by decide
example : holdsOn exG exRef exValid [(.read .s16 true 2, { ret := 1, data := #[1, 2, 0, 0] })] = .bad 0 "short" := by decide
example : holdsOn exG exRef exValid (exTr.take 2 ++ [(.read .s16 true 1, { ret := 0, data := #[0, 7] })]) = .bad 2 "eof" := by decide
example : ReadReq exG (St.init exG exRef exValid) false 4 := by unfold ReadReq; decide

end Sf.C05Abs
