/-
  C01 (block codecs) — the sample packings of PAF24 and SDS and the XI delta coders lose nothing that the format
  stores; the OKI/VOX step stays in range; VOX write calls report the count they were given, whatever its parity (KF-VOX-ODD,
  repaired; the rule before the repair as `…_old_rule` witnesses).  Property theorems only; helpers in SfProofs/BlockCodecs.lean.
-/
import SfProofs.BlockCodecs
import SfProofs.BlockVoxCarry
namespace Sf.C01Block
open Sf Sf.Block Sf.Block.Proofs Sf.VoxCarry

/-! ## PAF24: 24 bits in 3 bytes -/

/-- a sample whose low 8 bits are zero (what a 24-bit file promises to keep) survives pack + unpack; the bytes are
    the ones `paf24_write_block` stores (`paf24_sampleBytes`) -/
theorem paf24_pack_roundtrip (q : Int) (h1 : -8388608 ≤ q) (h2 : q ≤ 8388607) :
    ∃ b0 b1 b2, Paf24.sampleBytes (q * 256) = [b0, b1, b2] ∧ Paf24.unpackSample b0 b1 b2 = q * 256 := by
  refine ⟨_, _, _, paf24_sampleBytes _, ?_⟩
  rw [paf24_sample (q * 256) (by omega) (by omega)]
  omega

/-- any 32-bit value comes back with its low 8 bits cleared -/
theorem paf24_pack_truncates (x : Int) (h1 : -2147483648 ≤ x) (h2 : x ≤ 2147483647) :
    ∃ b0 b1 b2, Paf24.sampleBytes x = [b0, b1, b2] ∧ Paf24.unpackSample b0 b1 b2 = x / 256 * 256 :=
  ⟨_, _, _, paf24_sampleBytes _, paf24_sample x h1 h2⟩

example : Paf24.sampleBytes (-256) = [255, 255, 255] ∧ Paf24.unpackSample 255 255 255 = -256 := by decide

/-! ## SDS: 2, 3, 4 seven-bit bytes keep the top 14, 21, 28 bits -/

theorem sds_pack_roundtrip_2 (x : Int) (h1 : -2147483648 ≤ x) (h2 : x ≤ 2147483647) :
    Sds.decSample (Sds.encSample 2 x) = x / 262144 * 262144 := sds_sample2 x h1 h2
theorem sds_pack_roundtrip_3 (x : Int) (h1 : -2147483648 ≤ x) (h2 : x ≤ 2147483647) :
    Sds.decSample (Sds.encSample 3 x) = x / 2048 * 2048 := sds_sample3 x h1 h2
theorem sds_pack_roundtrip_4 (x : Int) (h1 : -2147483648 ≤ x) (h2 : x ≤ 2147483647) :
    Sds.decSample (Sds.encSample 4 x) = x / 16 * 16 := sds_sample4 x h1 h2

/-- a 16-bit caller sample in a 16-bit SDS file (3 bytes per sample) is exact -/
theorem sds16_short_exact (v : Int) (h1 : -32768 ≤ v) (h2 : v ≤ 32767) :
    asr (Sds.decSample (Sds.encSample 3 (v * 65536))) 16 = v := by
  rw [sds_sample3 _ (by omega) (by omega)]
  unfold asr
  omega

/-- a 24-bit sample (low 8 bits zero) in a 24-bit SDS file (4 bytes per sample) is exact -/
theorem sds24_exact (q : Int) (h1 : -8388608 ≤ q) (h2 : q ≤ 8388607) :
    Sds.decSample (Sds.encSample 4 (q * 256)) = q * 256 := by
  rw [sds_sample4 _ (by omega) (by omega)]
  omega

example : Sds.encSample 3 0 = [64, 0, 0] ∧ Sds.decSample [64, 0, 0] = 0 ∧ Sds.decSample (Sds.encSample 3 (-65536)) = -65536 := by decide

/-! ## XI DPCM: undelta ∘ delta = id modulo 2^16 (2^8), wrap-around included -/

theorem dpcm16_roundtrip (last : Int) (xs : List Int) (h : ∀ x ∈ xs, -32768 ≤ x ∧ x ≤ 32767) :
    (Dpcm.undelta16 last (Dpcm.delta16 last xs).2).2 = xs := undelta16_delta16 xs last h

theorem dpcm8_roundtrip (last : Int) (xs : List Int) (h : ∀ x ∈ xs, -128 ≤ x ∧ x ≤ 127) :
    (Dpcm.undelta8 last (Dpcm.delta8 last xs).2).2 = xs := undelta8_delta8 xs last h

/-- encoder and decoder end in the same running value, so the round trip composes over successive calls -/
theorem dpcm16_state_agrees (last : Int) (xs : List Int) (h : ∀ x ∈ xs, -32768 ≤ x ∧ x ≤ 32767) :
    (Dpcm.undelta16 last (Dpcm.delta16 last xs).2).1 = (Dpcm.delta16 last xs).1 := undelta16_delta16_state xs last h

/-- wrap-around: the step from 32767 to −32768 is stored as +1 and read back exactly -/
example : (Dpcm.delta16 0 [32767, -32768]).2 = [32767, 1] ∧ (Dpcm.undelta16 0 [32767, 1]).2 = [32767, -32768] := by decide

/-! ## OKI ADPCM: a decode step keeps the step index inside the table and the output inside 16 bits -/

theorem oki_decode_step (st : Oki.St) (code : Nat) :
    (Oki.decode st code).1.idx ≤ 48 ∧ -32768 ≤ (Oki.decode st code).2 ∧ (Oki.decode st code).2 ≤ 32767 ∧
      (Oki.decode st code).1.last = (Oki.decode st code).2 := oki_decode_bounds st code

/-- the first codes of the reference vector in ima_oki_adpcm.c (`test_codes` 0x08 0x08 0x04 -> 32 0 32 0 32 320) -/
example : (Oki.decBytes {} [0x08, 0x08, 0x04]).2 = [32, 0, 32, 0, 32, 320] := by decide

/-! ## VOX and odd counts (KF-VOX-ODD, repaired: the odd sample of a call is held for the next call / for close) -/

/-- the full statement: a write call reports exactly the number of items it was given — any coder state, any held
    sample, any count (odd or even, longer than the 512-sample pieces or not) -/
theorem vox_write_count (st : Oki.St) (c : Option Int) (xs : List Int) :
    (Oki.writeBlock (xs.length + 1) st c xs xs.length).2.2.2 = xs.length := by
  rw [writeBlock_spec _ st c xs (Nat.lt_succ_self _)]; rfl

/-- non-vacuity: three samples -> one byte, the third sample held, the call reports three; the held sample and one
    more give the second byte -/
example : (Oki.writeBlock 4 {} none [256, 512, 768] 3).2.2.2 = 3 ∧ (Oki.writeBlock 4 {} none [256, 512, 768] 3).2.2.1.length = 1 ∧
    (Oki.writeBlock 4 {} none [256, 512, 768] 3).2.1 = some 768 ∧
    (Oki.writeBlock 2 (Oki.writeBlock 4 {} none [256, 512, 768] 3).1 (some 768) [1024] 1).2.2.1.length = 1 := by decide

/-- the same statement for the rule before the repair -/
def vox_write_count_full_old : Prop :=
  ∀ (st : Oki.St) (xs : List Int), (Oki.writeBlockOld (xs.length + 1) st xs xs.length).2.2 = xs.length

/-- old rule, witness: three samples were stored as two bytes (a zero sample appended) and the call reported four -/
theorem vox_odd_write_pads_old_rule :
    (Oki.writeBlockOld 4 {} [256, 512, 768] 3).2.2 = 4 ∧ (Oki.writeBlockOld 4 {} [256, 512, 768] 3).2.1.length = 2 ∧
      (Oki.writeBlockOld 4 {} [256, 512, 768] 3).2.1 = (Oki.writeBlockOld 5 {} [256, 512, 768, 0] 4).2.1 := by decide

theorem vox_write_count_old_rule_fails : ¬ vox_write_count_full_old := by
  intro h
  have := h {} [256, 512, 768]
  revert this
  decide

/-- old rule: an even number of items was reported exactly (the class of KF-VOX-ODD was exactly the odd counts) -/
theorem vox_write_count_even_old_rule (st : Oki.St) (xs : List Int) (n : Nat) (he : n % 2 = 0) :
    (Oki.writeBlockOld (n + 1) st xs n).2.2 = n := vox_writeBlock_even (n + 1) st xs n he (by omega)

example : (Oki.writeBlockOld 5 {} [256, 512, 768, 1024] 4).2.2 = 4 := by decide

/-- the repair changes nothing for a caller that never uses an odd count: on an even number of samples with nothing
    held, the new rule gives the state, the bytes and the count of the old one and holds nothing -/
theorem vox_even_unchanged (st : Oki.St) (xs : List Int) (he : xs.length % 2 = 0) :
    Oki.writeBlock (xs.length + 1) st none xs xs.length =
      ((Oki.writeBlockOld (xs.length + 1) st xs xs.length).1, none,
       (Oki.writeBlockOld (xs.length + 1) st xs xs.length).2.1, (Oki.writeBlockOld (xs.length + 1) st xs xs.length).2.2) := by
  rw [writeBlock_spec _ st none xs (Nat.lt_succ_self _), writeBlockOld_even _ st xs he (Nat.lt_succ_self _)]
  have h1 : ¬ xs.length % 2 = 1 := by omega
  simp [writeSpec, evenPart, oddLast, h1]

example : Oki.writeBlock 5 {} none [256, 512, 768, 1024] 4 =
    ((Oki.writeBlockOld 5 {} [256, 512, 768, 1024] 4).1, none, (Oki.writeBlockOld 5 {} [256, 512, 768, 1024] 4).2.1, 4) := by decide

/-- old rule, witness on the read side: asked for three items, `vox_read_block` copied four into the caller's buffer
    and reported four -/
theorem vox_odd_read_overcounts_old_rule :
    (Oki.readBlockOld 4 {} [0x12, 0x34, 0x56] 3).2.2.1.length = 4 ∧ (Oki.readBlockOld 4 {} [0x12, 0x34, 0x56] 3).2.2.2 = 4 := by decide

/-- the same request now: three items copied and reported, the fourth sample held -/
theorem vox_odd_read_exact :
    (Oki.readBlock 4 {} none [0x12, 0x34, 0x56] 3).2.2.2.1.length = 3 ∧ (Oki.readBlock 4 {} none [0x12, 0x34, 0x56] 3).2.2.2.2 = 3 ∧
      (Oki.readBlock 4 {} none [0x12, 0x34, 0x56] 3).2.1 = (Oki.readBlockOld 4 {} [0x12, 0x34, 0x56] 3).2.2.1.getLast? := by decide

end Sf.C01Block
