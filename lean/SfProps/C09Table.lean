/- C09 — the error-message table of the running library (regenerated each run) is total on 0..SFE_MAX_ERROR -/
import SfModel.Generated.ErrorTable
namespace Sf.C09
open Sf.Generated

/-- every error number 0..SFE_MAX_ERROR has a message of its own: non-empty and not the "no error defined" fallback -/
theorem error_text_nonempty :
    errTable.all (fun e => !e.2.isEmpty && e.2 != badErrnum) = true ∧ errTable.map (·.1) = List.range (errMax + 1) := by
  constructor <;> decide +kernel

example : errTable.length = errMax + 1 := by decide +kernel
end Sf.C09
