-- properties: C04 C11
/-
  C04 / C11 — the MATLAB 4 container (stand-alone L1 model SfModel/Mat4.lean; helpers SfProofs/Mat4Image.lean,
  SfProofs/Small2Session.lean).  Property theorems only.

  A *session* is `openW` (sf_open SFM_WRITE; the caller's frames value is a parameter — it shows in the cols field
  of the very first header only), any list of `WOp`s storing whole frames, then `close`.
-/
import SfModel.Mat4
import SfProofs.Mat4Image
namespace Sf.C04Mat4
open Sf Sf.Small2 Sf.Mat4

/-- the rate is a binary64 in its own 1 x 1 matrix: every rate in [1, 2^31 − 1] is reported back exactly -/
theorem mat4_rate_exact (sr : Nat) (h1 : 1 ≤ sr) (h2 : sr ≤ 0x7FFFFFFF) : quant sr = sr := by
  unfold quant; rw [natOfF64_f64OfNat sr h1 (by omega)]; rfl

example : f64OfNat 44100 = 0x40E5888000000000 ∧ f64OfNat 1 = 0x3FF0000000000000 ∧ quant 2147483647 = 2147483647 := by decide +kernel

theorem closedBytes_eq (c : Cfg) (stale : Nat) (ops : List WOp) :
    closedBytes (fmt c) stale ops =
      hdr c { frames := (((opsData ops).length / c.bw : Nat) : Int), filelength := ((68 + (opsData ops).length : Nat) : Int),
              datalength := ((opsData ops).length : Nat) } ++ opsData ops := by
  rw [Small2.closedBytes_eq (fmt c) (lawful c) rfl stale ops]
  show calcHdr (fmt c) (68 + _) ++ _ = _
  rw [calcHdr_eq]

/-- **mat4_reopen_info.**  For every accepted configuration and every session of whole frames, under the guard of
    the 32-bit cols field (fewer than 2^31 frames), the closed file re-opens with the requested channels, MAT4 / the
    requested encoding in the byte order of the file, exactly the requested rate and exactly the frames written. -/
theorem mat4_reopen_info (c : Cfg) (hwf : c.wf) (stale : Nat) (ops : List WOp) (hw : WholeFrames c.bw ops)
    (hguard : (opsData ops).length / c.bw < 2 ^ 31) :
    parse (closedBytes (fmt c) stale ops) =
      .ok { ch := c.ch, fmt := c.fmtWord, sr := quant c.sr, frames := (opsData ops).length / c.bw } := by
  rw [closedBytes_eq, mat4_rate_exact c.sr hwf.2.2.2.2.1 hwf.2.2.2.2.2]
  have hm := opsData_whole c.bw ops hw
  exact parse_image c hwf _ _ rfl hguard _ (by
    have := Nat.div_add_mod (opsData ops).length c.bw
    rw [hm, Nat.add_zero, Nat.mul_comm] at this; exact this.symm)

def exCfg : Cfg := ⟨2, 2, 2, 44100⟩
def exLe : Cfg := ⟨6, 0, 1, 8000⟩
def exOps : List WOp := [.write [0, 1, 0, 2] false, .update, .write [0, 3, 0, 4, 0, 5, 0, 6] true]
example : exCfg.wf ∧ WholeFrames exCfg.bw exOps ∧ (closedBytes (fmt exCfg) 77 exOps).length = 80 ∧
    parse (closedBytes (fmt exCfg) 77 exOps) = .ok ⟨2, 0x200C0002, 44100, 3⟩ := by decide +kernel
example : exLe.wf ∧ parse (closedBytes (fmt exLe) 0 exOps) = .ok ⟨1, 0x100C0006, 8000, 3⟩ := by decide +kernel

/-- **mat4_size_fields.**  The file is the 68-byte header plus the audio; the rows field (offset 43) holds the
    channels and the cols field (offset 47) the low 32 bits of audio bytes / block width, in the byte order of the
    file; there is no other length field and nothing is padded. -/
theorem mat4_size_fields (c : Cfg) (hwf : c.wf) (stale : Nat) (ops : List WOp) (bytes : List Byte) (D : Nat)
    (hbytes : bytes = closedBytes (fmt c) stale ops) (hD : D = (opsData ops).length) :
    bytes.length = 68 + D ∧ r32 c.little ((bytes.drop 43).take 4) = c.ch ∧
    r32 c.little ((bytes.drop 47).take 4) = (D / c.bw) % 2 ^ 32 ∧ bytes.drop 68 = opsData ops := by
  rw [closedBytes_eq, ← hD] at hbytes
  have hlen : bytes.length = 68 + D := by
    rw [hbytes, hD]; simp [hdr, w32_length, w64_length, typeWord_length, srName, wdName]; omega
  have e : bytes = (typeWord c.little 0 ++ w32 c.little 1 ++ w32 c.little 1 ++ w32 c.little 0 ++ w32 c.little 11 ++ srName ++
      w64 c.little (f64OfNat c.sr) ++ typeWord c.little (typeIdx c.codec)) ++ (w32 c.little c.ch ++ (w32 c.little ((D / c.bw : Nat) : Int) ++
      ((w32 c.little 0 ++ w32 c.little 9 ++ wdName) ++ opsData ops))) := by
    rw [hbytes]; simp [hdr]
  have h43 : (typeWord c.little 0 ++ w32 c.little 1 ++ w32 c.little 1 ++ w32 c.little 0 ++ w32 c.little 11 ++ srName ++
      w64 c.little (f64OfNat c.sr) ++ typeWord c.little (typeIdx c.codec)).length = 43 := by
    simp [w32_length, w64_length, typeWord_length, srName]
  have d43 : bytes.drop 43 = w32 c.little c.ch ++ (w32 c.little ((D / c.bw : Nat) : Int) ++
      ((w32 c.little 0 ++ w32 c.little 9 ++ wdName) ++ opsData ops)) := by
    rw [e]; exact drop_append_len _ _ 43 h43
  have d47 : bytes.drop 47 = w32 c.little ((D / c.bw : Nat) : Int) ++ ((w32 c.little 0 ++ w32 c.little 9 ++ wdName) ++ opsData ops) := by
    rw [show (47 : Nat) = 43 + 4 from rfl, ← List.drop_drop, d43]; exact drop_append_len _ _ 4 (w32_length _ _)
  refine ⟨hlen, ?_, ?_, ?_⟩
  · rw [d43, take_append_len _ _ 4 (w32_length _ _), r32_w32]
    exact wrapU_nat 32 _ (by have := hwf.2.2.2.1; omega)
  · rw [d47, take_append_len _ _ 4 (w32_length _ _), r32_w32, wrapU_nat_mod]
  · rw [show (68 : Nat) = 47 + (4 + 17) from rfl, ← List.drop_drop, d47, ← List.drop_drop, drop_append_len _ _ 4 (w32_length _ _)]
    exact drop_append_len _ _ 17 (by simp [w32_length, wdName])

example : r32 exCfg.little (((closedBytes (fmt exCfg) 77 exOps).drop 47).take 4) = 3 := by decide +kernel

/-- **mat4_frames_bound.**  All four encodings are sample-granular and nothing is padded: `N` frames re-open as `N`. -/
theorem mat4_frames_bound (bw N : Nat) (hbw : 0 < bw) : (N * bw) / bw = N ∧ N ≤ (N * bw) / bw ∧ (N * bw) / bw < N + 1 := by
  have : (N * bw) / bw = N := Nat.mul_div_cancel _ hbw
  omega

example : (3 * 4) / 4 = 3 := by decide

/-- **stale_frames_ignored_mat4.**  Closed bytes and update images do not depend on the caller's frames value… -/
theorem stale_frames_ignored_mat4 (c : Cfg) (a b : Nat) (ops : List WOp) :
    closedBytes (fmt c) a ops = closedBytes (fmt c) b ops ∧ snapshotBytes (fmt c) a ops = snapshotBytes (fmt c) b ops :=
  ⟨stale_ignored (fmt c) (lawful c) rfl a b ops, stale_ignored_snapshot (fmt c) (lawful c) a b ops⟩

example : closedBytes (fmt exCfg) 0 exOps = closedBytes (fmt exCfg) 123456 exOps := by decide +kernel

/-- …but the header written by sf_open itself carries it in the cols field until the first write call or update -/
theorem mat4_open_image_stale : (openW (fmt exCfg) 0).bytes ≠ (openW (fmt exCfg) 99).bytes := by decide +kernel

/-- **mat4_snapshot_valid.**  After any session prefix of whole frames, the image a header update leaves in the
    store parses with the same parameters and exactly the frames written so far, and is the 68-byte header followed
    by the audio written so far. -/
theorem mat4_snapshot_valid (c : Cfg) (hwf : c.wf) (stale : Nat) (ops : List WOp) (hw : WholeFrames c.bw ops)
    (hguard : (opsData ops).length / c.bw < 2 ^ 31) :
    parse (snapshotBytes (fmt c) stale ops) =
      .ok { ch := c.ch, fmt := c.fmtWord, sr := quant c.sr, frames := (opsData ops).length / c.bw } ∧
    ∃ hdr, hdr.length = 68 ∧ snapshotBytes (fmt c) stale ops = hdr ++ opsData ops := by
  rw [← closed_is_snapshot (fmt c) rfl stale ops]
  refine ⟨mat4_reopen_info c hwf stale ops hw hguard, calcHdr (fmt c) (68 + (opsData ops).length), (lawful c).hlen _, ?_⟩
  exact Small2.closedBytes_eq (fmt c) (lawful c) rfl stale ops

example : parse (snapshotBytes (fmt exCfg) 5 [.write [1, 2, 3, 4] false]) = .ok ⟨2, 0x200C0002, 44100, 1⟩ := by decide +kernel

end Sf.C04Mat4
