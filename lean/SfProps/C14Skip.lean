/-
  C14 — getting to the audio data is route independent when the parser READS forward, and is not when it seeks: on a pipe
  psf_fseek does nothing.  Model: SfModel/RoutesSkip.lean over SfModel/Routes.lean; the campaign that ties it to the code is the
  foreign-file stream of vlib/foreign.py (AU annotation, AIFF SSND offset, chunks in front of the audio, through every route).
-/
import SfModel.RoutesSkip
import SfProps.C14
namespace Sf.C14Skip
open Sf Sf.Routes Sf.RoutesSkip Sf.C14

/-- a sequential reader may issue the read-forward move and the audio read -/
theorem firstAudio_read_pipeOk (a : Abs) (gap m : Nat) : OpsPipe a (firstAudio .readForward a.pos gap m) := by
  simp [firstAudio, reach, OpsPipe, pipeOk]

/-- **pipe**: with the read-forward rule a non-seekable descriptor delivers what the logical file delivers — the move and the
    first audio read, for every gap and every read size -/
theorem pipe_first_audio_read_forward (sh : Shim) (w : World) (a : Abs) (h : RelPipe sh w a) (gap m : Nat) :
    (run sh w (firstAudio .readForward a.pos gap m)).1 = (absRun a (firstAudio .readForward a.pos gap m)).1 :=
  pipe_equivalent _ sh w a h (firstAudio_read_pipeOk a gap m)

/-- **seekable routes** (path, descriptor, descriptor at an offset, callbacks): either rule, as long as the operations are
    covered (`OpsOk`, decidable), gives what the logical file gives -/
theorem seekable_first_audio (r : Rule) (sh : Shim) (w : World) (a : Abs) (h : Rel sh w a) (gap m : Nat)
    (ok : OpsOk sh a (firstAudio r a.pos gap m)) :
    (run sh w (firstAudio r a.pos gap m)).1 = (absRun a (firstAudio r a.pos gap m)).1 :=
  (routes_equivalent_partial _ sh w a h ok).1

/-- on the logical file the read-forward move lands `gap` bytes further on … -/
theorem abs_after_read_forward (a : Abs) (gap : Nat) (hin : a.pos + gap ≤ a.content.length) :
    (absRun a (reach .readForward a.pos gap)).2 = { a with pos := a.pos + gap } := by
  have hlen : (readAt a.content a.pos gap).length = gap := by
    simp [readAt, List.length_take, List.length_drop]; omega
  by_cases hg : gap = 0
  · subst hg; simp [reach, absRun, absStep]
  · have h1 : ¬ ((1 : Int) = 0 ∨ (gap : Int) = 0) := by omega
    have h2 : ¬ ((gap : Int) ≤ 0) := by omega
    simp only [reach, absRun, absStep, h1, if_false, Int.one_mul, Int.toNat_natCast, hlen]
    rw [if_neg h2]

/-- … and so does the seek: on the logical file (and on every seekable route) the two rules are the same move -/
theorem abs_after_seek_set (a : Abs) (gap : Nat) :
    (absRun a (reach .seekSet a.pos gap)).2 = { a with pos := a.pos + gap } := by
  have h3 : ¬ (((a.pos + gap : Nat) : Int) < 0) := by omega
  have h0 : ¬ (2 < 0) := by omega
  simp only [reach, absRun, absStep, whBase, h0, if_false, if_true, Int.zero_add, Int.toNat_natCast]
  rw [if_neg h3]

theorem rules_agree_on_the_logical_file (a : Abs) (gap : Nat) (hin : a.pos + gap ≤ a.content.length) :
    (absRun a (reach .readForward a.pos gap)).2 = (absRun a (reach .seekSet a.pos gap)).2 := by
  rw [abs_after_read_forward a gap hin, abs_after_seek_set]

/-- the AU annotation and the AIFF SSND offset on a pipe, as the code is now: the samples of the logical file -/
theorem au_pipe_first_audio (sh : Shim) (w : World) (a : Abs) (h : RelPipe sh w a) (gap m : Nat) :
    (run sh w (firstAudio auRule a.pos gap m)).1 = (absRun a (firstAudio auRule a.pos gap m)).1 :=
  pipe_first_audio_read_forward sh w a h gap m

theorem aiff_pipe_first_audio (sh : Shim) (w : World) (a : Abs) (h : RelPipe sh w a) (gap m : Nat) :
    (run sh w (firstAudio aiffPipeRule a.pos gap m)).1 = (absRun a (firstAudio aiffPipeRule a.pos gap m)).1 :=
  pipe_first_audio_read_forward sh w a h gap m

/-- a stream of 2 header bytes already consumed, a gap of 3 bytes (7, 7, 7) and the audio 1, 2, 3, 4 -/
def demoPipe : World := { file := [9, 9, 7, 7, 7, 1, 2, 3, 4], off := 2, isPipe := true, openFds := [3] }
def demoShim : Shim := { filedes := 3, isPipe := true, pipeoffset := 2 }
def demoAbs : Abs := ⟨[9, 9, 7, 7, 7, 1, 2, 3, 4], 2⟩

/-- **the seek rule on a pipe** (aiff_open before the repair; what an AU reader that seeks would do): the "seek" reports
    success and the audio read delivers the gap bytes -/
theorem aiff_pipe_old_rule :
    RelPipe demoShim demoPipe demoAbs ∧
    (run demoShim demoPipe (firstAudio aiffPipeRuleOld 2 3 4)).1 = [(5, []), (4, [7, 7, 7, 1])] ∧
    (absRun demoAbs (firstAudio aiffPipeRuleOld 2 3 4)).1 = [(5, []), (4, [1, 2, 3, 4])] ∧
    (run demoShim demoPipe (firstAudio aiffPipeRule 2 3 4)).1 = [(3, [7, 7, 7]), (4, [1, 2, 3, 4])] := by
  refine ⟨⟨rfl, rfl, by decide, rfl, rfl, rfl⟩, by decide, by decide, by decide⟩

/-- non-vacuity of the seekable statement: a descriptor at offset 1 of a larger file and the callbacks, both rules covered -/
example : OpsOk (shFd .r 1) ⟨[9, 9, 7, 7, 7, 1, 2, 3, 4], 2⟩ (firstAudio .seekSet 2 3 4) ∧
    OpsOk (openVio .r) ⟨[9, 9, 7, 7, 7, 1, 2, 3, 4], 2⟩ (firstAudio .readForward 2 3 4) := by
  refine ⟨by decide, by decide⟩

end Sf.C14Skip
