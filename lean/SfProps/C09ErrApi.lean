/-
  C09 — sf_perror, sf_error_str and sf_write_sync report and never disturb: the handle's error state, the global error, the positions and
  the file are what they were (purity), sf_error_str writes at most `maxlen` bytes of the caller's buffer, terminates what it wrote
  whenever maxlen > 0 and delivers a prefix of the error table's string (the whole string when the buffer is large enough).
  Model: SfModel/ErrApi.lean; correspondence and twin runs: vlib/c09errapi.py (harness/errapi.c).
-/
import SfModel.ErrApi
import SfModel.Generated.ErrorTable
namespace Sf.C09ErrApi
open Sf.ErrApi

/-- **never more than maxlen bytes**: every byte of the caller's buffer at index >= maxlen is untouched (the guard band of the campaign) -/
theorem boundedCopy_beyond (msg buf : List Nat) (len i : Nat) (hi : len ≤ i) : (boundedCopy msg len buf)[i]? = buf[i]? := by
  unfold boundedCopy
  by_cases h0 : len = 0
  · simp [h0]
  · simp only [h0, if_false]
    have hl : (List.take (len - 1) msg).length ≤ len - 1 := by rw [List.length_take]; omega
    rw [List.getElem?_append_right (by simp; omega)]
    simp only [List.length_append, List.length_cons, List.length_nil, List.getElem?_drop]
    congr 1
    omega

/-- the buffer keeps its length (nothing is appended behind the caller's block) -/
theorem boundedCopy_length (msg buf : List Nat) (len : Nat) (h : len ≤ buf.length) : (boundedCopy msg len buf).length = buf.length := by
  unfold boundedCopy
  by_cases h0 : len = 0
  · simp [h0]
  · simp only [h0, if_false]
    have hl : (List.take (len - 1) msg).length ≤ len - 1 := by rw [List.length_take]; omega
    simp only [List.length_append, List.length_cons, List.length_nil, List.length_drop]
    omega

/-- **always terminated when maxlen > 0**: the byte behind the copied prefix is NUL, and it lies inside the first maxlen bytes -/
theorem boundedCopy_terminated (msg buf : List Nat) (len : Nat) (h : 0 < len) :
    (boundedCopy msg len buf)[min msg.length (len - 1)]? = some 0 ∧ min msg.length (len - 1) < len := by
  unfold boundedCopy
  have h0 : ¬ len = 0 := by omega
  simp only [h0, if_false]
  refine ⟨?_, by omega⟩
  have hl : (List.take (len - 1) msg).length = min msg.length (len - 1) := by rw [List.length_take]; omega
  rw [List.append_assoc, List.getElem?_append_right (by omega)]
  simp [hl]

/-- **a prefix of the table's string**: the first min (strlen, maxlen - 1) bytes are the message's -/
theorem boundedCopy_prefix (msg buf : List Nat) (len : Nat) (h : 0 < len) :
    (boundedCopy msg len buf).take (min msg.length (len - 1)) = msg.take (len - 1) := by
  unfold boundedCopy
  have h0 : ¬ len = 0 := by omega
  simp only [h0, if_false]
  have hl : (List.take (len - 1) msg).length = min msg.length (len - 1) := by rw [List.length_take]; omega
  rw [List.append_assoc, ← hl, List.take_left]

/-- the whole message arrives when the buffer has room for it and its terminator -/
theorem boundedCopy_whole (msg buf : List Nat) (len : Nat) (h : msg.length < len) :
    (boundedCopy msg len buf).take (msg.length + 1) = msg ++ [0] := by
  unfold boundedCopy
  have h0 : ¬ len = 0 := by omega
  simp only [h0, if_false]
  have ht : List.take (len - 1) msg = msg := List.take_of_length_le (by omega)
  rw [ht]
  have : (msg ++ [0]).length = msg.length + 1 := by simp
  rw [← this, List.take_left]

/-- maxlen = 0 writes nothing at all -/
theorem boundedCopy_zero (msg buf : List Nat) : boundedCopy msg 0 buf = buf := by simp [boundedCopy]

/-- **purity**: none of the three calls changes the handle's error, sf_errno, a position or the file — for every state, handle and argument -/
theorem sfErrorStr_pure (internal : Int) (msgOf : Int → List Nat) (isNull : Bool) (s : St) (buf : Option (List Nat)) (len : Nat) :
    (sfErrorStr internal msgOf isNull s buf len).2.2 = s := by
  cases buf <;> rfl

theorem sfPerror_pure (msgOf : Int → List Nat) (isNull : Bool) (s : St) : (sfPerror msgOf isNull s).2.2 = s ∧ (sfPerror msgOf isNull s).1 = 0 := ⟨rfl, rfl⟩

theorem sfWriteSync_pure (isNull : Bool) (s : St) : sfWriteSync isNull s = s := rfl

/-- a twin history with sf_write_sync calls inserted anywhere ends in the same state as the history without them -/
theorem writeSync_twin (ops : List (St → St)) (s : St) (isNull : Bool) :
    (ops.flatMap fun f => [f, sfWriteSync isNull]).foldl (fun st f => f st) s = ops.foldl (fun st f => f st) s := by
  induction ops generalizing s with
  | nil => rfl
  | cons f rest ih => simp only [List.flatMap_cons, List.cons_append, List.nil_append, List.foldl_cons, sfWriteSync_pure]; exact ih (f s)

/-- sf_error_str answers SFE_NO_ERROR with a buffer, SFE_INTERNAL without one, and reads the error it reports from the right place -/
theorem sfErrorStr_ret (internal : Int) (msgOf : Int → List Nat) (isNull : Bool) (s : St) (b : List Nat) (len : Nat) :
    (sfErrorStr internal msgOf isNull s (some b) len).1 = 0 ∧ (sfErrorStr internal msgOf isNull s none len).1 = internal ∧
    (sfErrorStr internal msgOf isNull s (some b) len).2.1 = some (boundedCopy (msgOf (if isNull then s.sfErrno else s.error)) len b) := ⟨rfl, rfl, rfl⟩

/-- the message of error number `k` in the running library's table (regenerated on every run), the fallback text outside it -/
def tableMsg (k : Int) : List Nat :=
  if k < 0 then Sf.Generated.badErrnum
  else match Sf.Generated.errTable.find? (fun e => e.1 = k.toNat) with
    | some e => e.2
    | none => Sf.Generated.badErrnum

/-- every string of the table (and the fallback) is shorter than 256 bytes and holds no NUL: a 256-byte buffer always receives the WHOLE message -/
theorem table_strings_fit :
    Sf.Generated.errTable.all (fun e => decide (e.2.length < 256) && e.2.all (· != 0)) = true ∧ Sf.Generated.badErrnum.length < 256 := by
  constructor <;> decide +kernel

theorem tableMsg_length (k : Int) : (tableMsg k).length < 256 := by
  have h := table_strings_fit
  unfold tableMsg
  split
  · exact h.2
  · split
    · rename_i e he
      have hm := List.mem_of_find?_eq_some he
      have := (List.all_eq_true.mp h.1) e hm
      simp only [Bool.and_eq_true, decide_eq_true_eq] at this
      exact this.1
    · exact h.2

/-- **sf_error_str with a buffer of 256 bytes or more delivers the complete message of the table, terminated, for every error state** -/
theorem sfErrorStr_table_whole (internal : Int) (isNull : Bool) (s : St) (b : List Nat) (len : Nat) (hl : 256 ≤ len) :
    ∃ out, (sfErrorStr internal tableMsg isNull s (some b) len).2.1 = some out ∧
      out.take ((tableMsg (errnumOf isNull s)).length + 1) = tableMsg (errnumOf isNull s) ++ [0] := by
  refine ⟨boundedCopy (tableMsg (errnumOf isNull s)) len b, rfl, ?_⟩
  exact boundedCopy_whole _ _ _ (by have := tableMsg_length (errnumOf isNull s); omega)

/-! non-vacuity -/
example : tableMsg 0 = [78, 111, 32, 69, 114, 114, 111, 114, 46] := by decide +kernel
example : boundedCopy [78, 111, 32, 69] 3 [0xA5, 0xA5, 0xA5, 0xA5, 0xA5] = [78, 111, 0, 0xA5, 0xA5] := by decide
example : boundedCopy [78, 111, 32, 69] 1 [0xA5, 0xA5] = [0, 0xA5] := by decide
example : boundedCopy [78, 111] 5 [1, 2, 3, 4, 5, 6] = [78, 111, 0, 4, 5, 6] := by decide
example : (sfErrorStr 29 (fun _ => [65]) false { error := 7, sfErrno := 0, rpos := 3, wpos := 0, file := [1] } (some [9, 9, 9]) 3).2.1 = some [65, 0, 9] := by decide

end Sf.C09ErrApi
