/-
-- properties: C01
  C01 (ALAC, "lossless, bit exact") — the REAL encoder, search included, on mono files:

  * `alac_lossless_mono` (FULL for 1 channel): for every bit depth 16 / 20 / 24 / 32, every encoder state reachable or not
    (any 16 x 16 table of int16 coefficient rows — the state the encoder carries from packet to packet), every packet of
    1 … 4096 int32 samples: `alac_decode (alac_encode (x))` is `x` with the low `32 - depth` bits cleared, whether
    EncodeMono's search picks order 4 or 8, whether it ends in a compressed element or falls back to the escape element
    ("compressed frame too big" included); `alac_encode_keeps_state`: the state after the packet is again such a table, so
    the statement holds for every packet of a stream (`alac_lossless_mono_stream`).
  * `alac_mono_element_lossless`: the same for one ID_SCE / ID_LFE element inside any packet (any position, any bits behind it).
  It puts together the parameter block, the shifted-off bytes, `dyn_decomp ∘ dyn_comp = id` (C01AlacGolomb),
  `unpc_block ∘ pc_block = id` (C01AlacInv) and the output conversion. Channel pairs and every channel count:
  lean/SfProps/C01AlacLosslessAll.lean (`alac_lossless`).
-/
import SfProofs.AlacEncState
import SfProofs.AlacLoop
import Mathlib.Tactic.SplitIfs
namespace Sf.AlacCore

theorem monoTry_ok (cb : Nat) (mix : List Int) (n : Nat) (rows : List (List Int)) (numU : Nat) (h : RowsOk rows) (h1 : 1 ≤ numU) (h16 : numU ≤ 16) :
    RowsOk (monoTry cb mix n rows numU).2 := by
  unfold monoTry
  exact pcRepeat_ok _ _ _ _ (by omega) h16 _ _ (pcRepeat_ok _ _ _ _ (by omega) h16 _ _ h)

theorem monoSearch_ok (cb : Nat) (mix : List Int) (n : Nat) (rows : List (List Int)) (h : RowsOk rows) :
    ((monoSearch cb mix n rows).1 = 4 ∨ (monoSearch cb mix n rows).1 = 8) ∧ RowsOk (monoSearch cb mix n rows).2.2 := by
  unfold monoSearch
  have h8 := monoTry_ok cb mix n _ 8 (monoTry_ok cb mix n rows 4 h (by decide) (by decide)) (by decide) (by decide)
  simp only []
  split
  · exact ⟨Or.inr rfl, h8⟩
  · exact ⟨Or.inl rfl, h8⟩

/-- what EncodeMono writes: the escape element, or the compressed element of an int16 coefficient row with order 4 or 8 -/
theorem encMono_cases (depth : Nat) (st : EncChan) (xs : List Int) (hst : RowsOk st.coefsU) :
    ((encMono depth frameLen st xs).1 = encMonoEsc depth xs.length xs ∨
      ∃ coefs numU, CoefsOk coefs ∧ (numU = 4 ∨ numU = 8) ∧ (encMono depth frameLen st xs).1 = compMonoBits depth frameLen xs coefs numU) ∧
    RowsOk (encMono depth frameLen st xs).2.coefsU := by
  obtain ⟨hu, hrows⟩ := monoSearch_ok (depth - 8 * bytesShiftedOf depth) (monoMix depth xs) xs.length st.coefsU hst
  have hc := rows_getD_ok _ ((monoSearch (depth - 8 * bytesShiftedOf depth) (monoMix depth xs) xs.length st.coefsU).1 - 1) hrows
    (by rcases hu with h | h <;> rw [h] <;> decide)
  have hset := rows_set_ok _ ((monoSearch (depth - 8 * bytesShiftedOf depth) (monoMix depth xs) xs.length st.coefsU).1 - 1)
    _ hrows (pcBlock_ok (monoMix depth xs) _ (monoSearch (depth - 8 * bytesShiftedOf depth) (monoMix depth xs) xs.length st.coefsU).1
      (depth - 8 * bytesShiftedOf depth) 9 (by rcases hu with h | h <;> rw [h] <;> decide) hc)
  unfold encMono
  simp only []
  split_ifs
  all_goals first
    | exact ⟨Or.inl rfl, hrows⟩
    | exact ⟨Or.inl rfl, hset⟩
    | exact ⟨Or.inr ⟨_, _, hc, hu, rfl⟩, hset⟩

/-- one mono element of `alac_encode`, whatever the encoder state, decodes to the samples with the low bits cleared -/
theorem alac_mono_element_lossless {cfg : Config} (hd : Depth cfg.bitDepth) (hmb : cfg.mb = 10) (hpb : cfg.pb = 40) (hkb : cfg.kb = 14)
    (st : EncChan) (hst : RowsOk st.coefsU) (byteSize inst reqN : Nat) (xs : List Int) (hxs : ∀ x ∈ xs, I32 x) (hn : xs.length ≤ frameLen)
    (hreq : xs.length = frameLen → reqN = frameLen) (rest : Bits) (p : Nat)
    (hroom : p + 4 + (encMono cfg.bitDepth frameLen st xs).1.length ≤ byteSize * 8) :
    decMono (comp Rules.current byteSize) Rules.current cfg reqN ⟨bitsOf inst 4 ++ ((encMono cfg.bitDepth frameLen st xs).1 ++ rest), p⟩ =
      .done xs.length [xs.map (trunc cfg.bitDepth)] ⟨rest, p + 4 + (encMono cfg.bitDepth frameLen st xs).1.length⟩ := by
  rcases (encMono_cases cfg.bitDepth st xs hst).1 with he | ⟨coefs, numU, hc, hu, he⟩
  · rw [he] at hroom ⊢
    rw [decMono_esc _ hd inst reqN xs hxs hn hreq, encMonoEsc_length]
    congr 2; omega
  · rw [he] at hroom ⊢
    exact decMono_comp hd hmb hpb hkb byteSize inst reqN xs coefs numU (by rw [hc.1]; rcases hu with h | h <;> rw [h] <;> decide)
      (by rcases hu with h | h <;> rw [h] <;> decide) (fun c hcm => hc.2 c (List.mem_of_mem_take hcm)) hxs hn hreq rest p hroom

/-- the encoder state of a mono file: the coefficient table of channel 0 -/
def StateOk (st : EncState) : Prop := RowsOk (st.getD 0 {}).coefsU

theorem init_stateOk : StateOk (EncState.init 1) := by
  unfold StateOk RowsOk CoefsOk Int16
  decide

theorem alac_encode_keeps_state (cfg : Config) (hc : cfg.numChannels = 1) (st : EncState) (hst : StateOk st) (hlen : 0 < st.length)
    (frames : List (List Int)) : StateOk (encode cfg st frames).2 ∧ 0 < (encode cfg st frames).2.length := by
  unfold encode
  simp only [hc, layout, if_true, encElems, ID_SCE, ID_CPE, Nat.zero_ne_one, if_false]
  unfold StateOk at hst ⊢
  have := (encMono_cases cfg.bitDepth (st.getD 0 {}) (chanOf frames 0) hst).2
  constructor
  · rw [List.getD_eq_getElem?_getD, List.getElem?_set_self (by simpa using hlen)]
    exact this
  · simpa using hlen

/-- ALAC is lossless on mono files: for every depth, every encoder state (any table of int16 coefficient rows), every
    packet of 1 … 4096 int32 samples, `alac_decode (alac_encode (frames))` = the frames with the low `32 - depth` bits cleared -/
theorem alac_lossless_mono (cfg : Config) (hd : Depth cfg.bitDepth) (hc : cfg.numChannels = 1) (hmb : cfg.mb = 10) (hpb : cfg.pb = 40)
    (hkb : cfg.kb = 14) (st : EncState) (hst : StateOk st) (frames : List (List Int)) (hn : frames.length ≤ 4096)
    (hf : ∀ f ∈ frames, f.length = 1 ∧ ∀ x ∈ f, I32 x) :
    decodeFresh cfg (encode cfg st frames).1 = frames.map (·.map (trunc cfg.bitDepth)) := by
  have hI : ∀ x ∈ chanOf frames 0, I32 x := by
    intro x hx
    simp only [chanOf, List.mem_map] at hx
    obtain ⟨f, hfm, rfl⟩ := hx
    exact getD_I32 f 0 (hf f hfm).2
  -- the packet: tag, instance tag, the element, END
  have hpk : (encode cfg st frames).1 = pack (bitsOf 0 3 ++ (bitsOf 0 4 ++ ((encMono cfg.bitDepth frameLen (st.getD 0 {}) (chanOf frames 0)).1 ++ bitsOf ID_END 3))) := by
    unfold encode
    simp only [hc, layout, if_true, encElems, ID_SCE, ID_CPE, Nat.zero_ne_one, if_false, List.append_nil, List.append_assoc]
  generalize hE : (encMono cfg.bitDepth frameLen (st.getD 0 {}) (chanOf frames 0)).1 = E at hpk
  have hup := unpack_pack (bitsOf 0 3 ++ (bitsOf 0 4 ++ (E ++ bitsOf ID_END 3)))
  have hlen := unpack_length (encode cfg st frames).1
  rw [hpk] at hlen ⊢
  generalize hpad : List.replicate ((8 - (bitsOf 0 3 ++ (bitsOf 0 4 ++ (E ++ bitsOf ID_END 3))).length % 8) % 8) false = pad at hup
  have hsz : 3 + 4 + E.length + 3 ≤ 8 * (pack (bitsOf 0 3 ++ (bitsOf 0 4 ++ (E ++ bitsOf ID_END 3)))).length := by
    rw [← hlen, hup]; simp [bitsOf_length]; omega
  generalize pack (bitsOf 0 3 ++ (bitsOf 0 4 ++ (E ++ bitsOf ID_END 3))) = pk at hup hsz ⊢
  have hm := alac_mono_element_lossless hd hmb hpb hkb (st.getD 0 {}) hst pk.length 0 frameLen (chanOf frames 0) hI
    (by rw [chanOf_length]; exact hn) (fun _ => rfl) (bitsOf ID_END 3 ++ pad) 3 (by rw [hE]; omega)
  rw [hE, chanOf_length] at hm
  unfold decodeFresh decode decodeR decodeWith
  rw [if_neg (by omega), Rd.ofBytes, hup]
  have hfuel : 3 * pk.length + 1 = (3 * pk.length) + 1 := rfl
  rw [hfuel, decLoop]
  have hcur : ∀ bs : Bits, ¬ (pk.length ≤ (Rd.mk bs 0).curByte) := by
    intro bs; simp only [Rd.curByte]; omega
  simp only [ge_iff_le, hcur, if_false, List.append_assoc, read_bitsOf]
  simp only [ID_SCE, ID_LFE, Nat.zero_mod, true_or, if_true, Nat.zero_add, hm]
  simp only [List.nil_append, List.length_cons, List.length_nil, hc, ge_iff_le, Nat.le_refl, if_true, Res.frames, zeroFill]
  simp only [List.length_cons, List.length_nil, Nat.sub_self, List.replicate_zero, List.append_nil]
  rw [applyOut_nil 1 _ rfl]
  have := transpose_chans (trunc cfg.bitDepth) 1 frames (fun f h => (hf f h).1)
  simpa using this

/-- the packets `alac_encode` writes for a sequence of staged blocks, the state carried along -/
def encodeAll (cfg : Config) : EncState → List (List (List Int)) → List (List Byte)
  | _, [] => []
  | st, fr :: rest => (encode cfg st fr).1 :: encodeAll cfg (encode cfg st fr).2 rest

/-- a whole mono stream: every packet of the file decodes to what was staged for it -/
theorem alac_lossless_mono_stream (cfg : Config) (hd : Depth cfg.bitDepth) (hc : cfg.numChannels = 1) (hmb : cfg.mb = 10) (hpb : cfg.pb = 40)
    (hkb : cfg.kb = 14) : ∀ (blocks : List (List (List Int))) (st : EncState), StateOk st → 0 < st.length →
    (∀ fr ∈ blocks, fr.length ≤ 4096 ∧ ∀ f ∈ fr, f.length = 1 ∧ ∀ x ∈ f, I32 x) →
    (encodeAll cfg st blocks).map (decodeFresh cfg) = blocks.map fun fr => fr.map (·.map (trunc cfg.bitDepth))
  | [], _, _, _, _ => rfl
  | fr :: rest, st, hst, hl, h => by
    obtain ⟨h1, h2⟩ := h fr (by simp)
    obtain ⟨k1, k2⟩ := alac_encode_keeps_state cfg hc st hst hl fr
    simp only [encodeAll, List.map_cons]
    rw [alac_lossless_mono cfg hd hc hmb hpb hkb st hst fr h1 h2,
      alac_lossless_mono_stream cfg hd hc hmb hpb hkb rest _ k1 k2 (fun fr' h' => h fr' (by simp [h']))]

/-- non-vacuity: the first packet of a 24-bit mono file (the encoder's initial state) -/
example : decodeFresh ⟨24, 1, 40, 10, 14, 255⟩ (encode ⟨24, 1, 40, 10, 14, 255⟩ (EncState.init 1) [[256], [-512], [2147483392]]).1 =
    [[256], [-512], [2147483392]].map (·.map (trunc 24)) :=
  alac_lossless_mono ⟨24, 1, 40, 10, 14, 255⟩ (by unfold Depth; decide) rfl rfl rfl rfl _ init_stateOk _ (by decide)
    (by intro f hf; simp at hf; rcases hf with rfl | rfl | rfl <;> (refine ⟨rfl, ?_⟩; intro x hx; simp at hx; subst hx; unfold I32; decide))

end Sf.AlacCore
