/-
  C03 — per-site bounds theorems (DESIGN §7 C03): for every declared length / count / string size (any integer the
  32-bit field can hold, and beyond) and every amount of remaining input, each write a chunk reader makes into a
  fixed-capacity destination lies inside that destination.  The models are SfModel/Sites.lean; capacities and
  thresholds are this tree's (Generated/SitesConsts.lean), so a changed `#define` or struct re-checks the proofs.
  Tie: vlib/c03sites.py (library-written files with exactly these fields mutated, parse log + getmeta vs `sfmodel sites`).
-/
import SfModel.Sites
namespace Sf.C03
open Sf.Sites Sf.Generated.Sites

/-- the numbers the proofs below use are the tree's (a changed buffer size or threshold re-opens them) -/
theorem sites_consts :
    bextMax - bextMin ≤ bextHistCap ∧ cartStruct - 4 - cartMin ≤ cartTagCap ∧ bextStruct = bextHistOff + bextHistCap ∧
    cartStruct = cartTagOff + cartTagCap ∧ 256 + 1 < scbuf - 1 ∧ cueName ≤ infoBuffer ∧ headerCap < 2147483647 ∧ 0 < instLoops := by decide

theorem writes_ite (c : Prop) [Decidable c] (a b : Outcome) : (if c then a else b).writes = if c then a.writes else b.writes := by
  split <;> rfl

theorem mem_ite {c : Prop} [Decidable c] {w : Write} {a b : List Write} (h : w ∈ if c then a else b) : (c ∧ w ∈ a) ∨ (¬ c ∧ w ∈ b) := by
  by_cases hc : c
  · left; rw [if_pos hc] at h; exact ⟨hc, h⟩
  · right; rw [if_neg hc] at h; exact ⟨hc, h⟩

theorem fixed_ok (l : List Write) (h : l.all (fun w => decide w.ok) = true) : ∀ w ∈ l, w.ok := by
  intro w hw
  have := List.all_eq_true.mp h w hw
  simpa using this

theorem bextFixed_ok : ∀ w ∈ bextFixed, w.ok := fixed_ok _ (by decide)
theorem cartFixed_ok : ∀ w ∈ cartFixed, w.ok := fixed_ok _ (by decide)

/-- bext: every chunk length -/
theorem bext_in_bounds (L : Int) : (bext L).safe := by
  unfold Outcome.safe bext
  intro w hw
  simp only [writes_ite] at hw
  simp only [bextMin, bextMax, bextStruct, bextHistCap] at hw
  rcases mem_ite hw with ⟨_, hw⟩ | ⟨h1, hw⟩
  · cases hw
  rcases mem_ite hw with ⟨_, hw⟩ | ⟨h2, hw⟩
  · cases hw
  rcases mem_ite hw with ⟨_, hw⟩ | ⟨h3, hw⟩
  · cases hw
  rcases mem_ite hw with ⟨h4, hw⟩ | ⟨h4, hw⟩
  · rcases List.mem_append.mp hw with h | h
    · exact bextFixed_ok w h
    · simp only [List.mem_singleton] at h; subst h; unfold Write.ok; simp only; omega
  · exact bextFixed_ok w hw

/-- cart: every chunk length -/
theorem cart_in_bounds (L : Int) : (cart L).safe := by
  unfold Outcome.safe cart
  intro w hw
  simp only [writes_ite] at hw
  simp only [cartMin, cartMax, cartStruct, cartTagCap] at hw
  rcases mem_ite hw with ⟨_, hw⟩ | ⟨h1, hw⟩
  · cases hw
  rcases mem_ite hw with ⟨_, hw⟩ | ⟨h2, hw⟩
  · cases hw
  rcases mem_ite hw with ⟨_, hw⟩ | ⟨h3, hw⟩
  · cases hw
  rcases mem_ite hw with ⟨h4, hw⟩ | ⟨h4, hw⟩
  · rcases List.mem_append.mp hw with h | h
    · exact cartFixed_ok w h
    · simp only [List.mem_singleton] at h; subst h; unfold Write.ok; simp only; omega
  · exact cartFixed_ok w hw

/-- SFC_GET_CART_INFO after any cart chunk the reader accepts, FULL strength for the current code: the copy out of the
    cart block stays inside the block (and inside the caller's datasize), whatever the heap held before -/
theorem cart_get_in_bounds (L datasize stale : Int) (hL : cartMin ≤ L ∧ L ≤ cartStruct - 4) (hd : 0 ≤ datasize) :
    0 ≤ cartGetSize false L datasize stale ∧ cartGetSize false L datasize stale ≤ cartStruct ∧ cartGetSize false L datasize stale ≤ datasize := by
  unfold cartGetSize
  simp only [cartMin, cartStruct, cartTagOff] at hL ⊢
  simp only [Bool.false_eq_true, if_false]
  split <;> split <;> omega

/-- the class of the old rule's failure: a cart chunk with no tag text -/
def KF.cartNoTagText (L : Int) : Prop := L = cartMin

instance (L : Int) : Decidable (KF.cartNoTagText L) := by unfold KF.cartNoTagText; infer_instance

/-- OLD RULE (malloc, before fix 0005; findings/C03-cart-2048-uninit.txt): for a cart chunk of exactly 2048 bytes the copy
    size came from uninitialised heap: with the 0xBE fill of the sanitizer's malloc and the 34820-byte block of the
    harness, 34820 bytes were read out of the 18436-byte block -/
theorem cart_get_overreads_old_rule :
    ∃ L datasize stale : Int, KF.cartNoTagText L ∧ 0 ≤ stale ∧ stale < 4294967296 ∧ cartGetSize true L datasize stale = 34820 ∧ 34820 > cartStruct :=
  ⟨2048, 34820, 0xBEBEBEBE, by decide, by decide, by decide, by decide, by decide⟩

/-- OLD RULE: outside the class the size was determined by the file -/
theorem cart_get_in_bounds_partial_old_rule (L datasize stale : Int) (hL : cartMin ≤ L ∧ L ≤ cartStruct - 4)
    (h : ¬ KF.cartNoTagText L) : cartGetSize true L datasize stale = cartGetSize false L datasize stale := by
  unfold KF.cartNoTagText at h
  unfold cartGetSize
  have : L > cartMin := by omega
  simp only [this, if_true]

example : cartGetSize false 2048 34820 0xBEBEBEBE = 2052 ∧ cartGetSize false 2304 34820 7 = 2308 ∧ ¬ KF.cartNoTagText 2304 := by decide

/-- PEAK: every chunk length and channel count the fmt / COMM chunk can leave behind -/
theorem peak_in_bounds (L ch : Int) (hch : 0 ≤ ch) : (peak L ch).safe := by
  unfold Outcome.safe peak
  intro w hw
  simp only [writes_ite] at hw
  rcases mem_ite hw with ⟨_, hw⟩ | ⟨_, hw⟩
  · cases hw
  · simp only [List.mem_singleton] at hw; subst hw; unfold Write.ok; simp only; omega

theorem u32_range (x : Int) : 0 ≤ u32 x ∧ u32 x < 4294967296 := by
  unfold u32; constructor
  · exact Int.emod_nonneg _ (by decide)
  · exact Int.emod_lt_of_pos _ (by decide)

theorem infoBufSize_ge (lc : Int) : infoBuffer ≤ infoBufSize lc := by
  unfold infoBufSize infoBuffer headerCap; split <;> (try split) <;> omega

/-- LIST/INFO strings: every size field, every bytesread, every LIST length (the +1 that wraps 0xFFFFFFFF to 0 included);
    the buffer is the one allocated for this LIST chunk -/
theorem info_string_in_bounds (s b lc : Int) : (infoString s b lc).safe := by
  unfold Outcome.safe infoString
  intro w hw
  simp only [writes_ite] at hw
  have h := u32_range (s + s % 2)
  rcases mem_ite hw with ⟨_, hw⟩ | ⟨hg, hw⟩
  · cases hw
  rcases mem_ite hw with ⟨_, hw⟩ | ⟨hg2, hw⟩
  · cases hw
  · simp only [List.mem_cons, List.not_mem_nil, or_false] at hw
    rcases hw with h1 | h1 <;> (subst h1; unfold Write.ok; simp only; omega)

/-- a skipped item lies inside the LIST chunk and the seek that skips it goes forward by less than 2^31 bytes (the `int` count of
    the 'j' conversion): the walk makes progress.  This is what the 64-bit bound in front of the skip is for. -/
theorem info_skip_goes_forward (s b lc : Int) (hb : 0 ≤ b) (h : (infoString s b lc).decision = "skip") :
    0 ≤ u32 (s + s % 2) ∧ u32 (s + s % 2) ≤ 2147483647 ∧ b + u32 (s + s % 2) ≤ lc := by
  have hr := u32_range (s + s % 2)
  unfold infoString at h
  simp only at h
  split at h
  · simp at h
  · rename_i hn
    refine ⟨hr.1, by omega, by omega⟩

example : (infoString 0xfffffff8 52 220).decision = "too-big" ∧ (infoStringOld 0xfffffff8 52 220).decision = "too-big" ∧
    (infoString 102401 12 200000).decision = "skip" := by decide

/-- … and for the fixed 2048-byte buffer of the code before the repair -/
theorem info_string_in_bounds_old_rule (s b lc : Int) : (infoStringOld s b lc).safe := by
  unfold Outcome.safe infoStringOld
  intro w hw
  simp only [writes_ite] at hw
  simp only [infoBuffer] at hw
  have h := u32_range (s + s % 2)
  rcases mem_ite hw with ⟨_, hw⟩ | ⟨hg, hw⟩
  · cases hw
  · simp only [List.mem_cons, List.not_mem_nil, or_false] at hw
    rcases hw with h1 | h1 <;> (subst h1; unfold Write.ok; simp only; omega)

/-- adtl labl: every size field (sizes below 4 wrap to ≥ 0xFFFFFFFC and are refused); the 256 bytes copied into the cue name
    lie inside the buffer because it never has fewer than 2048 bytes -/
theorem labl_in_bounds (s b lc : Int) : (labl s b lc).safe := by
  unfold Outcome.safe labl
  intro w hw
  simp only [writes_ite] at hw
  simp only [cueName, field] at hw
  have h := u32_range (u32 (s - 4) + u32 (s - 4) % 2)
  have hb := infoBufSize_ge lc
  unfold infoBuffer at hb
  rcases mem_ite hw with ⟨_, hw⟩ | ⟨hg, hw⟩
  · cases hw
  · simp only [List.mem_cons, List.not_mem_nil, or_false] at hw
    rcases hw with h1 | h1 | h1 | h1 <;> (subst h1; unfold Write.ok; simp only; omega)

/-- cue: every count and every amount of remaining input -/
theorem cue_in_bounds (count r : Int) (hc : 0 ≤ count) : (cue count r).safe := by
  unfold Outcome.safe cue
  intro w hw
  simp only [writes_ite] at hw
  rcases mem_ite hw with ⟨_, hw⟩ | ⟨_, hw⟩
  · cases hw
  · simp only [List.mem_singleton] at hw; subst hw; unfold Write.ok; simp only
    split
    · split
      · omega
      · have : 0 ≤ r / 24 := Int.ediv_nonneg (by omega) (by decide)
        omega
    · omega

theorem smplIter_nonneg (lc cl : Int) : ∀ (fuel : Nat) (b r j : Int), 0 ≤ j → 0 ≤ smplIter lc cl fuel b r j := by
  intro fuel
  induction fuel with
  | zero => intro b r j h; simpa [smplIter] using h
  | succ n ih =>
    intro b r j h
    unfold smplIter
    split
    · exact ih _ _ _ (by omega)
    · exact h

/-- smpl: every chunk size, loop count and amount of input: the loop table write stays inside `loops [16]` -/
theorem smpl_in_bounds (L lc r : Int) : (smpl L lc r).safe := by
  unfold Outcome.safe smpl
  intro w hw
  simp only [writes_ite] at hw
  simp only [instLoops] at hw
  rcases mem_ite hw with ⟨_, hw⟩ | ⟨_, hw⟩
  · cases hw
  · simp only [List.mem_singleton] at hw; subst hw; unfold Write.ok; simp only
    have := smplIter_nonneg lc (u32 (L + L % 2)) (r / 24 + 2).toNat 36 r 0 (by decide)
    generalize smplIter lc (u32 (L + L % 2)) (r / 24 + 2).toNat 36 r 0 = a at this ⊢
    by_cases ha : a < 16
    · simp only [ha, if_true]; omega
    · simp only [ha, if_false]; omega

/-- AIFF NAME / AUTH / (c) / ANNO: every chunk size; the buffer is allocated from the chunk size (padded + 1 bytes) -/
theorem aiff_text_in_bounds (slack size : Int) (h0 : 0 ≤ size) : (aiffText slack size).safe := by
  unfold Outcome.safe aiffText
  intro w hw
  simp only [writes_ite] at hw
  rcases mem_ite hw with ⟨_, hw⟩ | ⟨h1, hw⟩
  · cases hw
  rcases mem_ite hw with ⟨_, hw⟩ | ⟨h2, hw⟩
  · cases hw
  · simp only [List.mem_cons, List.not_mem_nil, or_false] at hw
    rcases hw with h1 | h1 <;> (subst h1; unfold Write.ok; simp only; omega)

/-- … and for the 8 KiB scratch union of the code before the repair (slack 0, 1, 2): for (c) the odd size 8191 read 8192 bytes
    into the 8192-byte buffer and the terminator went to index 8191 -/
theorem aiff_text_in_bounds_old_rule (slack size : Int) (hs : 0 ≤ slack) (h0 : 0 ≤ size) : (aiffTextOld slack size).safe := by
  unfold Outcome.safe aiffTextOld
  intro w hw
  simp only [writes_ite] at hw
  simp only [scbuf] at hw
  rcases mem_ite hw with ⟨_, hw⟩ | ⟨h1, hw⟩
  · cases hw
  rcases mem_ite hw with ⟨_, hw⟩ | ⟨h2, hw⟩
  · cases hw
  · simp only [List.mem_cons, List.not_mem_nil, or_false] at hw
    rcases hw with h1 | h1 <;> (subst h1; unfold Write.ok; simp only; omega)

/-- AIFF MARK: every marker count, every number k ≤ count of markers parsed, every pascal length byte -/
theorem aiff_mark_in_bounds (count k ch : Int) (hk0 : 0 ≤ k) (hk : k ≤ count) (hch : 0 ≤ ch ∧ ch ≤ 255) : (aiffMark count k ch).safe := by
  unfold Outcome.safe aiffMark
  intro w hw
  simp only [writes_ite] at hw
  simp only [scbuf, cueName, cueMax, field] at hw
  have hp : (if ch % 2 = 1 then ch else ch + 1) < 8192 - 1 := by split <;> omega
  have hp0 : 0 ≤ (if ch % 2 = 1 then ch else ch + 1) := by split <;> omega
  rcases mem_ite hw with ⟨_, hw⟩ | ⟨_, hw⟩
  · simp only [List.mem_singleton] at hw; subst hw; unfold Write.ok; simp only; omega
  · simp only [hp, if_true, List.cons_append, List.nil_append, List.mem_cons, List.not_mem_nil, or_false] at hw
    rcases hw with h1 | h1 | h1 | h1 | h1 <;> (subst h1; unfold Write.ok; simp only; omega)

/-- AIFF COMT: every 16-bit comment length -/
theorem aiff_comt_in_bounds (len : Int) (h0 : 0 ≤ len) : (aiffComt len).safe := by
  unfold Outcome.safe aiffComt
  intro w hw
  simp only [writes_ite] at hw
  simp only [scbuf] at hw
  rcases mem_ite hw with ⟨_, hw⟩ | ⟨h1, hw⟩
  · cases hw
  · simp only [List.mem_cons, List.not_mem_nil, or_false] at hw
    rcases hw with h1 | h1 <;> (subst h1; unfold Write.ok; simp only; omega)

/-- CAF info: every string-area size (the caller guarantees n ≥ 1), on every route -/
theorem caf_info_in_bounds (n : Int) (hn : 1 ≤ n) : (cafInfo n).safe := by
  unfold Outcome.safe cafInfo
  intro w hw
  simp only [writes_ite] at hw
  simp only [headerCap] at hw
  rcases mem_ite hw with ⟨_, hw⟩ | ⟨h1, hw⟩
  · cases hw
  · have hu : u32 n = n := by unfold u32; omega
    have hs : s32 n = n := by unfold s32; omega
    simp only [List.mem_cons, List.not_mem_nil, or_false] at hw
    rcases hw with h1 | h1 <;> (subst h1; unfold Write.ok; simp only [hu, hs]; omega)

/-- CAF chan: every channel count and layout tag: the copy fits the allocation and the layout's table -/
theorem caf_chan_in_bounds (channels tag : Int) (hc : 0 ≤ channels) : (cafChan channels tag).safe := by
  unfold Outcome.safe cafChan
  intro w hw
  have ht : 0 ≤ tag % 256 := Int.emod_nonneg _ (by decide)
  simp only [List.mem_cons, List.not_mem_nil, or_false] at hw
  rcases hw with h1 | h1 <;> (subst h1; unfold Write.ok; simp only; split <;> omega)

/-- non-vacuity: at the boundaries the sites read (with a non-empty variable part) or refuse as the C does -/
example :
    (bext 602).decision = "read" ∧ (bext 16986).vals = [16384] ∧ (bext 16987).decision = "big" ∧ (bext 601).decision = "small" ∧
    (cart 18432).vals = [16384] ∧ (cart 18433).decision = "too-big" ∧ (cart 2047).decision = "small" ∧
    (infoString 2046 12 5000).decision = "read" ∧ (infoString 2047 12 5000).decision = "read" ∧ (infoStringOld 2047 12 5000).decision = "too-big" ∧
    (infoString 4988 12 5000).decision = "read" ∧ (infoString 4989 12 5000).decision = "too-big" ∧ (infoString 102401 12 200000).decision = "skip" ∧
    (infoString 102399 12 200000).decision = "read" ∧ (infoString 4294967295 12 5000).vals = [0] ∧
    (labl 3 16 5000).decision = "too-big" ∧ (labl 10 16 5000).vals = [6] ∧
    (cue 2500 100).vals = [2500, 4] ∧ (cue 2501 100).decision = "skip" ∧
    (smpl 60 1 24).vals = [1, 1] ∧ (smpl 8 40 1000).vals = [16, 42] ∧ (smpl 36 0 0).vals = [0, 0] ∧
    (aiffTextOld 1 8190).decision = "read" ∧ (aiffTextOld 1 8191).decision = "too-big" ∧ (aiffTextOld 0 8191).decision = "read" ∧ (aiffTextOld 2 8190).decision = "too-big" ∧
    (aiffText 2 8190).decision = "read" ∧ (aiffText 0 102400).decision = "read" ∧ (aiffText 0 102401).decision = "too-big" ∧ (aiffComt 8191).decision = "read" ∧ (aiffComt 8192).decision = "error" ∧
    (cafInfo 102400).decision = "read" ∧ (cafInfo 102401).decision = "too-big" ∧ (cafChan 2 0x650002).vals = [2] := by decide

end Sf.C03
