/-
  C03 — the broken-'fmt ' detector of the WAV / RF64 readers (`wavlike_analyze`, `audio_detect`, `vote_for_format`) leaves a sane,
  self-consistent sample layout for EVERY file content: its answer is one of {0, PCM_32, FLOAT}, the format word / bytewidth /
  blockwidth it installs agree with each other (the hypotheses of the read-wrapper clamp), the votes stay far inside `int`, and it
  never reads outside the piece it was given.  Model: SfModel/AudioDetect.lean; correspondence: vlib/c03detect.py (votes per piece from
  the log, outcome line, SF_INFO.format and frames, first items read, on a deterministic family of files through vio / fd / pipe).
-/
-- properties: C03
import SfModel.AudioDetect
namespace Sf.C03AudioDetect
open Sf.AudioDetect

theorem b4_le (c : Bool) : b4 c ≤ 4 := by cases c <;> simp [b4]

theorem step_leFloat (d : List Nat) (k : Nat) (v : Vote) : (step d k v).leFloat = v.leFloat + b4 (cLeFloat d) := rfl

theorem step_leInt_le (d : List Nat) (k : Nat) (v : Vote) : (step d k v).leInt ≤ v.leInt + 8 ∧ v.leInt ≤ (step d k v).leInt := by
  have h1 := b4_le (cInt1 d k); have h2 := b4_le (cInt2 d)
  show v.leInt + b4 (cInt1 d k) + b4 (cInt2 d) ≤ v.leInt + 8 ∧ v.leInt ≤ v.leInt + b4 (cInt1 d k) + b4 (cInt2 d)
  omega

theorem step_beFloat_le (d : List Nat) (k : Nat) (v : Vote) : (step d k v).beFloat ≤ v.beFloat + 4 ∧ (step d k v).beInt = v.beInt := by
  have h1 := b4_le (cBeFloat d)
  refine ⟨?_, rfl⟩
  show v.beFloat + b4 (cBeFloat d) ≤ v.beFloat + 4
  omega

theorem groups_leFloat (d : List Nat) (n k : Nat) (v : Vote) :
    (groups d n k v).leFloat = v.leFloat + n * b4 (cLeFloat d) := by
  induction n generalizing k v with
  | zero => simp [groups]
  | succ n ih => rw [groups, ih, step_leFloat, Nat.succ_mul]; omega

theorem groups_leInt_le (d : List Nat) (n k : Nat) (v : Vote) : (groups d n k v).leInt ≤ v.leInt + 8 * n := by
  induction n generalizing k v with
  | zero => simp [groups]
  | succ n ih => rw [groups]; have := ih (k + 4) (step d k v); have := (step_leInt_le d k v).1; omega

theorem groups_beFloat_le (d : List Nat) (n k : Nat) (v : Vote) :
    (groups d n k v).beFloat ≤ v.beFloat + 4 * n ∧ (groups d n k v).beInt = v.beInt := by
  induction n generalizing k v with
  | zero => simp [groups]
  | succ n ih =>
    rw [groups]; have h := ih (k + 4) (step d k v); have h2 := step_beFloat_le d k v
    exact ⟨by omega, by rw [h.2, h2.2]⟩

/-- **all or nothing**: the little-endian float vote of a piece is 0 or the whole (4-aligned) piece length — as the code is written the
    first four bytes of a piece decide it -/
theorem vote_leFloat_all_or_nothing (d : List Nat) (n : Nat) :
    (voteForFormat d n).leFloat = 0 ∨ (voteForFormat d n).leFloat = 4 * (n / 4) := by
  unfold voteForFormat
  rw [groups_leFloat]
  cases cLeFloat d <;> simp [b4] <;> omega

/-- **the votes are bounded by twice the piece length** (8192 for the 4096-byte piece of the only caller): no `int` overflow for any content -/
theorem vote_bounds (d : List Nat) (n : Nat) :
    (voteForFormat d n).leFloat ≤ n ∧ (voteForFormat d n).leInt ≤ 2 * n ∧ (voteForFormat d n).beFloat ≤ n ∧ (voteForFormat d n).beInt = 0 := by
  have h1 := vote_leFloat_all_or_nothing d n
  have h2 := groups_leInt_le d (n / 4) 0 {}
  have h3 := groups_beFloat_le d (n / 4) 0 {}
  unfold voteForFormat
  unfold voteForFormat at h1
  have e1 : ({} : Vote).leInt = 0 := rfl
  have e2 : ({} : Vote).beFloat = 0 := rfl
  have e3 : ({} : Vote).beInt = 0 := rfl
  refine ⟨by omega, by omega, by omega, by rw [h3.2, e3]⟩

/-- the highest index vote_for_format touches: `k + 1` with k the start of the last group, and the constants 0, 2, 3 -/
theorem vote_in_bounds (n : Nat) (hn : 4 ≤ n) : ∀ g, g < n / 4 → 4 * g + 1 < n ∧ 3 < n := by
  intro g hg; omega

/-- **the answer of audio_detect is 0, PCM_32 or FLOAT** — for every buffer and every length -/
theorem verdict_range (v : Vote) (n : Nat) : verdict v n = 0 ∨ verdict v n = PCM_32 ∨ verdict v n = FLOAT := by
  unfold verdict; split
  · exact Or.inr (Or.inr rfl)
  · split
    · exact Or.inr (Or.inl rfl)
    · exact Or.inl rfl

theorem audioDetect_range (d : List Nat) (n : Nat) : audioDetect d n = 0 ∨ audioDetect d n = PCM_32 ∨ audioDetect d n = FLOAT := by
  unfold audioDetect; split
  · exact Or.inl rfl
  · exact verdict_range _ _

/-- short buffers are never judged -/
theorem audioDetect_short (d : List Nat) (n : Nat) (h : n < 256) : audioDetect d n = 0 := by simp [audioDetect, h]

/-- the thresholds are strict: exactly three quarters of the piece is not enough -/
theorem verdict_threshold_4096 (v : Vote) :
    (verdict v 4096 = FLOAT ↔ v.leFloat ≥ 3073) ∧ (verdict v 4096 = PCM_32 ↔ v.leFloat ≤ 3072 ∧ v.leInt ≥ 3073) := by
  unfold verdict
  have e : (3 * 4096) / 4 = 3072 := by decide
  rw [e]
  constructor
  · constructor
    · intro h; split at h
      · omega
      · split at h <;> simp [PCM_32, FLOAT] at h
    · intro h; simp [show v.leFloat > 3072 by omega]
  · constructor
    · intro h; split at h
      · simp [PCM_32, FLOAT] at h
      · split at h
        · omega
        · simp [PCM_32] at h
    · intro h; simp [show ¬ v.leFloat > 3072 by omega, show v.leInt > 3072 by omega]

/-- **the scan's answer is 0, PCM_32 or FLOAT** for every file content and every number of pieces -/
theorem scan_range (fuel : Nat) (rest : List Nat) :
    (scan fuel rest).1 = 0 ∨ (scan fuel rest).1 = PCM_32 ∨ (scan fuel rest).1 = FLOAT := by
  induction fuel generalizing rest with
  | zero => exact Or.inl rfl
  | succ fuel ih =>
    rw [scan]
    by_cases hp : (List.take PIECE rest).length = PIECE
    · rw [if_pos hp]
      by_cases hf : audioDetect (List.take PIECE rest) PIECE ≠ 0
      · rw [if_pos hf]; dsimp only; exact audioDetect_range (List.take PIECE rest) PIECE
      · rw [if_neg hf]; dsimp only; exact ih (List.drop PIECE rest)
    · rw [if_neg hp]; exact Or.inl rfl

/-- a file that holds fewer than 600 + 4096 bytes is never judged: detection fails whatever it contains -/
theorem scan_short (fuel : Nat) (rest : List Nat) (h : rest.length < PIECE) : scan fuel rest = (0, []) := by
  cases fuel with
  | zero => rfl
  | succ f =>
    rw [scan]
    have : ¬ (List.take PIECE rest).length = PIECE := by rw [List.length_take]; omega
    rw [if_neg this]

theorem install_consistent (lay : Layout) (ch f : Nat) (hl : Consistent lay ch) (hf : f = 0 ∨ f = PCM_32 ∨ f = FLOAT) :
    Consistent (install lay ch f).1 ch := by
  unfold install
  rcases hf with h | h | h
  · simp [h]; exact hl
  · subst h
    have e : (lay.format - lay.format % 65536 + 4) % 65536 = 4 := by omega
    simp [PCM_32, FLOAT, Consistent, widthOf, SUBMASK, PCM_24, e]
  · subst h
    have e : (lay.format - lay.format % 65536 + 6) % 65536 = 6 := by omega
    simp [PCM_32, FLOAT, Consistent, widthOf, SUBMASK, PCM_24, e]

/-- the layout the WAV / RF64 reader holds when it calls the detector is consistent (major has no sub-format bits) -/
theorem brokenLayout_consistent (major ch : Nat) (hm : major % 65536 = 0) : Consistent (brokenLayout major ch) ch := by
  have e : (major + 3) % 65536 = 3 := by omega
  simp [brokenLayout, Consistent, widthOf, SUBMASK, PCM_24, e]

/-- **C03, detector**: whatever the file holds and whichever route it came by, after wavlike_analyze the format word names PCM_24,
    PCM_32 or FLOAT, bytewidth is that encoding's width (non-zero) and blockwidth = channels x bytewidth -/
theorem analyze_consistent (isPipe : Bool) (file : List Nat) (major ch : Nat) (hm : major % 65536 = 0) :
    Consistent (analyze isPipe file ch (brokenLayout major ch)).1 ch := by
  unfold analyze
  cases isPipe
  · simp only [Bool.false_eq_true, if_false]
    exact install_consistent _ _ _ (brokenLayout_consistent major ch hm) (scan_range _ _)
  · simp only [if_true]
    exact brokenLayout_consistent major ch hm

/-- the container bits of the format word survive -/
theorem install_keeps_major (lay : Layout) (ch f : Nat) (hf : f < 65536) :
    (install lay ch f).1.format / 65536 = lay.format / 65536 := by
  unfold install
  split
  · rfl
  · split
    · simp [SUBMASK]; omega
    · split
      · simp [SUBMASK]; omega
      · rfl

/-- **the outcome is never "unhandled" and never PCM_24**: the `case SF_FORMAT_PCM_24` and `default` arms of wavlike_analyze are dead code -/
theorem analyze_outcome (isPipe : Bool) (file : List Nat) (ch : Nat) (lay : Layout) :
    (analyze isPipe file ch lay).2.1 = .pipeRefused ∨ (analyze isPipe file ch lay).2.1 = .failed ∨
    (analyze isPipe file ch lay).2.1 = .found PCM_32 ∨ (analyze isPipe file ch lay).2.1 = .found FLOAT := by
  unfold analyze
  cases isPipe
  · simp only [Bool.false_eq_true, if_false]
    rcases scan_range ((List.drop START file).length / PIECE + 1) (List.drop START file) with h | h | h <;> rw [h] <;> simp [install, PCM_32, FLOAT]
  · simp

/-- a pipe is refused before anything is read: the layout is untouched -/
theorem analyze_pipe (file : List Nat) (ch : Nat) (lay : Layout) : analyze true file ch lay = (lay, .pipeRefused, []) := by simp [analyze]

/-- a file shorter than 600 + 4096 bytes keeps its 24-bit reading -/
theorem analyze_short_file (file : List Nat) (ch : Nat) (lay : Layout) (h : file.length < START + PIECE) :
    analyze false file ch lay = (lay, .failed, []) := by
  unfold analyze
  have hl : (List.drop START file).length < PIECE := by rw [List.length_drop]; simp only [START, PIECE] at h ⊢; omega
  simp [scan_short _ _ hl, install]

/-! non-vacuity: concrete buffers reach each answer (256-byte buffers — the shortest audio_detect judges) -/
example : audioDetect ((List.replicate 64 [1, 0, 0, 0x44]).flatten) 256 = FLOAT := by decide +kernel
example : audioDetect ((List.replicate 64 [0, 7, 0, 0]).flatten) 256 = PCM_32 := by decide +kernel
example : audioDetect ((List.replicate 48 [0, 7, 0, 0]).flatten ++ List.replicate 64 0) 256 = 0 := by decide +kernel
example : audioDetect ((List.replicate 49 [0, 7, 0, 0]).flatten ++ List.replicate 60 0) 256 = PCM_32 := by decide +kernel
example : audioDetect (List.replicate 256 0) 256 = 0 := by decide +kernel
/-- only the first group decides the float vote (as written) -/
example : audioDetect ([1, 0, 0, 0x44] ++ List.replicate 252 0) 256 = FLOAT := by decide +kernel
example : Consistent (analyze false [] 2 (brokenLayout 0x10000 2)).1 2 := analyze_consistent false [] 0x10000 2 (by decide)
example : (install (brokenLayout 0x10000 2) 2 FLOAT).1 = { format := 0x10006, bytewidth := 4, blockwidth := 8 } := by decide

end Sf.C03AudioDetect
