-- properties: C04 C11
/-
  C04 / C11 — the IRCAM container (stand-alone L1 model SfModel/Ircam.lean over SfModel/SmallSession.lean; helpers
  SfProofs/SmallSession.lean, SfProofs/Ircam.lean).  Property theorems only.

  The 1024-byte header holds no length: it is written at open, re-emitted unchanged by header updates, and
  ircam_close writes nothing.  The sample rate is stored as a binary32 number (`rateQ` is the quantiser).
-/
import SfModel.Ircam
import SfProofs.Ircam
namespace Sf.C04Ircam
open Sf Sf.Small Sf.Ircam

/-- the closed bytes of a session: the header, then the audio -/
theorem closedBytes_eq (c : Cfg) (stale : Nat) (ops : List WOp) : closedBytes (spec c) stale ops = hdr c ++ opsData ops := by
  obtain ⟨_, _, _, h⟩ := closed_noheader (spec c) (spec_lenOk c) rfl stale ops
  exact h

theorem snapshotBytes_eq (c : Cfg) (stale : Nat) (ops : List WOp) : snapshotBytes (spec c) stale ops = hdr c ++ opsData ops := by
  obtain ⟨_, _, _, h⟩ := snapshot_any (spec c) (spec_lenOk c) stale ops
  exact h

/-- what C04 asks of a re-open: channels, format word (the byte order is always recorded), the rate after the
    container's binary32 quantisation, frames = audio bytes / block width; `err` when the quantised rate is lost -/
def reopenSpec (c : Cfg) (D : Nat) : ParseRes :=
  match rateQ c.sr with
  | some q => .ok { ch := c.ch, fmt := c.fmtWord, sr := q, frames := D / c.bw }
  | none => .err

theorem reopenSpec_eq (c : Cfg) (D : Nat) :
    reopenSpec c D = if rateBack c.sr < 1 then .err else .ok { ch := c.ch, fmt := c.fmtWord, sr := (rateBack c.sr).toNat, frames := D / c.bw } := by
  unfold reopenSpec rateQ
  by_cases h : rateBack c.sr < 1
  · simp only [h, if_true]
  · simp only [h, if_false]

/-- the class of the repaired defect KF-IRCAM-BE-CHANNELS -/
def KF.beChannels (c : Cfg) : Prop := c.big = true ∧ 128 ≤ c.ch ∧ c.ch ≤ 255
instance (c : Cfg) : Decidable (KF.beChannels c) := by unfold KF.beChannels; infer_instance

/-- the full statement for a reader `p`: every accepted configuration re-opens as `reopenSpec` says -/
def reopenFull (p : List Byte → ParseRes) : Prop :=
  ∀ c : Cfg, c.wf → ∀ (stale : Nat) (ops : List WOp), p (closedBytes (spec c) stale ops) = reopenSpec c (opsData ops).length

def ircam_reopen_full : Prop := reopenFull parse

/-- **ircam_reopen_info** (full strength since the repair of KF-IRCAM-BE-CHANNELS).  For every accepted configuration —
    either byte order, 1..256 channels — and every session the closed file re-opens with the requested channels and
    format word, the rate `rateQ sr`, and frames = audio bytes / block width. -/
theorem ircam_reopen_info (c : Cfg) (hwf : c.wf) (stale : Nat) (ops : List WOp) :
    parse (closedBytes (spec c) stale ops) = reopenSpec c (opsData ops).length := by
  rw [closedBytes_eq, reopenSpec_eq]
  exact parse_hdr c hwf _

theorem ircam_reopen_full_holds : ircam_reopen_full := fun c hwf stale ops => ircam_reopen_info c hwf stale ops

/-- **ircam_be_channels_old_rule.**  With the byte-order guess of before the repair ("channels > SF_MAX_CHANNELS read
    little-endian ⇒ big-endian") a big-endian file with 128..255 channels could not be re-opened, whatever was written:
    read little-endian the count is a negative int. -/
theorem ircam_be_channels_old_rule (c : Cfg) (hwf : c.wf) (hk : KF.beChannels c) (stale : Nat) (ops : List WOp) :
    parseOld (closedBytes (spec c) stale ops) = .err ∧ parseOld (snapshotBytes (spec c) stale ops) = .err := by
  rw [closedBytes_eq, snapshotBytes_eq]
  exact ⟨parseOld_hdr_be_missed c hwf hk.1 hk.2 _, parseOld_hdr_be_missed c hwf hk.1 hk.2 _⟩

/-- … and outside that class the old reader did what the current one does -/
theorem ircam_reopen_info_old_rule (c : Cfg) (hwf : c.wf) (hk : ¬ KF.beChannels c) (stale : Nat) (ops : List WOp) :
    parseOld (closedBytes (spec c) stale ops) = reopenSpec c (opsData ops).length := by
  rw [closedBytes_eq, reopenSpec_eq]
  exact parseOld_hdr c hwf hk _

def exBad : Cfg := ⟨0x02, 2, 128, 44100⟩

/-- the full statement failed for the old reader: 128 channels big-endian at 44100 Hz is the witness -/
theorem ircam_reopen_full_old_rule_fails : ¬ reopenFull parseOld := by
  intro h
  have h1 := h exBad (by decide) 0 []
  rw [(ircam_be_channels_old_rule exBad (by decide) (by decide) 0 []).1] at h1
  revert h1; decide +kernel

-- the witness of the repaired defect re-opens now
example : parse (closedBytes (spec exBad) 0 []) = .ok ⟨128, 0x200A0002, 44100, 0⟩ := by
  rw [ircam_reopen_info exBad (by decide)]; decide +kernel

def exCfg : Cfg := ⟨0x06, 2, 2, 44100⟩
def exLe : Cfg := ⟨0x10, 0, 3, 16777217⟩
def exOps : List WOp := [.write [0, 1, 0, 2, 0, 3, 0, 4] false, .update, .write [0, 1, 0, 2, 0, 3, 0, 4, 0, 1, 0, 2, 0, 3, 0, 4] true]

example : exCfg.wf ∧ reopenSpec exCfg 24 = .ok ⟨2, 0x200A0006, 44100, 3⟩ ∧
    exLe.wf ∧ reopenSpec exLe 7 = .ok ⟨3, 0x100A0010, 16777216, 2⟩ := by decide +kernel
example : KF.beChannels exBad ∧ exBad.wf := by decide

/-! ### the rate quantiser -/

/-- what C04 asks of a rate rule `q`: every rate a caller may pass re-opens as some positive rate -/
def rateFull (q : Nat → Option Nat) : Prop := ∀ sr : Nat, 1 ≤ sr → sr ≤ 0x7FFFFFFF → q sr ≠ none

def ircam_rate_full : Prop := rateFull rateQ

/-- the class of the repaired defect KF-C10-ircam-rate -/
def KF.rateLost (sr : Nat) : Prop := 2 ^ 31 - 64 ≤ sr
instance (sr : Nat) : Decidable (KF.rateLost sr) := by unfold KF.rateLost; infer_instance

/-- **ircam_rate_old_rule.**  Without the cap in the writer, 2^31 − 1 Hz (and 2^31 − 64 Hz, the first rate of the class)
    rounds to 2^31 as a float and comes back as INT_MIN: the full statement failed -/
theorem ircam_rate_old_rule : rateQOld (2 ^ 31 - 64) = none ∧ rateQOld (2 ^ 31 - 1) = none ∧ ¬ rateFull rateQOld := by
  refine ⟨by decide +kernel, by decide +kernel, fun h => h (2 ^ 31 - 1) (by decide) (by decide) (by decide +kernel)⟩

/-- boundary values of the quantiser: exact up to 2^24, round-to-nearest-even above, capped at 2^31 − 128 from
    2^31 − 64 on (the class of the repaired KF-C10-ircam-rate); outside the class the old rule gave the same -/
theorem ircam_rate_boundaries :
    rateQ 1 = some 1 ∧ rateQ 44100 = some 44100 ∧ rateQ (2 ^ 24) = some (2 ^ 24) ∧ rateQ (2 ^ 24 + 1) = some (2 ^ 24) ∧
    rateQ (2 ^ 24 + 3) = some (2 ^ 24 + 4) ∧ rateQ (2 ^ 31 - 65) = some (2 ^ 31 - 128) ∧ rateQ (2 ^ 31 - 64) = some (2 ^ 31 - 128) ∧
    rateQ (2 ^ 31 - 1) = some (2 ^ 31 - 128) ∧ KF.rateLost (2 ^ 31 - 64) ∧ ¬ KF.rateLost (2 ^ 31 - 65) ∧
    rateQOld (2 ^ 31 - 65) = rateQ (2 ^ 31 - 65) ∧ rateQOld (2 ^ 24 + 3) = rateQ (2 ^ 24 + 3) := by decide +kernel

/-! ### sizes, frames, the caller's frames field, header updates -/

/-- **ircam_size_fields.**  The header holds no length field; the file is 1024 header bytes plus the audio. -/
theorem ircam_size_fields (c : Cfg) (stale : Nat) (ops : List WOp) :
    (closedBytes (spec c) stale ops).length = 1024 + (opsData ops).length ∧
    (closedBytes (spec c) stale ops).take 1024 = hdr c := by
  rw [closedBytes_eq]
  exact ⟨by rw [List.length_append, hdr_length]; rfl, List.take_left' (hdr_length c)⟩

/-- **ircam_frames_bound.**  N whole frames written: the re-opened count is exactly N (when the file re-opens). -/
theorem ircam_frames_bound (c : Cfg) (hwf : c.wf) (stale : Nat) (ops : List WOp) (N q : Nat)
    (hN : (opsData ops).length = N * c.bw) (hq : rateQ c.sr = some q) :
    ∃ F, parse (closedBytes (spec c) stale ops) = .ok { ch := c.ch, fmt := c.fmtWord, sr := q, frames := F } ∧ N ≤ F ∧ F < N + 1 := by
  refine ⟨N, ?_, Nat.le_refl _, Nat.lt_succ_self _⟩
  have hbw : 0 < c.bw := by
    obtain ⟨_, h1, _⟩ := cfg_cases c hwf
    unfold Cfg.bw Cfg.bytewidth; split <;> (try split) <;> omega
  rw [ircam_reopen_info c hwf, hN]
  unfold reopenSpec
  rw [hq, Nat.mul_div_cancel _ hbw]

/-- **stale_frames_ignored_ircam.**  No byte of an IRCAM file depends on the frames value the caller left in
    SF_INFO: not the image after open, not a header-update image, not the closed file. -/
theorem stale_frames_ignored_ircam (c : Cfg) (a b : Nat) (ops : List WOp) :
    closedBytes (spec c) a ops = closedBytes (spec c) b ops ∧ snapshotBytes (spec c) a ops = snapshotBytes (spec c) b ops ∧
    (openW (spec c) a).bytes = (openW (spec c) b).bytes := by
  rw [closedBytes_eq, closedBytes_eq, snapshotBytes_eq, snapshotBytes_eq]
  exact ⟨rfl, rfl, rfl⟩

example : closedBytes (spec exCfg) 0 exOps = closedBytes (spec exCfg) 123456 exOps := by
  rw [closedBytes_eq, closedBytes_eq]

/-- **ircam_snapshot_valid** (C11).  After any session prefix, the image a header update leaves in the store is the
    header followed by exactly the audio written so far, and it parses like a closed file
    of that length. -/
theorem ircam_snapshot_valid (c : Cfg) (hwf : c.wf) (stale : Nat) (ops : List WOp) :
    parse (snapshotBytes (spec c) stale ops) = reopenSpec c (opsData ops).length ∧
    snapshotBytes (spec c) stale ops = closedBytes (spec c) stale ops := by
  refine ⟨?_, by rw [snapshotBytes_eq, closedBytes_eq]⟩
  rw [snapshotBytes_eq, ← closedBytes_eq c stale ops]
  exact ircam_reopen_info c hwf stale ops

example : parse (snapshotBytes (spec exLe) 7 [.write [1, 2, 3, 4, 5, 6] false]) = .ok ⟨3, 0x100A0010, 16777216, 2⟩ := by
  rw [(ircam_snapshot_valid exLe (by decide) 7 _).1]; decide +kernel

end Sf.C04Ircam
