/-
  C11 — after a header update the bytes on disk are already a valid file (crash points).
  Property theorems only (helpers: SfProofs/Container*.lean).  Containers with a rewritable header whose bytes
  are modelled: AU, WAV (RAW has no header: its store is always exactly the audio written so far).

  A crash point is the instant after `stepCmdFlag h s 0x1060 0` (SFC_UPDATE_HEADER_NOW) returns, or after a
  write call returns while SFC_SET_UPDATE_HEADER_AUTO is on.  The snapshot is the store's byte list at that
  instant; "a reader opening a copy" is `openHandle … .r` on those bytes in another store.
  N_k = `sessFrames` of the operations so far.  All encodings here are sample-granular, so no rounding to
  blocks occurs (`C04.floor_bound` is the arithmetic for block codecs).
-/
import SfProofs.ContainerSnap
namespace Sf.C11
open Sf

/-! ### explicit update -/

/-- AU: after any valid session so far and SFC_UPDATE_HEADER_NOW, the store parses with the same parameters,
    a reader reports frames = N_k, and the data region is exactly the encoded audio written so far -/
theorem snapshot_valid_au (ix fmt : Nat) (ch sr : Int) (h0 : H) (s0 : Store) (ops : List SOp)
    (hc : containerOf fmt = some .au) (ho : openHandle ix {} .w fmt ch sr = .ok h0 s0)
    (hsr : sr ≤ 0x7FFFFFFF) (hv : ∀ op ∈ ops, op.valid ch.toNat) :
    let cur := runS (h0, s0) ops
    let snap := (stepCmdFlag cur.1 cur.2 0x1060 0).2.1.bytes
    ∃ p c, auParse snap = .ok p ∧ openCfg fmt ch sr = some c ∧ (p.ch : Int) = ch ∧ p.sr = sr ∧
      p.fmtWord = (if dataBig .au fmt then 0 else 0x10000000) + 0x030000 + codecOf fmt ∧ p.dataoffset = 24 ∧
      snap.drop 24 = sessData c ops ∧
      ∀ (ix' pos fmt0 : Nat) (ch0 sr0 : Int), containerOf fmt0 ≠ some .raw →
        ∃ h' s', openHandle ix' ⟨snap, pos⟩ .r fmt0 ch0 sr0 = .ok h' s' ∧ h'.frames = sessFrames ch.toNat ops ∧
          (h'.ch : Int) = ch ∧ h'.sr = sr ∧ h'.fmtWord = p.fmtWord ∧ h'.enc = c.enc ∧ s'.pos = 24 := by
  intro cur snap
  obtain ⟨c, hcfg, h1, h2, h3, i⟩ := session_inv ops ho hv
  have hsnap : snap = snapImage c (c.init.run c ops) := (stepUpdate_inv i).2
  have hch := (openCfg_facts hcfg).2.2.2.1
  obtain ⟨p, hp, p1, p2, p3, p4, p5, p6⟩ := au_snapshot (c.init.run c ops) hcfg hc h1 h2 h3 hsr i.dlen
  rw [← hsnap] at hp p5 p6
  refine ⟨p, c, hp, hcfg, p1, p2, p3, p4, by rw [p5, run_data]; simp [Cfg.init], ?_⟩
  intro ix' pos fmt0 ch0 sr0 hraw
  obtain ⟨h', s', q1, q2, q⟩ := p6 ix' pos fmt0 ch0 sr0 hraw
  exact ⟨h', s', q1, by rw [q2, run_frames, hch]; simp [Cfg.init], q⟩

/-- WAV: the same, under the RIFF guard (snapshot shorter than 2^32 bytes).  No pad byte exists yet, and for an
    odd-length data chunk the reader still reports N_k (`initFrames` uses the file length, not the padded
    chunk size). -/
theorem snapshot_valid_wav (ix fmt : Nat) (ch sr : Int) (h0 : H) (s0 : Store) (ops : List SOp)
    (hc : containerOf fmt = some .wav) (ho : openHandle ix {} .w fmt ch sr = .ok h0 s0)
    (hsr : sr ≤ 0x7FFFFFFF) (hv : ∀ op ∈ ops, op.valid ch.toNat)
    (hguard : (stepCmdFlag (runS (h0, s0) ops).1 (runS (h0, s0) ops).2 0x1060 0).2.1.bytes.length < 2 ^ 32) :
    let cur := runS (h0, s0) ops
    let snap := (stepCmdFlag cur.1 cur.2 0x1060 0).2.1.bytes
    ∃ p c, wavParse snap = .ok p ∧ openCfg fmt ch sr = some c ∧ (p.ch : Int) = ch ∧ p.sr = sr ∧
      p.fmtWord = (if dataBig .wav fmt then 0x20000000 else 0) + 0x010000 + codecOf fmt ∧ p.dataoffset = c.hdrLen ∧
      snap.drop c.hdrLen = sessData c ops ∧
      ∀ (ix' pos fmt0 : Nat) (ch0 sr0 : Int), containerOf fmt0 ≠ some .raw →
        ∃ h' s', openHandle ix' ⟨snap, pos⟩ .r fmt0 ch0 sr0 = .ok h' s' ∧ h'.frames = sessFrames ch.toNat ops ∧
          (h'.ch : Int) = ch ∧ h'.sr = sr ∧ h'.fmtWord = p.fmtWord ∧ h'.enc = c.enc ∧ s'.pos = c.hdrLen := by
  intro cur snap
  obtain ⟨c, hcfg, h1, h2, h3, i⟩ := session_inv ops ho hv
  have hsnap : snap = snapImage c (c.init.run c ops) := (stepUpdate_inv i).2
  have hch := (openCfg_facts hcfg).2.2.2.1
  obtain ⟨p, hp, p1, p2, p3, p4, p5, p6⟩ :=
    wav_snapshot (c.init.run c ops) hcfg hc h1 h2 h3 hsr i.dlen i.pkLen i.pkSome (by rw [← hsnap]; exact hguard)
  rw [← hsnap] at hp p5 p6
  refine ⟨p, c, hp, hcfg, p1, p2, p3, p4, by rw [p5, run_data]; simp [Cfg.init], ?_⟩
  intro ix' pos fmt0 ch0 sr0 hraw
  obtain ⟨h', s', q1, q2, q⟩ := p6 ix' pos fmt0 ch0 sr0 hraw
  exact ⟨h', s', q1, by rw [q2, run_frames, hch]; simp [Cfg.init], q⟩

/-! ### auto mode: every write call ends in a crash point -/

/-- in auto-update mode the store after a write call that transferred something is byte for byte the store an
    explicit SFC_UPDATE_HEADER_NOW would leave — so `snapshot_valid_au` / `snapshot_valid_wav` apply to it
    (RAW, AU, WAV) -/
theorem auto_write_is_snapshot (ix fmt : Nat) (ch sr : Int) (h0 : H) (s0 : Store) (ops : List SOp) (w : WCall)
    (ho : openHandle ix {} .w fmt ch sr = .ok h0 s0)
    (hv : ∀ op ∈ ops, op.valid ch.toNat) (hw : w.valid ch.toNat) (hn : w.n ≠ 0)
    (hauto : (runS (h0, s0) ops).1.autoHeader = true) :
    let after := runS (h0, s0) (ops ++ [.write w])
    after.2.bytes = (stepCmdFlag after.1 after.2 0x1060 0).2.1.bytes := by
  intro after
  obtain ⟨c, hcfg, h1, h2, h3, i⟩ := session_inv ops ho hv
  have hch := (openCfg_facts hcfg).2.2.2.1
  have hrun : after = stepS (runS (h0, s0) ops) (.write w) := by simp [after, runS, List.foldl_append]
  have ha : (c.init.run c ops).auto = true := by rw [← i.auto]; exact hauto
  obtain ⟨i2, hb⟩ := stepWrite_inv i w (by rw [hch]; exact hw)
  rw [hrun]
  rw [hb ha hn]
  exact (stepUpdate_inv i2).2.symm

/-! ### updates never change the audio -/

/-- final closed bytes are the same with and without interleaved header updates (explicit or automatic) — for
    every session on RAW, AU and WAV.  (The real library's XI writer is the known witness against the general
    statement; XI is not among the modelled containers.) -/
theorem updates_dont_change_audio (ix fmt : Nat) (ch sr : Int) (h0 : H) (s0 : Store) (ops : List SOp)
    (ho : openHandle ix {} .w fmt ch sr = .ok h0 s0) (hv : ∀ op ∈ ops, op.valid ch.toNat) :
    (closeHandle (runS (h0, s0) ops).1 (runS (h0, s0) ops).2).bytes =
    (closeHandle (runS (h0, s0) (stripUpdates ops)).1 (runS (h0, s0) (stripUpdates ops)).2).bytes :=
  close_strip ops ho hv

/-! ### non-vacuity -/

/-- a WAV µ-law session with an odd number of bytes at the crash point, in auto mode -/
def exOps : List SOp := [.auto true, .write ⟨.s16, true, 2, [0, 1000]⟩, .write ⟨.s16, true, 1, [-1000]⟩]
def snapOf (fmt : Nat) (ch sr : Int) (ops : List SOp) : Option (List Byte) :=
  match openHandle 0 {} .w fmt ch sr with
  | .ok h s => some (stepCmdFlag (runS (h, s) ops).1 (runS (h, s) ops).2 0x1060 0).2.1.bytes
  | _ => none

example : (openHandle 0 {} .w 0x010010 1 8000).isOk_ct = true ∧ (∀ op ∈ exOps, op.valid 1) ∧
    (snapOf 0x010010 1 8000 exOps).map List.length = some 61 ∧
    (snapOf 0x010010 1 8000 exOps).bind (reopenFrames ·) = some 3 ∧
    snapOf 0x010010 1 8000 exOps = sessionStore 0 0x010010 1 8000 exOps := by decide
example : (openHandle 0 {} .w 0x030002 2 44100).isOk_ct = true ∧
    (snapOf 0x030002 2 44100 [.write ⟨.s16, true, 1, [1, -2]⟩]).bind (reopenFrames ·) = some 1 := by decide
example : sessionBytes 0 0x010010 1 8000 exOps = sessionBytes 0 0x010010 1 8000 (stripUpdates exOps) ∧
    (sessionBytes 0 0x010010 1 8000 exOps).map List.length = some 62 := by decide

end Sf.C11
