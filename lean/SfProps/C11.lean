/- C11 — container theorems are being merged (SfProofs/Container*.lean); meanwhile the handle-level facts this property rests on -/
import SfProofs.CodecFile
namespace Sf.C11
open Sf
/-- a zero-length write returns 0 and changes neither handle nor store -/
theorem write_zero (h : H) (s : Store) (ty : Ty) (fc : Bool) (d : List Int) : stepWrite h s ty fc 0 d = (h, s, { ret := 0, err := h.error }) := by
  simp [stepWrite]
end Sf.C11
