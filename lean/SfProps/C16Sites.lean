/-
  C16, allocation sites — theorems tying the site table (SfModel/LedgerSites.lean: every calloc / malloc / realloc / open / tmpfile of
  the open, header-parse, init and close functions, with its owner) to the ledger theorems of SfProps/C16.lean.
-/
import SfProofs.Ledger
import SfModel.LedgerSites
import SfProps.C16
namespace Sf.C16Sites
open Sf.Ledger Sf.LedgerSites Sf.C16

/-- **site_released.**  Every cell of every row of the site table is released by psf_close's program on any handle that satisfies the handle
    invariant (owner pointers not dangling, nested blocks only under an installed hook) — whichever owner the row names. -/
theorem site_released (st : Site) (_ : st ∈ sites) (c : Cell) (_ : st.cell = some c) (s : S) (hI : Inv s) :
    (releaseAll s).1.cell c ≠ .live := releaseAll_no_live hI c

/-- the rows whose owner is a close hook are exactly the cells the invariant guards by "the hook is installed" -/
theorem hook_cells : hookCells = [.nested .alacTmp, .nested .aiffMarkstr, .nested .gsmState, .nested .g72xState, .nested .alacPakt,
    .nested .alacTmp, .tmpFd, .tmpDisk] := by decide

/-- every nested block of the ledger has a row -/
theorem nested_all_listed : ∀ n ∈ Nested.all, Cell.nested n ∈ siteCells := by decide

/-- **failed_open_clean_at_every_point.**  For every open program (any route, mode, container, codec class, any list of header-parse
    events) and EVERY failure point k — after 0, 1, 2, … allocation steps — the failing open leaves the ledger empty. -/
theorem failed_open_clean_at_every_point (c : OpenCfg) (k : Nat) : Empty (run {} [.open { c with failAt := some k }]) :=
  close_releases_all_after_failed_open [] { c with failAt := some k } k rfl rfl

/-- **close_on_failing_io_releases_all.**  sf_close releases everything whether or not the I/O it does succeeds: for every history. -/
theorem close_on_failing_io_releases_all (ops : List Op) : Empty (run {} (ops ++ [.close false])) :=
  close_releases_all_after_close ops false

/-- … and the two closes hold the same things (nothing) afterwards -/
theorem close_io_independent (ops : List Op) (k : Kind) :
    (run {} (ops ++ [.close false])).held k = (run {} (ops ++ [.close true])).held k := by
  rw [close_releases_all_after_close ops false k, close_releases_all_after_close ops true k]

def aiffMarkR : OpenCfg := { route := .vio, mode := .r, cont := .aiff, evs := [.chunkRec, .mark, .cue] }

/-- **late_hook_rule_leaks.**  With aiff_close installed behind the header parser, an AIFF file with a MARK chunk that is rejected inside
    the parser (failure point 2: container data allocated, header parsed, hook not yet installed) loses one heap block; with the hook
    installed where aiff.c installs it, nothing is lost at that failure point or any other. -/
theorem late_hook_rule_leaks :
    (failedOpenLateHook aiffMarkR 2).leakedHeap = 1 ∧ (failedOpenLateHook aiffMarkR 3).leakedHeap = 0 ∧
    ∀ k, (run {} [.open { aiffMarkR with failAt := some k }]).a.leakedHeap = 0 := by
  refine ⟨by decide, by decide, fun k => ?_⟩
  exact (close_releases_all [.open { aiffMarkR with failAt := some k }]).1

-- non-vacuity: the failing open really holds things before it fails (3 steps of the AIFF program: data, hook, parse with MARK + cues)
example : (runSteps aiffMarkR ((openSteps aiffMarkR).take 3) (allocate aiffMarkR {})).1.liveOf .heap = 6 := by decide
example : siteCells.length + 5 = sites.length ∧ 50 < sites.length := by decide
example : Empty (run {} [.open C16.alacW, .write true, .close false]) := close_on_failing_io_releases_all [.open C16.alacW, .write true]

end Sf.C16Sites
