/-
  The repair of KF-SVX-BODY-PAD (src/svx.c, BODY case: `psf->dataend` is recorded when the file goes on behind the chunk): bytes
  behind the BODY chunk of an 8SVX / 16SV file -- the pad byte IFF demands behind a chunk of odd length, further chunks -- are not audio.
  `Sf.Svx.parse` is the repaired reader, `Sf.Svx.parseOld` the rule before (lean/SfModel/Svx.lean `stepW fx`).
-- properties: C05 C06
-/
import SfModel.Svx
namespace Sf.C05SvxPad
open Sf Sf.Small Sf.Svx

/-- the frame count the codec init derives: with `dataend` recorded it is the length of the BODY chunk, whatever follows it -/
theorem frames_from_body (flen : Nat) (dataoffset L : Nat) (bw : Nat) (hb : 0 < bw) (hd : dataoffset + L < flen) (hL : 0 < dataoffset + L) :
    (codecFrames flen dataoffset ((dataoffset + L : Nat) : Int) bw).2 = ((L : Int)).tdiv bw := by
  unfold codecFrames
  have h1 : (flen : Int) > (dataoffset : Int) := by omega
  have h2 : ((dataoffset + L : Nat) : Int) > 0 := by omega
  have h3 : (bw : Int) > 0 := by omega
  simp only [h1, h2, h3, if_true]
  congr 1
  omega

/-- before the repair the count came from the file length: every byte behind the chunk was one more 8-bit mono frame -/
theorem frames_from_file_length_old_rule (flen : Nat) (dataoffset : Nat) (hd : dataoffset < flen) :
    (codecFrames flen dataoffset 0 1).2 = (flen : Int) - dataoffset := by
  unfold codecFrames
  have h1 : (flen : Int) > (dataoffset : Int) := by omega
  simp [h1]

/-- the witness of findings/kf_svx_body_pad.txt: three frames and the IFF pad byte -/
def padFile : List Byte :=
  [0x46, 0x4f, 0x52, 0x4d, 0, 0, 0, 0x60, 0x38, 0x53, 0x56, 0x58, 0x56, 0x48, 0x44, 0x52, 0, 0, 0, 0x14, 0, 0, 0, 3, 0, 0, 0, 0, 0, 0, 0, 0,
   0x1f, 0x40, 1, 0, 0, 0, 0, 0xff, 0x4e, 0x41, 0x4d, 0x45, 0, 0, 0, 2, 0, 0, 0x41, 0x4e, 0x4e, 0x4f, 0, 0, 0, 0x22,
   0x6c, 0x69, 0x62, 0x73, 0x6e, 0x64, 0x66, 0x69, 0x6c, 0x65, 0x20, 0x62, 0x79, 0x20, 0x45, 0x72, 0x69, 0x6b, 0x20, 0x64, 0x65, 0x20, 0x43, 0x61,
   0x73, 0x74, 0x72, 0x6f, 0x20, 0x4c, 0x6f, 0x70, 0x6f, 0, 0x42, 0x4f, 0x44, 0x59, 0, 0, 0, 3, 0x11, 0x22, 0x33, 0]

/-- full strength on the witness: the repaired reader reports the three frames of the BODY chunk -/
theorem svx_pad_byte_is_not_audio : parse padFile = .ok ⟨1, 0x060001, 8000, 3⟩ := by decide +kernel

/-- the rule before the repair counted the pad byte as a fourth frame -/
theorem svx_pad_byte_old_rule : parseOld padFile = .ok ⟨1, 0x060001, 8000, 4⟩ := by decide +kernel

/-- a file that ends with its BODY chunk (what the library writes) reads the same under both rules -/
theorem svx_unpadded_same : parse (padFile.take 103) = parseOld (padFile.take 103) ∧ parse (padFile.take 103) = .ok ⟨1, 0x060001, 8000, 3⟩ := by
  decide +kernel

/-! non-vacuity of the two arithmetic statements -/
example : (codecFrames 104 100 ((100 + 3 : Nat) : Int) 1).2 = 3 := by decide
example : (codecFrames 104 100 0 1).2 = 4 := by decide

end Sf.C05SvxPad
