/-
  C14 — a header block too big for the header cache (more than 100 KiB in front of the audio: JUNK / bext / unknown chunk, AIFF ANNO
  or SSND offset, AU annotation) is skipped with lseek on the seekable routes and with a read-and-discard loop on a pipe; both land
  on the same byte of the logical file, so the first audio read delivers the same samples.  Model: SfModel/RoutesBigSkip.lean; the
  campaign slice that ties it to header_seek is vlib/bigskip.py (sizes around the cap and around multiples of the 16 KiB buffer).
-/
import SfModel.RoutesBigSkip
import SfProps.C14
namespace Sf.C14BigSkip
open Sf Sf.Routes Sf.RoutesBigSkip Sf.C14

/-- one read of `k` bytes that lie inside the logical file advances it by `k` -/
theorem abs_read_inside (a : Abs) (k : Nat) (hk : 0 < k) (hin : a.pos + k ≤ a.content.length) :
    (absStep a (.read 1 (k : Int))).2 = { a with pos := a.pos + k } := by
  have hlen : (readAt a.content a.pos k).length = k := by
    simp [readAt, List.length_take, List.length_drop]; omega
  have h1 : ¬ ((1 : Int) = 0 ∨ (k : Int) = 0) := by omega
  have h2 : ¬ ((k : Int) ≤ 0) := by omega
  simp only [absStep, h1, if_false, Int.one_mul, Int.toNat_natCast, hlen]
  rw [if_neg h2]

/-- **the loop consumes exactly the gap** (any scratch-buffer size p > 0, any fuel ≥ gap): on the logical file it lands `gap`
    bytes further on -/
theorem junk_loop_lands (p : Nat) (hp : 0 < p) : ∀ (fuel gap : Nat) (a : Abs), gap ≤ fuel → a.pos + gap ≤ a.content.length →
    (absRun a (junkReadsP p fuel gap)).2 = { a with pos := a.pos + gap }
  | 0, gap, a, hf, _ => by
    have : gap = 0 := by omega
    subst this; simp [junkReadsP, junkLoop, absRun]
  | fuel + 1, gap, a, hf, hin => by
    by_cases hg : gap = 0
    · subst hg; simp [junkReadsP, junkLoop, absRun]
    · have hk : 0 < min gap p := by omega
      have hkin : a.pos + min gap p ≤ a.content.length := by omega
      have hstep := abs_read_inside a (min gap p) hk hkin
      have ih := junk_loop_lands p hp fuel (gap - min gap p) { a with pos := a.pos + min gap p } (by omega) (by simp; omega)
      simp only [junkReadsP] at ih ⊢
      simp only [junkLoop, hg, if_false, decBytes, absRun, hstep]
      rw [ih]
      have : a.pos + min gap p + (gap - min gap p) = a.pos + gap := by omega
      simp [this]

/-- the bytes the loop asks the stream for add up to the gap: nothing of the audio data is swallowed -/
theorem junk_loop_asks_gap (p : Nat) (hp : 0 < p) : ∀ (fuel gap : Nat), gap ≤ fuel → asked (junkReadsP p fuel gap) = gap
  | 0, gap, hf => by
    have : gap = 0 := by omega
    subst this; simp [junkReadsP, junkLoop, asked]
  | fuel + 1, gap, hf => by
    by_cases hg : gap = 0
    · subst hg; simp [junkReadsP, junkLoop, asked]
    · have ih := junk_loop_asks_gap p hp fuel (gap - min gap p) (by omega)
      simp only [junkReadsP] at ih ⊢
      simp only [junkLoop, hg, if_false, decBytes, asked, ih, Int.one_mul, Int.toNat_natCast]
      omega

theorem junkReads_lands (a : Abs) (gap : Nat) (hin : a.pos + gap ≤ a.content.length) :
    (absRun a (junkReads gap)).2 = { a with pos := a.pos + gap } :=
  junk_loop_lands PIECE (by decide) gap gap a (Nat.le_refl _) hin

/-- the seekable branch lands on the same byte -/
theorem seekCur_lands (a : Abs) (gap : Nat) : (absRun a (seekCur gap)).2 = { a with pos := a.pos + gap } := by
  have h0 : ¬ (2 < 1) := by omega
  have h3 : ¬ ((a.pos : Int) + (gap : Int) < 0) := by omega
  simp only [seekCur, absRun, absStep, whBase, h0, if_false]
  simp only [show ((1 : Nat) = 0) = False from by simp, if_false, if_true]
  rw [if_neg h3]
  have hn : ((a.pos : Int) + (gap : Int)).toNat = a.pos + gap := by omega
  simp [hn]

/-- **route independence of the uncached skip**: pipe branch and seek branch reach the same state of the logical file -/
theorem big_skip_branches_agree (a : Abs) (gap : Nat) (hin : a.pos + gap ≤ a.content.length) :
    (absRun a (junkReads gap)).2 = (absRun a (seekCur gap)).2 := by
  rw [junkReads_lands a gap hin, seekCur_lands]

/-- a sequential reader may issue the loop and the audio read -/
theorem opsPipe_reads : ∀ (ops : List Op) (a : Abs), (∀ op ∈ ops, ∃ b i, op = .read b i) → OpsPipe a ops
  | [], _, _ => trivial
  | op :: ops, a, h => by
    obtain ⟨b, i, rfl⟩ := h _ (List.mem_cons_self ..)
    exact ⟨rfl, opsPipe_reads ops _ (fun o ho => h o (List.mem_cons_of_mem _ ho))⟩

theorem junkLoop_reads (dec : Nat → Nat) (p : Nat) : ∀ (fuel skip : Nat), ∀ op ∈ junkLoop dec p fuel skip, ∃ b i, op = .read b i
  | 0, _, op, h => by simp [junkLoop] at h
  | fuel + 1, skip, op, h => by
    by_cases hs : skip = 0
    · simp [junkLoop, hs] at h
    · simp only [junkLoop, hs, if_false, List.mem_cons] at h
      rcases h with rfl | h
      · exact ⟨_, _, rfl⟩
      · exact junkLoop_reads dec p fuel _ op h

/-- **pipe**: the read-and-discard loop followed by the first audio read observes on a non-seekable descriptor exactly what the
    logical file gives — for every gap and every read size -/
theorem pipe_big_skip_first_audio (sh : Shim) (w : World) (a : Abs) (h : RelPipe sh w a) (gap m : Nat) :
    (run sh w (firstAudioPipe gap m)).1 = (absRun a (firstAudioPipe gap m)).1 := by
  apply pipe_equivalent _ sh w a h
  apply opsPipe_reads
  intro op hop
  simp only [firstAudioPipe, junkReads, junkReadsP, List.mem_append, List.mem_singleton] at hop
  rcases hop with hop | rfl
  · exact junkLoop_reads _ _ _ _ op hop
  · exact ⟨_, _, rfl⟩

/-- 2 header bytes consumed, a gap of 5 bytes, the audio 1, 2, 3, 4; scratch buffer of 2 bytes so that the loop turns three times -/
def demoAbs : Abs := ⟨[9, 9, 7, 7, 7, 7, 7, 1, 2, 3, 4], 2⟩

/-- the loop as the code has it and the loop that subtracts the ITEM count of an `fread (buf, to_skip, 1, f)`: the second one asks
    for 9 bytes where the gap has 5 and the audio read behind it finds nothing left -/
theorem items_not_bytes_swallows_the_audio :
    asked (junkLoop decBytes 2 5 5) = 5 ∧ asked (junkLoop decItems 2 5 5) = 9 ∧
    (absRun demoAbs (junkLoop decBytes 2 5 5 ++ [.read 1 4])).1.getLast? = some (4, [1, 2, 3, 4]) ∧
    (absRun demoAbs (junkLoop decItems 2 5 5 ++ [.read 1 4])).1.getLast? = some (0, []) := by
  refine ⟨by decide, by decide, by decide, by decide⟩

/-- non-vacuity: a gap beyond the cache limit inside a file that is long enough; the cap decision at its boundary -/
example : cached 44 (CAP - 44) = true ∧ cached 44 (CAP - 43) = false ∧ (junkReads (7 * PIECE + 1)).length = 8 := by
  refine ⟨by decide, by decide, ?_⟩
  decide

end Sf.C14BigSkip
