-- properties: C04 C11
/-
  C04 / C11 — RF64 files (SfModel/Rf64.lean), write side: the two header forms, and what the model shows about them.
  The session model is tied to the code by the correspondence (every store snapshot of every session compared);
  the theorems here are the length facts and the proved witnesses of two defects of the unchanged writer.
-/
import SfModel.Rf64
import SfProofs.WavexSession
namespace Sf.C04Rf64
open Sf Sf.Rf64

theorem le_length (n : Nat) (v : Int) : (le n v).length = n := Wavex.u_length false n v

/-- both header forms have a fixed length: 104 bytes (RF64 with 'ds64') and 112 bytes (RIFF with 'JUNK' and 'fact') -/
theorem rf64_header_length (c : Cfg) (dg : Bool) (fl dl fr : Int) :
    (hdrRaw c dg fl dl fr).length = if riffForm dg fl then 112 else 104 := by
  obtain ⟨g1, _, g3, g4, g5, _, g7⟩ := Wavex.mk_lengths
  have q : (Wavex.mk "RF64").length = 4 ∧ (Wavex.mk "ds64").length = 4 ∧ (Wavex.mk "JUNK").length = 4 := by decide
  unfold hdrRaw
  split <;> simp [le_length, fmtChunk, Wavex.fmtChunk_length, Wavex.zeros, g1, g3, g5, g7, q.1, q.2.1, q.2.2]

/-- the header rf64_open writes carries the caller's SF_INFO.frames in the 'ds64' chunk (and the sizes −8 and −1): the
    omission repaired in w64_open is still present in rf64_open.  No header update or close keeps these values. -/
theorem rf64_open_header_shows_stale_frames :
    ofLE (((openW { codec := 0x02, ch := 1, sr := 8000, downgrade := false } 77).bytes.drop 36).take 8) = 77 ∧
    ofLE (((openW { codec := 0x02, ch := 1, sr := 8000, downgrade := false } 77).bytes.drop 28).take 8) = 2 ^ 64 - 1 := by decide +kernel

/-- a downgraded RF64 file closed WITHOUT any audio: the first RIFF-form header is written at close, eight bytes longer than
    the RF64-form header it replaces, but its size field was computed from the old length — it says 96, the file has 112 − 8 = 104 -/
theorem rf64_empty_downgrade_size_field :
    let s := close { codec := 0x02, ch := 1, sr := 8000, downgrade := true } (openW { codec := 0x02, ch := 1, sr := 8000, downgrade := true } 0)
    s.bytes.length = 112 ∧ ofLE ((s.bytes.drop 4).take 4) = 96 := by decide +kernel

/-- with at least one frame the same session closes to `image` (here: one 16-bit frame, both forms) -/
example : (close { codec := 0x02, ch := 1, sr := 8000, downgrade := true } (run { codec := 0x02, ch := 1, sr := 8000, downgrade := true }
      (openW { codec := 0x02, ch := 1, sr := 8000, downgrade := true } 5) [.write 1 [0, 1]])).bytes =
      image { codec := 0x02, ch := 1, sr := 8000, downgrade := true } 1 [0, 1] ∧
    (close { codec := 0x02, ch := 1, sr := 8000, downgrade := false } (run { codec := 0x02, ch := 1, sr := 8000, downgrade := false }
      (openW { codec := 0x02, ch := 1, sr := 8000, downgrade := false } 5) [.update, .write 1 [0, 1]])).bytes =
      image { codec := 0x02, ch := 1, sr := 8000, downgrade := false } 1 [0, 1] := by decide +kernel

end Sf.C04Rf64
