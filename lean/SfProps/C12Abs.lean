/-
  C12 on THE PREDICATE (SfModel/AbsMeta.lean) — `Sf.AbsMeta.judge`, which the check evaluates on the implementation's own records
  (`sfmodel abs-meta`): what an accepted record MEANS, whatever code produced it (meaning), that a record on which the statement
  holds is accepted (completeness: never an alarm where the property holds), and that the expectations of the predicate ARE the
  answers the concrete models (Sf.Meta, Sf.MetaX, Sf.MetaFix) are proved to give (`meta_roundtrip_*`, `bext_set_reopen`, …).
  Property theorems only; lemmas in SfProofs/AbsMetaMeaning.lean.
-/
import SfProofs.AbsMetaMeaning
import SfProofs.MetaBytes
import SfProps.C12Round
import SfProps.C12Order
namespace Sf.C12Abs
open Sf Sf.Meta Sf.AbsMeta

/-! ## meaning and completeness of the whole predicate -/

/-- MEANING (C12 at full strength, any container): on an accepted record the write handle opened, the audio write, sf_close and
    the re-open succeeded, the audio came back unchanged, every valid item set before the audio on a container that stores the
    kind was accepted, every getter of the re-opened file answers `normalise` of the last accepted value of its item (strings set
    after the audio may be missing), and getters of kinds never set answer "absent" -/
theorem metadata_survives_abs (r : Record) (h : accepted r = true) : Holds r.g r.main := ((accepted_iff r).mp h).1

/-- MEANING of the twin clause: "Setting an item the container cannot store, or too late, is reported as failure or ignored, but
    never alters the audio data or other metadata" — the run that leaves those calls out reads the same audio and returns the same
    answers for every other item -/
theorem refused_or_late_harmless_abs (r : Record) (h : accepted r = true) (t : Run) (ht : r.twin = some t) : TwinHolds r.g r.main t :=
  ((accepted_iff r).mp h).2.1 t ht

/-- MEANING of the order clause: "forall orders of setting the items" -/
theorem order_independent_abs (r : Record) (h : accepted r = true) (p : Run) (hp : r.perm = some p) : PermHolds r.main p :=
  ((accepted_iff r).mp h).2.2 p hp

/-- COMPLETENESS: a record on which the statement holds — on the main run, on the twin run and on the permuted run — is accepted:
    the predicate never raises an alarm where the property holds -/
theorem never_alarm_abs (r : Record) (hm : Holds r.g r.main) (ht : ∀ t, r.twin = some t → TwinHolds r.g r.main t)
    (hp : ∀ p, r.perm = some p → PermHolds r.main p) : accepted r = true := (accepted_iff r).mpr ⟨hm, ht, hp⟩

/-! ## "the last accepted value": what `expOf` computes -/

theorem expOf_append (g : Geom) (a b : List SetCall) : expOf g (a ++ b) = b.foldl (Exp.step g) (expOf g a) := by
  simp [expOf, List.foldl_append]

/-- calls that are refused or set another item leave the broadcast info alone -/
theorem foldl_bext_untouched (g : Geom) : ∀ (cs : List SetCall) (e : Exp), (∀ c ∈ cs, ¬ (c.ok = true ∧ c.kind = .bext)) →
    (cs.foldl (Exp.step g) e).bext = e.bext
  | [], _, _ => rfl
  | c :: cs, e, h => by
    simp only [List.foldl_cons]
    rw [foldl_bext_untouched g cs _ (fun d hd => h d (by simp [hd]))]
    have hc := h c (by simp)
    unfold Exp.step
    by_cases hok : c.ok = true
    · simp only [hok, Bool.not_true, Bool.false_eq_true, if_false]
      cases hk : c.kind with
      | bext => exact absurd ⟨hok, hk⟩ hc
      | str ty => dsimp only; split <;> (try split) <;> rfl
      | _ => rfl
    · simp [hok]

/-- the broadcast info the predicate expects back is the block of the LAST accepted SFC_SET_BROADCAST_INFO -/
theorem expOf_bext_last (g : Geom) (pre post : List SetCall) (c : SetCall) (hok : c.ok = true) (hk : c.kind = .bext)
    (hpost : ∀ d ∈ post, ¬ (d.ok = true ∧ d.kind = .bext)) : (expOf g (pre ++ c :: post)).bext = some c.blob := by
  rw [expOf_append, List.foldl_cons, foldl_bext_untouched g post _ hpost]
  simp [Exp.step, hok, hk]

/-- **bext_survives_abs** — C12 for broadcast info, read off an accepted record: the block of the last accepted SET call comes
    back as `normBext` of it (fixed fields as set, version 2, reserved bytes zero, coding history with CR/LF line ends, the added
    line end, the library's own line, even length) -/
theorem bext_survives_abs (r : Record) (h : accepted r = true) (pre post : List SetCall) (c : SetCall)
    (hsets : r.main.sets = pre ++ c :: post) (hok : c.ok = true) (hk : c.kind = .bext)
    (hpost : ∀ d ∈ post, ¬ (d.ok = true ∧ d.kind = .bext)) (hs : bextSupport r.g.cont = true) (m : Got) (hm : r.main.got = some m) :
    m.bext = some (AbsMeta.normBext r.g c.blob) := by
  have hh := metadata_survives_abs r h
  obtain ⟨_, hb, _⟩ := hh.items m hm
  exact hb c.blob (by rw [hsets]; exact expOf_bext_last r.g pre post c hok hk hpost) hs

/-! ## the predicate's normalisations ARE the models' -/

/-- strings: the text the predicate expects is the text psf_store_string stores (`Sf.Meta.storedText`: library suffix on the
    software string in write mode) -/
theorem normString_model (g : Geom) (hw : Bool) (ty : Nat) (s : List Byte) :
    normString g ty s = Sf.Meta.storedText ⟨.write, hw, g.pkgName, g.pkgVersion⟩ (ty : Int) s := by
  unfold normString Sf.Meta.storedText isWriteMode
  by_cases h : ty = 3
  · subst h; simp
  · have : ¬ ((ty : Int) = 3) := by omega
    simp [h, this]

/-- cue points: WAV keeps every field and the name as a C string of at most 255 bytes — `Sf.MetaFix.Cue.normName`, the
    normalisation of `C12Round.normaliseRiff` / `C12Fix.cue_names_roundtrip` -/
theorem normCueWav_model (c : Cue) : normCueWav c = MetaFix.Cue.normName c := rfl

/-- … AIFF keeps what a MARK entry holds — `cueOfMark (markOfCue c)`, the normalisation of `C12Fix.aiff_cues_with_inst` /
    `C12XState.meta_roundtrip_aiff_state` -/
theorem normCueAiff_model (c : Cue) : normCueAiff c = MetaX.cueOfMark (MetaX.markOfCue c) := rfl

theorem normCues_aiff_model (cs : List Cue) : normCues .aiff cs = (cs.map MetaX.markOfCue).map MetaX.cueOfMark := by
  simp [normCues, normCueAiff_model]

/-! ### broadcast info: from the model's record to the caller's struct bytes -/

/-- the fields in front of the two alignment bytes (338 bytes) -/
def bextP1 (b : Bext) : List Byte := b.description ++ b.originator ++ b.originatorRef ++ b.date ++ b.time
/-- time reference (8 bytes) -/
def bextP2 (b : Bext) : List Byte := le4 b.timeLow ++ le4 b.timeHigh
/-- umid and the five loudness fields (74 bytes) -/
def bextP3 (b : Bext) : List Byte := b.umid ++ le2 b.l1 ++ le2 b.l2 ++ le2 b.l3 ++ le2 b.l4 ++ le2 b.l5

/-- SF_BROADCAST_INFO as the C struct lays the fields of `b` out: two alignment bytes `pad` behind origination_time,
    coding_history_size = `declared`, then the coding history -/
def bextBlock (b : Bext) (pad : List Byte) (declared : Nat) : List Byte :=
  bextP1 b ++ (pad ++ (bextP2 b ++ (le2 b.version ++ (bextP3 b ++ (b.reserved ++ (le4 declared ++ b.history))))))

theorem bextP1_length (b : Bext) (h : b.wf) : (bextP1 b).length = 338 := by
  obtain ⟨d1, d2, d3, d4, d5, _⟩ := h
  simp [bextP1, d1, d2, d3, d4, d5]

theorem bextP3_length (b : Bext) (h : b.wf) : (bextP3 b).length = 74 := by
  obtain ⟨_, _, _, _, _, _, _, _, um, _⟩ := h
  simp [bextP3, um]

theorem seg_front (a rest : List Byte) (n : Nat) (h : a.length = n) : seg (a ++ rest) 0 n = a := by
  subst h
  have e : a.length - (a ++ rest).length = 0 := by rw [List.length_append]; omega
  unfold seg fixW
  rw [List.drop_zero, e]
  simp [zeros]

theorem seg_skip (a rest : List Byte) (off n k : Nat) (h : a.length = k) (hk : k ≤ off) : seg (a ++ rest) off n = seg rest (off - k) n := by
  obtain ⟨j, rfl⟩ := Nat.exists_eq_add_of_le hk
  unfold seg
  rw [drop_front_add a rest k j h, Nat.add_sub_cancel_left]

/-- **normBext_model** — completeness of the `bext` clause against the model: for a well-formed block, what the predicate expects
    (`Sf.AbsMeta.normBext` on the caller's struct bytes) is, byte for byte, the struct image of what the model's re-opened file
    returns (`Sf.Meta.normBext` = `reopenNow` after `step (.setBext …)`, theorem `C12Round.bext_set_reopen`) -/
theorem normBext_model (g : Geom) (b : Bext) (hwf : b.wf) (pad : List Byte) (hpad : pad.length = 2) (declared : Nat) :
    AbsMeta.normBext g (bextBlock b pad declared)
      = bextBlock (Sf.Meta.normBext .write (historyLine g) b) [0, 0] (Sf.Meta.normBext .write (historyLine g) b).history.length := by
  have l1 := bextP1_length b hwf
  have l3 := bextP3_length b hwf
  have l2 : (bextP2 b).length = 8 := by simp [bextP2]
  have lr : b.reserved.length = 180 := hwf.2.2.2.2.2.2.2.2.2.2.2.2.2.2
  have s1 : seg (bextBlock b pad declared) 0 338 = bextP1 b := seg_front _ _ _ l1
  have s2 : seg (bextBlock b pad declared) 340 8 = bextP2 b := by
    unfold bextBlock
    rw [seg_skip _ _ 340 8 338 l1 (by omega), seg_skip pad _ 2 8 2 hpad (by omega)]
    exact seg_front _ _ _ l2
  have s3 : seg (bextBlock b pad declared) 350 74 = bextP3 b := by
    unfold bextBlock
    rw [seg_skip _ _ 350 74 338 l1 (by omega), seg_skip pad _ 12 74 2 hpad (by omega), seg_skip (bextP2 b) _ 10 74 8 l2 (by omega),
      seg_skip (le2 b.version) _ 2 74 2 (by simp) (by omega)]
    exact seg_front _ _ _ l3
  have s4 : (bextBlock b pad declared).drop 608 = b.history := by
    unfold bextBlock
    rw [show 608 = 338 + 270 by rfl, drop_front_add _ _ 338 270 l1, show 270 = 2 + 268 by rfl, drop_front_add _ _ 2 268 hpad,
      show 268 = 8 + 260 by rfl, drop_front_add _ _ 8 260 l2, show 260 = 2 + 258 by rfl, drop_front_add _ _ 2 258 (by simp),
      show 258 = 74 + 184 by rfl, drop_front_add _ _ 74 184 l3, show 184 = 180 + 4 by rfl, drop_front_add _ _ 180 4 lr,
      drop_front _ _ 4 (by simp)]
  unfold AbsMeta.normBext
  simp only [s1, s2, s3, s4]
  simp [bextBlock, Sf.Meta.normBext, setBext, Bext.reread, bextP1, bextP2, bextP3, List.append_assoc]

/-- … so the model's transcript passes the `bext` clause: a handle on which SFC_SET_BROADCAST_INFO was accepted before the audio
    (WAV, WAVEX, RF64), re-opened by the model, rendered as the harness prints it -/
theorem model_bext_accepted (g : Geom) (b : Bext) (hwf : b.wf) (pad : List Byte) (hpad : pad.length = 2) (declared : Nat) (e : Exp) (m : Got)
    (he : e.bext = some (bextBlock b pad declared))
    (hm : m.bext = some (bextBlock (Sf.Meta.normBext .write (historyLine g) b) [0, 0] (Sf.Meta.normBext .write (historyLine g) b).history.length)) :
    bextFail g e m = [] := by
  rw [bextFail_nil_iff]
  intro blob hb _
  rw [he] at hb; cases hb
  rw [hm, normBext_model g b hwf pad hpad declared]

/-! ### cart info: from the model's record to the caller's struct bytes -/

/-- SF_CART_INFO as the C struct lays the fields of `c` out: tag_text_size = `declared`, then the tag text -/
def cartBlock (c : Cart) (declared : Nat) : List Byte := c.head ++ (c.reserved ++ (c.url ++ (le4 declared ++ c.tag)))

/-- **normCart_model** — completeness of the `cart` clause against the model: for a well-formed block, `Sf.AbsMeta.normCart` on the
    caller's struct bytes is the struct image of what the model's re-opened file returns (`Sf.Meta.normCart 0` = `reopenNow` after
    `step (.setCart 0 …)`, theorem `C12Round.cart_set_reopen`; the byte behind an even-length text is masked on both sides) -/
theorem normCart_model (c : Cart) (hwf : c.wf) (declared : Nat) :
    AbsMeta.normCart (cartBlock c declared) = cartBlock (Sf.Meta.normCart 0 c) (Sf.Meta.normCart 0 c).tag.length := by
  obtain ⟨h1, h2, h3⟩ := hwf
  have s1 : seg (cartBlock c declared) 0 748 = c.head := seg_front _ _ _ h1
  have s2 : seg (cartBlock c declared) 1024 1024 = c.url := by
    unfold cartBlock
    rw [seg_skip _ _ 1024 1024 748 h1 (by omega), seg_skip c.reserved _ 276 1024 276 h2 (by omega)]
    exact seg_front _ _ _ h3
  have s3 : (cartBlock c declared).drop 2052 = c.tag := by
    unfold cartBlock
    rw [show 2052 = 748 + 1304 by rfl, drop_front_add _ _ 748 1304 h1, show 1304 = 276 + 1028 by rfl, drop_front_add _ _ 276 1028 h2,
      show 1028 = 1024 + 4 by rfl, drop_front_add _ _ 1024 4 h3, drop_front _ _ 4 (by simp)]
  unfold AbsMeta.normCart
  simp only [s1, s2, s3]
  simp [cartBlock, Sf.Meta.normCart, setCart, Cart.reread, List.append_assoc]

theorem model_cart_accepted (g : Geom) (c : Cart) (hwf : c.wf) (declared : Nat) (e : Exp) (m : Got) (hs : cartSupport g.cont = true)
    (he : e.cart = some (cartBlock c declared))
    (hm : m.cart = some (cartBlock (Sf.Meta.normCart 0 c) (Sf.Meta.normCart 0 c).tag.length)) : cartFail g e m = [] := by
  rw [cartFail_nil_iff]
  intro blob hb _
  rw [he] at hb; cases hb
  exact ⟨_, hm, by rw [normCart_model c hwf declared]⟩

/-! ## non-vacuity: concrete records, judged by evaluation -/

def gWav : Geom := { cont := .wav, ch := 2, sr := 44100, sub := 2, pkgName := ascii "libsndfile", pkgVersion := ascii "1.2.2" }

/-- a title and a software string before the audio, two cue points (one named), a comment after the audio that the library
    stores, a cue list after the audio that it refuses -/
def c1 : SetCall := { kind := .str 1, ok := true, text := some (ascii "Title") }
def c2 : SetCall := { kind := .str 3, ok := true, text := some (ascii "me") }
def c3 : SetCall := { kind := .cues, ok := true, cues := [⟨1, 10, 0x61746164, 0, 0, 10, ascii "one"⟩, ⟨7, 20, 0x61746164, 1, 2, 3, []⟩] }
def c4 : SetCall := { kind := .str 5, late := true, ok := true, text := some (ascii "late") }
def c5 : SetCall := { kind := .cues, late := true, ok := false, cues := [] }

def sampleMain : Run :=
  { openOk := true,
    sets := [c1, c2, c3, c4, c5],
    items := [1, 2, 3, 4], wret := some (4, 0), close := some 0, reopen := some { ok := true, frames := 2 },
    got := some { strs := [(1, some (ascii "Title")), (3, some (ascii "me (libsndfile-1.2.2)")), (5, some (ascii "late"))],
                  cueCount := (1, 2), cues := some (2, [⟨1, 10, 0x61746164, 0, 0, 10, ascii "one"⟩, ⟨7, 20, 0x61746164, 1, 2, 3, []⟩]) },
    read := some { ret := 4, err := 0, data := [1, 2, 3, 4, 0xA5A5, 0xA5A5] } }

def sampleTwin : Run :=
  { sampleMain with
    sets := [c1, c2, c3],
    got := some { strs := [(1, some (ascii "Title")), (3, some (ascii "me (libsndfile-1.2.2)"))],
                  cueCount := (1, 2), cues := some (2, [⟨1, 10, 0x61746164, 0, 0, 10, ascii "one"⟩, ⟨7, 20, 0x61746164, 1, 2, 3, []⟩]) },
    read := some { ret := 4, err := 0, data := [1, 2, 3, 4, 0, 0] } }

def samplePerm : Run :=
  { sampleMain with sets := [c3, c2, c1, c4, c5] }

/-- the record is accepted (so `Holds`, `TwinHolds`, `PermHolds` are inhabited by a non-trivial value) … -/
example : accepted { g := gWav, main := sampleMain, twin := some sampleTwin, perm := some samplePerm } = true := by decide +kernel

/-- … and the clauses are not vacuous: a changed string, a string that appears from nowhere, a late call that alters another item,
    an order that matters, audio one sample off — each is refused with its clause -/
example :
    (judge { g := gWav, main := { sampleMain with got := sampleMain.got.map fun m => { m with strs := [(1, some (ascii "Titel"))] } } }).map (·.tag)
      = ["str-1", "str-3"] ∧
    (judge { g := gWav, main := { sampleMain with got := sampleMain.got.map fun m => { m with strs := m.strs ++ [(4, some (ascii "x"))] } } }).map (·.tag)
      = ["absent-str-4"] ∧
    (judge { g := gWav, main := sampleMain, twin := some { sampleTwin with got := sampleTwin.got.map fun m => { m with strs := [(1, some (ascii "Title"))] } } }).map (·.tag)
      = ["twin-str-3"] ∧
    (judge { g := gWav, main := sampleMain, perm := some { samplePerm with got := samplePerm.got.map fun m => { m with cueCount := (1, 1) } } }).map (·.tag)
      = ["order-meta"] ∧
    (judge { g := gWav, main := { sampleMain with read := some { ret := 4, err := 0, data := [1, 2, 3, 5] } } }).map (·.tag) = ["audio"] := by
  decide +kernel

/-- `normBext` on a concrete block: CR / LF line ends become CR LF, the missing line end and the library's line are added -/
example : (AbsMeta.normBext gWav (bextBlock bextSample [7, 7] 6)).drop 608 = ascii "A=PCM\r\nA=PCM,F=44100,W=16,M=stereo,T=libsndfile-1.2.2\r\n" ++ [0] ∧
    (AbsMeta.normBext gWav (bextBlock bextSample [7, 7] 6)).length = 608 + 56 := by decide +kernel

end Sf.C12Abs
