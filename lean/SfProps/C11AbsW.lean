/-
  C11 on the WRITE-SIDE PREDICATE (SfModel/AbsWrite.lean) — the clauses `snapshot-open snapshot-info snapshot-frames
  snapshot-data snapshot-short` of `Sf.AbsWrite.judge`, which the check evaluates on the implementation's own records
  (`sfmodel abs-write`): what an accepted record MEANS for each crash point, and that the answers the concrete model is
  proved to give (`C11.snapshot_valid_au`, `C04.floor_bound`) ARE accepted.
  Property theorems only; lemmas in SfProofs/AbsWrite*.lean.
-/
import SfProofs.AbsWriteComplete
import SfProps.C11
import SfProps.C04
namespace Sf.C11AbsW
open Sf Sf.Abs Sf.AbsWrite Sf.Geometry

/-- MEANING (C11 at full strength, every container with a rewritable header, ALAC excluded as the statement says): in an
    accepted record, for EVERY crash point `s` — a copy of the store taken right after a header update, `s.calls` write
    calls into the split run — with N_k the frames those calls accepted: the copy opens, reports the same channel count
    (and container / encoding), a frame count EQUAL to ⌊N_k⌋_B (`= N_k` when B = 1), N_k ≤ the frames of the whole run;
    its read-back delivers at least ⌊N_k⌋_B·ch items and those are the first items of the finished file's read-back — and,
    for a lossless pair, the written cells themselves: exactly that prefix of the written data. -/
theorem snapshot_abs (r : Record) (sp : Run) (h : accepted r = true) (hs : r.split = some sp) (hsc : snapScope r.g = true)
    (i : Nat) (s : Snap) (hi : r.snaps[i]? = some s) :
    let before := sp.calls.take s.calls
    let Nk := framesAccepted r.g.ch before
    let m := floorToBlock Nk r.g.block * r.g.ch * cells r.ty
    s.info.null = false ∧ s.info.ch = (r.g.ch : Int) ∧
    s.info.frames = (floorToBlock Nk r.g.block : Int) ∧ (r.g.block = 1 → s.info.frames = (Nk : Int)) ∧
    Nk ≤ framesAccepted r.g.ch sp.calls ∧
    floorToBlock Nk r.g.block * r.g.ch ≤ s.rb.ret.toNat ∧
    s.rb.data.extract 0 m = r.rb.data.extract 0 m ∧
    written r.g.ch sp.calls = written r.g.ch before ++ written r.g.ch (sp.calls.drop s.calls) ∧
    (sameType r.ty before = true → losslessFor r.g r.ty (written r.g.ch before) = true →
      s.rb.data.extract 0 m = (written r.g.ch before).extract 0 m) := by
  intro before Nk m
  have a := accepted_meaning r h
  obtain ⟨_, _, _, _, h5⟩ := a.split sp hs
  obtain ⟨n1, n2, n3, n4, n5⟩ := judgeSnap_nil r sp i s (h5 hsc i s hi)
  obtain ⟨f1, f2⟩ := snapFramesOk_meaning _ _ _ n3
  obtain ⟨d1, d2, d3⟩ := snapDataOk_meaning _ _ _ _ _ _ _ n4 n5
  refine ⟨n1, (infoOk_meaning _ _ n2).1, f1, f2, framesAccepted_take_le _ _ _, d1, d2, written_take_prefix _ _ _, fun t1 t2 => ?_⟩
  exact d3 (by simp [before] at t1 t2 ⊢; exact ⟨t1, t2⟩)

/-- COMPLETENESS against the floor-to-block rule (`C04.floor_bound`): the count ⌊N_k⌋_B is accepted, and it is the only
    accepted count: it lies in `(N_k − B, N_k]` -/
theorem snapshot_frames_accepted (g : AbsWrite.Geom) (Nk : Nat) (hb : 1 ≤ g.block) :
    snapFramesOk g Nk (floorToBlock Nk g.block : Int) = true ∧
    floorToBlock Nk g.block ≤ Nk ∧ Nk < floorToBlock Nk g.block + g.block ∧
    (∀ F : Int, snapFramesOk g Nk F = true → F = (floorToBlock Nk g.block : Int)) := by
  obtain ⟨h1, h2⟩ := C04.floor_bound Nk g.block hb
  exact ⟨snapFramesOk_complete g Nk, h1, h2, fun F hF => (snapFramesOk_meaning g Nk F hF).1⟩

/-- COMPLETENESS against `C11.snapshot_valid_au`: for every AU session of the concrete model, after
    SFC_UPDATE_HEADER_NOW every reader of the store image answers what the clauses `snapshot-frames` and `snapshot-info`
    (channels) of the predicate accept, with N_k = the session's frames so far -/
theorem snapshot_valid_au_accepted (ix fmt : Nat) (ch sr : Int) (h0 : H) (s0 : Store) (ops : List SOp)
    (hc : containerOf fmt = some .au) (ho : openHandle ix {} .w fmt ch sr = .ok h0 s0)
    (hsr : sr ≤ 0x7FFFFFFF) (hv : ∀ op ∈ ops, op.valid ch.toNat)
    (g : AbsWrite.Geom) (hg : (g.ch : Int) = ch) (hb : g.block = 1)
    (ix' pos fmt0 : Nat) (ch0 sr0 : Int) (hraw : containerOf fmt0 ≠ some .raw) :
    ∃ h' s', openHandle ix' ⟨(stepCmdFlag (runS (h0, s0) ops).1 (runS (h0, s0) ops).2 0x1060 0).2.1.bytes, pos⟩ .r fmt0 ch0 sr0
        = .ok h' s' ∧
      snapFramesOk g (sessFrames ch.toNat ops) h'.frames = true ∧ (h'.ch : Int) = (g.ch : Int) := by
  obtain ⟨p, c, _, _, _, _, _, _, _, hr⟩ := C11.snapshot_valid_au ix fmt ch sr h0 s0 ops hc ho hsr hv
  obtain ⟨h', s', q1, q2, q3, _⟩ := hr ix' pos fmt0 ch0 sr0 hraw
  exact ⟨h', s', q1, by rw [q2]; exact snapFramesOk_complete_exact g _ hb, by rw [q3, hg]⟩

/-! ## non-vacuity: the stereo 16-bit AU job with one crash point after the first call of the split run, and an IMA ADPCM
    geometry for the floor rule -/

def exG : AbsWrite.Geom := { word := 0x00030002, ch := 2, sr := 44100 }
def exBytes : Array Item :=
  #[46,115,110,100, 0,0,0,24, 0,0,0,12, 0,0,0,3, 0,0,172,68, 0,0,0,2, 0,1,255,254,0,3,255,252,0,5,0,6]
def exInfo (f : Int) : Info := { ch := 2, sr := 44100, fmt := 0x00030002, frames := f }
def exSplit : Run :=
  { calls := [{ ty := .s16, fc := true, n := 1, data := #[1, 0xFFFE], ret := 1 },
              { ty := .s16, fc := false, n := 4, data := #[3, 0xFFFC, 5, 6], ret := 4 }], bytes := exBytes }
def exSnap : Snap := { calls := 1, info := exInfo 1, rb := { ret := 2, data := #[1, 0xFFFE, 0xA5A5, 0xA5A5] } }
def exRec : Record :=
  { g := exG, ty := .s16,
    one := { calls := [{ ty := .s16, fc := true, n := 3, data := #[1, 0xFFFE, 3, 0xFFFC, 5, 6], ret := 3 }], bytes := exBytes },
    info := exInfo 3,
    rb := { ret := 6, data := #[1, 0xFFFE, 3, 0xFFFC, 5, 6, 0xA5A5, 0xA5A5] },
    split := some exSplit, snaps := [exSnap] }

example : accepted exRec = true ∧ exRec.split = some exSplit ∧ snapScope exRec.g = true ∧ exRec.snaps[0]? = some exSnap :=
  ⟨by decide, rfl, by decide, rfl⟩
/-- the image reports the frames of the PREVIOUS update (0), reports them right but delivers nothing, delivers a wrong
    sample, cannot be opened: each refused with its clause -/
example : judge { exRec with snaps := [{ exSnap with info := exInfo 0 }] } = [{ tag := "snapshot-frames", run := 2 }] := by decide
example : judge { exRec with snaps := [{ exSnap with rb := { ret := 0, data := #[0, 0, 0, 0] } }] } = [{ tag := "snapshot-short", run := 2 }] := by decide
example : judge { exRec with snaps := [{ exSnap with rb := { ret := 2, data := #[1, 0xFFFF, 0xA5A5, 0xA5A5] } }] } = [{ tag := "snapshot-data", run := 2 }] := by decide
example : judge { exRec with snaps := [exSnap, { exSnap with info := { null := true } }] } = [{ tag := "snapshot-open", run := 2, idx := 1 }] := by decide
/-- RAW has no header to update and ALAC is assembled at close: their crash points are not judged -/
example : snapScope ⟨0x00040002, 2, 44100⟩ = false ∧ snapScope ⟨0x00180070, 2, 44100⟩ = false := by decide
/-- IMA ADPCM in WAV, 8 kHz mono, B = 505: after 1000 frames the image holds ⌊1000⌋_505 = 505 frames; 1000 and 0 are refused -/
example : floorToBlock 1000 505 = 505 ∧ snapFramesOk ⟨0x00010012, 1, 8000⟩ 1000 505 = true ∧
    snapFramesOk ⟨0x00010012, 1, 8000⟩ 1000 1000 = false ∧ snapFramesOk ⟨0x00010012, 1, 8000⟩ 1000 0 = false := by decide

end Sf.C11AbsW
