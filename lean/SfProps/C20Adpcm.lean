/-
  C20 (ADPCM part) — the IMA (WAV and AIFF block layouts) and Microsoft ADPCM decoders produce, for any block
  bytes, the sample values of the reference algorithms.  Property theorems only; helper lemmas are in
  SfProofs/Adpcm.lean, the lib-shaped decoders in SfModel/Adpcm.lean, the references in SfModel/AdpcmSpec.lean.
-/
import SfModel.Adpcm
import SfModel.AdpcmSpec
import SfModel.Generated.AdpcmTables
import SfProofs.Table
import SfProofs.Adpcm
namespace Sf.C20
open Sf.Adpcm Sf.Generated

/-! ## The tables the library uses today are the published ones

`Generated.AdpcmTables` is re-extracted from the running library on every check run (each entry is revealed by
decoding a crafted block); these proofs are re-checked against it. -/

theorem ima_step_table_spec : imaStepTab = (List.range 89).map (fun i => Spec.imaStepTable.getD i 0) :=
  tabIs_spec _ _ _ (by decide)
theorem ima_index_table_spec : imaIndexAdjust = (List.range 16).map Spec.imaIndexDelta :=
  tabIs_spec _ _ _ (by decide)
theorem ms_adaptation_table_spec : msAdaptationTab = (List.range 16).map (fun c => Spec.msAdaptionTable.getD c 0) :=
  tabIs_spec _ _ _ (by decide)
theorem ms_coeff_table_spec :
    msCoeff1 = (List.range 7).map (fun p => (Spec.msCoefTable.getD p (0, 0)).1)
    ∧ msCoeff2 = (List.range 7).map (fun p => (Spec.msCoefTable.getD p (0, 0)).2) :=
  ⟨tabIs_spec _ _ _ (by decide), tabIs_spec _ _ _ (by decide)⟩

/-! ## Block geometries

What `ima_reader_init` / `wavlike_msadpcm_init` accept; for stereo IMA restricted to whole (left word, right word)
rounds (the WAVE_FORMAT_DVI_ADPCM layout). -/

/-- IMA/WAV (`ima_reader_init`: `samplesperblock = 2 * (blocksize - 4 * channels) / channels + 1`).
    Mono: 4 header bytes, then any number of data bytes, two samples each.
    Stereo: 4 header bytes per channel, then `m` rounds of one 32-bit word per channel, 8m+1 samples per channel
    (the WAVE_FORMAT_DVI_ADPCM layout; a stereo block whose data part is not a whole number of word pairs has no
    defined content for the missing half round). -/
def ImaWavGeometry (channels blockalign samplesperblock : Nat) : Prop :=
  (channels = 1 ∧ 4 ≤ blockalign ∧ samplesperblock = 2 * (blockalign - 4) + 1)
  ∨ (channels = 2 ∧ ∃ m, blockalign = 8 * (m + 1) ∧ samplesperblock = 8 * m + 1)

/-- MS: 7 header bytes per channel; `samplesperblock = 2 * (blockalign - 6 * channels) / channels` -/
def MsGeometry (channels blockalign samplesperblock : Nat) : Prop :=
  (channels = 1 ∨ channels = 2) ∧ 7 * channels ≤ blockalign
    ∧ samplesperblock = 2 * (blockalign - 6 * channels) / channels

/-! ## lib-shaped decoder = reference decoder, for all block contents -/

theorem ima_wav_decode_ref (channels blockalign samplesperblock : Nat) (block : List Byte)
    (hg : ImaWavGeometry channels blockalign samplesperblock)
    (hlen : block.length = blockalign) (hb : ∀ b ∈ block, b < 256) :
    imaWavDecodeBlock channels samplesperblock block = Spec.imaWavBlock channels block := by
  rcases hg with ⟨rfl, hmin, hspb⟩ | ⟨rfl, m, hba, hspb⟩
  · -- mono
    subst hspb
    match block, hlen, hb with
    | h0 :: h1 :: h2 :: h3 :: data, hlen, hb =>
      simp only [List.length_cons] at hlen
      have b0 : h0 < 256 := hb _ (by simp)
      have b1 : h1 < 256 := hb _ (by simp)
      have b2 : h2 < 256 := hb _ (by simp)
      have htake : (wavUnpack1 data).take (2 * (blockalign - 4) + 1 - 1) = wavUnpack1 data :=
        List.take_of_length_le (by have := wavUnpack1_length_le data; omega)
      have hi := Sf.Adpcm.limitIndex_range (h2 : Int)
      simp only [imaWavDecodeBlock, wavHeader, wavUnpack, Spec.imaWavBlock, Spec.imaWavChannel,
        Nat.lt_irrefl, if_false, if_true, List.getD_cons_zero, List.getD_cons_succ, Nat.zero_mul, Nat.zero_add,
        Nat.mul_one, List.drop_succ_cons, List.drop_zero, List.reverse_singleton, List.singleton_append,
        wavHeader_pred h0 h1 b0 b1, wavHeader_index h2 b2, htake]
      rw [wavDecodeLoop_mono _ _ _ _ _ _ hi.1 hi.2, wavUnpack1_eq data, imaDecode_mod16]
    | [], hlen, _ | [_], hlen, _ | [_, _], hlen, _ | [_, _, _], hlen, _ => simp at hlen <;> omega
  · -- stereo
    subst hspb
    rw [hba] at hlen
    match block, hlen, hb with
    | l0 :: l1 :: l2 :: l3 :: r0 :: r1 :: r2 :: r3 :: data, hlen, hb =>
      simp only [List.length_cons] at hlen
      have hd : data.length = 8 * m := by omega
      have bl0 : l0 < 256 := hb _ (by simp)
      have bl1 : l1 < 256 := hb _ (by simp)
      have bl2 : l2 < 256 := hb _ (by simp)
      have br0 : r0 < 256 := hb _ (by simp)
      have br1 : r1 < 256 := hb _ (by simp)
      have br2 : r2 < 256 := hb _ (by simp)
      have htake : (wavUnpack2 data).take ((8 * m + 1 - 1) * 2) = wavUnpack2 data :=
        List.take_of_length_le (by have := wavUnpack2_length_le data; omega)
      have hl := Sf.Adpcm.limitIndex_range (l2 : Int)
      have hr := Sf.Adpcm.limitIndex_range (r2 : Int)
      simp only [imaWavDecodeBlock, wavHeader, wavUnpack, Spec.imaWavBlock, Spec.imaWavChannel,
        show (2 : Nat) > 1 from by decide, show ((2 : Nat) = 1) = False from by simp,
        if_false, if_true, List.getD_cons_zero, List.getD_cons_succ, Nat.zero_mul, Nat.zero_add,
        Nat.one_mul, List.drop_succ_cons, List.drop_zero,
        wavHeader_pred l0 l1 bl0 bl1, wavHeader_index l2 bl2, wavHeader_pred r0 r1 br0 br1, wavHeader_index r2 br2,
        htake, Spec.frames2]
      simp only [List.reverse_cons, List.reverse_nil, List.nil_append, List.cons_append]
      rw [wavUnpack2_eq, wavDecodeLoop_stereo _ _ _ _ _ _ _ _ (by rfl) hl.1 hl.2 hr.1 hr.2,
        imaDecode_mod16, imaDecode_mod16]
    | [], hlen, _ | [_], hlen, _ | [_, _], hlen, _ | [_, _, _], hlen, _ | [_, _, _, _], hlen, _
    | [_, _, _, _, _], hlen, _ | [_, _, _, _, _, _], hlen, _ | [_, _, _, _, _, _, _], hlen, _ =>
      simp at hlen <;> omega


/-- AIFF-C 'ima4': always 34-byte packets of 64 samples, one packet per channel per frame group
    (`aiff_ima_init (psf, AIFC_IMA4_BLOCK_LEN, AIFC_IMA4_SAMPLES_PER_BLOCK)`). -/
theorem ima_aiff_decode_ref (channels : Nat) (block : List Byte)
    (hch : channels = 1 ∨ channels = 2)
    (hlen : block.length = 34 * channels) (hb : ∀ b ∈ block, b < 256) :
    imaAiffDecodeBlock channels 34 64 block = Spec.imaAiffBlock channels block := by
  rcases hch with rfl | rfl
  · simp only [imaAiffDecodeBlock, Spec.imaAiffBlock, Nat.lt_irrefl, if_false]
    exact aiffChannel_eq block (by omega) hb
  · have h2 : ∀ b ∈ block.drop 34, b < 256 := fun b hm => hb b (List.mem_of_mem_drop hm)
    simp only [imaAiffDecodeBlock, Spec.imaAiffBlock, show (2 : Nat) > 1 from by decide, if_true]
    rw [aiffChannel_eq block (by omega) hb, aiffChannel_eq (block.drop 34) (by rw [List.length_drop]; omega) h2,
      interleave_eq_frames2]


theorem ms_decode_ref (channels blockalign samplesperblock : Nat) (block : List Byte)
    (hg : MsGeometry channels blockalign samplesperblock)
    (hlen : block.length = blockalign) (hb : ∀ b ∈ block, b < 256) :
    msDecodeBlock channels samplesperblock block = Spec.msBlock channels block := by
  obtain ⟨hch, hmin, hspb⟩ := hg
  subst hspb
  rcases hch with rfl | rfl
  · -- mono
    match block, hlen, hb with
    | bp :: d0 :: d1 :: a0 :: a1 :: b0 :: b1 :: data, hlen, hb =>
      simp only [List.length_cons] at hlen
      have hB : ∀ x ∈ [bp, d0, d1, a0, a1, b0, b1], x < 256 := fun x hx =>
        hb x (show x ∈ [bp, d0, d1, a0, a1, b0, b1] ++ data from List.mem_append_left _ hx)
      have hd : ∀ x ∈ data, x < 256 := fun x hx => hb x (by simp [hx])
      have htake : (msUnpack data).take ((2 * (blockalign - 6 * 1) / 1 - 2) * 1) = msUnpack data :=
        List.take_of_length_le (by rw [msUnpack_length, Nat.div_one]; omega)
      have hc := msCoeff_eq bp
      simp only [msDecodeBlock, Spec.msBlock, Spec.msChannel, Spec.msInit, if_true, List.getD_cons_zero,
        List.getD_cons_succ, List.drop_succ_cons, List.drop_zero, htake,
        msShort_eq d0 d1 (hB _ (by simp)) (hB _ (by simp)), msShort_eq a0 a1 (hB _ (by simp)) (hB _ (by simp)),
        msShort_eq b0 b1 (hB _ (by simp)) (hB _ (by simp))]
      rw [msDecodeLoop_mono, msUnpack_mono data hd, hc.1, hc.2]
      rfl
    | [], hlen, _ | [_], hlen, _ | [_, _], hlen, _ | [_, _, _], hlen, _ | [_, _, _, _], hlen, _
    | [_, _, _, _, _], hlen, _ | [_, _, _, _, _, _], hlen, _ => simp at hlen <;> omega
  · -- stereo
    match block, hlen, hb with
    | bpL :: bpR :: dL0 :: dL1 :: dR0 :: dR1 :: aL0 :: aL1 :: aR0 :: aR1 :: bL0 :: bL1 :: bR0 :: bR1 :: data, hlen, hb =>
      simp only [List.length_cons] at hlen
      have hB : ∀ x ∈ [bpL, bpR, dL0, dL1, dR0, dR1, aL0, aL1, aR0, aR1, bL0, bL1, bR0, bR1], x < 256 :=
        fun x hx => hb x (show x ∈ [bpL, bpR, dL0, dL1, dR0, dR1, aL0, aL1, aR0, aR1, bL0, bL1, bR0, bR1] ++ data
          from List.mem_append_left _ hx)
      have hd : ∀ x ∈ data, x < 256 := fun x hx => hb x (by simp [hx])
      have htake : (msUnpack data).take ((2 * (blockalign - 6 * 2) / 2 - 2) * 2) = msUnpack data :=
        List.take_of_length_le (by rw [msUnpack_length]; omega)
      have hcL := msCoeff_eq bpL
      have hcR := msCoeff_eq bpR
      simp only [msDecodeBlock, Spec.msBlock, Spec.msChannel, Spec.msInit, show ((2 : Nat) = 1) = False from by simp,
        if_false, List.getD_cons_zero, List.getD_cons_succ, List.drop_succ_cons, List.drop_zero, htake,
        msShort_eq dL0 dL1 (hB _ (by simp)) (hB _ (by simp)), msShort_eq dR0 dR1 (hB _ (by simp)) (hB _ (by simp)),
        msShort_eq aL0 aL1 (hB _ (by simp)) (hB _ (by simp)), msShort_eq aR0 aR1 (hB _ (by simp)) (hB _ (by simp)),
        msShort_eq bL0 bL1 (hB _ (by simp)) (hB _ (by simp)), msShort_eq bR0 bR1 (hB _ (by simp)) (hB _ (by simp)),
        Spec.frames2]
      rw [msUnpack_stereo, msDecodeLoop_stereo _ _ _ _ _ _ _ _ _ _ _ _ (by rfl), map_nibHi data hd, map_nibLo,
        hcL.1, hcL.2, hcR.1, hcR.2]
      rfl
    | [], hlen, _ | [_], hlen, _ | [_, _], hlen, _ | [_, _, _], hlen, _ | [_, _, _, _], hlen, _
    | [_, _, _, _, _], hlen, _ | [_, _, _, _, _, _], hlen, _ | [_, _, _, _, _, _, _], hlen, _
    | [_, _, _, _, _, _, _, _], hlen, _ | [_, _, _, _, _, _, _, _, _], hlen, _
    | [_, _, _, _, _, _, _, _, _, _], hlen, _ | [_, _, _, _, _, _, _, _, _, _, _], hlen, _
    | [_, _, _, _, _, _, _, _, _, _, _, _], hlen, _ | [_, _, _, _, _, _, _, _, _, _, _, _, _], hlen, _ =>
      simp at hlen <;> omega


/-! ## Ranges: every decoded sample is a 16-bit value, every step index stays inside the table -/

/-- all samples of the reference IMA decoders are inside the `short` range (so, by the theorems above, are the
    library's, and none of its `short` stores ever wraps) -/
theorem ima_wav_samples_int16 (channels blockalign samplesperblock : Nat) (block : List Byte)
    (hg : ImaWavGeometry channels blockalign samplesperblock)
    (hlen : block.length = blockalign) (hb : ∀ b ∈ block, b < 256) :
    ∀ x ∈ imaWavDecodeBlock channels samplesperblock block, -32768 ≤ x ∧ x ≤ 32767 := by
  rw [ima_wav_decode_ref _ _ _ _ hg hlen hb]
  have hdr : ∀ a b : Nat, a < 256 → b < 256 → In16 (sext 16 (ofLE [a, b])) := fun a b ha hb' =>
    sext16_range _ (by simp only [ofLE, Nat.mul_zero, Nat.add_zero]; omega)
  have chan : ∀ (a b c : Nat) (bytes : List Byte), a < 256 → b < 256 →
      ∀ x ∈ Spec.imaWavChannel a b c bytes, In16 x := by
    intro a b c bytes ha hb' x hx
    simp only [Spec.imaWavChannel, List.mem_cons] at hx
    rcases hx with rfl | hx
    · exact hdr a b ha hb'
    · exact imaDecode_range _ _ x hx
  intro x hx
  match channels, block, hb, hx with
  | 1, h0 :: h1 :: h2 :: _ :: data, hb, hx =>
    exact chan h0 h1 h2 data (hb _ (by simp)) (hb _ (by simp)) x hx
  | 2, l0 :: l1 :: l2 :: _ :: r0 :: r1 :: r2 :: _ :: data, hb, hx =>
    simp only [Spec.imaWavBlock] at hx
    rcases mem_frames2 _ _ _ hx with h | h
    · exact chan l0 l1 l2 _ (hb _ (by simp)) (hb _ (by simp)) x h
    · exact chan r0 r1 r2 _ (hb _ (by simp)) (hb _ (by simp)) x h

theorem ima_aiff_samples_int16 (channels : Nat) (block : List Byte)
    (hch : channels = 1 ∨ channels = 2)
    (hlen : block.length = 34 * channels) (hb : ∀ b ∈ block, b < 256) :
    ∀ x ∈ imaAiffDecodeBlock channels 34 64 block, -32768 ≤ x ∧ x ≤ 32767 := by
  rw [ima_aiff_decode_ref _ _ hch hlen hb]
  have pkt : ∀ (p : List Byte), ∀ x ∈ Spec.ima4Packet p, In16 x := by
    intro p x hx
    match p, hx with
    | _ :: _ :: data, hx => exact imaDecode_range _ _ x hx
  intro x hx
  rcases hch with rfl | rfl
  · exact pkt _ x hx
  · simp only [Spec.imaAiffBlock] at hx
    rcases mem_frames2 _ _ _ hx with h | h
    · exact pkt _ x h
    · exact pkt _ x h

theorem ms_samples_int16 (channels blockalign samplesperblock : Nat) (block : List Byte)
    (hg : MsGeometry channels blockalign samplesperblock)
    (hlen : block.length = blockalign) (hb : ∀ b ∈ block, b < 256) :
    ∀ x ∈ msDecodeBlock channels samplesperblock block, -32768 ≤ x ∧ x ≤ 32767 := by
  rw [ms_decode_ref _ _ _ _ hg hlen hb]
  have hdr : ∀ a b : Nat, a < 256 → b < 256 → In16 (sext 16 (ofLE [a, b])) := fun a b ha hb' =>
    sext16_range _ (by simp only [ofLE, Nat.mul_zero, Nat.add_zero]; omega)
  have chan : ∀ (bp d0 d1 a0 a1 b0 b1 : Nat) (codes : List Nat), a0 < 256 → a1 < 256 → b0 < 256 → b1 < 256 →
      ∀ x ∈ Spec.msChannel (Spec.msInit bp d0 d1 a0 a1 b0 b1) codes, In16 x := by
    intro bp d0 d1 a0 a1 b0 b1 codes h1 h2 h3 h4 x hx
    simp only [Spec.msChannel, Spec.msInit, List.mem_cons] at hx
    rcases hx with rfl | rfl | hx
    · exact hdr _ _ h3 h4
    · exact hdr _ _ h1 h2
    · exact msDecode_range _ _ x hx
  intro x hx
  match channels, block, hb, hx with
  | 1, bp :: d0 :: d1 :: a0 :: a1 :: b0 :: b1 :: data, hb, hx =>
    exact chan bp d0 d1 a0 a1 b0 b1 _ (hb _ (by simp)) (hb _ (by simp)) (hb _ (by simp)) (hb _ (by simp)) x hx
  | 2, bpL :: bpR :: dL0 :: dL1 :: dR0 :: dR1 :: aL0 :: aL1 :: aR0 :: aR1 :: bL0 :: bL1 :: bR0 :: bR1 :: data, hb, hx =>
    simp only [Spec.msBlock] at hx
    rcases mem_frames2 _ _ _ hx with h | h
    · exact chan bpL dL0 dL1 aL0 aL1 bL0 bL1 _ (hb _ (by simp)) (hb _ (by simp)) (hb _ (by simp)) (hb _ (by simp)) x h
    · exact chan bpR dR0 dR1 aR0 aR1 bR0 bR1 _ (hb _ (by simp)) (hb _ (by simp)) (hb _ (by simp)) (hb _ (by simp)) x h

/-- `clamp_ima_step_index` always lands inside the 89-entry step table; every value the lib-shaped decoders keep in
    `stepindx` (header and after each code) is an image of it -/
theorem ima_step_index_clamped (x : Int) : 0 ≤ clampImaStepIndex x ∧ clampImaStepIndex x ≤ 88 := by
  rw [clampIdx_eq_limit]; exact limitIndex_range x

/-- reference decoder: the step index is within 0..88 after every step, for every code sequence -/
theorem ima_step_index_range (s : Spec.ImaState) (codes : List Nat) (h0 : 0 ≤ s.index) (h1 : s.index ≤ 88) :
    0 ≤ (Spec.imaRun s codes).index ∧ (Spec.imaRun s codes).index ≤ 88 :=
  imaRun_index_range codes s h0 h1

/-! ## Non-vacuity: the geometries are inhabited, the decoders are not constant, the adversarial corners are exercised -/

example : ImaWavGeometry 1 256 505 ∧ ImaWavGeometry 2 1024 1017 ∧ ImaWavGeometry 1 33 59 ∧ MsGeometry 1 256 500 ∧ MsGeometry 2 1024 1012 :=
  ⟨Or.inl ⟨rfl, by decide, by decide⟩, Or.inr ⟨rfl, 127, by decide, by decide⟩, Or.inl ⟨rfl, by decide, by decide⟩,
   ⟨Or.inl rfl, by decide, by decide⟩, ⟨Or.inr rfl, by decide, by decide⟩⟩

/-- IMA/WAV mono, header predictor -32768, index 40: both decoders give these 9 samples -/
example : imaWavDecodeBlock 1 9 [0x00, 0x80, 0x28, 0x00, 0x7f, 0x80, 0xf7, 0x0f]
      = [-32768, -32768, -31411, -31217, -31393, -28990, -32768, -32768, -31189]
    ∧ Spec.imaWavBlock 1 [0x00, 0x80, 0x28, 0x00, 0x7f, 0x80, 0xf7, 0x0f]
      = [-32768, -32768, -31411, -31217, -31393, -28990, -32768, -32768, -31189] := by decide +kernel

/-- IMA/WAV stereo, header index 88 (left) and 0 (right), saturating codes 7 / 8 -/
example : imaWavDecodeBlock 2 9 [0xff, 0x7f, 0x58, 0, 0, 0x80, 0, 0, 0x77, 0x77, 0x77, 0x77, 0x88, 0x88, 0x88, 0x88]
      = Spec.imaWavBlock 2 [0xff, 0x7f, 0x58, 0, 0, 0x80, 0, 0, 0x77, 0x77, 0x77, 0x77, 0x88, 0x88, 0x88, 0x88]
    ∧ (Spec.imaWavBlock 2 [0xff, 0x7f, 0x58, 0, 0, 0x80, 0, 0, 0x77, 0x77, 0x77, 0x77, 0x88, 0x88, 0x88, 0x88]).take 4
      = [32767, -32768, 32767, -32768] := by decide +kernel

/-- an out-of-range header index (255) is limited to 88 by both -/
example : imaWavDecodeBlock 1 9 [0, 0, 0xff, 0, 4, 0, 0, 0] = imaWavDecodeBlock 1 9 [0, 0, 0x58, 0, 4, 0, 0, 0]
    ∧ (Spec.imaWavBlock 1 [0, 0, 0xff, 0, 4, 0, 0, 0]).take 2 = [0, 32767] := by decide +kernel

/-- AIFF 'ima4' mono: header word 0x7FD9 = predictor 0x7F80, index 89 (limited to 88); 32 bytes 0x7F then zeros -/
example : (imaAiffDecodeBlock 1 34 64 ([0x7f, 0xd9] ++ List.replicate 16 0x7f ++ List.replicate 16 0x80)).take 4
      = [-28796, 32640, -28796, 32640]
    ∧ imaAiffDecodeBlock 1 34 64 ([0x7f, 0xd9] ++ List.replicate 16 0x7f ++ List.replicate 16 0x80)
      = Spec.imaAiffBlock 1 ([0x7f, 0xd9] ++ List.replicate 16 0x7f ++ List.replicate 16 0x80) := by decide +kernel

/-- MS mono: block predictor 7 (invalid) decodes as predictor 0; delta 1, samples 1000, 10 -/
example : msDecodeBlock 1 8 [0x07, 0x00, 0x01, 0xe8, 0x03, 0x0a, 0x00, 0x7f, 0x80, 0x19]
      = [10, 1000, 2792, 2178, -2230, -2230, -745, -10083]
    ∧ Spec.msBlock 1 [0x07, 0x00, 0x01, 0xe8, 0x03, 0x0a, 0x00, 0x7f, 0x80, 0x19]
      = Spec.msBlock 1 [0x00, 0x00, 0x01, 0xe8, 0x03, 0x0a, 0x00, 0x7f, 0x80, 0x19] := by decide +kernel

/-- MS stereo with delta 0x8000 (negative as a short) on the right channel -/
example : msDecodeBlock 2 4 [0x01, 0xff, 0x10, 0x00, 0x00, 0x80, 0x00, 0x01, 0xff, 0x7f, 0x00, 0x80, 0x00, 0x00, 0x1f, 0xe8]
      = [-32768, 0, 256, 32767, 32767, 32767, 32767, 32639]
    ∧ Spec.msBlock 2 [0x01, 0xff, 0x10, 0x00, 0x00, 0x80, 0x00, 0x01, 0xff, 0x7f, 0x00, 0x80, 0x00, 0x00, 0x1f, 0xe8]
      = [-32768, 0, 256, 32767, 32767, 32767, 32767, 32639] := by decide +kernel

end Sf.C20
