/-
  C16 — no leaked memory, descriptors or temporary files for any call history.

  Theorems about Sf.Ledger (SfModel/Ledger.lean), the resource ledger written where the C allocates and frees.
  A history is any list of `Op`: opens (any route, mode, container, codec class, any list of header-parse events, failing
  after any number of allocation steps), calls that allocate or are refused, writes, close — no bound on its length.
  `World.held k` is what the world holds of kind k (heap blocks, descriptors, files on disk): the live cells of the open handle
  plus everything lost for good; `Acct.dfree` counts releases of something already released.
-/
import SfProofs.Ledger
import SfModel.LedgerCalls
namespace Sf.C16
open Sf.Ledger

/-- the ledger is empty: nothing held, nothing lost -/
def Empty (w : World) : Prop := ∀ k, w.held k = 0

theorem held_closed (w : World) (h : w.h = none) (ha : w.a = {}) : Empty w := by
  intro k
  unfold World.held
  rw [h, ha]
  cases k <;> rfl

/-- **close_releases_all.**  For every history: nothing is ever lost (the account of leaks stays zero after every call, failed
    calls included), and whenever no handle is open — after sf_close, after a failed open — the ledger is empty. -/
theorem close_releases_all (ops : List Op) :
    (run {} ops).a.leakedHeap = 0 ∧ (run {} ops).a.leakedFd = 0 ∧ (run {} ops).a.leakedDisk = 0 ∧
    ((run {} ops).h = none → Empty (run {} ops)) := by
  have hw := run_WInv WInv_init ops
  refine ⟨by rw [hw.1], by rw [hw.1], by rw [hw.1], fun h => held_closed _ h hw.1⟩

/-- sf_close always ends the handle, whatever happened before -/
theorem close_ends_handle (w : World) (ioOk : Bool) : (step w (.close ioOk)).1.h = none := by
  cases h : w.h <;> simp [step, h]

/-- an open that fails (after any number k of allocation steps, or because the file cannot be opened) leaves no handle -/
theorem failed_open_leaves_no_handle (w : World) (c : OpenCfg) (k : Nat) (hw : w.h = none) (hf : c.failAt = some k) :
    (step w (.open c)).1.h = none := by
  simp only [step, hw]
  exact doOpen_fail_closed c w.a k hf

/-- close_releases_all, spelled out for the two ways a history ends -/
theorem close_releases_all_after_close (ops : List Op) (ioOk : Bool) : Empty (run {} (ops ++ [.close ioOk])) := by
  have h := close_releases_all (ops ++ [.close ioOk])
  apply h.2.2.2
  simp only [run, List.foldl_append, List.foldl_cons, List.foldl_nil]
  exact close_ends_handle _ _

theorem close_releases_all_after_failed_open (ops : List Op) (c : OpenCfg) (k : Nat) (hf : c.failAt = some k)
    (hclosed : (run {} ops).h = none) : Empty (run {} (ops ++ [.open c])) := by
  have h := close_releases_all (ops ++ [.open c])
  apply h.2.2.2
  simp only [run, List.foldl_append, List.foldl_cons, List.foldl_nil]
  exact failed_open_leaves_no_handle _ c k hclosed hf

/-- **no_double_free.**  Along every history no cell is released twice. -/
theorem no_double_free (ops : List Op) : (run {} ops).a.dfree = 0 := by
  rw [(run_WInv WInv_init ops).1]

/-- **replace_frees_old**, at the level of the disciplines the C uses: on a cell that is live (and was not already freed),
    `free (p) ; p = malloc ()` and `free (p) ; p = NULL ; … p = malloc ()` leave exactly one live block under that owner and
    lose nothing. -/
theorem replace_frees_old (c : Cell) (s : S) (h : s.1.cell c ≠ .dangling) :
    (replace c s).2 = s.2 ∧ (replace c s).1.cell c = .live ∧ (∀ x, x ≠ c → (replace c s).1.cell x = s.1.cell x) ∧
    (alloc c (freeNull c s)).2 = s.2 ∧ (alloc c (freeNull c s)).1.cell c = .live := by
  refine ⟨replace_acct c s h, by simp [replace_cell], fun x hx => by simp [replace_cell, hx], ?_, by simp [alloc_cell]⟩
  rw [alloc_acct, freeNull_acct c s h]
  simp [freeNull_cell]

/-- replace_frees_old for the command that replaces: after any history, SFC_SET_CHANNEL_MAP_INFO on a handle that already has a
    channel map holds exactly as many heap blocks as before, and nothing was lost. -/
theorem replace_frees_old_channel_map (ops : List Op) (h : Handle) (valid : Bool)
    (hh : (run {} ops).h = some h) (hl : h.cell (.owner .channelMap) = .live) :
    ((step (run {} ops) (.setChannelMap valid)).1).held .heap = (run {} ops).held .heap ∧
    ((step (run {} ops) (.setChannelMap valid)).1).a = {} := by
  have hw := run_WInv WInv_init ops
  have hw2 := step_WInv hw (.setChannelMap valid)
  refine ⟨?_, hw2.1⟩
  have key : ∀ (w' : World) (h' : Handle), w'.h = some h' → w'.a = (run {} ops).a → (∀ x, h'.cell x = h.cell x) →
      h'.payloads = h.payloads → w'.held .heap = (run {} ops).held .heap := by
    intro w' h' e1 e2 hc hp
    simp only [World.held, e1, hh, e2, Handle.liveOf, liveCells, hp]
    have : (List.filter (fun c => decide (h'.cell c = .live)) Cell.all) = (List.filter (fun c => decide (h.cell c = .live)) Cell.all) :=
      List.filter_congr (fun x _ => by rw [hc x])
    rw [this]
  simp only [step, hh, stepOpen]
  split
  · exact key _ h rfl rfl (fun _ => rfl) rfl
  · apply key _ _ rfl
    · exact replace_acct _ _ (by show h.cell _ ≠ _; rw [hl]; simp)
    · intro x
      rw [replace_cell]
      by_cases hx : x = .owner .channelMap
      · subst hx; simp [hl]
      · simp [hx]
    · exact (sameMeta_replace _ _).2.2.2.2.2.1

/-- **close_returns_zero_when_io_ok.**  sf_close on an open handle returns 0 when the descriptor closes (and always for virtual
    I/O or a borrowed descriptor): psf_close keeps only psf_fclose's result, whatever the codec and container hooks returned. -/
theorem close_returns_zero_when_io_ok (w : World) (h : Handle) (hw : w.h = some h) :
    (step w (.close true)).2 = 0 ∧ ((h.vio = true ∨ h.doNotClose = true) → (step w (.close false)).2 = 0) := by
  constructor
  · simp [step, hw, closeRet]
  · intro hv
    rcases hv with hv | hv <;> simp [step, hw, closeRet, hv]

/-! ### non-vacuity -/

def wavFloatW : OpenCfg := { route := .path true, mode := .w, cont := .wav, isFloat := true }
def alacW : OpenCfg := { route := .vio, mode := .w, cont := .caf, codec := .alac }
def aiffGsmR (k : Option Nat) : OpenCfg :=
  { route := .fd true, mode := .r, cont := .aiff, codec := .gsm610, evs := [.chunkRec, .mark, .cue, .mark, .cue, .peak, .peak], failAt := k }

-- a history really holds things while the handle is open: SF_PRIVATE, header, container data, PEAK, strings, chunk table + 2 payloads, map
example : (run {} [.open wavFloatW, .setString true, .setChunk true, .setChunk true, .setChannelMap true, .setChannelMap true]).held .heap = 9 := by decide
example : (run {} [.open wavFloatW]).held .fd = 1 := by decide
-- ALAC's spool: a FILE, its descriptor, a file on disk; all gone after close
example : (run {} [.open alacW]).held .disk = 1 ∧ (run {} [.open alacW]).held .fd = 1 ∧ (run {} [.open alacW]).held .heap = 6 := by decide
example : Empty (run {} [.open alacW, .write true, .close true]) := close_releases_all_after_close [.open alacW, .write true] true
-- an AIFF/GSM open with duplicated MARK and PEAK chunks, succeeding or failing after 3 steps
example : (run {} [.open (aiffGsmR none)]).held .heap = 9 := by decide
example : (run {} [.open (aiffGsmR (some 3))]).h = none := by decide
-- the hypotheses of the channel-map theorem are satisfiable
example : ∃ h, (run {} [.open wavFloatW, .setChannelMap true]).h = some h ∧ h.cell (.owner .channelMap) = .live := ⟨_, rfl, by decide⟩
-- the model can express every way of getting it wrong, so the theorems are not true by construction:
example : (alloc (.owner .cues) (alloc (.owner .cues) ({}, {}))).2.leakedHeap = 1 := by decide          -- overwrite without free
example : (free (.owner .cues) (free (.owner .cues) (alloc (.owner .cues) ({}, {})))).2.dfree = 1 := by decide  -- free, not NULLed, freed again
example : (clear .fileFd (alloc .fileFd ({}, {}))).2.leakedFd = 1 := by decide                          -- descriptor forgotten without close
-- a handle whose gsm state is live but whose close hook is missing would leak at close (the invariant is needed):
example : (retire (releaseAll (alloc (.nested .gsmState) ({}, {})))).leakedHeap = 1 := by decide
example : (step { h := some {} } (.close false)).2 = -1 := by decide


/-! ### several handles at once -/

/-- **multi_close_releases_all.**  For every history over any number of handles (each call names its handle; opens, calls and closes of
    different handles interleave freely): nothing is ever lost or released twice, and when no handle is open nothing is held. -/
theorem multi_close_releases_all (ops : List (Nat × Op)) :
    (runAt {} ops).a = {} ∧ ((runAt {} ops).hs = [] → ∀ k, (runAt {} ops).held k = 0) := by
  have hw := runAt_WsInv WsInv_init ops
  refine ⟨hw.1, ?_⟩
  intro hnil k
  unfold Worlds.held
  rw [hnil, hw.1]
  cases k <;> rfl

/-- **handles_isolated.**  A call on handle i leaves every other handle's ledger exactly as it was. -/
theorem handles_isolated (w : Worlds) (i j : Nat) (op : Op) (hne : j ≠ i) : (stepAt w i op).1.get j = w.get j := by
  unfold stepAt
  exact get_set_other w i j _ _ hne

-- two handles open at once: a WAV writer with a chunk and an ALAC writer; closing one leaves the other's holdings in place
example : (runAt {} [(0, .open wavFloatW), (1, .open alacW), (0, .setChunk true)]).held .heap = 6 + 6 := by decide
example : (runAt {} [(0, .open wavFloatW), (1, .open alacW), (0, .setChunk true), (1, .close true)]).held .heap = 6 := by decide
example : (runAt {} [(0, .open wavFloatW), (1, .open alacW), (0, .close true), (1, .close true)]).hs = [] := by decide

/-! ### call-dispatch rules repaired after the campaign found them (KF-C16-dither-twice, KF-C16-aiff-ima-seek-write) -/

open Sf.Ledger.Calls in
/-- what every history of dither commands keeps true under the current rule -/
def DitherGood (s : Sf.Ledger.Calls.Slot) : Prop :=
  (s.saved = none ∨ s.saved = some .codec) ∧ (s.cur = .wrapper → s.saved = some .codec)

open Sf.Ledger.Calls in
theorem dither_good_step (twice : Bool) (s : Sf.Ledger.Calls.Slot) (h : DitherGood s) (c : Cmd) :
    DitherGood (applyCmd installNew twice s c) := by
  obtain ⟨cur, saved⟩ := s
  cases c <;> cases twice <;> cases cur <;> rcases h with ⟨h1 | h1, h2⟩ <;>
    simp_all [DitherGood, applyCmd, installNew, restore]

open Sf.Ledger.Calls in
/-- **dither_write_terminates.**  Under the current rule of dither_init, after every sequence of SFC_SET_DITHER_ON_WRITE commands
    (dither on / off, in any order, any number of times, also for the entry point a float file handles twice) a write call reaches
    the codec after at most one wrapper. -/
theorem dither_write_terminates (twice : Bool) (cmds : List Cmd) :
    callDepth (runCmds installNew twice cmds) = some 0 ∨ callDepth (runCmds installNew twice cmds) = some 1 := by
  have hg : ∀ (cmds : List Cmd) (s : Sf.Ledger.Calls.Slot), DitherGood s → DitherGood (cmds.foldl (applyCmd installNew twice) s) := by
    intro cmds
    induction cmds with
    | nil => intro s h; exact h
    | cons c rest ih => intro s h; exact ih _ (dither_good_step twice s h c)
  have h := hg cmds {} ⟨Or.inl rfl, by intro h; cases h⟩
  unfold runCmds
  generalize cmds.foldl (applyCmd installNew twice) {} = s at h
  obtain ⟨cur, saved⟩ := s
  cases cur
  · left; rfl
  · right; have := h.2 rfl; simp at this; subst this; rfl

open Sf.Ledger.Calls in
/-- the rule before the repair: enabling twice — or once on the doubly handled entry point — makes the wrapper call itself -/
theorem dither_write_old_rule :
    callDepth (runCmds installOld false [.on, .on]) = none ∧ callDepth (runCmds installOld true [.on]) = none := by decide

open Sf.Ledger.Calls in
/-- **aiff_ima_seek_never_calls_null** (current rule), and the old rule's failure -/
theorem aiff_ima_seek_never_calls_null (a b : Bool) : aiffImaSeek0New a b ≠ .callsNull := by
  cases a <;> cases b <;> decide

open Sf.Ledger.Calls in
theorem aiff_ima_seek_old_rule : aiffImaSeek0Old false true = .callsNull := by decide

open Sf.Ledger.Calls in
example : callDepth (runCmds installNew true [.on, .on, .off, .on]) = some 1 := by decide
open Sf.Ledger.Calls in
example : aiffImaSeek0New false true = .badSeek ∧ aiffImaSeek0New true false = .ok := by decide

end Sf.C16
