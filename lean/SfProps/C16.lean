/-
  C16 — no leaked memory, descriptors or temporary files for any call history (theorems about Sf.Ledger).
-/
import SfModel.Ledger
namespace Sf.C16
open Sf.Ledger

/-- sf_close returns 0 when the underlying close succeeds: psf_close keeps only psf_fclose's result -/
theorem close_returns_zero_when_io_ok (w : World) (h : Handle) (hw : w.h = some h) :
    (step w (.close true)).2 = 0 := by
  simp [step, hw, closeRet]

example : (step { h := some {} } (.close true)).2 = 0 := by decide

end Sf.C16
