/-
  C09 — a refused SFC_SET_CHANNEL_MAP_INFO leaves the container's private channel mask / layout tag alone, so the closed file
  carries the map accepted before (the clause `file` / `reopen` of Sf.AbsTwin on the twin runs of vlib/chmapfix.py `twin_pass` and
  vlib/c09twin.py).  Model: SfModel/ChmapPriv.lean (handler × refusal branch).
-/
import SfModel.ChmapPriv
namespace Sf.C09ChmapPriv
open Sf Sf.ChmapPriv

/-- **the code** (every handler overwrites, the refusal branch re-derives): a refused call changes nothing — neither
    psf->channel_map nor the mask / tag that goes into the header -/
theorem refused_leaves_priv (s : PSt) (new : List Nat) (hi : PInv s) (hr : (setNow s new).1 = 0) : (setNow s new).2 = s := by
  obtain ⟨c, m, p⟩ := s
  by_cases hd : derive c new = 0
  · cases m with
    | none => simp [PInv] at hi; simp [setNow, setValid, handler, hd, hi]
    | some old => simp [PInv] at hi; simp [setNow, setValid, handler, hd, hi.1]
  · simp [setNow, setValid, handler, hd] at hr

/-- an accepted call establishes the invariant, a refused one keeps it: it holds along every history from a fresh handle -/
theorem inv_preserved (s : PSt) (new : List Nat) (hi : PInv s) : PInv (setNow s new).2 := by
  by_cases hd : derive s.container new = 0
  · have hr : (setNow s new).1 = 0 := by
      obtain ⟨c, m, p⟩ := s
      cases m <;> simp_all [setNow, setValid, handler]
    rw [refused_leaves_priv s new hi hr]; exact hi
  · simp [setNow, setValid, handler, hd, PInv]

theorem inv_fresh (c : Nat) : PInv { container := c, map := none, priv := 0 } := by simp [PInv]

/-- what the header writer uses is unchanged by a refused call -/
theorem refused_leaves_file_mask (s : PSt) (new : List Nat) (hi : PInv s) (hr : (setNow s new).1 = 0) :
    written (setNow s new).2 = written s := by rw [refused_leaves_priv s new hi hr]

/-- transactional handlers need no re-derivation -/
theorem transactional_refused_leaves_priv (rd : Bool) (s : PSt) (new : List Nat) (hr : (setValid .transactional rd s new).1 = 0)
    (hi : PInv s) : (setValid .transactional rd s new).2 = s := by
  obtain ⟨c, m, p⟩ := s
  by_cases hd : derive c new = 0
  · cases m with
    | none => simp [setValid, handler, hd]
    | some old =>
      simp [PInv] at hi
      cases rd <;> simp [setValid, handler, hd, hi.2, hi.1]
  · simp [setValid, handler, hd] at hr

/-- an RF64 handle, mono, map [3] (RIGHT) accepted: mask 2 -/
def rf64Right : PSt := { container := ChmapVerdict.cRF64, map := some [3], priv := 2 }

/-- **one handler left overwriting while the refusal branch no longer re-derives** (the combination no single site shows): the map
    [1] (MONO has no mask bit) is refused, psf->channel_map still says [3], and the mask that goes into the file is 0 -/
theorem overwrite_without_rederive_zeroes_mask :
    PInv rf64Right ∧ (setValid .overwrite false rf64Right [1]).1 = 0 ∧ (setValid .overwrite false rf64Right [1]).2.map = some [3] ∧
    written (setValid .overwrite false rf64Right [1]).2 = 0 ∧ written (setNow rf64Right [1]).2 = 2 := by
  refine ⟨by decide, by decide, by decide, by decide, by decide⟩

def refused_no_effect_any_combination : Prop :=
  ∀ (hd : Handler) (rd : Bool) (s : PSt) (new : List Nat), PInv s → (setValid hd rd s new).1 = 0 → (setValid hd rd s new).2 = s

theorem refused_no_effect_any_combination_fails : ¬ refused_no_effect_any_combination := by
  intro h
  have := h .overwrite false rf64Right [1] (by decide) (by decide)
  revert this; decide

/-- non-vacuity: an accepted map reaches the invariant; the refused one is really refused -/
example : (setNow { container := ChmapVerdict.cRF64, map := none, priv := 0 } [3]).2 = rf64Right ∧ (setNow rf64Right [1]).1 = 0 ∧
    PInv (setNow { container := ChmapVerdict.cRF64, map := none, priv := 0 } [3]).2 := by
  refine ⟨by decide, by decide, by decide⟩

end Sf.C09ChmapPriv
