-- properties: C08 C04
/-
  C08 (and the read/write corner of C04) — an SDS file opened SFM_RDWR keeps its sample count (model
  lean/SfModel/SdsRdwr.lean; repaired in round 9, known_findings KF-SDS-RDWR-IDLE).  Property theorems only.
-/
import SfModel.SdsRdwr
import SfProofs.SdsFileLemmas
import SfProps.C04Sds
namespace Sf.C08SdsRdwr
open Sf Sf.Sds Sf.SdsFile Sf.SdsRdwr

/-- the sample period survives the round trip period → rate → period for every rate whose period fits the field -/
theorem period_stable (sr : Nat) (h1 : 477 ≤ sr) (h2 : sr ≤ 1000000000) :
    1000000000 / rateOf (period sr) = 1000000000 / sr := by
  have hp1 : 1 ≤ 1000000000 / sr := Nat.div_pos h2 (by omega)
  have hp2 : 1000000000 / sr < 2 ^ 21 := (Nat.div_lt_iff_lt_mul (by omega)).mpr (by omega)
  unfold period rateOf
  rw [Nat.mod_eq_of_lt hp2, if_pos (by omega)]
  apply Nat.le_antisymm
  · exact Nat.div_le_div_left (Sf.C04Sds.div_div_ge _ _ (by omega) h2) (by omega)
  · exact Sf.C04Sds.div_div_ge _ _ (by omega) (Nat.div_le_self _ _)

theorem open_fields (bw sr n : Nat) (body : List Byte) :
    openRw (header bw sr n ++ body) =
      { bitwidth := 8 * ((bw + 7) / 8), rate := rateOf ((1000000000 / sr) % 2 ^ 21), frames := n % 2 ^ 21, written := 0, body := body } := by
  have h6 : (header bw sr n ++ body).getD 6 0 = bw := by simp [header, enc3]
  have h7 : ((header bw sr n ++ body).drop 7).take 3 = enc3 (1000000000 / sr) := by simp [header, enc3]
  have h10 : ((header bw sr n ++ body).drop 10).take 3 = enc3 n := by simp [header, enc3]
  have h21 : (header bw sr n ++ body).drop 21 = body := by simp [header, enc3]
  unfold openRw
  rw [h6, h7, h10, h21, dec3_enc3, dec3_enc3]

/-- **rdwr_idle_keeps_file.**  Every file that starts with a header the library writes (bit width 8 / 16 / 24, a rate
    whose period fits the field, a sample count that fits the field) and ANY bytes behind it is byte for byte the same
    after it was opened SFM_RDWR and closed with nothing written. -/
theorem rdwr_idle_keeps_file (bw sr n : Nat) (body : List Byte) (hbw : bw = 8 ∨ bw = 16 ∨ bw = 24)
    (h1 : 477 ≤ sr) (h2 : sr ≤ 1000000000) (hn : n < 2 ^ 21) :
    idle .current (header bw sr n ++ body) = header bw sr n ++ body := by
  have hp := period_stable sr h1 h2
  unfold period at hp
  unfold idle bytes count
  rw [open_fields]
  simp only
  have hb : 8 * ((bw + 7) / 8) = bw := by rcases hbw with h | h | h <;> subst h <;> rfl
  rw [hb, Nat.mod_eq_of_lt hn]
  unfold header
  rw [hp]

/-- … in particular every file a write session of the model produces -/
theorem rdwr_idle_keeps_session_file (c : Cfg) (hwf : c.wf) (stale : Nat) (ops : List WOp)
    (h1 : 477 ≤ c.sr) (h2 : c.sr ≤ 1000000000) (hn : (opsData ops).length < 2 ^ 21) :
    idle .current (closedBytes c stale ops) = closedBytes c stale ops := by
  obtain ⟨body, hb, _⟩ := Sf.C04Sds.sds_size_fields c hwf stale ops _ rfl
  rw [hb]
  refine rdwr_idle_keeps_file _ _ _ body ?_ h1 h2 hn
  rcases hwf.1 with h | h | h <;> simp [Cfg.bitwidth, h]

example : (closedBytes ⟨2, 44100⟩ 0 [.write [1, 2, 3] false]).length = 148 ∧
    idle .current (closedBytes ⟨2, 44100⟩ 0 [.write [1, 2, 3] false]) = closedBytes ⟨2, 44100⟩ 0 [.write [1, 2, 3] false] ∧
    lengthField (closedBytes ⟨2, 44100⟩ 0 [.write [1, 2, 3] false]) = 3 := by decide +kernel

/-- **rdwr_append_count.**  After appending k samples through a fresh SFM_RDWR handle the header announces the old count
    plus k. -/
theorem rdwr_append_count (bw sr n k : Nat) (body body' : List Byte) (hn : n < 2 ^ 21) :
    lengthField (bytes .current (append (openRw (header bw sr n ++ body)) k body')) = (n + k) % 2 ^ 21 := by
  rw [open_fields]
  have h10 : ∀ b r m, ((header b r m ++ body').drop 10).take 3 = enc3 m := by intro b r m; simp [header, enc3]
  unfold lengthField bytes append count
  simp only
  rw [h10, dec3_enc3, Nat.mod_eq_of_lt hn]

example : lengthField (bytes .current (append (openRw (header 16 44100 80 ++ [])) 40 [])) = 120 := by decide +kernel

/-- **rdwr_idle_old_rule.**  Before the repair EVERY file came out of an idle SFM_RDWR open / close with a sample count of
    0, and an append left the count of the appended samples only. -/
theorem rdwr_idle_old_rule (file : List Byte) : lengthField (idle .old file) = 0 := by
  have h10 : ∀ b r (t : List Byte), ((header b r 0 ++ t).drop 10).take 3 = enc3 0 := by intro b r t; simp [header, enc3]
  unfold lengthField idle bytes count openRw
  simp only
  rw [h10, dec3_enc3]

theorem rdwr_append_old_rule (file body' : List Byte) (k : Nat) :
    lengthField (bytes .old (append (openRw file) k body')) = k % 2 ^ 21 := by
  have h10 : ∀ b r m (t : List Byte), ((header b r m ++ t).drop 10).take 3 = enc3 m := by intro b r m t; simp [header, enc3]
  unfold lengthField bytes append count openRw
  simp only
  rw [h10, dec3_enc3, Nat.zero_add]

/-- the full statement fails for the old rule: a file of 100 samples -/
theorem rdwr_idle_full_old_rule_fails :
    ¬ (∀ (bw sr n : Nat) (body : List Byte), (bw = 8 ∨ bw = 16 ∨ bw = 24) → 477 ≤ sr → sr ≤ 1000000000 → n < 2 ^ 21 →
        idle .old (header bw sr n ++ body) = header bw sr n ++ body) := by
  intro h
  have h1 := h 16 44100 100 [] (by decide) (by decide) (by decide) (by decide)
  have h2 := rdwr_idle_old_rule (header 16 44100 100 ++ [])
  rw [h1] at h2
  revert h2; decide +kernel

end Sf.C08SdsRdwr
