/-
  C19 — "results are independent of what the library did earlier in the same process", for the header bytes a writer emits:
  with the buffer growth that clears what it gains (the code as it is) the emitted header is a function of the writer's own
  operations — whatever the heap held (`emit_independent_of_heap`), gaps left by the 'o' specifier are zero bytes (`gap_is_zero`);
  without the clearing the bytes of a gap beyond the 256 initial bytes are the heap's (`no_clearing_rule_leaks_heap`).
  Model: SfModel/HeaderBuf.lean.  Campaign: vlib/heapcamp.py (every writer script under three allocator fills, SD2 resource fork
  included).
-/
import SfModel.HeaderBuf
namespace Sf.C19Heap
open Sf Sf.HeaderBuf

/-- the cleared tail does not look at the heap -/
theorem tail_zero_irrel (j j' : Junk) (n : Nat) : tail .zeroTail j n = tail .zeroTail j' n := rfl

theorem bump_zero_irrel (j j' : Junk) (b : Buf) (n : Nat) : bump .zeroTail j b n = bump .zeroTail j' b n := rfl

theorem wstep_zero_irrel (j j' : Junk) (b : Buf) (op : WOp) : wstep .zeroTail j b op = wstep .zeroTail j' b op := by
  cases op <;> rfl

/-- **heap independence**: any sequence of header-writing operations, from any buffer state, any two heaps: the same buffer
    (hence the same emitted bytes) -/
theorem wrun_independent_of_heap (j j' : Junk) : ∀ (ops : List WOp) (b : Buf),
    wrun .zeroTail j b ops = wrun .zeroTail j' b ops := by
  intro ops
  induction ops with
  | nil => intro b; rfl
  | cons op ops ih =>
    intro b
    simp only [wrun, List.foldl_cons]
    rw [wstep_zero_irrel j j' b op]
    exact ih _

theorem emit_independent_of_heap (j j' : Junk) (ops : List WOp) (b : Buf) :
    emit (wrun .zeroTail j b ops) = emit (wrun .zeroTail j' b ops) := by
  rw [wrun_independent_of_heap j j']

/-- every byte of the buffer is zero until something is stored: growth keeps it so -/
theorem bump_zero_all_zero (j : Junk) (b : Buf) (n : Nat) (h : ∀ x ∈ b.bytes, x = 0) : ∀ x ∈ (bump .zeroTail j b n).bytes, x = 0 := by
  intro x hx
  simp only [bump, tail, List.mem_append, List.mem_replicate] at hx
  rcases hx with hx | hx
  · exact h x hx
  · exact hx.2

/-- **gaps are zero bytes**: a fresh handle whose writer jumps to offset `off` (any offset, beyond the initial 256 bytes too) and
    stores `d` there emits `off` zero bytes and then `d`, whatever the heap held -/
theorem gap_is_zero (j : Junk) (off : Nat) (d : List Byte) :
    emit (wrun .zeroTail j Buf.init [.at_ off, .put d]) = List.replicate off 0 ++ d := by
  -- the buffer after the jump: all zero, at least `off` long … (the 'o' guard is `off >= len`, so the buffer is LONGER than off)
  have key : ∀ (b : Buf), (∀ x ∈ b.bytes, x = 0) → off < b.bytes.length → b.indx = off →
      emit (wstep .zeroTail j b (.put d)) = List.replicate off 0 ++ d := by
    intro b hz hl hi
    have hz2 : ∀ (b1 : Buf), (∀ x ∈ b1.bytes, x = 0) → off ≤ b1.bytes.length → b1.bytes.take off = List.replicate off 0 := by
      intro b1 h1 h2
      apply List.ext_getElem
      · simp [List.length_take]; omega
      · intro i hi1 hi2
        simp only [List.getElem_take, List.getElem_replicate]
        exact h1 _ (List.getElem_mem _)
    simp only [wstep, emit, hi]
    split
    · rename_i hge
      have hb := bump_zero_all_zero j b (off + d.length) hz
      have hlen : off ≤ (bump .zeroTail j b (off + d.length)).bytes.length := by
        simp only [bump, List.length_append]; omega
      have e1 : (bump .zeroTail j b (off + d.length)).indx = off := by simp [bump, hi]
      simp only [e1, store]
      rw [List.take_append_of_le_length (by simp [List.length_take]; omega)]
      rw [List.take_of_length_le (by simp [List.length_take]; omega)]
      rw [hz2 _ hb hlen]
    · simp only [store]
      rw [List.take_append_of_le_length (by simp [List.length_take]; omega)]
      rw [List.take_of_length_le (by simp [List.length_take]; omega)]
      rw [hi, hz2 b hz (by omega)]
  have hinit : ∀ x ∈ Buf.init.bytes, x = 0 := by
    intro x hx; simp only [Buf.init, List.mem_replicate] at hx; exact hx.2
  simp only [wrun, List.foldl_cons, List.foldl_nil]
  apply key
  · -- all zero after the jump
    simp only [wstep]
    split
    · exact bump_zero_all_zero j Buf.init off hinit
    · exact hinit
  · simp only [wstep]
    split
    · rename_i hge
      simp only [bump, tail, newLen, List.length_append, List.length_replicate]
      simp only [Buf.init, List.length_replicate] at hge ⊢
      (repeat' split) <;> omega
    · rename_i hlt
      simp only [Buf.init, List.length_replicate] at hlt ⊢
      try omega
  · simp only [wstep]

/-- the same program under the growth WITHOUT the memset: the gap beyond byte 256 is the heap's — two heaps, two files.
    (offset 300 and one byte, the shape of sd2_write_rsrc_fork: data section at 0x100, items placed with 'o') -/
theorem no_clearing_rule_leaks_heap :
    emit (wrun .keepJunk (fun _ => 0x4b) Buf.init [.at_ 300, .put [1]]) ≠
    emit (wrun .keepJunk (fun _ => 0xd7) Buf.init [.at_ 300, .put [1]]) ∧
    (emit (wrun .keepJunk (fun _ => 0x4b) Buf.init [.at_ 300, .put [1]])).drop 256 = List.replicate 44 0x4b ++ [1] := by
  refine ⟨by decide +kernel, by decide +kernel⟩

/-- non-vacuity: the SD2-like layout under the real rule, two different heaps -/
example : emit (wrun .zeroTail (fun _ => 0x4b) Buf.init [.put [1, 2], .at_ 300, .put [7], .at_ 600, .put [9]]) =
    emit (wrun .zeroTail (fun k => k % 256) Buf.init [.put [1, 2], .at_ 300, .put [7], .at_ 600, .put [9]]) ∧
    (emit (wrun .zeroTail (fun _ => 0x4b) Buf.init [.put [1, 2], .at_ 300, .put [7], .at_ 600, .put [9]])).length = 601 := by
  refine ⟨by decide +kernel, by decide +kernel⟩

end Sf.C19Heap
