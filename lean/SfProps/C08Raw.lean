/-
  C08 (and the read/write half of C05 / C11): raw reads and raw writes as operations of a read/write history, every read entry
  point as a bystander of the write side, and the length rule of a header update on a file with content behind the audio
  (SfModel/RdwrTail.lean).  Property theorems only.
-- properties: C08 C11 C05
-/
import SfModel.RdwrTail
import SfProps.C08Abs
namespace Sf.C08Raw
open Sf Sf.Abs

/-! ## sf_read_raw on a read/write handle -/

/-- an accepted sf_read_raw — ANY byte count, also one that runs past the end of the audio, also a refused one — leaves the WRITE
    side of the handle alone: write position, frame count, streams.  (`last_op` is not part of the abstract state; this is its
    observable meaning: the next write is judged at the write position from before the read.) -/
theorem rawRead_keeps_write_side (g : Geom) (st : St) (n : Int) (o : Out) (st' : St) (h : rawReadOk g st n o = .ok st') :
    st'.wpos = st.wpos ∧ st'.frames = st.frames ∧ st'.ref = st.ref ∧ st'.valid = st.valid ∧ st'.mode = st.mode ∧
    st'.raw = st.raw ∧ st'.rawValid = st.rawValid := by
  unfold rawReadOk at h
  simp only at h
  repeat' split at h
  all_goals first | (exact Res.noConfusion h) | skip
  all_goals (injection h with h; subst h; exact ⟨rfl, rfl, rfl, rfl, rfl, rfl, rfl⟩)

/-- the count and position clauses of an accepted, well-formed sf_read_raw inside the data: whole frames, clamped at the end of
    the audio (NOT at the end of the file: bytes behind the audio are never delivered), read position advanced by exactly that -/
theorem rawRead_meaning (g : Geom) (st : St) (n : Int) (o : Out) (st' : St) (hb : g.bw ≠ 0) (hm : st.mode ≠ .w)
    (hn : 0 ≤ n) (ha : n.toNat % g.bw = 0) (hin : st.rpos < st.frames) (h : rawReadOk g st n o = .ok st') :
    o.ret = ((min (n.toNat / g.bw) (st.frames - st.rpos) * g.bw : Nat) : Int) ∧ o.err = false ∧
    st'.rpos = st.rpos + min (n.toNat / g.bw) (st.frames - st.rpos) ∧
    (st.frames - st.rpos ≤ n.toNat / g.bw → st'.rpos = st.frames) := by
  unfold rawReadOk at h
  rw [if_neg hb, if_neg hm] at h
  rw [if_neg (by omega)] at h
  rw [if_neg (by omega)] at h
  simp only at h
  split at h
  · exact absurd h (by simp)
  · rename_i h1
    split at h
    · exact absurd h (by simp)
    · split at h
      · exact absurd h (by simp)
      · rename_i h3
        injection h with h; subst h
        refine ⟨by simpa using h1, by simpa using h3, rfl, fun hle => ?_⟩
        simp only
        rw [Nat.min_eq_right hle]; omega

/-- the pattern of the seeded regression C08-readraw-lastop as a theorem: write, sf_read_raw (any count), write — the second
    write is judged at the position the first one ended at, whatever the raw read did with the descriptor -/
theorem write_rawRead_write (g : Geom) (st st1 st2 st3 : St) (ty : Ty) (fc fc' : Bool) (n n' m : Int) (d d' : Array Item)
    (o o' oq : Out) (hr : WriteReq g st fc n) (hw : writeOk g st ty fc n d o = .ok st1)
    (hq : rawReadOk g st1 m oq = .ok st2) (hr' : WriteReq g st2 fc' n') (hw' : writeOk g st2 ty fc' n' d' o' = .ok st3) :
    st3.wpos = st.wpos + retItems g fc o.ret / g.ch + retItems g fc' o'.ret / g.ch ∧ st2.wpos = st1.wpos ∧ st2.ref = st1.ref := by
  obtain ⟨_, _, _, _, _, hwp, _⟩ := C08Abs.write_contract_abs g st ty fc n d o st1 hr hw
  obtain ⟨_, _, _, _, _, hwp', _⟩ := C08Abs.write_contract_abs g st2 ty fc' n' d' o' st3 hr' hw'
  obtain ⟨a, _, c, _⟩ := rawRead_keeps_write_side g st1 m oq st2 hq
  exact ⟨by rw [hwp', a, hwp], a, c⟩

/-! ## every read entry point is a bystander of the write side -/

theorem read_keeps_write_side (g : Geom) (st : St) (ty : Ty) (fc : Bool) (n : Int) (o : Out) (st' : St)
    (h : readOk g st ty fc n o = .ok st') :
    st'.wpos = st.wpos ∧ st'.frames = st.frames ∧ st'.ref = st.ref ∧ st'.valid = st.valid ∧ st'.mode = st.mode ∧
    st'.raw = st.raw ∧ st'.rawValid = st.rawValid := by
  unfold readOk at h
  by_cases hn : n = 0
  · rw [if_pos hn] at h
    split at h
    · injection h with h; subst h; exact ⟨rfl, rfl, rfl, rfl, rfl, rfl, rfl⟩
    · exact Res.noConfusion h
  · rw [if_neg hn] at h
    by_cases hv : (!validReq g fc n || decide (st.mode = .w)) = true
    · rw [if_pos hv] at h
      split at h
      · injection h with h; subst h; exact ⟨rfl, rfl, rfl, rfl, rfl, rfl, rfl⟩
      · exact Res.noConfusion h
    · rw [if_neg hv] at h
      simp only at h
      repeat' split at h
      all_goals first | (exact Res.noConfusion h) | skip
      all_goals (injection h with h; subst h; exact ⟨rfl, rfl, rfl, rfl, rfl, rfl, rfl⟩)

/-- the lines that only read or ask: the 8 typed read entry points, sf_read_raw, SFC_GET_CURRENT_SF_INFO, any query -/
def readLike : Op → Bool
  | .read _ _ _ | .rawRead _ | .info | .other => true
  | _ => false

/-- FULL STRENGTH: ANY accepted run of read-like lines — every read entry point, any counts (zero, partial frames, past the end),
    in any order, with any queries in between — leaves write position, frame count and streams exactly as they were: the next
    write, through whichever entry point, is judged where the previous one ended -/
theorem readLike_keeps_write_side (g : Geom) : ∀ (tr : List (Op × Out)) (st st' : St),
    (∀ l ∈ tr, readLike l.1 = true) → accepts g st tr = some st' →
    st'.wpos = st.wpos ∧ st'.frames = st.frames ∧ st'.ref = st.ref ∧ st'.valid = st.valid ∧ st'.mode = st.mode := by
  intro tr
  induction tr with
  | nil => intro st st' _ h; simp only [accepts] at h; injection h with h; subst h; simp
  | cons l tr ih =>
    intro st st' hall h
    obtain ⟨op, o⟩ := l
    simp only [accepts] at h
    split at h
    · rename_i st1 hc
      have hstep : st1.wpos = st.wpos ∧ st1.frames = st.frames ∧ st1.ref = st.ref ∧ st1.valid = st.valid ∧ st1.mode = st.mode := by
        have hl := hall (op, o) (by simp)
        cases op with
        | read ty fc n => obtain ⟨a, b, c, d, e, _⟩ := read_keeps_write_side g st ty fc n o st1 hc; exact ⟨a, b, c, d, e⟩
        | rawRead n => obtain ⟨a, b, c, d, e, _⟩ := rawRead_keeps_write_side g st n o st1 hc; exact ⟨a, b, c, d, e⟩
        | info =>
          simp only [check, infoOk] at hc
          split at hc
          · injection hc with hc; subst hc; simp
          · exact absurd hc (by simp)
        | other => simp only [check] at hc; injection hc with hc; subst hc; simp
        | write _ _ _ _ => simp [readLike] at hl
        | seek _ _ => simp [readLike] at hl
        | trunc _ => simp [readLike] at hl
        | rawWrite _ _ => simp [readLike] at hl
        | close => simp [readLike] at hl
        | reopen _ => simp [readLike] at hl
      obtain ⟨a, b, c, d, e⟩ := ih st1 st' (fun x hx => hall x (by simp [hx])) h
      obtain ⟨a', b', c', d', e'⟩ := hstep
      exact ⟨by rw [a, a'], by rw [b, b'], by rw [c, c'], by rw [d, d'], by rw [e, e']⟩
    · exact absurd h (by simp)

/-! ## sf_write_raw -/

/-- an accepted, well-formed sf_write_raw on a handle that may write: everything is written, the write position and the frame count
    advance by whole frames, the read position stays, the byte stream holds the bytes at the write position -/
theorem rawWrite_meaning (g : Geom) (st : St) (n : Int) (d : Array Item) (o : Out) (st' : St) (hb : g.bw ≠ 0) (hm : st.mode ≠ .r)
    (hn : 0 < n) (ha : n.toNat % g.bw = 0) (h : rawWriteOk g st n d o = .ok st') :
    o.ret = n ∧ o.err = false ∧ st'.wpos = st.wpos + n.toNat / g.bw ∧ st'.frames = max st.frames (st.wpos + n.toNat / g.bw) ∧
    st'.rpos = st.rpos ∧ st'.raw = writeAt 0 st.raw (st.wpos * g.bw) (d.extract 0 n.toNat) := by
  unfold rawWriteOk at h
  rw [if_neg hb] at h
  rw [if_neg (by intro hc; rcases hc with hc | hc | hc; exact hm hc; omega; exact absurd ha hc)] at h
  rw [if_neg (by omega)] at h
  simp only at h
  split at h
  · exact absurd h (by simp)
  · split at h
    · exact absurd h (by simp)
    · rename_i h2
      split at h
      · exact absurd h (by simp)
      · rename_i h3
        injection h with h; subst h
        exact ⟨by simpa using h2, by simpa using h3, rfl, rfl, rfl, rfl⟩

/-! ## the header update on a file with content behind the audio (SfModel/RdwrTail.lean) -/

open Sf.RdwrTail

/-- FULL STRENGTH (current rule of wav.c, caf.c, rf64.c): on a seekable fixed-width file without an end-of-audio mark a header
    update keeps the frame count of the handle, WHATEVER the length of the file — bytes left over behind the audio are not audio -/
theorem update_keeps_frames (s : Len) (h0 : s.dataend = 0) (hw : 0 < s.width) (hs : s.seekable = true) :
    framesAfter (dataLen s) s = s.frames := by
  simp [framesAfter, dataLen, h0, hw, hs, Nat.mul_div_cancel _ hw]

/-- … in particular right after ANY write entry point grew the file (the guard drops the mark) -/
theorem update_after_growth (s : Len) (wpos : Nat) (hg : s.frames < wpos) (hw : 0 < s.width) (hs : s.seekable = true) :
    framesAfter (dataLen (grow s wpos)) (grow s wpos) = wpos := by
  have : grow s wpos = { s with frames := wpos, dataend := 0 } := by simp [grow, hg]
  rw [this]
  exact update_keeps_frames _ rfl hw hs

/-- old rule of caf.c / rf64.c (before FX-CAF-UPDATE-STALE-TAIL / FX-RF64-UPDATE-STALE-TAIL): the witness of the finding — a CAF
    file of 9 16-bit frames with a 40-byte info chunk behind them, 3 frames written from frame 8 on: 11 frames, 58 bytes behind
    the data offset; the update makes it 29 frames -/
theorem update_old_rule_inflates :
    ∃ s : Len, s.dataend = 0 ∧ 0 < s.width ∧ s.seekable = true ∧ framesAfter (dataLenOld s) s ≠ s.frames :=
  ⟨{ filelength := 4096 + 58, dataoffset := 4096, dataend := 0, frames := 11, width := 2 }, rfl, by decide, rfl, by decide⟩

/-- where the file ends with its audio (every write-mode session; a read/write session on a file without trailing content) the two
    rules agree: `Sf.Caf.writeHeader` / `Sf.Rf64.writeHeader` (old formula) stay exact descriptions of those sessions -/
theorem rules_agree_without_tail (s : Len) (h : s.filelength - s.dataoffset = s.frames * s.width) : dataLen s = dataLenOld s := by
  unfold dataLen dataLenOld
  simp only
  split
  · rfl
  · split
    · exact h.symm
    · rfl

/-- a mark that is still set wins: the data ends there -/
theorem update_with_mark (s : Len) (h : s.dataend ≠ 0) (h1 : s.dataoffset ≤ s.dataend) (h2 : s.dataend ≤ s.filelength) :
    dataLen s = s.dataend - s.dataoffset := by
  simp [dataLen, h]; omega

/-- the seeded regression C11-writef-int-dataend as a theorem about the rule with the lost assignment: the mark survives the
    growth, and the update shrinks the frame count back to the old end of the audio -/
theorem stale_mark_loses_frames (s : Len) (wpos : Nat) (hg : s.frames < wpos) (hw : 0 < s.width) (h : s.dataend ≠ 0)
    (hend : s.dataend = s.dataoffset + s.frames * s.width) (h2 : s.dataend ≤ s.filelength) :
    framesAfter (dataLen (growKeepsMark s wpos)) (growKeepsMark s wpos) = s.frames ∧ s.frames < (growKeepsMark s wpos).frames := by
  have e : growKeepsMark s wpos = { s with frames := wpos } := by simp [growKeepsMark, hg]
  rw [e]
  refine ⟨?_, hg⟩
  have : dataLen { s with frames := wpos } = s.dataend - s.dataoffset := by
    simp [dataLen, h]; omega
  rw [this, hend]
  simp [framesAfter, hw, Nat.mul_div_cancel _ hw]

/-! ## non-vacuity -/

def exG : Geom := { ch := 1, bw := 2, frames0 := 0, mode0 := .w, strictSeek := true, lossless := fun ty => ty = .s16 }

/-- a file of 4 frames; read/write: write 1 frame at 1, raw read of 8 bytes from frame 3 (1 frame is left: 2 bytes delivered),
    write 1 frame (lands at 2), read back frames 1..3 -/
def exTr : List (Op × Out) :=
  [(.reopen .w, {}), (.write .s16 true 4 #[1, 2, 3, 4], { ret := 4 }), (.close, { ret := 0 }), (.reopen .rw, { frames := 4 }),
   (.seek 1 0x20, { ret := 1 }), (.seek 3 0x10, { ret := 3 }), (.write .s16 false 1 #[7], { ret := 1 }),
   (.rawRead 8, { ret := 2, data := #[4, 0, 0, 0, 0, 0, 0, 0] }), (.write .s16 true 1 #[8], { ret := 1 }),
   (.seek 0 0x21, { ret := 3 }), (.seek 1 0x10, { ret := 1 }), (.read .s16 true 3, { ret := 3, data := #[7, 8, 4] })]

example : holdsOn exG (fun _ => #[]) (fun _ => true) exTr = .ok 12 := by decide +kernel
/-- the seeded behaviour (the second write lands behind the audio, frame 2 keeps its old value): refused, clause `data` -/
example : holdsOn exG (fun _ => #[]) (fun _ => true) (exTr.take 11 ++ [(.read .s16 true 3, { ret := 3, data := #[7, 3, 4] })]) = .bad 11 "data" := by
  decide +kernel
/-- a raw read that delivers the bytes behind the audio as audio: refused, clause `count` -/
example : holdsOn exG (fun _ => #[]) (fun _ => true) (exTr.take 7 ++ [(.rawRead 8, { ret := 8, data := #[4, 0, 9, 9, 9, 9, 9, 9] })]) = .bad 7 "count" := by
  decide +kernel
example : (Len.mk 4154 4096 0 11 2 true).dataend = 0 ∧ framesAfter (dataLen (Len.mk 4154 4096 0 11 2 true)) (Len.mk 4154 4096 0 11 2 true) = 11 ∧
    framesAfter (dataLenOld (Len.mk 4154 4096 0 11 2 true)) (Len.mk 4154 4096 0 11 2 true) = 29 := by decide
example : framesAfter (dataLen (growKeepsMark (Len.mk 4154 4096 4114 9 2 true) 11)) (growKeepsMark (Len.mk 4154 4096 4114 9 2 true) 11) = 9 ∧
    framesAfter (dataLen (grow (Len.mk 4154 4096 4114 9 2 true) 11)) (grow (Len.mk 4154 4096 4114 9 2 true) 11) = 11 := by decide

end Sf.C08Raw
