/-
  C12 — the twin clause on the models: "Setting an item the container cannot store, or too late, is reported as failure or ignored,
  but never alters the audio data or other metadata", for WHOLE histories.  The predicate (Sf.AbsMeta.twinFails) compares a run
  with the run that leaves the refused calls out; here the models are shown to satisfy exactly that: a handle driven through any
  list of operations ends in the SAME state as the handle driven through the list without the calls the library refuses
  (`twin_run_model` for WAV / WAVEX / RF64 handles, `twin_run_model_x` for AIFF / CAF handles) — hence the same file, the same
  answers of every getter after re-open, the same audio.
-/
import SfProps.C12
import SfProps.C12Order
import SfModel.MetaXState
namespace Sf.C12Twin
open Sf Sf.Meta

/-- a refused metadata call leaves the WHOLE handle as it was -/
theorem step_refused_eq (pn pv : List Byte) (h : MetaState) (op : Op) (hop : op.isAudio = false)
    (hr : refused op (step pn pv h op).1 = true) : (step pn pv h op).2 = h := by
  cases op with
  | writeAudio b => simp [Op.isAudio] at hop
  | setString ty s =>
    simp only [step] at hr ⊢
    split
    · rfl
    · rename_i hm
      simp only [hm, if_false] at hr
      simp only [refused, decide_eq_true_eq] at hr
      have := store_refused_unchanged ⟨h.mode, h.haveWritten, pn, pv⟩ h.strings ty s hr
      cases h
      simp_all
  | setBext line b d ds => revert hr; simp only [step]; (repeat' split) <;> simp [refused]
  | setCart j c d ds => revert hr; simp only [step]; (repeat' split) <;> simp [refused]
  | setCues cs => revert hr; simp only [step]; (repeat' split) <;> simp [refused]
  | setInst i => revert hr; simp only [step]; (repeat' split) <;> simp [refused]

/-- is the call refused by the handle in state `h`? -/
def refusedAt (pn pv : List Byte) (h : MetaState) (op : Op) : Bool := !op.isAudio && refused op (step pn pv h op).1

/-- the twin run: the same operations without the calls the library refuses (decided as the run goes) -/
def runTwin (pn pv : List Byte) : MetaState → List Op → MetaState
  | h, [] => h
  | h, op :: ops => if refusedAt pn pv h op then runTwin pn pv h ops else runTwin pn pv (step pn pv h op).2 ops

/-- **twin_run_model** — the model satisfies the twin clause: leaving out every refused call (too late, a kind the container has no
    place for, inconsistent sizes, a full string table) changes NOTHING: the handle ends in the same state, so the closed file,
    the audio and every getter's answer after re-open are the same -/
theorem twin_run_model (pn pv : List Byte) : ∀ (ops : List Op) (h : MetaState), runTwin pn pv h ops = runOps pn pv h ops
  | [], _ => rfl
  | op :: ops, h => by
    unfold runTwin
    simp only [runOps, List.foldl_cons]
    by_cases hr : refusedAt pn pv h op = true
    · simp only [hr, if_true]
      simp only [refusedAt, Bool.and_eq_true, Bool.not_eq_true'] at hr
      rw [step_refused_eq pn pv h op hr.1 hr.2]
      exact twin_run_model pn pv ops h
    · simp only [hr, Bool.false_eq_true, if_false]
      exact twin_run_model pn pv ops _

/-- non-vacuity: bext on an AIFF handle, a cue list and an instrument after the audio are refused and left out by the twin; the
    string and the audio stay -/
example :
    let h0 := MetaState.open .aiff
    let h1 := (step [] [] h0 (.setString 1 (ascii "T"))).2
    let h3 := (step [] [] h1 (.writeAudio [1, 2])).2
    refusedAt [] [] h0 (.setString 1 (ascii "T")) = false ∧ refusedAt [] [] h1 (.setBext [] bextSample 6 614) = true ∧
    refusedAt [] [] h3 (.setCues []) = true ∧ refusedAt [] [] h3 (.setInst instSample) = true ∧
    (runTwin [] [] h0 [.setString 1 (ascii "T"), .setBext [] bextSample 6 614, .writeAudio [1, 2], .setCues [], .setInst instSample]).strings = h3.strings ∧
    (runTwin [] [] h0 [.setString 1 (ascii "T"), .setBext [] bextSample 6 614, .writeAudio [1, 2], .setCues [], .setInst instSample]).cues = none ∧
    (runTwin [] [] h0 [.setString 1 (ascii "T"), .setBext [] bextSample 6 614, .writeAudio [1, 2], .setCues [], .setInst instSample]).audio = [1, 2] := by
  decide +kernel

/-! ## AIFF / CAF handles -/
open Sf.MetaXS Sf.MetaX

def xrefused : XOp → Nat → Bool
  | .setString _ _, r => r != 0
  | .writeAudio _, _ => false
  | _, r => r == 0

/-- SFC_SET_CHANNEL_MAP_INFO answers SF_FALSE for a valid map exactly when no layout tag exists for it -/
theorem setChannelMap_refused (ch : Nat) (map m : List Nat) (r tag : Nat) (h : setChannelMap ch map = some (r, m, tag)) (hr : r = 0) : tag = 0 := by
  unfold setChannelMap at h
  split at h
  · cases h
  · simp only [Option.some.injEq, Prod.mk.injEq] at h
    obtain ⟨h1, _, h3⟩ := h
    subst hr
    by_cases hf : findTag map ≠ 0
    · simp [hf] at h1
    · simp only [ne_eq, Decidable.not_not] at hf; rw [← h3, hf]

/-- a refused metadata call leaves the WHOLE AIFF / CAF handle as it was (the channel map too, since the repair) -/
theorem xstep_refused_eq (pn pv : List Byte) (h : XState) (op : XOp) (hr : xrefused op (xstep pn pv h op).1 = true) :
    (xstep pn pv h op).2 = h := by
  cases op with
  | writeAudio n => simp [xrefused] at hr
  | setString ty s =>
    simp only [xstep, xstepW, xrefused, bne_iff_ne, ne_eq] at hr ⊢
    have := store_refused_unchanged ⟨.write, h.haveWritten, pn, pv⟩ h.strings ty s hr
    cases h
    simp_all
  | setCues cs => revert hr; simp only [xstep, xstepW]; split <;> simp [xrefused]
  | setInst => revert hr; simp only [xstep, xstepW]; split <;> simp [xrefused]
  | setChmap m =>
    revert hr
    simp only [xstep, xstepW]
    split
    · simp
    · split
      · simp
      · rename_i r mm tag hsc
        intro hr
        simp only [xrefused, beq_iff_eq] at hr
        have ht := setChannelMap_refused h.ch m mm r tag hsc hr
        subst ht
        cases h
        simp [applyChmap]

/-- since the repair ("fix: a refused SFC_SET_CHANNEL_MAP_INFO erased the channel map set before it"), at full strength: on ANY
    AIFF / CAF handle a channel map the call answers SF_FALSE for leaves the handle — the stored map and its layout tag — as it was -/
theorem chmap_refused_keeps_map (pn pv : List Byte) (h : XState) (m : List Nat) (hr : (xstep pn pv h (.setChmap m)).1 = 0) :
    (xstep pn pv h (.setChmap m)).2 = h :=
  xstep_refused_eq pn pv h (.setChmap m) (by simp [xrefused, hr])

def xrunTwin (pn pv : List Byte) : XState → List XOp → XState
  | h, [] => h
  | h, op :: ops => if xrefused op (xstep pn pv h op).1 then xrunTwin pn pv h ops else xrunTwin pn pv (xstep pn pv h op).2 ops

/-- **twin_run_model_x** — AIFF / CAF: leaving out every refused call changes nothing -/
theorem twin_run_model_x (pn pv : List Byte) : ∀ (ops : List XOp) (h : XState), xrunTwin pn pv h ops = xrun pn pv h ops
  | [], _ => rfl
  | op :: ops, h => by
    unfold xrunTwin
    simp only [xrun, List.foldl_cons]
    by_cases hr : xrefused op (xstep pn pv h op).1 = true
    · simp only [hr, if_true]
      rw [xstep_refused_eq pn pv h op hr]
      exact twin_run_model_x pn pv ops h
    · simp only [hr, Bool.false_eq_true, if_false]
      exact twin_run_model_x pn pv ops _

/-- the rule before the repair of the channel-map command: a refused map DID change the handle — the twin statement failed.
    Witness: stereo CAF, map [2, 3] (front left / right, accepted), then [3, 2] (no layout tag, refused) -/
theorem chmap_refused_erases_old_rule :
    (xreopen (xrunOld [] [] (XState.open .caf 2) [.setChmap [2, 3], .setChmap [3, 2]])).chmap = none ∧
    (xreopen (xrunOld [] [] (XState.open .caf 2) [.setChmap [2, 3]])).chmap = some [2, 3] ∧
    (xstepOld [] [] (xrunOld [] [] (XState.open .caf 2) [.setChmap [2, 3]]) (.setChmap [3, 2])).1 = 0 ∧
    (xreopen (xrun [] [] (XState.open .caf 2) [.setChmap [2, 3], .setChmap [3, 2]])).chmap = some [2, 3] := by decide +kernel

end Sf.C12Twin
