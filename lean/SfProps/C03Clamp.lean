/-
  C03 / C05 — the end-of-data clamp of the read wrappers in the C's own 64-bit arithmetic.
  -- properties: C03 C05

  `read_wrapper_safe` (SfProps/C03.lean) is about `Sf.ReadWrap.readTail`, whose product `(frames - rc) * ch` is formed
  over the unbounded integers.  The thorough tier of C03 found the call on which the C's int64 product wraps
  (findings/kf_c03_read_clamp_overflow.txt): a modelling gap of ours — the model was tidier than the code — and a
  genuine memory error of the code, introduced by our own repair fc49efc and repaired by 58598c2.

    * `read_clamp_c_is_model`      the repaired C clamp equals the integer model on every call inside the API contract
                                   (so `read_wrapper_safe` speaks about the repaired C), for EVERY frame count below 2^63
    * `read_clamp_c_safe`          hence the repaired clamp is Safe
    * `read_clamp_overflow_old_rule`   the old clamp on the thorough tier's witness: a zero fill at a negative offset
    * `read_clamp_old_rule_agrees_small`  outside the class `KF.hugeFrames` the old clamp was the model too
-/
import SfModel.ReadWrapC
import SfProps.C03
namespace Sf.C03Clamp
open Sf.ReadWrap Sf.C03

theorem wrapS64_id {x : Int} (h0 : 0 ≤ x) (h1 : x < 2 ^ 63) : wrapS 64 x = x := by
  unfold wrapS
  have hm : (2 : Int) ^ 64 = 18446744073709551616 := by decide
  have h63 : (2 : Int) ^ 63 = 9223372036854775808 := by decide
  simp only [hm]
  rw [h63] at h1
  have : x % 18446744073709551616 = x := Int.emod_eq_of_lt h0 (by omega)
  rw [this]
  have : (18446744073709551616 : Int) / 2 = 9223372036854775808 := by decide
  rw [this]
  simp [h1]

/-- a call inside the API contract: the handle is a read handle below the end, counts fit `sf_count_t`,
    the request is whole frames, and the codec answered between 0 and the request -/
structure Contract (h : H) (k : Kind) (n c : Int) : Prop where
  ch : 1 ≤ h.ch
  rc0 : 0 ≤ h.rc
  below : h.rc < h.frames
  frames63 : h.frames < 2 ^ 63
  n0 : 0 ≤ n
  cap63 : capacity h k n < 2 ^ 63
  aligned : k = .items → Int.tmod n h.ch = 0
  c0 : 0 ≤ c
  c1 : c ≤ capacity h k n

theorem cap_eq_req_mul (h : H) (k : Kind) (n : Int) (hal : k = .items → Int.tmod n h.ch = 0) :
    capacity h k n = reqFrames h k n * h.ch := by
  cases k
  · simp only [capacity, reqFrames]
    have := hal rfl
    have h2 := Int.mul_tdiv_add_tmod n h.ch
    rw [this, Int.add_zero] at h2
    rw [Int.mul_comm]; exact h2.symm
  · simp [capacity, reqFrames]

/-- THE TIE: for every call inside the contract — any frame count below 2^63 — the repaired C clamp computes what the
    integer model computes. -/
theorem read_clamp_c_is_model (h : H) (k : Kind) (n c : Int) (hc : Contract h k n c) :
    readTailC h k n c = readTail h k n c := by
  obtain ⟨hch, hrc0, hlt, hf63, hn0, hcap63, hal, hc0, hc1⟩ := hc
  have hcap := cap_eq_req_mul h k n hal
  have hrem : 0 < h.frames - h.rc := by omega
  rw [readTailC_def]
  by_cases hge : h.frames - h.rc ≥ reqFrames h k n
  · -- enough frames remain: the product is never formed, and the model's test is true
    have hle : c ≤ (h.frames - h.rc) * h.ch := by
      have : reqFrames h k n * h.ch ≤ (h.frames - h.rc) * h.ch :=
        Int.mul_le_mul_of_nonneg_right hge (by omega)
      omega
    have : decide (h.frames - h.rc ≥ reqFrames h k n ∨ c ≤ remItemsC h) = true := by
      simp [hge]
    rw [this, tailWith_true]
    unfold readTail
    simp only [hle, if_true]
    try rfl
  · -- fewer than requested remain: the product is below the request, hence below 2^63
    have hlt2 : h.frames - h.rc < reqFrames h k n := by omega
    have hprod : (h.frames - h.rc) * h.ch < reqFrames h k n * h.ch :=
      Int.mul_lt_mul_of_pos_right hlt2 (by omega)
    have hp0 : 0 ≤ (h.frames - h.rc) * h.ch := Int.mul_nonneg (by omega) (by omega)
    have hw : remItemsC h = (h.frames - h.rc) * h.ch := wrapS64_id hp0 (by omega)
    by_cases hle : c ≤ (h.frames - h.rc) * h.ch
    · have : decide (h.frames - h.rc ≥ reqFrames h k n ∨ c ≤ remItemsC h) = true := by
        simp [hw, hle]
      rw [this, tailWith_true]
      unfold readTail
      simp only [hle, if_true]
      try rfl
    · have : decide (h.frames - h.rc ≥ reqFrames h k n ∨ c ≤ remItemsC h) = false := by
        simp [hw, hle, hge]
      rw [this, tailWith_false, hw]
      unfold readTail
      simp only [hle, if_false]
      try rfl

/-- hence the repaired clamp is Safe (zero fills inside the buffer, return in [0, requested], position ≤ frames) -/
theorem read_clamp_c_safe (h : H) (k : Kind) (n c : Int) (hc : Contract h k n c) :
    Safe h (capacity h k n) n (readTailC h k n c) := by
  rw [read_clamp_c_is_model h k n c hc]
  exact safe_tail h k n c hc.ch hc.below hc.c0 hc.c1

/-- the thorough tier's witness: 8936830510563328500 frames announced, 2 channels, sf_readf_float of 64 frames -/
def hugeH : H := { rc := 0, frames := 8936830510563328500, ch := 2 }

example : Contract hugeH .frames 64 128 := by
  refine ⟨by decide, by decide, by decide, by decide, by decide, by decide, (by intro h; cases h), by decide, by decide⟩

/-- OLD RULE (fc49efc … 58598c2): the product wraps to −573083052582894616, the clamp takes the "beyond the end" branch
    and zero-fills from that negative offset — the memset ASan reported. -/
theorem read_clamp_overflow_old_rule :
    (readTailOldC hugeH .frames 64 128).zeroed = [(-573083052582894616, 128 + 573083052582894616)] ∧
    ¬ Safe hugeH (capacity hugeH .frames 64) 64 (readTailOldC hugeH .frames 64 128) := by
  have hz : (readTailOldC hugeH .frames 64 128).zeroed = [(-573083052582894616, 128 + 573083052582894616)] := by
    decide +kernel
  refine ⟨hz, ?_⟩
  intro hs
  have := hs.1 (-573083052582894616, 128 + 573083052582894616) (by rw [hz]; exact List.mem_singleton.mpr rfl)
  omega

/-- the same call through the repaired clamp: 64 frames delivered, nothing zeroed -/
theorem read_clamp_witness_repaired :
    (readTailC hugeH .frames 64 128).ret = 64 ∧ (readTailC hugeH .frames 64 128).zeroed = [] := by
  decide +kernel

/-- the class of the defect: the remaining frames times the channel count leave int64 -/
def KF.hugeFrames (h : H) : Prop := 2 ^ 63 ≤ (h.frames - h.rc) * h.ch

/-- outside the class the old clamp computed the model too (so nothing else changed with the repair) -/
theorem read_clamp_old_rule_agrees_small (h : H) (k : Kind) (n c : Int) (hc : Contract h k n c)
    (hsmall : ¬ KF.hugeFrames h) : readTailOldC h k n c = readTail h k n c := by
  obtain ⟨hch, hrc0, hlt, hf63, hn0, hcap63, hal, hc0, hc1⟩ := hc
  have hp0 : 0 ≤ (h.frames - h.rc) * h.ch := Int.mul_nonneg (by omega) (by omega)
  have hw : remItemsC h = (h.frames - h.rc) * h.ch := wrapS64_id hp0 (by unfold KF.hugeFrames at hsmall; omega)
  rw [readTailOldC_def, hw]
  by_cases hle : c ≤ (h.frames - h.rc) * h.ch
  · simp only [hle, decide_true]
    rw [tailWith_true]; unfold readTail; simp only [hle, if_true]
    try rfl
  · simp only [hle, decide_false]
    rw [tailWith_false, hw]; unfold readTail; simp only [hle, if_false]
    try rfl

end Sf.C03Clamp
