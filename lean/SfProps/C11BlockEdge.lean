/-
  C11 — crash points exactly ON a codec block boundary ("a frame count equal to the frames written so far, rounded
  down to whole blocks").

  The clause of the predicate is `Sf.AbsWrite.snapFramesOk` (floorToBlock Nk B ≤ F): the image must hold ALL
  complete blocks of the frames handed over so far.  The header update of a block codec computes the data length from
  the bytes that are in the file, so the clause holds exactly when the block writer has EMITTED every complete block at
  the moment a write call returns.  This file proves that for the generic block writer `Sf.Block.Writer` (the model of
  `*_write_block` of gsm610.c, ima_adpcm.c, ms_adpcm.c, g72x.c, nms_adpcm.c, paf.c, sds.c: the test "buffer full ->
  encode" sits at the BOTTOM of the copy loop), for any encoder, any call sizes and any staging:

    * `write_leaves_no_full_block` / `wcall_leaves_no_full_block`: after a call the pending count is below the block
      size, and the number of emitted blocks is (frames so far) / spb, the pending count (frames so far) % spb;
    * `session_all_complete_blocks`: from `init`, after any sequence of calls, `out.length = total / spb`;
    * `gsm_session_all_complete_blocks`: the instance for gsm610.c (both block layouts);
    * `lazy_rule_defers_block`: the loop with the test at the TOP (encode the full buffer "to make room" when the next
      sample arrives; the regression of seed C11-gsm-full-block-deferred) is not: a call that fills the block exactly
      leaves it pending, so the image after a header update is one block short.

  The campaign side is vlib/blockedge.py (crash points ON / one frame before / one frame behind a boundary, every block
  codec, both update modes, deterministic).
-/
import SfProofs.BlockWriter
import SfModel.BlockFile
import SfModel.GsmFile
namespace Sf.C11BlockEdge
open Sf Sf.Block Sf.Block.Proofs

variable {σ : Type}

/-- frames the writer has been handed so far, as its own counters account for them -/
def framesSoFar (w : Writer σ) (st : WState σ) : Nat := st.nblk * w.spb + st.cnt

/-- between calls: no full block is pending, and every counted block is in `out` -/
structure Acc (w : Writer σ) (st : WState σ) : Prop where
  cnt : st.cnt < w.spb
  out : st.out.length = st.nblk

theorem pushFrame_acc (w : Writer σ) (st : WState σ) (fr : List Int) (a : Acc w st) :
    Acc w (pushFrame w st fr) ∧ framesSoFar w (pushFrame w st fr) = framesSoFar w st + 1 := by
  unfold pushFrame
  simp only
  by_cases h : st.cnt + 1 ≥ w.spb
  · rw [if_pos h]
    have he : st.cnt + 1 = w.spb := by have := a.cnt; omega
    refine ⟨⟨?_, ?_⟩, ?_⟩
    · rw [emit_cnt]; have := a.cnt; omega
    · simp [Writer.emit, a.out]
    · simp only [framesSoFar, Writer.emit, Nat.add_mul, Nat.one_mul]
      omega
  · rw [if_neg h]
    refine ⟨⟨by simpa using Nat.lt_of_not_ge h, a.out⟩, ?_⟩
    simp only [framesSoFar]
    omega

theorem fold_acc (w : Writer σ) : ∀ (fs : List (List Int)) (st : WState σ), Acc w st →
    Acc w (fs.foldl (pushFrame w) st) ∧ framesSoFar w (fs.foldl (pushFrame w) st) = framesSoFar w st + fs.length := by
  intro fs
  induction fs with
  | nil => intro st a; exact ⟨a, rfl⟩
  | cons f fs ih =>
    intro st a
    obtain ⟨a1, h1⟩ := pushFrame_acc w st f a
    obtain ⟨a2, h2⟩ := ih _ a1
    simp only [List.foldl_cons, List.length_cons]
    exact ⟨a2, by rw [h2, h1]; omega⟩

/-- the counters determine blocks and remainder -/
theorem acc_div_mod (w : Writer σ) (st : WState σ) (a : Acc w st) :
    st.nblk = framesSoFar w st / w.spb ∧ st.cnt = framesSoFar w st % w.spb := by
  have hp : 0 < w.spb := Nat.lt_of_le_of_lt (Nat.zero_le _) a.cnt
  unfold framesSoFar
  constructor
  · rw [Nat.mul_comm, Nat.mul_add_div hp, Nat.div_eq_of_lt a.cnt, Nat.add_zero]
  · rw [Nat.mul_comm, Nat.mul_add_mod, Nat.mod_eq_of_lt a.cnt]

/-- C11, block writer: when a write call of whole frames returns, NO complete block is pending — the emitted blocks are
    all complete blocks of the frames handed over so far, the buffer holds the remainder -/
theorem write_leaves_no_full_block (w : Writer σ) (wf : WWF w) (st : WState σ) (fs : List (List Int))
    (inv : WInv w st) (hout : st.out.length = st.nblk) (hu : Uniform w.ch fs) :
    let st' := w.write st fs.flatten
    st'.cnt < w.spb ∧ st'.out.length = (framesSoFar w st + fs.length) / w.spb ∧
      st'.cnt = (framesSoFar w st + fs.length) % w.spb ∧ WInv w st' ∧ st'.out.length = st'.nblk := by
  intro st'
  obtain ⟨h1, h2⟩ := write_fold w wf st fs inv hu
  obtain ⟨a, hf⟩ := fold_acc w fs st ⟨inv.cnt, hout⟩
  have hs : st' = fs.foldl (pushFrame w) st := h1
  obtain ⟨d, m⟩ := acc_div_mod w _ a
  rw [hs]
  exact ⟨a.cnt, by rw [a.out, d, hf], by rw [m, hf], h2, a.out⟩

/-- the same through the staging loop of `*_write_i/f/d` (pieces of `q` whole frames; `q = 0`: one piece) -/
theorem wcall_leaves_no_full_block (w : Writer σ) (wf : WWF w) (q : Nat) (st : WState σ) (fs : List (List Int))
    (inv : WInv w st) (hout : st.out.length = st.nblk) (hu : Uniform w.ch fs) :
    let st' := wcall w (q * w.ch) st fs.flatten
    st'.cnt < w.spb ∧ st'.out.length = (framesSoFar w st + fs.length) / w.spb ∧
      st'.cnt = (framesSoFar w st + fs.length) % w.spb ∧ WInv w st' ∧ st'.out.length = st'.nblk := by
  intro st'
  have hs : st' = fs.foldl (pushFrame w) st := by
    show wcall w (q * w.ch) st fs.flatten = _
    unfold wcall
    simp only
    rw [uniform_flatten_length fs hu]
    exact (writeChunked_fold w wf q _ st fs inv hu (Nat.lt_succ_of_le (Nat.le_mul_of_pos_right _ wf.ch_pos))).1
  have h2 : WInv w (fs.foldl (pushFrame w) st) :=
    (writeChunked_fold w wf q (fs.length + 1) st fs inv hu (Nat.lt_succ_self _)).2
  obtain ⟨a, hf⟩ := fold_acc w fs st ⟨inv.cnt, hout⟩
  obtain ⟨d, m⟩ := acc_div_mod w _ a
  rw [hs]
  exact ⟨a.cnt, by rw [a.out, d, hf], by rw [m, hf], h2, a.out⟩

/-- a session: calls of whole frames, each through the staging of its caller type (`qs` frames per piece) -/
def runCalls (w : Writer σ) (st : WState σ) (calls : List (Nat × List (List Int))) : WState σ :=
  calls.foldl (fun s c => wcall w (c.1 * w.ch) s c.2.flatten) st

def totalFrames (calls : List (Nat × List (List Int))) : Nat := (calls.map (fun c => c.2.length)).sum

theorem runCalls_acc (w : Writer σ) (wf : WWF w) : ∀ (calls : List (Nat × List (List Int))) (st : WState σ),
    WInv w st → st.out.length = st.nblk → (∀ c ∈ calls, Uniform w.ch c.2) →
    let st' := runCalls w st calls
    WInv w st' ∧ st'.out.length = st'.nblk ∧ framesSoFar w st' = framesSoFar w st + totalFrames calls := by
  intro calls
  induction calls with
  | nil => intro st inv ho _; exact ⟨inv, ho, by simp [runCalls, totalFrames]⟩
  | cons c cs ih =>
    intro st inv ho hu
    obtain ⟨_, h2, h3, h4, h5⟩ := wcall_leaves_no_full_block w wf c.1 st c.2 inv ho (hu c (List.mem_cons_self ..))
    have hfr : framesSoFar w (wcall w (c.1 * w.ch) st c.2.flatten) = framesSoFar w st + c.2.length := by
      have hp := wf.spb_pos
      unfold framesSoFar at *
      rw [← h5, h2, h3, Nat.mul_comm]
      exact Nat.div_add_mod _ _
    obtain ⟨i1, i2, i3⟩ := ih _ h4 h5 (fun c' hc' => hu c' (List.mem_cons_of_mem _ hc'))
    refine ⟨i1, i2, ?_⟩
    show framesSoFar w (runCalls w (wcall w (c.1 * w.ch) st c.2.flatten) cs) = _
    rw [i3, hfr]
    simp [totalFrames]
    omega

/-- C11, block writer, whole session: after ANY sequence of write calls from the open on, the blocks in the file are
    exactly the complete blocks of the frames written so far (`total / spb`), whatever the call sizes — in particular
    when the total is a multiple of the block size nothing is pending -/
theorem session_all_complete_blocks (w : Writer σ) (wf : WWF w) (s0 : σ) (calls : List (Nat × List (List Int)))
    (hu : ∀ c ∈ calls, Uniform w.ch c.2) :
    let st := runCalls w (w.init s0) calls
    st.out.length = totalFrames calls / w.spb ∧ st.cnt = totalFrames calls % w.spb ∧
      (totalFrames calls % w.spb = 0 → st.cnt = 0) := by
  intro st
  obtain ⟨i1, i2, i3⟩ := runCalls_acc w wf calls (w.init s0) (init_inv_w w wf s0) (by simp [Writer.init]) hu
  have hz : framesSoFar w (w.init s0) = 0 := by simp [framesSoFar, Writer.init]
  obtain ⟨d, m⟩ := acc_div_mod w _ ⟨i1.cnt, i2⟩
  rw [hz, Nat.zero_add] at i3
  have hm : st.cnt = totalFrames calls % w.spb := by rw [← i3]; exact m
  exact ⟨by rw [← i3]; show (runCalls w (w.init s0) calls).out.length = _; rw [i2]; exact d, hm, fun h => by rw [hm, h]⟩

/-- a two-frame block, one channel, an encoder that stores the low bytes -/
def toy : Writer Unit := ⟨2, 1, fun s b => (s, b.map (fun v => v.toNat % 256))⟩

example : (runCalls toy (toy.init ()) [(0, [[1], [2]]), (1, [[3]]), (0, [[4]])]).out.length = 2 := by
  decide

/-- gsm610.c (AIFF / RAW: 160 frames per block; WAV / WAVEX / W64: 320): after any sequence of write calls the file holds
    `total / spb` blocks -/
theorem gsm_session_all_complete_blocks (c : Gsm.Cfg) (calls : List (Nat × List (List Int)))
    (hu : ∀ cl ∈ calls, Uniform 1 cl.2) :
    let st := runCalls (Gsm.writer c) (Gsm.writeInit c) calls
    st.out.length = totalFrames calls / c.spb ∧ st.cnt = totalFrames calls % c.spb := by
  intro st
  have wf : WWF (Gsm.writer c) := ⟨by simp only [Gsm.writer, Gsm.Cfg.spb]; split <;> decide, by simp [Gsm.writer]⟩
  obtain ⟨h1, h2, _⟩ := session_all_complete_blocks (Gsm.writer c) wf (if c.wav then Gsm.State.initWav else Gsm.State.init) calls hu
  exact ⟨h1, h2⟩

example : ∀ cl ∈ [(0, [[(1 : Int)], [2]]), (4096, [[3]])], Uniform 1 cl.2 := by
  intro cl h
  simp at h
  rcases h with rfl | rfl <;> intro f hf <;> simp at hf <;> (try rcases hf with rfl | rfl) <;> simp_all

/-! ### the lazy loop (regression class of seed C11-gsm-full-block-deferred) -/

/-- `*_write_block` with the test at the TOP of the copy loop: a full buffer is encoded only when more samples arrive -/
def lazyLoop (w : Writer σ) : Nat → WState σ → List Int → Nat → WState σ
  | 0, st, _, _ => st
  | fuel + 1, st, xs, n =>
    if n = 0 then st
    else
      let st0 := if st.cnt ≥ w.spb then w.emit st else st
      let count := min ((w.spb - st0.cnt) * w.ch) n
      let buf := overwrite st0.buf (st0.cnt * w.ch) (xs.take count) count
      let st1 : WState σ := { st0 with buf := buf, cnt := st0.cnt + count / w.ch }
      lazyLoop w fuel st1 (xs.drop count) (n - count)

def lazyWrite (w : Writer σ) (st : WState σ) (xs : List Int) : WState σ := lazyLoop w (xs.length + 1) st xs xs.length

/-- the lazy loop breaks the clause exactly ON the boundary: a call of one block leaves it pending (0 blocks in the file,
    1 complete block written), a call that ends inside a block does not show it, and the flush `cnt > 0` at close makes
    the finished file equal -/
theorem lazy_rule_defers_block :
    (lazyWrite toy (toy.init ()) [1, 2]).out.length = 0 ∧ (toy.write (toy.init ()) [1, 2]).out.length = 1 ∧
    (lazyWrite toy (toy.init ()) [1, 2, 3]).out.length = (toy.write (toy.init ()) [1, 2, 3]).out.length ∧
    (toy.emit (lazyWrite toy (toy.init ()) [1, 2])).out = (toy.write (toy.init ()) [1, 2]).out := by
  decide

end Sf.C11BlockEdge
