/-
  C13 (and the "too late" half of C12): a chunk set after audio has been written is refused and harmless — for EVERY way
  audio can have been written.  Model: SfModel/ChunkWrite.lean (`Sf.ChunkW.writeBy`: the nine write entry points as steps of
  the chunk write handle of SfModel/Chunk.lean).  Property theorems only.
-- properties: C13 C12
-/
import SfModel.ChunkWrite
import SfProps.C13
namespace Sf.C13Late
open Sf Sf.Chunk Sf.ChunkW

/-- a call that passes its guards marks the handle as "audio written", whatever the entry point -/
theorem writeBy_sets_written (h : WHandle) (fn : WriteFn) (e : ChunkW.Enc) (n : Int) (hp : fn.passes e n = true) :
    (writeBy h fn e n).wrote = true := by
  simp [writeBy, hp]

/-- a call refused by its guards (zero / negative count, a partial frame) leaves the handle as it was -/
theorem writeBy_refused_same (h : WHandle) (fn : WriteFn) (e : ChunkW.Enc) (n : Int) (hp : fn.passes e n = false) :
    writeBy h fn e n = h := by
  simp [writeBy, hp]

/-- a write call never touches the write table of the chunks -/
theorem writeBy_keeps_chunks (h : WHandle) (fn : WriteFn) (e : ChunkW.Enc) (n : Int) :
    (writeBy h fn e n).chunks = h.chunks ∧ (writeBy h fn e n).tab = h.tab ∧ (writeBy h fn e n).c = h.c := by
  unfold writeBy; split <;> simp

/-- `have_written` is never cleared by a write call -/
theorem writeBy_mono (h : WHandle) (fn : WriteFn) (e : ChunkW.Enc) (n : Int) (hw : h.wrote = true) :
    (writeBy h fn e n).wrote = true := by
  unfold writeBy; split <;> simp [hw]

/-- FULL STRENGTH, per entry point: after audio written through ANY of the nine entry points `sf_set_chunk` is refused
    and changes nothing on the handle (the write table, hence the header assembled at the next rewrite and at close) -/
theorem late_set_refused_after_any_write (h : WHandle) (fn : WriteFn) (e : ChunkW.Enc) (n : Int) (hp : fn.passes e n = true)
    (id : Id) (payload : List Byte) :
    (writeBy h fn e n).setChunk id payload = (writeBy h fn e n, false) := by
  have hw := writeBy_sets_written h fn e n hp
  simp [WHandle.setChunk, accepts, hw]

theorem writeAll_mono (e : ChunkW.Enc) (cs : List (WriteFn × Int)) : ∀ h : WHandle, h.wrote = true → (writeAll h e cs).wrote = true := by
  induction cs with
  | nil => intro h hw; simpa [writeAll] using hw
  | cons c cs ih => intro h hw; exact ih _ (writeBy_mono h c.1 e c.2 hw)

theorem writeAll_keeps_chunks (e : ChunkW.Enc) (cs : List (WriteFn × Int)) :
    ∀ h : WHandle, (writeAll h e cs).chunks = h.chunks ∧ (writeAll h e cs).tab = h.tab := by
  induction cs with
  | nil => intro h; simp [writeAll]
  | cons c cs ih =>
    intro h
    obtain ⟨a, b, _⟩ := writeBy_keeps_chunks h c.1 e c.2
    obtain ⟨a', b'⟩ := ih (writeBy h c.1 e c.2)
    exact ⟨by rw [writeAll, a', a], by rw [writeAll, b', b]⟩

/-- one passing call anywhere in a history of write calls (any mix of entry points, refused calls in between) is enough -/
theorem writeAll_sets_written (e : ChunkW.Enc) (cs : List (WriteFn × Int)) (hex : ∃ c ∈ cs, c.1.passes e c.2 = true) :
    ∀ h : WHandle, (writeAll h e cs).wrote = true := by
  induction cs with
  | nil => obtain ⟨c, hc, _⟩ := hex; cases hc
  | cons c cs ih =>
    intro h
    obtain ⟨d, hd, hp⟩ := hex
    rcases List.mem_cons.mp hd with rfl | hin
    · exact writeAll_mono e cs _ (writeBy_sets_written h d.1 e d.2 hp)
    · exact ih ⟨d, hin, hp⟩ _

/-- FULL STRENGTH, histories: after ANY history of write calls that stored audio (at least one call got past its guards —
    typed items, typed frames, raw, in any mix) a late `sf_set_chunk` is refused, the chunks set before the audio are all
    still there, and nothing else on the handle changed -/
theorem late_set_refused_after_history (h : WHandle) (e : ChunkW.Enc) (cs : List (WriteFn × Int))
    (hex : ∃ c ∈ cs, c.1.passes e c.2 = true) (id : Id) (payload : List Byte) :
    (writeAll h e cs).setChunk id payload = (writeAll h e cs, false) ∧ (writeAll h e cs).chunks = h.chunks := by
  have hw := writeAll_sets_written e cs hex h
  exact ⟨by simp [WHandle.setChunk, accepts, hw], (writeAll_keeps_chunks e cs h).1⟩

/-- … hence the header written at the next rewrite / at close is the one the audio was written behind and the audio is
    byte for byte what was stored (C13.late_set_harmless, for every entry point) -/
theorem late_set_harmless_every_entry_point (h : WHandle) (e : ChunkW.Enc) (cs : List (WriteFn × Int))
    (hex : ∃ c ∈ cs, c.1.passes e c.2 = true) (id : Id) (payload hdr audio : List Byte)
    (hdrOf : List WChunk → List Byte) (hh : hdr = hdrOf (writeAll h e cs).chunks) :
    audioAfter hdr (hdrOf ((writeAll h e cs).setChunk id payload).1.chunks) audio = audio := by
  rw [(late_set_refused_after_history h e cs hex id payload).1, ← hh]
  exact C13.late_set_harmless_partial hdr hdr audio rfl

/-- the rule with ONE entry point's assignment lost (the seeded regression, `lost = .raw`): a history that used only that entry
    point leaves `have_written` clear and the late chunk is accepted — the full statement fails for that rule -/
theorem lost_assignment_accepts_late_chunk (lost : WriteFn) (e : ChunkW.Enc) (n : Int) :
    ((writeByLost lost (WHandle.init .wav) lost e n).setChunk [108, 97, 116, 101] [7]).2 = true := by
  simp [writeByLost, WHandle.setChunk, WHandle.init, accepts]
  decide

/-- … while every OTHER entry point still protects the file under that rule: only the single-entry-point history shows it -/
theorem lost_assignment_hidden_by_other_entry_point (lost fn : WriteFn) (e : ChunkW.Enc) (n : Int) (hne : fn ≠ lost)
    (hp : fn.passes e n = true) (h : WHandle) (id : Id) (payload : List Byte) :
    ((writeByLost lost h fn e n).setChunk id payload).2 = false := by
  have : (fn != lost) = true := by simpa using hne
  simp [writeByLost, WHandle.setChunk, accepts, hp, this]

/-! ## non-vacuity -/

/-- 16-bit mono: 5 items through sf_write_short, 3 frames through sf_writef_double, 6 bytes through sf_write_raw all pass; a
    partial frame of raw bytes and a zero count do not -/
example : (WriteFn.typed .s16 false).passes ⟨1, 2⟩ 5 = true ∧ (WriteFn.typed .f64 true).passes ⟨1, 2⟩ 3 = true ∧
    WriteFn.raw.passes ⟨1, 2⟩ 6 = true ∧ WriteFn.raw.passes ⟨1, 2⟩ 5 = false ∧ WriteFn.raw.passes ⟨2, 3⟩ 12 = true ∧
    (WriteFn.typed .s32 false).passes ⟨2, 2⟩ 3 = false ∧ (WriteFn.typed .s32 true).passes ⟨2, 2⟩ 0 = false := by decide

/-- every one of the nine entry points, used alone, makes the late chunk refused and keeps the early chunk -/
example : WriteFn.all.all (fun fn =>
    let h := ((WHandle.init .caf).setChunk [101, 114, 108, 121] [1, 2]).1
    let h' := writeBy h fn ⟨1, 2⟩ 6
    (h'.setChunk [108, 97, 116, 101] [7]).2 == false && h'.chunks.length == 1) = true := by decide

/-- a refused raw write (5 bytes of 16-bit mono) does not count as audio: the chunk is still accepted -/
example : ((writeBy (WHandle.init .wav) .raw ⟨1, 2⟩ 5).setChunk [108, 97, 116, 101] [7]).2 = true := by decide

example : ∃ c ∈ [((WriteFn.raw, (5 : Int))), (WriteFn.typed .f32 true, 2)], c.1.passes ⟨1, 2⟩ c.2 = true :=
  ⟨(WriteFn.typed .f32 true, 2), by simp, by decide⟩

end Sf.C13Late
